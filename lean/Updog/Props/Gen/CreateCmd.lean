/-
cmd/updog/create.go `createCmd`, cmd/updog/main.go (the `RunE` of the `create` sub-command, the exit status),
REGENERATED (`Gen.createCmd`, `Gen.createCmd_k1`, `Gen.createCmd_for1`, `Gen.createRunE`, `Gen.mainExit`) and run on
the explicit world of `Updog/Basic/GoPreludeT8.lean`: for EVERY environment `env` (what the CSV reader yields, which
external calls fail) and EVERY initial file system `fs`, with fuel for the record loop:

* `create_terminates`            — the command never blocks (the deferred `idx.Close()` runs before `tempDB.Close()`);
* `create_existing_untouched`    — no file that existed before is ever opened for writing or removed (both modes;
                                   normal mode relative to a writer whose `Flush` opens exclusively);
* `create_existing_output_fails` — an existing output ⇒ an error is returned; in big mode before any record is read;
* `create_malformed_fails`       — a reader error at any position (or an empty input) ⇒ error, no `Flush`, no complete
                                   index; what is left behind in each mode;
* `create_success`               — `nil` is returned ⇒ the reader ended with `io.EOF`, `AddRow` was called once per
                                   record, in order, with `Gen.recordRow header record`, then `Flush` once — and nothing else
                                   happened to the data;
* `create_temp_removed`          — a temporary file that was created is gone at the end, on every path;
* `create_table`                 — every row of the hand-written decision table `Model/CreateCmd.lean` (16 rows) is what
                                   the regenerated code does in an environment without other failures;
* `main_exit_status`             — `main` turns a returned error into exit status 1, `nil` into 0.
-/
import Updog.Proofs.GenCreateCmd
import Updog.Model.CreateCmd
import Updog.Props.Gen.OpenFile

set_option linter.unusedSimpArgs false
set_option linter.unusedVariables false
namespace Updog.GeneratedEq
open Updog.Go Updog.Go.Cmd

/-- an environment in which nothing fails except what the decision table of `Model/CreateCmd.lean` talks about (the CSV
    and an existing output): the input opens; in big mode a fresh temporary file — not the output path itself — is created
    and opens as a database; bbolt, the writers' `AddRow` and `Flush` have no failure of their own; `Flush` of the
    in-memory writer opens exclusively -/
structure Benign (env : Env) (fs : Bytes → Bool) (cfg : createConfig) : Prop where
  input : (fs cfg.inputFile && !env.unreadable cfg.inputFile) = true
  temp : cfg.big = true → ∃ n, env.tempName = some n ∧ fs n = false ∧ n ≠ cfg.outputFile ∧ env.boltFails n = false
  boltOut : env.boltFails cfg.outputFile = false
  writer : env.bigWriterFails = false
  addRow : ∀ k, env.addRowFails k = false
  flush : env.flushFails = false
  excl : env.flushExcl = true

/-- what a run of `createCmd` from the world `World.start env fs` must satisfy; `R` = (returned error, final world) -/
structure CreateSpec (toLower : Nat → Nat) (env : Env) (fs : Bytes → Bool) (cfg : createConfig)
    (R : Option Err5 × World) : Prop where
  terminates : R.2.stopped = none
  env_same : R.2.env = env
  existing_safe : (cfg.big = true ∨ env.flushExcl = true) →
    ∀ p, fs p = true → R.2.fs.present p = true ∧ R.2.fs.touched p = false
  existing_output : fs cfg.outputFile = true → (cfg.big = true ∨ env.flushExcl = true) → R.1 ≠ none
  big_before_records : cfg.big = true → fs cfg.outputFile = true → R.2.data.length ≤ 1
  malformed : (env.csvEnd ≠ .EOF ∨ env.csv = []) → R.1 ≠ none ∧ ∀ b, Event.flush b ∉ R.2.trace
  malformed_normal : cfg.big = false → (env.csvEnd ≠ .EOF ∨ env.csv = []) → R.2.fs = (World.start env fs).fs
  big_present : cfg.big = true → ∀ p, p ≠ cfg.outputFile → R.2.fs.present p = fs p
  success : R.1 = none → env.csvEnd = .EOF ∧ ∃ h recs, env.csv = h :: recs ∧
    R.2.data = .csvRead (some h) :: (rowEvents (Gen.normalizeHeader toLower h) recs ++ [.csvRead none, .flush true]) ∧
    R.2.fs.complete cfg.outputFile = true ∧ R.2.fs.present cfg.outputFile = true
  failure_incomplete : R.1 ≠ none → ∀ p, R.2.fs.complete p = false
  temp_removed : ∀ n, Event.createTemp (some n) ∈ R.2.trace → R.2.fs.present n = false
  temp_only_big : cfg.big = false → ∀ o, Event.createTemp o ∉ R.2.trace
  header_fail_fs : env.csv = [] → R.2.fs = (World.start env fs).fs
  exact_ok : Benign env fs cfg → env.csv ≠ [] → env.csvEnd = .EOF → fs cfg.outputFile = false → R.1 = none
  touched_out : Benign env fs cfg → R.2.fs.touched cfg.outputFile = false
  big_output_created : Benign env fs cfg → cfg.big = true → env.csv ≠ [] → fs cfg.outputFile = false →
    R.2.fs.present cfg.outputFile = true

/-- closes a goal `Benign env fs cfg → …` on a path that a benign environment does not take (or where the claim follows
    from the hypotheses by rewriting) -/
macro "benign_contra" : tactic =>
  `(tactic| (
      intro hB
      try intros
      have h1 := Benign.input hB
      have h2 := Benign.temp hB
      have h3 := Benign.boltOut hB
      have h4 := Benign.writer hB
      have h5 := Benign.flush hB
      have h6 := Benign.excl hB
      simp_all))

section
variable (toLower : Nat → Nat) (fuel : Nat) (g : globalConfig) (cfg : createConfig) (env : Env) (fs : Bytes → Bool)

/-! ### the paths that end before a writer exists -/

theorem spec_noInput (hin : (fs cfg.inputFile && !env.unreadable cfg.inputFile) = false) :
    CreateSpec toLower env fs cfg (Gen.createCmd toLower fuel (World.start env fs) g cfg) := by
  constructor <;>
    simp [Gen.createCmd, World.start, osOpen, act, hin, log, World.data, Event.isData]
  all_goals benign_contra

theorem spec_noHeader (hin : (fs cfg.inputFile && !env.unreadable cfg.inputFile) = true) (hh : env.csv = []) :
    CreateSpec toLower env fs cfg (Gen.createCmd toLower fuel (World.start env fs) g cfg) := by
  constructor <;>
    simp [Gen.createCmd, World.start, osOpen, act, hin, log, World.data, Event.isData, csvRead, hh, fileClose, List.filter_cons]
  all_goals benign_contra

/-! ### normal mode -/

/-- the world after the input was opened and the header line `h` read -/
def afterHeader (w : World) (inp : Bytes) (h : List Bytes) : World :=
  log { log w (.osOpen inp true) with csvPos := w.csvPos + 1 } (.csvRead (some h))

/-- normal mode, once the header is read: `NewIndexWriter(output)` (touches nothing), then the rest of the function
    (`Gen.createCmd_k1`), then the deferred `f.Close()` -/
theorem createCmd_normal (hin : (fs cfg.inputFile && !env.unreadable cfg.inputFile) = true)
    (h : List Bytes) (recs : List (List Bytes)) (hh : env.csv = h :: recs) (hb : cfg.big = false) :
    Gen.createCmd toLower fuel (World.start env fs) g cfg =
      ((Gen.createCmd_k1 toLower fuel (afterHeader (World.start env fs) cfg.inputFile h) g (Gen.normalizeHeader toLower h)
          (.mem ⟨cfg.outputFile⟩) ⟨⟨cfg.inputFile⟩⟩).1,
       (fileClose (Gen.createCmd_k1 toLower fuel (afterHeader (World.start env fs) cfg.inputFile h) g (Gen.normalizeHeader toLower h)
          (.mem ⟨cfg.outputFile⟩) ⟨⟨cfg.inputFile⟩⟩).2 ⟨cfg.inputFile⟩).1) := by
  simp [Gen.createCmd, World.start, osOpen, act, hin, csvRead, hh, hb, afterHeader, csvNewReader, newIndexWriter, log]

theorem not_loop_of_createTemp {e : Event} {o : Option Bytes} (h : e = .createTemp o) : e.isLoop = false := by
  subst h; rfl

theorem spec_normal (hin : (fs cfg.inputFile && !env.unreadable cfg.inputFile) = true)
    (h : List Bytes) (recs : List (List Bytes)) (hh : env.csv = h :: recs) (hb : cfg.big = false)
    (hfuel : env.csv.length ≤ fuel) :
    CreateSpec toLower env fs cfg (Gen.createCmd toLower fuel (World.start env fs) g cfg) := by
  rw [createCmd_normal toLower fuel g cfg env fs hin h recs hh hb]
  have TM := k1_mem toLower fuel g (Gen.normalizeHeader toLower h) ⟨⟨cfg.inputFile⟩⟩ cfg.outputFile
    (afterHeader (World.start env fs) cfg.inputFile h) (by simp [afterHeader, World.start]) (by simp [afterHeader, World.start])
    recs (by simp [afterHeader, World.start, hh]) (by rw [hh] at hfuel; simp at hfuel; omega)
  generalize Gen.createCmd_k1 toLower fuel (afterHeader (World.start env fs) cfg.inputFile h) g (Gen.normalizeHeader toLower h)
    (.mem ⟨cfg.outputFile⟩) ⟨⟨cfg.inputFile⟩⟩ = K at TM
  have hWp : (afterHeader (World.start env fs) cfg.inputFile h).fs.present = fs := rfl
  have hWt : (afterHeader (World.start env fs) cfg.inputFile h).fs.touched = fun _ => false := rfl
  have hWc : (afterHeader (World.start env fs) cfg.inputFile h).fs.complete = fun _ => false := rfl
  have hWfs : (afterHeader (World.start env fs) cfg.inputFile h).fs = (World.start env fs).fs := rfl
  have hWenv : (afterHeader (World.start env fs) cfg.inputFile h).env = env := rfl
  have hWtr : (afterHeader (World.start env fs) cfg.inputFile h).trace = [.osOpen cfg.inputFile true, .csvRead (some h)] := rfl
  have hWra : (afterHeader (World.start env fs) cfg.inputFile h).rowsAdded = 0 := rfl
  generalize afterHeader (World.start env fs) cfg.inputFile h = W at TM hWp hWt hWc hWfs hWenv hWtr hWra
  obtain ⟨evs, htr, hevs, hdata, hnoflush, hbad⟩ := TM.trace
  have hR2 : (fileClose K.2 ⟨cfg.inputFile⟩).1 = log K.2 (.fileClose cfg.inputFile) := by
    rw [fileClose_run _ TM.stopped]
  simp only [hR2]
  have hnoTemp : ∀ o, Event.createTemp o ∉ (log K.2 (.fileClose cfg.inputFile)).trace := by
    intro o hm
    simp only [log_trace, htr, hWtr, List.mem_append, List.mem_cons, List.mem_nil_iff, or_false] at hm
    rcases hm with ((hm | hm) | hm) | hm
    · cases hm
    · cases hm
    · rcases hevs _ hm with hl | hl <;> simp [Event.isLoop, Event.isMemFlush] at hl
    · cases hm
  refine ⟨TM.stopped, by simp [TM.env, hWenv], ?_, ?_, by simp [hb], ?_, ?_, by simp [hb], ?_, ?_, ?_, ?_,
    (fun hc => by rw [hh] at hc; cases hc), ?_, ?_, (fun _ hbb => by simp [hb] at hbb)⟩
  · -- existing_safe
    rintro (hbb | hx) p hp
    · simp [hb] at hbb
    · by_cases hpo : p = cfg.outputFile
      · subst hpo
        have := (TM.blocked (by simpa [hWp] using hp) (by simpa [hWenv] using hx)).2
        simp [this, hWp, hWt, hp]
      · have := TM.other p hpo
        simp [this, hWp, hWt, hp]
  · -- existing_output
    rintro ho (hbb | hx)
    · simp [hb] at hbb
    · exact (TM.blocked (by simpa [hWp] using ho) (by simpa [hWenv] using hx)).1
  · -- malformed
    rintro (hc | hc)
    · have hbad' := TM.badInput (Or.inl (by simpa [hWenv] using hc))
      refine ⟨hbad'.1, ?_⟩
      intro b hm
      simp only [log_trace, htr, hWtr, List.mem_append, List.mem_cons, List.mem_nil_iff, or_false] at hm
      rcases hm with ((hm | hm) | hm) | hm
      · cases hm
      · cases hm
      · have := hbad (Or.inl (by simpa [hWenv] using hc)) _ hm; simp [Event.isLoop] at this
      · cases hm
    · rw [hh] at hc; cases hc
  · -- malformed_normal
    rintro _ (hc | hc)
    · simp [(TM.badInput (Or.inl (by simpa [hWenv] using hc))).2, hWfs]
    · rw [hh] at hc; cases hc
  · -- success
    intro hn
    obtain ⟨h1, h2, h3, _⟩ := TM.ok hn
    refine ⟨by simpa [hWenv] using h1, h, recs, hh, ?_, by simpa using h2, by simpa using h3⟩
    simp only [World.data, log_trace, htr, hWtr, List.filter_append, hdata hn]
    simp [List.filter_cons, Event.isData]
  · -- failure_incomplete
    intro hn p
    by_cases hpo : p = cfg.outputFile
    · subst hpo; simp [TM.failed hn, hWc]
    · simp [(TM.other p hpo).2.2, hWc]
  · -- temp_removed
    intro n hm; exact absurd hm (hnoTemp _)
  · intro _ o; exact hnoTemp o
  · -- exact_ok
    intro hB _ he ho
    exact TM.exact (by simpa [hWenv] using he) (fun j _ => by simpa [hWenv] using hB.addRow _) (by simpa [hWenv] using hB.flush)
      (by simpa [hWenv] using hB.boltOut) (by simp [hWp, ho])
  · -- touched_out
    intro hB
    cases hq : K.2.fs.touched cfg.outputFile with
    | false => simp [hq]
    | true =>
      rcases TM.touched hq with ht' | ⟨_, ht'⟩
      · simp [hWt] at ht'
      · rw [hWenv, hB.excl] at ht'; cases ht'

/-! ### big mode: the paths that end before the record loop -/

/-- everything the brute-force evaluation of `Gen.createCmd` on an explicit world unfolds -/
macro "create_eval" "[" ts:Lean.Parser.Tactic.simpLemma,* "]" : tactic =>
  `(tactic| simp [Gen.createCmd, World.start, osOpen, act, csvRead, osCreateTemp, fileClose, log, boltOpen, openFile,
      posix_mustExist_present, posix_excl_present, posix_excl_absent, setAt, boltClose, osRemove, newBigIndexWriter,
      bigWriterClose, World.data, Event.isData, List.filter_cons, csvNewReader, $ts,*])

theorem spec_big_noTemp (hin : (fs cfg.inputFile && !env.unreadable cfg.inputFile) = true)
    (h : List Bytes) (recs : List (List Bytes)) (hh : env.csv = h :: recs) (hb : cfg.big = true)
    (ht : env.tempName = none ∨ ∃ n, env.tempName = some n ∧ fs n = true) :
    CreateSpec toLower env fs cfg (Gen.createCmd toLower fuel (World.start env fs) g cfg) := by
  rcases ht with ht | ⟨n, ht, hn⟩
  · constructor <;> create_eval [hin, hh, hb, ht]
    all_goals benign_contra
  · constructor <;> create_eval [hin, hh, hb, ht, hn]
    all_goals benign_contra

theorem ne_of_fresh {fs : Bytes → Bool} {n p : Bytes} (hn : fs n = false) (hp : fs p = true) : p ≠ n := by
  intro hc; rw [hc, hn] at hp; cases hp

theorem spec_big_tempDB (hin : (fs cfg.inputFile && !env.unreadable cfg.inputFile) = true)
    (h : List Bytes) (recs : List (List Bytes)) (hh : env.csv = h :: recs) (hb : cfg.big = true)
    (n : Bytes) (ht : env.tempName = some n) (hn : fs n = false) (hbn : env.boltFails n = true) :
    CreateSpec toLower env fs cfg (Gen.createCmd toLower fuel (World.start env fs) g cfg) := by
  constructor <;> create_eval [hin, hh, hb, ht, hn, hbn]
  all_goals first | benign_contra | (intro p hp; by_cases hpn : p = n <;> simp_all)

/-- big mode, the exclusive open of the output fails: an existing output (i), the temporary file happens to have the
    output's name (ii), or bbolt fails on the freshly created file (iii) -/
theorem spec_big_outFails (hin : (fs cfg.inputFile && !env.unreadable cfg.inputFile) = true)
    (h : List Bytes) (recs : List (List Bytes)) (hh : env.csv = h :: recs) (hb : cfg.big = true)
    (n : Bytes) (ht : env.tempName = some n) (hn : fs n = false) (hbn : env.boltFails n = false)
    (ho : fs cfg.outputFile = true ∨ cfg.outputFile = n ∨ env.boltFails cfg.outputFile = true) :
    CreateSpec toLower env fs cfg (Gen.createCmd toLower fuel (World.start env fs) g cfg) := by
  by_cases ho1 : fs cfg.outputFile = true
  · have hne : cfg.outputFile ≠ n := ne_of_fresh hn ho1
    constructor <;> create_eval [hin, hh, hb, ht, hn, hbn, ho1, hne]
    all_goals first | benign_contra | (intro p hp; by_cases hpn : p = n <;> simp_all)
  · have ho1' : fs cfg.outputFile = false := by simpa using ho1
    by_cases ho2 : cfg.outputFile = n
    · constructor <;> create_eval [hin, hh, hb, ht, hn, hbn, ho1', ho2]
      all_goals first | benign_contra | (intro p hp; by_cases hpn : p = n <;> simp_all)
    · have ho3 : env.boltFails cfg.outputFile = true := by
        rcases ho with ho | ho | ho
        · exact absurd ho ho1
        · exact absurd ho ho2
        · exact ho
      constructor <;> create_eval [hin, hh, hb, ht, hn, hbn, ho1', ho2, ho3]
      all_goals first | benign_contra | (intro p hp; by_cases hpn : p = n <;> simp_all)

theorem spec_big_writerFails (hin : (fs cfg.inputFile && !env.unreadable cfg.inputFile) = true)
    (h : List Bytes) (recs : List (List Bytes)) (hh : env.csv = h :: recs) (hb : cfg.big = true)
    (n : Bytes) (ht : env.tempName = some n) (hn : fs n = false) (hbn : env.boltFails n = false)
    (ho1 : fs cfg.outputFile = false) (ho2 : cfg.outputFile ≠ n) (ho3 : env.boltFails cfg.outputFile = false)
    (hw : env.bigWriterFails = true) :
    CreateSpec toLower env fs cfg (Gen.createCmd toLower fuel (World.start env fs) g cfg) := by
  have ho2' : n ≠ cfg.outputFile := fun hc => ho2 hc.symm
  constructor <;> create_eval [hin, hh, hb, ht, hn, hbn, ho1, ho2, ho2', ho3, hw]
  all_goals first | benign_contra | (intro p hp; by_cases hpn : p = n <;> simp_all)

/-! ### big mode: the record loop is reached -/

/-- big mode, the world in which the rest of the function (`Gen.createCmd_k1`) starts: the input is open and its
    header `h` read; the temporary file `n` was created, closed and opened (must exist) as a database; the output `out` was
    created by the exclusive open — BEFORE any record is read —; the big writer holds a write transaction on `n` -/
def bigSetup (env : Env) (fs : Bytes → Bool) (inp out n : Bytes) (h : List Bytes) : World :=
  { env := env,
    fs := { present := setAt (setAt fs n true) out true, touched := setAt (fun _ => false) n true,
            complete := fun _ => false, txOpen := setAt (fun _ => false) n true },
    csvPos := 1, rowsAdded := 0, stopped := none,
    trace := [.osOpen inp true, .csvRead (some h), .createTemp (some n), .fileClose n,
              .boltOpen n 384 .mustExist true, .boltOpen out 420 .excl true, .newBigWriter out n true] }

/-- the deferred calls of big mode, in the order in which they run: `idx.Close()`, `db.Close()`, `tempDB.Close()`,
    `os.Remove(tempFile.Name())`, `f.Close()` -/
def bigCleanup (w : World) (inp out n : Bytes) : World :=
  (fileClose (osRemove (boltClose (boltClose (bigWriterClose w ⟨⟨out⟩, ⟨n⟩⟩).1 ⟨out⟩).1 ⟨n⟩).1 n).1 ⟨inp⟩).1

theorem createCmd_big (hin : (fs cfg.inputFile && !env.unreadable cfg.inputFile) = true)
    (h : List Bytes) (recs : List (List Bytes)) (hh : env.csv = h :: recs) (hb : cfg.big = true)
    (n : Bytes) (ht : env.tempName = some n) (hn : fs n = false) (hbn : env.boltFails n = false)
    (ho1 : fs cfg.outputFile = false) (ho2 : cfg.outputFile ≠ n) (ho3 : env.boltFails cfg.outputFile = false)
    (hw : env.bigWriterFails = false) :
    Gen.createCmd toLower fuel (World.start env fs) g cfg =
      ((Gen.createCmd_k1 toLower fuel (bigSetup env fs cfg.inputFile cfg.outputFile n h) g (Gen.normalizeHeader toLower h)
          (.big ⟨⟨cfg.outputFile⟩, ⟨n⟩⟩) ⟨⟨cfg.inputFile⟩⟩).1,
       bigCleanup (Gen.createCmd_k1 toLower fuel (bigSetup env fs cfg.inputFile cfg.outputFile n h) g (Gen.normalizeHeader toLower h)
          (.big ⟨⟨cfg.outputFile⟩, ⟨n⟩⟩) ⟨⟨cfg.inputFile⟩⟩).2 cfg.inputFile cfg.outputFile n) := by
  have ho2' : n ≠ cfg.outputFile := fun hc => ho2 hc.symm
  simp only [Gen.createCmd, World.start, osOpen, act, csvRead, osCreateTemp, log, boltOpen, openFile,
    posix_mustExist_present, posix_excl_absent, newBigIndexWriter, csvNewReader, bigSetup, bigCleanup]
  simp [hin, hh, hb, ht, hn, hbn, ho1, ho2, ho2', ho3, hw, setAt_idem, setAt_same, setAt_other _ _ _ _ ho2, fileClose, act, log,
    posix_mustExist_present, posix_excl_absent]

/-- the deferred calls of big mode on a running world in which only the temporary database has an open write
    transaction and the temporary file exists: the transaction is rolled back FIRST, so neither `Close` blocks; the
    temporary file is removed; five events -/
theorem bigCleanup_run (w : World) (inp out n : Bytes) (hs : w.stopped = none)
    (htx : ∀ p, w.fs.txOpen p = true → p = n) (hp : w.fs.present n = true) :
    bigCleanup w inp out n =
      { w with fs := { present := setAt w.fs.present n false, touched := setAt w.fs.touched n true,
                       complete := setAt w.fs.complete n false, txOpen := setAt w.fs.txOpen n false },
               trace := w.trace ++ [.bigWriterClose n, .boltClose out, .boltClose n, .remove n true, .fileClose inp] } := by
  have h1 : setAt w.fs.txOpen n false out = false := by
    by_cases ho : out = n
    · subst ho; simp
    · rw [setAt_other _ _ _ _ ho]
      cases hq : w.fs.txOpen out with
      | false => rfl
      | true => exact absurd (htx _ hq) ho
  simp [bigCleanup, bigWriterClose, boltClose, osRemove, fileClose, act, hs, log, h1, hp]

theorem spec_big_tail (hin : (fs cfg.inputFile && !env.unreadable cfg.inputFile) = true)
    (h : List Bytes) (recs : List (List Bytes)) (hh : env.csv = h :: recs) (hb : cfg.big = true)
    (n : Bytes) (ht : env.tempName = some n) (hn : fs n = false) (hbn : env.boltFails n = false)
    (ho1 : fs cfg.outputFile = false) (ho2 : cfg.outputFile ≠ n) (ho3 : env.boltFails cfg.outputFile = false)
    (hw : env.bigWriterFails = false) (hfuel : env.csv.length ≤ fuel) :
    CreateSpec toLower env fs cfg (Gen.createCmd toLower fuel (World.start env fs) g cfg) := by
  have ho2' : n ≠ cfg.outputFile := fun hc => ho2 hc.symm
  rw [createCmd_big toLower fuel g cfg env fs hin h recs hh hb n ht hn hbn ho1 ho2 ho3 hw]
  have TB := k1_big toLower fuel g (Gen.normalizeHeader toLower h) ⟨⟨cfg.inputFile⟩⟩ cfg.outputFile n
    (bigSetup env fs cfg.inputFile cfg.outputFile n h) rfl recs (by simp [bigSetup, hh])
    (by rw [hh] at hfuel; simp at hfuel; omega)
  generalize Gen.createCmd_k1 toLower fuel (bigSetup env fs cfg.inputFile cfg.outputFile n h) g (Gen.normalizeHeader toLower h)
    (.big ⟨⟨cfg.outputFile⟩, ⟨n⟩⟩) ⟨⟨cfg.inputFile⟩⟩ = K at TB
  have hWp : (bigSetup env fs cfg.inputFile cfg.outputFile n h).fs.present = setAt (setAt fs n true) cfg.outputFile true := rfl
  have hWt : (bigSetup env fs cfg.inputFile cfg.outputFile n h).fs.touched = setAt (fun _ => false) n true := rfl
  have hWc : (bigSetup env fs cfg.inputFile cfg.outputFile n h).fs.complete = fun _ => false := rfl
  have hWx : (bigSetup env fs cfg.inputFile cfg.outputFile n h).fs.txOpen = setAt (fun _ => false) n true := rfl
  have hWenv : (bigSetup env fs cfg.inputFile cfg.outputFile n h).env = env := rfl
  have hWtr : (bigSetup env fs cfg.inputFile cfg.outputFile n h).trace =
    [.osOpen cfg.inputFile true, .csvRead (some h), .createTemp (some n), .fileClose n,
      .boltOpen n 384 .mustExist true, .boltOpen cfg.outputFile 420 .excl true, .newBigWriter cfg.outputFile n true] := rfl
  have hWra : (bigSetup env fs cfg.inputFile cfg.outputFile n h).rowsAdded = 0 := rfl
  generalize bigSetup env fs cfg.inputFile cfg.outputFile n h = W at TB hWp hWt hWc hWx hWenv hWtr hWra
  obtain ⟨evs, htr, hevs, hdata, hnoflush, hbad⟩ := TB.trace
  have hKtx : ∀ p, K.2.fs.txOpen p = true → p = n := by
    intro p hp
    have := TB.txOpen p hp
    rw [hWx] at this
    by_cases hpn : p = n
    · exact hpn
    · rw [setAt_other _ _ _ _ hpn] at this; cases this
  have hKpn : K.2.fs.present n = true := by
    rw [TB.present, hWp, setAt_other _ _ _ _ ho2']; simp
  simp only [bigCleanup_run K.2 cfg.inputFile cfg.outputFile n TB.stopped hKtx hKpn]
  have hmemTemp : ∀ o, Event.createTemp o ∈ K.2.trace ++ [Event.bigWriterClose n, .boltClose cfg.outputFile, .boltClose n, .remove n true, .fileClose cfg.inputFile]
      → o = some n := by
    intro o hm
    simp only [htr, hWtr, List.mem_append, List.mem_cons, List.mem_nil_iff, or_false] at hm
    rcases hm with (hm | hm) | hm
    · rcases hm with hm | hm | hm | hm | hm | hm | hm <;> first | (cases hm; done) | (cases hm; rfl)
    · rcases hevs _ hm with hl | ⟨b, hl⟩
      · simp [Event.isLoop] at hl
      · cases hl
    · rcases hm with hm | hm | hm | hm | hm <;> cases hm
  refine ⟨TB.stopped, by simp [TB.env, hWenv], ?_, ?_, ?_, ?_, by simp [hb], ?_, ?_, ?_, ?_, by simp [hb],
    (fun hc => by rw [hh] at hc; cases hc), ?_, ?_, ?_⟩
  · -- existing_safe
    intro _ p hp
    have hpn : p ≠ n := ne_of_fresh hn hp
    have hpo : p ≠ cfg.outputFile := fun hc => by rw [hc, ho1] at hp; cases hp
    simp [TB.present, TB.touched, hWp, hWt, setAt_other _ _ _ _ hpn, setAt_other _ _ _ _ hpo, hp]
  · intro ho; rw [ho1] at ho; cases ho
  · intro _ ho; rw [ho1] at ho; cases ho
  · -- malformed
    rintro (hc | hc)
    · refine ⟨TB.badInput (Or.inl (by simpa [hWenv] using hc)), ?_⟩
      intro b hm
      simp only [htr, hWtr, List.mem_append, List.mem_cons, List.mem_nil_iff, or_false] at hm
      rcases hm with (hm | hm) | hm
      · rcases hm with hm | hm | hm | hm | hm | hm | hm <;> cases hm
      · exact hbad (Or.inl (by simpa [hWenv] using hc)) b hm
      · rcases hm with hm | hm | hm | hm | hm <;> cases hm
    · rw [hh] at hc; cases hc
  · -- big_present
    intro _ p hpo
    by_cases hpn : p = n
    · subst hpn; simp [hn]
    · simp [setAt_other _ _ _ _ hpn, TB.present, hWp, setAt_other _ _ _ _ hpo]
  · -- success
    intro hn'
    obtain ⟨h1, h2⟩ := TB.ok hn'
    refine ⟨by simpa [hWenv] using h1, h, recs, hh, ?_, ?_, ?_⟩
    · simp only [World.data, htr, hWtr, List.filter_append, hdata hn']
      simp [List.filter_cons, Event.isData]
    · simp [h2, hWc, setAt_other _ _ _ _ ho2]
    · simp [TB.present, hWp, setAt_other _ _ _ _ ho2]
  · -- failure_incomplete
    intro hn' p
    by_cases hpn : p = n
    · subst hpn; simp
    · simp [setAt_other _ _ _ _ hpn, TB.failed hn', hWc]
  · -- temp_removed
    intro m hm
    have := hmemTemp _ hm
    simp only [Option.some.injEq] at this
    subst this; simp
  · -- exact_ok
    intro hB _ he _
    exact TB.exact (by simpa [hWenv] using he) (fun j _ => by simpa [hWenv] using hB.addRow _) (by simpa [hWenv] using hB.flush)
  · -- touched_out
    intro _
    simp [setAt_other _ _ _ _ ho2, TB.touched, hWt]
  · -- big_output_created
    intro _ _ _ _
    simp [setAt_other _ _ _ _ ho2, TB.present, hWp]

/-! ### every path -/

/-- **the regenerated `createCmd`, over every environment and every initial file system** (fuel: at least the number
    of records the reader yields) -/
theorem createCmd_spec (hfuel : env.csv.length ≤ fuel) :
    CreateSpec toLower env fs cfg (Gen.createCmd toLower fuel (World.start env fs) g cfg) := by
  rcases Bool.eq_false_or_eq_true (fs cfg.inputFile && !env.unreadable cfg.inputFile) with hin | hin
  · cases hh : env.csv with
    | nil => exact spec_noHeader toLower fuel g cfg env fs hin hh
    | cons h recs =>
      rcases Bool.eq_false_or_eq_true cfg.big with hb | hb
      · cases ht : env.tempName with
        | none => exact spec_big_noTemp toLower fuel g cfg env fs hin h recs hh hb (Or.inl ht)
        | some n =>
          rcases Bool.eq_false_or_eq_true (fs n) with hn | hn
          · exact spec_big_noTemp toLower fuel g cfg env fs hin h recs hh hb (Or.inr ⟨n, ht, hn⟩)
          · rcases Bool.eq_false_or_eq_true (env.boltFails n) with hbn | hbn
            · exact spec_big_tempDB toLower fuel g cfg env fs hin h recs hh hb n ht hn hbn
            · by_cases ho : fs cfg.outputFile = true ∨ cfg.outputFile = n ∨ env.boltFails cfg.outputFile = true
              · exact spec_big_outFails toLower fuel g cfg env fs hin h recs hh hb n ht hn hbn ho
              · have ho1 : fs cfg.outputFile = false := by
                  cases hq : fs cfg.outputFile with
                  | false => rfl
                  | true => exact absurd (Or.inl hq) ho
                have ho2 : cfg.outputFile ≠ n := fun hc => ho (Or.inr (Or.inl hc))
                have ho3 : env.boltFails cfg.outputFile = false := by
                  cases hq : env.boltFails cfg.outputFile with
                  | false => rfl
                  | true => exact absurd (Or.inr (Or.inr hq)) ho
                rcases Bool.eq_false_or_eq_true env.bigWriterFails with hw | hw
                · exact spec_big_writerFails toLower fuel g cfg env fs hin h recs hh hb n ht hn hbn ho1 ho2 ho3 hw
                · exact spec_big_tail toLower fuel g cfg env fs hin h recs hh hb n ht hn hbn ho1 ho2 ho3 hw (by rw [hh] at hfuel; rw [hh]; exact hfuel)
      · exact spec_normal toLower fuel g cfg env fs hin h recs hh hb (by rw [hh] at hfuel; rw [hh]; exact hfuel)
  · exact spec_noInput toLower fuel g cfg env fs hin

/-! ## the theorems

`R` below is always `Gen.createCmd toLower fuel (World.start env fs) g cfg`: the regenerated function run from the
initial world of environment `env` and file system `fs`; `hfuel : env.csv.length ≤ fuel`. -/

/-- **Termination.** `createCmd` never blocks and never panics, in any environment, in both modes — in particular
    `--big` on a malformed CSV: the deferred `idx.Close()` (registered last, so run first) rolls the temporary write
    transaction back before the deferred `tempDB.Close()` waits for it. The fuel never runs out either. -/
theorem create_terminates (hfuel : env.csv.length ≤ fuel) :
    (Gen.createCmd toLower fuel (World.start env fs) g cfg).2.stopped = none :=
  (createCmd_spec toLower fuel g cfg env fs hfuel).terminates

/-- **(1) Existing files are never written or removed.** In big mode, and in normal mode relative to a writer whose
    `Flush` opens its output exclusively (`env.flushExcl`): every file that existed before the run still exists and was
    neither opened for writing nor removed — the output path in particular, whatever else happens. -/
theorem create_existing_untouched (hfuel : env.csv.length ≤ fuel) (hx : cfg.big = true ∨ env.flushExcl = true)
    (p : Bytes) (hp : fs p = true) :
    (Gen.createCmd toLower fuel (World.start env fs) g cfg).2.fs.present p = true ∧
    (Gen.createCmd toLower fuel (World.start env fs) g cfg).2.fs.touched p = false :=
  (createCmd_spec toLower fuel g cfg env fs hfuel).existing_safe hx p hp

/-- **(1) An existing output makes the command fail**: an error is returned, no complete index is claimed anywhere,
    and in big mode the failure comes BEFORE any record is read (at most the header line was read). -/
theorem create_existing_output_fails (hfuel : env.csv.length ≤ fuel) (hx : cfg.big = true ∨ env.flushExcl = true)
    (ho : fs cfg.outputFile = true) :
    (Gen.createCmd toLower fuel (World.start env fs) g cfg).1 ≠ none ∧
    (∀ p, (Gen.createCmd toLower fuel (World.start env fs) g cfg).2.fs.complete p = false) ∧
    (cfg.big = true → (Gen.createCmd toLower fuel (World.start env fs) g cfg).2.data.length ≤ 1) := by
  have S := createCmd_spec toLower fuel g cfg env fs hfuel
  exact ⟨S.existing_output ho hx, S.failure_incomplete (S.existing_output ho hx), fun hb => S.big_before_records hb ho⟩

/-- without the exclusive open in `Flush` the claim fails: a normal-mode run over an existing output can succeed, and
    then it has written into the existing file (so the hypothesis `flushExcl` of (1) is needed) -/
theorem create_nonexclusive_touches :
    ∃ (env : Env) (fs : Bytes → Bool) (cfg : createConfig), fs cfg.outputFile = true ∧
      (Gen.createCmd id 5 (World.start env fs) ⟨[], [], 0, false⟩ cfg).1 = none ∧
      (Gen.createCmd id 5 (World.start env fs) ⟨[], [], 0, false⟩ cfg).2.fs.touched cfg.outputFile = true :=
  ⟨⟨fun _ => false, [[[97]], [[49]]], .EOF, none, fun _ => false, false, fun _ => false, false, false⟩,
    fun _ => true, ⟨[111], [105], false⟩, rfl, by decide, by decide⟩

/-- **(2) A malformed CSV makes the command fail.** If the reader's answer after the last record is not `io.EOF` — a
    parse error at ANY position — or the input has no header line at all: an error is returned, `Flush` is never called,
    and no complete index is claimed. What is left behind: in normal mode NOTHING (the file system is exactly as
    before); in big mode every path other than the output is as before (the temporary file is gone), and the output —
    opened before the records are read — may be a new, incomplete file. -/
theorem create_malformed_fails (hfuel : env.csv.length ≤ fuel) (hbad : env.csvEnd ≠ .EOF ∨ env.csv = []) :
    (Gen.createCmd toLower fuel (World.start env fs) g cfg).1 ≠ none ∧
    (∀ b, Event.flush b ∉ (Gen.createCmd toLower fuel (World.start env fs) g cfg).2.trace) ∧
    (∀ p, (Gen.createCmd toLower fuel (World.start env fs) g cfg).2.fs.complete p = false) ∧
    (cfg.big = false → (Gen.createCmd toLower fuel (World.start env fs) g cfg).2.fs = (World.start env fs).fs) ∧
    (cfg.big = true → ∀ p, p ≠ cfg.outputFile → (Gen.createCmd toLower fuel (World.start env fs) g cfg).2.fs.present p = fs p) := by
  have S := createCmd_spec toLower fuel g cfg env fs hfuel
  exact ⟨(S.malformed hbad).1, (S.malformed hbad).2, S.failure_incomplete (S.malformed hbad).1,
    fun hb => S.malformed_normal hb hbad, fun hb => S.big_present hb⟩

/-- **(3) `nil` is returned only after every record became a row, in order, and `Flush` ran once.** If the command
    returns `nil` then the reader ended with `io.EOF`, and what happened to the data is EXACTLY: the header line `h` was
    read; for every further record `r`, in order: it was read and `AddRow` was called — successfully — with
    `Gen.recordRow (Gen.normalizeHeader toLower h) r`; the reader reported the end; `Flush` was called once and succeeded —
    nothing before, between or after (no record skipped, none added twice, no `Flush` before the loop ended with
    `io.EOF`). The output is then a complete index. -/
theorem create_success (hfuel : env.csv.length ≤ fuel)
    (hnil : (Gen.createCmd toLower fuel (World.start env fs) g cfg).1 = none) :
    env.csvEnd = .EOF ∧ ∃ h recs, env.csv = h :: recs ∧
      (Gen.createCmd toLower fuel (World.start env fs) g cfg).2.data =
        .csvRead (some h) :: (rowEvents (Gen.normalizeHeader toLower h) recs ++ [.csvRead none, .flush true]) ∧
      (Gen.createCmd toLower fuel (World.start env fs) g cfg).2.fs.complete cfg.outputFile = true ∧
      (Gen.createCmd toLower fuel (World.start env fs) g cfg).2.fs.present cfg.outputFile = true :=
  (createCmd_spec toLower fuel g cfg env fs hfuel).success hnil

theorem rowEvents_addRows (header : List Bytes) (recs : List (List Bytes)) :
    ((rowEvents header recs).filterMap fun e => match e with | .addRow row ok => some (row, ok) | _ => none)
      = recs.map fun r => (Gen.recordRow header r, true) := by
  induction recs with
  | nil => simp [rowEvents]
  | cons r rs ih => simp [rowEvents] at ih ⊢; exact ih

/-- the rows handed to `AddRow` on a successful run are the model's `createRows` of the CSV (`Model/Create.lean`),
    whenever no record is longer than the header (`encoding/csv` guarantees equal lengths) and `toLower` lower-cases
    like `unicode.ToLower` on the runes that matter (`Props/Gen/CreateRow.lean`: `normalizeHeader_eq`) -/
theorem create_success_rows (hfuel : env.csv.length ≤ fuel)
    (hnil : (Gen.createCmd toLower fuel (World.start env fs) g cfg).1 = none) :
    ∃ h recs, env.csv = h :: recs ∧
      ((Gen.createCmd toLower fuel (World.start env fs) g cfg).2.trace.filterMap fun e =>
          match e with | .addRow row ok => some (row, ok) | _ => none)
        = recs.map fun r => (Gen.recordRow (Gen.normalizeHeader toLower h) r, true) := by
  obtain ⟨_, h, recs, hh, hd, _, _⟩ := create_success toLower fuel g cfg env fs hfuel hnil
  refine ⟨h, recs, hh, ?_⟩
  have hfm : ∀ l : List Event, (l.filterMap fun e => match e with | .addRow row ok => some (row, ok) | _ => none)
      = ((l.filter Event.isData).filterMap fun e => match e with | .addRow row ok => some (row, ok) | _ => none) := by
    intro l
    induction l with
    | nil => rfl
    | cons e l ih => cases e <;> simp [List.filter_cons, Event.isData, ih]
  rw [hfm]
  simp only [World.data] at hd
  rw [hd]
  simp only [List.filterMap_cons, List.filterMap_append, List.filterMap_nil, List.append_nil]
  exact rowEvents_addRows _ recs

/-- **(4) The temporary file is removed on every path.** Whatever happens — success, a failing open, a malformed
    record, a failing `AddRow` or `Flush` —, every file `os.CreateTemp` created during the run is gone at the end, and
    (`create_terminates`) the end is reached. Normal mode creates none. -/
theorem create_temp_removed (hfuel : env.csv.length ≤ fuel) (n : Bytes)
    (hc : Event.createTemp (some n) ∈ (Gen.createCmd toLower fuel (World.start env fs) g cfg).2.trace) :
    (Gen.createCmd toLower fuel (World.start env fs) g cfg).2.fs.present n = false ∧ cfg.big = true := by
  have S := createCmd_spec toLower fuel g cfg env fs hfuel
  refine ⟨S.temp_removed n hc, ?_⟩
  cases hb : cfg.big with
  | true => rfl
  | false => exact absurd hc (S.temp_only_big hb _)

/-! ### (5) the decision table of `Model/CreateCmd.lean` -/

/-- the row of the table an environment / file system / configuration belongs to -/
def tableIn (env : Env) (fs : Bytes → Bool) (cfg : createConfig) : CreateIn :=
  ⟨!env.csv.isEmpty, env.csvEnd == .EOF, fs cfg.outputFile, cfg.big⟩

/-- what the table records of a run: exit status as `main` computes it, "an existing output was touched", "the output is a
    complete index", "the process terminates" — plus the extra observation of `CreateRun` -/
def observe (fs : Bytes → Bool) (cfg : createConfig) (R : Option Err5 × World) : CreateRun :=
  ⟨⟨if R.1.isSome then 1 else 0, R.2.fs.touched cfg.outputFile, R.2.fs.complete cfg.outputFile, R.2.stopped.isNone⟩,
   R.2.fs.present cfg.outputFile && !fs cfg.outputFile && !R.2.fs.complete cfg.outputFile⟩

/-- **(5) Every row of the hand-written decision table is what the regenerated code does.** In every benign
    environment (`Benign`: nothing fails except what the table is about) the regenerated `createCmd` produces exactly the
    outcome `createRun .repaired` lists for the row the inputs belong to — all 16 rows (header readable?, CSV
    well-formed?, output exists?, `--big`?) are instances: exit status, existing output untouched, complete index,
    termination, and whether a new incomplete output is left behind. -/
theorem create_table (hfuel : env.csv.length ≤ fuel) (hB : Benign env fs cfg) :
    observe fs cfg (Gen.createCmd toLower fuel (World.start env fs) g cfg) = createRun .repaired (tableIn env fs cfg) := by
  have S := createCmd_spec toLower fuel g cfg env fs hfuel
  generalize Gen.createCmd toLower fuel (World.start env fs) g cfg = R at S
  have hx : cfg.big = true ∨ env.flushExcl = true := Or.inr hB.excl
  simp only [observe, S.terminates, S.touched_out hB, Option.isNone_none]
  cases hcsv : env.csv with
  | nil =>
    have hm := S.malformed (Or.inr hcsv)
    have hfs := S.header_fail_fs hcsv
    have hc := S.failure_incomplete hm.1 cfg.outputFile
    have hsome : R.1.isSome = true := by cases h : R.1 with | none => exact absurd h hm.1 | some _ => rfl
    simp [tableIn, hcsv, createRun, hsome, hc, hfs, World.start]
  | cons h recs =>
    have hne : env.csv ≠ [] := by rw [hcsv]; simp
    by_cases he : env.csvEnd = .EOF
    · cases ho : fs cfg.outputFile with
      | true =>
        have hf := S.existing_output ho hx
        have hc := S.failure_incomplete hf cfg.outputFile
        have hsome : R.1.isSome = true := by cases h : R.1 with | none => exact absurd h hf | some _ => rfl
        cases hb : cfg.big <;> simp [tableIn, hcsv, he, ho, hb, createRun, openOutput, CreateImpl.repaired, hsome, hc]
      | false =>
        have hok := S.exact_ok hB hne he ho
        obtain ⟨_, _, _, _, _, hc, hp⟩ := S.success hok
        cases hb : cfg.big <;>
          simp [tableIn, hcsv, he, ho, hb, createRun, openOutput, CreateImpl.repaired, hok, hc, hp, bigDefersReturn]
    · have hm := S.malformed (Or.inl he)
      have hc := S.failure_incomplete hm.1 cfg.outputFile
      have hsome : R.1.isSome = true := by cases h : R.1 with | none => exact absurd h hm.1 | some _ => rfl
      have hbeq : (env.csvEnd == Err5.EOF) = false := by simpa using he
      cases hb : cfg.big with
      | false =>
        have hfs := S.malformed_normal hb (Or.inl he)
        simp [tableIn, hcsv, hbeq, hb, createRun, hsome, hc, hfs, World.start]
      | true =>
        cases ho : fs cfg.outputFile with
        | true =>
          simp [tableIn, hcsv, hbeq, hb, ho, createRun, openOutput, CreateImpl.repaired, hsome, hc]
        | false =>
          have hp := S.big_output_created hB hb hne ho
          simp [tableIn, hcsv, hbeq, hb, ho, createRun, openOutput, CreateImpl.repaired, hsome, hc, hp, bigDefersReturn]

/-- the table's `createCmd` (the outcome without the extra observation) -/
theorem create_table_out (hfuel : env.csv.length ≤ fuel) (hB : Benign env fs cfg) :
    (observe fs cfg (Gen.createCmd toLower fuel (World.start env fs) g cfg)).toCreateOut = Updog.createCmd (tableIn env fs cfg) := by
  rw [create_table toLower fuel g cfg env fs hfuel hB]; rfl

end

/-- every one of the 16 rows of the table is the row of some benign environment (so `create_table` instantiates each) -/
theorem tableIn_surjective (i : CreateIn) :
    ∃ (env : Env) (fs : Bytes → Bool) (cfg : createConfig), Benign env fs cfg ∧ env.csv.length ≤ 2 ∧ tableIn env fs cfg = i := by
  obtain ⟨hdr, csv, out, big⟩ := i
  refine ⟨⟨fun _ => false, if hdr then [[[97]], [[49]]] else [], if csv then .EOF else .ext 1, some [116], fun _ => false, false,
      fun _ => false, false, true⟩,
    fun p => p == [105] || (out && p == [111]), ⟨[111], [105], big⟩, ?_, ?_, ?_⟩
  · constructor <;> simp
  · cases hdr <;> simp
  · cases hdr <;> cases csv <;> cases out <;> simp [tableIn]


/-! ### cmd/updog/main.go: the `create` sub-command's `RunE`, the exit status -/

section
variable (toLower : Nat → Nat) (fuel : Nat) (g : globalConfig) (c : createConfig)

/-- no positional argument, or more than one: an error, and nothing at all happens -/
theorem createRunE_badArgs (w : World) (args : List Bytes) (h : args.length ≠ 1) :
    ∃ e, Gen.createRunE toLower fuel w g c args = (some e, c, w) := by
  cases args with
  | nil => simp [Gen.createRunE, Go.len]
  | cons a rest =>
    cases rest with
    | nil => simp at h
    | cons b rest =>
      have h1 : ((rest.length : Int) + 1 + 1 > 1) := by omega
      have h0 : ¬ ((rest.length : Int) + 1 + 1 = 0) := by omega
      simp [Gen.createRunE, Go.len, h1, h0]

/-- exactly one argument: it becomes `createCfg.inputFile`, and `createCmd` runs with the global configuration and that
    create configuration; its error is the error of `RunE` -/
theorem createRunE_one (w : World) (a : Bytes) :
    Gen.createRunE toLower fuel w g c [a] =
      ((Gen.createCmd toLower fuel w g { c with inputFile := a }).1, { c with inputFile := a },
       (Gen.createCmd toLower fuel w g { c with inputFile := a }).2) := by
  simp [Gen.createRunE, Go.len, indexL]

/-- **`main` turns a returned error into exit status 1 and `nil` into 0.** For every `execute` (what
    `rootCmd.Execute()` does) that comes back (the process is not stopped inside it): the regenerated end of `main`
    calls `os.Exit(1)` exactly when the returned error is non-nil; otherwise `main` returns, which is exit status 0. -/
theorem mainExit_status (execute : World → World × Option Err5) (w : World) (hback : (execute w).1.stopped = none) :
    (mainReturns (Gen.mainExit execute w)).exitStatus = some (if (execute w).2.isSome then 1 else 0) := by
  cases he : (execute w).2 with
  | none => simp [Gen.mainExit, he, mainReturns, hback, World.exitStatus]
  | some e => simp [Gen.mainExit, he, mainReturns, osExit, act, hback, World.exitStatus]

/-- **`updog create IN`: error ⇒ exit status 1, `nil` ⇒ 0**, for every environment and file system: cobra's `Execute`
    (`cobraExecute`, trusted) runs the regenerated `RunE`, which runs the regenerated `createCmd`; the regenerated end of
    `main` turns its result into the exit status. The process always gets there (`create_terminates`). -/
theorem main_create_exit_status (env : Env) (fs : Bytes → Bool) (a : Bytes) (hfuel : env.csv.length ≤ fuel) :
    (mainReturns (Gen.mainExit
        (cobraExecute fun w => ((Gen.createRunE toLower fuel w g c [a]).1, (Gen.createRunE toLower fuel w g c [a]).2.2))
        (World.start env fs))).exitStatus
      = some (if (Gen.createCmd toLower fuel (World.start env fs) g { c with inputFile := a }).1.isSome then 1 else 0) := by
  rw [mainExit_status]
  · simp [cobraExecute, createRunE_one]
  · simp only [cobraExecute, createRunE_one]
    exact create_terminates toLower fuel g { c with inputFile := a } env fs hfuel

/-- C19, last sentence, for the regenerated code: a malformed CSV or an existing output (with a writer whose `Flush`
    opens exclusively, or `--big`) makes the process exit with status 1 -/
theorem main_create_fails_nonzero (env : Env) (fs : Bytes → Bool) (a : Bytes) (hfuel : env.csv.length ≤ fuel)
    (hbad : (env.csvEnd ≠ .EOF ∨ env.csv = []) ∨ (fs c.outputFile = true ∧ (c.big = true ∨ env.flushExcl = true))) :
    (mainReturns (Gen.mainExit
        (cobraExecute fun w => ((Gen.createRunE toLower fuel w g c [a]).1, (Gen.createRunE toLower fuel w g c [a]).2.2))
        (World.start env fs))).exitStatus = some 1 := by
  rw [main_create_exit_status toLower fuel g c env fs a hfuel]
  have S := createCmd_spec toLower fuel g { c with inputFile := a } env fs hfuel
  have hne : (Gen.createCmd toLower fuel (World.start env fs) g { c with inputFile := a }).1 ≠ none := by
    rcases hbad with hbad | ⟨ho, hx⟩
    · exact (S.malformed hbad).1
    · exact S.existing_output ho hx
  cases hq : (Gen.createCmd toLower fuel (World.start env fs) g { c with inputFile := a }).1 with
  | none => exact absurd hq hne
  | some e => simp

end

/-! ### examples: the regenerated command, run -/

namespace CreateDemo

/-- input `in` with header `A b` / `c`, two records; a fresh temp name `t`; nothing else fails -/
def env (ending : Err5) : Env :=
  { unreadable := fun _ => false, csv := [[[65, 32, 98], [99]], [[49], [50]], [[51], [52]]], csvEnd := ending,
    tempName := some [116], boltFails := fun _ => false, bigWriterFails := false, addRowFails := fun _ => false,
    flushFails := false, flushExcl := true }
def files (outExists : Bool) : Bytes → Bool := fun p => p == [105] || (outExists && p == [111])
def cfg (big : Bool) : createConfig := ⟨[111], [105], big⟩
def run (ending : Err5) (outExists big : Bool) : Option Err5 × World :=
  Gen.createCmd (fun r => if 65 ≤ r ∧ r ≤ 90 then r + 32 else r) 10 (World.start (env ending) (files outExists)) ⟨[], [], 0, true⟩ (cfg big)

/-- big mode, all well: the whole trace — exclusive open of the output BEFORE the first record is read, the rows with
    normalised column names `a_b`, `c`, one flush, the deferred calls in LIFO order, temp file removed -/
example : (run .EOF false true).1 = none ∧ (run .EOF false true).2.trace =
    [.osOpen [105] true, .csvRead (some [[65, 32, 98], [99]]), .createTemp (some [116]), .fileClose [116],
     .boltOpen [116] 384 .mustExist true, .boltOpen [111] 420 .excl true, .newBigWriter [111] [116] true,
     .csvRead (some [[49], [50]]), .addRow [([97, 95, 98], [49]), ([99], [50])] true,
     .csvRead (some [[51], [52]]), .addRow [([97, 95, 98], [51]), ([99], [52])] true,
     .csvRead none, .printf [70, 108, 117, 115, 104, 105, 110, 103, 32, 100, 97, 116, 97, 46, 46, 46, 10], .flush true,
     .printf [70, 108, 117, 115, 104, 105, 110, 103, 32, 100, 111, 110, 101],
     .bigWriterClose [116], .boltClose [111], .boltClose [116], .remove [116] true, .fileClose [105]] := by
  decide

/-- normal mode on an existing output: the rows are collected, `Flush`'s exclusive open fails, the file is untouched -/
example : (run .EOF true false).1.isSome = true ∧ (run .EOF true false).2.fs.touched [111] = false ∧
    (run .EOF true false).2.trace.getLast? = some (.fileClose [105]) ∧
    Event.boltOpen [111] 420 .excl false ∈ (run .EOF true false).2.trace := by
  decide

/-- big mode on a malformed CSV (parse error after the two records): error, no flush, the temp file is removed, the
    new incomplete output stays, the process terminates -/
example : (run (.ext 7) false true).1.isSome = true ∧ (run (.ext 7) false true).2.stopped = none ∧
    (run (.ext 7) false true).2.fs.present [116] = false ∧ (run (.ext 7) false true).2.fs.present [111] = true ∧
    (run (.ext 7) false true).2.fs.complete [111] = false ∧ Event.flush true ∉ (run (.ext 7) false true).2.trace := by
  decide

/-- the exit status through the regenerated `RunE` and end of `main` -/
example : (mainReturns (Gen.mainExit (cobraExecute fun w => ((Gen.createRunE id 10 w ⟨[], [], 0, false⟩ (cfg true) [[105]]).1,
      (Gen.createRunE id 10 w ⟨[], [], 0, false⟩ (cfg true) [[105]]).2.2)) (World.start (env .EOF) (files true)))).exitStatus = some 1 ∧
    (mainReturns (Gen.mainExit (cobraExecute fun w => ((Gen.createRunE id 10 w ⟨[], [], 0, false⟩ (cfg true) [[105]]).1,
      (Gen.createRunE id 10 w ⟨[], [], 0, false⟩ (cfg true) [[105]]).2.2)) (World.start (env .EOF) (files false)))).exitStatus = some 0 := by
  decide

end CreateDemo

end Updog.GeneratedEq

#print axioms Updog.GeneratedEq.createCmd_spec
#print axioms Updog.GeneratedEq.create_terminates
#print axioms Updog.GeneratedEq.create_existing_untouched
#print axioms Updog.GeneratedEq.create_existing_output_fails
#print axioms Updog.GeneratedEq.create_nonexclusive_touches
#print axioms Updog.GeneratedEq.create_malformed_fails
#print axioms Updog.GeneratedEq.create_success
#print axioms Updog.GeneratedEq.create_success_rows
#print axioms Updog.GeneratedEq.create_temp_removed
#print axioms Updog.GeneratedEq.create_table
#print axioms Updog.GeneratedEq.create_table_out
#print axioms Updog.GeneratedEq.tableIn_surjective
#print axioms Updog.GeneratedEq.createRunE_badArgs
#print axioms Updog.GeneratedEq.createRunE_one
#print axioms Updog.GeneratedEq.mainExit_status
#print axioms Updog.GeneratedEq.main_create_exit_status
#print axioms Updog.GeneratedEq.main_create_fails_nonzero
