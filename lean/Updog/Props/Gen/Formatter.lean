/-
Equivalence of the definitions REGENERATED from the Go source (`Updog/GeneratedFns.lean`, written by
extract/translate.go on every run) with the hand-written models. If a translated Go function changes its meaning,
the generated text changes and the corresponding theorem below stops checking; if the function leaves the
translator's subset, its definition is missing and the theorem fails to elaborate.
-/
import Updog.GeneratedFns
import Updog.Proofs.GoPrelude
import Updog.Model.Create
import Updog.Model.Server

namespace Updog.GeneratedEq
open Updog.Go (allDigits)

/-! ### queryformatter.go: formatString and the three parenthesisation rules -/

theorem formatString_eq (v : Bytes) : Gen.formatString v = quoteValue v := by
  simp [Gen.formatString, quoteValue, Go.replaceAll_quote]

/-- operand of `^`: parenthesised iff it is an AND or an OR -/
theorem notParens_eq (e : PExpr) : Gen.notParens (isAnd e) (isOr e) = (isAnd e || isOr e) := rfl
/-- operand of `&`: parenthesised iff it is an OR -/
theorem andParens_eq (e : PExpr) : Gen.andParens (isAnd e) (isOr e) = isOr e := rfl
/-- operand of `|`: parenthesised iff it is an AND -/
theorem orParens_eq (e : PExpr) : Gen.orParens (isAnd e) (isOr e) = isAnd e := rfl

/-- the three rules as functions of two arbitrary Booleans (no dependence on `PExpr`) -/
theorem parens_table (a o : Bool) :
    Gen.notParens a o = (a || o) ∧ Gen.andParens a o = o ∧ Gen.orParens a o = a := ⟨rfl, rfl, rfl⟩

example : Gen.formatString [97, 34] = [34, 97, 34, 34, 34] := by decide

example : Gen.andParens (isAnd (.or [])) (isOr (.or [])) = true := by decide

end Updog.GeneratedEq
