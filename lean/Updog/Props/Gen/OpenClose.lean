/-
Equivalence of the REGENERATED `OpenIndex` and `(*Index).Close` (`Updog/GeneratedFns.lean`: `openFile`, `openIndex`,
`indexClose`, translated from internal/openfile/openfile.go and index.go by extract/translate_t7.go on every run) with
the hand-written models `Updog/Model/Open.lean` (`openIndex`, `closeIndex`), `Updog/Model/OpenFlags.lean`
(`mustExistFlags`, `posixOpen`) and `Updog/Model/OpenLock.lean` (`openRO`, `close`).

`Props/Gen/Open.lean` starts from an open bbolt database, so it cannot speak about a path that does not exist or a file
that is not a bolt database. Here the generated code starts from the directory (`Go.T7.Fs`): `bbolt.Open` with the
read-only / must-exist open function is part of the generated text, and so is the close on every failing path.
The lock of the handle the call opened is `!bolt.closed` (as in Props/C15Lock.lean); the flocks of other open file
descriptions are `Node.locks`.
-/
import Updog.Props.Gen.Open
import Updog.Proofs.GoPreludeT7
import Updog.Model.OpenLock
import Updog.Proofs.OpenLock

set_option linter.unusedSimpArgs false
namespace Updog.GeneratedEq
open Updog.Go.T3 Updog.Go.T7

/-! ### openfile.OpenFile -/

/-- **`openfile.OpenFile` = the flag rewriting of Model/OpenFlags.lean**, for every option value and flag word -/
theorem openFile_eq (o : OpenFileOptions) (flags : Nat) :
    Gen.openFile o flags =
      if o.FailIfFileExists then failIfExistsFlags flags
      else if o.FailIfFileDoesntExist then mustExistFlags flags
      else flags := Go.T7.openFile_eq o flags

/-- the two function literals translated on their own (`Gen.excl`, `Gen.noCreate`) are the branches of `Gen.openFile` -/
theorem openFile_branches (flags : Nat) :
    Gen.openFile { FailIfFileExists := true } flags = Gen.excl flags ∧
    Gen.openFile { FailIfFileDoesntExist := true } flags = Gen.noCreate flags ∧
    Gen.openFile {} flags = flags := ⟨rfl, rfl, rfl⟩

example : Gen.openFile { FailIfFileExists := true } 0x42 = 0xC2 ∧ Gen.openFile { FailIfFileDoesntExist := true } 0x42 = 2 ∧
    Gen.openFile { FailIfFileExists := true, FailIfFileDoesntExist := true } 0x42 = 0xC2 := by
  rw [openFile_eq, openFile_eq, openFile_eq]; decide

/-! ### what the model sees of the directory -/

/-- the model's `FileState` of a path: absent, not a bolt file (empty or garbage), or the state of its buckets -/
def fileStateAt (X : Ext) (fs : Fs) (path : Bytes) : FileState :=
  match fs.get path with
  | none => .absent
  | some n =>
    match n.content with
    | .empty => .notBolt
    | .garbage => .notBolt
    | .bolt c => fileStateOf X c

/-- the flocks other open file descriptions hold on the path -/
def locksAt (fs : Fs) (path : Bytes) : List Bool := ((fs.get path).map (·.locks)).getD []

/-- somebody else holds an exclusive flock: the shared flock of `OpenIndex` is not granted -/
def writerHolds (fs : Fs) (path : Bytes) : Bool := (locksAt fs path).any fun ex => ex

/-- `(ok | error, the lock of the handle this call opened is still held)` -/
def openResult (r : Fs × Bolt × Heap × Option Go.T3.Index × Error) : Outcome Unit × Bool :=
  (if isErr r.2.2.2.2 then .error else .ok (), !r.2.1.closed)

/-- the lock of a bbolt handle, read off the translator's record: held until `db.Close()` -/
def lockHeld (b : Bolt) : Bool := !b.closed

/-- **`OpenIndex` by the state of the path.** Absent: `(nil, err)`. Locked by a writer: `bbolt.Open` waits forever
    (`errWouldBlock`). Empty / garbage: bbolt rejects it. A bolt file: exactly `OpenIndexFromBoltDatabase` on a fresh
    handle over its committed content. In the first three cases the handle is already closed; the directory is never
    changed (only the handle counter advances). -/
theorem openIndex_cases (X : Ext) (fs : Fs) (hp : Heap) (file : Bytes) (opts : List IndexOption) :
    Gen.openIndex X fs hp file opts =
      match fs.get file with
      | none => ({ fs with next := fs.next + 1 }, deadBolt fs.next, hp, none, errOpen)
      | some n =>
        if n.locks.any (fun ex => ex) then ({ fs with next := fs.next + 1 }, deadBolt fs.next, hp, none, errWouldBlock)
        else match n.content with
          | .empty => ({ fs with next := fs.next + 1 }, deadBolt fs.next, hp, none, errInvalid)
          | .garbage => ({ fs with next := fs.next + 1 }, deadBolt fs.next, hp, none, errInvalid)
          | .bolt c =>
            let r := Gen.openIndexFromBoltDatabase X (idle fs.next 0 c []) hp (some fs.next) opts
            ({ fs with next := fs.next + 1 }, r.1, r.2.1, r.2.2.1, r.2.2.2) := by
  unfold Gen.openIndex
  rw [boltOpen_reader]
  cases hg : fs.get file with
  | none => rfl
  | some n =>
    simp only
    by_cases hl : (n.locks.any fun ex => ex) = true
    · simp only [hl, if_true]; rfl
    · have hl' : (n.locks.any fun ex => ex) = false := by simpa using hl
      simp only [hl', Bool.false_eq_true, if_false]
      cases n.content <;> rfl

/-- **`OpenIndex` never creates or changes a file** — whatever the path holds, whatever the options do -/
theorem openIndex_never_creates (X : Ext) (fs : Fs) (hp : Heap) (file : Bytes) (opts : List IndexOption) :
    (Gen.openIndex X fs hp file opts).1.files = fs.files ∧
    ∀ p, (Gen.openIndex X fs hp file opts).1.get p = fs.get p := by
  have h : (Gen.openIndex X fs hp file opts).1 = { fs with next := fs.next + 1 } := by
    rw [openIndex_cases]
    cases fs.get file with
    | none => rfl
    | some n =>
      simp only
      split
      · rfl
      · cases n.content <;> rfl
  rw [h]
  exact ⟨rfl, fun _ => rfl⟩

/-- an absent path stays absent, and the call fails without ever holding a lock -/
theorem openIndex_absent (X : Ext) (fs : Fs) (hp : Heap) (file : Bytes) (opts : List IndexOption) (h : fs.get file = none) :
    isErr (Gen.openIndex X fs hp file opts).2.2.2.2 = true ∧ (Gen.openIndex X fs hp file opts).2.2.2.1 = none ∧
    lockHeld (Gen.openIndex X fs hp file opts).2.1 = false ∧ (Gen.openIndex X fs hp file opts).1.get file = none := by
  refine ⟨?_, ?_, ?_, ?_⟩
  · rw [openIndex_cases, h]; rfl
  · rw [openIndex_cases, h]
  · rw [openIndex_cases, h]; rfl
  · rw [(openIndex_never_creates X fs hp file opts).2, h]

/-- **`OpenIndex(file)` = `openIndex … ⟨false⟩` of Model/Open.lean on EVERY state of the path** — absent, empty,
    garbage, and every content of a bolt file — as long as no writer holds the file: the outcome and whether the lock is
    still held. -/
theorem openIndex_noPreload_eq' (X : Ext) (fs : Fs) (hp : Heap) (file : Bytes) (hw : writerHolds fs file = false) :
    openResult (Gen.openIndex X fs hp file []) = openIndex (fileStateAt X fs file) ⟨false⟩ := by
  rw [openIndex_cases]
  unfold writerHolds locksAt at hw
  unfold fileStateAt
  cases hg : fs.get file with
  | none => rfl
  | some n =>
    rw [hg] at hw
    simp only [Option.map_some, Option.getD_some] at hw
    simp only [hw, Bool.false_eq_true, if_false]
    cases n.content with
    | empty => rfl
    | garbage => rfl
    | bolt c =>
      simp only
      rw [← Updog.GeneratedEq.openIndex_noPreload_eq X fs.next 0 c [] hp]
      rfl

/-- **`OpenIndex(file, WithPreloadedData())` = `openIndex … ⟨true⟩`** on every state of the path (a bolt file's bucket
    `data` in bbolt's key order) -/
theorem openIndex_preload_eq' (X : Ext) (fs : Fs) (hp : Heap) (file : Bytes) (hw : writerHolds fs file = false)
    (hs : ∀ n c d, fs.get file = some n → n.content = .bolt c → bucketsGet c dataName = some d → SortedData d) :
    openResult (Gen.openIndex X fs hp file [Gen.withPreloadedData X]) = openIndex (fileStateAt X fs file) ⟨true⟩ := by
  rw [openIndex_cases]
  unfold writerHolds locksAt at hw
  unfold fileStateAt
  cases hg : fs.get file with
  | none => rfl
  | some n =>
    rw [hg] at hw
    simp only [Option.map_some, Option.getD_some] at hw
    simp only [hw, Bool.false_eq_true, if_false]
    cases hc : n.content with
    | empty => rfl
    | garbage => rfl
    | bolt c =>
      simp only
      rw [← Updog.GeneratedEq.openIndex_preload_eq X fs.next 0 c [] hp (fun d hd => hs n c d hg hc hd)]
      rfl

/-- **a failed `OpenIndex` holds no lock and returns no index** (no options / `WithPreloadedData()`): `bbolt.Open`'s own
    clean-up for an absent or invalid file, `db.Close()` on the failing paths of `OpenIndexFromBoltDatabase` -/
theorem openIndex_failed_releases (X : Ext) (fs : Fs) (hp : Heap) (file : Bytes) (hw : writerHolds fs file = false)
    (herr : isErr (Gen.openIndex X fs hp file []).2.2.2.2 = true) :
    lockHeld (Gen.openIndex X fs hp file []).2.1 = false := by
  have e := openIndex_noPreload_eq' X fs hp file hw
  have e1 : (openIndex (fileStateAt X fs file) ⟨false⟩).1 = .error := by
    rw [← e]; simp [openResult, herr]
  have e2 := Updog.OpenLock.openIndex_error_of_fst e1
  rw [e2] at e
  have : (openResult (Gen.openIndex X fs hp file [])).2 = false := by rw [e]
  simpa [openResult, lockHeld] using this

theorem openIndex_failed_releases_preload (X : Ext) (fs : Fs) (hp : Heap) (file : Bytes) (hw : writerHolds fs file = false)
    (hs : ∀ n c d, fs.get file = some n → n.content = .bolt c → bucketsGet c dataName = some d → SortedData d)
    (herr : isErr (Gen.openIndex X fs hp file [Gen.withPreloadedData X]).2.2.2.2 = true) :
    lockHeld (Gen.openIndex X fs hp file [Gen.withPreloadedData X]).2.1 = false := by
  have e := openIndex_preload_eq' X fs hp file hw hs
  have e1 : (openIndex (fileStateAt X fs file) ⟨true⟩).1 = .error := by
    rw [← e]; simp [openResult, herr]
  have e2 := Updog.OpenLock.openIndex_error_of_fst e1
  rw [e2] at e
  have : (openResult (Gen.openIndex X fs hp file [Gen.withPreloadedData X])).2 = false := by rw [e]
  simpa [openResult, lockHeld] using this

/-- a writer holds the file: `bbolt.Open` never returns (`Timeout == 0`); nothing is changed, nothing is held -/
theorem openIndex_blocked (X : Ext) (fs : Fs) (hp : Heap) (file : Bytes) (opts : List IndexOption)
    (hw : writerHolds fs file = true) :
    (Gen.openIndex X fs hp file opts).2.2.2.2 = errWouldBlock ∧ (Gen.openIndex X fs hp file opts).2.2.2.1 = none ∧
    lockHeld (Gen.openIndex X fs hp file opts).2.1 = false := by
  rw [openIndex_cases]
  unfold writerHolds locksAt at hw
  cases hg : fs.get file with
  | none => rw [hg] at hw; simp at hw
  | some n =>
    rw [hg] at hw
    simp only [Option.map_some, Option.getD_some] at hw
    simp only [hw, if_true]
    simp [lockHeld, deadBolt]

/-! ### the lock model of Model/OpenLock.lean -/

/-- a `LockState` describes the path: same content class, and its holders are the flocks on the file -/
def Describes (X : Ext) (st : LockState) (fs : Fs) (path : Bytes) : Prop :=
  st.fs = fileStateAt X fs path ∧ st.holders.map (fun x => decide (x.mode = .exclusive)) = locksAt fs path

theorem compatible_shared_of_describes {X : Ext} {st : LockState} {fs : Fs} {path : Bytes} (hd : Describes X st fs path) :
    compatible .shared st.holders = !writerHolds fs path := by
  unfold writerHolds
  rw [← hd.2]
  simp only [compatible, List.any_map, List.all_eq_not_any_not]
  congr 2
  funext x
  obtain ⟨i, pr, m⟩ := x
  cases m <;> simp

/-- **the lock model agrees with the generated `OpenIndex` on every state of the path**, including absent and not-bolt
    (no options). Not blocked: `openRO` returns ok / error exactly when the generated code does, and the new handle holds
    the lock afterwards exactly when the generated code left its database open. Blocked by a writer: `openRO` hangs
    with the state unchanged; the generated code is stuck inside `bbolt.Open` (`errWouldBlock`) holding nothing. -/
theorem openRO_matches_generated_openIndex (X : Ext) (fs : Fs) (hp : Heap) (file : Bytes) (st : LockState) (p : ProcId)
    (hd : Describes X st fs file) :
    let r := Gen.openIndex X fs hp file []
    if writerHolds fs file then
      openRO st p ⟨false⟩ = (.hang, st) ∧ r.2.2.2.2 = errWouldBlock ∧ lockHeld r.2.1 = false
    else
      ((openRO st p ⟨false⟩).1.map (fun _ => ()), (openRO st p ⟨false⟩).2.holds st.next)
        = ((if isErr r.2.2.2.2 then .error else .ok ()), lockHeld r.2.1) := by
  intro r
  have hc := compatible_shared_of_describes hd
  cases hw : writerHolds fs file with
  | true =>
    simp only [if_true]
    rw [hw] at hc
    obtain ⟨b1, _, b3⟩ := openIndex_blocked X fs hp file [] hw
    exact ⟨Updog.OpenLock.openRO_blocked (by simpa using hc), b1, b3⟩
  | false =>
    simp only [Bool.false_eq_true, if_false]
    rw [hw] at hc
    rw [Updog.OpenLock.openRO_abstract p _ (by simpa using hc), hd.1, ← openIndex_noPreload_eq' X fs hp file hw]
    rfl

/-- … and with `WithPreloadedData()` -/
theorem openRO_matches_generated_openIndex_preload (X : Ext) (fs : Fs) (hp : Heap) (file : Bytes) (st : LockState) (p : ProcId)
    (hd : Describes X st fs file) (hw : writerHolds fs file = false)
    (hs : ∀ n c d, fs.get file = some n → n.content = .bolt c → bucketsGet c dataName = some d → SortedData d) :
    let r := Gen.openIndex X fs hp file [Gen.withPreloadedData X]
    ((openRO st p ⟨true⟩).1.map (fun _ => ()), (openRO st p ⟨true⟩).2.holds st.next)
      = ((if isErr r.2.2.2.2 then .error else .ok ()), lockHeld r.2.1) := by
  intro r
  have hc := compatible_shared_of_describes hd
  rw [hw] at hc
  rw [Updog.OpenLock.openRO_abstract p _ (by simpa using hc), hd.1, ← openIndex_preload_eq' X fs hp file hw hs]
  rfl

/-! ### (*Index).Close -/

/-- `Close` of an index whose database is nil (never opened, or closed before): nil, nothing happens -/
theorem indexClose_nil (bolt : Bolt) (idx : Go.T3.Index) (h : idx.db = none) :
    Gen.indexClose bolt idx = (bolt, { idx with mtx := mutexTouch idx.mtx }, nilError) := by
  unfold Gen.indexClose
  simp [h]

/-- `Close` of an open index: the database is closed (lock released, no transaction), `idx.db` becomes nil -/
theorem indexClose_open (bolt : Bolt) (idx : Go.T3.Index) (d : Nat) (h : idx.db = some d) :
    Gen.indexClose bolt idx =
      ((dbClose bolt (some d)).1, { idx with mtx := mutexTouch idx.mtx, db := none }, (dbClose bolt (some d)).2) := by
  unfold Gen.indexClose
  simp [h, mutexTouch_idem]

/-- **`Close` twice = `Close` once**: the second call returns nil and changes neither the database nor the index -/
theorem indexClose_twice (bolt : Bolt) (idx : Go.T3.Index) :
    Gen.indexClose (Gen.indexClose bolt idx).1 (Gen.indexClose bolt idx).2.1
      = ((Gen.indexClose bolt idx).1, (Gen.indexClose bolt idx).2.1, nilError) := by
  cases h : idx.db with
  | none =>
    rw [indexClose_nil bolt idx h, indexClose_nil _ _ (by simpa using h)]
    simp [mutexTouch_idem]
  | some d =>
    rw [indexClose_open bolt idx d h, indexClose_nil _ _ rfl]
    simp [mutexTouch_idem]

/-- **`Close` releases the lock**: on the index `OpenIndex` / `OpenIndexFromBoltDatabase` returned for this database,
    it returns nil, the handle is closed, no transaction is left, the committed content is untouched -/
theorem indexClose_releases (bolt : Bolt) (idx : Go.T3.Index) (h : idx.db = some bolt.id) :
    (Gen.indexClose bolt idx).2.2 = none ∧ lockHeld (Gen.indexClose bolt idx).1 = false ∧
    (Gen.indexClose bolt idx).1.tx = none ∧ (Gen.indexClose bolt idx).1.committed = bolt.committed ∧
    (Gen.indexClose bolt idx).2.1.db = none := by
  rw [indexClose_open bolt idx bolt.id h]
  simp [dbClose, lockHeld]

/-- **`Close` against `close` of the lock model**: for a live handle `h` (the index's database is handle `h`, open), the
    model's `close` and the generated `Close` both return nil and release exactly this handle's lock; the second call is a
    no-op in both (the model: `h` is no longer live; the generated code: `idx.db == nil`). -/
theorem close_matches_generated (st : LockState) (h : HandleId) (hl : h ∈ st.live)
    (bolt : Bolt) (idx : Go.T3.Index) (hb : bolt.id = h) (hdb : idx.db = some h) :
    let r := Gen.indexClose bolt idx
    ((close st h).1, (close st h).2.holds h) = ((if isErr r.2.2 then .error else .ok ()), lockHeld r.1) ∧
    close (close st h).2 h = (.ok (), (close st h).2) ∧
    Gen.indexClose r.1 r.2.1 = (r.1, r.2.1, nilError) := by
  intro r
  subst hb
  obtain ⟨r1, r2, _⟩ := indexClose_releases bolt idx hdb
  refine ⟨?_, ?_, indexClose_twice bolt idx⟩
  · have hc : st.live.contains bolt.id = true := by simpa using hl
    rw [Updog.OpenLock.close_snd_of_live hc]
    have : r.2.2 = none := r1
    rw [this, show lockHeld r.1 = false from r2]
    simp only [isErr_none, Bool.false_eq_true, if_false, LockState.holds, Prod.mk.injEq, true_and]
    exact Updog.OpenLock.holds_release _ _
  · exact Updog.OpenLock.close_snd_of_not_live (Updog.OpenLock.not_live_after_close st bolt.id)

/-! ### concrete directories -/

/-- a directory with an index file (written by the generated writer, `demoFile` of Props/Gen/Open.lean), an empty file,
    a garbage file and an index a writer still holds -/
def demoFs : Fs :=
  { files := [([105], { content := .bolt demoFile }), ([101], { content := .empty }), ([103], { content := .garbage }),
              ([119], { content := .bolt demoFile, locks := [true] }),
              ([114], { content := .bolt demoFile, locks := [false, false] })],
    next := 5 }

example : openResult (Gen.openIndex toyExt demoFs {} [105] []) = (.ok (), true) := by rw [openIndex_cases]; decide
example : openResult (Gen.openIndex toyExt demoFs {} [105] [Gen.withPreloadedData toyExt]) = (.ok (), true) := by
  rw [openIndex_cases]; decide
-- other readers do not block a reader
example : openResult (Gen.openIndex toyExt demoFs {} [114] []) = (.ok (), true) := by rw [openIndex_cases]; decide
example : openResult (Gen.openIndex toyExt demoFs {} [101] []) = (.error, false) := by rw [openIndex_cases]; decide
example : openResult (Gen.openIndex toyExt demoFs {} [103] []) = (.error, false) := by rw [openIndex_cases]; decide
-- an absent path: error, no lock, and the path is still absent
example : openResult (Gen.openIndex toyExt demoFs {} [97] []) = (.error, false) ∧
    (Gen.openIndex toyExt demoFs {} [97] []).1.get [97] = none := by rw [openIndex_cases]; decide
example : (Gen.openIndex toyExt demoFs {} [119] []).2.2.2.2 = errWouldBlock := by rw [openIndex_cases]; decide
-- open, close, close again
def demoOpenClose : Option (List Bool) :=
  let r := Gen.openIndex toyExt demoFs {} [105] []
  r.2.2.2.1.map (fun idx =>
    let c1 := Gen.indexClose r.2.1 idx
    let c2 := Gen.indexClose c1.1 c1.2.1
    [lockHeld r.2.1, isErr c1.2.2, lockHeld c1.1, c1.2.1.db.isSome, isErr c2.2.2, lockHeld c2.1, c2.2.1.db.isSome])

example : demoOpenClose = some [true, false, false, false, false, false, false] := by
  simp only [demoOpenClose, openIndex_cases]; decide

end Updog.GeneratedEq
