/-
Equivalence of the REGENERATED `eval` methods, `Execute` and `validateExpr` of query.go (`Gen.evalEqual`, `Gen.evalNot`,
`Gen.evalAnd`, `Gen.evalOr`, `Gen.execute`, `Gen.validateExpr` in `Updog/GeneratedFns.lean`, written by
extract/translate_t1.go from the Go source on every run) with the hand-written model with cache
(`evalC`, `evalListC`, `executeC` of `Updog/Model/Cache.lean`), for every cache implementation, index, expression and
cache state.
-/
import Updog.GeneratedFns
import Updog.Proofs.GoPreludeT1
import Updog.Props.Gen.Keys
import Updog.Model.Cache
import Updog.Model.Server

namespace Updog.GeneratedEq

/-- What Go sees of `idx.values.GetCol(k)` — the returned pointer and whether the error is non-nil — refines the
    model's `ix.getCol k`, in which `none` stands for both "an error" (on-demand getter: key absent or undecodable)
    and "nil, nil" (preloaded getter: key absent). With an error the returned pointer is arbitrary. -/
def GetColRefines (g : UInt64 → Option Nat × Bool) (ix : Index) : Prop :=
  ∀ k, if (g k).2 then ix.getCol k = none else (g k).1 = ix.getCol k

/-- the on-demand getter: an absent key is an error -/
def getColOnDemand (ix : Index) (k : UInt64) : Option Nat × Bool :=
  match ix.getCol k with
  | some b => (some b, false)
  | none => (none, true)

/-- the preloaded getter: an absent key is `nil, nil` -/
def getColPreloaded (ix : Index) (k : UInt64) : Option Nat × Bool := (ix.getCol k, false)

theorem getColOnDemand_refines (ix : Index) : GetColRefines (getColOnDemand ix) ix := by
  intro k; unfold getColOnDemand; cases ix.getCol k <;> simp

theorem getColPreloaded_refines (ix : Index) : GetColRefines (getColPreloaded ix) ix := by
  intro k; simp [getColPreloaded]

/-- the `*Index` of the Go code: the model index `ix` with the cache `C` -/
def indexEnv {σ : Type} (C : CacheImpl σ) (ix : Index) (g : UInt64 → Option Nat × Bool) : Go.IndexEnv σ where
  cacheGet := C.get
  cachePut := C.put
  hasColumn := fun c => (ix.schema.col c).isSome
  getCol := g
  nextRowID := UInt32.ofNat ix.next

section
variable (H : Bytes → UInt64) {σ : Type} (C : CacheImpl σ) (ix : Index) (g : UInt64 → Option Nat × Bool)

theorem indexEnv_cacheGet : (indexEnv C ix g).cacheGet = C.get := rfl
theorem indexEnv_cachePut : (indexEnv C ix g).cachePut = C.put := rfl
theorem indexEnv_hasColumn (c : Bytes) : (indexEnv C ix g).hasColumn c = (ix.schema.col c).isSome := rfl
theorem indexEnv_getCol : (indexEnv C ix g).getCol = g := rfl
theorem indexEnv_nextRowID : (indexEnv C ix g).nextRowID = UInt32.ofNat ix.next := rfl
theorem cachePut_indexEnv (s : σ) (k : UInt64) (b : Nat) :
    Go.cachePut (indexEnv C ix g) s k (some b) = C.put s k b := rfl

/-! ### the four methods -/

/-- `(*ExprEqual).eval` = `evalC` on an EQUAL leaf -/
theorem evalEqual_eq (hg : GetColRefines g ix) (c v : Bytes) (s : σ) :
    Gen.evalEqual H (indexEnv C ix g) c v s = evalC H C ix s (.eq c v) := by
  have hk := hg (H (encodePair c v))
  simp only [Gen.evalEqual, evalC, indexEnv, cacheKeyEqual_eq, getValueIndex_eq, withCache]
  cases hcol : ix.schema.col c with
  | none => simp
  | some vs =>
    simp only [Option.isSome_some, Bool.not_true, Bool.false_eq_true, ↓reduceIte]
    cases hget : (C.get s (cacheKey H (.eq c v))).2 with
    | some bm => simp
    | none =>
      simp only [Option.isSome_none, Bool.false_eq_true, ↓reduceIte]
      cases herr : (g (H (encodePair c v))).2 with
      | true =>
        rw [herr] at hk
        simp only [↓reduceIte] at hk
        simp [hk, Go.bmNew, Go.cachePut]
      | false =>
        rw [herr] at hk
        simp only [Bool.false_eq_true, ↓reduceIte] at hk
        rw [hk]
        cases ix.getCol (H (encodePair c v)) <;> simp [Go.bmNew, Go.cachePut]

/-- `(*ExprNot).eval` = `evalC` on a NOT node, if evaluating the operand is `evalC` -/
theorem evalNot_eq (hnext : ix.next < 2 ^ 32) (subEval : Expr → σ → σ × Option Nat) (e : Expr)
    (hsub : ∀ s, subEval e s = evalC H C ix s e) (s : σ) :
    Gen.evalNot H (indexEnv C ix g) (cacheKey H) subEval e s = evalC H C ix s (.not e) := by
  have hn : (UInt32.ofNat ix.next).toNat = ix.next := by
    rw [UInt32.toNat_ofNat']; exact Nat.mod_eq_of_lt hnext
  simp only [Gen.evalNot, evalC, indexEnv, cacheKeyNot_eq, withCache, hsub]
  cases hget : (C.get s (cacheKey H (.not e))).2 with
  | some bm => simp
  | none =>
    simp only [Option.isSome_none, Bool.false_eq_true, ↓reduceIte]
    cases hev : (evalC H C ix (C.get s (cacheKey H (.not e))).1 e).2 with
    | none => simp
    | some b => simp [Go.bmFlip_some, Go.cachePut, hn]

/-- what the loop over the operands computes: `evalListC`, appended to the bitmaps collected so far -/
def loopResult (r : σ × Option (List Nat)) (acc : List Nat) :
    Go.Flow (σ × Option Nat) (σ × List (Option Nat)) :=
  match r.2 with
  | none => .ret (r.1, none)
  | some bs => .next (r.1, (acc ++ bs).map some)

/-- the loop `for _, e := range e.Exprs` of `(*ExprAnd).eval` = `evalListC`: left to right, the first error aborts -/
theorem evalAnd_loop_eq (subEval : Expr → σ → σ × Option Nat) (xs es : List Expr)
    (hsub : ∀ e ∈ es, ∀ s, subEval e s = evalC H C ix s e) (s : σ) (acc : List Nat) :
    Gen.evalAnd_loop H (indexEnv C ix g) (cacheKey H) subEval xs es s (acc.map some)
      = loopResult (evalListC H C ix s es) acc := by
  induction es generalizing s acc with
  | nil => simp [Gen.evalAnd_loop, evalListC, loopResult]
  | cons e r ih =>
    rw [Gen.evalAnd_loop, evalListC]
    simp only [hsub e (by simp)]
    cases hev : (evalC H C ix s e).2 with
    | none => simp [loopResult]
    | some b =>
      simp only [Option.isNone_some, Bool.false_eq_true, ↓reduceIte]
      have := ih (fun x hx => hsub x (by simp [hx])) (evalC H C ix s e).1 (acc ++ [b])
      simp only [List.map_append, List.map_cons, List.map_nil] at this
      rw [this]
      unfold loopResult
      cases (evalListC H C ix (evalC H C ix s e).1 r).2 <;> simp

theorem evalOr_loop_eq (subEval : Expr → σ → σ × Option Nat) (xs es : List Expr)
    (hsub : ∀ e ∈ es, ∀ s, subEval e s = evalC H C ix s e) (s : σ) (acc : List Nat) :
    Gen.evalOr_loop H (indexEnv C ix g) (cacheKey H) subEval xs es s (acc.map some)
      = loopResult (evalListC H C ix s es) acc := by
  induction es generalizing s acc with
  | nil => simp [Gen.evalOr_loop, evalListC, loopResult]
  | cons e r ih =>
    rw [Gen.evalOr_loop, evalListC]
    simp only [hsub e (by simp)]
    cases hev : (evalC H C ix s e).2 with
    | none => simp [loopResult]
    | some b =>
      simp only [Option.isNone_some, Bool.false_eq_true, ↓reduceIte]
      have := ih (fun x hx => hsub x (by simp [hx])) (evalC H C ix s e).1 (acc ++ [b])
      simp only [List.map_append, List.map_cons, List.map_nil] at this
      rw [this]
      unfold loopResult
      cases (evalListC H C ix (evalC H C ix s e).1 r).2 <;> simp

theorem map_cacheKey (es : List Expr) : List.map (cacheKey H) es = cacheKeys H es := by
  induction es with
  | nil => simp [cacheKeys]
  | cons e r ih => simp [cacheKeys, ih]

/-- `(*ExprAnd).eval` = `evalC` on an AND node, if evaluating each operand is `evalC` -/
theorem evalAnd_eq (subEval : Expr → σ → σ × Option Nat) (es : List Expr)
    (hsub : ∀ e ∈ es, ∀ s, subEval e s = evalC H C ix s e) (s : σ) :
    Gen.evalAnd H (indexEnv C ix g) (cacheKey H) subEval es s = evalC H C ix s (.and es) := by
  have hl := fun s => evalAnd_loop_eq H C ix g subEval es es hsub s []
  simp only [List.map_nil] at hl
  simp only [Gen.evalAnd, evalC, map_cacheKey, cacheKeyAnd_eq, withCache, hl, indexEnv_cacheGet]
  generalize C.get s (cacheKey H (.and es)) = r
  obtain ⟨s1, o⟩ := r
  cases o with
  | some bm => simp
  | none =>
    simp only [Option.isSome_none, Bool.false_eq_true, ↓reduceIte, loopResult]
    generalize evalListC H C ix s1 es = r2
    obtain ⟨s2, o2⟩ := r2
    cases o2 with
    | none => simp
    | some bs => simp [Go.bmFastAnd_map_some, cachePut_indexEnv]

/-- `(*ExprOr).eval` = `evalC` on an OR node, if evaluating each operand is `evalC` -/
theorem evalOr_eq (subEval : Expr → σ → σ × Option Nat) (es : List Expr)
    (hsub : ∀ e ∈ es, ∀ s, subEval e s = evalC H C ix s e) (s : σ) :
    Gen.evalOr H (indexEnv C ix g) (cacheKey H) subEval es s = evalC H C ix s (.or es) := by
  have hl := fun s => evalOr_loop_eq H C ix g subEval es es hsub s []
  simp only [List.map_nil] at hl
  simp only [Gen.evalOr, evalC, map_cacheKey, cacheKeyOr_eq, withCache, hl, indexEnv_cacheGet]
  generalize C.get s (cacheKey H (.or es)) = r
  obtain ⟨s1, o⟩ := r
  cases o with
  | some bm => simp
  | none =>
    simp only [Option.isSome_none, Bool.false_eq_true, ↓reduceIte, loopResult]
    generalize evalListC H C ix s1 es = r2
    obtain ⟨s2, o2⟩ := r2
    cases o2 with
    | none => simp
    | some bs => simp [Go.bmFastOr_map_some, cachePut_indexEnv]

/-! ### the recursive knot: dynamic dispatch of `eval` over the four generated method bodies -/

/-- `f e s` is "call `e.eval(idx)` in cache state `s`": on each node kind it runs the generated method body, and the
    operands' `eval` / `cacheKey` it calls are `f` itself / the model's `cacheKey` (see `Props/Gen/Keys.lean`). -/
structure IsGenEval (f : Expr → σ → σ × Option Nat) : Prop where
  eq : ∀ c v s, f (.eq c v) s = Gen.evalEqual H (indexEnv C ix g) c v s
  not : ∀ e s, f (.not e) s = Gen.evalNot H (indexEnv C ix g) (cacheKey H) f e s
  and : ∀ es s, f (.and es) s = Gen.evalAnd H (indexEnv C ix g) (cacheKey H) f es s
  or : ∀ es s, f (.or es) s = Gen.evalOr H (indexEnv C ix g) (cacheKey H) f es s

/-- the model `evalC` ties the knot … -/
theorem evalC_isGenEval (hg : GetColRefines g ix) (hnext : ix.next < 2 ^ 32) :
    IsGenEval H C ix g (fun e s => evalC H C ix s e) where
  eq := fun c v s => (evalEqual_eq H C ix g hg c v s).symm
  not := fun e s => (evalNot_eq H C ix g hnext _ e (fun _ => rfl) s).symm
  and := fun es s => (evalAnd_eq H C ix g _ es (fun _ _ _ => rfl) s).symm
  or := fun es s => (evalOr_eq H C ix g _ es (fun _ _ _ => rfl) s).symm

variable {H C ix g} in
mutual
/-- … and it is the only function that does: the generated method bodies, tied recursively, ARE `evalC` -/
theorem IsGenEval.eq_evalC {f : Expr → σ → σ × Option Nat} (hf : IsGenEval H C ix g f)
    (hg : GetColRefines g ix) (hnext : ix.next < 2 ^ 32) (e : Expr) : ∀ s, f e s = evalC H C ix s e :=
  match e with
  | .eq c v => fun s => (hf.eq c v s).trans (evalEqual_eq H C ix g hg c v s)
  | .not e => fun s => (hf.not e s).trans (evalNot_eq H C ix g hnext f e (hf.eq_evalC hg hnext e) s)
  | .and es => fun s => (hf.and es s).trans (evalAnd_eq H C ix g f es (hf.eq_evalC_list hg hnext es) s)
  | .or es => fun s => (hf.or es s).trans (evalOr_eq H C ix g f es (hf.eq_evalC_list hg hnext es) s)
theorem IsGenEval.eq_evalC_list {f : Expr → σ → σ × Option Nat} (hf : IsGenEval H C ix g f)
    (hg : GetColRefines g ix) (hnext : ix.next < 2 ^ 32) (es : List Expr) :
    ∀ e ∈ es, ∀ s, f e s = evalC H C ix s e :=
  match es with
  | [] => fun _ h => nomatch h
  | e :: r => fun x hx => by
    cases hx with
    | head => exact hf.eq_evalC hg hnext e
    | tail _ h => exact hf.eq_evalC_list hg hnext r x h
end

/-! the same knot for `cacheKey()`: the generated key methods, tied recursively, are the model's `cacheKey` -/

/-- `k e` is "call `e.cacheKey()`": on each node kind it runs the generated method body on the operands' keys -/
structure IsGenKey (k : Expr → UInt64) : Prop where
  eq : ∀ c v, k (.eq c v) = Gen.cacheKeyEqual H c v
  not : ∀ e, k (.not e) = Gen.cacheKeyNot H (k e)
  and : ∀ es, k (.and es) = Gen.cacheKeyAnd H (es.map k)
  or : ∀ es, k (.or es) = Gen.cacheKeyOr H (es.map k)

theorem cacheKey_isGenKey : IsGenKey H (cacheKey H) where
  eq := fun c v => (cacheKeyEqual_eq H c v).symm
  not := fun e => (cacheKeyNot_eq H e).symm
  and := fun es => by rw [map_cacheKey, cacheKeyAnd_eq]
  or := fun es => by rw [map_cacheKey, cacheKeyOr_eq]

variable {H} in
mutual
theorem IsGenKey.eq_cacheKey {k : Expr → UInt64} (hk : IsGenKey H k) (e : Expr) : k e = cacheKey H e :=
  match e with
  | .eq c v => (hk.eq c v).trans (cacheKeyEqual_eq H c v)
  | .not e => by rw [hk.not, hk.eq_cacheKey e, cacheKeyNot_eq]
  | .and es => by rw [hk.and, hk.eq_cacheKeys es, cacheKeyAnd_eq]
  | .or es => by rw [hk.or, hk.eq_cacheKeys es, cacheKeyOr_eq]
theorem IsGenKey.eq_cacheKeys {k : Expr → UInt64} (hk : IsGenKey H k) (es : List Expr) : es.map k = cacheKeys H es :=
  match es with
  | [] => by simp [cacheKeys]
  | e :: r => by rw [List.map_cons, hk.eq_cacheKey e, hk.eq_cacheKeys r, cacheKeys]
end

/-- both knots at once: whatever functions play the roles of `cacheKey()` and `eval(idx)` of the `Expression`
    interface — if on every node kind they run the generated method bodies, then `eval` is the model's `evalC` -/
theorem gen_eval_eq_evalC {k : Expr → UInt64} {f : Expr → σ → σ × Option Nat} (hk : IsGenKey H k)
    (heq : ∀ c v s, f (.eq c v) s = Gen.evalEqual H (indexEnv C ix g) c v s)
    (hnot : ∀ e s, f (.not e) s = Gen.evalNot H (indexEnv C ix g) k f e s)
    (hand : ∀ es s, f (.and es) s = Gen.evalAnd H (indexEnv C ix g) k f es s)
    (hor : ∀ es s, f (.or es) s = Gen.evalOr H (indexEnv C ix g) k f es s)
    (hg : GetColRefines g ix) (hnext : ix.next < 2 ^ 32) (e : Expr) (s : σ) : f e s = evalC H C ix s e := by
  have hkk : k = cacheKey H := funext hk.eq_cacheKey
  subst hkk
  exact IsGenEval.eq_evalC ⟨heq, hnot, hand, hor⟩ hg hnext e s

/-- an executable knot: dispatch with `fuel` levels of nesting left (no fuel: error) -/
def genEval (fuel : Nat) (e : Expr) (s : σ) : σ × Option Nat :=
  match fuel with
  | 0 => (s, none)
  | n + 1 =>
    match e with
    | .eq c v => Gen.evalEqual H (indexEnv C ix g) c v s
    | .not e => Gen.evalNot H (indexEnv C ix g) (cacheKey H) (genEval n) e s
    | .and es => Gen.evalAnd H (indexEnv C ix g) (cacheKey H) (genEval n) es s
    | .or es => Gen.evalOr H (indexEnv C ix g) (cacheKey H) (genEval n) es s

mutual
/-- nesting depth of an expression (a leaf has depth 1) -/
def exprDepth : Expr → Nat
  | .eq _ _ => 1
  | .not e => exprDepth e + 1
  | .and es => exprDepthList es + 1
  | .or es => exprDepthList es + 1
def exprDepthList : List Expr → Nat
  | [] => 0
  | e :: r => max (exprDepth e) (exprDepthList r)
end

theorem depth_le_depthList (es : List Expr) : ∀ e ∈ es, exprDepth e ≤ exprDepthList es := by
  induction es with
  | nil => intro e h; cases h
  | cons x r ih =>
    intro e h
    rw [exprDepthList]
    rcases List.mem_cons.mp h with rfl | h
    · omega
    · have := ih e h; omega

/-- with enough fuel the executable knot is `evalC` -/
theorem genEval_eq (hg : GetColRefines g ix) (hnext : ix.next < 2 ^ 32) (fuel : Nat) :
    ∀ (e : Expr), exprDepth e ≤ fuel → ∀ s, genEval H C ix g fuel e s = evalC H C ix s e := by
  induction fuel with
  | zero => intro e h; cases e <;> simp [exprDepth] at h
  | succ n ih =>
    intro e h s
    cases e with
    | eq c v => exact evalEqual_eq H C ix g hg c v s
    | not e =>
      rw [exprDepth] at h
      exact evalNot_eq H C ix g hnext _ e (ih e (by omega)) s
    | and es =>
      rw [exprDepth] at h
      exact evalAnd_eq H C ix g _ es (fun x hx => ih x (by have := depth_le_depthList es x hx; omega)) s
    | or es =>
      rw [exprDepth] at h
      exact evalOr_eq H C ix g _ es (fun x hx => ih x (by have := depth_le_depthList es x hx; omega)) s

/-! ### `validateExpr` -/

/-- what a type switch sees of a model expression: always one of the four node types, never a nil pointer -/
def exprCase : Expr → Go.ExprCase Expr
  | .eq _ _ => .equal false
  | .not e => .not false e
  | .and es => .and false es
  | .or es => .or false es

/-- what a type switch sees of `convert.toExpr w` for a wire-level tree `w`: `toExpr` yields the nil interface for an
    unset expression (also for the unset operand of a NOT) and never a typed nil pointer -/
def wexprCase : WExpr → Go.ExprCase WExpr
  | .eq _ _ => .equal false
  | .not none => .not false .unset
  | .not (some e) => .not false e
  | .and es => .and false es
  | .or es => .or false es
  | .unset => .other

end

section
variable {ε : Type} (view : ε → Go.ExprCase ε) (f : ε → Bool)

/-- the two operand loops of `validateExpr`: the first operand with an error aborts and its error is returned -/
theorem validateExpr_loop_eq (e0 : ε) (es : List ε) :
    Gen.validateExpr_loop view f e0 es = if es.any f then .ret true else .next () := by
  induction es with
  | nil => simp [Gen.validateExpr_loop]
  | cons x r ih =>
    rw [Gen.validateExpr_loop, ih, List.any_cons]
    cases hx : f x <;> simp

theorem validateExpr_loop2_eq (e0 : ε) (es : List ε) :
    Gen.validateExpr_loop2 view f e0 es = if es.any f then .ret true else .next () := by
  induction es with
  | nil => simp [Gen.validateExpr_loop2]
  | cons x r ih =>
    rw [Gen.validateExpr_loop2, ih, List.any_cons]
    cases hx : f x <;> simp

/-- `validateExpr` in closed form, for the recursive calls `f` -/
theorem validateExpr_eq (e : ε) :
    Gen.validateExpr view f e =
      match view e with
      | .equal isNil => isNil
      | .not isNil x => isNil || f x
      | .and isNil xs => isNil || xs.any f
      | .or isNil xs => isNil || xs.any f
      | .other => true := by
  simp only [Gen.validateExpr, validateExpr_loop_eq, validateExpr_loop2_eq]
  cases view e with
  | equal n => cases n <;> simp
  | not n x => cases n <;> simp
  | and n xs => cases n <;> cases h : xs.any f <;> simp [h]
  | or n xs => cases n <;> cases h : xs.any f <;> simp [h]
  | other => simp

end

/-- `f` is "call `validateExpr`" on nodes seen through `view` -/
def IsGenValidate {ε : Type} (view : ε → Go.ExprCase ε) (f : ε → Bool) : Prop :=
  ∀ e, f e = Gen.validateExpr view f e

mutual
/-- a well-formed expression tree (every model `Expr`) passes `validateExpr` -/
theorem IsGenValidate.expr {f : Expr → Bool} (hf : IsGenValidate exprCase f) (e : Expr) : f e = false :=
  match e with
  | .eq c v => by rw [hf, validateExpr_eq]; rfl
  | .not e => by rw [hf, validateExpr_eq]; simp [exprCase, hf.expr e]
  | .and es => by rw [hf, validateExpr_eq]; simp only [exprCase, Bool.false_or]; exact hf.exprs es
  | .or es => by rw [hf, validateExpr_eq]; simp only [exprCase, Bool.false_or]; exact hf.exprs es
theorem IsGenValidate.exprs {f : Expr → Bool} (hf : IsGenValidate exprCase f) (es : List Expr) : es.any f = false :=
  match es with
  | [] => rfl
  | e :: r => by rw [List.any_cons, hf.expr e, hf.exprs r]; rfl
end

theorem completeList_isNone (es : List WExpr) :
    (WExpr.completeList es).isNone = es.any (fun w => (WExpr.complete w).isNone) := by
  induction es with
  | nil => simp [WExpr.completeList]
  | cons w r ih =>
    rw [WExpr.completeList, List.any_cons, ← ih]
    cases WExpr.complete w <;> cases WExpr.completeList r <;> simp

mutual
/-- on a wire-level tree `validateExpr` returns an error exactly if the tree is incomplete (`WExpr.complete`) -/
theorem IsGenValidate.wexpr {f : WExpr → Bool} (hf : IsGenValidate wexprCase f) (w : WExpr) :
    f w = (WExpr.complete w).isNone :=
  match w with
  | .eq c v => by rw [hf, validateExpr_eq]; simp [wexprCase, WExpr.complete]
  | .unset => by rw [hf, validateExpr_eq]; simp [wexprCase, WExpr.complete]
  | .not none => by
    rw [hf, validateExpr_eq]
    have : f .unset = true := by rw [hf, validateExpr_eq]; rfl
    simp [wexprCase, WExpr.complete, this]
  | .not (some e) => by
    rw [hf, validateExpr_eq]
    simp only [wexprCase, Bool.false_or, WExpr.complete, hf.wexpr e]
    cases WExpr.complete e <;> rfl
  | .and es => by
    rw [hf, validateExpr_eq]
    simp only [wexprCase, Bool.false_or, WExpr.complete, hf.wexprs es]
    cases WExpr.completeList es <;> rfl
  | .or es => by
    rw [hf, validateExpr_eq]
    simp only [wexprCase, Bool.false_or, WExpr.complete, hf.wexprs es]
    cases WExpr.completeList es <;> rfl
theorem IsGenValidate.wexprs {f : WExpr → Bool} (hf : IsGenValidate wexprCase f) (ws : List WExpr) :
    ws.any f = (WExpr.completeList ws).isNone :=
  match ws with
  | [] => by simp [WExpr.completeList]
  | w :: r => by
    rw [List.any_cons, hf.wexpr w, hf.wexprs r, WExpr.completeList]
    cases WExpr.complete w <;> cases WExpr.completeList r <;> rfl
end

/-- an executable knot for `validateExpr` (no fuel: error) -/
def genValidate {ε : Type} (view : ε → Go.ExprCase ε) : Nat → ε → Bool
  | 0, _ => true
  | n + 1, e => Gen.validateExpr view (genValidate view n) e

/-! ### `Execute` -/

section
variable (H : Bytes → UInt64) {σ : Type} (C : CacheImpl σ) (ix : Index) (g : UInt64 → Option Nat × Bool)

/-- `q.populateGroupBy(cols, idx.schema)` and `q.groupBy(bm, idx)` of the Go code, acting on the unexported
    `groupByFields` of the query (a state of type `κ`), refine the model's `populateGroupBy` / `groupBy`:
    whatever the state was before, populate fails iff the model does, and otherwise leaves a state from which
    `groupBy` computes the model's groups. -/
def GroupByRefines {κ : Type} (ix : Index) (pop : κ → List Bytes → κ × Bool)
    (grp : κ → Nat → List (Fields × Nat)) : Prop :=
  ∀ q cols, match populateGroupBy ix.schema cols with
    | none => (pop q cols).2 = true
    | some fields => (pop q cols).2 = false ∧ ∀ bm, grp (pop q cols).1 bm = Updog.groupBy ix fields bm

/-- the canonical instance: the hidden state is the list of resolved fields; an error leaves the stale state -/
def modelPopulate (ix : Index) (stale : List GBField) (cols : List Bytes) : List GBField × Bool :=
  match populateGroupBy ix.schema cols with
  | some fields => (fields, false)
  | none => (stale, true)

theorem modelPopulate_refines (ix : Index) : GroupByRefines ix (modelPopulate ix) (Updog.groupBy ix) := by
  intro q cols
  unfold modelPopulate
  cases populateGroupBy ix.schema cols <;> simp

/-- `(*Index).Execute` = `executeC`: group-by columns are resolved first (an unknown column fails before the cache
    is touched), then the expression is validated and evaluated, the count is the cardinality and the groups are
    computed from the resolved columns; the stale hidden state of the query does not matter. -/
theorem execute_eq {κ : Type} (pop : κ → List Bytes → κ × Bool) (grp : κ → Nat → List (Fields × Nat))
    (hpop : GroupByRefines ix pop grp) (validate : Expr → Bool) (subEval : Expr → σ → σ × Option Nat)
    (q : Query) (hval : validate q.expr = false) (hsub : ∀ s, subEval q.expr s = evalC H C ix s q.expr)
    (stale : κ) (s : σ) :
    Gen.execute (indexEnv C ix g) pop validate subEval grp q.expr q.groupBy stale s
      = ((executeC H C ix s q).1, (executeC H C ix s q).2.map fun r => (r.count, r.groups)) := by
  have hp := hpop stale q.groupBy
  simp only [Gen.execute, executeC, hval, hsub]
  cases hpg : populateGroupBy ix.schema q.groupBy with
  | none =>
    rw [hpg] at hp
    simp [hp]
  | some fields =>
    rw [hpg] at hp
    simp only [hp.1, Bool.false_eq_true, ↓reduceIte]
    generalize evalC H C ix s q.expr = r
    obtain ⟨s1, o⟩ := r
    cases o with
    | none => simp
    | some bm => simp [hp.2, Go.bmCardinality_eq]

/-- `Execute` with the dynamic dispatch of `eval` and the recursion of `validateExpr` tied over the generated
    bodies is the model's `executeC` -/
theorem execute_eq_executeC {κ : Type} (pop : κ → List Bytes → κ × Bool) (grp : κ → Nat → List (Fields × Nat))
    (hpop : GroupByRefines ix pop grp) (hg : GetColRefines g ix) (hnext : ix.next < 2 ^ 32)
    {v : Expr → Bool} (hv : IsGenValidate exprCase v)
    {f : Expr → σ → σ × Option Nat} (hf : IsGenEval H C ix g f) (q : Query) (stale : κ) (s : σ) :
    Gen.execute (indexEnv C ix g) pop v f grp q.expr q.groupBy stale s
      = ((executeC H C ix s q).1, (executeC H C ix s q).2.map fun r => (r.count, r.groups)) :=
  execute_eq H C ix g pop grp hpop v f q (hv.expr q.expr) (hf.eq_evalC hg hnext q.expr) stale s

/-- `Execute` on a query as it arrives from the wire (`convert.ToQuery`; the tree may be incomplete): an incomplete
    tree is rejected by `validateExpr` BEFORE anything is evaluated — the result is an error and the cache state is
    untouched, whatever `eval` would do on such a tree (in Go: a nil dereference) —, a complete tree is executed like
    the model expression it denotes. -/
theorem execute_wexpr {κ : Type} (pop : κ → List Bytes → κ × Bool) (grp : κ → Nat → List (Fields × Nat))
    (hpop : GroupByRefines ix pop grp) {v : WExpr → Bool} (hv : IsGenValidate wexprCase v)
    (f : WExpr → σ → σ × Option Nat) (w : WExpr) (cols : List Bytes)
    (hf : ∀ e, w.complete = some e → ∀ s, f w s = evalC H C ix s e) (stale : κ) (s : σ) :
    Gen.execute (indexEnv C ix g) pop v f grp w cols stale s =
      match w.complete with
      | none => (s, none)
      | some e => ((executeC H C ix s ⟨e, cols⟩).1, (executeC H C ix s ⟨e, cols⟩).2.map fun r => (r.count, r.groups)) := by
  have hp := hpop stale cols
  simp only [Gen.execute, executeC, hv.wexpr w]
  cases hc : w.complete with
  | none =>
    cases (pop stale cols).2 <;> simp
  | some e =>
    simp only [Option.isNone_some, Bool.false_eq_true, ↓reduceIte, hf e hc]
    cases hpg : populateGroupBy ix.schema cols with
    | none =>
      rw [hpg] at hp
      simp [hp]
    | some fields =>
      rw [hpg] at hp
      simp only [hp.1, Bool.false_eq_true, ↓reduceIte]
      generalize evalC H C ix s e = r
      obtain ⟨s1, o⟩ := r
      cases o with
      | none => simp
      | some bm => simp [hp.2, Go.bmCardinality_eq]

end

/-! ### concrete runs of the generated definitions -/

namespace Demo

/-- a toy hash -/
def H (b : Bytes) : UInt64 := b.foldl (fun a x => a * 31 + x.toUInt64) 7

/-- a cache that remembers everything, newest entry first -/
def listCache : CacheImpl (List (UInt64 × Nat)) where
  get := fun s k => (s, (s.find? (·.1 == k)).map (·.2))
  put := fun s k bm => (k, bm) :: s

def a : Bytes := [97]
def b : Bytes := [98]
def x : Bytes := [120]
def y : Bytes := [121]

/-- rows 0..3: a=x in rows 0 and 2, b=y in rows 1 and 2 -/
def ix : Index where
  schema := [(a, [(x, H (encodePair a x))]), (b, [(y, H (encodePair b y))])]
  next := 4
  getCol := fun k => if k == H (encodePair a x) then some 0b0101 else if k == H (encodePair b y) then some 0b0110 else none

/-- `a=x AND NOT (b=y OR a=x)` -/
def q1 : Expr := .and [.eq a x, .not (.or [.eq b y, .eq a x])]
/-- the second operand names an unknown column -/
def q2 : Expr := .and [.eq a x, .not (.eq [99] x), .eq b y]

def run (e : Expr) (s : List (UInt64 × Nat)) := genEval H listCache ix (getColPreloaded ix) 8 e s

end Demo

open Demo in
set_option maxRecDepth 100000 in
/-- rows {0,2} ∩ complement of {0,1,2} within 4 rows = ∅; five nodes were computed and stored, the repeated leaf
    `a=x` was answered by the cache -/
example : (run q1 []).2 = some 0 ∧ (run q1 []).1.map (·.2) = [0, 0b1000, 0b0111, 0b0110, 0b0101] := by decide

open Demo in
/-- the error of the second operand aborts the AND: the third operand is not evaluated and nothing is stored for the
    NOT or the AND; only the first operand's bitmap was put into the cache -/
example : (run q2 []).2 = none ∧ (run q2 []).1.map (·.2) = [0b0101] := by decide

open Demo in
set_option maxRecDepth 100000 in
/-- a second run is answered from the cache by the root node alone: the state does not grow -/
example : (run q1 (run q1 []).1) = ((run q1 []).1, some 0) := by decide

open Demo in
/-- an absent value: the preloaded getter yields `nil, nil`, the on-demand getter an error; both give the empty bitmap -/
example : (Gen.evalEqual H (indexEnv listCache ix (getColPreloaded ix)) a y []).2 = some 0 ∧
    (Gen.evalEqual H (indexEnv listCache ix (getColOnDemand ix)) a y []).2 = some 0 := by decide

/-- `a=x OR b=y GROUP BY cols` with toy group-by functions: the hidden state is the list of resolved columns,
    resolving fails for the column `c`, and the "groups" are the resolved columns together with the result bitmap -/
def Demo.exec (cols : List Bytes) (s : List (UInt64 × Nat)) :=
  Gen.execute (indexEnv Demo.listCache Demo.ix (getColPreloaded Demo.ix))
    (fun (_ : List Bytes) cols => (cols, cols.contains [99])) (genValidate exprCase 8) Demo.run
    (fun (q : List Bytes) bm => (q, bm)) (Expr.or [.eq Demo.a Demo.x, .eq Demo.b Demo.y]) cols [[1]] s

open Demo in
set_option maxRecDepth 100000 in
/-- three rows match; the groups are computed from the state left by populateGroupBy, not from the stale one;
    three nodes were stored in the cache -/
example : (exec [b] []).2 = some (3, ([b], 0b0111)) ∧ (exec [b] []).1.length = 3 := by decide

open Demo in
set_option maxRecDepth 100000 in
/-- an unknown group-by column fails before the cache is touched -/
example : (exec [[99]] []).2 = none ∧ (exec [[99]] []).1 = [] := by decide

example : genValidate wexprCase 8 (.and [.eq [97] [120], .not none]) = true ∧
    genValidate wexprCase 8 (.and [.eq [97] [120], .not (some (.or []))]) = false := by decide

end Updog.GeneratedEq
