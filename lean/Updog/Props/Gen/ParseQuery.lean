/-
The REGENERATED `ParseQuery` of internal/queryparser/queryparser.go (`Gen.ParseQuery` of `Updog/GeneratedFns.lean`,
written by extract/translate_t4.go on every run: `newParser` → `lex` → the lexer's state functions run to completion,
then `parser.parse` behind its `defer p.recover(&err)`) equals the hand-written model `parseQuery`
(`Updog/Model/Parser.lean`) for EVERY byte string. Assembled from the lexer theorems (`Updog/Props/Gen/Lexer.lean`) and
the parser theorems (`Updog/Props/Gen/ParserFns.lean`).

`fuel` is the one translation artefact: Go's loops / recursion become recursion on a fuel argument handed to every
callee (a DEPTH bound). `3 * s.length + 5` suffices; for ANY fuel the answer is either `.error .fuel` or the model's.
-/
import Updog.Props.Gen.Lexer
import Updog.Props.Gen.ParserFns

namespace Updog.GeneratedEq

/-! ### `ParseQuery` given the lexer's items -/

/-- the parser `newParser` builds stands in front of everything the lexer sent -/
theorem stream_newParser {l : Gen.Lexer} {ts : List Tok} (hitems : List.Forall₂ ItemTok l.items ts) :
    Stream { lexer := l, token := Gen.Parser.zero.token, peekCount := Gen.Parser.zero.peekCount } ts :=
  ⟨.inl rfl, by simp [Gen.Parser.zero], by simpa [pending, Gen.Parser.zero] using hitems⟩

/-- `ParseQuery`, given what the lexer theorem provides -/
theorem ParseQuery_of_lex (s : Bytes) (fuel : Nat) (l : Gen.Lexer)
    (hlex : Gen.lex fuel s = .ok l) (hitems : List.Forall₂ ItemTok l.items (lexAll s))
    (hok : ∀ t ∈ lexAll s, TokOK t) (hfuel : 3 * (lexAll s).length + 2 ≤ fuel) :
    (match Gen.ParseQuery fuel s with
     | .ok q => parseQuery s = some q
     | .error .returned => parseQuery s = none
     | .error _ => False) := by
  have h := parse_agreesR (fuel := fuel) (stream_newParser hitems) ⟨lexAll_termShape s, hok⟩
  unfold Gen.ParseQuery Gen.newParser
  simp only [hlex, Go.deferDrain]
  generalize Gen.parser_parse fuel _ = res at h
  cases res with
  | error err =>
    cases err with
    | panic => exact h.elim
    | fuel => exact (h hfuel).elim
    | returned => exact parseToks_none_iff.mpr h
  | ok v =>
    obtain ⟨p', q⟩ := v
    exact parseToks_iff.mpr h.2

/-! ### `ParseQuery` = the model's `parseQuery` -/

/-- what `Gen.ParseQuery` answers, as the model sees it: a query, or rejected (`none`) -/
def verdict : Go.Res PQuery → Option (Option PQuery)
  | .ok q => some (some q)
  | .error .returned => some none     -- ParseQuery returned a non-nil error
  | .error _ => none                  -- unrecovered panic / out of fuel: not an answer

/-- MAIN: with enough fuel the regenerated `ParseQuery` returns exactly what the model's `parseQuery` returns: the same
    query, or an error where the model rejects; it neither panics nor runs out of fuel. -/
theorem ParseQuery_eq (s : Bytes) (fuel : Nat) (h : 3 * s.length + 5 ≤ fuel) :
    verdict (Gen.ParseQuery fuel s) = some (parseQuery s) := by
  obtain ⟨l, hlex, hitems⟩ := lex_eq_lexAll s fuel (by omega)
  have hlen := lexAll_length_le s
  have := ParseQuery_of_lex s fuel l hlex hitems (lexAll_tokOK s) (by omega)
  split at this
  · next q heq => simp [verdict, heq, this]
  · next heq => simp [verdict, heq, this]
  · exact this.elim

/-- the same as an equation between options -/
theorem ParseQuery_toOption (s : Bytes) (fuel : Nat) (h : 3 * s.length + 5 ≤ fuel) :
    (Gen.ParseQuery fuel s).toOption = parseQuery s := by
  have := ParseQuery_eq s fuel h
  cases hq : Gen.ParseQuery fuel s with
  | ok q => rw [hq] at this; simpa [verdict, Except.toOption] using this
  | error e =>
    rw [hq] at this
    cases e <;> simp [verdict, Except.toOption] at this ⊢
    exact this

/-- for EVERY fuel: out of fuel (the translation artefact), or the model's answer — never a wrong answer, never an
    unrecovered panic -/
theorem ParseQuery_fuel_or (s : Bytes) (fuel : Nat) :
    Gen.ParseQuery fuel s = .error .fuel ∨ verdict (Gen.ParseQuery fuel s) = some (parseQuery s) := by
  rcases lex_fuel_or s fuel with hl | ⟨l, hlex, hitems⟩
  · left; simp [Gen.ParseQuery, Gen.newParser, hl]
  · rw [C09.lexAllR_eq_lexAll] at hitems
    have hp := parse_agrees' fuel (stream_newParser hitems) (lexAll_termShape s) (lexAll_tokOK s)
    unfold Gen.ParseQuery Gen.newParser
    simp only [hlex, Go.deferDrain]
    rcases hp with hf | ⟨p', q, hok, hq⟩ | ⟨hr, hq⟩
    · left; rw [hf]; rfl
    · right; rw [hok]; simp [Go.recoverErr, verdict, parseQuery, hq]
    · right; rw [hr]; simp [Go.recoverErr, verdict, parseQuery, hq]

/-- consequence: the regenerated parser accepts exactly the sentences of the grammar `Updog.Grammar` -/
theorem ParseQuery_sentence (s : Bytes) (fuel : Nat) (h : 3 * s.length + 5 ≤ fuel) (q : PQuery) :
    Gen.ParseQuery fuel s = .ok q ↔ Grammar.Sentence (lexAll s) q := by
  rw [← parseToks_iff]
  have := ParseQuery_eq s fuel h
  constructor
  · intro hq; rw [hq] at this; simpa [verdict, parseQuery] using this.symm
  · intro hq
    cases hr : Gen.ParseQuery fuel s with
    | ok q' => rw [hr] at this; simp [verdict, parseQuery, hq] at this; rw [this]
    | error e => rw [hr] at this; cases e <;> simp [verdict, parseQuery, hq] at this

/-! ### examples: the generated `ParseQuery` run on concrete inputs (kernel evaluation of a small projection) -/

mutual
/-- a flat code of a tree, for comparing results by `decide` (`PExpr` has no `DecidableEq`) -/
def encE : PExpr → List Nat
  | .eq c v ph => [0, c.length] ++ c.map (·.toNat) ++ [v.length] ++ v.map (·.toNat) ++ [ph]
  | .not e => 1 :: encE e
  | .and es => 2 :: es.length :: encL es
  | .or es => 3 :: es.length :: encL es
def encL : List PExpr → List Nat
  | [] => []
  | e :: es => encE e ++ encL es
end

/-- how a call ended: `none` = a query was returned -/
def failed : Go.Res PQuery → Option Go.Err4
  | .ok _ => none
  | .error e => some e

def shown (r : Go.Res PQuery) : Option (List Nat × List Bytes) := r.toOption.map fun q => (encE q.expr, q.groupBy)

/-- `a=$1` -/
example : shown (Gen.ParseQuery 17 [97, 61, 36, 49]) = some ([0, 1, 97, 0, 1], []) := by decide +kernel
/-- `(a="x"|^b=$12)&c="ü";a,b`: precedence by parentheses, NOT, a multi-byte value, GROUP BY -/
example : shown (Gen.ParseQuery 80 [40, 97, 61, 34, 120, 34, 124, 94, 98, 61, 36, 49, 50, 41, 38, 99, 61, 34, 0xC3, 0xBC, 34, 59, 97, 44, 98]) =
    some ([2, 2, 3, 2, 0, 1, 97, 1, 120, 0, 1, 0, 1, 98, 0, 12, 0, 1, 99, 2, 0xC3, 0xBC, 0], [[97], [98]]) := by
  decide +kernel
/-- `a="1";` : dangling `;` is an error -/
example : failed (Gen.ParseQuery 23 [97, 61, 34, 49, 34, 59]) = some .returned := by decide +kernel
/-- `a="1` : unterminated string is an error -/
example : failed (Gen.ParseQuery 20 [97, 61, 34, 49]) = some .returned := by decide +kernel
/-- `a=$2147483648`: placeholder number out of the int32 range is an error -/
example : failed (Gen.ParseQuery 50 [97, 61, 36, 50, 49, 52, 55, 52, 56, 51, 54, 52, 56]) = some .returned := by
  decide +kernel
/-- too little fuel is reported as such -/
example : failed (Gen.ParseQuery 3 [97, 61, 34, 49, 34]) = some .fuel := by decide +kernel

end Updog.GeneratedEq

#print axioms Updog.GeneratedEq.ParseQuery_of_lex
#print axioms Updog.GeneratedEq.ParseQuery_eq
#print axioms Updog.GeneratedEq.ParseQuery_toOption
#print axioms Updog.GeneratedEq.ParseQuery_fuel_or
#print axioms Updog.GeneratedEq.ParseQuery_sentence
