/-
COMPOSITION of the per-function equivalences of `Updog/Props/Gen/*.lean`.

Each file there proves one regenerated function (`Updog/GeneratedFns.lean`, namespace `Updog.Gen`) equal to its
hand-written model under refinement hypotheses (`GetColRefines`, `GroupByRefines`, "`exec` agrees with
`serverExecute`", an `execute` parameter …) that were only ever discharged by model-built instances. Here the
hypotheses of one theorem are discharged by the OTHER GENERATED functions:

1. library query path: `Gen.execute` over the generated `eval` / `cacheKey` / `validateExpr` knots, the generated
   `populateGroupBy` / `groupBy`, and the generated getters of the index returned by the generated
   `OpenIndexFromBoltDatabase` — on the file written by the generated `AddRow` + `WriteToBoltDatabase` — equals
   `executeC`, and (with C01 / C02 / C03) the SQL specification;
2. server path: `Gen.serverQuery` over `Gen.ToQuery` → that `Execute` → result equals the batch semantics of
   `Model/Server.lean`;
3. driver path: text → `Gen.ParseQuery` → `Gen.stmtQuery` over that `Execute` → `Gen.newRows` equals the rows of the
   SQL specification (C12), for every DSN option combination.

Helper lemmas: `Updog/Proofs/GenCompose.lean`.
-/
import Updog.Proofs.GenCompose
import Updog.Props.EndToEnd
import Updog.Props.C12Compose
import Updog.Props.C13
import Updog.Props.C14

set_option linter.unusedVariables false
namespace Updog.GenCompose
open Updog Updog.GeneratedEq Updog.Go.T3

/-! ## 1. the library query path -/

/-! ### 1a. the refinement hypotheses of `Props/Gen/Eval.lean`, discharged by generated functions -/

/-- **`GetColRefines` for the generated on-demand getter**: `Gen.onDemandGetCol` over an open database whose bucket
    `data` has value keys `'V' ‖ be64 valueIndex`, read as query.go reads a `(*roaring.Bitmap, error)`, refines the
    model index of the file — from every state of the database handle and every heap.
    Preconditions: the keys are well formed, `FromBuffer(nil)` is an error. -/
theorem onDemand_getter_refines (X : Ext) (i n : Nat) (c : Buckets) (cs : List (List PutRec)) (hp : Heap)
    (d : BucketData) (s : SchemaVal) (next : UInt32)
    (hb : bucketsGet c dataName = some d) (wk : WellKeyed d) (hnil : X.roaringFromBuffer [] = none) :
    GetColRefines (genOnDemandGetter X (idle i n c cs) hp { db := some i }) (fileIndex X d s next) :=
  genOnDemandGetter_refines X i n c cs hp d s next hb wk hnil

/-- **`GetColRefines` for the generated preloaded getter**: the getter `Gen.newPreloadedColGetter` returns, asked with
    `Gen.preloadedGetCol`, refines the model index of the file.
    Preconditions: the bucket is in bbolt's key order (`SortedData`) and the keys are well formed. -/
theorem preloaded_getter_refines (X : Ext) (i n : Nat) (c : Buckets) (cs : List (List PutRec)) (hp : Heap)
    (d : BucketData) (s : SchemaVal) (next : UInt32)
    (hb : bucketsGet c dataName = some d) (hs : SortedData d) (wk : WellKeyed d) (cg : PreloadedColGetter)
    (hcg : (Gen.newPreloadedColGetter X (idle i n c cs) hp (some i)).2.2.1 = .preloaded cg) :
    GetColRefines (genPreloadedGetter (Gen.newPreloadedColGetter X (idle i n c cs) hp (some i)).2.1 cg)
      (fileIndex X d s next) :=
  genPreloadedGetter_refines X i n c cs hp d s next hb hs wk cg hcg

/-- **the generated open hands query.go an index that refines the model index of the file**, for
    `OpenIndex(file)` and `OpenIndex(file, WithPreloadedData())`: the call succeeds, the database stays open, the
    returned `*Index` carries the decoded schema and counter, and its `values.GetCol` (dispatched over the two
    generated getters) satisfies `GetColRefines`. -/
theorem opened_index_refines (X : Ext) (i n : Nat) (c : Buckets) (cs : List (List PutRec)) (hp : Heap)
    (d : BucketData) (s : SchemaVal) (next : UInt32) (ok : FileOK X c d s next)
    (hnil : X.roaringFromBuffer [] = none) (preload : Bool)
    (hs : preload = true → SortedData d) (hdec : preload = true → vDecodable X d = true) :
    ∃ n' hp' vals, Gen.openIndexFromBoltDatabase X (idle i n c cs) hp (some i) (openOpts X preload)
        = (idle i n' c cs, hp', some (openedIndex i s next vals), none) ∧
      GetColRefines (genGetCol X (idle i n' c cs) hp' vals) (fileIndex X d s next) :=
  open_ok X i n c cs hp d s next ok hnil preload hs hdec

/-- **`GroupByRefines` for the generated `populateGroupBy` + `groupBy`** (in the form `GroupByRefinesBelow`: on result
    bitmaps whose cardinality fits the `uint64` of `GetCardinality`; the unrestricted `GroupByRefines` of
    Props/Gen/Eval.lean is FALSE of the generated `groupBy`, which counts in `uint64`): over every getter that refines
    the index, an unknown column fails, and otherwise the hidden state left by `populateGroupBy` makes `groupBy`
    compute the model's groups. -/
theorem generated_groupBy_refines (ix : Updog.Index) (sch : Gen.schema) (hs : schemaOf sch = ix.schema)
    (g : UInt64 → Option Nat × Bool) (hg : GetColRefines g ix) :
    GroupByRefinesBelow ix (genPop sch) (fun q bm => (genGrp g q bm).map groupOf) :=
  genGroupBy_refines ix sch hs g hg

/-- **FINDING: the unrestricted `GroupByRefines` cannot be discharged by the generated functions.** There is an index
    (one column, one value whose bitmap has 2^64 members), a generated schema and a getter refining it for which
    `GroupByRefines ix (genPop sch) (genGrp g …)` is false: the generated `groupBy` tests and reports
    `GetCardinality()` as a `uint64` (2^64 wraps to 0, the group is dropped), the model counts in `Nat`. Roaring bitmaps
    hold at most 2^32 row ids, so this is an artefact of modelling bitmaps as unbounded `Nat`s — but it is why
    `execute_eq_executeC` of Props/Gen/Eval.lean could only ever be instantiated with model-built group-by functions. -/
theorem groupByRefines_unrestricted_false :
    ∃ (ix : Updog.Index) (sch : Gen.schema) (g : UInt64 → Option Nat × Bool),
      schemaOf sch = ix.schema ∧ GetColRefines g ix ∧
      ¬ GroupByRefines ix (genPop sch) (fun q bm => (genGrp g q bm).map groupOf) :=
  groupByRefines_unbounded_false

/-- **the generated group-by loop never meets the nil bitmap of the preloaded getter on a written file**: for every
    value of every resolved group-by field a getter that refines the index returns a non-nil bitmap whenever it returns
    no error — so reading `(nil, nil)` as "skip" in `Gen.Query_groupBy` (where Go would dereference nil) is harmless. -/
theorem groupBy_never_sees_nil (H : Bytes → UInt64) (X : Ext) (rows : List Row) (d : BucketData) (next : UInt32)
    (hw : HoldsWriter X d (Writer.addRows H {} rows) next) (g : UInt64 → Option Nat × Bool)
    (hg : GetColRefines g (fileIndex X d (Writer.addRows H {} rows).schema next))
    (cols : List Bytes) (fields : List GBField)
    (hf : populateGroupBy (Writer.addRows H {} rows).schema cols = some fields) :
    ∀ gbf ∈ fields, ∀ v ∈ gbf.values, (g v.2).2 = false → (g v.2).1.isSome = true :=
  genGroupBy_no_nil H X rows d next hw g hg cols fields hf

/-! ### 1b. `Execute`, instantiated entirely with generated functions, is `executeC` -/

/-- **`Gen.execute` with every parameter generated = `executeC`** (abstract knots): whatever functions `k`, `f`, `v`
    play the roles of the dynamic dispatch of `cacheKey()`, `eval(idx)` and of the recursion of `validateExpr` — if on
    every node kind they run the generated method bodies — `Execute` over the generated `populateGroupBy`/`groupBy`
    and a getter that refines the index (`onDemand_getter_refines`, `preloaded_getter_refines`) returns exactly what
    `executeC` returns: new cache state, count and groups, for every cache implementation and state and every stale
    hidden state of the query object.
    Remaining preconditions: `next < 2^32`; the result bitmap's cardinality fits 64 bits. -/
theorem execute_all_generated_eq_executeC (H : Bytes → UInt64) {σ : Type} (C : CacheImpl σ) (ix : Updog.Index)
    (g : UInt64 → Option Nat × Bool) (hg : GetColRefines g ix) (hnext : ix.next < 2 ^ 32)
    (sch : Gen.schema) (hsch : schemaOf sch = ix.schema)
    {k : Expr → UInt64} (hk : IsGenKey H k)
    {f : Expr → σ → σ × Option Nat}
    (heq : ∀ c v s, f (.eq c v) s = Gen.evalEqual H (indexEnv C ix g) c v s)
    (hnot : ∀ e s, f (.not e) s = Gen.evalNot H (indexEnv C ix g) k f e s)
    (hand : ∀ es s, f (.and es) s = Gen.evalAnd H (indexEnv C ix g) k f es s)
    (hor : ∀ es s, f (.or es) s = Gen.evalOr H (indexEnv C ix g) k f es s)
    {v : Expr → Bool} (hv : IsGenValidate exprCase v)
    (q : Query) (stale : List Gen.groupBy) (s : σ)
    (hcard : ∀ bm, (evalC H C ix s q.expr).2 = some bm → popcount bm < 2 ^ 64) :
    execView (Gen.execute (indexEnv C ix g) (genPop sch) v f (genGrp g) q.expr q.groupBy stale s)
      = executeC H C ix s q := by
  have hx := execute_view H C ix g (genPop sch) (fun q bm => (genGrp g q bm).map groupOf)
    (genGroupBy_refines ix sch hsch g hg) v f q.expr q.groupBy (some q.expr) (hv.expr q.expr) stale s
    (fun e he => by cases he; exact gen_eval_eq_evalC H C ix g hk heq hnot hand hor hg hnext q.expr s)
    (fun e he => by cases he; exact hcard)
  rw [execute_map_groups] at hx
  exact execView_of_pairs _ _ _ hx

/-- **`Execute` on the index the generated open returned = `executeC`** (executable knots, Go `Expression` values with
    possibly nil operands): `genExecute` runs the generated `Execute` body with the generated `validateExpr` / `eval` /
    `cacheKey` knots, the generated `populateGroupBy` / `groupBy`, and the generated getter of the opened index
    (`genIndexEnv`). A tree with a nil operand is rejected before the cache is touched; every other query is answered
    like `executeC` on the model index of the file, cache state included.
    Remaining precondition: the result bitmap's cardinality fits 64 bits. -/
theorem genExecute_eq_executeC (H : Bytes → UInt64) {σ : Type} (C : CacheImpl σ) (X : Ext) (bolt : Bolt) (hp : Heap)
    (i : Nat) (d : BucketData) (s : SchemaVal) (next : UInt32) (vals : ColGetter)
    (hg : GetColRefines (genGetCol X bolt hp vals) (fileIndex X d s next))
    (q : Go.Lib.Query) (stale : List Gen.groupBy) (st : σ)
    (hcard : ∀ e, libComplete q.Expr = some e → ∀ bm, (evalC H C (fileIndex X d s next) st e).2 = some bm →
      popcount bm < 2 ^ 64) :
    execView (genExecute H C X bolt hp (openedIndex i s next vals) q stale st) =
      match libComplete q.Expr with
      | none => (st, none)
      | some e => executeC H C (fileIndex X d s next) st ⟨e, q.GroupBy⟩ :=
  genExecute_eq H C X bolt hp i d s next vals hg q stale st hcard

/-! ### 1c. … and therefore the SQL specification -/

/-- **`Execute`, all generated, on a file that holds the written rows = SQL, through any lawful cache.**
    `d` holds `Writer.addRows H {} rows` (`HoldsWriter`; established for the generated writer by `written_file_holds`),
    the index was opened by the generated open (`hg`: `opened_index_refines`). For every cache implementation satisfying
    the contract `CacheLaws` (null cache, LRU of any capacity) in a sound state, every expression of a sub-expression-
    closed universe `U` on which cache keys separate meanings (`KeyOK`, e.g. no 64-bit collision among the strings hashed,
    `C03.keyOK_of_no_collision`), under the collision hypotheses of C01 / C02: the answer is the specification's
    (`specExecute`: count of satisfying rows and SQL GROUP BY), and the cache state stays sound.
    Remaining preconditions: fewer than 2^64 rows (so counts fit); those of `HoldsWriter` / `hg`. -/
theorem genExecute_eq_sql (H : Bytes → UInt64) (X : Ext) (rows : List Row) (bolt : Bolt) (hp : Heap) (i : Nat)
    (d : BucketData) (next : UInt32) (vals : ColGetter)
    (hw : HoldsWriter X d (Writer.addRows H {} rows) next)
    (hg : GetColRefines (genGetCol X bolt hp vals) (fileIndex X d (Writer.addRows H {} rows).schema next))
    (hlen : rows.length < 2 ^ 64)
    {σ : Type} {C : CacheImpl σ} (L : CacheLaws C) {U : List Expr} (hU : SubClosed U)
    (hkey : KeyOK H (Writer.addRows H {} rows).toIndex U) (st : σ)
    (hst : Sound H (Writer.addRows H {} rows).toIndex U L st)
    (e : Expr) (he : e ∈ U) (cols : List Bytes) (stale : List Gen.groupBy)
    (ok : EndToEnd.QueryOK H rows ⟨e, cols⟩) (hD : DataNoCollision H rows) :
    (execView (genExecute H C X bolt hp (openedIndex i (Writer.addRows H {} rows).schema next vals)
        ⟨toLib e, cols⟩ stale st)).2 = specExecute rows ⟨e, cols⟩ ∧
    Sound H (Writer.addRows H {} rows).toIndex U L
      (execView (genExecute H C X bolt hp (openedIndex i (Writer.addRows H {} rows).schema next vals)
        ⟨toLib e, cols⟩ stale st)).1 := by
  rw [genExecute_eq_execute H X rows bolt hp i d next vals hw hg hlen C st e cols stale
    (C03.cache_transparent L hU hkey st hst e he).1]
  have ht := C03.execute_transparent L hU hkey st hst ⟨e, cols⟩ he
  exact ⟨ht.1.trans (C02.groupBy_eq_spec H rows e cols ok.cols ok.wf ok.inj hD ok.gb), ht.2⟩

/-- **total count (C01), all generated**: without GROUP BY the answer is exactly the number of rows satisfying the
    expression and no groups; only the collision hypothesis of `C01.count_correct` is needed. -/
theorem genExecute_count_eq_specCount (H : Bytes → UInt64) (X : Ext) (rows : List Row) (bolt : Bolt) (hp : Heap) (i : Nat)
    (d : BucketData) (next : UInt32) (vals : ColGetter)
    (hw : HoldsWriter X d (Writer.addRows H {} rows) next)
    (hg : GetColRefines (genGetCol X bolt hp vals) (fileIndex X d (Writer.addRows H {} rows).schema next))
    (hlen : rows.length < 2 ^ 64)
    {σ : Type} {C : CacheImpl σ} (L : CacheLaws C) {U : List Expr} (hU : SubClosed U)
    (hkey : KeyOK H (Writer.addRows H {} rows).toIndex U) (st : σ)
    (hst : Sound H (Writer.addRows H {} rows).toIndex U L st)
    (e : Expr) (he : e ∈ U) (stale : List Gen.groupBy)
    (hcols : ∀ c ∈ e.columns, c ∈ columnsOf rows) (hwf : e.arityPos = true) (hinj : NoCollision H rows e.pairs) :
    (execView (genExecute H C X bolt hp (openedIndex i (Writer.addRows H {} rows).schema next vals)
        ⟨toLib e, []⟩ stale st)).2 = some ⟨specCount rows e, []⟩ := by
  rw [genExecute_eq_execute H X rows bolt hp i d next vals hw hg hlen C st e [] stale
    (C03.cache_transparent L hU hkey st hst e he).1, (C03.execute_transparent L hU hkey st hst ⟨e, []⟩ he).1]
  exact C01.count_correct H rows e hcols hwf hinj

/-- **every query of every history through an LRU cache of any capacity, all generated, equals SQL**
    (`EndToEnd.cached_history_equals_sql` for the generated `Execute`): `genExecuteAll` threads the cache state through
    the queries; every query object brings its own stale hidden state. -/
theorem genExecute_history_eq_sql (H : Bytes → UInt64) (X : Ext) (rows : List Row) (bolt : Bolt) (hp : Heap) (i : Nat)
    (d : BucketData) (next : UInt32) (vals : ColGetter)
    (hw : HoldsWriter X d (Writer.addRows H {} rows) next)
    (hg : GetColRefines (genGetCol X bolt hp vals) (fileIndex X d (Writer.addRows H {} rows).schema next))
    (hlen : rows.length < 2 ^ 64)
    (qs : List (Query × List Gen.groupBy)) (sz : Nat → Nat) (c0 : Lru) (h0 : c0.items = [])
    (hinj : InjOn H (((qs.map (·.1)).map (·.expr)).flatMap (preimages H)))
    (hagree : KnownAgree H (Writer.addRows H {} rows).toIndex (((qs.map (·.1)).map (·.expr)).flatMap Expr.pairs))
    (hD : DataNoCollision H rows) (hq : ∀ q ∈ qs.map (·.1), EndToEnd.QueryOK H rows q) :
    (genExecuteAll H (lruCacheImpl sz) X bolt hp (openedIndex i (Writer.addRows H {} rows).schema next vals)
        (qs.map fun p => (⟨toLib p.1.expr, p.1.groupBy⟩, p.2)) c0).2
      = (qs.map (·.1)).map fun q => specExecute rows q := by
  rw [genExecuteAll_eq H X rows bolt hp i d next vals hw hg hlen (C03.lruCache_contract sz)
    (subsOf_closed ((qs.map (·.1)).map (·.expr)))
    (C03.keyOK_of_no_collision H _ _ hinj hagree) qs c0 ((C03.lru_empty sz c0 h0).sound H _ _ _)
    (fun p hp => subsOf_mem _ p.1.expr (List.mem_map.mpr ⟨p.1, List.mem_map.mpr ⟨p, hp, rfl⟩, rfl⟩))]
  exact EndToEnd.cached_history_equals_sql H rows (qs.map (·.1)) sz c0 h0 hinj hagree hD hq

/-- **the file the generated writer leaves behind** (`Gen.indexWriterAddRow` for every row, then
    `Gen.writeToBoltDatabase` with any map enumeration `rng`, into a database without a bucket `data`): the database is
    open and idle, bucket `data` is in bbolt's key order and holds `Writer.addRows H {} rows`.
    Preconditions: fewer than 2^32 rows; the roaring coder round-trips, the gob coder round-trips on the schema. -/
theorem written_file_holds (H : Bytes → UInt64) (X : Ext) (rows : List Row) (hlen : rows.length < 2 ^ 32)
    (hrt : ∀ b, X.roaringFromBuffer (X.roaringToBytes b) = some b)
    (hgob : X.gobDecode (X.gobEncode (Writer.addRows H {} rows).schema) = some (Writer.addRows H {} rows).schema)
    (i n : Nat) (c : Buckets) (cs : List (List PutRec)) (hfresh : bucketsGet c dataName = none)
    (rng : List (UInt64 × Ptr)) (hrng : rng.Perm (genAddRows H {} {} rows).2.values) :
    ∃ n' c' cs' d,
      (Gen.writeToBoltDatabase X rng (idle i n c cs) (genAddRows H {} {} rows).1 (genAddRows H {} {} rows).2 (some i)).1
        = idle i n' c' cs' ∧
      bucketsGet c' dataName = some d ∧ SortedData d ∧
      HoldsWriter X d (Writer.addRows H {} rows) (genAddRows H {} {} rows).2.nextRowID :=
  gen_written_file H X rows hlen hrt hgob i n c cs hfresh rng hrng

/-- **END TO END, every step regenerated**: rows added with the generated `AddRow`, flushed with the generated
    `WriteToBoltDatabase`, the file opened with the generated `OpenIndexFromBoltDatabase` (with or without
    `WithPreloadedData()`), and queried with the generated `Execute` (generated knots, group-by functions and getters)
    through the null cache (the reader's heap `hp` is arbitrary — another process): the open succeeds and every query
    over known columns is answered exactly like the SQL
    specification — under the collision hypotheses of C01 / C02 and nothing else about the hash.
    Remaining preconditions: fewer than 2^32 rows; coders round-trip; `FromBuffer(nil)` is an error. -/
theorem written_opened_executed_eq_sql (H : Bytes → UInt64) (X : Ext) (rows : List Row) (hlen : rows.length < 2 ^ 32)
    (hrt : ∀ b, X.roaringFromBuffer (X.roaringToBytes b) = some b)
    (hgob : X.gobDecode (X.gobEncode (Writer.addRows H {} rows).schema) = some (Writer.addRows H {} rows).schema)
    (hnil : X.roaringFromBuffer [] = none)
    (i n : Nat) (c : Buckets) (cs : List (List PutRec)) (hfresh : bucketsGet c dataName = none)
    (rng : List (UInt64 × Ptr)) (hrng : rng.Perm (genAddRows H {} {} rows).2.values) (preload : Bool)
    (hp : Heap) :
    ∃ n1 c1 cs1 n2 hp2 idx,
      (Gen.writeToBoltDatabase X rng (idle i n c cs) (genAddRows H {} {} rows).1 (genAddRows H {} {} rows).2 (some i)).1
        = idle i n1 c1 cs1 ∧
      Gen.openIndexFromBoltDatabase X (idle i n1 c1 cs1) hp (some i) (openOpts X preload)
        = (idle i n2 c1 cs1, hp2, some idx, none) ∧
      ∀ (e : Expr) (cols : List Bytes) (stale : List Gen.groupBy),
        EndToEnd.QueryOK H rows ⟨e, cols⟩ → DataNoCollision H rows →
        (execView (genExecute H nullCacheImpl X (idle i n2 c1 cs1) hp2 idx ⟨toLib e, cols⟩ stale ())).2
          = specExecute rows ⟨e, cols⟩ := by
  obtain ⟨n1, c1, cs1, d, hwr, hb, hs, hw⟩ := gen_written_file H X rows hlen hrt hgob i n c cs hfresh rng hrng
  obtain ⟨n2, hp2, vals, hopen, hg⟩ := open_ok X i n1 c1 cs1 hp d _ _ (hw.fileOK hb) hnil preload
    (fun _ => hs) (fun _ => hw.vDecodable hs)
  refine ⟨n1, c1, cs1, n2, hp2, _, hwr, hopen, ?_⟩
  intro e cols stale ok hD
  rw [genExecute_eq_execute H X rows _ hp2 i d _ vals hw hg (Nat.lt_trans hlen (by decide)) nullCacheImpl () e cols stale
    (evalC_null H _ e), executeC_null]
  exact C02.groupBy_eq_spec H rows e cols ok.cols ok.wf ok.inj hD ok.gb

/-! ## 2. the server path: `Gen.serverQuery` over `Gen.ToQuery` → the generated `Execute` → result -/

/-- **the gRPC handler, every component regenerated, has the batch semantics of `Model/Server.lean`.**
    `exec` is no longer a parameter: each member of the request is converted with `Gen.ToQuery` (inside
    `Gen.serverQuery`) and executed with `genLibExecute` — the generated `Execute` of item 1 on the index the generated
    open returned — and the response is built with `Gen.ToProtobufResult`. `stOf` assigns to every query the state the
    result cache is in when the query runs (`Gen.serverQuery` takes a pure `execute`; the answers do not depend on the
    state as long as it is one from which cached execution is transparent — `htr`, discharged below for the null cache
    and for every lawful cache in a sound state).
    Remaining preconditions: fewer than 2^31 queries per request; result cardinalities fit 64 bits. -/
theorem gen_serverQuery_eq (H : Bytes → UInt64) {σ : Type} (C : CacheImpl σ) (X : Ext) (bolt : Bolt) (hp : Heap)
    (i : Nat) (d : BucketData) (s : SchemaVal) (next : UInt32) (vals : ColGetter)
    (hg : GetColRefines (genGetCol X bolt hp vals) (fileIndex X d s next))
    (stOf : Go.Lib.Query → σ) (qs : List WQuery) (hlen : qs.length < 2147483648)
    (htr : ∀ q ∈ qs, ∀ w e, q.expr = some w → w.complete = some e →
      (executeC H C (fileIndex X d s next) (stOf (Gen.ToQuery q)) ⟨e, q.groupBy⟩).2
        = execute H (fileIndex X d s next) ⟨e, q.groupBy⟩)
    (hcard : ∀ q ∈ qs, ∀ w e, q.expr = some w → w.complete = some e →
      ∀ bm, (evalC H C (fileIndex X d s next) (stOf (Gen.ToQuery q)) e).2 = some bm → popcount bm < 2 ^ 64) :
    (toOutcome (Gen.serverQuery (fun lq => genLibExecute H C X bolt hp (openedIndex i s next vals) (stOf lq) lq) ⟨qs⟩)).map
        (fun resp => resp.Results.map presultOfGo)
      = (serverQuery H (fileIndex X d s next) qs).map respOf :=
  serverQuery_eq H (fileIndex X d s next) _ qs hlen (fun q hq =>
    genLibExecute_agrees H C X bolt hp i d s next vals hg (stOf (Gen.ToQuery q)) q (htr q hq) (hcard q hq))

/-- the same for the **null cache** (the server's default): no hypothesis on the hash -/
theorem gen_serverQuery_null (H : Bytes → UInt64) (X : Ext) (bolt : Bolt) (hp : Heap)
    (i : Nat) (d : BucketData) (s : SchemaVal) (next : UInt32) (vals : ColGetter)
    (hg : GetColRefines (genGetCol X bolt hp vals) (fileIndex X d s next))
    (qs : List WQuery) (hlen : qs.length < 2147483648)
    (hcard : ∀ q ∈ qs, ∀ w e, q.expr = some w → w.complete = some e →
      ∀ bm, eval H (fileIndex X d s next) e = some bm → popcount bm < 2 ^ 64) :
    (toOutcome (Gen.serverQuery (genLibExecute H nullCacheImpl X bolt hp (openedIndex i s next vals) ()) ⟨qs⟩)).map
        (fun resp => resp.Results.map presultOfGo)
      = (serverQuery H (fileIndex X d s next) qs).map respOf :=
  gen_serverQuery_eq H nullCacheImpl X bolt hp i d s next vals hg (fun _ => ()) qs hlen
    (fun q _ w e _ _ => executeC_null H _ _)
    (fun q hq w e hw he bm hbm => hcard q hq w e hw he bm (by rw [← evalC_null H _ e]; exact hbm))

/-- … and for **every lawful cache** (an LRU of any capacity: `C03.lruCache_contract`) whose state is sound whenever
    a query runs, on a universe `U` of expressions closed under sub-expressions that contains the batch and on which
    cache keys separate meanings (`C03.keyOK_of_no_collision`) -/
theorem gen_serverQuery_cached (H : Bytes → UInt64) {σ : Type} {C : CacheImpl σ} (L : CacheLaws C) (X : Ext)
    (bolt : Bolt) (hp : Heap) (i : Nat) (d : BucketData) (s : SchemaVal) (next : UInt32) (vals : ColGetter)
    (hg : GetColRefines (genGetCol X bolt hp vals) (fileIndex X d s next))
    {U : List Expr} (hU : SubClosed U) (hkey : KeyOK H (fileIndex X d s next) U)
    (stOf : Go.Lib.Query → σ) (hst : ∀ lq, Sound H (fileIndex X d s next) U L (stOf lq))
    (qs : List WQuery) (hlen : qs.length < 2147483648)
    (hmem : ∀ q ∈ qs, ∀ w e, q.expr = some w → w.complete = some e → e ∈ U)
    (hcard : ∀ q ∈ qs, ∀ w e, q.expr = some w → w.complete = some e →
      ∀ bm, eval H (fileIndex X d s next) e = some bm → popcount bm < 2 ^ 64) :
    (toOutcome (Gen.serverQuery (fun lq => genLibExecute H C X bolt hp (openedIndex i s next vals) (stOf lq) lq) ⟨qs⟩)).map
        (fun resp => resp.Results.map presultOfGo)
      = (serverQuery H (fileIndex X d s next) qs).map respOf :=
  gen_serverQuery_eq H C X bolt hp i d s next vals hg stOf qs hlen
    (fun q hq w e hw he => (C03.execute_transparent L hU hkey _ (hst _) ⟨e, q.groupBy⟩ (hmem q hq w e hw he)).1)
    (fun q hq w e hw he bm hbm => hcard q hq w e hw he bm (by
      rw [← (C03.cache_transparent L hU hkey _ (hst _) e (hmem q hq w e hw he)).1]; exact hbm))

/-- **on a file that holds the written rows no precondition on the batch remains**: any request of fewer than 2^31
    queries — incomplete trees, unknown columns, anything — gets from the all-generated handler exactly the answer of
    the model's `serverQuery` on `Writer.toIndex` (fewer than 2^64 rows). -/
theorem gen_serverQuery_written (H : Bytes → UInt64) (X : Ext) (rows : List Row) (bolt : Bolt) (hp : Heap) (i : Nat)
    (d : BucketData) (next : UInt32) (vals : ColGetter)
    (hw : HoldsWriter X d (Writer.addRows H {} rows) next)
    (hg : GetColRefines (genGetCol X bolt hp vals) (fileIndex X d (Writer.addRows H {} rows).schema next))
    (hrows : rows.length < 2 ^ 64) (qs : List WQuery) (hlen : qs.length < 2147483648) :
    (toOutcome (Gen.serverQuery (genLibExecute H nullCacheImpl X bolt hp
        (openedIndex i (Writer.addRows H {} rows).schema next vals) ()) ⟨qs⟩)).map
        (fun resp => resp.Results.map presultOfGo)
      = (serverQuery H (Writer.addRows H {} rows).toIndex qs).map respOf := by
  have := gen_serverQuery_null H X bolt hp i d _ next vals hg qs hlen (by
    intro q _ w e _ _ bm hbm
    rw [hw.fileIndex_eq] at hbm
    exact Nat.lt_of_le_of_lt (eval_popcount_le H rows e bm hbm) hrows)
  rwa [hw.fileIndex_eq] at this

/-- **C13 for the generated handler**: when the all-generated handler returns a response, it holds exactly one result
    per query, in request order, each tagged with the query's id (or its 1-based position when the id is 0), each the
    protobuf conversion of what the library returns for that query. -/
theorem gen_server_batch (H : Bytes → UInt64) (X : Ext) (rows : List Row) (bolt : Bolt) (hp : Heap) (i : Nat)
    (d : BucketData) (next : UInt32) (vals : ColGetter)
    (hw : HoldsWriter X d (Writer.addRows H {} rows) next)
    (hg : GetColRefines (genGetCol X bolt hp vals) (fileIndex X d (Writer.addRows H {} rows).schema next))
    (hrows : rows.length < 2 ^ 64) (qs : List WQuery) (hlen : qs.length < 2147483648)
    (resp : Go.Pb.QueryResponse)
    (hok : Gen.serverQuery (genLibExecute H nullCacheImpl X bolt hp
        (openedIndex i (Writer.addRows H {} rows).schema next vals) ()) ⟨qs⟩ = .ok resp) :
    ∃ rs, resp.Results.map presultOfGo = respOf rs ∧ rs.length = qs.length ∧
      ∀ j (hj : j < qs.length), ∃ r, serverExecute H (Writer.addRows H {} rows).toIndex qs[j] = .ok r ∧
        rs[j]? = some (C13.expectedId qs[j] (1 + j), r) := by
  have h := gen_serverQuery_written H X rows bolt hp i d next vals hw hg hrows qs hlen
  rw [hok] at h
  cases hs : serverQuery H (Writer.addRows H {} rows).toIndex qs with
  | ok rs =>
    rw [hs] at h
    simp only [toOutcome, Outcome.map, Outcome.ok.injEq] at h
    obtain ⟨h1, h2⟩ := C13.server_batch H _ qs 1 rs hs
    exact ⟨rs, h, h1, h2⟩
  | error => rw [hs] at h; simp [toOutcome, Outcome.map] at h
  | panic => rw [hs] at h; simp [toOutcome, Outcome.map] at h
  | hang => rw [hs] at h; simp [toOutcome, Outcome.map] at h

/-- **C14 for the generated handler**: a request with a member whose expression tree is missing or incomplete
    (a nil operand anywhere) is refused as a whole with an RPC error — `validateExpr` rejects it before `eval` could
    dereference the nil — and never answered partially. -/
theorem gen_server_rejects_incomplete (H : Bytes → UInt64) (X : Ext) (rows : List Row) (bolt : Bolt) (hp : Heap) (i : Nat)
    (d : BucketData) (next : UInt32) (vals : ColGetter)
    (hw : HoldsWriter X d (Writer.addRows H {} rows) next)
    (hg : GetColRefines (genGetCol X bolt hp vals) (fileIndex X d (Writer.addRows H {} rows).schema next))
    (hrows : rows.length < 2 ^ 64) (qs : List WQuery) (hlen : qs.length < 2147483648)
    (q : WQuery) (hq : q ∈ qs) (hinc : (match q.expr with | none => none | some w => w.complete) = none) :
    (toOutcome (Gen.serverQuery (genLibExecute H nullCacheImpl X bolt hp
        (openedIndex i (Writer.addRows H {} rows).schema next vals) ()) ⟨qs⟩)) = .error := by
  have h := gen_serverQuery_written H X rows bolt hp i d next vals hw hg hrows qs hlen
  have herr : serverExecute H (Writer.addRows H {} rows).toIndex q = .error := by
    unfold serverExecute
    cases hw' : q.expr with
    | none => rfl
    | some w => rw [hw'] at hinc; simp only at hinc ⊢; rw [hinc]
  have hno := C13.server_fails_on_invalid H _ qs 1 ⟨q, hq, herr⟩
  have hnp := C14.server_never_panics H (Writer.addRows H {} rows).toIndex qs 1
  cases hs : serverQuery H (Writer.addRows H {} rows).toIndex qs with
  | ok rs => exact absurd hs (hno rs)
  | error =>
    rw [hs] at h
    cases hr : Gen.serverQuery (genLibExecute H nullCacheImpl X bolt hp
        (openedIndex i (Writer.addRows H {} rows).schema next vals) ()) ⟨qs⟩ with
    | ok r => rw [hr] at h; simp [toOutcome, Outcome.map] at h
    | error e => rfl
  | panic => exact absurd hs hnp.1
  | hang => exact absurd hs hnp.2

/-! ## 3. the driver path: text → `Gen.ParseQuery` → `Gen.stmtQuery` over the generated `Execute` → `Gen.newRows` -/

/-- what `database/sql` can observe of the `driver.Rows` a statement returned: column names and the cells of every row -/
def rowsView (r : Go.Drv.rows) : List Bytes × List (List Cell) := (r.cols, r.rows.map rowCells)

/-- **a prepared statement, every component regenerated**: the statement text is parsed with `Gen.ParseQuery`
    (enough fuel: it then is the model's `parseQuery`), and `Gen.stmtQuery` — argument check, `ReplacePlaceholders`,
    `Gen.ToQuery`, the generated `Execute` of item 1, `Gen.newRows` — returns: an error when too few arguments are
    bound or the library fails, and otherwise exactly the model's `newRows` (columns and cells) of the model library's
    answer to the bound query. `st` is any cache state from which cached execution of the bound query is transparent. -/
theorem gen_stmtQuery_eq (H : Bytes → UInt64) {σ : Type} (C : CacheImpl σ) (X : Ext) (bolt : Bolt) (hp : Heap)
    (i : Nat) (d : BucketData) (s : SchemaVal) (next : UInt32) (vals : ColGetter)
    (hg : GetColRefines (genGetCol X bolt hp vals) (fileIndex X d s next)) (st : σ)
    (text : Bytes) (fuel : Nat) (hfuel : 3 * text.length + 5 ≤ fuel) (pq : PQuery)
    (hparse : Gen.ParseQuery fuel text = .ok pq) (values : List Bytes)
    (htr : ∀ q', bind pq values = .ok q' →
      (executeC H C (fileIndex X d s next) st (toQuery q')).2 = execute H (fileIndex X d s next) (toQuery q'))
    (hcard : ∀ q', bind pq values = .ok q' →
      ∀ bm, (evalC H C (fileIndex X d s next) st (toExpr q'.expr)).2 = some bm → popcount bm < 2 ^ 64) :
    parseQuery text = some pq ∧
    (toOutcome (Gen.stmtQuery (genLibExecute H C X bolt hp (openedIndex i s next vals) st) ⟨pq⟩ values)).map rowsView =
      match bind pq values with
      | .ok q' =>
        (match execute H (fileIndex X d s next) (toQuery q') with
          | some res => .ok ((Updog.newRows res q'.groupBy).cols, (Updog.newRows res q'.groupBy).rows)
          | none => .error)
      | _ => .error := by
  have hp' : parseQuery text = some pq := by
    have := ParseQuery_toOption text fuel hfuel
    rw [hparse] at this
    exact this.symm
  refine ⟨hp', ?_⟩
  rw [stmtQuery_eq]
  cases hb : bind pq values with
  | ok q' =>
    simp only
    have hagree := genLibExecute_agrees H C X bolt hp i d s next vals hg st (Go.Parsed.Query.toWire q')
      (by
        intro w e hw he
        simp only [Go.Parsed.Query.toWire, Option.some.injEq] at hw
        subst hw
        rw [complete_toWire, Option.some.injEq] at he
        subst he
        exact htr q' hb)
      (by
        intro w e hw he
        simp only [Go.Parsed.Query.toWire, Option.some.injEq] at hw
        subst hw
        rw [complete_toWire, Option.some.injEq] at he
        subst he
        exact hcard q' hb)
    rw [serverExecute_toWire] at hagree
    cases hx : genLibExecute H C X bolt hp (openedIndex i s next vals) st (Gen.ToQuery (Go.Parsed.Query.toWire q')) with
    | error err =>
      rw [hx] at hagree
      cases he : execute H (fileIndex X d s next) (toQuery q') with
      | none => simp [toOutcome, Outcome.map]
      | some res => rw [he] at hagree; simp [toOutcome, Outcome.map] at hagree
    | ok r =>
      rw [hx] at hagree
      cases he : execute H (fileIndex X d s next) (toQuery q') with
      | none => rw [he] at hagree; simp [toOutcome, Outcome.map] at hagree
      | some res =>
        rw [he] at hagree
        simp only [toOutcome, Outcome.map, Outcome.ok.injEq] at hagree
        have hn := newRows_eq r q'.groupBy
        simp only [toOutcome, Outcome.map, rowsView, hn.1, hn.2.1, hagree]
  | error => simp [toOutcome, Outcome.map]
  | panic => simp [toOutcome, Outcome.map]
  | hang => simp [toOutcome, Outcome.map]

/-- **C12 for generated code: the rows of a grouped statement are the SQL answer.** On a file that holds the
    written rows, through any lawful cache in a sound state: for a statement text the generated parser accepts and
    arguments that bind all placeholders, if the bound query meets the hypotheses of `C02.groupBy_eq_spec` and has a
    GROUP BY clause, `Gen.stmtQuery` over the generated `Execute` succeeds and `Gen.newRows` delivers the header
    `cols ++ ["count"]` and one row per group of the specification (`SELECT cols, COUNT(*) … GROUP BY cols HAVING
    COUNT(*) > 0 ORDER BY cols`): the group's values as TEXT cells, then the count. -/
theorem gen_driver_rows_eq_sql (H : Bytes → UInt64) (X : Ext) (rows : List Row) (bolt : Bolt) (hp : Heap) (i : Nat)
    (d : BucketData) (next : UInt32) (vals : ColGetter)
    (hw : HoldsWriter X d (Writer.addRows H {} rows) next)
    (hg : GetColRefines (genGetCol X bolt hp vals) (fileIndex X d (Writer.addRows H {} rows).schema next))
    (hrows : rows.length < 2 ^ 64)
    {σ : Type} {C : CacheImpl σ} (L : CacheLaws C) {U : List Expr} (hU : SubClosed U)
    (hkey : KeyOK H (Writer.addRows H {} rows).toIndex U) (st : σ)
    (hst : Sound H (Writer.addRows H {} rows).toIndex U L st)
    (text : Bytes) (fuel : Nat) (hfuel : 3 * text.length + 5 ≤ fuel) (pq : PQuery)
    (hparse : Gen.ParseQuery fuel text = .ok pq) (values : List Bytes) (q' : PQuery) (hb : bind pq values = .ok q')
    (he : toExpr q'.expr ∈ U) (ok : EndToEnd.QueryOK H rows (toQuery q')) (hD : DataNoCollision H rows)
    (hne : q'.groupBy ≠ []) :
    ∃ groups, specGroups rows (toExpr q'.expr) q'.groupBy = some groups ∧
      (toOutcome (Gen.stmtQuery (genLibExecute H C X bolt hp
          (openedIndex i (Writer.addRows H {} rows).schema next vals) st) ⟨pq⟩ values)).map rowsView
        = .ok (q'.groupBy ++ [countCol], groups.map C12.groupRow) := by
  have hix := hw.fileIndex_eq
  have h := (gen_stmtQuery_eq H C X bolt hp i d _ next vals hg st text fuel hfuel pq hparse values
    (by
      intro q'' hb''
      rw [hb] at hb''; injection hb'' with hb''; subst hb''
      rw [hix]
      exact (C03.execute_transparent L hU hkey st hst (toQuery q') he).1)
    (by
      intro q'' hb'' bm hbm
      rw [hb] at hb''; injection hb'' with hb''; subst hb''
      rw [hix, (C03.cache_transparent L hU hkey st hst _ he).1] at hbm
      exact Nat.lt_of_le_of_lt (eval_popcount_le H rows _ bm hbm) hrows)).2
  obtain ⟨groups, hsg, hex⟩ := C02.execute_eq_some H rows (toExpr q'.expr) q'.groupBy ok.cols ok.wf ok.inj hD ok.gb
  refine ⟨groups, hsg, ?_⟩
  rw [h, hb]
  simp only [hix, toQuery, hex]
  rw [C12.rows_grouped _ _ hne]
  rfl

/-- the same for a statement **without GROUP BY** (C01 through the driver): exactly one row holding the number of rows
    that satisfy the bound expression -/
theorem gen_driver_count_row (H : Bytes → UInt64) (X : Ext) (rows : List Row) (bolt : Bolt) (hp : Heap) (i : Nat)
    (d : BucketData) (next : UInt32) (vals : ColGetter)
    (hw : HoldsWriter X d (Writer.addRows H {} rows) next)
    (hg : GetColRefines (genGetCol X bolt hp vals) (fileIndex X d (Writer.addRows H {} rows).schema next))
    (hrows : rows.length < 2 ^ 64)
    {σ : Type} {C : CacheImpl σ} (L : CacheLaws C) {U : List Expr} (hU : SubClosed U)
    (hkey : KeyOK H (Writer.addRows H {} rows).toIndex U) (st : σ)
    (hst : Sound H (Writer.addRows H {} rows).toIndex U L st)
    (text : Bytes) (fuel : Nat) (hfuel : 3 * text.length + 5 ≤ fuel) (pq : PQuery)
    (hparse : Gen.ParseQuery fuel text = .ok pq) (values : List Bytes) (q' : PQuery) (hb : bind pq values = .ok q')
    (he : toExpr q'.expr ∈ U)
    (hcols : ∀ c ∈ (toExpr q'.expr).columns, c ∈ columnsOf rows) (hwf : (toExpr q'.expr).arityPos = true)
    (hinj : NoCollision H rows (toExpr q'.expr).pairs) (hgb : q'.groupBy = []) :
    (toOutcome (Gen.stmtQuery (genLibExecute H C X bolt hp
        (openedIndex i (Writer.addRows H {} rows).schema next vals) st) ⟨pq⟩ values)).map rowsView
      = .ok ([countCol], [[Cell.int (specCount rows (toExpr q'.expr))]]) := by
  have hix := hw.fileIndex_eq
  have h := (gen_stmtQuery_eq H C X bolt hp i d _ next vals hg st text fuel hfuel pq hparse values
    (by
      intro q'' hb''
      rw [hb] at hb''; injection hb'' with hb''; subst hb''
      rw [hix]
      exact (C03.execute_transparent L hU hkey st hst (toQuery q') he).1)
    (by
      intro q'' hb'' bm hbm
      rw [hb] at hb''; injection hb'' with hb''; subst hb''
      rw [hix, (C03.cache_transparent L hU hkey st hst _ he).1] at hbm
      exact Nat.lt_of_le_of_lt (eval_popcount_le H rows _ bm hbm) hrows)).2
  rw [h, hb]
  simp only [hix, toQuery, hgb, C01.count_correct H rows _ hcols hwf hinj]
  rfl

/-! ### the DSN options: preload on/off, cache on/off -/

/-- what the option list the generated `openFile` hands to `updog.OpenIndex` stands for: `WithPreloadedData()` is in it
    exactly when the configuration says preload, `WithCache(NewLRUCache(n))` exactly when it says cache of size `n` -/
theorem optionsOf_mem (c : FileConfig) :
    (Go.Lib.IndexOption.WithPreloadedData ∈ optionsOf c ↔ c.preload = true) ∧
    (∀ n : UInt64, Go.Lib.IndexOption.WithCache ⟨n⟩ ∈ optionsOf c ↔ ∃ m, c.cacheSize = some m ∧ m.toUInt64 = n) := by
  obtain ⟨pre, cs, k⟩ := c
  cases pre <;> cases cs <;> simp [optionsOf, eq_comm]

/-- **C12 end to end for every DSN the generated `openFile` accepts.** The file was written by the generated writer
    (`written_file_holds`). For option values `v` on which `Gen.openFileOpts` succeeds, the options it selects are those
    of the model's `dsnConfig` (`openFileOpts_eq`); opening with them — `WithPreloadedData()` or not — succeeds with the
    generated open; and a grouped statement run through `Gen.ParseQuery` → `Gen.stmtQuery` → the generated `Execute` →
    `Gen.newRows` delivers the SQL rows, with the result cache off (`nullCache`) as well as on (an LRU of the size the
    DSN names — in fact of ANY capacity — in any sound state, e.g. empty; its keys must not collide on the query). -/
theorem gen_driver_dsn_eq_sql (H : Bytes → UInt64) (X : Ext) (rows : List Row) (hrows : rows.length < 2 ^ 64)
    (i n : Nat) (c1 : Buckets) (cs : List (List PutRec)) (hp : Heap) (d : BucketData) (next : UInt32)
    (hb : bucketsGet c1 dataName = some d) (hs : SortedData d)
    (hw : HoldsWriter X d (Writer.addRows H {} rows) next) (hnil : X.roaringFromBuffer [] = none)
    (file : Bytes) (v : Go.Url.Values) (o : Go.Drv.OpenFileOpts) (ho : Gen.openFileOpts file v = .ok o) :
    ∃ (cfg : FileConfig) (n2 : Nat) (hp2 : Heap) (vals : ColGetter),
      dsnConfig (dsnOptsOf v) = .ok cfg ∧ o.key = ⟨file, cfg.keyOpts⟩ ∧ o.opts = optionsOf cfg ∧
      Gen.openIndexFromBoltDatabase X (idle i n c1 cs) hp (some i) (openOpts X cfg.preload)
        = (idle i n2 c1 cs, hp2, some (openedIndex i (Writer.addRows H {} rows).schema next vals), none) ∧
      ∀ (text : Bytes) (fuel : Nat), 3 * text.length + 5 ≤ fuel → ∀ (pq : PQuery), Gen.ParseQuery fuel text = .ok pq →
        ∀ (values : List Bytes) (q' : PQuery), bind pq values = .ok q' →
        EndToEnd.QueryOK H rows (toQuery q') → DataNoCollision H rows → q'.groupBy ≠ [] →
        ∃ groups, specGroups rows (toExpr q'.expr) q'.groupBy = some groups ∧
          -- result cache off
          (cfg.cacheSize = none →
            (toOutcome (Gen.stmtQuery (genLibExecute H nullCacheImpl X (idle i n2 c1 cs) hp2
                (openedIndex i (Writer.addRows H {} rows).schema next vals) ()) ⟨pq⟩ values)).map rowsView
              = .ok (q'.groupBy ++ [countCol], groups.map C12.groupRow)) ∧
          -- result cache on
          (∀ m, cfg.cacheSize = some m → ∀ (sz : Nat → Nat) (lru : Lru),
            InjOn H (preimages H (toExpr q'.expr)) →
            KnownAgree H (Writer.addRows H {} rows).toIndex (toExpr q'.expr).pairs →
            Sound H (Writer.addRows H {} rows).toIndex (subsOf [toExpr q'.expr]) (C03.lruCache_contract sz) lru →
            (toOutcome (Gen.stmtQuery (genLibExecute H (lruCacheImpl sz) X (idle i n2 c1 cs) hp2
                (openedIndex i (Writer.addRows H {} rows).schema next vals) lru) ⟨pq⟩ values)).map rowsView
              = .ok (q'.groupBy ++ [countCol], groups.map C12.groupRow)) := by
  have hoe := openFileOpts_eq file v
  rw [ho] at hoe
  cases hcfg : dsnConfig (dsnOptsOf v) with
  | ok cfg =>
    rw [hcfg] at hoe
    simp only [Except.ok.injEq] at hoe
    obtain ⟨n2, hp2, vals, hopen, hg⟩ := open_ok X i n c1 cs hp d _ next (hw.fileOK hb) hnil cfg.preload
      (fun _ => hs) (fun _ => hw.vDecodable hs)
    refine ⟨cfg, n2, hp2, vals, rfl, by rw [hoe], by rw [hoe], hopen, ?_⟩
    intro text fuel hfuel pq hparse values q' hbind ok hD hne
    have hmem : toExpr q'.expr ∈ subsOf [toExpr q'.expr] := subsOf_mem _ _ (by simp)
    obtain ⟨groups, hsg, _⟩ := C02.execute_eq_some H rows (toExpr q'.expr) q'.groupBy ok.cols ok.wf ok.inj hD ok.gb
    refine ⟨groups, hsg, ?_, ?_⟩
    · intro _
      have hx := (gen_stmtQuery_eq H nullCacheImpl X (idle i n2 c1 cs) hp2 i d _ next vals hg () text fuel hfuel pq hparse
        values
        (by intro q'' _; exact executeC_null H _ _)
        (by
          intro q'' hb'' bm hbm
          rw [hw.fileIndex_eq, evalC_null] at hbm
          exact Nat.lt_of_le_of_lt (eval_popcount_le H rows _ bm hbm) hrows)).2
      obtain ⟨groups', hsg', hex⟩ := C02.execute_eq_some H rows (toExpr q'.expr) q'.groupBy ok.cols ok.wf ok.inj hD ok.gb
      rw [hsg] at hsg'; injection hsg' with hsg'; subst hsg'
      rw [hx, hbind]
      simp only [hw.fileIndex_eq, toQuery, hex]
      rw [C12.rows_grouped _ _ hne]
      rfl
    · intro m _ sz lru hinj hagree hsound
      have hkey := C03.keyOK_of_no_collision H (Writer.addRows H {} rows).toIndex [toExpr q'.expr]
        (by simpa using hinj) (by simpa using hagree)
      obtain ⟨groups', hsg', hr⟩ := gen_driver_rows_eq_sql H X rows (idle i n2 c1 cs) hp2 i d next vals hw hg hrows
        (C03.lruCache_contract sz) (subsOf_closed [toExpr q'.expr]) hkey lru hsound text fuel hfuel pq hparse values q'
        hbind hmem ok hD hne
      rw [hsg] at hsg'; injection hsg' with hsg'; subst hsg'
      exact hr
  | error => rw [hcfg] at hoe; cases hoe
  | panic => rw [hcfg] at hoe; cases hoe
  | hang => rw [hcfg] at hoe; cases hoe

/-! ## non-vacuity: one concrete dataset through every composition

The dataset, hash, expressions and query history of `Proofs/ToyInstance.lean` (three rows over columns `a`, `b`;
`e1 = a=1 AND b=1`, `e2 = a=1 OR NOT b=1`), toy coders with real round trips, and a file that is WRITTEN BY THE GENERATED
WRITER. Every closing theorem is instantiated on it, and the generated pipeline is also simply run (`decide`). -/

namespace Demo
open Updog.Toy

def takeBytes : Bytes → Option (Bytes × Bytes)
  | [] => none
  | n :: r => if r.length < n.toNat then none else some (r.take n.toNat, r.drop n.toNat)

def takeVals : Nat → Bytes → Option (List (Bytes × UInt64) × Bytes)
  | 0, r => some ([], r)
  | k + 1, r =>
    match takeBytes r with
    | none => none
    | some (v, r1) =>
      if r1.length < 8 then none else
      match takeVals k (r1.drop 8) with
      | none => none
      | some (vs, r2) => some ((v, beUint64 (r1.take 8)) :: vs, r2)

def takeCols : Nat → Bytes → Option (SchemaVal × Bytes)
  | 0, r => some ([], r)
  | k + 1, r =>
    match takeBytes r with
    | none => none
    | some (c, r1) =>
      match r1 with
      | [] => none
      | n :: r2 =>
        match takeVals n.toNat r2 with
        | none => none
        | some (vs, r3) =>
          match takeCols k r3 with
          | none => none
          | some (cs, r4) => some ((c, vs) :: cs, r4)

def encBytes (b : Bytes) : Bytes := b.length.toUInt8 :: b

/-- toy coders: a bitmap `b` is `b` zero bytes and a terminator (the empty buffer does not decode); a schema is
    written with length prefixes and parsed back -/
def X : Ext where
  roaringToBytes b := List.replicate b 0 ++ [1]
  roaringFromBuffer bs := if bs.isEmpty then none else some (bs.length - 1)
  gobEncode s := s.length.toUInt8 :: s.flatMap fun cv =>
    encBytes cv.1 ++ cv.2.length.toUInt8 :: cv.2.flatMap fun vh => encBytes vh.1 ++ be64 vh.2.toNat
  gobDecode bs :=
    match bs with
    | [] => none
    | n :: r =>
      match takeCols n.toNat r with
      | some (s, []) => some s
      | _ => none

theorem X_roundtrip (b : Nat) : X.roaringFromBuffer (X.roaringToBytes b) = some b := by simp [X]
theorem X_nil : X.roaringFromBuffer [] = none := rfl

set_option maxRecDepth 100000 in
theorem X_gob : X.gobDecode (X.gobEncode (Writer.addRows toyH {} rows).schema) = some (Writer.addRows toyH {} rows).schema := by
  decide +kernel

/-- the writer after the generated `AddRow` for every row -/
def w := genAddRows toyH {} {} rows
/-- the database after the generated `WriteToBoltDatabase` into an empty file -/
def file : Bolt := (Gen.writeToBoltDatabase X w.2.values (idle 0 0 [] []) w.1 w.2 (some 0)).1
/-- the generated `OpenIndexFromBoltDatabase` on it -/
def opened (preload : Bool) := Gen.openIndexFromBoltDatabase X file w.1 (some 0) (openOpts X preload)

/-- `written_file_holds`: its hypotheses hold of the toy dataset and coders -/
theorem file_holds : ∃ n' c' cs' d, file = idle 0 n' c' cs' ∧ bucketsGet c' dataName = some d ∧ SortedData d ∧
    HoldsWriter X d (Writer.addRows toyH {} rows) w.2.nextRowID :=
  written_file_holds toyH X rows (by decide) X_roundtrip X_gob 0 0 [] [] rfl _ (List.Perm.refl _)

/-- the keys the generated writer stored: the counter, the schema, one value key per (column, value) pair -/
example : (bucketsGet file.committed dataName).map (·.map (·.1.take 1)) = some [[73], [83], [86], [86], [86], [86]] := by
  decide +kernel

/-- both ways of opening succeed on it -/
example : (opened false).2.2.2 = none ∧ (opened true).2.2.2 = none ∧ (opened false).1.closed = false := by decide +kernel

/-- what `Execute` answers on the opened index, through the null cache -/
def run (preload : Bool) (q : Go.Lib.Query) : Option Result :=
  match (opened preload).2.2.1 with
  | none => none
  | some idx => (execView (genExecute toyH nullCacheImpl X (opened preload).1 (opened preload).2.1 idx q [] ())).2

/-- the generated pipeline, run: the three queries of the toy history, on-demand and preloaded, give the answers of
    the SQL specification (that they are `specExecute` is the example of `written_opened_executed_eq_sql` below) -/
example : qs.map (fun q => run false ⟨toLib q.expr, q.groupBy⟩)
      = [some ⟨1, []⟩, some ⟨2, [([([97], [49])], 2)]⟩, some ⟨1, [([([98], [49])], 1)]⟩] ∧
    qs.map (fun q => run true ⟨toLib q.expr, q.groupBy⟩)
      = [some ⟨1, []⟩, some ⟨2, [([([97], [49])], 2)]⟩, some ⟨1, [([([98], [49])], 1)]⟩] := by decide +kernel

/-- a nil operand is refused, an unknown column is an error -/
example : run true ⟨.and [.equal [97] [49], .nil], []⟩ = none ∧ run false ⟨.equal [99] [49], []⟩ = none := by
  decide +kernel

theorem queries_ok : ∀ q ∈ qs, EndToEnd.QueryOK toyH rows q := by
  intro q hq
  simp only [qs, List.mem_cons, List.not_mem_nil, or_false] at hq
  rcases hq with rfl | rfl | rfl <;>
    exact ⟨by decide, by decide, by unfold NoCollision; decide +kernel, by decide⟩

theorem data_ok : DataNoCollision toyH rows := by unfold DataNoCollision; decide +kernel

/-- **1a** `opened_index_refines` (hence `onDemand_getter_refines` / `preloaded_getter_refines`) and
    `generated_groupBy_refines`: the hypotheses hold of the generated file, for both getters -/
example (preload : Bool) : ∃ n' c' cs' d n2 hp2 vals, file = idle 0 n' c' cs' ∧
    Gen.openIndexFromBoltDatabase X file w.1 (some 0) (openOpts X preload)
      = (idle 0 n2 c' cs', hp2, some (openedIndex 0 (Writer.addRows toyH {} rows).schema w.2.nextRowID vals), none) ∧
    GetColRefines (genGetCol X (idle 0 n2 c' cs') hp2 vals)
      (fileIndex X d (Writer.addRows toyH {} rows).schema w.2.nextRowID) ∧
    GroupByRefinesBelow (fileIndex X d (Writer.addRows toyH {} rows).schema w.2.nextRowID)
      (genPop (schemaTo (Writer.addRows toyH {} rows).schema))
      (fun q bm => (genGrp (genGetCol X (idle 0 n2 c' cs') hp2 vals) q bm).map groupOf) := by
  obtain ⟨n', c', cs', d, hf, hb, hs, hw⟩ := file_holds
  obtain ⟨n2, hp2, vals, hopen, hg⟩ := opened_index_refines X 0 n' c' cs' w.1 d _ _ (hw.fileOK hb) X_nil preload
    (fun _ => hs) (fun _ => hw.vDecodable hs)
  rw [← hf] at hopen
  exact ⟨n', c', cs', d, n2, hp2, vals, hf, hopen, hg,
    generated_groupBy_refines _ _ (schemaOf_schemaTo _) _ hg⟩

/-- `groupBy_never_sees_nil`: the group-by list `[a, b]` resolves on the generated file -/
example (g : UInt64 → Option Nat × Bool) : ∃ (d : BucketData) (fields : List GBField),
    (GetColRefines g (fileIndex X d (Writer.addRows toyH {} rows).schema w.2.nextRowID) →
      ∀ gbf ∈ fields, ∀ v ∈ gbf.values, (g v.2).2 = false → (g v.2).1.isSome = true) ∧ fields.length = 2 := by
  obtain ⟨n', c', cs', d, hf, hb, hs, hw⟩ := file_holds
  cases hp : populateGroupBy (Writer.addRows toyH {} rows).schema [[97], [98]] with
  | none => exact absurd hp (by decide +kernel)
  | some fields =>
    refine ⟨d, fields, fun hg => groupBy_never_sees_nil toyH X rows d _ hw g hg [[97], [98]] fields hp, ?_⟩
    have : (populateGroupBy (Writer.addRows toyH {} rows).schema [[97], [98]]).map List.length = some 2 := by
      decide +kernel
    rw [hp] at this
    simpa using this

/-- the two generated getters really answer differently below the abstraction: a stored value index gives the bitmap
    with both; an absent one gives `(nil, err)` on demand and `(nil, nil)` preloaded -/
example :
    (match (opened false).2.2.1, (opened true).2.2.1 with
     | some i1, some i2 =>
       let k := toyH (encodePair [97] [49])
       (genGetCol X (opened false).1 (opened false).2.1 i1.values k, genGetCol X (opened true).1 (opened true).2.1 i2.values k,
        genGetCol X (opened false).1 (opened false).2.1 i1.values 5, genGetCol X (opened true).1 (opened true).2.1 i2.values 5)
     | _, _ => ((none, true), (none, true), (none, true), (none, true)))
    = ((some 0b101, false), (some 0b101, false), (none, true), (none, false)) := by decide +kernel

/-- **1b** `execute_all_generated_eq_executeC` needs functions tied over the generated bodies: the model's
    `cacheKey` / `evalC` are such functions (`cacheKey_isGenKey`, `evalC_isGenEval`), so are the fuel knots on
    expressions of bounded depth (`genEval_eq`); and `IsGenValidate` holds of the constant `false` on `Expr` -/
example (preload : Bool) : ∃ n' c' cs' d n2 hp2 vals, file = idle 0 n' c' cs' ∧
    execView (Gen.execute
        (indexEnv (lruCacheImpl sz) (fileIndex X d (Writer.addRows toyH {} rows).schema w.2.nextRowID)
          (genGetCol X (idle 0 n2 c' cs') hp2 vals))
        (genPop (schemaTo (Writer.addRows toyH {} rows).schema)) (fun _ => false)
        (fun e s => evalC toyH (lruCacheImpl sz) (fileIndex X d (Writer.addRows toyH {} rows).schema w.2.nextRowID) s e)
        (genGrp (genGetCol X (idle 0 n2 c' cs') hp2 vals)) e2 [[97]] [] (lru 1000))
      = executeC toyH (lruCacheImpl sz) (fileIndex X d (Writer.addRows toyH {} rows).schema w.2.nextRowID) (lru 1000)
          ⟨e2, [[97]]⟩ := by
  obtain ⟨n', c', cs', d, hf, hb, hs, hw⟩ := file_holds
  obtain ⟨n2, hp2, vals, hopen, hg⟩ := opened_index_refines X 0 n' c' cs' w.1 d _ _ (hw.fileOK hb) X_nil preload
    (fun _ => hs) (fun _ => hw.vDecodable hs)
  have hge := evalC_isGenEval toyH (lruCacheImpl sz) _ _ hg (fileIndex_next_lt X d _ _)
  refine ⟨n', c', cs', d, n2, hp2, vals, hf, ?_⟩
  refine execute_all_generated_eq_executeC toyH (lruCacheImpl sz) _ _ hg (fileIndex_next_lt X d _ _) _
    (schemaOf_schemaTo _) (cacheKey_isGenKey toyH) hge.eq hge.not hge.and hge.or
    (fun e => by rw [validateExpr_eq]; cases e <;> simp [exprCase]) ⟨e2, [[97]]⟩ [] (lru 1000) ?_
  intro bm hbm
  rw [hw.fileIndex_eq, (C03.cache_transparent (C03.lruCache_contract sz) (subsOf_closed [e2])
    (C03.keyOK_of_no_collision toyH _ [e2] (by decide +kernel) (by decide +kernel)) (lru 1000)
    ((C03.lru_empty sz _ rfl).sound toyH _ _ _) e2 (subsOf_mem _ _ (by simp))).1] at hbm
  exact Nat.lt_of_le_of_lt (eval_popcount_le toyH rows e2 bm hbm) (by decide)

/-- **1c** `written_opened_executed_eq_sql` (and with it `genExecute_eq_executeC`, `genExecute_eq_sql` for the null
    cache): every hypothesis holds; the conclusion is applied to a query of the toy history -/
example (preload : Bool) : ∃ n1 c1 cs1 n2 hp2 idx, file = idle 0 n1 c1 cs1 ∧
    Gen.openIndexFromBoltDatabase X (idle 0 n1 c1 cs1) w.1 (some 0) (openOpts X preload)
      = (idle 0 n2 c1 cs1, hp2, some idx, none) ∧
    (execView (genExecute toyH nullCacheImpl X (idle 0 n2 c1 cs1) hp2 idx ⟨toLib e2, [[97]]⟩ [] ())).2
      = specExecute rows ⟨e2, [[97]]⟩ := by
  obtain ⟨n1, c1, cs1, n2, hp2, idx, h1, h2, h3⟩ := written_opened_executed_eq_sql toyH X rows (by decide) X_roundtrip
    X_gob X_nil 0 0 [] [] rfl _ (List.Perm.refl _) preload w.1
  exact ⟨n1, c1, cs1, n2, hp2, idx, h1, h2, h3 e2 [[97]] [] (queries_ok ⟨e2, [[97]]⟩ (by simp [qs])) data_ok⟩

/-- `genExecute_eq_sql`, `genExecute_count_eq_specCount` and `genExecute_history_eq_sql` through an LRU cache: the
    collision hypotheses hold of the toy hash on the toy history -/
example (preload : Bool) : ∃ n' c' cs' n2 hp2 vals, file = idle 0 n' c' cs' ∧
    (genExecuteAll toyH (lruCacheImpl sz) X (idle 0 n2 c' cs') hp2
        (openedIndex 0 (Writer.addRows toyH {} rows).schema w.2.nextRowID vals)
        (qs.map fun q => (⟨toLib q.expr, q.groupBy⟩, [])) (lru 100000)).2 = qs.map (specExecute rows) ∧
    (execView (genExecute toyH (lruCacheImpl sz) X (idle 0 n2 c' cs') hp2
        (openedIndex 0 (Writer.addRows toyH {} rows).schema w.2.nextRowID vals) ⟨toLib e1, []⟩ [] (lru 0))).2
      = some ⟨specCount rows e1, []⟩ := by
  obtain ⟨n', c', cs', d, hf, hb, hs, hw⟩ := file_holds
  obtain ⟨n2, hp2, vals, hopen, hg⟩ := opened_index_refines X 0 n' c' cs' w.1 d _ _ (hw.fileOK hb) X_nil preload
    (fun _ => hs) (fun _ => hw.vDecodable hs)
  refine ⟨n', c', cs', n2, hp2, vals, hf, ?_, ?_⟩
  · have := genExecute_history_eq_sql toyH X rows _ hp2 0 d _ vals hw hg (by decide) (qs.map fun q => (q, []))
      sz (lru 100000) rfl (by decide +kernel) (by decide +kernel) data_ok
      (by simpa [List.map_map, Function.comp_def] using queries_ok)
    simpa [List.map_map, Function.comp_def] using this
  · exact genExecute_count_eq_specCount toyH X rows _ hp2 0 d _ vals hw hg (by decide) (C03.lruCache_contract sz)
      (subsOf_closed [e1]) (C03.keyOK_of_no_collision toyH _ [e1] (by decide +kernel) (by decide +kernel)) (lru 0)
      ((C03.lru_empty sz _ rfl).sound toyH _ _ _) e1 (subsOf_mem _ _ (by simp)) [] (by decide) (by decide)
      (by unfold NoCollision; decide +kernel)

/-! ### the server -/

/-- the handler over the generated pipeline on the opened file -/
def serve (preload : Bool) (qs : List WQuery) : Outcome (List PResult) :=
  match (opened preload).2.2.1 with
  | none => .error
  | some idx =>
    (toOutcome (Gen.serverQuery (genLibExecute toyH nullCacheImpl X (opened preload).1 (opened preload).2.1 idx ()) ⟨qs⟩)).map
      fun resp => resp.Results.map presultOfGo

/-- a request with explicit and defaulted ids: one result per query, in order -/
example : serve true [⟨7, some (C14.ofExpr e1), []⟩, ⟨0, some (C14.ofExpr e2), [[97]]⟩] =
    .ok [⟨7, 1, []⟩, ⟨2, 2, [([([97], [49])], 2)]⟩] := by decide +kernel

/-- a member without expression, or with a nil operand, or over an unknown column fails the whole request -/
example : serve false [⟨7, some (C14.ofExpr e1), []⟩, ⟨0, some (.not none), []⟩] = .error ∧
    serve false [⟨1, none, []⟩] = .error ∧ serve true [⟨1, some (.eq [99] [49]), []⟩] = .error := by decide +kernel

/-- **2** `gen_serverQuery_written` (and through it `gen_serverQuery_null` / `gen_serverQuery_eq`), `gen_server_batch`,
    `gen_server_rejects_incomplete`: hypotheses hold -/
example (preload : Bool) (batch : List WQuery) (hlen : batch.length + 1 < 2147483648) :
    ∃ n' c' cs' n2 hp2 vals, file = idle 0 n' c' cs' ∧
    (toOutcome (Gen.serverQuery (genLibExecute toyH nullCacheImpl X (idle 0 n2 c' cs') hp2
        (openedIndex 0 (Writer.addRows toyH {} rows).schema w.2.nextRowID vals) ()) ⟨batch⟩)).map
        (fun resp => resp.Results.map presultOfGo)
      = (serverQuery toyH (tix toyH) batch).map respOf ∧
    (toOutcome (Gen.serverQuery (genLibExecute toyH nullCacheImpl X (idle 0 n2 c' cs') hp2
        (openedIndex 0 (Writer.addRows toyH {} rows).schema w.2.nextRowID vals) ())
        ⟨batch ++ [⟨0, some (.and [.unset]), []⟩]⟩)) = .error := by
  obtain ⟨n', c', cs', d, hf, hb, hs, hw⟩ := file_holds
  obtain ⟨n2, hp2, vals, hopen, hg⟩ := opened_index_refines X 0 n' c' cs' w.1 d _ _ (hw.fileOK hb) X_nil preload
    (fun _ => hs) (fun _ => hw.vDecodable hs)
  refine ⟨n', c', cs', n2, hp2, vals, hf, ?_, ?_⟩
  · exact gen_serverQuery_written toyH X rows _ hp2 0 d _ vals hw hg (by decide) batch (by omega)
  · exact gen_server_rejects_incomplete toyH X rows _ hp2 0 d _ vals hw hg (by decide) _
      (by simp only [List.length_append, List.length_cons, List.length_nil]; omega)
      ⟨0, some (.and [.unset]), []⟩ (by simp) (by simp [WExpr.complete, WExpr.completeList])

/-- `gen_serverQuery_cached`: an LRU in any sound state (here: fresh) for every query -/
example (preload : Bool) : ∃ n' c' cs' n2 hp2 vals, file = idle 0 n' c' cs' ∧
    (toOutcome (Gen.serverQuery (fun lq => genLibExecute toyH (lruCacheImpl sz) X (idle 0 n2 c' cs') hp2
        (openedIndex 0 (Writer.addRows toyH {} rows).schema w.2.nextRowID vals) (lru 100000) lq)
        ⟨[⟨7, some (C14.ofExpr e1), []⟩, ⟨0, some (C14.ofExpr e2), [[97]]⟩]⟩)).map
        (fun resp => resp.Results.map presultOfGo)
      = (serverQuery toyH (tix toyH) [⟨7, some (C14.ofExpr e1), []⟩, ⟨0, some (C14.ofExpr e2), [[97]]⟩]).map respOf := by
  obtain ⟨n', c', cs', d, hf, hb, hs, hw⟩ := file_holds
  obtain ⟨n2, hp2, vals, hopen, hg⟩ := opened_index_refines X 0 n' c' cs' w.1 d _ _ (hw.fileOK hb) X_nil preload
    (fun _ => hs) (fun _ => hw.vDecodable hs)
  refine ⟨n', c', cs', n2, hp2, vals, hf, ?_⟩
  have hix : fileIndex X d (Writer.addRows toyH {} rows).schema w.2.nextRowID = tix toyH := hw.fileIndex_eq
  have := gen_serverQuery_cached toyH (C03.lruCache_contract sz) X (idle 0 n2 c' cs') hp2 0 d _ _ vals hg
    (subsOf_closed [e1, e2])
    (by rw [hix]; exact C03.keyOK_of_no_collision toyH (tix toyH) [e1, e2] (by decide +kernel) (by decide +kernel))
    (fun _ => lru 100000) (fun _ => (C03.lru_empty sz _ rfl).sound toyH _ _ _)
    [⟨7, some (C14.ofExpr e1), []⟩, ⟨0, some (C14.ofExpr e2), [[97]]⟩] (by decide)
    (by
      intro q hq w' e hw' he
      simp only [List.mem_cons, List.not_mem_nil, or_false] at hq
      rcases hq with rfl | rfl
      · simp only [Option.some.injEq] at hw'; subst hw'
        rw [C14.complete_ofExpr, Option.some.injEq] at he; subst he
        exact subsOf_mem _ _ (by simp)
      · simp only [Option.some.injEq] at hw'; subst hw'
        rw [C14.complete_ofExpr, Option.some.injEq] at he; subst he
        exact subsOf_mem _ _ (by simp))
    (by
      intro q _ w' e _ _ bm hbm
      rw [hix] at hbm
      exact Nat.lt_of_le_of_lt (eval_popcount_le toyH rows e bm hbm) (by decide))
  rwa [hix] at this

/-! ### the driver -/

/-- the statement text `a="1"|^b=$1;a` (`e2` with a placeholder, grouped by `a`) -/
def stmtText : Bytes := [97, 61, 34, 49, 34, 124, 94, 98, 61, 36, 49, 59, 97]
def stmtParsed : PQuery := ⟨.or [.eq [97] [49] 0, .not (.eq [98] [] 1)], [[97]]⟩

theorem stmt_parse : Gen.ParseQuery 50 stmtText = .ok stmtParsed :=
  parse_ok_of_check 50 stmtText stmtParsed (by decide +kernel)

/-- a prepared statement run through the generated driver code on the opened file, result cache off -/
def query (preload : Bool) (fuel : Nat) (text : Bytes) (values : List Bytes) : Outcome (List Bytes × List (List Cell)) :=
  match (opened preload).2.2.1, Gen.ParseQuery fuel text with
  | some idx, .ok pq =>
    (toOutcome (Gen.stmtQuery (genLibExecute toyH nullCacheImpl X (opened preload).1 (opened preload).2.1 idx ()) ⟨pq⟩
      values)).map rowsView
  | _, _ => .error

/-- the generated pipeline, run: header `a, count`, one row `1, 2`; too few arguments are an error -/
example : query true 50 stmtText [[49]] = .ok ([[97], countCol], [[Cell.text [49], Cell.int 2]]) ∧
    query false 50 stmtText [[49]] = .ok ([[97], countCol], [[Cell.text [49], Cell.int 2]]) ∧
    query false 50 stmtText [] = .error := by decide +kernel

/-- **3** `gen_driver_dsn_eq_sql` (and through it `gen_driver_rows_eq_sql`, `gen_stmtQuery_eq`): for the DSN
    `?preload=true&lrucache=true&lrucachesize=42` and for the DSN without options, all hypotheses hold, with the cache
    on resp. off: the rows are the specification's groups -/
example (v : Go.Url.Values)
    (hv : v = [([112, 114, 101, 108, 111, 97, 100], [116, 114, 117, 101]), ([108, 114, 117, 99, 97, 99, 104, 101], [116, 114, 117, 101]),
      ([108, 114, 117, 99, 97, 99, 104, 101, 115, 105, 122, 101], [52, 50])] ∨ v = []) :
    ∃ o n' c' cs' n2 hp2 vals groups, Gen.openFileOpts [120] v = .ok o ∧ file = idle 0 n' c' cs' ∧
      specGroups rows e2 [[97]] = some groups ∧
      ((toOutcome (Gen.stmtQuery (genLibExecute toyH nullCacheImpl X (idle 0 n2 c' cs') hp2
          (openedIndex 0 (Writer.addRows toyH {} rows).schema w.2.nextRowID vals) ()) ⟨stmtParsed⟩ [[49]])).map rowsView
        = .ok ([[97], countCol], groups.map C12.groupRow) ∨
       (toOutcome (Gen.stmtQuery (genLibExecute toyH (lruCacheImpl sz) X (idle 0 n2 c' cs') hp2
          (openedIndex 0 (Writer.addRows toyH {} rows).schema w.2.nextRowID vals) (lru 42)) ⟨stmtParsed⟩ [[49]])).map rowsView
        = .ok ([[97], countCol], groups.map C12.groupRow)) := by
  obtain ⟨n', c', cs', d, hf, hb, hs, hw⟩ := file_holds
  have hbind : bind stmtParsed [[49]] = .ok ⟨.or [.eq [97] [49] 0, .not (.eq [98] [49] 0)], [[97]]⟩ := by rfl
  have hqok : EndToEnd.QueryOK toyH rows (toQuery ⟨.or [.eq [97] [49] 0, .not (.eq [98] [49] 0)], [[97]]⟩) :=
    queries_ok ⟨e2, [[97]]⟩ (by simp [qs])
  rcases hv with rfl | rfl
  · obtain ⟨cfg, n2, hp2, vals, hcfg, _, _, hopen, hq⟩ := gen_driver_dsn_eq_sql toyH X rows (by decide) 0 n' c' cs' w.1 d _
      hb hs hw X_nil [120] [([112, 114, 101, 108, 111, 97, 100], [116, 114, 117, 101]),
        ([108, 114, 117, 99, 97, 99, 104, 101], [116, 114, 117, 101]),
        ([108, 114, 117, 99, 97, 99, 104, 101, 115, 105, 122, 101], [52, 50])]
      ⟨⟨[120], sPreload ++ sLru ++ sLruSize ++ [52, 50]⟩, [.WithPreloadedData, .WithCache ⟨42⟩]⟩ (by rfl)
    have hcs : cfg.cacheSize = some 42 := by
      have : dsnConfig (dsnOptsOf [([112, 114, 101, 108, 111, 97, 100], [116, 114, 117, 101]),
        ([108, 114, 117, 99, 97, 99, 104, 101], [116, 114, 117, 101]),
        ([108, 114, 117, 99, 97, 99, 104, 101, 115, 105, 122, 101], [52, 50])]) = .ok ⟨true, some 42, sPreload ++ sLru ++ sLruSize ++ [52, 50]⟩ := by
        decide +kernel
      rw [this] at hcfg
      injection hcfg with hcfg
      rw [← hcfg]
    obtain ⟨groups, hsg, _, hon⟩ := hq stmtText 50 (by decide) stmtParsed stmt_parse [[49]] _ hbind hqok data_ok (by simp)
    refine ⟨_, n', c', cs', n2, hp2, vals, groups, rfl, hf, hsg, Or.inr ?_⟩
    exact hon 42 hcs sz (lru 42) (by decide +kernel) (by decide +kernel) ((C03.lru_empty sz _ rfl).sound toyH _ _ _)
  · obtain ⟨cfg, n2, hp2, vals, hcfg, _, _, hopen, hq⟩ := gen_driver_dsn_eq_sql toyH X rows (by decide) 0 n' c' cs' w.1 d _
      hb hs hw X_nil [120] [] ⟨⟨[120], []⟩, []⟩ (by rfl)
    have hcs : cfg.cacheSize = none := by
      have : dsnConfig (dsnOptsOf []) = .ok ⟨false, none, []⟩ := by decide +kernel
      rw [this] at hcfg
      injection hcfg with hcfg
      rw [← hcfg]
    obtain ⟨groups, hsg, hoff, _⟩ := hq stmtText 50 (by decide) stmtParsed stmt_parse [[49]] _ hbind hqok data_ok (by simp)
    exact ⟨_, n', c', cs', n2, hp2, vals, groups, rfl, hf, hsg, Or.inl (hoff hcs)⟩

/-- `gen_driver_count_row`: a statement without GROUP BY -/
example (preload : Bool) : ∃ n' c' cs' n2 hp2 vals, file = idle 0 n' c' cs' ∧
    (toOutcome (Gen.stmtQuery (genLibExecute toyH nullCacheImpl X (idle 0 n2 c' cs') hp2
        (openedIndex 0 (Writer.addRows toyH {} rows).schema w.2.nextRowID vals) ()) ⟨⟨stmtParsed.expr, []⟩⟩ [[49]])).map rowsView
      = .ok ([countCol], [[Cell.int (specCount rows e2)]]) := by
  obtain ⟨n', c', cs', d, hf, hb, hs, hw⟩ := file_holds
  obtain ⟨n2, hp2, vals, hopen, hg⟩ := opened_index_refines X 0 n' c' cs' w.1 d _ _ (hw.fileOK hb) X_nil preload
    (fun _ => hs) (fun _ => hw.vDecodable hs)
  refine ⟨n', c', cs', n2, hp2, vals, hf, ?_⟩
  have hall : ∀ s, Sound toyH (Writer.addRows toyH {} rows).toIndex (subsOf [e2]) C03.nullCache_contract s :=
    fun _ _ _ h => h.elim
  exact gen_driver_count_row toyH X rows _ hp2 0 d _ vals hw hg (by decide) C03.nullCache_contract (subsOf_closed [e2])
    (C03.keyOK_of_no_collision toyH _ [e2] (by decide +kernel) (by decide +kernel)) () (hall ())
    [97, 61, 34, 49, 34, 124, 94, 98, 61, 36, 49] 50 (by decide) ⟨stmtParsed.expr, []⟩
    (parse_ok_of_check 50 _ _ (by decide +kernel)) [[49]] ⟨.or [.eq [97] [49] 0, .not (.eq [98] [49] 0)], []⟩
    (by rfl) (by show e2 ∈ _; exact subsOf_mem _ _ (by simp)) (by decide) (by decide)
    (by unfold NoCollision; decide +kernel) rfl

end Demo

end Updog.GenCompose
