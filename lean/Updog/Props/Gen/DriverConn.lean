/-
driver/driver.go: the critical section of `openFile` and `fileConn.Close`, regenerated (`Gen.openFileLocked`,
`Gen.connClose`) = the reference-count state machine `Drv.step` of `Updog/Model/Driver.lean`.
-/
import Updog.GeneratedFns
import Updog.Proofs.GoPreludeT5
import Updog.Props.Gen.Driver
import Updog.Model.Driver

set_option linter.unusedSimpArgs false
namespace Updog.GeneratedEq
open Updog.Go

/-! ### the model's step function over an arbitrary key type -/

inductive KOp (K : Type) where
  | open (k : K)
  | query (k : K)
  | close (k : K)

def upd {K : Type} [DecidableEq K] (refs : K → Nat) (k : K) (n : Nat) : K → Nat := fun k' => if k' = k then n else refs k'

/-- `Drv.step` with the key type and the validity predicate abstracted -/
def stepG {K : Type} [DecidableEq K] (valid : K → Bool) (refs : K → Nat) : KOp K → (K → Nat) × Outcome Unit
  | .open k =>
    if refs k > 0 then (upd refs k (refs k + 1), .ok ())
    else if valid k then (upd refs k 1, .ok ())
    else (refs, .error)
  | .query k => if refs k > 0 then (refs, .ok ()) else (refs, .panic)
  | .close k => (upd refs k (refs k - 1), .ok ())

def KOp.ofDrv : DrvOp → KOp DKey
  | .open k => .open k
  | .query k => .query k
  | .close k => .close k

/-- the hand-written model is the instance of `stepG` at the model's key type -/
theorem Drv_step_generic (valid : Nat → Bool) (d : Drv) (op : DrvOp) :
    Drv.step valid d op =
      (⟨(stepG (fun k : DKey => valid k.file) d.refs (KOp.ofDrv op)).1⟩, (stepG (fun k : DKey => valid k.file) d.refs (KOp.ofDrv op)).2) := by
  cases op with
  | «open» k =>
    simp only [Drv.step, stepG, KOp.ofDrv]
    by_cases h1 : d.refs k > 0
    · simp [h1, Drv.set] <;> rfl
    · by_cases h2 : valid k.file = true
      · simp [h1, h2, Drv.set] <;> rfl
      · simp [h1, h2]
  | query k =>
    simp only [Drv.step, stepG, KOp.ofDrv]
    by_cases h1 : d.refs k > 0 <;> simp [h1]
  | close k => simp [Drv.step, stepG, KOp.ofDrv, Drv.set] <;> rfl

/-! ### the abstraction: reference count of a key = `refs` of its cached connection, 0 without entry -/

def refsOf (w : Drv.World) (k : Drv.fileCacheKey) : Nat :=
  match w.cache k with
  | some c => (w.conns c).refs.toNat
  | none => 0

/-- the states between two driver calls -/
structure Inv (w : Drv.World) : Prop where
  idle : w.held = false
  clean : w.raced = false
  key : ∀ k (c : Nat), w.cache k = some c → (w.conns c).key = k
  pos : ∀ k (c : Nat), w.cache k = some c → 1 ≤ (w.conns c).refs
  fresh : ∀ k (c : Nat), w.cache k = some c → c < (w.nextConn : Nat)

theorem Inv.inj {w : Drv.World} (h : Inv w) {k k' : Drv.fileCacheKey} {c : Nat}
    (h1 : w.cache k = some c) (h2 : w.cache k' = some c) : k = k' := by
  rw [← h.key k c h1, ← h.key k' c h2]

def outcomeOf {α : Type} : Except Err5 α → Outcome Unit
  | .ok _ => .ok ()
  | .error _ => .error

/-- regenerated critical section of `openFile` = the model's `open` step on the key: an existing entry is shared and
    its count incremented, otherwise the index is opened (for a valid file) and entered with count 1; every access
    happens under the mutex (`raced` stays false) and the mutex is released at the end -/
theorem openFileLocked_sim (valid : Bytes → Bool) (w : Drv.World) (hinv : Inv w) (file : Bytes) (key : Drv.fileCacheKey)
    (opts : List Lib.IndexOption) (hfile : key.file = file) :
    Inv (Gen.openFileLocked valid w file key opts).2 ∧
    refsOf (Gen.openFileLocked valid w file key opts).2 = (stepG (fun k : Drv.fileCacheKey => valid k.file) (refsOf w) (.open key)).1 ∧
    outcomeOf (Gen.openFileLocked valid w file key opts).1 = (stepG (fun k : Drv.fileCacheKey => valid k.file) (refsOf w) (.open key)).2 := by
  obtain ⟨hidle, hclean, hkey, hpos, hfresh⟩ := hinv
  cases hc : w.cache key with
  | some c =>
    have hp := hpos key c hc
    have hr : refsOf w key > 0 := by simp only [refsOf, hc]; omega
    simp only [Gen.openFileLocked, Drv.lock, Drv.touch, Drv.cacheGet, hc, Drv.refsAdd, Drv.unlock, stepG, hr, ite_true, outcomeOf]
    refine ⟨⟨rfl, by simp [hclean], ?_, ?_, ?_⟩, ?_, trivial⟩
    · intro k c' h; simp only at h ⊢
      split
      · rename_i heq; subst heq; simpa using hkey k _ h
      · exact hkey k c' h
    · intro k c' h; simp only at h ⊢
      split
      · rename_i heq; subst heq; simp; omega
      · exact hpos k c' h
    · intro k c' h; exact hfresh k c' h
    · funext k
      simp only [refsOf, upd]
      by_cases hk : k = key
      · subst hk; simp [hc]; omega
      · simp only [hk, ite_false]
        cases hck : w.cache k with
        | none => rfl
        | some c' =>
          have hne : c' ≠ c := fun heq => hk (by rw [← hkey k c' hck, ← hkey key c hc, heq])
          simp [hne]
  | none =>
    have hr : ¬ refsOf w key > 0 := by simp [refsOf, hc]
    by_cases hv : valid file = true
    · have hv' : valid key.file = true := by rw [hfile]; exact hv
      simp only [Gen.openFileLocked, Drv.lock, Drv.touch, Drv.cacheGet, hc, Drv.openIndex, hv, ite_true, Drv.newConn,
        Drv.cacheSet, Drv.refsAdd, Drv.unlock, stepG, hr, ite_false, hv', outcomeOf]
      refine ⟨⟨rfl, by simp [hclean], ?_, ?_, ?_⟩, ?_, trivial⟩
      · intro k c' h
        simp only at h ⊢
        by_cases hk : k = key
        · subst hk; simp at h; subst h; simp
        · simp only [hk, ite_false] at h
          have := hfresh k c' h
          have hne : c' ≠ w.nextConn := by omega
          simp [hne, hkey k c' h]
      · intro k c' h
        simp only at h ⊢
        by_cases hk : k = key
        · subst hk; simp at h; subst h; simp
        · simp only [hk, ite_false] at h
          have := hfresh k c' h
          have hne : c' ≠ w.nextConn := by omega
          simp [hne, hpos k c' h]
      · intro k c' h
        simp only at h ⊢
        by_cases hk : k = key
        · subst hk; simp at h; subst h; exact Nat.lt_succ_self _
        · simp only [hk, ite_false] at h
          have := hfresh k c' h; omega
      · funext k
        simp only [refsOf, upd]
        by_cases hk : k = key
        · subst hk; simp
        · simp only [hk, ite_false]
          cases hck : w.cache k with
          | none => rfl
          | some c' =>
            have := hfresh k c' hck
            have hne : c' ≠ w.nextConn := Nat.ne_of_lt this
            simp [hne]
    · have hv' : ¬ valid key.file = true := by rw [hfile]; exact hv
      simp only [Gen.openFileLocked, Drv.lock, Drv.touch, Drv.cacheGet, hc, Drv.openIndex, hv, hv', Bool.false_eq_true, ite_false,
        Drv.unlock, stepG, hr, outcomeOf]
      refine ⟨⟨rfl, by simp [hclean], hkey, hpos, hfresh⟩, ?_, trivial⟩
      funext k; simp [refsOf]

/-- regenerated `fileConn.Close` (on the cached connection of key `k`) = the model's `close` step: the count is
    decremented under the mutex; exactly when it reaches zero the entry is removed from the cache (and the index
    closed); the call returns nil -/
theorem connClose_sim (w : Drv.World) (hinv : Inv w) (k : Drv.fileCacheKey) (c : Nat) (hc : w.cache k = some c) :
    Inv (Gen.connClose w c).2 ∧
    refsOf (Gen.connClose w c).2 = (stepG (fun _ : Drv.fileCacheKey => true) (refsOf w) (.close k)).1 ∧
    (Gen.connClose w c).1 = none ∧
    ((w.conns c).refs = 1 → (Gen.connClose w c).2.cache k = none ∧
      ∀ i, (w.conns c).idx = some i → (Gen.connClose w c).2.openIdx i = none) := by
  obtain ⟨hidle, hclean, hkey, hpos, hfresh⟩ := hinv
  have hp := hpos k c hc
  have hk := hkey k c hc
  by_cases h1 : (w.conns c).refs = 1
  · have hle : ((w.conns c).refs + -1 ≤ 0) := by omega
    simp only [Gen.connClose, Drv.lock, Drv.refsAdd, Drv.touch, hle, decide_true, ite_true, Drv.cacheGet, Drv.connKey,
      hk, hc, BEq.rfl, Drv.cacheDelete, Drv.connIdx, Drv.setConnIdx, Drv.unlock, stepG]
    cases hi : (w.conns c).idx with
    | none =>
      simp only [hi, BEq.rfl, ite_true]
      refine ⟨⟨rfl, by simp [hclean], ?_, ?_, ?_⟩, ?_, trivial, fun _ => ⟨by simp, by simp⟩⟩
      · intro k' c' h; simp only at h ⊢
        by_cases hk' : k' = k
        · simp [hk'] at h
        · simp only [hk', ite_false] at h
          have hne : c' ≠ c := fun heq => hk' (by rw [← hkey k' c' h, ← hk, heq])
          simp [hne, hkey k' c' h]
      · intro k' c' h; simp only at h ⊢
        by_cases hk' : k' = k
        · simp [hk'] at h
        · simp only [hk', ite_false] at h
          have hne : c' ≠ c := fun heq => hk' (by rw [← hkey k' c' h, ← hk, heq])
          simp [hne, hpos k' c' h]
      · intro k' c' h; simp only at h ⊢
        by_cases hk' : k' = k
        · simp [hk'] at h
        · simp only [hk', ite_false] at h; exact hfresh k' c' h
      · funext k'
        simp only [refsOf, upd]
        by_cases hk' : k' = k
        · subst hk'; simp [hc, h1]
        · simp only [hk', ite_false]
          cases hck : w.cache k' with
          | none => rfl
          | some c' =>
            have hne : c' ≠ c := fun heq => hk' (by rw [← hkey k' c' hck, ← hk, heq])
            simp [hne]
    | some i =>
      have hsn : ((some i : Option Drv.IdxId) == none) = false := rfl
      simp only [hi, hsn, Bool.false_eq_true, ite_false, Drv.closeIndex]
      refine ⟨⟨rfl, by simp [hclean], ?_, ?_, ?_⟩, ?_, trivial, fun _ => ⟨by simp, by intro j hj; simp at hj; subst hj; simp⟩⟩
      · intro k' c' h; simp only at h ⊢
        by_cases hk' : k' = k
        · simp [hk'] at h
        · simp only [hk', ite_false] at h
          have hne : c' ≠ c := fun heq => hk' (by rw [← hkey k' c' h, ← hk, heq])
          simp [hne, hkey k' c' h]
      · intro k' c' h; simp only at h ⊢
        by_cases hk' : k' = k
        · simp [hk'] at h
        · simp only [hk', ite_false] at h
          have hne : c' ≠ c := fun heq => hk' (by rw [← hkey k' c' h, ← hk, heq])
          simp [hne, hpos k' c' h]
      · intro k' c' h; simp only at h ⊢
        by_cases hk' : k' = k
        · simp [hk'] at h
        · simp only [hk', ite_false] at h; exact hfresh k' c' h
      · funext k'
        simp only [refsOf, upd]
        by_cases hk' : k' = k
        · subst hk'; simp [hc, h1]
        · simp only [hk', ite_false]
          cases hck : w.cache k' with
          | none => rfl
          | some c' =>
            have hne : c' ≠ c := fun heq => hk' (by rw [← hkey k' c' hck, ← hk, heq])
            simp [hne]
  · have hle : ¬ ((w.conns c).refs + -1 ≤ 0) := by omega
    simp only [Gen.connClose, Drv.lock, Drv.refsAdd, Drv.touch, hle, decide_false, Bool.false_eq_true, ite_false, Drv.unlock, stepG]
    refine ⟨⟨rfl, by simp [hclean], ?_, ?_, ?_⟩, ?_, trivial, fun h => absurd h h1⟩
    · intro k' c' h; simp only at h ⊢
      split
      · rename_i heq; subst heq; simpa using hkey k' _ h
      · exact hkey k' c' h
    · intro k' c' h; simp only at h ⊢
      split
      · rename_i heq; subst heq; simp; omega
      · exact hpos k' c' h
    · intro k' c' h; exact hfresh k' c' h
    · funext k'
      simp only [refsOf, upd]
      by_cases hk' : k' = k
      · subst hk'; simp [hc]; omega
      · simp only [hk', ite_false]
        cases hck : w.cache k' with
        | none => rfl
        | some c' =>
          have hne : c' ≠ c := fun heq => hk' (by rw [← hkey k' c' hck, ← hk, heq])
          simp [hne]

/-! ### the whole of openFile: option handling, then the critical section -/

/-- `openFile` = its two regenerated halves in sequence (the split is at the top-level statement
    `d.fileConnMtx.Lock()`; the second half uses only `file`, `key`, `opts` and the driver) -/
def openFileWhole (valid : Bytes → Bool) (w : Drv.World) (file : Bytes) (v : Url.Values) : Except Err5 Drv.ConnId × Drv.World :=
  match Gen.openFileOpts file v with
  | .error e => (.error e, w)
  | .ok o => Gen.openFileLocked valid w file o.key o.opts

/-- a file DSN with valid options performs the model's `open` step on the key (file, option text of `dsnConfig`);
    with an invalid cache size nothing happens to the shared state -/
theorem openFileWhole_sim (valid : Bytes → Bool) (w : Drv.World) (hinv : Inv w) (file : Bytes) (v : Url.Values) :
    match dsnConfig (dsnOptsOf v) with
    | .ok c =>
      Inv (openFileWhole valid w file v).2 ∧
      refsOf (openFileWhole valid w file v).2 =
        (stepG (fun k : Drv.fileCacheKey => valid k.file) (refsOf w) (.open ⟨file, c.keyOpts⟩)).1 ∧
      outcomeOf (openFileWhole valid w file v).1 =
        (stepG (fun k : Drv.fileCacheKey => valid k.file) (refsOf w) (.open ⟨file, c.keyOpts⟩)).2
    | _ => (openFileWhole valid w file v).2 = w ∧ outcomeOf (openFileWhole valid w file v).1 = .error := by
  have h := openFileOpts_eq file v
  cases hd : dsnConfig (dsnOptsOf v) with
  | ok c =>
    rw [hd] at h
    simp only [openFileWhole, h]
    exact openFileLocked_sim valid w hinv file ⟨file, c.keyOpts⟩ (optionsOf c) rfl
  | error => rw [hd] at h; simp [openFileWhole, h, outcomeOf]
  | panic => rw [hd] at h; simp [openFileWhole, h, outcomeOf]
  | hang => rw [hd] at h; simp [openFileWhole, h, outcomeOf]

/-! ### example: open twice, close twice on one key -/

def w0 : Drv.World := ⟨false, false, fun _ => none, fun _ => default, 0, fun _ => none, 0⟩

example :
    let k : Drv.fileCacheKey := ⟨[120], []⟩
    let r1 := Gen.openFileLocked (fun _ => true) w0 [120] k []
    let r2 := Gen.openFileLocked (fun _ => true) r1.2 [120] k []
    let r3 := Gen.connClose r2.2 0
    let r4 := Gen.connClose r3.2 0
    (refsOf r1.2 k, refsOf r2.2 k, refsOf r3.2 k, refsOf r4.2 k, r4.2.cache k, r4.2.openIdx 0, r4.2.raced, r4.2.held)
      = (1, 2, 1, 0, none, none, false, false) := by rfl

end Updog.GeneratedEq
