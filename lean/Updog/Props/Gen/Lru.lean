/-
cache.go REGENERATED (`Gen.lruGet`, `Gen.lruPut`, `Gen.newLRUCache`, `Gen.withCacheMetrics`, `Gen.nullCacheGet`,
`Gen.nullCachePut` in Updog/GeneratedFns.lean, written by extract/translate_t2.go on every run) versus the
hand-written model of Updog/Model/Lru.lean.

The generated code works on the Go representation: a `container/list` of `*lruCacheItem` (elements with identities),
a `map[uint64]*list.Element`, `uint64` sizes with wrap-around arithmetic, four optional counters. `abs` maps such a
state to the model's `Lru` (recency list of entries, exact natural numbers); `Inv` is the representation invariant
(element identities unique and older than the allocation counter, keys unique, the map is exactly the index of the
list, `curSize` is the exact account). The theorems: `NewLRUCache` establishes `Inv`, `Get`/`Put` preserve it, and
under it `abs ∘ Gen.lruPut = Lru.put ∘ abs`, `abs ∘ Gen.lruGet = Lru.get ∘ abs` (state and answer). The only
side condition is that the `uint64` account does not overflow during a `Put` (`s.curSize + size + 64 < 2^64`).
The C07 theorems about the model are then transferred to every history run through the generated functions.
-/
import Updog.GeneratedFns
import Updog.Proofs.GoPreludeT2
import Updog.Props.C07
import Updog.Model.Cache

namespace Updog.GeneratedEq
open Updog Updog.Go

/-! ### abstraction -/

/-- per-entry overhead `uint64(lruCacheItemSize) + uint64(listElementSize)` -/
def ovhU : UInt64 := Gen.lruCacheItemSize + Gen.listElementSize

/-- the overhead as a number: 24 + 40 bytes -/
def ovh : Nat := ovhU.toNat

theorem ovh_eq : ovh = 64 := by decide

def absItem (it : Gen.lruCacheItem) : Item := ⟨it.key.toNat, it.size.toNat, it.bm⟩

def absItems (elems : List (Elem × Gen.lruCacheItem)) : List Item := elems.map fun p => absItem p.2

/-- value of a counter: the number of `Inc()` calls it has received (0 for a nil counter) -/
def ctr (c : Counter) : Nat := c.getD 0

/-- the model state a generated state stands for -/
def abs (s : Gen.LRUCache) : Lru :=
  { items := absItems s.lruList.elems, cur := s.curSize.toNat, max := s.maxSize.toNat, ovh := ovh,
    gets := ctr s.metrics.GetCall, puts := ctr s.metrics.PutCall,
    hits := ctr s.metrics.CacheHit, misses := ctr s.metrics.CacheMiss }

/-- answer of `Get` as the model gives it -/
def absRes (r : Ref × Bool) : Option Nat := if r.2 then some r.1 else none

/-- representation invariant of the generated state -/
structure Inv (s : Gen.LRUCache) : Prop where
  /-- element identities are unique -/
  ids : s.lruList.IdsNodup
  /-- … and older than the allocation counter (so `PushFront` creates a new identity) -/
  fresh : ∀ p ∈ s.lruList.elems, p.1 < s.lruList.next
  /-- keys are unique -/
  keys : (s.lruList.elems.map (·.2.key)).Nodup
  /-- a map hit yields an element of the list carrying that key -/
  hit : ∀ k, (GoMap.lookup s.entries k).2 = true →
    ∃ v, ((GoMap.lookup s.entries k).1, v) ∈ s.lruList.elems ∧ v.key = k
  /-- a map miss means no element carries that key -/
  miss : ∀ k, (GoMap.lookup s.entries k).2 = false → ∀ p ∈ s.lruList.elems, p.2.key ≠ k
  /-- `curSize` is the exact account (in particular the account is below 2^64) -/
  acct : s.curSize.toNat = total ovh (absItems s.lruList.elems)

/-- all four counters are set (as cmd/updog's server does) -/
def AllSet (s : Gen.LRUCache) : Prop :=
  s.metrics.GetCall.isSome ∧ s.metrics.PutCall.isSome ∧ s.metrics.CacheHit.isSome ∧ s.metrics.CacheMiss.isSome

/-- the model state without its counters -/
def noCtr (c : Lru) : Lru := { c with gets := 0, puts := 0, hits := 0, misses := 0 }

/-! ### lists: the generated representation versus the model's -/

theorem nodup_map_toNat (l : List UInt64) : (l.map UInt64.toNat).Nodup ↔ l.Nodup := by
  simp [List.Nodup, List.pairwise_map, UInt64.toNat_inj]

theorem absItems_keys (elems : List (Elem × Gen.lruCacheItem)) :
    (absItems elems).map (·.key) = (elems.map (·.2.key)).map UInt64.toNat := by
  simp [absItems, absItem, List.map_map, Function.comp_def]

theorem Inv.model {s : Gen.LRUCache} (h : Inv s) : (abs s).Inv :=
  ⟨by show ((absItems s.lruList.elems).map (·.key)).Nodup
      rw [absItems_keys, nodup_map_toNat]; exact h.keys,
   h.acct⟩

theorem key_beq (a b : UInt64) : (a.toNat == b.toNat) = (a == b) := by
  by_cases h : a = b
  · subst h; simp
  · have : a.toNat ≠ b.toNat := fun e => h (UInt64.toNat_inj.1 e)
    rw [beq_eq_false_iff_ne.2 h, beq_eq_false_iff_ne.2 this]

/-- searching the model list for the key of a member finds (the image of) that member -/
theorem find_abs {elems : List (Elem × Gen.lruCacheItem)} (hk : (elems.map (·.2.key)).Nodup)
    {e : Elem} {v : Gen.lruCacheItem} (hm : (e, v) ∈ elems) :
    (absItems elems).find? (·.key == v.key.toNat) = some (absItem v) := by
  have h1 : elems.find? (fun q => q.2.key == v.key) = some (e, v) :=
    find?_of_nodup_mem (fun q : Elem × Gen.lruCacheItem => q.2.key) hk hm
  rw [absItems, List.find?_map]
  have : ((fun x : Item => x.key == v.key.toNat) ∘ fun p : Elem × Gen.lruCacheItem => absItem p.2) =
      fun q => q.2.key == v.key := by
    funext q; simp [absItem, key_beq]
  rw [this, h1]; rfl

theorem find_abs_none {elems : List (Elem × Gen.lruCacheItem)} {k : UInt64}
    (h : ∀ p ∈ elems, p.2.key ≠ k) : (absItems elems).find? (·.key == k.toNat) = none := by
  rw [List.find?_eq_none]
  intro x hx
  obtain ⟨p, hp, rfl⟩ := List.mem_map.1 hx
  have := h p hp
  simpa [absItem, key_beq] using this

/-- dropping the key from the model list is dropping the element from the generated list -/
theorem filter_abs {elems : List (Elem × Gen.lruCacheItem)} (hi : (elems.map (·.1)).Nodup)
    (hk : (elems.map (·.2.key)).Nodup) {e : Elem} {v : Gen.lruCacheItem} (hm : (e, v) ∈ elems) :
    (absItems elems).filter (·.key != v.key.toNat) = absItems (elems.filter (·.1 != e)) := by
  rw [absItems, List.filter_map, absItems]
  congr 1
  apply filter_congr'
  intro q hq
  by_cases h : q.1 = e
  · have : q = (e, v) := eq_of_nodup_map (fun p : Elem × Gen.lruCacheItem => p.1) hi hq hm h
    subst this; simp [absItem]
  · have hne : q.2.key ≠ v.key := by
      intro hkey
      have : q = (e, v) := eq_of_nodup_map (fun p : Elem × Gen.lruCacheItem => p.2.key) hk hq hm hkey
      exact h (by rw [this])
    have : q.2.key.toNat ≠ v.key.toNat := fun e' => hne (UInt64.toNat_inj.1 e')
    have h2 : (q.1 != e) = true := by simpa using h
    rw [h2]
    simpa [absItem] using this

theorem total_mem_le' {elems : List (Elem × Gen.lruCacheItem)} {p : Elem × Gen.lruCacheItem} (h : p ∈ elems) :
    p.2.size.toNat + ovh ≤ total ovh (absItems elems) :=
  total_mem_le ovh (absItems elems) (absItem p.2) (List.mem_map_of_mem (f := fun p => absItem p.2) h)

/-! ### closed forms of the generated functions -/

theorem lruGet_miss (s : Gen.LRUCache) (k : UInt64) (h : (GoMap.lookup s.entries k).2 = false) :
    Gen.lruGet s k =
      ({ s with metrics := { s.metrics with GetCall := Counter.inc s.metrics.GetCall,
                                            CacheMiss := Counter.inc s.metrics.CacheMiss } }, (nilRef, false)) := by
  obtain ⟨e, l, c, m, ⟨a, b, g, p⟩⟩ := s
  cases b <;> cases g <;> simp_all [Gen.lruGet, Counter.isNil, Counter.inc]

theorem lruGet_hit (s : Gen.LRUCache) (k : UInt64) (h : (GoMap.lookup s.entries k).2 = true) :
    Gen.lruGet s k =
      ({ s with metrics := { s.metrics with GetCall := Counter.inc s.metrics.GetCall,
                                            CacheHit := Counter.inc s.metrics.CacheHit },
                lruList := LList.moveToFront s.lruList (GoMap.lookup s.entries k).1 },
       ((LList.value (LList.moveToFront s.lruList (GoMap.lookup s.entries k).1) (GoMap.lookup s.entries k).1).bm,
        true)) := by
  obtain ⟨e, l, c, m, ⟨a, b, g, p⟩⟩ := s
  cases a <;> cases g <;> simp_all [Gen.lruGet, Counter.isNil, Counter.inc]

/-- the state `Gen.lruPut` hands to its eviction loop -/
def putPre (sz : Ref → UInt64) (s : Gen.LRUCache) (k : UInt64) (bm : Ref) : Gen.LRUCache :=
  let m : Gen.CacheMetrics := { s.metrics with PutCall := Counter.inc s.metrics.PutCall }
  let e := (GoMap.lookup s.entries k).1
  if (GoMap.lookup s.entries k).2 then
    let l1 := LList.moveToFront s.lruList e
    let it := LList.value l1 e
    { s with metrics := m,
             lruList := LList.setValue (LList.setValue l1 e { it with bm := bm }) e { it with bm := bm, size := sz bm },
             curSize := s.curSize - it.size + sz bm }
  else
    let item : Gen.lruCacheItem := { key := k, size := sz bm, bm := bm }
    { s with metrics := m,
             lruList := (LList.pushFront s.lruList item).1,
             entries := GoMap.insert s.entries k (LList.pushFront s.lruList item).2,
             curSize := s.curSize + (sz bm + ovhU) }

/-- `Gen.lruPut` = bump the put counter, overwrite or insert, then run the eviction loop with the list length as
fuel. (The `simp` set contains associativity of `+`, so naming the overhead `a + b` in the Go code is harmless.) -/
theorem lruPut_closed (sz : Ref → UInt64) (s : Gen.LRUCache) (k : UInt64) (bm : Ref) :
    Gen.lruPut sz s k bm =
      Gen.lruPut_for1 (LList.len (putPre sz s k bm).lruList).toNat (putPre sz s k bm) := by
  obtain ⟨e, l, c, m, ⟨a, b, g, p⟩⟩ := s
  cases h : (GoMap.lookup e k).2 <;> cases p <;>
    simp [Gen.lruPut, putPre, ovhU, Counter.isNil, Counter.inc, h, UInt64.add_assoc]

theorem for1_body_closed (c : Gen.LRUCache) :
    Gen.lruPut_for1_body c =
      { c with lruList := (LList.remove c.lruList (LList.back c.lruList)).1,
               curSize := c.curSize - ((LList.remove c.lruList (LList.back c.lruList)).2.size + ovhU),
               entries := GoMap.delete c.entries (LList.remove c.lruList (LList.back c.lruList)).2.key } := by
  simp [Gen.lruPut_for1_body, ovhU, UInt64.add_assoc]

theorem for1_cond_iff (c : Gen.LRUCache) :
    Gen.lruPut_for1_cond c = true ↔ c.curSize.toNat > c.maxSize.toNat ∧ c.lruList.elems ≠ [] := by
  have hl := LList.len_pos_iff c.lruList
  simp only [decide_eq_true_eq, gt_iff_lt] at hl
  simp only [Gen.lruPut_for1_cond, Bool.and_eq_true, decide_eq_true_eq, gt_iff_lt, UInt64.lt_iff_toNat_lt, hl]

/-! ### Get -/

/-- what `Gen.lruGet` does, in terms of the model, for any configuration of the counters -/
theorem lruGet_abs_gen (s : Gen.LRUCache) (k : UInt64) (hI : Inv s) :
    abs (Gen.lruGet s k).1 = { ((abs s).get k.toNat).1 with
      gets := ctr (Counter.inc s.metrics.GetCall),
      hits := ctr (if (GoMap.lookup s.entries k).2 then Counter.inc s.metrics.CacheHit else s.metrics.CacheHit),
      misses := ctr (if (GoMap.lookup s.entries k).2 then s.metrics.CacheMiss else Counter.inc s.metrics.CacheMiss) } ∧
    absRes (Gen.lruGet s k).2 = ((abs s).get k.toNat).2 := by
  cases h : (GoMap.lookup s.entries k).2 with
  | false =>
    have hf : (abs s).items.find? (·.key == k.toNat) = none := find_abs_none (hI.miss k h)
    rw [lruGet_miss s k h, get_miss (abs s) k.toNat hf]
    simp [abs, absRes]
  | true =>
    obtain ⟨v, hm, hk⟩ := hI.hit k h
    subst hk
    have hf : (abs s).items.find? (·.key == v.key.toNat) = some (absItem v) := find_abs hI.keys hm
    rw [lruGet_hit s v.key h, get_hit (abs s) v.key.toNat (absItem v) hf, LList.moveToFront_of_mem hI.ids hm]
    have hfl := filter_abs hI.ids hI.keys hm
    simp only [abs] at hfl ⊢
    rw [hfl]
    simp [absRes, absItems, absItem]

theorem mem_front_filter {elems : List (Elem × Gen.lruCacheItem)} (hi : (elems.map (·.1)).Nodup)
    {e : Elem} {v : Gen.lruCacheItem} (hm : (e, v) ∈ elems) (p : Elem × Gen.lruCacheItem) :
    p ∈ (e, v) :: elems.filter (·.1 != e) ↔ p ∈ elems := by
  constructor
  · intro h
    rcases List.mem_cons.1 h with h | h
    · rw [h]; exact hm
    · exact (List.mem_filter.1 h).1
  · intro h
    by_cases he : p.1 = e
    · have : p = (e, v) := eq_of_nodup_map (fun p : Elem × Gen.lruCacheItem => p.1) hi h hm he
      rw [this]; exact List.mem_cons_self
    · exact List.mem_cons_of_mem _ (List.mem_filter.2 ⟨h, by simpa using he⟩)

theorem ids_front_filter {elems : List (Elem × Gen.lruCacheItem)} (hi : (elems.map (·.1)).Nodup)
    (e : Elem) (v : Gen.lruCacheItem) : (((e, v) :: elems.filter (·.1 != e)).map (·.1)).Nodup := by
  rw [List.map_cons, List.nodup_cons]
  refine ⟨?_, List.Nodup.sublist ((List.filter_sublist (l := elems)).map _) hi⟩
  intro h
  obtain ⟨q, hq, hqe⟩ := List.mem_map.1 h
  exact LList.filter_ne_not_mem elems e q hq hqe

theorem keys_front_filter {elems : List (Elem × Gen.lruCacheItem)} (hk : (elems.map (·.2.key)).Nodup)
    {e : Elem} {v : Gen.lruCacheItem} (hm : (e, v) ∈ elems) (v' : Gen.lruCacheItem) (hv : v'.key = v.key) :
    (((e, v') :: elems.filter (·.1 != e)).map (·.2.key)).Nodup := by
  rw [List.map_cons, List.nodup_cons]
  refine ⟨?_, List.Nodup.sublist ((List.filter_sublist (l := elems)).map _) hk⟩
  intro h
  obtain ⟨q, hq, hqk⟩ := List.mem_map.1 h
  have hq' := List.mem_filter.1 hq
  have : q = (e, v) :=
    eq_of_nodup_map (fun p : Elem × Gen.lruCacheItem => p.2.key) hk hq'.1 hm (by simpa [hv] using hqk)
  exact LList.filter_ne_not_mem elems e q hq (by rw [this])

/-- `Get` preserves the representation invariant -/
theorem lruGet_inv (s : Gen.LRUCache) (k : UInt64) (hI : Inv s) : Inv (Gen.lruGet s k).1 := by
  have hacct : (abs (Gen.lruGet s k).1).cur = total (abs (Gen.lruGet s k).1).ovh (abs (Gen.lruGet s k).1).items := by
    rw [(lruGet_abs_gen s k hI).1]
    exact (get_inv (abs s) k.toNat hI.model).acct
  cases h : (GoMap.lookup s.entries k).2 with
  | false =>
    rw [lruGet_miss s k h] at hacct ⊢
    exact ⟨hI.ids, hI.fresh, hI.keys, hI.hit, hI.miss, hacct⟩
  | true =>
    obtain ⟨v, hm, hk⟩ := hI.hit k h
    rw [lruGet_hit s k h, LList.moveToFront_of_mem hI.ids hm] at hacct ⊢
    refine ⟨ids_front_filter hI.ids _ v, ?_, keys_front_filter hI.keys hm v rfl, ?_, ?_, hacct⟩
    · intro p hp
      exact hI.fresh p ((mem_front_filter hI.ids hm p).1 hp)
    · intro k' hk'
      obtain ⟨w, hw, hwk⟩ := hI.hit k' hk'
      exact ⟨w, (mem_front_filter hI.ids hm _).2 hw, hwk⟩
    · intro k' hk' p hp
      exact hI.miss k' hk' p ((mem_front_filter hI.ids hm p).1 hp)

/-! ### uint64 arithmetic of the account -/

theorem ovhU_toNat : ovhU.toNat = ovh := rfl

theorem u_add3 (c sz : UInt64) (h : c.toNat + sz.toNat + ovh < 2 ^ 64) :
    (c + (sz + ovhU)).toNat = c.toNat + sz.toNat + ovh := by
  rw [UInt64.toNat_add, UInt64.toNat_add, ovhU_toNat]
  omega

theorem u_sub_add (c vs sz : UInt64) (hle : vs.toNat ≤ c.toNat) (h : c.toNat - vs.toNat + sz.toNat < 2 ^ 64) :
    (c - vs + sz).toNat = c.toNat - vs.toNat + sz.toNat := by
  rw [UInt64.toNat_add, UInt64.toNat_sub_of_le _ _ (UInt64.le_iff_toNat_le.2 hle)]
  omega

theorem u_sub3 (c vs : UInt64) (h : vs.toNat + ovh ≤ c.toNat) :
    (c - (vs + ovhU)).toNat = c.toNat - (vs.toNat + ovh) := by
  have hc := UInt64.toNat_lt c
  have h1 : (vs + ovhU).toNat = vs.toNat + ovh := by
    rw [UInt64.toNat_add, ovhU_toNat]; omega
  rw [UInt64.toNat_sub_of_le _ _ (UInt64.le_iff_toNat_le.2 (by omega)), h1]

/-! ### Put: the state before the eviction loop -/

/-- model side of `putPre`: the put counter bumped, `putList` built and accounted exactly -/
def prePut (c : Lru) (puts k bm size : Nat) : Lru :=
  { c with puts := puts, items := putList c k bm size, cur := total c.ovh (putList c k bm size) }

theorem putPre_hit (sz : Ref → UInt64) (s : Gen.LRUCache) (k : UInt64) (bm : Ref) (hI : Inv s)
    (hno : s.curSize.toNat + (sz bm).toNat + ovh < 2 ^ 64) (h : (GoMap.lookup s.entries k).2 = true) :
    Inv (putPre sz s k bm) ∧
    abs (putPre sz s k bm) = prePut (abs s) (ctr (Counter.inc s.metrics.PutCall)) k.toNat bm (sz bm).toNat := by
  obtain ⟨v, hm, hk⟩ := hI.hit k h
  subst hk
  have hrest := LList.filter_ne_not_mem s.lruList.elems (GoMap.lookup s.entries v.key).1
  have hpre : putPre sz s v.key bm =
      { s with metrics := { s.metrics with PutCall := Counter.inc s.metrics.PutCall },
               lruList := { s.lruList with elems := ((GoMap.lookup s.entries v.key).1, { v with bm := bm, size := sz bm }) ::
                              s.lruList.elems.filter (·.1 != (GoMap.lookup s.entries v.key).1) },
               curSize := s.curSize - v.size + sz bm } := by
    simp only [putPre, h, if_true, LList.moveToFront_of_mem hI.ids hm, LList.value_head]
    rw [LList.setValue_head _ _ _ _ _ hrest, LList.setValue_head _ _ _ _ _ hrest]
  have hf : (abs s).items.find? (·.key == v.key.toNat) = some (absItem v) := find_abs hI.keys hm
  have htot : total ovh (absItems s.lruList.elems) =
      v.size.toNat + ovh + total ovh ((absItems s.lruList.elems).filter (·.key != v.key.toNat)) :=
    total_move_front ovh hI.model.nodup hf
  have hacct := hI.acct
  have hfl := filter_abs hI.ids hI.keys hm
  have hvle : v.size.toNat + ovh ≤ s.curSize.toNat := by
    rw [hacct]; exact total_mem_le' hm
  have hcur : (s.curSize - v.size + sz bm).toNat = s.curSize.toNat - v.size.toNat + (sz bm).toNat :=
    u_sub_add _ _ _ (by omega) (by omega)
  have hitems : absItems (((GoMap.lookup s.entries v.key).1, ({ v with bm := bm, size := sz bm } : Gen.lruCacheItem)) ::
        s.lruList.elems.filter (·.1 != (GoMap.lookup s.entries v.key).1)) =
      ⟨v.key.toNat, (sz bm).toNat, bm⟩ :: (absItems s.lruList.elems).filter (·.key != v.key.toNat) := by
    rw [hfl]; rfl
  have hcur2 : (s.curSize - v.size + sz bm).toNat =
      total ovh (⟨v.key.toNat, (sz bm).toNat, bm⟩ :: (absItems s.lruList.elems).filter (·.key != v.key.toNat)) := by
    rw [total_cons, hcur]
    show _ = (sz bm).toNat + ovh + _
    omega
  have habs : abs (putPre sz s v.key bm) =
      prePut (abs s) (ctr (Counter.inc s.metrics.PutCall)) v.key.toNat bm (sz bm).toNat := by
    rw [hpre]
    show ({ items := absItems (_ :: _), cur := (s.curSize - v.size + sz bm).toNat, max := _, ovh := ovh,
            gets := _, puts := _, hits := _, misses := _ } : Lru) = _
    rw [hitems, hcur2]
    rfl
  refine ⟨?_, habs⟩
  rw [hpre]
  refine ⟨ids_front_filter hI.ids _ _, ?_, keys_front_filter hI.keys hm _ rfl, ?_, ?_, ?_⟩
  · intro p hp
    rcases List.mem_cons.1 hp with hp | hp
    · rw [hp]; exact hI.fresh (_, v) hm
    · exact hI.fresh p (List.mem_filter.1 hp).1
  · intro k' hk'
    obtain ⟨w, hw, hwk⟩ := hI.hit k' hk'
    by_cases he : (GoMap.lookup s.entries k').1 = (GoMap.lookup s.entries v.key).1
    · have : ((GoMap.lookup s.entries k').1, w) = ((GoMap.lookup s.entries v.key).1, v) :=
        eq_of_nodup_map (fun p : Elem × Gen.lruCacheItem => p.1) hI.ids hw hm he
      have hwv : w = v := (Prod.mk.inj this).2
      refine ⟨{ v with bm := bm, size := sz bm }, ?_, by rw [← hwk, hwv]⟩
      show _ ∈ _ :: _
      rw [he]; exact List.mem_cons_self
    · exact ⟨w, List.mem_cons_of_mem _ (List.mem_filter.2 ⟨hw, by simpa using he⟩), hwk⟩
  · intro k' hk' p hp
    rcases List.mem_cons.1 hp with hp | hp
    · rw [hp]; exact hI.miss k' hk' (_, v) hm
    · exact hI.miss k' hk' p (List.mem_filter.1 hp).1
  · show (s.curSize - v.size + sz bm).toNat = total ovh (absItems (_ :: _))
    rw [hitems, hcur2]

theorem putPre_miss (sz : Ref → UInt64) (s : Gen.LRUCache) (k : UInt64) (bm : Ref) (hI : Inv s)
    (hno : s.curSize.toNat + (sz bm).toNat + ovh < 2 ^ 64) (h : (GoMap.lookup s.entries k).2 = false) :
    Inv (putPre sz s k bm) ∧
    abs (putPre sz s k bm) = prePut (abs s) (ctr (Counter.inc s.metrics.PutCall)) k.toNat bm (sz bm).toNat := by
  have hmiss := hI.miss k h
  have hpre : putPre sz s k bm =
      { s with metrics := { s.metrics with PutCall := Counter.inc s.metrics.PutCall },
               lruList := { elems := (s.lruList.next, ({ key := k, size := sz bm, bm := bm } : Gen.lruCacheItem)) ::
                              s.lruList.elems, next := s.lruList.next + 1 },
               entries := GoMap.insert s.entries k s.lruList.next,
               curSize := s.curSize + (sz bm + ovhU) } := by
    simp [putPre, h, LList.pushFront]
  have hf : (abs s).items.find? (·.key == k.toNat) = none := find_abs_none hmiss
  have hfl : (absItems s.lruList.elems).filter (·.key != k.toNat) = absItems s.lruList.elems :=
    filter_of_find_none hf
  have hcur : (s.curSize + (sz bm + ovhU)).toNat = s.curSize.toNat + (sz bm).toNat + ovh := u_add3 _ _ hno
  have hitems : absItems ((s.lruList.next, ({ key := k, size := sz bm, bm := bm } : Gen.lruCacheItem)) :: s.lruList.elems) =
      ⟨k.toNat, (sz bm).toNat, bm⟩ :: (absItems s.lruList.elems).filter (·.key != k.toNat) := by
    rw [hfl]; rfl
  have hcur2 : (s.curSize + (sz bm + ovhU)).toNat =
      total ovh (⟨k.toNat, (sz bm).toNat, bm⟩ :: (absItems s.lruList.elems).filter (·.key != k.toNat)) := by
    rw [total_cons, hcur, hfl, ← hI.acct]
    show _ = (sz bm).toNat + ovh + _
    omega
  have habs : abs (putPre sz s k bm) =
      prePut (abs s) (ctr (Counter.inc s.metrics.PutCall)) k.toNat bm (sz bm).toNat := by
    rw [hpre]
    show ({ items := absItems (_ :: _), cur := (s.curSize + (sz bm + ovhU)).toNat, max := _, ovh := ovh,
            gets := _, puts := _, hits := _, misses := _ } : Lru) = _
    rw [hitems, hcur2]
    rfl
  refine ⟨?_, habs⟩
  rw [hpre]
  refine ⟨?_, ?_, ?_, ?_, ?_, ?_⟩
  · show (((s.lruList.next, ({ key := k, size := sz bm, bm := bm } : Gen.lruCacheItem)) :: s.lruList.elems).map
      (fun p : Elem × Gen.lruCacheItem => p.1)).Nodup
    rw [List.map_cons, List.nodup_cons]
    refine ⟨?_, hI.ids⟩
    intro hmem
    obtain ⟨q, hq, hqe⟩ := List.mem_map.1 hmem
    have h1 : q.1 < s.lruList.next := hI.fresh q hq
    have h2 : q.1 = s.lruList.next := hqe
    exact absurd h2 (Nat.ne_of_lt h1)
  · intro p hp
    show p.1 < s.lruList.next + 1
    rcases List.mem_cons.1 hp with hp | hp
    · rw [hp]; exact Nat.lt_succ_self _
    · exact Nat.lt_succ_of_lt (hI.fresh p hp)
  · show (((s.lruList.next, ({ key := k, size := sz bm, bm := bm } : Gen.lruCacheItem)) :: s.lruList.elems).map
      (fun p : Elem × Gen.lruCacheItem => p.2.key)).Nodup
    rw [List.map_cons, List.nodup_cons]
    refine ⟨?_, hI.keys⟩
    intro hmem
    obtain ⟨q, hq, hqk⟩ := List.mem_map.1 hmem
    exact hmiss q hq hqk
  · intro k' hk'
    simp only [GoMap.lookup_insert] at hk' ⊢
    by_cases he : k' = k
    · subst he
      simp only [beq_self_eq_true, if_true]
      exact ⟨_, List.mem_cons_self, rfl⟩
    · have he' : (k' == k) = false := beq_eq_false_iff_ne.2 he
      simp only [he', Bool.false_eq_true, if_false] at hk' ⊢
      obtain ⟨w, hw, hwk⟩ := hI.hit k' hk'
      exact ⟨w, List.mem_cons_of_mem _ hw, hwk⟩
  · intro k' hk' p hp
    simp only [GoMap.lookup_insert] at hk'
    by_cases he : k' = k
    · subst he
      simp at hk'
    · have he' : (k' == k) = false := beq_eq_false_iff_ne.2 he
      simp only [he', Bool.false_eq_true, if_false] at hk'
      rcases List.mem_cons.1 hp with hp | hp
      · rw [hp]; exact fun e => he e.symm
      · exact hI.miss k' hk' p hp
  · show (s.curSize + (sz bm + ovhU)).toNat = total ovh (absItems (_ :: _))
    rw [hitems, hcur2]

/-- `putPre` in terms of the model, in both cases -/
theorem putPre_spec (sz : Ref → UInt64) (s : Gen.LRUCache) (k : UInt64) (bm : Ref) (hI : Inv s)
    (hno : s.curSize.toNat + (sz bm).toNat + ovh < 2 ^ 64) :
    Inv (putPre sz s k bm) ∧
    abs (putPre sz s k bm) = prePut (abs s) (ctr (Counter.inc s.metrics.PutCall)) k.toNat bm (sz bm).toNat := by
  cases h : (GoMap.lookup s.entries k).2 with
  | false => exact putPre_miss sz s k bm hI hno h
  | true => exact putPre_hit sz s k bm hI hno h

/-! ### the eviction loop -/

theorem evict_step (ovh max : Nat) (items : List Item) (cur : Nat) (h : cur > max ∧ items ≠ []) :
    evict ovh max items cur = evict ovh max items.dropLast (cur - ((items.getLast h.2).size + ovh)) := by
  rw [evict, dif_pos h]

theorem evict_stop (ovh max : Nat) (items : List Item) (cur : Nat) (h : ¬ (cur > max ∧ items ≠ [])) :
    evict ovh max items cur = (items, cur) := by
  rw [evict, dif_neg h]

theorem absItems_ne_nil {elems : List (Elem × Gen.lruCacheItem)} (h : elems ≠ []) : absItems elems ≠ [] := by
  cases elems with
  | nil => exact absurd rfl h
  | cons a t => simp [absItems]

/-- one iteration of the loop: the least recently used element goes, with its map entry and its account -/
theorem for1_body_spec (c : Gen.LRUCache) (hI : Inv c) (hne : c.lruList.elems ≠ []) :
    Inv (Gen.lruPut_for1_body c) ∧
    (Gen.lruPut_for1_body c).lruList.elems = c.lruList.elems.dropLast ∧
    (Gen.lruPut_for1_body c).curSize.toNat =
      c.curSize.toNat - (((absItems c.lruList.elems).getLast (absItems_ne_nil hne)).size + ovh) ∧
    (Gen.lruPut_for1_body c).maxSize = c.maxSize ∧ (Gen.lruPut_for1_body c).metrics = c.metrics := by
  have hsplit := List.dropLast_concat_getLast hne
  have hlast : c.lruList.elems.getLast hne ∈ c.lruList.elems := List.getLast_mem hne
  have hbody : Gen.lruPut_for1_body c =
      { c with lruList := { c.lruList with elems := c.lruList.elems.dropLast },
               curSize := c.curSize - ((c.lruList.elems.getLast hne).2.size + ovhU),
               entries := GoMap.delete c.entries (c.lruList.elems.getLast hne).2.key } := by
    rw [for1_body_closed, LList.remove_back hI.ids hne]
  have hsub : ∀ p ∈ c.lruList.elems.dropLast, p ∈ c.lruList.elems :=
    fun p hp => (List.dropLast_sublist _).subset hp
  have hle : (c.lruList.elems.getLast hne).2.size.toNat + ovh ≤ c.curSize.toNat := by
    rw [hI.acct]; exact total_mem_le' hlast
  have hcur : (c.curSize - ((c.lruList.elems.getLast hne).2.size + ovhU)).toNat =
      c.curSize.toNat - ((c.lruList.elems.getLast hne).2.size.toNat + ovh) := u_sub3 _ _ hle
  have hgl : ((absItems c.lruList.elems).getLast (absItems_ne_nil hne)).size =
      (c.lruList.elems.getLast hne).2.size.toNat := by
    simp only [absItems, List.getLast_map, absItem]
  -- keys of the init differ from the key of the last element
  have hkeys' : ((c.lruList.elems.dropLast ++ [c.lruList.elems.getLast hne]).map (·.2.key)).Nodup := by
    rw [hsplit]; exact hI.keys
  rw [List.map_append, List.nodup_append] at hkeys'
  have hdis : ∀ p ∈ c.lruList.elems.dropLast, p.2.key ≠ (c.lruList.elems.getLast hne).2.key := by
    intro p hp
    exact hkeys'.2.2 p.2.key (List.mem_map_of_mem hp) _ (by simp)
  rw [hbody]
  refine ⟨⟨LList.dropLast_idsNodup hI.ids, fun p hp => hI.fresh p (hsub p hp),
    List.Nodup.sublist ((List.dropLast_sublist _).map _) hI.keys, ?_, ?_, ?_⟩, rfl, ?_, rfl, rfl⟩
  · intro k' hk'
    simp only [GoMap.lookup_delete] at hk' ⊢
    by_cases he : k' = (c.lruList.elems.getLast hne).2.key
    · simp [he] at hk'
    · have he' : (k' == (c.lruList.elems.getLast hne).2.key) = false := beq_eq_false_iff_ne.2 he
      simp only [he', Bool.false_eq_true, if_false] at hk' ⊢
      obtain ⟨w, hw, hwk⟩ := hI.hit k' hk'
      refine ⟨w, ?_, hwk⟩
      rw [← hsplit] at hw
      rcases List.mem_append.1 hw with hw | hw
      · exact hw
      · have : ((GoMap.lookup c.entries k').1, w) = c.lruList.elems.getLast hne := by simpa using hw
        exact absurd (by rw [← this]; exact hwk.symm) he
  · intro k' hk' p hp
    simp only [GoMap.lookup_delete] at hk'
    by_cases he : k' = (c.lruList.elems.getLast hne).2.key
    · rw [he]; exact hdis p hp
    · have he' : (k' == (c.lruList.elems.getLast hne).2.key) = false := beq_eq_false_iff_ne.2 he
      simp only [he', Bool.false_eq_true, if_false] at hk'
      exact hI.miss k' hk' p (hsub p hp)
  · show (c.curSize - ((c.lruList.elems.getLast hne).2.size + ovhU)).toNat = total ovh (absItems c.lruList.elems.dropLast)
    have ht := total_dropLast ovh (absItems c.lruList.elems) (absItems_ne_nil hne)
    rw [hgl] at ht
    have hmd : (absItems c.lruList.elems).dropLast = absItems c.lruList.elems.dropLast := by
      simp only [absItems, List.map_dropLast]
    rw [hmd] at ht
    rw [hcur, hI.acct]
    omega
  · show (c.curSize - ((c.lruList.elems.getLast hne).2.size + ovhU)).toNat = _
    rw [hcur, hgl]

/-- the generated loop, given at least as much fuel as the list is long, is the model's `evict`; it keeps the
invariant, and it stops because its condition is false (the fuel is never what ends it) -/
theorem for1_spec (n : Nat) (c : Gen.LRUCache) (hI : Inv c) (hn : c.lruList.elems.length ≤ n) :
    Inv (Gen.lruPut_for1 n c) ∧
    absItems (Gen.lruPut_for1 n c).lruList.elems =
      (evict ovh c.maxSize.toNat (absItems c.lruList.elems) c.curSize.toNat).1 ∧
    (Gen.lruPut_for1 n c).curSize.toNat =
      (evict ovh c.maxSize.toNat (absItems c.lruList.elems) c.curSize.toNat).2 ∧
    (Gen.lruPut_for1 n c).maxSize = c.maxSize ∧ (Gen.lruPut_for1 n c).metrics = c.metrics ∧
    Gen.lruPut_for1_cond (Gen.lruPut_for1 n c) = false := by
  induction n generalizing c with
  | zero =>
    have hnil : c.lruList.elems = [] := List.eq_nil_of_length_eq_zero (Nat.le_zero.1 hn)
    have hstop : ¬ (c.curSize.toNat > c.maxSize.toNat ∧ absItems c.lruList.elems ≠ []) := by
      rw [hnil]; simp [absItems]
    have hcond : Gen.lruPut_for1_cond c = false := by
      cases hc : Gen.lruPut_for1_cond c with
      | false => rfl
      | true => exact absurd hnil ((for1_cond_iff c).1 hc).2
    rw [evict_stop _ _ _ _ hstop]
    exact ⟨hI, rfl, rfl, rfl, rfl, hcond⟩
  | succ n ih =>
    cases hc : Gen.lruPut_for1_cond c with
    | false =>
      have hstop : ¬ (c.curSize.toNat > c.maxSize.toNat ∧ absItems c.lruList.elems ≠ []) := by
        intro h
        have hne : c.lruList.elems ≠ [] := by
          intro e; rw [e] at h; exact h.2 rfl
        have := (for1_cond_iff c).2 ⟨h.1, hne⟩
        rw [hc] at this; cases this
      have hfor : Gen.lruPut_for1 (n + 1) c = c := by simp [Gen.lruPut_for1, hc]
      rw [hfor, evict_stop _ _ _ _ hstop]
      exact ⟨hI, rfl, rfl, rfl, rfl, hc⟩
    | true =>
      obtain ⟨hgt, hne⟩ := (for1_cond_iff c).1 hc
      obtain ⟨hI', hel, hcur, hmax, hmet⟩ := for1_body_spec c hI hne
      have hfor : Gen.lruPut_for1 (n + 1) c = Gen.lruPut_for1 n (Gen.lruPut_for1_body c) := by
        simp [Gen.lruPut_for1, hc]
      have hlen : (Gen.lruPut_for1_body c).lruList.elems.length ≤ n := by
        rw [hel, List.length_dropLast]; omega
      obtain ⟨i1, i2, i3, i4, i5, i6⟩ := ih (Gen.lruPut_for1_body c) hI' hlen
      have hmd : (absItems c.lruList.elems).dropLast = absItems c.lruList.elems.dropLast := by
        simp only [absItems, List.map_dropLast]
      rw [evict_step ovh c.maxSize.toNat (absItems c.lruList.elems) c.curSize.toNat ⟨hgt, absItems_ne_nil hne⟩,
        hfor, hmd, ← hel, ← hcur, ← hmax]
      exact ⟨i1, i2, i3, i4.trans (by rw [hmax]), i5.trans hmet, i6⟩

/-- The fuel the translator hands to the loop (the length of the list) always suffices: the loop of `Gen.lruPut`
ends because its condition is false. -/
theorem lruPut_loop_exits (sz : Ref → UInt64) (s : Gen.LRUCache) (k : UInt64) (bm : Ref) (hI : Inv s)
    (hno : s.curSize.toNat + (sz bm).toNat + ovh < 2 ^ 64) :
    Gen.lruPut_for1_cond (Gen.lruPut sz s k bm) = false := by
  rw [lruPut_closed]
  have hp := (putPre_spec sz s k bm hI hno).1
  exact (for1_spec _ _ hp (by simp [LList.len])).2.2.2.2.2

/-! ### Put -/

/-- what `Gen.lruPut` does, in terms of the model, for any configuration of the counters -/
theorem lruPut_abs_gen (sz : Ref → UInt64) (s : Gen.LRUCache) (k : UInt64) (bm : Ref) (hI : Inv s)
    (hno : s.curSize.toNat + (sz bm).toNat + ovh < 2 ^ 64) :
    abs (Gen.lruPut sz s k bm) =
      { (abs s).put k.toNat bm (sz bm).toNat with puts := ctr (Counter.inc s.metrics.PutCall) } ∧
    Inv (Gen.lruPut sz s k bm) := by
  obtain ⟨hp, habs⟩ := putPre_spec sz s k bm hI hno
  obtain ⟨i1, i2, i3, i4, i5, _⟩ := for1_spec (LList.len (putPre sz s k bm).lruList).toNat _ hp (by simp [LList.len])
  rw [lruPut_closed]
  refine ⟨?_, i1⟩
  have hitems := congrArg Lru.items habs
  have hcur := congrArg Lru.cur habs
  have hmax := congrArg Lru.max habs
  have hpc := congrArg Lru.puts habs
  have hg := congrArg Lru.gets habs
  have hh := congrArg Lru.hits habs
  have hm := congrArg Lru.misses habs
  simp only [abs, prePut] at hitems hcur hmax hpc hg hh hm
  rw [put_eq (abs s) k.toNat bm (sz bm).toNat hI.model]
  show ({ items := absItems _, cur := _, max := _, ovh := ovh, gets := _, puts := _, hits := _, misses := _ } : Lru) = _
  rw [i2, i3, i4, i5, hitems, hcur, hmax, hpc, hg, hh, hm]
  rfl

/-! ### the equalities with the model -/

theorem ctr_inc_of_isSome {c : Counter} (h : c.isSome) : ctr (Counter.inc c) = ctr c + 1 := by
  cases c with
  | none => cases h
  | some n => rfl

/-- **`Gen.lruPut` is the model's `Lru.put`** (all counters set, as the server does) -/
theorem lruPut_abs (sz : Ref → UInt64) (s : Gen.LRUCache) (k : UInt64) (bm : Ref) (hI : Inv s) (hA : AllSet s)
    (hno : s.curSize.toNat + (sz bm).toNat + ovh < 2 ^ 64) :
    abs (Gen.lruPut sz s k bm) = (abs s).put k.toNat bm (sz bm).toNat := by
  rw [(lruPut_abs_gen sz s k bm hI hno).1, ctr_inc_of_isSome hA.2.1]
  have := (put_fields (abs s) k.toNat bm (sz bm).toNat).2.2.2.1
  show ({ (abs s).put k.toNat bm (sz bm).toNat with puts := (abs s).puts + 1 } : Lru) = _
  rw [← this]

/-- … and whatever counters are nil, everything but the counters is the model's `Lru.put` -/
theorem lruPut_abs_noCtr (sz : Ref → UInt64) (s : Gen.LRUCache) (k : UInt64) (bm : Ref) (hI : Inv s)
    (hno : s.curSize.toNat + (sz bm).toNat + ovh < 2 ^ 64) :
    noCtr (abs (Gen.lruPut sz s k bm)) = noCtr ((abs s).put k.toNat bm (sz bm).toNat) := by
  rw [(lruPut_abs_gen sz s k bm hI hno).1]; rfl

/-- `Put` preserves the representation invariant -/
theorem lruPut_inv (sz : Ref → UInt64) (s : Gen.LRUCache) (k : UInt64) (bm : Ref) (hI : Inv s)
    (hno : s.curSize.toNat + (sz bm).toNat + ovh < 2 ^ 64) : Inv (Gen.lruPut sz s k bm) :=
  (lruPut_abs_gen sz s k bm hI hno).2

/-- the counters after `Put`: exactly the put counter has been incremented (if it is not nil); needs no invariant -/
theorem lruPut_metrics (sz : Ref → UInt64) (s : Gen.LRUCache) (k : UInt64) (bm : Ref) :
    (Gen.lruPut sz s k bm).metrics = { s.metrics with PutCall := Counter.inc s.metrics.PutCall } ∧
    (Gen.lruPut sz s k bm).maxSize = s.maxSize := by
  rw [lruPut_closed]
  have h : ∀ n c, (Gen.lruPut_for1 n c).metrics = c.metrics ∧ (Gen.lruPut_for1 n c).maxSize = c.maxSize := by
    intro n
    induction n with
    | zero => intro c; exact ⟨rfl, rfl⟩
    | succ n ih =>
      intro c
      cases hc : Gen.lruPut_for1_cond c with
      | false => simp [Gen.lruPut_for1, hc]
      | true =>
        have : Gen.lruPut_for1 (n + 1) c = Gen.lruPut_for1 n (Gen.lruPut_for1_body c) := by
          simp [Gen.lruPut_for1, hc]
        rw [this, (ih _).1, (ih _).2, for1_body_closed]
        exact ⟨rfl, rfl⟩
  rw [(h _ _).1, (h _ _).2]
  unfold putPre
  split <;> exact ⟨rfl, rfl⟩

/-- **`Gen.lruGet` is the model's `Lru.get`**: new state and answer (all counters set) -/
theorem lruGet_abs (s : Gen.LRUCache) (k : UInt64) (hI : Inv s) (hA : AllSet s) :
    abs (Gen.lruGet s k).1 = ((abs s).get k.toNat).1 ∧ absRes (Gen.lruGet s k).2 = ((abs s).get k.toNat).2 := by
  obtain ⟨h1, h2⟩ := lruGet_abs_gen s k hI
  refine ⟨?_, h2⟩
  rw [h1]
  obtain ⟨g1, g2, g3⟩ := get_counters (abs s) k.toNat
  have hsome : ((abs s).get k.toNat).2.isSome = (GoMap.lookup s.entries k).2 := by
    rw [← h2]
    cases h : (GoMap.lookup s.entries k).2 with
    | false => rw [lruGet_miss s k h]; rfl
    | true => rw [lruGet_hit s k h]; rfl
  rw [hsome] at g2 g3
  have e1 : ctr (Counter.inc s.metrics.GetCall) = ((abs s).get k.toNat).1.gets := by
    rw [g1, ctr_inc_of_isSome hA.1]; rfl
  have e2 : ctr (if (GoMap.lookup s.entries k).2 then Counter.inc s.metrics.CacheHit else s.metrics.CacheHit) =
      ((abs s).get k.toNat).1.hits := by
    rw [g2]
    cases (GoMap.lookup s.entries k).2 with
    | false => rfl
    | true => simp only [if_true]; rw [ctr_inc_of_isSome hA.2.2.1]; rfl
  have e3 : ctr (if (GoMap.lookup s.entries k).2 then s.metrics.CacheMiss else Counter.inc s.metrics.CacheMiss) =
      ((abs s).get k.toNat).1.misses := by
    rw [g3]
    cases (GoMap.lookup s.entries k).2 with
    | false => simp only [Bool.false_eq_true, if_false]; rw [ctr_inc_of_isSome hA.2.2.2]; rfl
    | true => rfl
  rw [e1, e2, e3]

/-- … and whatever counters are nil, everything but the counters is the model's `Lru.get` -/
theorem lruGet_abs_noCtr (s : Gen.LRUCache) (k : UInt64) (hI : Inv s) :
    noCtr (abs (Gen.lruGet s k).1) = noCtr ((abs s).get k.toNat).1 := by
  rw [(lruGet_abs_gen s k hI).1]; rfl

/-- the counters after `Get`: `GetCall` and, depending on the outcome, `CacheHit` or `CacheMiss` have been
incremented, each only if it is not nil and independently of the others; needs no invariant -/
theorem lruGet_metrics (s : Gen.LRUCache) (k : UInt64) :
    (Gen.lruGet s k).1.metrics =
      { s.metrics with
        GetCall := Counter.inc s.metrics.GetCall,
        CacheHit := if (Gen.lruGet s k).2.2 then Counter.inc s.metrics.CacheHit else s.metrics.CacheHit,
        CacheMiss := if (Gen.lruGet s k).2.2 then s.metrics.CacheMiss else Counter.inc s.metrics.CacheMiss } ∧
    (Gen.lruGet s k).1.maxSize = s.maxSize ∧ (Gen.lruGet s k).1.curSize = s.curSize ∧
    (Gen.lruGet s k).1.entries = s.entries := by
  cases h : (GoMap.lookup s.entries k).2 with
  | false => rw [lruGet_miss s k h]; exact ⟨rfl, rfl, rfl, rfl⟩
  | true => rw [lruGet_hit s k h]; exact ⟨rfl, rfl, rfl, rfl⟩

theorem allSet_inc {m m' : Gen.CacheMetrics}
    (h : m.GetCall.isSome ∧ m.PutCall.isSome ∧ m.CacheHit.isSome ∧ m.CacheMiss.isSome)
    (h1 : m'.GetCall = m.GetCall ∨ m'.GetCall = Counter.inc m.GetCall)
    (h2 : m'.PutCall = m.PutCall ∨ m'.PutCall = Counter.inc m.PutCall)
    (h3 : m'.CacheHit = m.CacheHit ∨ m'.CacheHit = Counter.inc m.CacheHit)
    (h4 : m'.CacheMiss = m.CacheMiss ∨ m'.CacheMiss = Counter.inc m.CacheMiss) :
    m'.GetCall.isSome ∧ m'.PutCall.isSome ∧ m'.CacheHit.isSome ∧ m'.CacheMiss.isSome := by
  have key : ∀ c c' : Counter, c.isSome → (c' = c ∨ c' = Counter.inc c) → c'.isSome := by
    intro c c' hc h
    cases c with
    | none => cases hc
    | some n => rcases h with h | h <;> rw [h] <;> rfl
  exact ⟨key _ _ h.1 h1, key _ _ h.2.1 h2, key _ _ h.2.2.1 h3, key _ _ h.2.2.2 h4⟩

theorem lruGet_allSet (s : Gen.LRUCache) (k : UInt64) (hA : AllSet s) : AllSet (Gen.lruGet s k).1 := by
  have hm := (lruGet_metrics s k).1
  unfold AllSet
  apply allSet_inc hA <;> rw [hm]
  · exact Or.inr rfl
  · exact Or.inl rfl
  · cases (Gen.lruGet s k).2.2 <;> simp
  · cases (Gen.lruGet s k).2.2 <;> simp

theorem lruPut_allSet (sz : Ref → UInt64) (s : Gen.LRUCache) (k : UInt64) (bm : Ref) (hA : AllSet s) :
    AllSet (Gen.lruPut sz s k bm) := by
  have hm := (lruPut_metrics sz s k bm).1
  unfold AllSet
  apply allSet_inc hA <;> rw [hm]
  · exact Or.inl rfl
  · exact Or.inr rfl
  · exact Or.inl rfl
  · exact Or.inl rfl

/-! ### the `Cache` implementations of Updog/Model/Cache.lean -/

/-- `Gen.lruPut` / `Gen.lruGet` are the `put` / `get` of the model's `lruCacheImpl` -/
theorem lruPut_impl (sz : Ref → UInt64) (s : Gen.LRUCache) (k : UInt64) (bm : Ref) (hI : Inv s) (hA : AllSet s)
    (hno : s.curSize.toNat + (sz bm).toNat + ovh < 2 ^ 64) :
    abs (Gen.lruPut sz s k bm) = (lruCacheImpl fun b => (sz b).toNat).put (abs s) k bm :=
  lruPut_abs sz s k bm hI hA hno

theorem lruGet_impl (sz : Nat → Nat) (s : Gen.LRUCache) (k : UInt64) (hI : Inv s) (hA : AllSet s) :
    (abs (Gen.lruGet s k).1, absRes (Gen.lruGet s k).2) = (lruCacheImpl sz).get (abs s) k := by
  obtain ⟨h1, h2⟩ := lruGet_abs s k hI hA
  show _ = (abs s).get k.toNat
  rw [h1, h2]

/-- `nullCache`: `Get` always misses, `Put` does nothing -/
theorem nullCacheGet_eq (k : UInt64) :
    Gen.nullCacheGet k = (nilRef, false) ∧ absRes (Gen.nullCacheGet k) = (nullCacheImpl.get () k).2 := ⟨rfl, rfl⟩

theorem nullCachePut_eq (k : UInt64) (bm : Ref) : Gen.nullCachePut k bm = nullCacheImpl.put () k bm := rfl

/-! ### `NewLRUCache` -/

/-- an empty cache with the given bound and counters -/
def base (max : UInt64) (m : Gen.CacheMetrics) : Gen.LRUCache :=
  { entries := GoMap.empty, lruList := LList.new, curSize := 0, maxSize := max, metrics := m }

/-- `&CacheMetrics{}`: no counters -/
def nilMetrics : Gen.CacheMetrics := { CacheHit := none, CacheMiss := none, GetCall := none, PutCall := none }

/-- four fresh counters -/
def zeroMetrics : Gen.CacheMetrics := { CacheHit := some 0, CacheMiss := some 0, GetCall := some 0, PutCall := some 0 }

theorem withCacheMetrics_eq (m : Gen.CacheMetrics) (c : Gen.LRUCache) :
    Gen.withCacheMetrics m c = { c with metrics := m } := rfl

/-- `NewLRUCache(max, WithCacheMetrics(m₁), …, WithCacheMetrics(mₙ))` is the empty cache with the last `mᵢ`
(no counters if there is no option) -/
theorem newLRUCache_eq (max : UInt64) (ms : List Gen.CacheMetrics) :
    Gen.newLRUCache max (ms.map Gen.withCacheMetrics) = base max (ms.getLast?.getD nilMetrics) := by
  have h : ∀ (ms : List Gen.CacheMetrics) (m0 : Gen.CacheMetrics),
      List.foldl (fun (cache : Gen.LRUCache) (o : Gen.LRUCache → Gen.LRUCache) => o cache) (base max m0)
        (ms.map Gen.withCacheMetrics) = base max (ms.getLast?.getD m0) := by
    intro ms
    induction ms with
    | nil => intro m0; rfl
    | cons m t ih =>
      intro m0
      rw [List.map_cons, List.foldl_cons]
      have : Gen.withCacheMetrics m (base max m0) = base max m := rfl
      rw [this, ih m]
      cases t with
      | nil => rfl
      | cons a t' =>
        rw [List.getLast?_cons_cons, List.getLast?_eq_some_getLast (List.cons_ne_nil a t')]
        rfl
  exact h ms nilMetrics

theorem base_inv (max : UInt64) (m : Gen.CacheMetrics) : Inv (base max m) :=
  ⟨by simp [base, LList.IdsNodup, LList.new], by simp [base, LList.new], by simp [base, LList.new],
   by intro k h; simp [base] at h, by intro k _ p hp; simp [base, LList.new] at hp,
   by simp [base, LList.new, absItems]⟩

theorem abs_base (max : UInt64) (m : Gen.CacheMetrics) :
    abs (base max m) = { Lru.empty max.toNat ovh with gets := ctr m.GetCall, puts := ctr m.PutCall,
                                                      hits := ctr m.CacheHit, misses := ctr m.CacheMiss } := by
  simp [abs, base, Lru.empty, LList.new, absItems]

/-- **`NewLRUCache` establishes the invariant and is the model's empty cache** (no option, or fresh counters) -/
theorem newLRUCache_abs (max : UInt64) :
    Inv (Gen.newLRUCache max []) ∧ abs (Gen.newLRUCache max []) = Lru.empty max.toNat ovh ∧
    Inv (Gen.newLRUCache max [Gen.withCacheMetrics zeroMetrics]) ∧
    AllSet (Gen.newLRUCache max [Gen.withCacheMetrics zeroMetrics]) ∧
    abs (Gen.newLRUCache max [Gen.withCacheMetrics zeroMetrics]) = Lru.empty max.toNat ovh := by
  have h0 := newLRUCache_eq max []
  have h1 := newLRUCache_eq max [zeroMetrics]
  simp only [List.map_nil, List.map_cons] at h0 h1
  rw [h0, h1]
  refine ⟨base_inv _ _, ?_, base_inv _ _, ?_, ?_⟩
  · rw [abs_base]; rfl
  · exact ⟨rfl, rfl, rfl, rfl⟩
  · rw [abs_base]; rfl

theorem newLRUCache_inv (max : UInt64) (ms : List Gen.CacheMetrics) :
    Inv (Gen.newLRUCache max (ms.map Gen.withCacheMetrics)) := by
  rw [newLRUCache_eq]; exact base_inv _ _

/-! ### histories run through the generated functions -/

/-- an operation on the generated cache -/
inductive GOp where
  | get (k : UInt64)
  | put (k : UInt64) (bm : Ref)

/-- the model operation it stands for (`sz` is `GetSizeInBytes`) -/
def absOp (sz : Ref → UInt64) : GOp → LruOp
  | .get k => .get k.toNat
  | .put k bm => .put k.toNat bm (sz bm).toNat

/-- one call of the generated `Get` / `Put`; the output is the `Get` answer -/
def genStep (sz : Ref → UInt64) (s : Gen.LRUCache) : GOp → Gen.LRUCache × Option Nat
  | .get k => ((Gen.lruGet s k).1, absRes (Gen.lruGet s k).2)
  | .put k bm => (Gen.lruPut sz s k bm, none)

def genRun (sz : Ref → UInt64) (s : Gen.LRUCache) : List GOp → Gen.LRUCache × List (Option Nat)
  | [] => (s, [])
  | op :: ops => ((genRun sz (genStep sz s op).1 ops).1, (genStep sz s op).2 :: (genRun sz (genStep sz s op).1 ops).2)

/-- the `uint64` account cannot overflow while this operation runs on a cache that respects its bound -/
def Fits (sz : Ref → UInt64) (max : UInt64) : GOp → Prop
  | .get _ => True
  | .put _ bm => max.toNat + (sz bm).toNat + ovh < 2 ^ 64

theorem cur_le_of_bounded {s : Gen.LRUCache} (hI : Inv s) (hB : (abs s).Bounded) : s.curSize.toNat ≤ s.maxSize.toNat := by
  rcases hB with h | h
  · have := hI.acct
    simp only [abs] at h
    omega
  · have := hI.acct
    simp only [abs] at h
    rw [h] at this
    simp at this
    omega

/-- one generated step is one model step (invariant, counters set, bound, no overflow) -/
theorem genStep_abs (sz : Ref → UInt64) (s : Gen.LRUCache) (op : GOp) (hI : Inv s) (hA : AllSet s)
    (hB : (abs s).Bounded) (hF : Fits sz s.maxSize op) :
    abs (genStep sz s op).1 = ((abs s).step (absOp sz op)).1 ∧ (genStep sz s op).2 = ((abs s).step (absOp sz op)).2 ∧
    Inv (genStep sz s op).1 ∧ AllSet (genStep sz s op).1 ∧ (abs (genStep sz s op).1).Bounded ∧
    (genStep sz s op).1.maxSize = s.maxSize := by
  have hcur := cur_le_of_bounded hI hB
  cases op with
  | get k =>
    obtain ⟨h1, h2⟩ := lruGet_abs s k hI hA
    refine ⟨h1, h2, lruGet_inv s k hI, lruGet_allSet s k hA, ?_, (lruGet_metrics s k).2.1⟩
    show (abs (Gen.lruGet s k).1).Bounded
    rw [h1]
    exact step_bounded (abs s) (.get k.toNat) hI.model hB
  | put k bm =>
    have hno : s.curSize.toNat + (sz bm).toNat + ovh < 2 ^ 64 := by
      have : s.maxSize.toNat + (sz bm).toNat + ovh < 2 ^ 64 := hF
      omega
    have h1 := lruPut_abs sz s k bm hI hA hno
    refine ⟨h1, rfl, lruPut_inv sz s k bm hI hno, lruPut_allSet sz s k bm hA, ?_, (lruPut_metrics sz s k bm).2⟩
    show (abs (Gen.lruPut sz s k bm)).Bounded
    rw [h1]
    exact step_bounded (abs s) (.put k.toNat bm (sz bm).toNat) hI.model hB

/-- **every history run through the generated `Get`/`Put` is the same history run through the model** -/
theorem genRun_abs (sz : Ref → UInt64) (ops : List GOp) (s : Gen.LRUCache) (hI : Inv s) (hA : AllSet s)
    (hB : (abs s).Bounded) (hF : ∀ op ∈ ops, Fits sz s.maxSize op) :
    abs (genRun sz s ops).1 = ((abs s).run (ops.map (absOp sz))).1 ∧
    (genRun sz s ops).2 = ((abs s).run (ops.map (absOp sz))).2 ∧
    Inv (genRun sz s ops).1 ∧ AllSet (genRun sz s ops).1 ∧ (genRun sz s ops).1.maxSize = s.maxSize := by
  induction ops generalizing s with
  | nil => exact ⟨rfl, rfl, hI, hA, rfl⟩
  | cons op ops ih =>
    obtain ⟨h1, h2, h3, h4, h5, h6⟩ := genStep_abs sz s op hI hA hB (hF op List.mem_cons_self)
    obtain ⟨i1, i2, i3, i4, i5⟩ := ih (genStep sz s op).1 h3 h4 h5
      (fun o ho => by rw [h6]; exact hF o (List.mem_cons_of_mem _ ho))
    rw [List.map_cons, run_cons]
    simp only [genRun]
    rw [← h1, ← h2]
    exact ⟨i1, by rw [i2], i3, i4, i5.trans h6⟩

/-- the cache `NewLRUCache(max, WithCacheMetrics(m))` with four fresh counters -/
def newCache (max : UInt64) : Gen.LRUCache := Gen.newLRUCache max [Gen.withCacheMetrics zeroMetrics]

/-- the same, from the empty cache -/
theorem genRun_new (sz : Ref → UInt64) (max : UInt64) (ops : List GOp) (hF : ∀ op ∈ ops, Fits sz max op) :
    abs (genRun sz (newCache max) ops).1 = ((Lru.empty max.toNat ovh).run (ops.map (absOp sz))).1 ∧
    (genRun sz (newCache max) ops).2 = ((Lru.empty max.toNat ovh).run (ops.map (absOp sz))).2 ∧
    Inv (genRun sz (newCache max) ops).1 := by
  obtain ⟨_, _, hI, hA, habs⟩ := newLRUCache_abs max
  have hmax : (newCache max).maxSize = max := by
    have := newLRUCache_eq max [zeroMetrics]
    simp only [List.map_cons, List.map_nil] at this
    show (Gen.newLRUCache max [Gen.withCacheMetrics zeroMetrics]).maxSize = max
    rw [this]; rfl
  have hB : (abs (newCache max)).Bounded := by
    show (abs (Gen.newLRUCache max [Gen.withCacheMetrics zeroMetrics])).Bounded
    rw [habs]; exact Or.inr rfl
  obtain ⟨h1, h2, h3, _, _⟩ := genRun_abs sz ops (newCache max) hI hA hB (by rw [hmax]; exact hF)
  refine ⟨?_, ?_, h3⟩
  · rw [h1]; show ((abs (Gen.newLRUCache max [Gen.withCacheMetrics zeroMetrics])).run _).1 = _; rw [habs]
  · rw [h2]; show ((abs (Gen.newLRUCache max [Gen.withCacheMetrics zeroMetrics])).run _).2 = _; rw [habs]

/-! ### C07 transferred to the generated code -/

/-- **Byte bound** (C07 §3) for the generated code: after every history of generated `Get`s and `Put`s on a new
cache, `curSize` is the exact account of the resident entries (64 bytes of overhead each) and is within `maxSize`,
or the cache is empty; so the bitmap bytes held never exceed `maxSize`. -/
theorem gen_byte_bound (sz : Ref → UInt64) (max : UInt64) (ops : List GOp) (hF : ∀ op ∈ ops, Fits sz max op) :
    let c := (genRun sz (newCache max) ops).1
    c.curSize.toNat = total ovh (absItems c.lruList.elems) ∧
    (c.curSize ≤ max ∨ c.lruList.elems = []) ∧
    sizes (absItems c.lruList.elems) ≤ max.toNat := by
  intro c
  obtain ⟨h1, _, hI⟩ := genRun_new sz max ops hF
  obtain ⟨hb, hs⟩ := C07.byte_bound_reachable max.toNat ovh (ops.map (absOp sz))
  rw [← h1] at hb hs
  refine ⟨hI.acct, ?_, hs⟩
  rcases hb with hb | hb
  · left
    rw [UInt64.le_iff_toNat_le, hI.acct]; exact hb
  · right
    have : absItems c.lruList.elems = [] := hb
    cases hc : c.lruList.elems with
    | nil => rfl
    | cons a t => rw [hc] at this; simp [absItems] at this

/-- **Get after Put returns the bitmap when it fits** (C07 §7) for the generated code, in every state satisfying the
invariant (so in every reachable state), whatever counters are configured. -/
theorem gen_fits_then_retrievable (sz : Ref → UInt64) (s : Gen.LRUCache) (k : UInt64) (bm : Ref) (hI : Inv s)
    (hno : s.curSize.toNat + (sz bm).toNat + ovh < 2 ^ 64) (hfit : (sz bm).toNat + ovh ≤ s.maxSize.toNat) :
    (Gen.lruGet (Gen.lruPut sz s k bm) k).2 = (bm, true) := by
  have hput := (lruPut_abs_gen sz s k bm hI hno).1
  have hI' := lruPut_inv sz s k bm hI hno
  have hres := (lruGet_abs_gen (Gen.lruPut sz s k bm) k hI').2
  have hmodel := C07.fits_then_retrievable (abs s) k.toNat bm (sz bm).toNat hI.model hfit
  -- the answer of the model's `get` only depends on the items
  have hitems : (abs (Gen.lruPut sz s k bm)).items = ((abs s).put k.toNat bm (sz bm).toNat).items := by
    rw [hput]
  have : ((abs (Gen.lruPut sz s k bm)).get k.toNat).2 = some bm := by
    rw [get_some_iff] at hmodel ⊢
    rw [hitems]; exact hmodel
  rw [this] at hres
  unfold absRes at hres
  split at hres
  · rename_i hb
    have h1 : (Gen.lruGet (Gen.lruPut sz s k bm) k).2.1 = bm := by simpa using hres
    exact Prod.ext h1 hb
  · cases hres

/-- **Exact counters** (C07 §9) for the generated code with four fresh counters -/
theorem gen_counters_exact (sz : Ref → UInt64) (max : UInt64) (ops : List GOp) (hF : ∀ op ∈ ops, Fits sz max op) :
    let r := genRun sz (newCache max) ops
    r.1.metrics.GetCall = some (numGets (ops.map (absOp sz))) ∧
    r.1.metrics.PutCall = some (numPuts (ops.map (absOp sz))) ∧
    r.1.metrics.CacheHit = some (r.2.countP Option.isSome) ∧
    ctr r.1.metrics.CacheHit + ctr r.1.metrics.CacheMiss = ctr r.1.metrics.GetCall := by
  intro r
  obtain ⟨h1, h2, _⟩ := genRun_new sz max ops hF
  obtain ⟨_, _, hI, hA, _⟩ := newLRUCache_abs max
  have hB : (abs (newCache max)).Bounded := by
    show (abs (Gen.newLRUCache max [Gen.withCacheMetrics zeroMetrics])).Bounded
    rw [(newLRUCache_abs max).2.2.2.2]; exact Or.inr rfl
  have hmax : (newCache max).maxSize = max := by
    have := newLRUCache_eq max [zeroMetrics]
    simp only [List.map_cons, List.map_nil] at this
    show (Gen.newLRUCache max [Gen.withCacheMetrics zeroMetrics]).maxSize = max
    rw [this]; rfl
  have hAll := (genRun_abs sz ops (newCache max) hI hA hB (by rw [hmax]; exact hF)).2.2.2.1
  obtain ⟨c1, c2, _, c4, c5⟩ := C07.counters_exact max.toNat ovh (ops.map (absOp sz))
  rw [← h1] at c1 c2 c5
  rw [← h1, ← h2] at c4
  have key : ∀ (c : Counter) (n : Nat), c.isSome → ctr c = n → c = some n := by
    intro c n hc hn
    cases c with
    | none => cases hc
    | some m => exact congrArg some hn
  exact ⟨key _ _ hAll.1 c1, key _ _ hAll.2.1 c2, key _ _ hAll.2.2.1 c4, c5⟩

/-- **Get returns the last Put** (C07 §6) for the generated code: if, in a history on a new cache, the `Get k` at
position `pre.length` answers bitmap `b`, then the last `Put` of key `k` before it stored `b`. -/
theorem gen_get_returns_last_put (sz : Ref → UInt64) (max : UInt64) (pre post : List GOp) (k : UInt64) (b : Ref)
    (hF : ∀ op ∈ pre ++ [.get k] ++ post, Fits sz max op)
    (h : (genRun sz (newCache max) (pre ++ [.get k] ++ post)).2[pre.length]? = some (some b)) :
    lastPut (pre.map (absOp sz)) k.toNat = some b := by
  rw [(genRun_new sz max _ hF).2.1] at h
  simp only [List.map_append, List.map_cons, List.map_nil, absOp] at h
  have := C07.get_returns_last_put max.toNat ovh (pre.map (absOp sz)) (post.map (absOp sz)) k.toNat b
  rw [List.length_map] at this
  exact this h

/-! ### concrete evaluations of the generated definitions -/

section Examples

/-- bitmap `b` occupies `10 * b` bytes -/
private def szE : Ref → UInt64 := fun b => (b * 10).toUInt64

/-- a 250-byte cache; key 1 is overwritten (moves to the front, is re-accounted), the fourth `Put` evicts key 2 (the
least recently used one), `Get 1` hits with the last bitmap and moves key 1 to the front, `Get 2` misses -/
private def histE : List GOp := [.put 1 2, .put 2 3, .put 1 4, .put 3 5, .get 1, .get 2]

example : (genRun szE (newCache 250) histE).2 = [none, none, none, none, some 4, none] := by decide

example : (genRun szE (newCache 250) histE).1.lruList.elems.map (fun p => (p.1, p.2.key, p.2.size, p.2.bm)) =
    [(1, 1, 40, 4), (3, 3, 50, 5)] := by decide

example : (genRun szE (newCache 250) histE).1.curSize = 218 ∧
    (genRun szE (newCache 250) histE).1.entries.kvs = [(3, 3), (1, 1)] := by decide

example : let m := (genRun szE (newCache 250) histE).1.metrics
    (m.GetCall, m.PutCall, m.CacheHit, m.CacheMiss) = (some 2, some 4, some 1, some 1) := by decide

/-- the hypotheses of the transfer theorems hold for this history -/
example : ∀ op ∈ histE, Fits szE 250 op := by
  intro op hop
  simp only [histE, List.mem_cons, List.not_mem_nil, or_false] at hop
  rcases hop with rfl | rfl | rfl | rfl | rfl | rfl <;> simp [Fits, szE, ovh_eq]

/-- an entry larger than the whole cache empties it (and is not kept) -/
example : (Gen.lruPut szE (genRun szE (newCache 250) histE).1 9 30).lruList.elems = [] ∧
    (Gen.lruPut szE (genRun szE (newCache 250) histE).1 9 30).curSize = 0 ∧
    (Gen.lruPut szE (genRun szE (newCache 250) histE).1 9 30).entries.kvs = [] := by decide

/-- without the metrics option nothing is counted, and the cache works all the same -/
example : let c := (Gen.lruGet (Gen.lruPut szE (Gen.newLRUCache 250 []) 7 3) 7)
    c.2 = (3, true) ∧ c.1.metrics.GetCall = none ∧ c.1.metrics.CacheHit = none ∧ c.1.curSize = 94 := by decide

example : Gen.nullCacheGet 5 = (0, false) ∧ Gen.nullCachePut 5 1 = () := by decide

example : Gen.lruCacheItemSize = 24 ∧ Gen.listElementSize = 40 ∧ ovh = 64 := by decide

end Examples

end Updog.GeneratedEq
