/-
cmd/updog/create.go, regenerated (`Gen.normalizeHeader`, `Gen.recordRow`) = the hand-written model
(`normalizeHeader`, `recordRow` of `Updog/Model/Create.lean`).
-/
import Updog.GeneratedFns
import Updog.Proofs.GoPreludeT5
import Updog.Props.Gen.Header
import Updog.Model.Create

set_option linter.unusedSimpArgs false
namespace Updog.GeneratedEq
open Updog.Go

/-! ### the record → row construction -/

theorem indexL_nat {α : Type} [Inhabited α] (xs : List α) (i : Nat) (h : i < xs.length) : indexL xs (i : Int) = xs[i] := by
  have : ¬ ((i : Int) < 0) := by omega
  simp [indexL, this, List.getD, List.getElem?_eq_getElem h]

theorem recordRow_loop (header record : List Bytes) (i : Nat) (m : Map Bytes) (h : i + record.length ≤ header.length) :
    List.foldl (fun (values : Map Bytes) (p : Int × Bytes) => Map.set values (indexL header p.1) p.2) m (enumFrom (i : Int) record)
      = ((header.drop i).zip record).foldl (fun row kv => (row.filter (·.1 != kv.1)) ++ [kv]) m := by
  induction record generalizing i m with
  | nil => simp [enumFrom]
  | cons v vs ih =>
    have hi : i < header.length := by simp at h; omega
    rw [List.drop_eq_getElem_cons hi]
    simp only [enumFrom, List.foldl_cons, List.zip_cons_cons, indexL_nat header i hi]
    rw [show ((i : Int) + 1) = ((i + 1 : Nat) : Int) by simp]
    rw [ih (i + 1) _ (by simp at h ⊢; omega)]
    rfl

/-- regenerated record → row construction = the model's `recordRow`: field `i` of the record is stored under header
    `i` (later duplicates of a column name overwrite earlier ones), for every record that is not longer than the
    header (`encoding/csv` rejects records of another length than the header before this code runs; a longer record
    would make `header[idx]` panic) -/
theorem recordRow_eq (header record : List Bytes) (h : record.length ≤ header.length) :
    Gen.recordRow header record = Updog.recordRow header record := by
  have := recordRow_loop header record 0 [] (by omega)
  simpa [Gen.recordRow, Updog.recordRow, enum, Map.empty] using this

/-! ### UTF-8: decoding an encoded rune -/

theorem toUInt8_toNat (n : Nat) (h : n < 256) : n.toUInt8.toNat = n := by
  simp [Nat.toUInt8, UInt8.toNat_ofNat', Nat.mod_eq_of_lt h]

/-- what a code point reads back as after `encodeRune`: itself if it is a Unicode scalar value, else U+FFFD -/
def canonRune (r : Nat) : Nat := if 0x10FFFF < r ∨ (0xD800 ≤ r ∧ r ≤ 0xDFFF) then 0xFFFD else r

theorem decode_encode (x : Nat) (t : Bytes) :
    decodeRune (encodeRune x ++ t) = (canonRune x, (encodeRune x).length) := by
  unfold encodeRune canonRune
  by_cases h1 : x < 0x80
  · have : ¬ (0x10FFFF < x ∨ (0xD800 ≤ x ∧ x ≤ 0xDFFF)) := by omega
    simp [h1, this, decodeRune, toUInt8_toNat x (by omega)]
  · by_cases h2 : x < 0x800
    · have hv : ¬ (0x10FFFF < x ∨ (0xD800 ≤ x ∧ x ≤ 0xDFFF)) := by omega
      have a0 := toUInt8_toNat (0xC0 + x / 64) (by omega)
      have a1 := toUInt8_toNat (0x80 + x % 64) (by omega)
      simp only [h1, h2, hv, ite_false, ite_true, List.cons_append, List.nil_append, decodeRune, a0, a1, List.length_cons, List.length_nil]
      have c1 : ¬ (0xC0 + x / 64 < 0x80) := by omega
      have c2 : ¬ (0xC0 + x / 64 < 0xC2) := by omega
      have c3 : 0xC0 + x / 64 < 0xE0 := by omega
      have c4 : 0x80 ≤ 0x80 + x % 64 ∧ 0x80 + x % 64 ≤ 0xBF := by omega
      simp only [c1, c2, c3, c4, ite_false, ite_true, and_self]
      rw [Prod.mk.injEq]; constructor <;> omega
    · by_cases h3 : 0x10FFFF < x ∨ (0xD800 ≤ x ∧ x ≤ 0xDFFF)
      · simp [h1, h2, h3, decodeRune]
      · by_cases h4 : x < 0x10000
        · have a0 := toUInt8_toNat (0xE0 + x / 4096) (by omega)
          have a1 := toUInt8_toNat (0x80 + x / 64 % 64) (by omega)
          have a2 := toUInt8_toNat (0x80 + x % 64) (by omega)
          simp only [h1, h2, h3, h4, ite_false, ite_true, List.cons_append, List.nil_append, decodeRune, a0, a1, a2, List.length_cons, List.length_nil]
          have c1 : ¬ (0xE0 + x / 4096 < 0x80) := by omega
          have c2 : ¬ (0xE0 + x / 4096 < 0xC2) := by omega
          have c3 : ¬ (0xE0 + x / 4096 < 0xE0) := by omega
          have c4 : 0xE0 + x / 4096 < 0xF0 := by omega
          simp only [c1, c2, c3, c4, ite_false, ite_true]
          have c5 : (if 0xE0 + x / 4096 = 0xE0 then 0xA0 else 0x80) ≤ 0x80 + x / 64 % 64 := by split <;> omega
          have c6 : 0x80 + x / 64 % 64 ≤ (if 0xE0 + x / 4096 = 0xED then 0x9F else 0xBF) := by split <;> omega
          have c7 : 0x80 ≤ 0x80 + x % 64 ∧ 0x80 + x % 64 ≤ 0xBF := by omega
          simp only [c5, c6, c7, and_self, ite_true]
          rw [Prod.mk.injEq]; constructor <;> omega
        · have h5 : x ≤ 0x10FFFF := by omega
          have a0 := toUInt8_toNat (0xF0 + x / 262144) (by omega)
          have a1 := toUInt8_toNat (0x80 + x / 4096 % 64) (by omega)
          have a2 := toUInt8_toNat (0x80 + x / 64 % 64) (by omega)
          have a3 := toUInt8_toNat (0x80 + x % 64) (by omega)
          simp only [h1, h2, h3, h4, ite_false, List.cons_append, List.nil_append, decodeRune, a0, a1, a2, a3, List.length_cons, List.length_nil]
          have c1 : ¬ (0xF0 + x / 262144 < 0x80) := by omega
          have c2 : ¬ (0xF0 + x / 262144 < 0xC2) := by omega
          have c3 : ¬ (0xF0 + x / 262144 < 0xE0) := by omega
          have c4 : ¬ (0xF0 + x / 262144 < 0xF0) := by omega
          have c4' : 0xF0 + x / 262144 < 0xF5 := by omega
          simp only [c1, c2, c3, c4, c4', ite_false, ite_true]
          have c5 : (if 0xF0 + x / 262144 = 0xF0 then 0x90 else 0x80) ≤ 0x80 + x / 4096 % 64 := by split <;> omega
          have c6 : 0x80 + x / 4096 % 64 ≤ (if 0xF0 + x / 262144 = 0xF4 then 0x8F else 0xBF) := by split <;> omega
          have c7 : 0x80 ≤ 0x80 + x / 64 % 64 ∧ 0x80 + x / 64 % 64 ≤ 0xBF := by omega
          have c8 : 0x80 ≤ 0x80 + x % 64 ∧ 0x80 + x % 64 ≤ 0xBF := by omega
          simp only [c5, c6, c7, c8, and_self, ite_true]
          rw [Prod.mk.injEq]; constructor <;> omega

theorem encodeRune_ne_nil (x : Nat) : encodeRune x ≠ [] := by
  unfold encodeRune; split <;> (try split) <;> (try split) <;> (try split) <;> simp

/-! ### strings.Map, unfolded -/

theorem decodeRune_width_pos (b : UInt8) (rest : Bytes) : 1 ≤ (decodeRune (b :: rest)).2 := by
  unfold decodeRune
  simp only
  repeat' split
  all_goals simp

theorem stringsMapAux_fuel (f : Nat → Nat) (n m : Nat) (s : Bytes) (hn : s.length ≤ n) (hm : s.length ≤ m) :
    stringsMapAux f n s = stringsMapAux f m s := by
  induction n generalizing m s with
  | zero =>
    have : s = [] := List.eq_nil_of_length_eq_zero (by omega)
    subst this; cases m <;> simp [stringsMapAux]
  | succ n ih =>
    cases s with
    | nil => cases m <;> simp [stringsMapAux]
    | cons b rest =>
      cases m with
      | zero => simp at hm
      | succ m =>
        simp only [stringsMapAux]
        have hw := decodeRune_width_pos b rest
        have hl : (List.drop (decodeRune (b :: rest)).2 (b :: rest)).length ≤ rest.length := by
          simp only [List.length_drop, List.length_cons]; omega
        rw [ih m _ (by simp at hn; omega) (by simp at hm; omega)]

theorem stringsMap_nil (f : Nat → Nat) : stringsMap f [] = [] := by simp [stringsMap, stringsMapAux]

theorem stringsMap_cons (f : Nat → Nat) (b : UInt8) (rest : Bytes) :
    stringsMap f (b :: rest) =
      encodeRune (f (decodeRune (b :: rest)).1) ++ stringsMap f ((b :: rest).drop (decodeRune (b :: rest)).2) := by
  simp only [stringsMap, List.length_cons, stringsMapAux]
  have hw := decodeRune_width_pos b rest
  rw [stringsMapAux_fuel f rest.length _ _ (by simp only [List.length_drop, List.length_cons]; omega) (Nat.le_refl _)]

/-- mapping a string that starts with an encoded rune -/
theorem stringsMap_encode (g : Nat → Nat) (x : Nat) (t : Bytes) :
    stringsMap g (encodeRune x ++ t) = encodeRune (g (canonRune x)) ++ stringsMap g t := by
  cases he : encodeRune x with
  | nil => exact absurd he (encodeRune_ne_nil x)
  | cons b rest =>
    have hd := decode_encode x t
    rw [he] at hd
    simp only [List.cons_append] at hd ⊢
    rw [stringsMap_cons, hd]
    simp only [List.length_cons]
    congr 1
    rw [← List.cons_append, List.drop_append]
    simp

theorem normalizeAux_fuel (n m : Nat) (s : Bytes) (hn : s.length ≤ n) (hm : s.length ≤ m) :
    normalizeAux n s = normalizeAux m s := by
  induction n generalizing m s with
  | zero =>
    have : s = [] := List.eq_nil_of_length_eq_zero (by omega)
    subst this; cases m <;> simp [normalizeAux]
  | succ n ih =>
    cases s with
    | nil => cases m <;> simp [normalizeAux]
    | cons b rest =>
      cases m with
      | zero => simp at hm
      | succ m =>
        simp only [normalizeAux]
        have hw := decodeRune_width_pos b rest
        rw [ih m _ (by simp only [List.length_drop, List.length_cons]; simp at hn; omega)
          (by simp only [List.length_drop, List.length_cons]; simp at hm; omega)]

theorem normalizeHeader_cons (b : UInt8) (rest : Bytes) :
    Updog.normalizeHeader (b :: rest) =
      normRune (decodeRune (b :: rest)).1 :: Updog.normalizeHeader ((b :: rest).drop (decodeRune (b :: rest)).2) := by
  simp only [Updog.normalizeHeader, List.length_cons, normalizeAux]
  have hw := decodeRune_width_pos b rest
  rw [normalizeAux_fuel rest.length _ _ (by simp only [List.length_drop, List.length_cons]; omega) (Nat.le_refl _)]

/-! ### normalizeHeader -/

/-- the function literal handed to `strings.Map`, as regenerated inside `Gen.normalizeHeader`, is `Gen.headerRune` -/
theorem headerRune_canon (y : Nat) : Gen.headerRune (canonRune y) = Gen.headerRune y := by
  rw [headerRune_eq, headerRune_eq]
  unfold canonRune
  split
  · rename_i h
    have : ¬ (97 ≤ y ∧ y ≤ 122) := by omega
    simp [this]
  · rfl

theorem encode_headerRune (y : Nat) : encodeRune (Gen.headerRune y) = [(Gen.headerRune y).toUInt8] := by
  rw [headerRune_eq]
  unfold encodeRune
  split <;> simp <;> omega

/-- one header field: lower-casing then the rune map = the model's `normalizeHeader` -/
theorem normalizeField_eq (toLower : Nat → Nat) (hs : LowerSpec toLower) (s : Bytes) :
    stringsMap Gen.headerRune (stringsToLower toLower s) = Updog.normalizeHeader s := by
  unfold stringsToLower
  generalize hn : s.length = n
  induction n using Nat.strongRecOn generalizing s with
  | _ n ih =>
    cases s with
    | nil => simp [stringsMap_nil, Updog.normalizeHeader, normalizeAux]
    | cons b rest =>
      rw [stringsMap_cons, stringsMap_encode, normalizeHeader_cons, headerRune_canon, encode_headerRune,
        ← normRune_eq toLower hs]
      have hw := decodeRune_width_pos b rest
      have hl : (List.drop (decodeRune (b :: rest)).2 (b :: rest)).length < n := by
        simp only [List.length_drop, List.length_cons] at hn ⊢; omega
      rw [ih _ hl _ rfl]
      rfl

/-- regenerated `normalizeHeader` = the model's `normalizeHeader` on every field, in order, for every `toLower`
    meeting `LowerSpec` (which contains the explicit hypothesis about Go's Unicode tables, see Props/Gen/Header.lean) -/
theorem normalizeHeader_eq (toLower : Nat → Nat) (hs : LowerSpec toLower) (header : List Bytes) :
    Gen.normalizeHeader toLower header = header.map Updog.normalizeHeader := by
  have hl : (fun (r : Nat) => if (r == (32 : Nat)) = true then (95 : Nat)
      else if (decide (r ≥ (97 : Nat)) && decide (r ≤ (122 : Nat))) = true then r else (95 : Nat)) = Gen.headerRune := by
    funext r; rfl
  simp only [Gen.normalizeHeader, makeL, hl]
  rw [foldl_append_map (fun hdr => stringsMap Gen.headerRune (stringsToLower toLower hdr))]
  simp [normalizeField_eq toLower hs]

/-- header normalisation followed by the row construction = the model's `createRows` on one record -/
theorem createRow_eq (toLower : Nat → Nat) (hs : LowerSpec toLower) (header record : List Bytes)
    (h : record.length ≤ header.length) :
    Gen.recordRow (Gen.normalizeHeader toLower header) record = Updog.recordRow (header.map Updog.normalizeHeader) record := by
  rw [normalizeHeader_eq toLower hs, recordRow_eq _ _ (by simpa using h)]

/-! ### examples -/

example : Gen.normalizeHeader lowerASCIIorSpecial [[70, 111, 111, 32, 66], [195, 132, 120], [226, 132, 170, 255]] =
    [[102, 111, 111, 95, 98], [95, 120], [107, 95]] := by decide
example : Gen.recordRow [[97], [98], [97]] [[49], [50], [51]] = [([98], [50]), ([97], [51])] := by decide

end Updog.GeneratedEq
