/-
driver/driver.go, the gRPC data source, regenerated (`Gen.driverOpen`, `Gen.openConn`, `Gen.grpcConnPrepare`,
`Gen.grpcConnPrepareStmt`, `Gen.grpcConnClose`, `Gen.grpcStmtNumInput`, `Gen.grpcStmtQuery`):

* `grpcStmtQuery_eq`: the statement = the model's `bind`, then exactly ONE `Query` RPC with `context.Background()`
  carrying the bound query, then `newRows (ToResult firstResult)`; too few arguments ⇒ the error is returned and the
  network is untouched (no RPC);
* `grpc_eq_file`: if the peer answers with the regenerated handler `Gen.serverQuery exec`, the statement returns EXACTLY
  what the file statement `Gen.stmtQuery exec` returns (rows and errors) — for every executor `exec`;
* `gen_grpc_rows_eq_file` / `gen_grpc_stmtQuery_eq`: composed with `GenCompose.gen_stmtQuery_eq` /
  `gen_serverQuery_eq`'s executor (the generated `Execute` on the index the generated open returned): the rows of the
  grpc:// data source are the rows of the file data source, which are the model's `newRows` of the model library's
  answer — the last sentence of property C13.
-/
import Updog.GeneratedFns
import Updog.Proofs.GoPreludeT5
import Updog.Props.Gen.Walk
import Updog.Props.Gen.Convert
import Updog.Props.Gen.ServerLoop
import Updog.Props.Gen.ParseQuery
import Updog.Props.Gen.Compose

set_option linter.unusedSimpArgs false
set_option linter.unusedVariables false
namespace Updog.GeneratedEq
open Updog.Go

/-! ### conversion round trip: what the server packs, the client unpacks -/

theorem foldl_append_singleton_map {α β : Type} (f : α → β) (xs : List α) (acc : List β) :
    List.foldl (fun (a : List β) (x : α) => a ++ [f x]) acc xs = acc ++ xs.map f := by
  induction xs generalizing acc with
  | nil => simp
  | cons x xs ih => simp [ih]

/-- `ToResult (ToProtobufResult r qid) = r`: the conversion to protobuf and back loses nothing (counts are `uint64` on
    both sides), whatever the query id -/
theorem ToResult_ToProtobufResult (r : Lib.Result) (qid : Int) : Gen.ToResult (Gen.ToProtobufResult r qid) = r := by
  have h1 := ToProtobufResult_spec r qid
  have h2 := ToResult_spec (Gen.ToProtobufResult r qid)
  rw [h2, h1]
  obtain ⟨cnt, gs⟩ := r
  simp only [Lib.Result.mk.injEq, true_and, List.map_map]
  conv => rhs; rw [← List.map_id gs]
  apply List.map_congr_left
  intro g _
  obtain ⟨fs, c⟩ := g
  simp only [Function.comp, id, Lib.ResultGroup.mk.injEq, and_true, List.map_map]
  conv => rhs; rw [← List.map_id fs]
  apply List.map_congr_left
  intro f _
  rfl

/-! ### grpcStmt.query -/

def errOneResult : Err5 :=
  .errorf [101, 120, 112, 101, 99, 116, 101, 100, 32, 49, 32, 114, 101, 115, 117, 108, 116, 44, 32, 103, 111, 116, 32, 37, 100]
  -- "expected 1 result, got %d"

/-- regenerated `(*grpcStmt).query`: exactly when the model's `bind` fails (fewer values than the highest placeholder
    number) the error "expected %d arguments, got %d" is returned and the network is as before; otherwise ONE call
    `Go.Grpc.query` on the statement's connection with `context.Background()` and a request whose only member is the
    bound query of the model; its error is passed on, a response without exactly one result is an error, and the first
    result becomes `newRows (ToResult ·)` over the bound query's group-by list -/
theorem grpcStmtQuery_eq (net : Grpc.Net) (stmt : Drv.grpcStmt) (values : List Bytes) :
    Gen.grpcStmtQuery net stmt values =
      match bind stmt.q values with
      | .ok q' =>
        ((match (Grpc.query net stmt.c.client .Background ⟨[q']⟩).2 with
          | .error err => .error err
          | .ok resp =>
            if resp.Results.length = 1 then .ok (Gen.newRows (Gen.ToResult (indexL resp.Results 0)) q'.groupBy)
            else .error errOneResult),
         (Grpc.query net stmt.c.client .Background ⟨[q']⟩).1)
      | _ => (.error errTooFew, net) := by
  simp only [Gen.grpcStmtQuery, numInput_eq, Go.len, ReplacePlaceholders_eq, bind, Parsed.Query.GroupBy]
  by_cases h : maxPh stmt.q.expr > values.length
  · have : ((values.length : Int) < (maxPh stmt.q.expr : Nat)) := by omega
    simp [h, this, errTooFew]
  · have : ¬ ((values.length : Int) < (maxPh stmt.q.expr : Nat)) := by omega
    simp only [h, this, decide_false, Bool.false_eq_true, ite_false]
    cases hq : (Grpc.query net stmt.c.client .Background ⟨[⟨subst values stmt.q.expr, stmt.q.groupBy⟩]⟩).2 with
    | error err => rfl
    | ok resp =>
      by_cases hl : resp.Results.length = 1
      · simp [hl, Pb.QueryResponse.Results]
      · have : ¬ ((resp.Results.length : Int) = 1) := by omega
        simp [hl, this, Pb.QueryResponse.Results, errOneResult]

/-- **too few arguments ⇒ error before any RPC**: the network (its list of calls in particular) is unchanged -/
theorem grpcStmtQuery_too_few (net : Grpc.Net) (stmt : Drv.grpcStmt) (values : List Bytes)
    (h : maxPh stmt.q.expr > values.length) :
    Gen.grpcStmtQuery net stmt values = (.error errTooFew, net) := by
  rw [grpcStmtQuery_eq]; simp [bind, h]

/-- **otherwise exactly one RPC**, on the statement's connection, with `context.Background()`, carrying exactly the
    bound query (`subst`), whatever the peer answers -/
theorem grpcStmtQuery_one_rpc (net : Grpc.Net) (stmt : Drv.grpcStmt) (values : List Bytes)
    (h : maxPh stmt.q.expr ≤ values.length) :
    (Gen.grpcStmtQuery net stmt values).2 =
      { net with calls := net.calls ++ [⟨stmt.c.client.conn, .Background, ⟨[⟨subst values stmt.q.expr, stmt.q.groupBy⟩]⟩⟩] } := by
  have h' : ¬ (maxPh stmt.q.expr > values.length) := by omega
  rw [grpcStmtQuery_eq]; simp [bind, h', Grpc.query]

/-- … and the rows are `newRows (ToResult firstResult)` of the peer's answer -/
theorem grpcStmtQuery_rows (net : Grpc.Net) (stmt : Drv.grpcStmt) (values : List Bytes)
    (h : maxPh stmt.q.expr ≤ values.length) (first : Pb.Result)
    (hans : net.peer stmt.c.client.conn.target .Background ⟨[Parsed.Query.toWire ⟨subst values stmt.q.expr, stmt.q.groupBy⟩]⟩ = .ok ⟨[first]⟩) :
    (Gen.grpcStmtQuery net stmt values).1 = .ok (Gen.newRows (Gen.ToResult first) stmt.q.groupBy) := by
  have h' : ¬ (maxPh stmt.q.expr > values.length) := by omega
  rw [grpcStmtQuery_eq]
  simp [bind, h', Grpc.query, Parsed.QueryRequest.toWire, hans, indexL]

/-! ### the peer is the regenerated server -/

/-- what `Gen.serverQuery` answers to a request with ONE parsed query (id 0, so the result is tagged 1) -/
theorem serverQuery_single (exec : Lib.Query → Except Err5 Lib.Result) (q : PQuery) :
    Gen.serverQuery exec ⟨[Parsed.Query.toWire q]⟩ =
      match exec (Gen.ToQuery (Parsed.Query.toWire q)) with
      | .error err => .error err
      | .ok r => .ok ⟨[Gen.ToProtobufResult r 1]⟩ := by
  rw [serverQuery_unfold]
  simp only [enum, enumFrom, forRange_cons, forRange_nil, loopBody]
  cases exec (Gen.ToQuery (Parsed.Query.toWire q)) with
  | error err => rfl
  | ok r => simp [Parsed.Query.toWire, Wire.Query.Id, toInt32]

/-- **gRPC statement = file statement.** If the peer of the statement's connection answers a `Query` RPC (made with
    `context.Background()`) with the regenerated handler `Gen.serverQuery` over an executor `exec`, then
    `Gen.grpcStmtQuery` returns exactly what the file statement `Gen.stmtQuery` returns over the same executor: the
    same rows, the same error for too few arguments, the executor's error passed through — for every `exec`, query
    and argument list. (The transport of request and response is trusted to be lossless.) -/
theorem grpc_eq_file (exec : Lib.Query → Except Err5 Lib.Result) (net : Grpc.Net) (c : Drv.grpcConn) (pq : PQuery)
    (values : List Bytes)
    (hpeer : ∀ req, net.peer c.client.conn.target .Background req = Gen.serverQuery exec req) :
    (Gen.grpcStmtQuery net ⟨c, pq⟩ values).1 = Gen.stmtQuery exec ⟨pq⟩ values := by
  rw [grpcStmtQuery_eq, stmtQuery_eq]
  cases hb : bind pq values with
  | ok q' =>
    simp only [Grpc.query, Parsed.QueryRequest.toWire, List.map_cons, List.map_nil, hpeer, serverQuery_single]
    cases exec (Gen.ToQuery (Parsed.Query.toWire q')) with
    | error err => rfl
    | ok r => simp [indexL, ToResult_ToProtobufResult]
  | error => rfl
  | panic => rfl
  | hang => rfl

/-! ### the rest of the gRPC connection -/

/-- `NumInput` of a gRPC statement = the highest placeholder number, as for the file statement -/
theorem grpcStmtNumInput_eq (stmt : Drv.grpcStmt) : Gen.grpcStmtNumInput stmt = (maxPh stmt.q.expr : Nat) := by
  simp [Gen.grpcStmtNumInput, numInput_eq]

def errParse : Err5 :=
  .errorf [112, 97, 114, 115, 105, 110, 103, 32, 113, 117, 101, 114, 121, 32, 102, 97, 105, 108, 101, 100, 58, 32, 37, 118]
  -- "parsing query failed: %v"

/-- `prepare`: with enough fuel for the generated parser, a statement holding exactly the model's parse of the text
    and this connection — or the error "parsing query failed" when the model's parser rejects the text -/
theorem grpcConnPrepare_eq (fuel : Nat) (c : Drv.grpcConn) (text : Bytes) (hfuel : 3 * text.length + 5 ≤ fuel) :
    Gen.grpcConnPrepare fuel c text =
      match parseQuery text with
      | some pq => .ok ⟨c, pq⟩
      | none => .error errParse := by
  have h := ParseQuery_toOption text fuel hfuel
  simp only [Gen.grpcConnPrepare, T8.callRes]
  cases hp : Gen.ParseQuery fuel text with
  | ok pq => rw [hp] at h; simp [← h, Except.toOption]
  | error e => rw [hp] at h; simp [← h, Except.toOption, errParse]

/-- `Prepare` is `prepare` -/
theorem grpcConnPrepareStmt_eq (fuel : Nat) (c : Drv.grpcConn) (text : Bytes) :
    Gen.grpcConnPrepareStmt fuel c text = Gen.grpcConnPrepare fuel c text := rfl

/-- `Close` closes the channel of this connection, once, and returns its error -/
theorem grpcConnClose_eq (net : Grpc.Net) (c : Drv.grpcConn) :
    Gen.grpcConnClose net c = ((Grpc.connClose net c.conn).2, (Grpc.connClose net c.conn).1) := rfl

/-- `openConn`: ONE dial of `host:port` with insecure transport credentials; the connection's client is the client of
    the dialled channel -/
theorem openConn_eq (net : Grpc.Net) (host port : Bytes) :
    Gen.openConn net host port =
      let r := Grpc.newClient net (host ++ [58] ++ port) [.WithTransportCredentials .insecure]
      ((match r.2 with
        | .error _ => .error (.errorf [102, 97, 105, 108, 101, 100, 32, 116, 111, 32, 100, 105, 97, 108, 58, 32, 37, 119])
        | .ok conn => .ok ⟨conn, ⟨conn⟩⟩), r.1) := by
  simp only [Gen.openConn]
  cases (Grpc.newClient net (host ++ [58] ++ port) [.WithTransportCredentials .insecure]).2 <;> rfl

/-- the scheme dispatch of `Open`: `file:` ↦ `openFile` on the opaque part (or the path when that is empty) and the
    query values, `grpc:` ↦ `openConn` on host and port, anything else (and an unparsable name) is an error and opens
    nothing -/
theorem driverOpen_eq (parseURL : Bytes → Except Err5 Url.URL) (openFile : Bytes → Url.Values → Except Err5 Drv.Conn)
    (openConn : Bytes → Bytes → Except Err5 Drv.Conn) (name : Bytes) :
    Gen.driverOpen parseURL openFile openConn name =
      match parseURL name with
      | .error _ => .error (.errorf [99, 111, 117, 108, 100, 110, 39, 116, 32, 112, 97, 114, 115, 101, 32, 99, 111, 110, 110, 101, 99, 116, 105, 111, 110, 32, 115, 116, 114, 105, 110, 103, 58, 32, 37, 118])
      | .ok u =>
        if u.Scheme = [102, 105, 108, 101] then openFile (if u.Opaque = [] then u.Path else u.Opaque) u.query
        else if u.Scheme = [103, 114, 112, 99] then openConn u.host u.port
        else .error (.errorf [117, 110, 115, 117, 112, 112, 111, 114, 116, 101, 100, 32, 99, 111, 110, 110, 101, 99, 116, 105, 111, 110, 32, 116, 121, 112, 101, 32, 37, 113]) := by
  simp only [Gen.driverOpen]
  cases parseURL name with
  | error e => rfl
  | ok u =>
    simp only [Url.URL.Hostname, Url.URL.Port, Url.URL.Query, beq_iff_eq]

/-! ### composition with the generated library, server and file statement (C13, last sentence) -/

open Updog.GenCompose Updog.Go.T3 in
/-- **the grpc:// data source returns the rows of the file data source, every component regenerated.** The statement
    text is parsed by the generated parser; the gRPC statement sends its one RPC to a peer that answers with the
    regenerated handler `Gen.serverQuery` over the generated `Execute` on the index the generated open returned (cache
    state `st`); the file statement `Gen.stmtQuery` runs over the same `Execute`. Both return the same thing. -/
theorem gen_grpc_rows_eq_file (H : Bytes → UInt64) {σ : Type} (C : CacheImpl σ) (X : Ext) (bolt : Bolt) (hp : Heap)
    (i : Nat) (s : SchemaVal) (next : UInt32) (vals : ColGetter) (st : σ)
    (net : Grpc.Net) (c : Drv.grpcConn) (pq : PQuery) (values : List Bytes)
    (hpeer : ∀ req, net.peer c.client.conn.target .Background req
      = Gen.serverQuery (genLibExecute H C X bolt hp (openedIndex i s next vals) st) req) :
    (Gen.grpcStmtQuery net ⟨c, pq⟩ values).1
      = Gen.stmtQuery (genLibExecute H C X bolt hp (openedIndex i s next vals) st) ⟨pq⟩ values :=
  grpc_eq_file _ net c pq values hpeer

open Updog.GenCompose Updog.Go.T3 in
/-- … and therefore (with `GenCompose.gen_stmtQuery_eq`) they are the model's `newRows` of the model library's answer
    to the bound query on the file's index: an error when too few arguments are bound or the library fails -/
theorem gen_grpc_stmtQuery_eq (H : Bytes → UInt64) {σ : Type} (C : CacheImpl σ) (X : Ext) (bolt : Bolt) (hp : Heap)
    (i : Nat) (d : BucketData) (s : SchemaVal) (next : UInt32) (vals : ColGetter)
    (hg : GetColRefines (genGetCol X bolt hp vals) (fileIndex X d s next)) (st : σ)
    (text : Bytes) (fuel : Nat) (hfuel : 3 * text.length + 5 ≤ fuel) (c : Drv.grpcConn) (stmt : Drv.grpcStmt)
    (hprep : Gen.grpcConnPrepareStmt fuel c text = .ok stmt) (values : List Bytes)
    (net : Grpc.Net)
    (hpeer : ∀ req, net.peer c.client.conn.target .Background req
      = Gen.serverQuery (genLibExecute H C X bolt hp (openedIndex i s next vals) st) req)
    (htr : ∀ q', bind stmt.q values = .ok q' →
      (executeC H C (fileIndex X d s next) st (toQuery q')).2 = execute H (fileIndex X d s next) (toQuery q'))
    (hcard : ∀ q', bind stmt.q values = .ok q' →
      ∀ bm, (evalC H C (fileIndex X d s next) st (toExpr q'.expr)).2 = some bm → popcount bm < 2 ^ 64) :
    parseQuery text = some stmt.q ∧ stmt.c = c ∧
    (toOutcome (Gen.grpcStmtQuery net stmt values).1).map rowsView =
      match bind stmt.q values with
      | .ok q' =>
        (match execute H (fileIndex X d s next) (toQuery q') with
          | some res => .ok ((Updog.newRows res q'.groupBy).cols, (Updog.newRows res q'.groupBy).rows)
          | none => .error)
      | _ => .error := by
  rw [grpcConnPrepareStmt_eq, grpcConnPrepare_eq fuel c text hfuel] at hprep
  cases hp' : parseQuery text with
  | none => rw [hp'] at hprep; simp at hprep
  | some pq =>
    rw [hp'] at hprep
    simp only [Except.ok.injEq] at hprep
    subst hprep
    have hparse : Gen.ParseQuery fuel text = .ok pq := by
      have := ParseQuery_toOption text fuel hfuel
      rw [hp'] at this
      cases hx : Gen.ParseQuery fuel text with
      | ok a => rw [hx] at this; simp [Except.toOption] at this; rw [this]
      | error e => rw [hx] at this; simp [Except.toOption] at this
    refine ⟨rfl, rfl, ?_⟩
    rw [gen_grpc_rows_eq_file H C X bolt hp i s next vals st net c pq values hpeer]
    exact (gen_stmtQuery_eq H C X bolt hp i d s next vals hg st text fuel hfuel pq hparse values htr hcard).2

/-! ### examples -/

/-- a network whose peer answers every request with one result per query: total count = number of group-by columns -/
def demoNet : Grpc.Net :=
  { dialFails := fun t => t == [58], peer := fun _ _ req => .ok ⟨req.Queries.map fun q => ⟨q.id, q.groupBy.length.toUInt64, []⟩⟩,
    dials := [], calls := [], closed := [] }

example : (Gen.openConn demoNet [104] [57]).1.toOption = some ⟨⟨[104, 58, 57], 0⟩, ⟨⟨[104, 58, 57], 0⟩⟩⟩ ∧
    ((Gen.openConn demoNet [] []).1.toOption.isSome = false) ∧ (Gen.openConn demoNet [] []).2.dials.length = 1 := by decide

/-- `a=$2` with one argument: error, no call; with two arguments: one call carrying `a="y"`, one row holding the count -/
example :
    let c : Drv.grpcConn := ⟨⟨[104], 0⟩, ⟨⟨[104], 0⟩⟩⟩
    let stmt : Drv.grpcStmt := ⟨c, ⟨.eq [97] [] 2, []⟩⟩
    (Gen.grpcStmtQuery demoNet stmt [[120]]).1.toOption.isSome = false ∧
    (Gen.grpcStmtQuery demoNet stmt [[120]]).2.calls.length = 0 ∧
    ((Gen.grpcStmtQuery demoNet stmt [[120], [121]]).2.calls.map fun cl => (cl.ctx, cl.req.Queries.map fun q => encE q.expr))
      = [(.Background, [encE (.eq [97] [121] 0)])] ∧
    (Gen.grpcStmtQuery demoNet stmt [[120], [121]]).1.toOption.map (·.rows) = some [⟨[], 0⟩] := by
  decide

end Updog.GeneratedEq

#print axioms Updog.GeneratedEq.ToResult_ToProtobufResult
#print axioms Updog.GeneratedEq.grpcStmtQuery_eq
#print axioms Updog.GeneratedEq.grpcStmtQuery_too_few
#print axioms Updog.GeneratedEq.grpcStmtQuery_one_rpc
#print axioms Updog.GeneratedEq.grpcStmtQuery_rows
#print axioms Updog.GeneratedEq.grpc_eq_file
#print axioms Updog.GeneratedEq.grpcStmtNumInput_eq
#print axioms Updog.GeneratedEq.grpcConnPrepare_eq
#print axioms Updog.GeneratedEq.grpcConnClose_eq
#print axioms Updog.GeneratedEq.openConn_eq
#print axioms Updog.GeneratedEq.driverOpen_eq
#print axioms Updog.GeneratedEq.gen_grpc_rows_eq_file
#print axioms Updog.GeneratedEq.gen_grpc_stmtQuery_eq
