/-
internal/convert/convert.go, regenerated (`Gen.toExpr`, `Gen.ToQuery`, `Gen.ToProtobufResult`, `Gen.ToResult` in
`Updog/GeneratedFns.lean`) = the hand-written model (`WExpr.complete`, `toProtobufResult`, `toResult` of
`Updog/Model/Server.lean`).
-/
import Updog.GeneratedFns
import Updog.Proofs.GoPreludeT5
import Updog.Model.Server

set_option linter.unusedSimpArgs false
namespace Updog.GeneratedEq
open Updog.Go

/-! ### toExpr -/

mutual
/-- `toExpr`, written by structural recursion: a missing member becomes a nil operand -/
def toExprSpec : WExpr → Lib.Expression
  | .eq c v => .equal c v
  | .not none => .not .nil
  | .not (some e) => .not (toExprSpec e)
  | .and es => .and (toExprSpecL es)
  | .or es => .or (toExprSpecL es)
  | .unset => .nil
def toExprSpecL : List WExpr → List Lib.Expression
  | [] => []
  | e :: es => toExprSpec e :: toExprSpecL es
end

theorem toExprF_and (n : Nat) (es : List WExpr) :
    Gen.toExprF (n + 1) (.and es) = .and (es.map (Gen.toExprF n)) := by
  simp [Gen.toExprF, Wire.Expression.GetValue, Wire.And.GetExprs, Lib.ExprAnd.toExpression, foldl_ExprAnd, foldl_append_map, flatten_map_single]

theorem toExprF_or (n : Nat) (es : List WExpr) :
    Gen.toExprF (n + 1) (.or es) = .or (es.map (Gen.toExprF n)) := by
  simp [Gen.toExprF, Wire.Expression.GetValue, Wire.Or.GetExprs, Lib.ExprOr.toExpression, foldl_ExprOr, foldl_append_map, flatten_map_single]

theorem toExprF_not (n : Nat) (o : Option WExpr) :
    Gen.toExprF (n + 1) (.not o) = .not (Gen.toExprF n (o.getD .unset)) := by
  simp [Gen.toExprF, Wire.Expression.GetValue, Wire.Not.GetExpr, Lib.ExprNot.toExpression]

theorem toExprF_eq (n : Nat) (c v : Bytes) : Gen.toExprF (n + 1) (.eq c v) = .equal c v := by
  simp [Gen.toExprF, Wire.Expression.GetValue, Wire.Equal.GetColumn, Wire.Equal.GetValue, Lib.ExprEqual.toExpression]

theorem toExprF_unset (n : Nat) : Gen.toExprF n .unset = .nil := by
  cases n <;> simp [Gen.toExprF, Wire.Expression.GetValue]

mutual
/-- enough fuel: the worker computes `toExprSpec` -/
theorem toExprF_spec (w : WExpr) (n : Nat) (h : Wire.Expression.depth w < n) : Gen.toExprF n w = toExprSpec w := by
  match w, n, h with
  | .eq c v, n + 1, _ => simp [toExprF_eq, toExprSpec]
  | .not none, n + 1, _ => simp [toExprF_not, toExprF_unset, toExprSpec]
  | .not (some e), n + 1, h =>
    have : Wire.Expression.depth e < n := by simp [Wire.Expression.depth] at h; omega
    simp [toExprF_not, toExprSpec, toExprF_spec e n this]
  | .and es, n + 1, h =>
    have : Wire.Expression.depthL es < n := by simp [Wire.Expression.depth] at h; omega
    simp [toExprF_and, toExprSpec, toExprF_specL es n this]
  | .or es, n + 1, h =>
    have : Wire.Expression.depthL es < n := by simp [Wire.Expression.depth] at h; omega
    simp [toExprF_or, toExprSpec, toExprF_specL es n this]
  | .unset, n, _ => simp [toExprF_unset, toExprSpec]
theorem toExprF_specL (es : List WExpr) (n : Nat) (h : Wire.Expression.depthL es < n) :
    es.map (Gen.toExprF n) = toExprSpecL es := by
  match es, h with
  | [], _ => simp [toExprSpecL]
  | e :: es, h =>
    have h1 : Wire.Expression.depth e < n := by simp [Wire.Expression.depthL] at h; omega
    have h2 : Wire.Expression.depthL es < n := by simp [Wire.Expression.depthL] at h; omega
    simp [toExprSpecL, toExprF_spec e n h1, toExprF_specL es n h2]
end

/-- the regenerated `toExpr` is `toExprSpec`: operands converted in order, none dropped, missing members ↦ nil -/
theorem toExpr_spec (w : WExpr) : Gen.toExpr w = toExprSpec w :=
  toExprF_spec w _ (Nat.lt_succ_self _)

mutual
/-- the completeness check of `Execute` (`validateExpr` of query.go, hand-written here) on a library expression:
    `none` = some operand is nil -/
def libComplete : Lib.Expression → Option Expr
  | .nil => none
  | .equal c v => some (.eq c v)
  | .not e => (libComplete e).map Expr.not
  | .and es => (libCompleteL es).map Expr.and
  | .or es => (libCompleteL es).map Expr.or
def libCompleteL : List Lib.Expression → Option (List Expr)
  | [] => some []
  | e :: es =>
    match libComplete e with
    | none => none
    | some x => (libCompleteL es).map (x :: ·)
end

mutual
theorem libComplete_spec (w : WExpr) : libComplete (toExprSpec w) = w.complete := by
  match w with
  | .eq c v => simp [toExprSpec, libComplete, WExpr.complete]
  | .not none => simp [toExprSpec, libComplete, WExpr.complete]
  | .not (some e) => simp [toExprSpec, libComplete, WExpr.complete, libComplete_spec e]
  | .and es => simp [toExprSpec, libComplete, WExpr.complete, libComplete_specL es]
  | .or es => simp [toExprSpec, libComplete, WExpr.complete, libComplete_specL es]
  | .unset => simp [toExprSpec, libComplete, WExpr.complete]
theorem libComplete_specL (es : List WExpr) : libCompleteL (toExprSpecL es) = WExpr.completeList es := by
  match es with
  | [] => simp [toExprSpecL, libCompleteL, WExpr.completeList]
  | e :: es =>
    simp only [toExprSpecL, libCompleteL, WExpr.completeList, libComplete_spec e, libComplete_specL es]
    cases WExpr.complete e <;> rfl
end

/-- `convert.toExpr` followed by the completeness check = the model's `WExpr.complete`, for every wire tree -/
theorem toExpr_complete (w : WExpr) : libComplete (Gen.toExpr w) = w.complete := by
  rw [toExpr_spec, libComplete_spec]

/-! ### ToQuery -/

theorem ToQuery_eq (q : WQuery) :
    Gen.ToQuery q = { Expr := toExprSpec (q.expr.getD .unset), GroupBy := q.groupBy } := by
  simp [Gen.ToQuery, toExpr_spec, Wire.Query.GetExpr, Wire.Query.GetGroupBy]

/-- the expression `ToQuery` hands to `Execute` passes the completeness check exactly when the model's
    `serverExecute` gets past its two `none` cases, and then it is the same tree; the group-by list is copied -/
theorem ToQuery_complete (q : WQuery) :
    libComplete (Gen.ToQuery q).Expr = (match q.expr with | none => none | some w => w.complete) ∧
    (Gen.ToQuery q).GroupBy = q.groupBy := by
  rw [ToQuery_eq]
  cases h : q.expr with
  | none => simp [toExprSpec, libComplete]
  | some w => simp [libComplete_spec]

/-! ### results -/

/-- the model's view of a library result (counts are `uint64` in Go, `Nat` in the model) -/
def resultOfGo (r : Lib.Result) : Result :=
  ⟨r.Count.toNat, r.Groups.map fun g => (g.Fields.map fun f => (f.Column, f.Value), g.Count.toNat)⟩

/-- the model's view of a protobuf result message -/
def presultOfGo (p : Pb.Result) : PResult :=
  ⟨p.QueryId, p.TotalCount.toNat, p.Groups.map fun g => (g.Fields.map fun f => (f.Column, f.Value), g.Count.toNat)⟩

/-- a model result as a Go value (exact when the counts fit 64 bits, see `resultOfGo_toGo`) -/
def resultToGo (r : Result) : Lib.Result :=
  ⟨r.count.toUInt64, r.groups.map fun g => ⟨g.1.map fun f => ⟨f.1, f.2⟩, g.2.toUInt64⟩⟩

def presultToGo (p : PResult) : Pb.Result :=
  ⟨p.queryId, p.totalCount.toUInt64, p.groups.map fun g => ⟨g.1.map fun f => ⟨f.1, f.2⟩, g.2.toUInt64⟩⟩

def Result.fits (r : Result) : Prop := r.count < 2 ^ 64 ∧ ∀ g ∈ r.groups, g.2 < 2 ^ 64
def PResult.fits (p : PResult) : Prop := p.totalCount < 2 ^ 64 ∧ ∀ g ∈ p.groups, g.2 < 2 ^ 64

theorem map_pair_roundtrip₁ (a : List (Bytes × Bytes)) :
    List.map ((fun f : Lib.ResultField => (f.Column, f.Value)) ∘ fun f => { Column := f.fst, Value := f.snd }) a = a := by
  induction a with
  | nil => rfl
  | cons x xs ih => simp_all

theorem map_pair_roundtrip₂ (a : List (Bytes × Bytes)) :
    List.map ((fun f : Pb.Result_Group_ResultField => (f.Column, f.Value)) ∘ fun f => { Column := f.fst, Value := f.snd }) a = a := by
  induction a with
  | nil => rfl
  | cons x xs ih => simp_all

theorem toNat_toUInt64 (n : Nat) (h : n < 2 ^ 64) : n.toUInt64.toNat = n := by
  simp [Nat.toUInt64, UInt64.toNat_ofNat', Nat.mod_eq_of_lt h]

theorem resultOfGo_toGo (r : Result) (h : Result.fits r) : resultOfGo (resultToGo r) = r := by
  obtain ⟨c, gs⟩ := r
  simp only [resultOfGo, resultToGo, Result.mk.injEq]
  refine ⟨toNat_toUInt64 _ h.1, ?_⟩
  simp only [List.map_map]
  have : ∀ g ∈ gs, ((fun g : Lib.ResultGroup => (g.Fields.map fun f => (f.Column, f.Value), g.Count.toNat)) ∘
      fun g : Fields × Nat => ⟨g.1.map fun f => ⟨f.1, f.2⟩, g.2.toUInt64⟩) g = g := by
    intro g hg
    simp only [Function.comp, List.map_map]
    have := toNat_toUInt64 g.2 (h.2 g hg)
    obtain ⟨a, b⟩ := g
    simp_all [map_pair_roundtrip₁]
  rw [List.map_congr_left this]; simp

theorem presultOfGo_toGo (p : PResult) (h : PResult.fits p) : presultOfGo (presultToGo p) = p := by
  obtain ⟨q, c, gs⟩ := p
  simp only [presultOfGo, presultToGo, PResult.mk.injEq, true_and]
  refine ⟨toNat_toUInt64 _ h.1, ?_⟩
  simp only [List.map_map]
  have : ∀ g ∈ gs, ((fun g : Pb.Result_Group => (g.Fields.map fun f => (f.Column, f.Value), g.Count.toNat)) ∘
      fun g : List (Bytes × Bytes) × Nat => ⟨g.1.map fun f => ⟨f.1, f.2⟩, g.2.toUInt64⟩) g = g := by
    intro g hg
    simp only [Function.comp, List.map_map]
    have := toNat_toUInt64 g.2 (h.2 g hg)
    obtain ⟨a, b⟩ := g
    simp_all [map_pair_roundtrip₂]
  rw [List.map_congr_left this]; simp

/-- `ToProtobufResult`, as a map: id and total copied, one group message per group in order, one field message per
    field in order, every count copied -/
theorem ToProtobufResult_spec (r : Lib.Result) (qid : Int) :
    Gen.ToProtobufResult r qid =
      { QueryId := qid, TotalCount := r.Count,
        Groups := r.Groups.map fun g => { Fields := g.Fields.map fun f => { Column := f.Column, Value := f.Value }, Count := g.Count } } := by
  simp [Gen.ToProtobufResult, foldl_append_map, flatten_map_single, foldl_PbResult_Groups]

/-- regenerated `ToProtobufResult` = the model's `toProtobufResult`, for every Go result -/
theorem ToProtobufResult_eq (r : Lib.Result) (qid : Int) :
    presultOfGo (Gen.ToProtobufResult r qid) = toProtobufResult (resultOfGo r) qid := by
  rw [ToProtobufResult_spec]
  simp [presultOfGo, toProtobufResult, resultOfGo, List.map_map, Function.comp_def]

/-- … and hence for every model result whose counts fit 64 bits -/
theorem ToProtobufResult_model (r : Result) (qid : Int) (h : Result.fits r) :
    presultOfGo (Gen.ToProtobufResult (resultToGo r) qid) = toProtobufResult r qid := by
  rw [ToProtobufResult_eq, resultOfGo_toGo r h]

theorem ToResult_spec (p : Pb.Result) :
    Gen.ToResult p =
      { Count := p.TotalCount,
        Groups := p.Groups.map fun g => { Fields := g.Fields.map fun f => { Column := f.Column, Value := f.Value }, Count := g.Count } } := by
  simp [Gen.ToResult, foldl_append_map, flatten_map_single, foldl_LibResult_Groups, foldl_LibResultGroup_Fields]

/-- regenerated `ToResult` = the model's `toResult`, for every protobuf result message -/
theorem ToResult_eq (p : Pb.Result) : resultOfGo (Gen.ToResult p) = toResult (presultOfGo p) := by
  rw [ToResult_spec]
  simp [presultOfGo, toResult, resultOfGo, List.map_map, Function.comp_def]

theorem ToResult_model (p : PResult) (h : PResult.fits p) :
    resultOfGo (Gen.ToResult (presultToGo p)) = toResult p := by
  rw [ToResult_eq, presultOfGo_toGo p h]

/-! ### examples -/

example : Gen.toExpr (.and [.eq [97] [49], .not none, .or [.unset, .not (some (.eq [98] [50]))]]) =
    .and [.equal [97] [49], .not .nil, .or [.nil, .not (.equal [98] [50])]] := by rfl

example : libComplete (Gen.toExpr (.and [.eq [97] [49], .not (some (.eq [98] [50]))])) =
    some (.and [.eq [97] [49], .not (.eq [98] [50])]) := by rfl

example : Gen.ToProtobufResult ⟨5, [⟨[⟨[97], [49]⟩, ⟨[98], [50]⟩], 3⟩, ⟨[⟨[97], [51]⟩], 2⟩]⟩ 7 =
    ⟨7, 5, [⟨[⟨[97], [49]⟩, ⟨[98], [50]⟩], 3⟩, ⟨[⟨[97], [51]⟩], 2⟩]⟩ := by decide

example : Gen.ToResult ⟨7, 5, [⟨[⟨[97], [49]⟩, ⟨[98], [50]⟩], 3⟩]⟩ = ⟨5, [⟨[⟨[97], [49]⟩, ⟨[98], [50]⟩], 3⟩]⟩ := by decide

end Updog.GeneratedEq
