/-
Shared vocabulary of the equivalence theorems for the REGENERATED lexer and parser of internal/queryparser
(`Updog/GeneratedFns.lean`, written by extract/translate_t4.go): how a Go `item` (generated structure `Gen.Item`)
corresponds to a token `Tok` of the hand-written model.
-/
import Updog.GeneratedFns
import Updog.Model.RuneLexer
import Updog.Proofs.GoPrelude

/-- pointwise relation of two lists (core Lean has no `List.Forall₂`; this is the definition of Batteries / Mathlib) -/
inductive List.Forall₂ {α β : Type} (R : α → β → Prop) : List α → List β → Prop
  | nil : List.Forall₂ R [] []
  | cons {a b l₁ l₂} : R a b → List.Forall₂ R l₁ l₂ → List.Forall₂ R (a :: l₁) (b :: l₂)

namespace Updog.GeneratedEq
open Updog.Go (allDigits)

/-- the `itemType` constant the Go lexer emits for a model token -/
def tokCode : Tok → Int
  | .error => Gen.itemError
  | .eof => Gen.itemEOF
  | .lparen => Gen.itemOpenParen
  | .rparen => Gen.itemCloseParen
  | .and => Gen.itemAnd
  | .or => Gen.itemOr
  | .not => Gen.itemNot
  | .eq => Gen.itemEqual
  | .comma => Gen.itemComma
  | .semi => Gen.itemSemicolon
  | .field _ => Gen.itemField
  | .value _ => Gen.itemValue
  | .placeholder _ => Gen.itemPlaceholder

/-- a Go item `i` IS the model token `t`: same kind, and for the three kinds that carry text the item's `val`
    (the lexeme `input[start:pos]`) is the lexeme of the token: the field name, `"` body `"`, `$` digits.
    (`pos` is only used in error messages; the `val` of the other kinds is never read by the parser.) -/
def ItemTok (i : Gen.Item) (t : Tok) : Prop :=
  i.typ = tokCode t ∧
  match t with
  | .field c => i.val = c
  | .value body => i.val = 34 :: body ++ [34]
  | .placeholder ds => i.val = 36 :: ds
  | _ => True

/-- what the lexer guarantees about the payload of a token: the text of a placeholder consists of digits -/
def TokOK : Tok → Prop
  | .placeholder ds => allDigits ds
  | _ => True

theorem tokCode_injective_kind {t u : Tok} (h : tokCode t = tokCode u) :
    (∀ c, t = .field c → ∃ c', u = .field c') ∧ (∀ b, t = .value b → ∃ b', u = .value b') ∧
    (∀ d, t = .placeholder d → ∃ d', u = .placeholder d') ∧
    ((∀ c, t ≠ .field c) → (∀ b, t ≠ .value b) → (∀ d, t ≠ .placeholder d) → u = t) := by
  cases t <;> cases u <;> simp_all [tokCode, Gen.itemError, Gen.itemEOF, Gen.itemOpenParen, Gen.itemCloseParen,
    Gen.itemAnd, Gen.itemOr, Gen.itemNot, Gen.itemEqual, Gen.itemComma, Gen.itemSemicolon, Gen.itemField,
    Gen.itemValue, Gen.itemPlaceholder]

/-- the zero item (what a receive from the closed, empty channel yields) is an `error` item -/
theorem itemTok_zero : ItemTok Gen.Item.zero .error := by
  simp [ItemTok, tokCode, Gen.Item.zero, Gen.itemError]

end Updog.GeneratedEq
