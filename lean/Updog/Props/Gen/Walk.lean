/-
internal/queryparser/walk.go and the placeholder handling of driver/driver.go, regenerated (`Gen.walk`, `Gen.Walk`,
`Gen.numInput`, `Gen.replacePlaceholdersNode`, `Gen.ReplacePlaceholders`, `Gen.stmtQuery`, `Gen.queryContextValues`,
`Gen.stmtQueryValues`) = the hand-written models `walkNodes` (Model/Walk.lean), `maxPh`, `subst`, `bind`
(Model/Formatter.lean).
-/
import Updog.GeneratedFns
import Updog.Proofs.GoPreludeT5
import Updog.Props.Gen.Driver

set_option linter.unusedSimpArgs false
namespace Updog.GeneratedEq
open Updog.Go

/-! ### walk: the regenerated function is the structural traversal `walkSem` -/

section
variable {σ : Type}

mutual
/-- `walk` in state-passing style, by structural recursion: the callback first; if it returns false everything stops -/
def walkSem (f : σ → PExpr → Bool × σ) : PExpr → σ → Bool × σ
  | .eq c v ph, st => f st (.eq c v ph)
  | .not e, st => if (f st (.not e)).1 then walkSem f e (f st (.not e)).2 else (false, (f st (.not e)).2)
  | .and es, st => if (f st (.and es)).1 then walkSemL f es (f st (.and es)).2 else (false, (f st (.and es)).2)
  | .or es, st => if (f st (.or es)).1 then walkSemL f es (f st (.or es)).2 else (false, (f st (.or es)).2)
def walkSemL (f : σ → PExpr → Bool × σ) : List PExpr → σ → Bool × σ
  | [], st => (true, st)
  | e :: es, st => if (walkSem f e st).1 then walkSemL f es (walkSem f e st).2 else (false, (walkSem f e st).2)
end

/-- the operand loop of the generated `walk` -/
def walkListG (w : PExpr → σ → Bool × σ) : List PExpr → σ → Bool × σ
  | [], st => (true, st)
  | e :: es, st => if (w e st).1 then walkListG w es (w e st).2 else (false, (w e st).2)

theorem walk_loop (w : PExpr → σ → Bool × σ) (es : List PExpr) (st : σ) :
    (match (forRange es st (fun st ee => if (!(w ee st).1) = true then Loop.ret (false, (w ee st).2) else Loop.go (w ee st).2) :
        Loop (Bool × σ) σ) with
      | .ret r => r
      | .go st => (true, st)) = walkListG w es st := by
  induction es generalizing st with
  | nil => simp [forRange_nil, walkListG]
  | cons e es ih =>
    rw [forRange_cons]
    cases h : (w e st).1
    · simp [h, walkListG]
    · simp only [h, Bool.not_true, Bool.false_eq_true, ite_false, walkListG, ite_true]
      exact ih _

theorem pair_eta_bool (r : Bool × σ) : (if (!r.1) = true then (false, r.2) else (true, r.2)) = r := by
  obtain ⟨a, b⟩ := r; cases a <;> rfl

theorem pair_eta_bool' (r : Bool × σ) : (if r.1 = false then (false, r.2) else (true, r.2)) = r := by
  obtain ⟨a, b⟩ := r; cases a <;> rfl

theorem walkF_eq (n : Nat) (c v : Bytes) (ph : Nat) (f : σ → PExpr → Bool × σ) (st : σ) :
    Gen.walkF (n + 1) (.eq c v ph) f st = f st (.eq c v ph) := by
  simp only [Gen.walkF, Parsed.Expression.Value]
  exact pair_eta_bool _

theorem walkF_not (n : Nat) (e : PExpr) (f : σ → PExpr → Bool × σ) (st : σ) :
    Gen.walkF (n + 1) (.not e) f st =
      if (f st (.not e)).1 then Gen.walkF n e f (f st (.not e)).2 else (false, (f st (.not e)).2) := by
  simp only [Gen.walkF, Parsed.Expression.Value, Parsed.Not.Expr]
  cases h : (f st (.not e)).1 <;> simp [h, pair_eta_bool, pair_eta_bool']

theorem walkF_and (n : Nat) (es : List PExpr) (f : σ → PExpr → Bool × σ) (st : σ) :
    Gen.walkF (n + 1) (.and es) f st =
      if (f st (.and es)).1 then walkListG (fun e st => Gen.walkF n e f st) es (f st (.and es)).2 else (false, (f st (.and es)).2) := by
  simp only [Gen.walkF, Parsed.Expression.Value, Parsed.And.Exprs]
  cases h : (f st (.and es)).1
  · simp [h]
  · simp only [h, Bool.not_true, Bool.false_eq_true, ite_false, ite_true]
    exact walk_loop (fun e st => Gen.walkF n e f st) es _

theorem walkF_or (n : Nat) (es : List PExpr) (f : σ → PExpr → Bool × σ) (st : σ) :
    Gen.walkF (n + 1) (.or es) f st =
      if (f st (.or es)).1 then walkListG (fun e st => Gen.walkF n e f st) es (f st (.or es)).2 else (false, (f st (.or es)).2) := by
  simp only [Gen.walkF, Parsed.Expression.Value, Parsed.Or.Exprs]
  cases h : (f st (.or es)).1
  · simp [h]
  · simp only [h, Bool.not_true, Bool.false_eq_true, ite_false, ite_true]
    exact walk_loop (fun e st => Gen.walkF n e f st) es _

mutual
theorem walkF_sem (e : PExpr) (n : Nat) (h : Parsed.Expression.depth e < n) (f : σ → PExpr → Bool × σ) (st : σ) :
    Gen.walkF n e f st = walkSem f e st := by
  match e, n, h with
  | .eq c v ph, n + 1, _ => simp [walkF_eq, walkSem]
  | .not e, n + 1, h =>
    have : Parsed.Expression.depth e < n := by simp [Parsed.Expression.depth] at h; omega
    simp [walkF_not, walkSem, walkF_sem e n this]
  | .and es, n + 1, h =>
    have : Parsed.Expression.depthL es < n := by simp [Parsed.Expression.depth] at h; omega
    simp [walkF_and, walkSem, walkF_semL es n this]
  | .or es, n + 1, h =>
    have : Parsed.Expression.depthL es < n := by simp [Parsed.Expression.depth] at h; omega
    simp [walkF_or, walkSem, walkF_semL es n this]
theorem walkF_semL (es : List PExpr) (n : Nat) (h : Parsed.Expression.depthL es < n) (f : σ → PExpr → Bool × σ) (st : σ) :
    walkListG (fun e st => Gen.walkF n e f st) es st = walkSemL f es st := by
  match es, h with
  | [], _ => simp [walkListG, walkSemL]
  | e :: es, h =>
    have h1 : Parsed.Expression.depth e < n := by simp [Parsed.Expression.depthL] at h; omega
    have h2 : Parsed.Expression.depthL es < n := by simp [Parsed.Expression.depthL] at h; omega
    simp [walkListG, walkSemL, walkF_sem e n h1, walkF_semL es n h2]
end

/-- the regenerated `walk` is the structural traversal, for every callback and state -/
theorem walk_sem (e : PExpr) (f : σ → PExpr → Bool × σ) (st : σ) : Gen.walk e f st = walkSem f e st :=
  walkF_sem e _ (Nat.lt_succ_self _) f st

theorem Walk_sem (q : PQuery) (f : σ → PExpr → Bool × σ) (st : σ) : Gen.Walk q f st = walkSem f q.expr st := by
  simp [Gen.Walk, walk_sem, Parsed.Query.Expr]

end

/-! ### walk = the model's `walkNodes` -/

mutual
theorem walkSem_model (p : PExpr → Bool) (e : PExpr) (st : List PExpr) :
    walkSem (fun s x => (p x, s ++ [x])) e st = ((walkNodes p e).1, st ++ (walkNodes p e).2) := by
  match e with
  | .eq c v ph => simp [walkSem, walkNodes]
  | .not e =>
    simp only [walkSem, walkNodes]
    cases h : p (.not e) <;> simp [h, walkSem_model p e]
  | .and es =>
    simp only [walkSem, walkNodes]
    cases h : p (.and es) <;> simp [h, walkSemL_model p es]
  | .or es =>
    simp only [walkSem, walkNodes]
    cases h : p (.or es) <;> simp [h, walkSemL_model p es]
theorem walkSemL_model (p : PExpr → Bool) (es : List PExpr) (st : List PExpr) :
    walkSemL (fun s x => (p x, s ++ [x])) es st = ((walkList p es).1, st ++ (walkList p es).2) := by
  match es with
  | [] => simp [walkSemL, walkList]
  | e :: es =>
    simp only [walkSemL, walkList, walkSem_model p e]
    cases h : (walkNodes p e).1 <;> simp [h, walkSemL_model p es]
end

/-- regenerated `walk`, run with a callback that records the visited nodes and answers `p`, = the model's
    `walkNodes p`: same continue/stop result, same nodes in the same order -/
theorem walk_eq_walkNodes (p : PExpr → Bool) (e : PExpr) :
    Gen.walk e (fun s x => (p x, s ++ [x])) [] = walkNodes p e := by
  rw [walk_sem, walkSem_model]; simp

/-- for a callback that never stops the walk, the final state is the fold of the callback over all nodes in
    visiting order -/
theorem walkSem_fold_aux {σ : Type} (f : σ → PExpr → Bool × σ) (hf : ∀ s x, (f s x).1 = true) :
    (∀ (e : PExpr) (st : σ), walkSem f e st = (true, (walkNodes (fun _ => true) e).2.foldl (fun s x => (f s x).2) st)) ∧
    (∀ (es : List PExpr) (st : σ), walkSemL f es st = (true, (walkList (fun _ => true) es).2.foldl (fun s x => (f s x).2) st)) := by
  have hp : ∀ s x, f s x = (true, (f s x).2) := fun s x => by rw [← hf s x]
  have key : ∀ n, (∀ (e : PExpr), Parsed.Expression.depth e < n → ∀ st : σ,
        walkSem f e st = (true, (walkNodes (fun _ => true) e).2.foldl (fun s x => (f s x).2) st)) ∧
      (∀ (es : List PExpr), Parsed.Expression.depthL es < n → ∀ st : σ,
        walkSemL f es st = (true, (walkList (fun _ => true) es).2.foldl (fun s x => (f s x).2) st)) := by
    intro n
    induction n with
    | zero => exact ⟨fun _ h => absurd h (Nat.not_lt_zero _), fun _ h => absurd h (Nat.not_lt_zero _)⟩
    | succ n ih =>
      have hL : ∀ (es : List PExpr), (∀ e ∈ es, Parsed.Expression.depth e < n + 1) → ∀ st : σ,
          walkSemL f es st = (true, (walkList (fun _ => true) es).2.foldl (fun s x => (f s x).2) st) ∨ True := fun _ _ _ => Or.inr trivial
      have hE : ∀ (e : PExpr), Parsed.Expression.depth e < n + 1 → ∀ st : σ,
          walkSem f e st = (true, (walkNodes (fun _ => true) e).2.foldl (fun s x => (f s x).2) st) := by
        intro e he st
        match e, he with
        | .eq c v ph, _ => simp only [walkSem, walkNodes, List.foldl_cons, List.foldl_nil]; exact hp _ _
        | .not e, he =>
          have : Parsed.Expression.depth e < n := by simp [Parsed.Expression.depth] at he; omega
          simp [walkSem, walkNodes, hf, ih.1 e this]
        | .and es, he =>
          have : Parsed.Expression.depthL es < n := by simp [Parsed.Expression.depth] at he; omega
          simp [walkSem, walkNodes, hf, ih.2 es this]
        | .or es, he =>
          have : Parsed.Expression.depthL es < n := by simp [Parsed.Expression.depth] at he; omega
          simp [walkSem, walkNodes, hf, ih.2 es this]
      refine ⟨hE, ?_⟩
      intro es
      induction es with
      | nil => intro _ st; simp [walkSemL, walkList]
      | cons e es ihes =>
        intro h st
        have h1 : Parsed.Expression.depth e < n + 1 := by simp [Parsed.Expression.depthL] at h; omega
        have h2 : Parsed.Expression.depthL es < n + 1 := by simp [Parsed.Expression.depthL] at h; omega
        simp [walkSemL, walkList, hE e h1, ihes h2, C11.walk_full, List.foldl_append]
  exact ⟨fun e st => (key _).1 e (Nat.lt_succ_self _) st, fun es st => (key _).2 es (Nat.lt_succ_self _) st⟩

/-! ### numInput -/

/-- the step of `numInput`'s callback on its captured variable -/
def numStep (m : Int) : PExpr → Int
  | .eq _ _ ph => if (ph : Int) > m then ph else m
  | _ => m

theorem numStep_fold (ns : List PExpr) (m : Nat) :
    ns.foldl numStep (m : Int) = ((ns.filterMap phOf).foldl max m : Nat) := by
  induction ns generalizing m with
  | nil => simp
  | cons x xs ih =>
    cases x with
    | eq c v ph =>
      simp only [List.foldl_cons, numStep, List.filterMap_cons, phOf]
      by_cases h : (ph : Int) > m
      · have : max m ph = ph := by omega
        simp [h, this, ih]
      · have : max m ph = m := by omega
        simp [h, this, ih]
    | not e => simpa [numStep, phOf, List.filterMap_cons] using ih m
    | and es => simpa [numStep, phOf, List.filterMap_cons] using ih m
    | or es => simpa [numStep, phOf, List.filterMap_cons] using ih m

/-- regenerated `numInput` (a `Walk` whose callback keeps the maximum of `v.Eq.Placeholder`) = the model's
    `numInputW` = the highest placeholder number `maxPh` -/
theorem numInput_eq (q : PQuery) : Gen.numInput q = (maxPh q.expr : Nat) := by
  simp only [Gen.numInput, Walk_sem]
  rw [(walkSem_fold_aux _ (fun _ _ => rfl)).1]
  simp only
  refine Eq.trans (?_ : _ = List.foldl numStep (0 : Int) (walkNodes (fun _ => true) q.expr).2) ?_
  · congr 1
    funext s x
    cases x <;> simp [numStep, Parsed.Expression.Value]
  · have := numStep_fold (walkNodes (fun _ => true) q.expr).2 0
    simp only [Int.natCast_zero] at this
    rw [this, ← C11.numInput_walk_eq_maxPh]
    rfl

/-! ### ReplacePlaceholders -/

/-- the callback of `ReplacePlaceholders` on a node: placeholder `$n` (n ≥ 1) ↦ argument number n, i.e. `values[n-1]`,
    and the placeholder number is cleared; everything else is unchanged -/
theorem replaceNode_eq (values : List Bytes) (e : PExpr) :
    Gen.replacePlaceholdersNode values e =
      (true, match e with
        | .eq c v ph => if ph > 0 then .eq c (values.getD (ph - 1) []) 0 else .eq c v ph
        | e => e) := by
  cases e with
  | eq c v ph =>
    by_cases h : ph > 0
    · have h1 : ((ph : Int) > 0) := by omega
      have h2 : ¬ ((ph : Int) - 1 < 0) := by omega
      have h3 : ((ph : Int) - 1).toNat = ph - 1 := by omega
      simp [Gen.replacePlaceholdersNode, Parsed.Expression.Value, Parsed.Expression.setValue, h, h1, indexL, h2, h3]
      rfl
    · have h1 : ¬ ((ph : Int) > 0) := by omega
      simp [Gen.replacePlaceholdersNode, Parsed.Expression.Value, Parsed.Expression.setValue, h, h1]
  | not e => simp [Gen.replacePlaceholdersNode, Parsed.Expression.Value]
  | and es => simp [Gen.replacePlaceholdersNode, Parsed.Expression.Value]
  | or es => simp [Gen.replacePlaceholdersNode, Parsed.Expression.Value]

/-- what `Go.Parsed.mapNodes` assumes about the callback: it never stops the walk … -/
theorem replaceNode_true (values : List Bytes) (e : PExpr) : (Gen.replacePlaceholdersNode values e).1 = true := by
  rw [replaceNode_eq]
/-- … and it modifies comparison nodes only -/
theorem replaceNode_inner (values : List Bytes) (e : PExpr) (h : ∀ c v ph, e ≠ .eq c v ph) :
    (Gen.replacePlaceholdersNode values e).2 = e := by
  rw [replaceNode_eq]
  cases e with
  | eq c v ph => exact absurd rfl (h c v ph)
  | _ => rfl

mutual
theorem mapNodes_subst (values : List Bytes) (e : PExpr) :
    Parsed.mapNodes (fun e => (Gen.replacePlaceholdersNode values e).2) e = subst values e := by
  match e with
  | .eq c v ph =>
    simp only [Parsed.mapNodes, replaceNode_eq, subst]
    by_cases h : ph > 0
    · simp [h]
    · have : ph = 0 := by omega
      simp [this]
  | .not e => simp [Parsed.mapNodes, subst, mapNodes_subst values e]
  | .and es => simp [Parsed.mapNodes, subst, mapNodesL_subst values es]
  | .or es => simp [Parsed.mapNodes, subst, mapNodesL_subst values es]
theorem mapNodesL_subst (values : List Bytes) (es : List PExpr) :
    Parsed.mapNodesL (fun e => (Gen.replacePlaceholdersNode values e).2) es = substList values es := by
  match es with
  | [] => simp [Parsed.mapNodesL, substList]
  | e :: es => simp [Parsed.mapNodesL, substList, mapNodes_subst values e, mapNodesL_subst values es]
end

/-- regenerated `ReplacePlaceholders` = the model's `subst` on the expression, group-by list untouched -/
theorem ReplacePlaceholders_eq (q : PQuery) (values : List Bytes) :
    Gen.ReplacePlaceholders q values = ⟨subst values q.expr, q.groupBy⟩ := by
  simp [Gen.ReplacePlaceholders, mapNodes_subst]

/-! ### fileStmt.query = the model's `bind`, then conversion, execution, rows -/

def errTooFew : Err5 :=
  .errorf [101, 120, 112, 101, 99, 116, 101, 100, 32, 37, 100, 32, 97, 114, 103, 117, 109, 101, 110, 116, 115, 44,
    32, 103, 111, 116, 32, 37, 100]  -- "expected %d arguments, got %d"

/-- regenerated `(*fileStmt).query`: exactly when the model's `bind` fails (fewer values than the highest placeholder
    number) the error "expected %d arguments, got %d" is returned and nothing is executed; otherwise the bound query
    of the model is converted with `ToQuery`, executed, and the result (or the error of `Execute`) is returned as rows
    over the bound query's group-by list -/
theorem stmtQuery_eq (execute : Lib.Query → Except Err5 Lib.Result) (stmt : Drv.fileStmt) (values : List Bytes) :
    Gen.stmtQuery execute stmt values =
      match bind stmt.q values with
      | .ok q' =>
        (match execute (Gen.ToQuery (Parsed.Query.toWire q')) with
          | .error err => .error err
          | .ok r => .ok (Gen.newRows r q'.groupBy))
      | _ => .error errTooFew := by
  simp only [Gen.stmtQuery, numInput_eq, Go.len, ReplacePlaceholders_eq, bind, Parsed.Query.GroupBy]
  by_cases h : maxPh stmt.q.expr > values.length
  · have : ((values.length : Int) < (maxPh stmt.q.expr : Nat)) := by omega
    simp [h, this, errTooFew]
  · have : ¬ ((values.length : Int) < (maxPh stmt.q.expr : Nat)) := by omega
    simp only [h, this, decide_false, Bool.false_eq_true, ite_false]
    cases execute (Gen.ToQuery (Parsed.Query.toWire ⟨subst values stmt.q.expr, stmt.q.groupBy⟩)) <;> rfl

/-! ### the value list handed to `query` -/

theorem stmtQueryValues_eq (sprint : Drv.Value → Bytes) (args : List Drv.Value) :
    Gen.stmtQueryValues sprint args = args.map sprint := by
  simp [Gen.stmtQueryValues, foldl_append_map, flatten_map_single]

/-- the named arguments database/sql passes: ordinals 1, 2, … in order -/
def namedArgs (vals : List Drv.Value) : List Drv.NamedValue := (enumFrom 0 vals).map fun p => ⟨p.1 + 1, p.2⟩

theorem size_loop (vals : List Drv.Value) (n : Nat) (s : Int) (hs : s ≤ n) :
    List.foldl (fun (size : Int) (a : Drv.NamedValue) => if decide (a.Ordinal > size) = true then a.Ordinal else size) s
      ((enumFrom (n : Int) vals).map fun p => ⟨p.1 + 1, p.2⟩) = if vals = [] then s else ((n + vals.length : Nat) : Int) := by
  induction vals generalizing n s with
  | nil => simp [enumFrom]
  | cons v vs ih =>
    simp only [enumFrom, List.map_cons, List.foldl_cons]
    have h1 : ((n : Int) + 1 > s) := by omega
    simp only [h1, decide_true, ite_true]
    have := ih (n + 1) ((n : Int) + 1) (by simp)
    rw [show ((n : Int) + 1) = ((n + 1 : Nat) : Int) by simp] at *
    rw [this]
    cases vs with
    | nil => simp
    | cons w ws => simp; omega

/-- `QueryContext`: argument number n (ordinal n) lands in slot n-1 — the value list is the arguments in order -/
theorem queryContextValues_eq (sprint : Drv.Value → Bytes) (vals : List Drv.Value) :
    Gen.queryContextValues sprint (namedArgs vals) = vals.map sprint := by
  simp only [Gen.queryContextValues, namedArgs]
  have hs := size_loop vals 0 0 (by simp)
  simp only [Int.natCast_zero, Nat.zero_add] at hs
  rw [hs, List.foldl_map]
  have hf : (fun (values : List Bytes) (p : Int × Drv.Value) => setIndexL values (p.1 + 1 - 1) (sprint p.2))
      = fun (values : List Bytes) (p : Int × Drv.Value) => setIndexL values p.1 (sprint p.2) := by
    funext values p; congr 1; omega
  simp only [hf]
  cases hv : vals with
  | nil => simp [enumFrom, makeL]
  | cons v vs =>
    have hne : ¬ (v :: vs = []) := by simp
    simp only [hne, ite_false]
    have := copy_loop sprint (v :: vs) 0 (makeL (((v :: vs).length : Nat) : Int) : List Bytes) (by simp [makeL])
    simp only [Int.natCast_zero, List.take_zero, List.nil_append, Nat.zero_add] at this
    rw [this]
    simp [makeL]

/-! ### examples -/

example : Gen.numInput ⟨.and [.eq [97] [] 2, .not (.eq [98] [] 5), .eq [99] [120] 0], []⟩ = 5 := by decide
example : Gen.ReplacePlaceholders ⟨.and [.eq [97] [] 2, .not (.eq [98] [] 1), .eq [99] [120] 0], [[100]]⟩ [[49], [50]] =
    ⟨.and [.eq [97] [50] 0, .not (.eq [98] [49] 0), .eq [99] [120] 0], [[100]]⟩ := by rfl
example : Gen.walk (.and [.eq [97] [] 1, .not (.eq [98] [] 2)]) (fun s x => (!(match x with | .not _ => true | _ => false), s ++ [x])) []
    = (false, [.and [.eq [97] [] 1, .not (.eq [98] [] 2)], .eq [97] [] 1, .not (.eq [98] [] 2)]) := by rfl
example : Gen.queryContextValues (fun v => match v with | .ofString s => s | _ => [63]) [⟨1, .ofString [120]⟩, ⟨2, .ofInt64 5⟩]
    = [[120], [63]] := by decide

end Updog.GeneratedEq
