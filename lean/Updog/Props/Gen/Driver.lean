/-
driver/driver.go (and the part of internal/queryparser/walk.go it uses), regenerated = the hand-written models
`newRows` (Model/Rows.lean), `dsnConfig` (Model/Dsn.lean), `maxPh` / `subst` / `bind` (Model/Formatter.lean),
`walkNodes` (Model/Walk.lean), `Drv.step` (Model/Driver.lean).
-/
import Updog.GeneratedFns
import Updog.Proofs.GoPreludeT5
import Updog.Props.Gen.Convert
import Updog.Model.Rows
import Updog.Model.Dsn
import Updog.Model.Walk
import Updog.Model.Driver
import Updog.Props.C11Walk
import Updog.Props.C12Dsn

set_option linter.unusedSimpArgs false
namespace Updog.GeneratedEq
open Updog.Go

/-! ### newRows -/

/-- the cells the model's `Rows` has for a driver row: the field values as text, then the count -/
def rowCells (r : Drv.row) : List Cell := r.fields.map Cell.text ++ [Cell.int r.count.toNat]

/-- `newRows`, as a map: columns = group-by list ++ ["count"]; with a group-by list one row per group (the field
    VALUES in group order, count last), otherwise one row with the total; not closed, cursor at 0 -/
theorem newRows_spec (g : Lib.Result) (gb : List Bytes) :
    Gen.newRows g gb =
      { cols := gb ++ [countCol],
        rows := if gb.length > 0 then g.Groups.map fun rr => { fields := rr.Fields.map (·.Value), count := rr.Count }
                else [{ fields := [], count := g.Count }],
        closed := false, idx := 0 } := by
  cases gb with
  | nil => simp [Gen.newRows, Go.len, countCol]
  | cons x xs =>
    have h1 : ((xs.length : Int) + 1 > 0) = True := eq_true (by omega)
    have h2 : ((xs.length : Int) + 1 = 0) = False := eq_false (by omega)
    simp [Gen.newRows, Go.len, h1, h2, foldl_DrvRows_rows, foldl_append_map, flatten_map_single, countCol]

/-- regenerated `newRows` = the model's `newRows` (columns and rows), for every library result and group-by list -/
theorem newRows_eq (g : Lib.Result) (gb : List Bytes) :
    (Gen.newRows g gb).cols = (Updog.newRows (resultOfGo g) gb).cols ∧
    (Gen.newRows g gb).rows.map rowCells = (Updog.newRows (resultOfGo g) gb).rows ∧
    (Gen.newRows g gb).closed = false ∧ (Gen.newRows g gb).idx = 0 := by
  rw [newRows_spec]
  refine ⟨rfl, ?_, rfl, rfl⟩
  by_cases h : gb.length > 0
  · simp [h, Updog.newRows, resultOfGo, rowCells, List.map_map, Function.comp_def]
  · simp [h, Updog.newRows, resultOfGo, rowCells]

/-! ### rows.Next -/

theorem setIndexL_nat {α : Type} (vs : List α) (n : Nat) (a : α) : setIndexL vs (n : Int) a = vs.set n a := by
  have : ¬ ((n : Int) < 0) := by omega
  simp [setIndexL, this]

/-- the copy loop of `Next`: slot `n + j` receives the `j`-th field -/
theorem copy_loop {α β : Type} (g : β → α) (fs : List β) (n : Nat) (vs : List α) (h : n + fs.length ≤ vs.length) :
    List.foldl (fun (vs : List α) (p : Int × β) => setIndexL vs p.1 (g p.2)) vs (enumFrom (n : Int) fs)
      = vs.take n ++ fs.map g ++ vs.drop (n + fs.length) := by
  induction fs generalizing n vs with
  | nil => simp [enumFrom]
  | cons f fs ih =>
    simp only [enumFrom, List.foldl_cons, setIndexL_nat]
    have hn : n < vs.length := by simp at h; omega
    have := ih (n + 1) (vs.set n (g f)) (by simp at h ⊢; omega)
    rw [show ((n : Int) + 1) = ((n + 1 : Nat) : Int) by simp, this]
    simp only [List.length_cons, List.map_cons]
    rw [List.take_set, List.drop_set]
    have h1 : ¬ (n + 1 + fs.length < n) := by omega
    have h2 : n + 1 + fs.length = n + (fs.length + 1) := by omega
    simp only [h2]
    have h3 : (List.take (n + 1) vs).set n (g f) = List.take n vs ++ [g f] := by
      rw [List.take_succ_eq_append_getElem hn, List.set_append_right _ _ (by simp [Nat.min_eq_left (Nat.le_of_lt hn)])]
      simp [Nat.min_eq_left (Nat.le_of_lt hn)]
    have h4 : ¬ (n + (fs.length + 1) ≤ n) := by omega
    simp [h3, h4]

/-- at the end of the rows `Next` returns `io.EOF` and changes nothing -/
theorem rowsNext_eof (r : Drv.rows) (values : List Drv.Value) (h : r.idx ≥ r.rows.length) :
    Gen.rowsNext r values = (some .EOF, r, values) := by
  simp [Gen.rowsNext, Go.len, h]

/-- otherwise it fills the destination (one slot per column) with the field values in order — slot `j` gets field
    `j` — then the count as a 64-bit integer in the last slot, and advances the cursor by one -/
theorem rowsNext_row (r : Drv.rows) (values : List Drv.Value) (i : Nat) (row : Drv.row)
    (hi : r.idx = i) (hrow : r.rows[i]? = some row) (hlen : values.length = row.fields.length + 1) :
    Gen.rowsNext r values =
      (none, { r with idx := i + 1 }, row.fields.map Drv.Value.ofString ++ [Drv.Value.ofInt64 (u64ToInt64 row.count)]) := by
  have hlt : i < r.rows.length := by
    rcases Nat.lt_or_ge i r.rows.length with h | h
    · exact h
    · simp [List.getElem?_eq_none h] at hrow
  have hidx : indexL r.rows r.idx = row := by
    have : ¬ ((i : Int) < 0) := by omega
    simp [indexL, hi, List.getD, hrow, this]
  have hge : ¬ (r.idx ≥ (r.rows.length : Int)) := by omega
  simp only [Gen.rowsNext, Go.len, hge, decide_false, Bool.false_eq_true, ite_false, hidx]
  have hloop := copy_loop Drv.Value.ofString row.fields 0 values (by omega)
  simp only [Int.natCast_zero, List.take_zero, List.nil_append, Nat.zero_add] at hloop
  simp only [enum]
  have : (fun (values : List Drv.Value) (p1_ : Int × Bytes) => setIndexL values p1_.1 (Drv.Value.ofString p1_.2))
      = (fun (vs : List Drv.Value) (p : Int × Bytes) => setIndexL vs p.1 (Drv.Value.ofString p.2)) := rfl
  rw [hloop, setIndexL_nat]
  have hd : (List.drop row.fields.length values).length = 1 := by simp [hlen]
  match hdv : List.drop row.fields.length values, hd with
  | [x], _ =>
    have : (List.map Drv.Value.ofString row.fields ++ [x]).set row.fields.length (Drv.Value.ofInt64 (u64ToInt64 row.count))
        = List.map Drv.Value.ofString row.fields ++ [Drv.Value.ofInt64 (u64ToInt64 row.count)] := by
      rw [List.set_append_right _ _ (by simp)]; simp
    simp [this, hi]

/-- how a handed-out `driver.Value` reads as a model cell -/
def valueCell : Drv.Value → Cell
  | .ofString s => .text s
  | .ofInt64 i => .int i.toNat
  | .nil => .text []

/-- for counts below 2^63 the values `Next` hands out are the cells of the model row -/
theorem rowsNext_cells (row : Drv.row) (h : row.count.toNat < 2 ^ 63) :
    (row.fields.map Drv.Value.ofString ++ [Drv.Value.ofInt64 (u64ToInt64 row.count)]).map valueCell = rowCells row := by
  have : u64ToInt64 row.count = (row.count.toNat : Int) := by
    unfold u64ToInt64; split <;> omega
  simp [rowCells, valueCell, this, List.map_map, Function.comp_def]

/-! ### column types -/

theorem columnTypeDatabaseTypeName_eq (r : Drv.rows) (gb : List Bytes) (c : Bytes) (hc : r.cols = gb ++ [c]) (i : Nat) :
    Gen.columnTypeDatabaseTypeName r i = if i < gb.length then [84, 69, 88, 84] else [66, 73, 71, 73, 78, 84] := by
  simp only [Gen.columnTypeDatabaseTypeName, Go.len, hc, List.length_append, List.length_cons, List.length_nil]
  by_cases h : i < gb.length
  · have : (i : Int) < ((gb.length + (0 + 1) : Nat) : Int) - 1 := by omega
    simp [h, this]
  · have : ¬ (i : Int) < ((gb.length + (0 + 1) : Nat) : Int) - 1 := by omega
    simp [h, this]

/-- the type names of the columns are the model's `types` (TEXT for every group-by column, BIGINT for the last one) -/
theorem columnTypes_eq (g : Lib.Result) (res : Result) (gb : List Bytes) :
    (List.range (gb.length + 1)).map (fun i => Gen.columnTypeDatabaseTypeName (Gen.newRows g gb) (i : Nat))
      = (Updog.newRows res gb).types.map (fun s => if s = "TEXT" then [84, 69, 88, 84] else [66, 73, 71, 73, 78, 84]) := by
  have hc : (Gen.newRows g gb).cols = gb ++ [countCol] := by rw [newRows_spec]
  simp only [columnTypeDatabaseTypeName_eq _ gb countCol hc, Updog.newRows, List.map_append, List.map_map]
  rw [List.range_succ, List.map_append]
  congr 1
  · apply List.ext_getElem
    · simp
    · intro j h1 h2; simp at h1; simp [h1]
  · simp

/-! ### the DSN options of openFile -/

def toOutcome {α : Type} : Except Err5 α → Outcome α
  | .ok a => .ok a
  | .error _ => .error

/-- `optValues.Get(name)` for the three option names, as the model's `DsnOpts` -/
def dsnOptsOf (v : Url.Values) : DsnOpts :=
  let look (k : Bytes) := (v.find? (fun kv => kv.1 == k)).map (·.2)
  ⟨look [112, 114, 101, 108, 111, 97, 100], look [108, 114, 117, 99, 97, 99, 104, 101],
   look [108, 114, 117, 99, 97, 99, 104, 101, 115, 105, 122, 101]⟩

theorem get_eq_true (v : Url.Values) (k : Bytes) :
    ((v.find? (fun kv => kv.1 == k)).map (·.2) == some bTrue) = (Url.Values.Get v k == bTrue) := by
  unfold Url.Values.Get
  cases v.find? (fun kv => kv.1 == k) with
  | none => simp [bTrue]
  | some kv => simp

theorem get_getD (v : Url.Values) (k : Bytes) :
    ((v.find? (fun kv => kv.1 == k)).map (·.2)).getD [] = Url.Values.Get v k := by
  unfold Url.Values.Get
  cases v.find? (fun kv => kv.1 == k) <;> rfl

/-- the index options a configuration stands for, in the order `openFile` appends them -/
def optionsOf (c : FileConfig) : List Lib.IndexOption :=
  (if c.preload then [Lib.IndexOption.WithPreloadedData] else []) ++
  (match c.cacheSize with | some n => [Lib.IndexOption.WithCache ⟨n.toUInt64⟩] | none => [])

/-- regenerated option handling of `openFile` = the model's `dsnConfig`: the cache key is (file, option text), the
    option names are `preload` / `lrucache` / `lrucachesize`, the size is read (and must parse) exactly when
    `lrucache=true`, an invalid size is the error "invalid lrucachesize" -/
theorem openFileOpts_eq (file : Bytes) (v : Url.Values) :
    Gen.openFileOpts file v =
      match dsnConfig (dsnOptsOf v) with
      | .ok c => .ok { key := { file := file, opts := c.keyOpts }, opts := optionsOf c }
      | _ => .error (.errorf [105, 110, 118, 97, 108, 105, 100, 32, 108, 114, 117, 99, 97, 99, 104, 101, 115, 105, 122, 101, 58, 32, 37, 118]) := by
  have hb : ([116, 114, 117, 101] : Bytes) = bTrue := rfl
  simp only [dsnConfig, dsnOptsOf, get_eq_true, get_getD]
  simp only [Gen.openFileOpts, hb, Go.parseUint64, Lib.NewLRUCache]
  generalize Url.Values.Get v [112, 114, 101, 108, 111, 97, 100] = a
  generalize Url.Values.Get v [108, 114, 117, 99, 97, 99, 104, 101] = b
  generalize Url.Values.Get v [108, 114, 117, 99, 97, 99, 104, 101, 115, 105, 122, 101] = c
  by_cases h1 : (a == bTrue) = true <;> by_cases h2 : (b == bTrue) = true <;>
    simp only [h1, h2, ite_true, ite_false, Bool.false_eq_true] <;>
    first
    | (cases h3 : Updog.parseUint64 c <;> simp [h3, optionsOf, sPreload, sLru, sLruSize, bTrue])
    | simp [optionsOf, sPreload, bTrue]

theorem openFileOpts_outcome (file : Bytes) (v : Url.Values) :
    (toOutcome (Gen.openFileOpts file v)).map (fun o => (o.key.file, o.key.opts, o.opts)) =
      (dsnConfig (dsnOptsOf v)).map (fun c => (file, c.keyOpts, optionsOf c)) := by
  rw [openFileOpts_eq]
  have := C12.dsn_never_panics (dsnOptsOf v)
  cases h : dsnConfig (dsnOptsOf v) <;> simp_all [toOutcome, Outcome.map]

/-! ### examples -/

example : Gen.newRows ⟨5, [⟨[⟨[97], [49]⟩, ⟨[98], [50]⟩], 3⟩, ⟨[⟨[97], [51]⟩, ⟨[98], [52]⟩], 2⟩]⟩ [[97], [98]] =
    ⟨[[97], [98], [99, 111, 117, 110, 116]], [⟨[[49], [50]], 3⟩, ⟨[[51], [52]], 2⟩], false, 0⟩ := by decide
example : Gen.newRows ⟨5, []⟩ [] = ⟨[[99, 111, 117, 110, 116]], [⟨[], 5⟩], false, 0⟩ := by decide
example : Gen.rowsNext ⟨[[97], [98], [99]], [⟨[[49], [50]], 3⟩], false, 0⟩ [.nil, .nil, .nil] =
    (none, ⟨[[97], [98], [99]], [⟨[[49], [50]], 3⟩], false, 1⟩, [.ofString [49], .ofString [50], .ofInt64 3]) := by decide
example : (Gen.rowsNext ⟨[[97]], [⟨[], 3⟩], false, 1⟩ [.nil]).1 = some .EOF := by decide
example : Gen.openFileOpts [120] [([112, 114, 101, 108, 111, 97, 100], [116, 114, 117, 101]),
      ([108, 114, 117, 99, 97, 99, 104, 101], [116, 114, 117, 101]),
      ([108, 114, 117, 99, 97, 99, 104, 101, 115, 105, 122, 101], [52, 50])] =
    .ok ⟨⟨[120], sPreload ++ sLru ++ sLruSize ++ [52, 50]⟩, [.WithPreloadedData, .WithCache ⟨42⟩]⟩ := by rfl

end Updog.GeneratedEq
