/-
Equivalence of the group-by code REGENERATED from query.go / index.go (`Gen.Query_populateGroupBy`, `Gen.Query_groupBy`,
`Gen.Index_GetSchema` in `Updog/GeneratedFns.lean`, written by extract/translate_t6.go on every run) with the
hand-written model (`populateGroupByQ` / `populateGroupBy`, `groupBy`, `getSchema` of Updog/Model).

The generated definitions work on Lean structures emitted from the Go struct declarations; the functions below read
them as the plain tuples of the model.
-/
import Updog.GeneratedFns
import Updog.Proofs.GoPreludeT6
import Updog.Proofs.GroupBy
import Updog.Model.QueryState
import Updog.Props.C08

namespace Updog.GeneratedEq
open Updog.Go

/-! ### reading the generated structures as model values -/

/-- `groupByValue{Value, Idx}` ↦ (value, value index) -/
def gbvOf (v : Gen.groupByValue) : Bytes × UInt64 := (v.Value, v.Idx)
/-- `groupBy{Column, Values}` ↦ `GBField` -/
def gbfOf (g : Gen.groupBy) : GBField := ⟨g.Column, g.Values.map gbvOf⟩
/-- `schema{Columns: map[string]*column{Values: map[string]uint64}}` (maps as entry lists) ↦ `Schema` -/
def schemaOf (s : Gen.schema) : Schema := s.Columns.map fun cv => (cv.1, cv.2.Values)
/-- the other direction: every model schema is the reading of a generated one -/
def schemaTo (s : Schema) : Gen.schema := ⟨s.map fun cv => (cv.1, ⟨cv.2⟩)⟩
/-- `ResultField{Column, Value}` ↦ (column, value) -/
def fieldOf (f : Gen.ResultField) : Bytes × Bytes := (f.Column, f.Value)
/-- `ResultGroup{Fields, Count}` ↦ (fields, count) -/
def groupOf (g : Gen.ResultGroup) : Fields × Nat := (g.Fields.map fieldOf, g.Count.toNat)
/-- the internal `resultGroup{fields, result}` ↦ (fields, bitmap) -/
def rgOf (rg : Gen.resultGroup) : Fields × Nat := (rg.fields.map fieldOf, rg.result)
/-- `Schema{Columns: []SchemaColumn{Name, Values: []SchemaColumnValue{Value}}}` ↦ what `getSchema` yields -/
def schemaOutOf (s : Gen.Schema) : List (Bytes × List Bytes) :=
  s.Columns.map fun c => (c.Name, c.Values.map (·.Value))

theorem schemaOf_schemaTo (s : Schema) : schemaOf (schemaTo s) = s := by
  simp [schemaOf, schemaTo, Function.comp_def]

/-! ### populateGroupBy -/

theorem mapLookup_columns (cols : List (Bytes × Gen.column)) (c : Bytes) :
    (Go.mapLookup cols c).map (·.Values) = Schema.col (cols.map fun cv => (cv.1, cv.2.Values)) c := by
  induction cols with
  | nil => rfl
  | cons cv rest ih =>
    obtain ⟨k, v⟩ := cv
    simp only [Go.mapLookup, List.map_cons, Schema.col]
    split
    · rfl
    · exact ih

/-- the value loop of `populateGroupBy`: one `groupByValue` per map entry, appended in iteration order -/
theorem collect_values (gb : Gen.groupBy) (vs : List (Bytes × UInt64)) :
    List.foldl (fun (gb : Gen.groupBy) (kv : Bytes × UInt64) =>
        { gb with Values := gb.Values ++ [({ Value := kv.1, Idx := kv.2 } : Gen.groupByValue)] }) gb vs
      = { gb with Values := gb.Values ++ vs.map fun kv => ({ Value := kv.1, Idx := kv.2 } : Gen.groupByValue) } := by
  induction vs generalizing gb with
  | nil => simp
  | cons kv r ih => rw [List.foldl_cons, ih]; simp

/-- the `sort.Slice` of `populateGroupBy` (by `Value`, ascending, bytewise) is the model's `sortVals` -/
theorem sorted_values (vs : List (Bytes × UInt64)) :
    (Go.sortSlice (fun (a b : Gen.groupByValue) => bytesLt a.Value b.Value)
        (vs.map fun kv => ({ Value := kv.1, Idx := kv.2 } : Gen.groupByValue))).map gbvOf = sortVals vs := by
  rw [Go.sortSlice_map]
  simp only [List.map_map]
  have : (gbvOf ∘ fun kv : Bytes × UInt64 => ({ Value := kv.1, Idx := kv.2 } : Gen.groupByValue)) = id := by
    funext kv; rfl
  rw [this, List.map_id]
  exact Go.sortSlice_bytesLt_key (fun kv : Bytes × UInt64 => kv.1) vs

/-- the bytes of the format string `"column %q not found"` -/
def notFoundFormat : Bytes := [99, 111, 108, 117, 109, 110, 32, 37, 113, 32, 110, 111, 116, 32, 102, 111, 117, 110, 100]

example : String.fromUTF8? ⟨notFoundFormat.toArray⟩ = some "column %q not found" := by decide

/-- what `populateGroupBy` returns, read as the model does: (`some fields` iff the error is nil, new hidden state) -/
def popOut (r : Option Go.Err × List Gen.groupBy) : Option (List GBField) × List GBField :=
  (match r.1 with | none => some (r.2.map gbfOf) | some _ => none, r.2.map gbfOf)

/-- what leaving the column loop means for the function -/
def flowOut (f : Go.Flow (Option Go.Err × List Gen.groupBy) (List Gen.groupBy)) : Option Go.Err × List Gen.groupBy :=
  match f with
  | .ret r => r
  | .next st => (none, st)

theorem loop1_eq (sch : Gen.schema) (cols : List Bytes) (acc : List Gen.groupBy) :
    popOut (flowOut (Gen.Query_populateGroupBy.loop1 sch cols acc))
      = populateGroupByQ (schemaOf sch) cols (acc.map gbfOf) := by
  induction cols generalizing acc with
  | nil => simp [Gen.Query_populateGroupBy.loop1, flowOut, popOut, populateGroupByQ]
  | cons c cs ih =>
    have hl := mapLookup_columns sch.Columns c
    simp only [Gen.Query_populateGroupBy.loop1, populateGroupByQ]
    cases hc : Go.mapLookup sch.Columns c with
    | none =>
      rw [hc] at hl
      simp only [Option.map_none] at hl
      simp only [schemaOf, ← hl]
      simp [flowOut, popOut]
    | some col =>
      rw [hc] at hl
      simp only [Option.map_some] at hl
      simp only [schemaOf, ← hl]
      rw [ih]
      congr 1
      simp only [List.map_append, List.map_cons, List.map_nil]
      congr 2
      rw [collect_values]
      simp only [gbfOf, List.nil_append]
      congr 1
      exact sorted_values col.Values

/-- **`(*Query).populateGroupBy` = model `populateGroupByQ`**, for every stale hidden state, column list and schema:
    the hidden state is reset first (the result does not depend on `hidden`), columns are resolved by their exact
    name in list order, each with all values of the column sorted ascending bytewise; at the first unknown column
    an error is returned and the columns resolved so far stay behind. -/
theorem populateGroupBy_eq (hidden : List Gen.groupBy) (cols : List Bytes) (sch : Gen.schema) :
    popOut (Gen.Query_populateGroupBy hidden cols sch) = populateGroupByQ (schemaOf sch) cols [] := by
  have h := loop1_eq sch cols []
  simp only [List.map_nil] at h
  rw [← h]
  simp only [Gen.Query_populateGroupBy, flowOut]
  cases Gen.Query_populateGroupBy.loop1 sch cols [] <;> rfl

/-- the same for model schemas -/
theorem populateGroupBy_eq' (hidden : List Gen.groupBy) (cols : List Bytes) (s : Schema) :
    popOut (Gen.Query_populateGroupBy hidden cols (schemaTo s)) = populateGroupByQ s cols [] := by
  rw [populateGroupBy_eq, schemaOf_schemaTo]

/-- … and the pure `populateGroupBy` of Model/Index.lean: `some fields` exactly when the returned error is nil -/
theorem populateGroupBy_pure (hidden : List Gen.groupBy) (cols : List Bytes) (sch : Gen.schema) :
    (popOut (Gen.Query_populateGroupBy hidden cols sch)).1 = populateGroupBy (schemaOf sch) cols := by
  rw [populateGroupBy_eq, C08.populateQ_fst]
  cases populateGroupBy (schemaOf sch) cols <;> simp

theorem loop1_err (sch : Gen.schema) (cols : List Bytes) (acc : List Gen.groupBy) :
    (flowOut (Gen.Query_populateGroupBy.loop1 sch cols acc)).1
      = (cols.find? fun c => ((schemaOf sch).col c).isNone).map
          fun c => Go.errorf notFoundFormat [c] := by
  induction cols generalizing acc with
  | nil => simp [Gen.Query_populateGroupBy.loop1, flowOut]
  | cons c cs ih =>
    have hl := mapLookup_columns sch.Columns c
    simp only [Gen.Query_populateGroupBy.loop1, List.find?_cons]
    cases hc : Go.mapLookup sch.Columns c with
    | none =>
      rw [hc] at hl
      simp only [Option.map_none] at hl
      simp only [schemaOf, ← hl]
      simp [flowOut, Go.errorf, notFoundFormat]
    | some col =>
      rw [hc] at hl
      simp only [Option.map_some] at hl
      simp only [schemaOf, ← hl]
      simp only [Option.isNone_some]
      exact ih _

/-- the error of `populateGroupBy` names the first listed column the schema does not have -/
theorem populateGroupBy_err (hidden : List Gen.groupBy) (cols : List Bytes) (sch : Gen.schema) :
    (Gen.Query_populateGroupBy hidden cols sch).1
      = (cols.find? fun c => ((schemaOf sch).col c).isNone).map
          fun c => Go.errorf notFoundFormat [c] := by
  rw [← loop1_err sch cols []]
  simp only [Gen.Query_populateGroupBy, flowOut]
  cases Gen.Query_populateGroupBy.loop1 sch cols [] <;> rfl

/-! ### groupBy -/

/-- the candidate group of parent `rg` and value `v` of column `gbf`: dropped when `GetCol` fails or the
    intersection is empty; the field tuple is a copy of the parent's with the new field appended -/
def childOf (getCol : UInt64 → Option Nat) (gbf : Gen.groupBy) (rg : Gen.resultGroup) (v : Gen.groupByValue) :
    Option Gen.resultGroup :=
  match getCol v.Idx with
  | none => none
  | some vbm =>
    if popcount (rg.result &&& vbm) = 0 then none
    else some ⟨rg.fields ++ [⟨gbf.Column, v.Value⟩], rg.result &&& vbm⟩

/-- all groups of a level stay below the cardinality bound (they are intersections with the start bitmap) -/
def Bounded (B : Nat) (rgs : List Gen.resultGroup) : Prop := ∀ rg ∈ rgs, popcount rg.result ≤ B

theorem childOf_bounded {getCol gbf rg v c B} (hb : popcount rg.result ≤ B)
    (h : childOf getCol gbf rg v = some c) : popcount c.result ≤ B := by
  unfold childOf at h
  cases hg : getCol v.Idx with
  | none => simp [hg] at h
  | some vbm =>
    simp only [hg] at h
    split at h
    · simp at h
    · simp only [Option.some.injEq] at h
      subst h
      exact Nat.le_trans (Go.popcount_and_le _ _) hb

theorem refine_childOf (ix : Index) (gbf : Gen.groupBy) (rgs : List Gen.resultGroup) :
    (rgs.flatMap fun rg => gbf.Values.filterMap (childOf ix.getCol gbf rg)).map rgOf
      = refine ix (gbfOf gbf) (rgs.map rgOf) := by
  simp only [refine, List.map_flatMap, List.flatMap_map, gbfOf, List.filterMap_map, List.map_filterMap]
  apply flatMap_congr'
  intro rg _
  apply filterMap_congr'
  intro v _
  simp only [Function.comp, childOf, gbvOf, rgOf]
  cases ix.getCol v.Idx with
  | none => rfl
  | some vbm =>
    by_cases hz : popcount (rg.result &&& vbm) = 0 <;> simp [hz, fieldOf, rgOf]

theorem bounded_level {getCol : UInt64 → Option Nat} {gbf : Gen.groupBy} {B : Nat} {s : List Gen.resultGroup}
    (hb : Bounded B s) : Bounded B (s.flatMap fun rg => gbf.Values.filterMap (childOf getCol gbf rg)) := by
  intro c hc
  obtain ⟨rg, hrg, hc⟩ := List.mem_flatMap.mp hc
  obtain ⟨v, _, hv⟩ := List.mem_filterMap.mp hc
  exact childOf_bounded (hb rg hrg) hv

/-- the shape of `Query.groupBy`: a level loop `outer` that does `childOf` for every parent and value, then a loop
    `final` that turns every surviving group into (fields, cardinality) -/
theorem groupBy_shape (ix : Index) (result : Nat) (hres : popcount result < 2 ^ 64)
    (outer : List Gen.resultGroup → Gen.groupBy → List Gen.resultGroup)
    (final : List Gen.ResultGroup → Gen.resultGroup → List Gen.ResultGroup)
    (houter : ∀ s gbf, Bounded (popcount result) s →
      outer s gbf = s.flatMap fun rg => gbf.Values.filterMap (childOf ix.getCol gbf rg))
    (hfinal : ∀ acc rg, final acc rg = acc ++ [⟨rg.fields, Go.bmCard rg.result⟩])
    (fields : List Gen.groupBy) (hne : fields ≠ []) :
    (List.foldl final [] (List.foldl outer [⟨[], result⟩] fields)).map groupOf
      = Updog.groupBy ix (fields.map gbfOf) result := by
  have hsim := Go.foldl_sim
    (fun (s : List Gen.resultGroup) (s' : List (Fields × Nat)) => s' = s.map rgOf ∧ Bounded (popcount result) s)
    gbfOf outer (fun rgs gbf => refine ix gbf rgs)
    (by
      intro s s' gbf ⟨hs, hb⟩
      rw [houter s gbf hb, hs]
      exact ⟨(refine_childOf ix gbf s).symm, bounded_level hb⟩)
    fields [⟨[], result⟩] [([], result)]
    ⟨rfl, by intro rg hrg; simp at hrg; subst hrg; exact Nat.le_refl _⟩
  obtain ⟨h1, h2⟩ := hsim
  have hemp : (fields.map gbfOf).isEmpty = false := by
    cases fields with
    | nil => exact absurd rfl hne
    | cons f fs => rfl
  unfold Updog.groupBy
  simp only [hemp, Bool.false_eq_true, if_false]
  rw [h1, Go.foldl_map_of final (fun rg => ⟨rg.fields, Go.bmCard rg.result⟩) _ (fun acc rg _ => hfinal acc rg)]
  simp only [List.nil_append, List.map_map]
  apply List.map_congr_left
  intro rg hrg
  have hlt : popcount rg.result < 2 ^ 64 := Nat.lt_of_le_of_lt (h2 rg hrg) hres
  simp [groupOf, rgOf, Go.bmCard_toNat _ hlt]

/-- **`(*Query).groupBy` = model `groupBy`**, for every column getter, every resolved field list and every result
    bitmap of cardinality below 2^64 (`GetCardinality` is a `uint64`; roaring bitmaps hold at most 2^32 rows):
    level by level in list order, values in the stored (sorted) order, parent ∩ value bitmap, empty intersections
    dropped, fields = parent's fields + the new field (copied, never shared), count = cardinality of the
    intersection. -/
theorem groupBy_eq (ix : Index) (fields : List Gen.groupBy) (result : Nat) (hres : popcount result < 2 ^ 64) :
    (Gen.Query_groupBy ix.getCol fields result).map groupOf = Updog.groupBy ix (fields.map gbfOf) result := by
  cases fields with
  | nil => simp [Gen.Query_groupBy, Updog.groupBy, Go.len]
  | cons f fs =>
    have hne : ((Go.len (f :: fs)) == (0 : Int)) = false := by
      simp [Go.len]; omega
    unfold Gen.Query_groupBy
    simp only [hne, Bool.false_eq_true, if_false]
    refine groupBy_shape ix result hres _ _ ?_ ?_ (f :: fs) (by simp)
    · -- one level: for every parent, for every value of the column, `childOf`
      intro s gbf hb
      refine (Go.foldl_flatMap_of _ (fun rg => gbf.Values.filterMap (childOf ix.getCol gbf rg)) s ?_ []).trans (by simp)
      intro acc rg hrg
      refine Go.foldl_filterMap_of _ (childOf ix.getCol gbf rg) gbf.Values ?_ acc
      intro acc v _
      unfold childOf
      cases hg : ix.getCol v.Idx with
      | none => rfl
      | some vbm =>
        have hlt : popcount (rg.result &&& vbm) < 2 ^ 64 :=
          Nat.lt_of_le_of_lt (Nat.le_trans (Go.popcount_and_le _ _) (hb rg hrg)) hres
        simp only [Go.bmAnd, Go.bmCard_eq_zero _ hlt, Go.copy_makeSlice]
        by_cases hz : popcount (rg.result &&& vbm) = 0
        · simp [hz]
        · simp [hz]
    · intro acc rg
      rfl

/-- the groups of the generated `groupBy`, when the fields come from the generated `populateGroupBy`: the two
    regenerated functions composed are the model's `populateGroupBy` + `groupBy` -/
theorem populate_then_groupBy (ix : Index) (hidden : List Gen.groupBy) (cols : List Bytes) (sch : Gen.schema)
    (result : Nat) (hres : popcount result < 2 ^ 64)
    (hok : (Gen.Query_populateGroupBy hidden cols sch).1 = none) :
    populateGroupBy (schemaOf sch) cols = some ((Gen.Query_populateGroupBy hidden cols sch).2.map gbfOf) ∧
    (Gen.Query_groupBy ix.getCol (Gen.Query_populateGroupBy hidden cols sch).2 result).map groupOf
      = Updog.groupBy ix ((Gen.Query_populateGroupBy hidden cols sch).2.map gbfOf) result := by
  refine ⟨?_, groupBy_eq ix _ result hres⟩
  rw [← populateGroupBy_pure hidden cols sch]
  simp [popOut, hok]

/-! ### GetSchema -/

theorem collect_schema_values (sc : Gen.SchemaColumn) (vs : List (Bytes × UInt64)) :
    List.foldl (fun (sc : Gen.SchemaColumn) (kv : Bytes × UInt64) =>
        { sc with Values := sc.Values ++ [({ Value := kv.1 } : Gen.SchemaColumnValue)] }) sc vs
      = { sc with Values := sc.Values ++ vs.map fun kv => ({ Value := kv.1 } : Gen.SchemaColumnValue) } := by
  induction vs generalizing sc with
  | nil => simp
  | cons kv r ih => rw [List.foldl_cons, ih]; simp

theorem sorted_schema_values (vs : List (Bytes × UInt64)) :
    (Go.sortSlice (fun (a b : Gen.SchemaColumnValue) => bytesLt a.Value b.Value)
        (vs.map fun kv => ({ Value := kv.1 } : Gen.SchemaColumnValue))).map (·.Value) = (sortVals vs).map (·.1) := by
  rw [Go.sortSlice_map]
  simp only [List.map_map]
  have : ((fun (x : Gen.SchemaColumnValue) => x.Value) ∘ fun kv : Bytes × UInt64 => ({ Value := kv.1 } : Gen.SchemaColumnValue))
      = (·.1) := by
    funext kv; rfl
  rw [this]
  congr 1
  exact Go.sortSlice_bytesLt_key (fun kv : Bytes × UInt64 => kv.1) vs

/-- one `SchemaColumn` as `GetSchema` builds it from a map entry -/
def schemaColOf (kv : Bytes × Gen.column) : Gen.SchemaColumn :=
  { Name := kv.1,
    Values := Go.sortSlice (fun (a b : Gen.SchemaColumnValue) => bytesLt a.Value b.Value)
      (kv.2.Values.map fun kv => ({ Value := kv.1 } : Gen.SchemaColumnValue)) }

/-- the shape of `GetSchema`: a loop `step` that appends `schemaColOf` of every map entry, then the sort by name -/
theorem getSchema_shape (ix : Index) (sch : Gen.schema) (hs : ix.schema = schemaOf sch)
    (step : List Gen.SchemaColumn → Bytes × Gen.column → List Gen.SchemaColumn)
    (hstep : ∀ acc kv, step acc kv = acc ++ [schemaColOf kv]) :
    schemaOutOf ⟨Go.sortSlice (fun (a b : Gen.SchemaColumn) => bytesLt a.Name b.Name) (List.foldl step [] sch.Columns)⟩
      = getSchema ix := by
  unfold getSchema
  rw [Go.foldl_map_of step schemaColOf sch.Columns (fun acc kv _ => hstep acc kv)]
  simp only [List.nil_append, hs, schemaOutOf, schemaOf, List.map_map]
  rw [← Go.sortSlice_bytesLt_key (fun a : Bytes × List Bytes => a.1), Go.sortSlice_map, Go.sortSlice_map]
  simp only [List.map_map]
  have hf : ((fun c : Gen.SchemaColumn => (c.Name, List.map (fun x => x.Value) c.Values)) ∘ schemaColOf)
      = ((fun cv : Bytes × List (Bytes × UInt64) => (cv.1, List.map (fun x => x.1) (sortVals cv.2))) ∘
          fun cv : Bytes × Gen.column => (cv.1, cv.2.Values)) := by
    funext kv
    simp only [Function.comp, schemaColOf]
    rw [sorted_schema_values]
  rw [hf]
  rfl

/-- **`(*Index).GetSchema` = model `getSchema`**: one entry per column of the schema with all its values sorted
    ascending bytewise, the columns sorted ascending bytewise by name (whatever the map iteration orders are). -/
theorem getSchema_eq (ix : Index) (sch : Gen.schema) (hs : ix.schema = schemaOf sch) :
    schemaOutOf (Gen.Index_GetSchema sch) = getSchema ix := by
  unfold Gen.Index_GetSchema
  refine getSchema_shape ix sch hs _ ?_
  intro acc kv
  simp only [collect_schema_values, List.nil_append, schemaColOf]

/-! ### concrete runs -/

/-- schema with a column `a` (values "2" ↦ 2, "1" ↦ 1, in that map order) and a column `b` (value "x" ↦ 3) -/
def exSchema : Gen.schema :=
  ⟨[([97], ⟨[([50], 2), ([49], 1)]⟩), ([98], ⟨[([120], 3)]⟩)]⟩

/-- value index ↦ bitmap: a=1 ↦ rows {0,2}, a=2 ↦ rows {1}, b=x ↦ rows {0,1} -/
def exGetCol (k : UInt64) : Option Nat := if k == 1 then some 5 else if k == 2 then some 2 else if k == 3 then some 3 else none

-- a stale hidden state is dropped; values come out sorted
example : Gen.Query_populateGroupBy [⟨[122], []⟩] [[97], [98]] exSchema
    = (none, [⟨[97], [⟨[49], 1⟩, ⟨[50], 2⟩]⟩, ⟨[98], [⟨[120], 3⟩]⟩]) := by decide

-- unknown column: the error names it, the columns resolved before it stay behind
example : Gen.Query_populateGroupBy [] [[97], [65], [98]] exSchema
    = (some (Go.errorf notFoundFormat [[65]]), [⟨[97], [⟨[49], 1⟩, ⟨[50], 2⟩]⟩]) := by decide

-- group by a, b over rows {0,1,2}: (1,x) ↦ 1 row, (2,x) ↦ 1 row; row 2 has no b and falls in no group
example : Gen.Query_groupBy exGetCol (Gen.Query_populateGroupBy [] [[97], [98]] exSchema).2 7
    = [⟨[⟨[97], [49]⟩, ⟨[98], [120]⟩], 1⟩, ⟨[⟨[97], [50]⟩, ⟨[98], [120]⟩], 1⟩] := by decide

example : Gen.Query_groupBy exGetCol (Gen.Query_populateGroupBy [] [[97]] exSchema).2 7
    = [⟨[⟨[97], [49]⟩], 2⟩, ⟨[⟨[97], [50]⟩], 1⟩] := by decide

example : Gen.Index_GetSchema ⟨exSchema.Columns.reverse⟩
    = ⟨[⟨[97], [⟨[49]⟩, ⟨[50]⟩]⟩, ⟨[98], [⟨[120]⟩]⟩]⟩ := by decide

end Updog.GeneratedEq
