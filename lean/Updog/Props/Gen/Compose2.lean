/-
COMPOSITION, continued: the two items the report of `Updog/Props/Gen/Compose.lean` listed as NOT composed.

1. **The generated LRU inside the generated `Execute`.** `Compose.lean` threads the MODEL LRU (`lruCacheImpl`) through
   `Gen.execute`. Here the cache is `genLruImpl`: its state is the GENERATED `Gen.LRUCache` (a `container/list` with
   element identities, a Go map, `uint64` wrap-around sizes, four optional counters), its `Get` / `Put` are the
   generated `Gen.lruGet` / `Gen.lruPut`. It simulates `lruCacheImpl` along `abs` (`LruRel`) from `Gen.newLRUCache`
   with ANY `WithCacheMetrics` options, and `genExecute_eq_executeC` / `genExecute_history_eq_sql` are lifted to it,
   together with the byte bound of C07 after every query.

2. **The driver's connection cache with the generated open.** T5's `Drv.World` has an abstract `openIndex` over a
   predicate `valid`. Here `valid` is "the generated `OpenIndexFromBoltDatabase` succeeds on this file's state"
   (`genValid`), every index handle carries what the generated open returned and the generated LRU the DSN asked for
   (`GWorld`), and a run-level theorem is proved for ALL histories of `Open` / statement / `Close` over several DSNs:
   (a) a statement on an open connection returns the SQL rows of ITS file, (b) failed opens (file missing, not an
   index, options unparsable) are part of the histories and change nothing, (c) the last `Close` of a key closes the
   key's index handle, and a file nobody holds a connection on has no handle open (no flock holder of
   `Model/OpenLock.lean` is left). The run refines `Drv.run` of `Model/Driver.lean`.

Helper lemmas: `Updog/Proofs/GenCompose2.lean` (part 1), `Updog/Proofs/GenCompose2Conn.lean` (part 2).
-/
import Updog.Proofs.GenCompose2Conn

set_option linter.unusedVariables false
namespace Updog.GenCompose2
open Updog Updog.Go Updog.GeneratedEq Updog.Go.T3 Updog.GenConn

/-! ## 1. the generated LRU inside the generated `Execute` -/

/-- **the generated `Get` / `Put` simulate the model's `lruCacheImpl` along `abs`.** `LruRel sz max g m` says: the
    representation invariant `Inv g` holds, the cache respects its bound, `g.maxSize = max`, no `Put` can overflow the
    `uint64` account, and `abs g = m` — up to the four counters when some of them are nil in `g`, exactly when all four
    are configured. Related states answer `Get` alike and `Get` / `Put` lead to related states. -/
theorem genLru_simulates (sz : Ref → UInt64) (max : UInt64) :
    CacheSim (genLruImpl sz) (lruCacheImpl fun b => (sz b).toNat) (LruRel sz max) :=
  genLru_sim sz max

/-- **`NewLRUCache(max, opts…)` is related to an empty model cache**, whatever `WithCacheMetrics` options are given
    (none: no counters, as the driver does; all four counters, as the server does; anything in between), and hence so is
    every state reachable from it by generated `Get`s and `Put`s (`genRun`), with the same `Get` answers as the model.
    Remaining precondition: `max + GetSizeInBytes(bm) + 64 < 2^64` for every bitmap. -/
theorem genLru_reachable_related (sz : Ref → UInt64) (max : UInt64) (ms : List Gen.CacheMetrics)
    (hfit : ∀ bm, max.toNat + (sz bm).toNat + ovh < 2 ^ 64) (ops : List GOp) :
    let g0 := Gen.newLRUCache max (ms.map Gen.withCacheMetrics)
    (abs g0).items = [] ∧
    LruRel sz max (genRun sz g0 ops).1 ((abs g0).run (ops.map (absOp sz))).1 ∧
    (genRun sz g0 ops).2 = ((abs g0).run (ops.map (absOp sz))).2 ∧
    ByteBound max (genRun sz g0 ops).1 := by
  intro g0
  obtain ⟨hrel, hitems⟩ := newLRUCache_rel sz max ms hfit
  obtain ⟨h1, h2⟩ := genRun_rel sz max ops _ _ hrel
  exact ⟨hitems, h1, h2, h1.byteBound⟩

/-- **`genExecute_eq_executeC` through the generated LRU**: the all-generated `Execute` on the index the generated open
    returned, with the generated LRU in state `g`, answers exactly like `executeC` with the model LRU in any related
    state `m`, and the states after are related again. A tree with a nil operand is rejected before the cache is
    touched. Remaining precondition: the result bitmap's cardinality fits 64 bits. -/
theorem genLruExecute_eq_executeC (H : Bytes → UInt64) (X : Ext) (bolt : Bolt) (hp : Heap)
    (i : Nat) (d : BucketData) (s : SchemaVal) (next : UInt32) (vals : ColGetter)
    (hg : GetColRefines (genGetCol X bolt hp vals) (fileIndex X d s next))
    (sz : Ref → UInt64) (max : UInt64) (g : Gen.LRUCache) (m : Lru) (hrel : LruRel sz max g m)
    (q : Go.Lib.Query) (stale : List Gen.groupBy)
    (hcard : ∀ e, libComplete q.Expr = some e → ∀ bm,
      (evalC H (lruCacheImpl fun b => (sz b).toNat) (fileIndex X d s next) m e).2 = some bm → popcount bm < 2 ^ 64) :
    match libComplete q.Expr with
    | none => execView (genExecute H (genLruImpl sz) X bolt hp (openedIndex i s next vals) q stale g) = (g, none)
    | some e =>
      (execView (genExecute H (genLruImpl sz) X bolt hp (openedIndex i s next vals) q stale g)).2
        = (executeC H (lruCacheImpl fun b => (sz b).toNat) (fileIndex X d s next) m ⟨e, q.GroupBy⟩).2 ∧
      LruRel sz max (execView (genExecute H (genLruImpl sz) X bolt hp (openedIndex i s next vals) q stale g)).1
        (executeC H (lruCacheImpl fun b => (sz b).toNat) (fileIndex X d s next) m ⟨e, q.GroupBy⟩).1 := by
  have hx := GenCompose.genExecute_eq_executeC H (genLruImpl sz) X bolt hp i d s next vals hg q stale g (by
    intro e he bm hbm
    rw [(evalC_sim H _ (genLru_sim sz max) e g m hrel).2] at hbm
    exact hcard e he bm hbm)
  cases hc : libComplete q.Expr with
  | none => rw [hc] at hx; exact hx
  | some e =>
    rw [hc] at hx
    simp only at hx ⊢
    rw [hx]
    have := executeC_sim H (fileIndex X d s next) (genLru_sim sz max) ⟨e, q.GroupBy⟩ g m hrel
    exact ⟨this.2, this.1⟩

/-- **every query of every history, executed by the generated `Execute` through the generated LRU of any capacity with
    any subset of counters configured, returns the SQL answer; and the byte bound of C07 holds after every query.**
    The cache is `NewLRUCache(max, WithCacheMetrics(m₁), …)`; `genExecuteAll` threads its state through the queries.
    The state after the whole history is related (`LruRel`: equal under `abs`, up to nil counters) to the state of the
    model LRU after the same history.
    Remaining preconditions: fewer than 2^64 rows; `max + GetSizeInBytes(bm) + 64 < 2^64` for every bitmap; the
    collision hypotheses of C01 / C02 / C03; those of `HoldsWriter` / `hg` (`written_file_holds`,
    `opened_index_refines`). -/
theorem genLru_history_eq_sql (H : Bytes → UInt64) (X : Ext) (rows : List Row) (bolt : Bolt) (hp : Heap) (i : Nat)
    (d : BucketData) (next : UInt32) (vals : ColGetter)
    (hw : HoldsWriter X d (Writer.addRows H {} rows) next)
    (hg : GetColRefines (genGetCol X bolt hp vals) (fileIndex X d (Writer.addRows H {} rows).schema next))
    (hlen : rows.length < 2 ^ 64)
    (qs : List (Query × List Gen.groupBy)) (sz : Ref → UInt64) (max : UInt64) (ms : List Gen.CacheMetrics)
    (hfit : ∀ bm, max.toNat + (sz bm).toNat + ovh < 2 ^ 64)
    (hinj : InjOn H (((qs.map (·.1)).map (·.expr)).flatMap (preimages H)))
    (hagree : KnownAgree H (Writer.addRows H {} rows).toIndex (((qs.map (·.1)).map (·.expr)).flatMap Expr.pairs))
    (hD : DataNoCollision H rows) (hq : ∀ q ∈ qs.map (·.1), EndToEnd.QueryOK H rows q) :
    let g0 := Gen.newLRUCache max (ms.map Gen.withCacheMetrics)
    let run := fun (l : List (Query × List Gen.groupBy)) =>
      genExecuteAll H (genLruImpl sz) X bolt hp (openedIndex i (Writer.addRows H {} rows).schema next vals)
        (l.map fun p => (⟨toLib p.1.expr, p.1.groupBy⟩, p.2)) g0
    (run qs).2 = (qs.map (·.1)).map (fun q => specExecute rows q) ∧
    (∀ n, ByteBound max (run (qs.take n)).1) ∧
    LruRel sz max (run qs).1
      (executeAllC H (lruCacheImpl fun b => (sz b).toNat) (Writer.addRows H {} rows).toIndex (abs g0) (qs.map (·.1))).1 := by
  intro g0 run
  obtain ⟨hrel, hitems⟩ := newLRUCache_rel sz max ms hfit
  have hU := subsOf_closed ((qs.map (·.1)).map (·.expr))
  have hkey := C03.keyOK_of_no_collision H (Writer.addRows H {} rows).toIndex _ hinj hagree
  have hsound := (C03.lru_empty (fun b => (sz b).toNat) _ hitems).sound H (Writer.addRows H {} rows).toIndex
    (subsOf ((qs.map (·.1)).map (·.expr)))
  have hmem : ∀ p ∈ qs, p.1.expr ∈ subsOf ((qs.map (·.1)).map (·.expr)) := fun p hp =>
    subsOf_mem _ p.1.expr (List.mem_map.mpr ⟨p.1, List.mem_map.mpr ⟨p, hp, rfl⟩, rfl⟩)
  obtain ⟨h1, h2⟩ := genLruExecuteAll_sim H X rows bolt hp i d next vals hw hg hlen sz max hU hkey qs _ _ hrel hsound hmem
  refine ⟨?_, ?_, h2⟩
  · show (genExecuteAll _ _ _ _ _ _ _ _).2 = _
    rw [h1]
    exact EndToEnd.cached_history_equals_sql H rows (qs.map (·.1)) _ _ hitems hinj hagree hD hq
  · intro n
    exact (genLruExecuteAll_sim H X rows bolt hp i d next vals hw hg hlen sz max hU hkey (qs.take n) _ _ hrel hsound
      (fun p hp => hmem p (List.mem_of_mem_take hp))).2.byteBound

/-- with all four counters configured the final generated state IS the model's final state under `abs` (so every C07
    statement about the model — exact counters, recency order, last `Put` wins — transfers to it) -/
theorem genLru_history_state_exact (H : Bytes → UInt64) (X : Ext) (rows : List Row) (bolt : Bolt) (hp : Heap) (i : Nat)
    (d : BucketData) (next : UInt32) (vals : ColGetter)
    (hw : HoldsWriter X d (Writer.addRows H {} rows) next)
    (hg : GetColRefines (genGetCol X bolt hp vals) (fileIndex X d (Writer.addRows H {} rows).schema next))
    (hlen : rows.length < 2 ^ 64)
    (qs : List (Query × List Gen.groupBy)) (sz : Ref → UInt64) (max : UInt64)
    (hfit : ∀ bm, max.toNat + (sz bm).toNat + ovh < 2 ^ 64)
    (hinj : InjOn H (((qs.map (·.1)).map (·.expr)).flatMap (preimages H)))
    (hagree : KnownAgree H (Writer.addRows H {} rows).toIndex (((qs.map (·.1)).map (·.expr)).flatMap Expr.pairs))
    (hD : DataNoCollision H rows) (hq : ∀ q ∈ qs.map (·.1), EndToEnd.QueryOK H rows q)
    (hall : AllSet (genExecuteAll H (genLruImpl sz) X bolt hp (openedIndex i (Writer.addRows H {} rows).schema next vals)
        (qs.map fun p => (⟨toLib p.1.expr, p.1.groupBy⟩, p.2)) (newCache max)).1) :
    abs (genExecuteAll H (genLruImpl sz) X bolt hp (openedIndex i (Writer.addRows H {} rows).schema next vals)
        (qs.map fun p => (⟨toLib p.1.expr, p.1.groupBy⟩, p.2)) (newCache max)).1
      = (executeAllC H (lruCacheImpl fun b => (sz b).toNat) (Writer.addRows H {} rows).toIndex
          (Lru.empty max.toNat ovh) (qs.map (·.1))).1 := by
  have h := (genLru_history_eq_sql H X rows bolt hp i d next vals hw hg hlen qs sz max [zeroMetrics] hfit hinj hagree hD hq).2.2
  simp only [List.map_cons, List.map_nil] at h
  have habs : abs (Gen.newLRUCache max [Gen.withCacheMetrics zeroMetrics]) = Lru.empty max.toNat ovh :=
    (newLRUCache_abs max).2.2.2.2
  rw [habs] at h
  exact h.exact hall

/-! ## 2. the driver's connection cache with the generated open

Setting (`Setting X H fs U`): `fs` maps a path to the committed content of the bbolt file there (`none`: no such
file); `genValid X fs file` = the generated `OpenIndexFromBoltDatabase` returns a non-nil index and no error on it;
`OptionBlind`: that does not depend on `WithPreloadedData()`; `U` is a universe of expressions closed under
sub-expressions on which cache keys separate meanings for every file (`GoodFile X H fs f rows`: the file holds what the
writer made of `rows`). The composed driver is `gstep` / `grun` (Proofs/GenCompose2Conn.lean): `Open` = the generated
`openFileOpts` + `openFileLocked` over T5's world with `valid := genValid`, recording for a new handle what the generated
open returned and `NewLRUCache(size)`; a statement = generated `ParseQuery` + `stmtQuery` over the all-generated
`Execute` on that recorded index, through `nullCache` or the handle's generated LRU; `Close` = the generated
`fileConn.Close`. -/

section driver
variable (X : Ext) (H : Bytes → UInt64) (sz : Ref → UInt64) (fs : Bytes → Option Buckets)

/-- **every history refines the reference-count model** — histories with failed opens included. For every history of
    `Open` (any DSN: valid, missing file, not an index, unparsable options), statements and `Close`s on several DSNs
    that respects the handle discipline (`Disciplined`: a connection is used or closed only while the client holds one
    of that DSN), from the unused driver: the invariant holds at the end, the reference counts are those of the model's
    run (`runO`; its steps are `Drv.step` generalised to the driver's key type), the outcomes are the model's, and no
    call dereferences nil. -/
theorem driver_history_refines_model {U : List Expr} (S : Setting X H fs U) (ops : List DOp)
    (hdisc : Disciplined (validK X fs) (fun _ => 0) ops) (hok : ∀ op ∈ ops, op.ok sz U) :
    GInv X H sz fs U (grun X H sz fs g0 ops).1 ∧
    refsOf (grun X H sz fs g0 ops).1.w = (runO (validK X fs) (fun _ => 0) (ops.map DOp.abs)).1 ∧
    (grun X H sz fs g0 ops).2.map DRes.outcome = (runO (validK X fs) (fun _ => 0) (ops.map DOp.abs)).2 ∧
    ∀ r ∈ (grun X H sz fs g0 ops).2, r ≠ .panic := by
  have hr0 : refsOf g0.w = fun _ => 0 := by funext k; rfl
  obtain ⟨h1, h2, h3⟩ := grun_sim X H sz fs S ops g0 (g0_inv X H sz fs U) (by rw [hr0]; exact hdisc) hok
  rw [hr0] at h2 h3
  refine ⟨h1, h2, h3, ?_⟩
  intro r hr hp
  subst hp
  have : DRes.panic.outcome ∈ (grun X H sz fs g0 ops).2.map DRes.outcome := List.mem_map_of_mem hr
  rw [h3] at this
  rcases runO_ok_or_error (validK X fs) ops _ hdisc _ this with h | h <;> cases h

/-- **… and the literal `Drv.run` of `Model/Driver.lean`** (keys encoded as pairs of numbers by any injective `enc`;
    `valid'` is `genValid` read through `enc`; operations whose DSN has no key — they do nothing — are dropped):
    reference counts and outcomes agree. Hence the C17 theorems hold of the composed driver with
    `valid` = "the generated open succeeds". -/
theorem driver_history_refines_Drv_run {U : List Expr} (S : Setting X H fs U) (enc : Bytes → Nat)
    (hinj : Function.Injective enc) (valid' : Nat → Bool) (hv : ∀ f, valid' (enc f) = genValid X fs f) (ops : List DOp)
    (hdisc : Disciplined (validK X fs) (fun _ => 0) ops) (hok : ∀ op ∈ ops, op.ok sz U) :
    (∀ k, (Drv.run valid' Drv.empty (modelOps enc ops)).1.refs (encK enc k) = refsOf (grun X H sz fs g0 ops).1.w k) ∧
    (Drv.run valid' Drv.empty (modelOps enc ops)).2 =
      keyed (ops.map DOp.abs) ((grun X H sz fs g0 ops).2.map DRes.outcome) :=
  grun_refines_Drv_run X H sz fs S enc hinj valid' hv ops hdisc hok

/-- **(a) a statement on an open connection returns the SQL rows of ITS file.** At any position of any disciplined
    history: if the DSN's file holds the index of `rows`, the statement text is accepted by the generated parser, the
    arguments bind, and the bound query meets the collision hypotheses of C01 / C02, then the result at that position is
    `.rows (.ok r)` with `r` the specification's rows for `rows` (`sqlRows`: header `groupBy ++ ["count"]`, one row per
    SQL group, or the single count row) — whichever options the DSN carries (preload or not, `nullCache` or the
    generated LRU of the DSN's size in whatever state the earlier statements on that connection left it), whatever
    other DSNs on the same or other files were opened, queried, closed or failed to open before. -/
theorem driver_query_returns_sql {U : List Expr} (S : Setting X H fs U) (pre post : List DOp)
    (file : Bytes) (v : Url.Values) (text : Bytes) (values : List Bytes)
    (hdisc : Disciplined (validK X fs) (fun _ => 0) (pre ++ .query file v text values :: post))
    (hok : ∀ op ∈ pre ++ .query file v text values :: post, op.ok sz U)
    (rows : List Row) (hgood : GoodFile X H fs file rows) (pq : PQuery)
    (hparse : Gen.ParseQuery (3 * text.length + 5) text = .ok pq) (q' : PQuery) (hb : bind pq values = .ok q')
    (ok : EndToEnd.QueryOK H rows (toQuery q')) (hD : DataNoCollision H rows) :
    ∃ r, sqlRows rows q' = some r ∧
      (grun X H sz fs g0 (pre ++ .query file v text values :: post)).2[pre.length]? = some (.rows (.ok r)) := by
  have hr0 : refsOf g0.w = fun _ => 0 := by funext k; rfl
  obtain ⟨hinv, ⟨k, hk, hheld⟩, hres⟩ := grun_at X H sz fs S pre _ post g0 (g0_inv X H sz fs U)
    (by rw [hr0]; exact hdisc) hok
  obtain ⟨_, _, _, h4⟩ := gQuery_spec X H sz fs S.closed S.keys _ hinv file v text values k hk hheld
    (hok _ (List.mem_append_right _ List.mem_cons_self))
  obtain ⟨r, hr1, hr2⟩ := h4 rows pq q' hgood hparse hb ok hD
  exact ⟨r, hr1, by rw [hres]; exact congrArg some hr2⟩

/-- what `sqlRows` is: the header is the group-by list and `count`; with a GROUP BY clause one row per group of the
    specification (`SELECT cols, COUNT(*) … GROUP BY cols HAVING COUNT(*) > 0 ORDER BY cols`), without it the single
    row holding the number of rows that satisfy the expression -/
theorem sqlRows_eq (rows : List Row) (q' : PQuery) (r : List Bytes × List (List Cell)) (h : sqlRows rows q' = some r) :
    ∃ groups, specGroups rows (toExpr q'.expr) q'.groupBy = some groups ∧
      r = (q'.groupBy ++ [countCol],
           if q'.groupBy = [] then [[Cell.int (specCount rows (toExpr q'.expr))]] else groups.map C12.groupRow) := by
  unfold sqlRows at h
  cases hse : specExecute rows (toQuery q') with
  | none => rw [hse] at h; cases h
  | some res =>
    rw [hse] at h
    simp only [Option.map_some, Option.some.injEq] at h
    by_cases hcol : ((toQuery q').expr.columns.any fun c => !(columnsOf rows).contains c) = true
    · simp only [specExecute, hcol, if_true] at hse
      cases hse
    · simp only [specExecute, hcol] at hse
      cases hs : specGroups rows (toExpr q'.expr) q'.groupBy with
      | none =>
        have hs' : specGroups rows (toQuery q').expr (toQuery q').groupBy = none := hs
        rw [hs'] at hse
        simp only [Bool.false_eq_true, if_false] at hse
        cases hse
      | some groups =>
        have hs' : specGroups rows (toQuery q').expr (toQuery q').groupBy = some groups := hs
        rw [hs'] at hse
        simp only [Bool.false_eq_true, if_false, Option.some.injEq] at hse
        refine ⟨groups, rfl, ?_⟩
        rw [← h, ← hse]
        by_cases hg : q'.groupBy = []
        · simp [Updog.newRows, hg, toQuery]
        · have : q'.groupBy.length > 0 := List.length_pos_iff.mpr hg
          simp only [Updog.newRows, this, if_true, hg, if_false]
          rfl

/-- **(b) a failed `Open` leaves everything unchanged, and the history goes on as if it had not happened.** In every
    reachable state: `Open` fails exactly when the options do not parse, or no connection of the key is cached and the
    generated open does not succeed on the file (missing, or not a complete index); then the cache map, the
    connections, the index handles and the per-handle state are ALL unchanged, so the rest of any history — in
    particular later opens of the same DSN — runs exactly as without the failed attempt. -/
theorem failed_open_changes_nothing {U : List Expr} (S : Setting X H fs U) (g : GWorld) (hinv : GInv X H sz fs U g)
    (file : Bytes) (v : Url.Values) (hok : (DOp.open file v).ok sz U) :
    ((gOpen X fs g file v).2 = .failed ↔
      (keyOf file v = none ∨ ∃ k, keyOf file v = some k ∧ refsOf g.w k = 0 ∧ genValid X fs file = false)) ∧
    ((gOpen X fs g file v).2 = .failed →
      (gOpen X fs g file v).1 = g ∧
      ∀ ops, grun X H sz fs g (.open file v :: ops) = ((grun X H sz fs g ops).1, .failed :: (grun X H sz fs g ops).2)) := by
  obtain ⟨_, _, h3, h4, h5⟩ := gOpen_spec X H sz fs S.hnil S.blind g hinv file v hok
  refine ⟨?_, fun hf => ⟨h4 hf, fun ops => grun_failed_open X H sz fs g file v ops hf (h4 hf)⟩⟩
  have hfe : (gOpen X fs g file v).2 = .failed ↔ (gOpen X fs g file v).2.outcome = .error := by
    constructor
    · intro h; rw [h]; rfl
    · intro h
      rcases h5 with h5 | ⟨k, c, _, h5, _⟩
      · exact h5
      · rw [h5] at h; cases h
  rw [hfe, h3]
  cases hk : keyOf file v with
  | none => simp [stepO]
  | some k =>
    have hkf : k.file = file := keyOf_file hk
    have hvk : validK X fs k = genValid X fs file := by rw [← hkf]; rfl
    simp only [Option.map_some, stepO]
    by_cases h1 : refsOf g.w k > 0
    · have hout : (stepG (validK X fs) (refsOf g.w) (.open k)).2 = .ok () := by simp only [stepG, h1, if_true]
      rw [hout]
      constructor
      · intro h; cases h
      · rintro (h | ⟨k', hk', h0, _⟩)
        · cases h
        · cases hk'; omega
    · cases h2 : genValid X fs file with
      | true =>
        have hout : (stepG (validK X fs) (refsOf g.w) (.open k)).2 = .ok () := by
          simp only [stepG, h1, if_false, hvk, h2, if_true]
        rw [hout]
        constructor
        · intro h; cases h
        · rintro (h | ⟨k', _, _, hv⟩)
          · cases h
          · cases hv
      | false =>
        have hout : (stepG (validK X fs) (refsOf g.w) (.open k)).2 = .error := by
          simp only [stepG, h1, if_false, hvk, h2, Bool.false_eq_true]
        rw [hout]
        exact ⟨fun _ => Or.inr ⟨k, rfl, by omega, rfl⟩, fun _ => rfl⟩

/-- on the unused driver: a DSN whose file is missing or not an index, or whose options do not parse, fails to open,
    and the history after it is the history on a fresh driver -/
theorem failed_open_then_fresh {U : List Expr} (S : Setting X H fs U) (file : Bytes) (v : Url.Values)
    (hok : (DOp.open file v).ok sz U) (hbad : keyOf file v = none ∨ genValid X fs file = false) (ops : List DOp) :
    grun X H sz fs g0 (.open file v :: ops) = ((grun X H sz fs g0 ops).1, .failed :: (grun X H sz fs g0 ops).2) := by
  obtain ⟨h1, h2⟩ := failed_open_changes_nothing X H sz fs S g0 (g0_inv X H sz fs U) file v hok
  refine (h2 (h1.2 ?_)).2 ops
  rcases hbad with h | h
  · exact Or.inl h
  · cases hk : keyOf file v with
    | none => exact Or.inl rfl
    | some k => exact Or.inr ⟨k, rfl, rfl, h⟩

/-- a missing file is invalid -/
theorem genValid_missing (file : Bytes) (h : fs file = none) : genValid X fs file = false := by
  simp [genValid, h]

/-- **(c) the last `Close` of a key closes the key's index handle** (and nothing else): at any position of any
    disciplined history, if the client holds exactly one connection of the DSN's key before the `Close`, then afterwards
    the cache has no entry for the key, and the index handle the key's connection owned — open on the key's file until
    then — is closed; the flock holders (`Model/OpenLock.lean`) of every file are the old ones with that handle
    `release`d. -/
theorem last_close_releases {U : List Expr} (S : Setting X H fs U) (pre post : List DOp) (file : Bytes) (v : Url.Values)
    (hdisc : Disciplined (validK X fs) (fun _ => 0) (pre ++ .close file v :: post))
    (hok : ∀ op ∈ pre ++ .close file v :: post, op.ok sz U)
    (k : Drv.fileCacheKey) (hk : keyOf file v = some k) (hlast : refsOf (grun X H sz fs g0 pre).1.w k = 1) :
    let g1 := (grun X H sz fs g0 pre).1
    let g2 := (gstep X H sz fs g1 (.close file v)).1
    (grun X H sz fs g0 (pre ++ .close file v :: post)).2[pre.length]? = some .closed ∧
    g2.w.cache k = none ∧ refsOf g2.w k = 0 ∧
    ∃ c i, g1.w.cache k = some c ∧ (g1.w.conns c).idx = some i ∧ g1.w.openIdx i = some k.file ∧
      g2.w.openIdx i = none ∧ ∀ f, holders g2.w f = release (holders g1.w f) i := by
  intro g1 g2
  have hr0 : refsOf g0.w = fun _ => 0 := by funext k; rfl
  obtain ⟨hinv, _, hres⟩ := grun_at X H sz fs S pre _ post g0 (g0_inv X H sz fs U) (by rw [hr0]; exact hdisc) hok
  obtain ⟨_, h2, h3, h4, _, h6⟩ := gClose_spec X H sz fs g1 hinv file v k hk (by rw [hlast]; exact Nat.one_pos)
  obtain ⟨hc, c, i, e1, e2, e3, e4, e5⟩ := h4 hlast
  refine ⟨by rw [hres]; exact congrArg some h3, hc, ?_, c, i, e1, e2, e3, e4, fun f => holders_release _ _ i h6 e4 e5 f⟩
  show refsOf (gClose g1 file v).1.w k = 0
  have hl : refsOf g1.w k = 1 := hlast
  rw [h2]
  simp only [stepG, upd_same]
  omega

/-- **no connection held on a file ⇒ no index handle open on it ⇒ no flock holder**: after any disciplined history
    the holders of file `f` (the open index handles on it, all shared) are empty exactly when the client holds no
    connection of any key of `f`; the driver never blocks itself (shared locks are compatible); and a read-write
    `bbolt.Open` of the file (`openRW` of `Model/OpenLock.lean`, e.g. the writer) hangs exactly while some connection
    on the file is held. -/
theorem file_unlocked_iff {U : List Expr} (S : Setting X H fs U) (ops : List DOp)
    (hdisc : Disciplined (validK X fs) (fun _ => 0) ops) (hok : ∀ op ∈ ops, op.ok sz U) (f : Bytes) :
    let w := (grun X H sz fs g0 ops).1.w
    (holders w f = [] ↔ ∀ k : Drv.fileCacheKey, k.file = f → refsOf w k = 0) ∧
    compatible .shared (holders w f) = true ∧
    ∀ (st : LockState) (q : ProcId), st.holders = holders w f →
      ((openRW st q).1 = .hang ↔ ∃ k : Drv.fileCacheKey, k.file = f ∧ refsOf w k > 0) := by
  intro w
  obtain ⟨hinv, _⟩ := driver_history_refines_model X H sz fs S ops hdisc hok
  have hiff := holders_eq_nil_iff hinv.conn hinv.handle f
  refine ⟨hiff, holders_shared _ f, ?_⟩
  intro st q hst
  rw [C15.rw_open_blocks_iff_holders, hst]
  constructor
  · intro hne
    apply Classical.byContradiction
    intro hno
    apply hne
    rw [hiff]
    intro k hkf
    exact Nat.eq_zero_of_not_pos (fun h => hno ⟨k, hkf, h⟩)
  · rintro ⟨k, hkf, hpos⟩ hnil
    exact absurd (hiff.1 hnil k hkf) (Nat.ne_of_gt hpos)

/-- **`Open` takes exactly one shared lock, and only when it opens the file**: in every reachable state, an `Open` that
    creates the cache entry of its key (no connection of the key held, the generated open succeeds) turns the flock
    holders of its file into `acquire … .shared` of `Model/OpenLock.lean` (the new handle appended, with the driver's
    next handle id) and leaves the holders of all other files alone; an `Open` that shares a cached connection, and
    every failed `Open`, changes no file's holders. -/
theorem open_acquires_shared_lock {U : List Expr} (g : GWorld) (hinv : GInv X H sz fs U g) (file : Bytes) (v : Url.Values)
    (f : Bytes) (st : LockState) (hst : st.holders = holders g.w f) (hnext : st.next = g.w.nextIdx) :
    holders (gOpen X fs g file v).1.w f =
      match keyOf file v with
      | some k =>
        if refsOf g.w k = 0 ∧ genValid X fs file = true ∧ f = file then (st.acquire 0 .shared).holders
        else holders g.w f
      | none => holders g.w f := by
  rw [gOpen_holders X H sz fs g hinv file v f]
  cases hk : keyOf file v with
  | none => rfl
  | some k =>
    simp only [LockState.acquire, hst, hnext]

end driver

/-! ## non-vacuity: the `Demo` instance of `Compose.lean` (toy hash, three rows, a file WRITTEN BY THE GENERATED WRITER)
through every theorem above, and the composed pipelines simply run (`decide +kernel`) -/

namespace Demo
open Updog.Toy Updog.GenCompose.Demo

/-- `GetSizeInBytes`: 8 bytes for every bitmap (`Toy.sz` as a `uint64`) -/
def szU : Ref → UInt64 := fun _ => 8

theorem szU_fits (max : UInt64) (h : max.toNat < 2 ^ 63) : ∀ bm, max.toNat + (szU bm).toNat + ovh < 2 ^ 64 := by
  intro bm
  have : (szU bm).toNat = 8 := rfl
  rw [this, ovh_eq]
  omega

/-- only two of the four counters configured -/
def someMetrics : Gen.CacheMetrics := { CacheHit := some 0, CacheMiss := none, GetCall := none, PutCall := some 0 }

/-- the toy history through the all-generated `Execute` and the generated LRU on the opened file -/
def runLru (preload : Bool) (max : UInt64) (ms : List (Gen.LRUCache → Gen.LRUCache)) :
    Option (Gen.LRUCache × List (Option Result)) :=
  match (opened preload).2.2.1 with
  | none => none
  | some idx =>
    some (genExecuteAll toyH (genLruImpl szU) X (opened preload).1 (opened preload).2.1 idx
      (Toy.qs.map fun (q : Query) => (⟨toLib q.expr, q.groupBy⟩, [])) (Gen.newLRUCache max ms))

/-- **the generated pipeline run through the generated LRU** (all four counters): the three answers of the SQL
    specification; 8 `Get`s of which 3 hit, 5 `Put`s, 5 resident entries of 8 + 64 bytes -/
example : (runLru true 100000 [Gen.withCacheMetrics zeroMetrics]).map (fun r => r.2)
    = some [some ⟨1, []⟩, some ⟨2, [([([97], [49])], 2)]⟩, some ⟨1, [([([98], [49])], 1)]⟩] := by decide +kernel

example : (runLru true 100000 [Gen.withCacheMetrics zeroMetrics]).map (fun r =>
      (r.1.metrics.CacheHit, r.1.metrics.CacheMiss, r.1.metrics.GetCall, r.1.metrics.PutCall))
    = some (some 3, some 5, some 8, some 5) := by decide +kernel

example : (runLru true 100000 [Gen.withCacheMetrics zeroMetrics]).map (fun r => (r.1.curSize, r.1.lruList.elems.length))
    = some (360, 5) := by decide +kernel

/-- … with a 150-byte cache and no counters (as the driver creates it): evictions keep two entries, same answers -/
example : (runLru false 150 []).map (fun r => (r.2, r.1.metrics.CacheHit, r.1.curSize, r.1.lruList.elems.length))
    = some ([some ⟨1, []⟩, some ⟨2, [([([97], [49])], 2)]⟩, some ⟨1, [([([98], [49])], 1)]⟩], none, 144, 2) := by
  decide +kernel

/-- **1** `genLru_history_eq_sql` (hence `genLru_simulates`, `genLru_reachable_related`): all hypotheses hold of the
    generated file, for both getters, for no / partial / all counters, for a large and a tiny cache -/
example (preload : Bool) (ms : List Gen.CacheMetrics) (max : UInt64) (hmax : max = 100000 ∨ max = 100) :
    ∃ n' c' cs' n2 hp2 vals, file = idle 0 n' c' cs' ∧
    (genExecuteAll toyH (genLruImpl szU) X (idle 0 n2 c' cs') hp2
        (openedIndex 0 (Writer.addRows toyH {} rows).schema w.2.nextRowID vals)
        (Toy.qs.map fun (q : Query) => (⟨toLib q.expr, q.groupBy⟩, []))
        (Gen.newLRUCache max (ms.map Gen.withCacheMetrics))).2 = Toy.qs.map (specExecute rows) ∧
    ∀ n, ByteBound max (genExecuteAll toyH (genLruImpl szU) X (idle 0 n2 c' cs') hp2
        (openedIndex 0 (Writer.addRows toyH {} rows).schema w.2.nextRowID vals)
        ((Toy.qs.take n).map fun (q : Query) => (⟨toLib q.expr, q.groupBy⟩, []))
        (Gen.newLRUCache max (ms.map Gen.withCacheMetrics))).1 := by
  obtain ⟨n', c', cs', d, hf, hb, hs, hw⟩ := file_holds
  obtain ⟨n2, hp2, vals, hopen, hg⟩ := GenCompose.opened_index_refines X 0 n' c' cs' w.1 d _ _ (hw.fileOK hb) X_nil preload
    (fun _ => hs) (fun _ => hw.vDecodable hs)
  refine ⟨n', c', cs', n2, hp2, vals, hf, ?_⟩
  have hfit : ∀ bm, max.toNat + (szU bm).toNat + ovh < 2 ^ 64 :=
    szU_fits max (by rcases hmax with rfl | rfl <;> decide)
  have := genLru_history_eq_sql toyH X rows _ hp2 0 d _ vals hw hg (by decide) (Toy.qs.map fun q => (q, []))
    szU max ms hfit (by decide +kernel) (by decide +kernel) data_ok
    (by simpa [List.map_map, Function.comp_def] using queries_ok)
  simp only [List.map_map, Function.comp_def, List.map_id', ← List.map_take] at this
  exact ⟨this.1, this.2.1⟩

/-- `genLruExecute_eq_executeC` and `genLru_reachable_related`: a nil operand is refused before the cache is touched;
    the related model state of a new cache is empty; every `genRun` history keeps the relation and the byte bound -/
example (ops : List GOp) :
    (abs (Gen.newLRUCache 1000 [Gen.withCacheMetrics someMetrics])).items = [] ∧
    ByteBound 1000 (genRun szU (Gen.newLRUCache 1000 [Gen.withCacheMetrics someMetrics]) ops).1 := by
  have := genLru_reachable_related szU 1000 [someMetrics] (szU_fits 1000 (by decide)) ops
  exact ⟨this.1, this.2.2.2⟩

example (preload : Bool) : ∃ n' c' cs' n2 hp2 vals, file = idle 0 n' c' cs' ∧
    execView (genExecute toyH (genLruImpl szU) X (idle 0 n2 c' cs') hp2
      (openedIndex 0 (Writer.addRows toyH {} rows).schema w.2.nextRowID vals) ⟨.and [.equal [97] [49], .nil], []⟩ []
      (Gen.newLRUCache 1000 [])) = (Gen.newLRUCache 1000 [], none) := by
  obtain ⟨n', c', cs', d, hf, hb, hs, hw⟩ := file_holds
  obtain ⟨n2, hp2, vals, hopen, hg⟩ := GenCompose.opened_index_refines X 0 n' c' cs' w.1 d _ _ (hw.fileOK hb) X_nil preload
    (fun _ => hs) (fun _ => hw.vDecodable hs)
  refine ⟨n', c', cs', n2, hp2, vals, hf, ?_⟩
  have hrel := (newLRUCache_rel szU 1000 [] (szU_fits 1000 (by decide))).1
  have := genLruExecute_eq_executeC toyH X _ hp2 0 d _ _ vals hg szU 1000 _ _ hrel
    ⟨.and [.equal [97] [49], .nil], []⟩ [] (by intro e he; cases he)
  exact this

/-! ### the driver -/

/-- the file system: `x` is the file the generated writer wrote, `y` a bolt file without the bucket `data`
    (not an index), everything else is missing -/
def fsD : Bytes → Option Buckets := fun f =>
  if f = [120] then some file.committed else if f = [121] then some [] else none

/-- the DSN options `preload=true&lrucache=true&lrucachesize=42` -/
def vLru : Url.Values :=
  [([112, 114, 101, 108, 111, 97, 100], [116, 114, 117, 101]), ([108, 114, 117, 99, 97, 99, 104, 101], [116, 114, 117, 101]),
   ([108, 114, 117, 99, 97, 99, 104, 101, 115, 105, 122, 101], [52, 50])]

/-- `lrucache=true&lrucachesize=x`: does not parse -/
def vBad : Url.Values :=
  [([108, 114, 117, 99, 97, 99, 104, 101], [116, 114, 117, 101]),
   ([108, 114, 117, 99, 97, 99, 104, 101, 115, 105, 122, 101], [120])]

def kLru : Drv.fileCacheKey := ⟨[120], sPreload ++ sLru ++ sLruSize ++ [52, 50]⟩

theorem cfg_lru : dsnConfig (dsnOptsOf vLru) = .ok ⟨true, some 42, sPreload ++ sLru ++ sLruSize ++ [52, 50]⟩ := by
  decide +kernel
theorem cfg_plain : dsnConfig (dsnOptsOf []) = .ok ⟨false, none, []⟩ := by decide +kernel
theorem key_lru : keyOf [120] vLru = some kLru := by simp only [keyOf, cfg_lru]; rfl
theorem key_plain (f : Bytes) : keyOf f [] = some ⟨f, []⟩ := by simp only [keyOf, cfg_plain]
theorem key_bad (f : Bytes) : keyOf f vBad = none := by
  have : dsnConfig (dsnOptsOf vBad) = .error := by decide +kernel
  simp only [keyOf, this]

theorem good_x : GoodFile X toyH fsD [120] rows := by
  obtain ⟨n', c', cs', d, hf, hb, hs, hw⟩ := file_holds
  have hc : file.committed = c' := by rw [hf]; rfl
  exact ⟨c', d, _, by simp [fsD, hc], hb, hs, hw, by decide⟩

theorem good_only_x (f : Bytes) (rows' : List Row) (h : GoodFile X toyH fsD f rows') : f = [120] := by
  obtain ⟨c, d, next, hfs, hb, _⟩ := h
  unfold fsD at hfs
  by_cases h1 : f = [120]
  · exact h1
  · rw [if_neg h1] at hfs
    by_cases h2 : f = [121]
    · rw [if_pos h2] at hfs
      cases hfs
      cases hb
    · rw [if_neg h2] at hfs
      cases hfs

/-- the standing hypotheses hold of the toy file system, with the universe of the statement's expression `e2` -/
theorem setting : Setting X toyH fsD (subsOf [e2]) where
  hnil := X_nil
  blind := by
    apply optionBlind_of_files X toyH fsD X_nil
    intro f c hfs
    unfold fsD at hfs
    by_cases h1 : f = [120]
    · subst h1; exact Or.inl ⟨rows, good_x⟩
    · rw [if_neg h1] at hfs
      by_cases h2 : f = [121]
      · rw [if_pos h2] at hfs
        cases hfs
        exact Or.inr (by decide)
      · rw [if_neg h2] at hfs
        cases hfs
  closed := subsOf_closed [e2]
  keys := by
    intro f rows' hgood
    have hf := good_only_x f rows' hgood
    subst hf
    rw [← goodFile_toIndex_eq X toyH fsD [120] rows rows' good_x hgood]
    exact C03.keyOK_of_no_collision toyH _ [e2] (by decide +kernel) (by decide +kernel)

theorem valid_x : validK X fsD kLru = true := genValid_good X toyH fsD X_nil [120] rows good_x
theorem invalid_y : genValid X fsD [121] = false := by decide +kernel
theorem invalid_z : genValid X fsD [122] = false := rfl

/-- a history: `Open` of a missing file, of a file that is not an index, of a DSN with unparsable options (all three
    fail), `Open` of the written file with preload and a 42-byte LRU, a statement on it, `Close` -/
def hist : List DOp :=
  [.open [122] [], .open [121] [], .open [120] vBad, .open [120] vLru, .query [120] vLru stmtText [[49]],
   .close [120] vLru]

theorem stmt_parse44 : Gen.ParseQuery (3 * stmtText.length + 5) stmtText = .ok stmtParsed :=
  parse_ok_of_check _ stmtText stmtParsed (by decide +kernel)

theorem hist_ok : ∀ op ∈ hist, op.ok szU (subsOf [e2]) := by
  intro op hop
  simp only [hist, List.mem_cons, List.not_mem_nil, or_false] at hop
  rcases hop with rfl | rfl | rfl | rfl | rfl | rfl
  · intro cfg n hc hn; rw [cfg_plain] at hc; cases hc; cases hn
  · intro cfg n hc hn; rw [cfg_plain] at hc; cases hc; cases hn
  · intro cfg n hc hn
    have : dsnConfig (dsnOptsOf vBad) = .error := by decide +kernel
    rw [this] at hc; cases hc
  · intro cfg n hc hn
    rw [cfg_lru] at hc; cases hc; cases hn
    exact szU_fits _ (by decide)
  · intro pq q' hp hb
    rw [stmt_parse44] at hp; cases hp
    have : bind stmtParsed [[49]] = .ok ⟨.or [.eq [97] [49] 0, .not (.eq [98] [49] 0)], [[97]]⟩ := rfl
    rw [this] at hb; cases hb
    exact subsOf_mem _ _ (by simp [toExpr, toExprs, e2, x, y])
  · trivial

/-- the model's counts along the history: nothing until the fourth `Open`, then one connection of `kLru` -/
theorem hist_steps :
    stepO (validK X fsD) (fun _ => 0) (DOp.abs (.open [122] [])) = (fun _ => 0, .error) ∧
    stepO (validK X fsD) (fun _ => 0) (DOp.abs (.open [121] [])) = (fun _ => 0, .error) ∧
    stepO (validK X fsD) (fun _ => 0) (DOp.abs (.open [120] vBad)) = (fun _ => 0, .error) ∧
    stepO (validK X fsD) (fun _ => 0) (DOp.abs (.open [120] vLru)) = (upd (fun _ => 0) kLru 1, .ok ()) := by
  refine ⟨?_, ?_, ?_, ?_⟩
  · simp only [DOp.abs, key_plain, Option.map_some, stepO, stepG, validK, invalid_z]; rfl
  · simp only [DOp.abs, key_plain, Option.map_some, stepO, stepG, validK, invalid_y]; rfl
  · simp only [DOp.abs, key_bad, Option.map_none, stepO]
  · simp only [DOp.abs, key_lru, Option.map_some, stepO, stepG, valid_x]; rfl

theorem hist_disciplined : Disciplined (validK X fsD) (fun _ => 0) hist := by
  obtain ⟨s1, s2, s3, s4⟩ := hist_steps
  simp only [hist, Disciplined, DOp.allowed, s1, s2, s3, s4, true_and]
  refine ⟨⟨kLru, key_lru, by simp [upd]⟩, ⟨kLru, ?_, ?_⟩, trivial⟩
  · exact key_lru
  · simp only [DOp.abs, key_lru, Option.map_some, stepO, stepG, upd_same]
    simp [upd]

/-- **2** `driver_history_refines_model`: the hypotheses hold of the history; no call panics -/
example : ∀ r ∈ (grun X toyH szU fsD g0 hist).2, r ≠ .panic :=
  (driver_history_refines_model X toyH szU fsD setting hist hist_disciplined hist_ok).2.2.2

/-- **(a)** `driver_query_returns_sql`: the statement at position 4 returns the specification's groups for the toy
    rows — through the generated LRU of 42 bytes on the preloaded index, after three failed opens -/
example : ∃ groups, specGroups rows e2 [[97]] = some groups ∧
    (grun X toyH szU fsD g0 hist).2[4]? = some (.rows (.ok ([[97], countCol], groups.map C12.groupRow))) := by
  obtain ⟨r, hr1, hr2⟩ := driver_query_returns_sql X toyH szU fsD setting
    [.open [122] [], .open [121] [], .open [120] vBad, .open [120] vLru] [.close [120] vLru]
    [120] vLru stmtText [[49]] hist_disciplined hist_ok rows good_x stmtParsed stmt_parse44
    ⟨.or [.eq [97] [49] 0, .not (.eq [98] [49] 0)], [[97]]⟩ rfl
    (queries_ok ⟨e2, [[97]]⟩ (by simp [Toy.qs])) data_ok
  obtain ⟨groups, hg1, hg2⟩ := sqlRows_eq rows _ r hr1
  refine ⟨groups, hg1, ?_⟩
  rw [hg2] at hr2
  exact hr2

/-- **(b)** `failed_open_changes_nothing` / `failed_open_then_fresh`: the three failing DSNs, one after the other, leave
    the driver unused -/
example (ops : List DOp) :
    grun X toyH szU fsD g0 (.open [122] [] :: .open [121] [] :: .open [120] vBad :: ops) =
      ((grun X toyH szU fsD g0 ops).1, .failed :: .failed :: .failed :: (grun X toyH szU fsD g0 ops).2) := by
  rw [failed_open_then_fresh X toyH szU fsD setting [122] [] (hist_ok _ (by simp [hist])) (Or.inr invalid_z),
    failed_open_then_fresh X toyH szU fsD setting [121] [] (hist_ok _ (by simp [hist])) (Or.inr invalid_y),
    failed_open_then_fresh X toyH szU fsD setting [120] vBad (hist_ok _ (by simp [hist])) (Or.inl (key_bad _))]

/-- **(c)** `last_close_releases` and `file_unlocked_iff`: the `Close` at position 5 is the last one of its key; after
    the history no handle is open on `x` -/
example : (grun X toyH szU fsD g0 hist).2[5]? = some .closed ∧ holders (grun X toyH szU fsD g0 hist).1.w [120] = [] := by
  have hpre := (driver_history_refines_model X toyH szU fsD setting
    [.open [122] [], .open [121] [], .open [120] vBad, .open [120] vLru, .query [120] vLru stmtText [[49]]]
    ((disciplined_append _ _ _ [.close [120] vLru]).1 hist_disciplined).1
    (fun op hop => hist_ok op (by simp only [hist]; exact List.mem_append_left [.close [120] vLru] hop))).2.1
  obtain ⟨s1, s2, s3, s4⟩ := hist_steps
  have hlast : refsOf (grun X toyH szU fsD g0
      [.open [122] [], .open [121] [], .open [120] vBad, .open [120] vLru, .query [120] vLru stmtText [[49]]]).1.w kLru = 1 := by
    rw [hpre]
    simp only [List.map_cons, List.map_nil, runO, s1, s2, s3, s4]
    simp [DOp.abs, key_lru, stepO, stepG, upd]
  have h := last_close_releases X toyH szU fsD setting
    [.open [122] [], .open [121] [], .open [120] vBad, .open [120] vLru, .query [120] vLru stmtText [[49]]] []
    [120] vLru hist_disciplined hist_ok kLru key_lru hlast
  refine ⟨h.1, ?_⟩
  have hall := driver_history_refines_model X toyH szU fsD setting hist hist_disciplined hist_ok
  rw [(file_unlocked_iff X toyH szU fsD setting hist hist_disciplined hist_ok [120]).1]
  intro k hk
  rw [hall.2.1]
  simp only [hist, List.map_cons, List.map_nil, runO, s1, s2, s3, s4]
  simp [DOp.abs, key_lru, stepO, stepG, upd]

/-- `open_acquires_shared_lock`: the first `Open` of the written file on the unused driver makes handle 0 the only
    (shared) holder of `x`, and no holder of any other file -/
example (f : Bytes) : holders (gOpen X fsD g0 [120] vLru).1.w f = if f = [120] then [⟨0, 0, .shared⟩] else [] := by
  have h := open_acquires_shared_lock X toyH szU fsD (U := subsOf [e2]) g0 (g0_inv X toyH szU fsD _) [120] vLru f
    { fs := .absent, holders := [], live := [], next := 0 } rfl rfl
  rw [h, key_lru]
  have hv : genValid X fsD [120] = true := valid_x
  have hr : refsOf g0.w kLru = 0 := rfl
  by_cases hf : f = [120]
  · simp [hf, hv, hr, LockState.acquire]
  · simp [hf]; rfl

/-- the composed driver, simply run: the three failed opens, the connection, the rows `a=1 → 2`, the close -/
example : (grun X toyH szU fsD g0 hist).2 =
    [.failed, .failed, .failed, .conn 0, .rows (.ok ([[97], countCol], [[Cell.text [49], Cell.int 2]])), .closed] := by
  decide +kernel

end Demo

end Updog.GenCompose2
