/-
Equivalence of the definitions REGENERATED from the Go source (`Updog/GeneratedFns.lean`, written by
extract/translate.go on every run) with the hand-written models. If a translated Go function changes its meaning,
the generated text changes and the corresponding theorem below stops checking; if the function leaves the
translator's subset, its definition is missing and the theorem fails to elaborate.
-/
import Updog.GeneratedFns
import Updog.Proofs.GoPrelude
import Updog.Model.Create
import Updog.Model.Server

namespace Updog.GeneratedEq
open Updog.Go (allDigits)

/-! ### create.go: the rune map of normalizeHeader -/

theorem headerRune_eq (r : Nat) : Gen.headerRune r = if 97 ≤ r ∧ r ≤ 122 then r else 95 := by
  unfold Gen.headerRune
  by_cases h32 : r = 32
  · subst h32; simp
  · by_cases h : 97 ≤ r ∧ r ≤ 122
    · simp [h32, h]
    · simp only [beq_iff_eq, h32, if_false, ge_iff_le, Bool.and_eq_true, decide_eq_true_eq, h]

/-- what `normRune` needs to know about `unicode.ToLower` -/
structure LowerSpec (toLower : Nat → Nat) : Prop where
  upper : ∀ r, 65 ≤ r → r ≤ 90 → toLower r = r + 32
  ascii : ∀ r, r < 128 → ¬ (65 ≤ r ∧ r ≤ 90) → toLower r = r
  dotI : toLower 0x130 = 105
  kelvin : toLower 0x212A = 107
  /-- EXPLICIT HYPOTHESIS about Go's Unicode tables (not derived from the Go source): no other non-ASCII code
      point lower-cases to an ASCII letter -/
  hlow : ∀ r, 128 ≤ r → r ≠ 0x130 → r ≠ 0x212A → ¬ (97 ≤ toLower r ∧ toLower r ≤ 122)

/-- the model's `normRune` is the generated rune map after `unicode.ToLower`, for every `toLower` meeting
    `LowerSpec` (which contains the hypothesis `hlow`) -/
theorem normRune_eq (toLower : Nat → Nat) (hs : LowerSpec toLower) (r : Nat) :
    normRune r = (Gen.headerRune (toLower r)).toUInt8 := by
  rw [headerRune_eq]
  unfold normRune
  by_cases h1 : 97 ≤ r ∧ r ≤ 122
  · have := hs.ascii r (by omega) (by omega)
    simp [h1, this]
  · by_cases h2 : 65 ≤ r ∧ r ≤ 90
    · have := hs.upper r h2.1 h2.2
      have h3 : 97 ≤ r + 32 ∧ r + 32 ≤ 122 := by omega
      simp [h1, h2, this, h3]
    · by_cases h3 : r = 0x130
      · subst h3; simp [hs.dotI]
      · by_cases h4 : r = 0x212A
        · subst h4; simp [hs.kelvin]
        · by_cases h5 : r < 128
          · have := hs.ascii r h5 h2
            simp [h1, h2, h3, h4, this]
          · have := hs.hlow r (by omega) h3 h4
            simp [h1, h2, h3, h4, this]

/-- a concrete `toLower` meeting the specification (non-vacuity of `normRune_eq`) -/
def lowerASCIIorSpecial (r : Nat) : Nat :=
  if 65 ≤ r ∧ r ≤ 90 then r + 32 else if r = 0x130 then 105 else if r = 0x212A then 107 else r

theorem lowerASCIIorSpecial_spec : LowerSpec lowerASCIIorSpecial where
  upper r h1 h2 := by simp [lowerASCIIorSpecial, h1, h2]
  ascii r h1 h2 := by
    have h3 : r ≠ 0x130 := by omega
    have h4 : r ≠ 0x212A := by omega
    simp [lowerASCIIorSpecial, h2, h3, h4]
  dotI := by decide
  kelvin := by decide
  hlow r h1 h2 h3 := by
    have h4 : ¬ (65 ≤ r ∧ r ≤ 90) := by omega
    simp only [lowerASCIIorSpecial, h4, h2, h3, if_false]; omega

theorem normRune_eq_concrete (r : Nat) : normRune r = (Gen.headerRune (lowerASCIIorSpecial r)).toUInt8 :=
  normRune_eq _ lowerASCIIorSpecial_spec r

example : Gen.headerRune 65 = 95 ∧ Gen.headerRune 107 = 107 ∧ normRune 0x212A = 107 := by decide

end Updog.GeneratedEq
