/-
The REGENERATED lexer of internal/queryparser (`Updog/GeneratedFns.lean`: `lexer_next … lex`, written by the Go→Lean
translator) is the rune-level model `Updog.Model.RuneLexer` (`lexAllR`), hence the byte-level model `lexAll`.

1. character classes: `Go.containsRune` on the three literals of the generated text, the white-space and letter tests
2. the primitives `lexer_next`, `lexer_peek`, `lexer_backup`, `lexer_emit` on a well-formed state (`WF`, `rem`, `adv`)
3. `lexer_acceptRun` = `acceptRunR`
4. `lexValue_loop1` = `scanStrR`
5. the state functions `lexText`, `lexField`, `lexValue`, `lexPlaceholder` = the branches of `lexTextR`
6. MAIN: `lex_eq`, `lex_eq_lexAll` (enough fuel: the items are the model's tokens), `lex_fuel_or` (any fuel: "out of
   fuel" or the model's tokens), `lexAll_tokOK`, `lexAll_length_le`
7. examples evaluated by the kernel on the generated functions, `#print axioms`

Fuel is a depth bound (every callee gets the caller's fuel). The loop of `lexer.run` costs one unit per state function
call and one for the final test; a token lexed by `lexField`/`lexValue`/`lexPlaceholder` costs two calls (`lexText`
returns the state function without consuming input), so `2 * len + 2` is enough and, for `$$$…`, necessary.
-/
import Updog.Props.Gen.Items
import Updog.Proofs.GoPreludeT4
import Updog.Proofs.RuneLexer
import Updog.Proofs.Parser
import Updog.Props.C09Runes

namespace Updog.GeneratedEq
open Updog Updog.RuneLexer
open Updog.Go (allDigits)

/-! ## 1. character classes -/

set_option maxRecDepth 4000 in
theorem containsRune_space (r : Int) :
    Go.containsRune ([13, 10, 9, 32] : Bytes) r = (decide (0 ≤ r) && isSpaceRune r.toNat) :=
  Go.containsRune_spec _ _ (by decide) (by decide) (fun _ => isSpaceRune_lt) r

set_option maxRecDepth 4000 in
theorem containsRune_field (r : Int) :
    Go.containsRune ([48, 49, 50, 51, 52, 53, 54, 55, 56, 57, 97, 98, 99, 100, 101, 102, 103, 104, 105, 106, 107, 108, 109, 110, 111, 112, 113, 114, 115, 116, 117, 118, 119, 120, 121, 122, 65, 66, 67, 68, 69, 70, 71, 72, 73, 74, 75, 76, 77, 78, 79, 80, 81, 82, 83, 84, 85, 86, 87, 88, 89, 90, 95] : Bytes) r
      = (decide (0 ≤ r) && isFieldRune r.toNat) :=
  Go.containsRune_spec _ _ (by decide) (by decide) (fun _ => isFieldRune_lt) r

set_option maxRecDepth 4000 in
theorem containsRune_digit (r : Int) :
    Go.containsRune ([48, 49, 50, 51, 52, 53, 54, 55, 56, 57] : Bytes) r = (decide (0 ≤ r) && isDigitRune r.toNat) :=
  Go.containsRune_spec _ _ (by decide) (by decide) (fun _ => isDigitRune_lt) r


/-- the white-space test of `lexText`, as written in the generated text -/
theorem spaceTest_eq (r : Int) :
    ((((r == (32 : Int)) || (r == (10 : Int))) || (r == (13 : Int))) || (r == (9 : Int)))
      = (decide (0 ≤ r) && isSpaceRune r.toNat) := by
  rw [Bool.eq_iff_iff]
  simp only [isSpaceRune, Bool.or_eq_true, Bool.and_eq_true, beq_iff_eq, decide_eq_true_eq]
  omega

/-- the letter test of `lexText`, as written in the generated text -/
theorem alphaTest_eq (r : Int) :
    (((decide (r ≥ (97 : Int))) && (decide (r ≤ (122 : Int)))) || ((decide (r ≥ (65 : Int))) && (decide (r ≤ (90 : Int)))))
      = (decide (0 ≤ r) && isAlphaRune r.toNat) := by
  rw [Bool.eq_iff_iff]
  simp only [isAlphaRune, Bool.or_eq_true, Bool.and_eq_true, decide_eq_true_eq]
  omega

theorem spaceTest_nat (n : Nat) :
    (((((n : Int) == (32 : Int)) || ((n : Int) == (10 : Int))) || ((n : Int) == (13 : Int))) || ((n : Int) == (9 : Int)))
      = isSpaceRune n := by
  rw [spaceTest_eq]; simp

theorem alphaTest_nat (n : Nat) :
    (((decide ((n : Int) ≥ (97 : Int))) && (decide ((n : Int) ≤ (122 : Int)))) ||
      ((decide ((n : Int) ≥ (65 : Int))) && (decide ((n : Int) ≤ (90 : Int))))) = isAlphaRune n := by
  rw [alphaTest_eq]; simp

/-- both tests fail on `eof` -/
theorem spaceTest_eof :
    (((((-1 : Int) == (32 : Int)) || ((-1 : Int) == (10 : Int))) || ((-1 : Int) == (13 : Int))) || ((-1 : Int) == (9 : Int)))
      = false := by decide
theorem alphaTest_eof :
    (((decide ((-1 : Int) ≥ (97 : Int))) && (decide ((-1 : Int) ≤ (122 : Int)))) ||
      ((decide ((-1 : Int) ≥ (65 : Int))) && (decide ((-1 : Int) ≤ (90 : Int))))) = false := by decide

/-- comparison of a rune (a `Nat` cast to `Int`) with a literal -/
theorem natCast_beq (n m : Nat) : (((n : Nat) : Int) == ((m : Nat) : Int)) = (n == m) := by
  rw [Bool.eq_iff_iff]; simp only [beq_iff_eq]; omega

/-! ## 2. the primitives on a well-formed lexer state -/

/-- well-formed lexer state: `0 ≤ start ≤ pos ≤ len(input)` -/
def WF (l : Gen.Lexer) : Prop := 0 ≤ l.start ∧ l.start ≤ l.pos ∧ l.pos ≤ l.input.length

/-- the not yet consumed input `input[pos:]` -/
def rem (l : Gen.Lexer) : Bytes := l.input.drop l.pos.toNat

/-- `l` with `k` more bytes consumed and the field `width` set to `w` -/
def adv (l : Gen.Lexer) (k : Nat) (w : Int) : Gen.Lexer := { l with pos := l.pos + (k : Int), width := w }

/-- `l` after `k` more bytes have been consumed and the lexeme `input[start:pos+k]` has been emitted with type `t` -/
def emitK (l : Gen.Lexer) (k : Nat) (w : Int) (t : Int) : Gen.Lexer :=
  { l with pos := l.pos + (k : Int), start := l.pos + (k : Int), width := w,
           items := l.items ++ [({ typ := t, pos := l.start, val := (rem l).take k } : Gen.Item)] }

@[simp] theorem adv_input (l : Gen.Lexer) (k : Nat) (w : Int) : (adv l k w).input = l.input := rfl
@[simp] theorem adv_state (l : Gen.Lexer) (k : Nat) (w : Int) : (adv l k w).state = l.state := rfl
@[simp] theorem adv_pos (l : Gen.Lexer) (k : Nat) (w : Int) : (adv l k w).pos = l.pos + (k : Int) := rfl
@[simp] theorem adv_start (l : Gen.Lexer) (k : Nat) (w : Int) : (adv l k w).start = l.start := rfl
@[simp] theorem adv_width (l : Gen.Lexer) (k : Nat) (w : Int) : (adv l k w).width = w := rfl
@[simp] theorem adv_lastPos (l : Gen.Lexer) (k : Nat) (w : Int) : (adv l k w).lastPos = l.lastPos := rfl
@[simp] theorem adv_items (l : Gen.Lexer) (k : Nat) (w : Int) : (adv l k w).items = l.items := rfl

theorem adv_adv (l : Gen.Lexer) (k k' : Nat) (w w' : Int) : adv (adv l k w) k' w' = adv l (k + k') w' := by
  simp only [adv, Int.natCast_add, Int.add_assoc]

theorem rem_length (l : Gen.Lexer) : (rem l).length = l.input.length - l.pos.toNat := by
  simp [rem]

theorem rem_adv (l : Gen.Lexer) (h0 : 0 ≤ l.pos) (k : Nat) (w : Int) : rem (adv l k w) = (rem l).drop k := by
  simp only [rem, adv, List.drop_drop]
  congr 1
  omega

theorem WF.pos_nonneg {l : Gen.Lexer} (h : WF l) : 0 ≤ l.pos := by unfold WF at h; omega

theorem WF.adv {l : Gen.Lexer} (h : WF l) {k : Nat} (hk : k ≤ (rem l).length) (w : Int) : WF (adv l k w) := by
  rw [rem_length] at hk
  unfold WF at *
  simp only [adv_start, adv_pos, adv_input]
  omega

theorem rem_eq_nil_iff {l : Gen.Lexer} (h : WF l) : rem l = [] ↔ l.pos = l.input.length := by
  unfold WF at h
  simp only [rem, List.drop_eq_nil_iff]
  omega

/-- `l.next()` at the end of the input: rune `eof`, width 0, position unchanged -/
theorem lexer_next_eof (l : Gen.Lexer) (hwf : WF l) (h : rem l = []) :
    Gen.lexer_next l = (adv l 0 0, Gen.eof) := by
  have hp := (rem_eq_nil_iff hwf).mp h
  obtain ⟨input, state, pos, start, width, lastPos, items⟩ := l
  simp only at hp
  simp [Gen.lexer_next, adv, Go.len, hp]

/-- `l.next()` inside the input: rune and width of `decodeRune` on the remaining input, position advanced by the width -/
theorem lexer_next_rune (l : Gen.Lexer) (hwf : WF l) (h : rem l ≠ []) :
    Gen.lexer_next l = (adv l (decodeRune (rem l)).2 (((decodeRune (rem l)).2 : Nat) : Int),
                        (((decodeRune (rem l)).1 : Nat) : Int)) := by
  have hp : ¬ (l.pos ≥ Go.len l.input) := by
    have : l.pos ≠ (l.input.length : Int) := fun e => h ((rem_eq_nil_iff hwf).mpr e)
    unfold WF at hwf
    simp only [Go.len]; omega
  simp only [Gen.lexer_next, hp, decide_false]
  rfl

theorem lexer_backup_adv (l : Gen.Lexer) (k w : Nat) (h : w ≤ k) :
    Gen.lexer_backup (adv l k (w : Int)) = adv l (k - w) (w : Int) := by
  simp only [Gen.lexer_backup, adv]
  congr 1
  omega

@[simp] theorem adv_setWidth (l : Gen.Lexer) (w0 : Int) (k : Nat) (w : Int) :
    adv { l with width := w0 } k w = adv l k w := rfl

@[simp] theorem rem_setWidth (l : Gen.Lexer) (w0 : Int) : rem { l with width := w0 } = rem l := rfl

theorem WF.setWidth {l : Gen.Lexer} (h : WF l) (w0 : Int) : WF { l with width := w0 } := h

theorem adv_zero (l : Gen.Lexer) (w : Int) : adv l 0 w = { l with width := w } := by
  simp [adv]

/-- `l.peek()` at the end of the input -/
theorem lexer_peek_eof (l : Gen.Lexer) (hwf : WF l) (h : rem l = []) :
    Gen.lexer_peek l = ({ l with width := 0 }, Gen.eof) := by
  rw [← adv_zero]
  simp only [Gen.lexer_peek, lexer_next_eof l hwf h]
  exact congrArg (·, Gen.eof) (lexer_backup_adv l 0 0 (Nat.le_refl _))

theorem lexer_peek_eof' (l : Gen.Lexer) (hwf : WF l) (h : rem l = []) :
    Gen.lexer_peek l = (adv l 0 0, Gen.eof) := by
  rw [lexer_peek_eof l hwf h, adv_zero]

theorem lexer_peek_rune' (l : Gen.Lexer) (hwf : WF l) (h : rem l ≠ []) :
    Gen.lexer_peek l = (adv l 0 (((decodeRune (rem l)).2 : Nat) : Int), (((decodeRune (rem l)).1 : Nat) : Int)) := by
  simp only [Gen.lexer_peek, lexer_next_rune l hwf h]
  rw [lexer_backup_adv l _ _ (Nat.le_refl (decodeRune (rem l)).2), Nat.sub_self]

/-- `l.peek()` inside the input: the rune `l.next()` would return; only the field `width` changes -/
theorem lexer_peek_rune (l : Gen.Lexer) (hwf : WF l) (h : rem l ≠ []) :
    Gen.lexer_peek l = ({ l with width := (((decodeRune (rem l)).2 : Nat) : Int) }, (((decodeRune (rem l)).1 : Nat) : Int)) := by
  simp only [Gen.lexer_peek, lexer_next_rune l hwf h]
  rw [lexer_backup_adv l _ _ (Nat.le_refl (decodeRune (rem l)).2), Nat.sub_self, adv_zero]

/-- `l.peek()` leaves every field but `width` unchanged, and returns the same rune as `l.next()` -/
theorem lexer_peek_spec (l : Gen.Lexer) (hwf : WF l) :
    (Gen.lexer_peek l).2 = (Gen.lexer_next l).2 ∧
    (Gen.lexer_peek l).1 = { l with width := (Gen.lexer_peek l).1.width } := by
  by_cases h : rem l = []
  · rw [lexer_peek_eof l hwf h, lexer_next_eof l hwf h]; exact ⟨rfl, rfl⟩
  · rw [lexer_peek_rune l hwf h, lexer_next_rune l hwf h]; exact ⟨rfl, rfl⟩

/-- `l.emit(t)`: sends `item{t, start, input[start:pos]}` and sets `start := pos` -/
theorem lexer_emit_eq (l : Gen.Lexer) (t : Int) :
    Gen.lexer_emit l t =
      { l with items := l.items ++ [({ typ := t, pos := l.start, val := Go.slice l.input l.start l.pos } : Gen.Item)],
               start := l.pos } := rfl

theorem lexer_emit_adv (l : Gen.Lexer) (h0 : 0 ≤ l.pos) (hs : l.start = l.pos) (k : Nat) (w t : Int) :
    Gen.lexer_emit (adv l k w) t = emitK l k w t := by
  simp only [lexer_emit_eq, adv, emitK, hs, Go.slice_add l.input h0 k, rem]

theorem lexer_ignore_adv (l : Gen.Lexer) (k : Nat) (w : Int) :
    Gen.lexer_ignore (adv l k w) = { l with pos := l.pos + (k : Int), start := l.pos + (k : Int), width := w } := rfl


/-! ## 3. `acceptRun` -/

/-- the model's `acceptRun` splits its input -/
theorem acceptRunR_append (v : Nat → Bool) : ∀ (n : Nat) (s : Bytes), (acceptRunR v n s).1 ++ (acceptRunR v n s).2 = s := by
  intro n
  induction n with
  | zero => intro s; cases s <;> simp [acceptRunR]
  | succ n ih =>
    intro s
    cases s with
    | nil => simp [acceptRunR]
    | cons b rest =>
      simp only [acceptRunR]
      split
      · simp only [List.append_assoc, ih, List.take_append_drop]
      · rfl

theorem acceptRunR_snd (v : Nat → Bool) (n : Nat) (s : Bytes) :
    (acceptRunR v n s).2 = s.drop (acceptRunR v n s).1.length := by
  conv => rhs; arg 2; rw [← acceptRunR_append v n s]
  rw [List.drop_left]

theorem acceptRunR_fst (v : Nat → Bool) (n : Nat) (s : Bytes) :
    (acceptRunR v n s).1 = s.take (acceptRunR v n s).1.length := by
  conv => rhs; arg 2; rw [← acceptRunR_append v n s]
  rw [List.take_left]

theorem acceptRunR_length_le (v : Nat → Bool) (n : Nat) (s : Bytes) : (acceptRunR v n s).1.length ≤ s.length := by
  have := congrArg List.length (acceptRunR_append v n s)
  simp only [List.length_append] at this
  omega

/-- the loop of `acceptRun`: it stops one rune (of width `w`; `w = 0` at the end of the input) AFTER the run -/
theorem acceptRun_loop1_spec (valid : Bytes) (validR : Nat → Bool)
    (hv : ∀ r, Go.containsRune valid r = (decide (0 ≤ r) && validR r.toNat)) :
    ∀ (fuel : Nat) (l : Gen.Lexer) (n : Nat), WF l → (rem l).length < fuel → (rem l).length ≤ n →
      ∃ w : Nat, Gen.lexer_acceptRun_loop1 fuel valid l
        = .ok (adv l ((acceptRunR validR n (rem l)).1.length + w) (w : Int)) := by
  intro fuel
  induction fuel with
  | zero => intro l n _ h; omega
  | succ f ih =>
    intro l n hwf hf hn
    simp only [Gen.lexer_acceptRun_loop1]
    cases hr : rem l with
    | nil =>
      refine ⟨0, ?_⟩
      rw [lexer_next_eof l hwf hr]
      have : Go.containsRune valid Gen.eof = false := by rw [hv]; rfl
      simp [this, acceptRunR]
    | cons b rest =>
      have hne : rem l ≠ [] := by rw [hr]; exact List.cons_ne_nil _ _
      obtain ⟨hw1, hw2⟩ := decodeRune_width b rest
      rw [lexer_next_rune l hwf hne, hr]
      simp only [hv, Int.toNat_natCast, Int.natCast_nonneg, decide_true, Bool.true_and]
      rw [hr] at hf hn
      simp only [List.length_cons] at hf hn hw2
      obtain ⟨n', rfl⟩ : ∃ n', n = n' + 1 := ⟨n - 1, by omega⟩
      simp only [acceptRunR]
      cases hval : validR (decodeRune (b :: rest)).1 with
      | true =>
        simp only [if_true]
        have hwf' : WF (adv l (decodeRune (b :: rest)).2 ((decodeRune (b :: rest)).2 : Nat)) :=
          hwf.adv (by rw [hr]; simpa using hw2) _
        have hrem' := rem_adv l hwf.pos_nonneg (decodeRune (b :: rest)).2 ((decodeRune (b :: rest)).2 : Nat)
        rw [hr] at hrem'
        obtain ⟨w, hw⟩ := ih _ n' hwf' (by rw [hrem']; simp only [List.length_drop, List.length_cons]; omega)
          (by rw [hrem']; simp only [List.length_drop, List.length_cons]; omega)
        refine ⟨w, ?_⟩
        rw [hw, adv_adv, hrem']
        congr 2
        simp only [List.length_append, List.length_take, List.length_cons]
        omega
      | false =>
        refine ⟨(decodeRune (b :: rest)).2, ?_⟩
        simp

/-- `l.acceptRun(valid)` = the model's `acceptRunR`: the position advances over the run, nothing else changes (but
    `width`, which is the width of the rune after the run) -/
theorem lexer_acceptRun_adv (valid : Bytes) (validR : Nat → Bool)
    (hv : ∀ r, Go.containsRune valid r = (decide (0 ≤ r) && validR r.toNat))
    (fuel : Nat) (l : Gen.Lexer) (n : Nat) (hwf : WF l) (hf : (rem l).length < fuel) (hn : (rem l).length ≤ n) :
    ∃ w : Int, Gen.lexer_acceptRun fuel l valid = .ok (adv l (acceptRunR validR n (rem l)).1.length w) := by
  obtain ⟨w, hw⟩ := acceptRun_loop1_spec valid validR hv fuel l n hwf hf hn
  refine ⟨(w : Int), ?_⟩
  simp only [Gen.lexer_acceptRun, hw]
  rw [lexer_backup_adv l _ w (Nat.le_add_left _ _), Nat.add_sub_cancel]

/-- the statement of `lexer_acceptRun_adv` field by field -/
theorem lexer_acceptRun_spec (valid : Bytes) (validR : Nat → Bool)
    (hv : ∀ r, Go.containsRune valid r = (decide (0 ≤ r) && validR r.toNat))
    (fuel : Nat) (l : Gen.Lexer) (hwf : WF l) (hf : (rem l).length < fuel) :
    ∃ l', Gen.lexer_acceptRun fuel l valid = .ok l' ∧
      l'.input = l.input ∧ l'.start = l.start ∧ l'.items = l.items ∧ l'.state = l.state ∧ l'.lastPos = l.lastPos ∧
      l'.pos = l.pos + ((acceptRunR validR (rem l).length (rem l)).1.length : Int) ∧
      rem l' = (acceptRunR validR (rem l).length (rem l)).2 ∧
      Go.slice l.input l.pos l'.pos = (acceptRunR validR (rem l).length (rem l)).1 ∧ WF l' := by
  obtain ⟨w, hw⟩ := lexer_acceptRun_adv valid validR hv fuel l _ hwf hf (Nat.le_refl _)
  refine ⟨_, hw, rfl, rfl, rfl, rfl, rfl, rfl, ?_, ?_, ?_⟩
  · rw [rem_adv l hwf.pos_nonneg, ← acceptRunR_snd]
  · rw [adv_pos, Go.slice_add _ hwf.pos_nonneg]
    exact (acceptRunR_fst _ _ _).symm
  · exact hwf.adv (acceptRunR_length_le _ _ _) _


/-! ## 4. the loop of `lexValue` -/

theorem natCast_beq_34 (n : Nat) : (((n : Nat) : Int) == (34 : Int)) = (n == 34) := natCast_beq n 34
theorem natCast_beq_36 (n : Nat) : (((n : Nat) : Int) == (36 : Int)) = (n == 36) := natCast_beq n 36
theorem natCast_beq_40 (n : Nat) : (((n : Nat) : Int) == (40 : Int)) = (n == 40) := natCast_beq n 40
theorem natCast_beq_41 (n : Nat) : (((n : Nat) : Int) == (41 : Int)) = (n == 41) := natCast_beq n 41
theorem natCast_beq_38 (n : Nat) : (((n : Nat) : Int) == (38 : Int)) = (n == 38) := natCast_beq n 38
theorem natCast_beq_124 (n : Nat) : (((n : Nat) : Int) == (124 : Int)) = (n == 124) := natCast_beq n 124
theorem natCast_beq_94 (n : Nat) : (((n : Nat) : Int) == (94 : Int)) = (n == 94) := natCast_beq n 94
theorem natCast_beq_44 (n : Nat) : (((n : Nat) : Int) == (44 : Int)) = (n == 44) := natCast_beq n 44
theorem natCast_beq_59 (n : Nat) : (((n : Nat) : Int) == (59 : Int)) = (n == 59) := natCast_beq n 59
theorem natCast_beq_61 (n : Nat) : (((n : Nat) : Int) == (61 : Int)) = (n == 61) := natCast_beq n 61

theorem natCast_beq_eof (n : Nat) : (((n : Nat) : Int) == Gen.eof) = false := by
  simp only [Gen.eof, beq_eq_false_iff_ne]; omega

theorem natCast_bne_eof (n : Nat) : (((n : Nat) : Int) != Gen.eof) = true := by
  simp only [bne, natCast_beq_eof]; rfl

/-- a decoded rune below 0x80 is the first byte, of width 1 -/
theorem decodeRune_small {b : UInt8} {rest : Bytes} (h : (decodeRune (b :: rest)).1 < 128) :
    decodeRune (b :: rest) = (b.toNat, 1) := by
  rcases lt_or_toNat_ge b with hb | hb
  · exact decodeRune_ascii rest hb
  · have := (decodeRune_nonascii_nat b rest hb).1; omega

theorem decodeRune_eq_lit {b : UInt8} {rest : Bytes} {c : UInt8} (hc : c.toNat < 128)
    (h : (decodeRune (b :: rest)).1 = c.toNat) : b = c ∧ (decodeRune (b :: rest)).2 = 1 := by
  have hs := decodeRune_small (b := b) (rest := rest) (by omega)
  rw [hs] at h
  exact ⟨UInt8.toNat_inj.mp h, by rw [hs]⟩

theorem pair_match {α β γ : Type} (p : α × β) (g : α → β → γ) : (match p with | (a, b) => g a b) = g p.1 p.2 := rfl

/-- the loop of `lexValue` = the model's `scanStrR`. `l0` is the state in front of the `l.next()` whose result the loop
    inspects first (in `lexValue`: after the opening quote). `none`: the loop runs to the end of the input and ends with
    `r = eof`, `seenFinalQuote = false`; `some (body, rest')`: it ends with `seenFinalQuote = true` just after the closing
    quote, having consumed `body ++ [34]`. -/
theorem lexValue_loop1_spec :
    ∀ (fuel : Nat) (l0 : Gen.Lexer) (n : Nat), WF l0 → (rem l0).length < fuel → (rem l0).length ≤ n →
      (scanStrR n (rem l0) = none →
        ∃ w, Gen.lexValue_loop1 fuel (Gen.lexer_next l0).2 (Gen.lexer_next l0).1 false
          = .ok (Gen.eof, adv l0 (rem l0).length w, false)) ∧
      (∀ body rest', scanStrR n (rem l0) = some (body, rest') →
        rem l0 = body ++ 34 :: rest' ∧
        ∃ r w, Gen.lexValue_loop1 fuel (Gen.lexer_next l0).2 (Gen.lexer_next l0).1 false
          = .ok (r, adv l0 (body.length + 1) w, true)) := by
  intro fuel
  induction fuel with
  | zero => intro l n _ h; omega
  | succ f ih =>
    intro l0 n hwf hf hn
    cases hr : rem l0 with
    | nil =>
      rw [lexer_next_eof l0 hwf hr]
      simp only [scanStrR, Gen.lexValue_loop1]
      refine ⟨fun _ => ⟨0, ?_⟩, fun _ _ h => by cases h⟩
      simp
    | cons b rest =>
      have hne : rem l0 ≠ [] := by rw [hr]; exact List.cons_ne_nil _ _
      obtain ⟨hw1, hw2⟩ := decodeRune_width b rest
      rw [lexer_next_rune l0 hwf hne, hr]
      rw [hr] at hf hn
      simp only [List.length_cons] at hf hn hw2
      obtain ⟨n', rfl⟩ : ∃ n', n = n' + 1 := ⟨n - 1, by omega⟩
      simp only [Gen.lexValue_loop1, natCast_bne_eof, if_true, natCast_beq_34]
      by_cases hq : (decodeRune (b :: rest)).1 = 34
      · -- a quote
        obtain ⟨rfl, hw⟩ := decodeRune_eq_lit (c := 34) (by decide) hq
        have hwf1 : WF (adv l0 1 ((1 : Nat) : Int)) := hwf.adv (by rw [hr]; simp) _
        have hrem1 : rem (adv l0 1 ((1 : Nat) : Int)) = rest := by rw [rem_adv l0 hwf.pos_nonneg, hr]; rfl
        simp only [scanStrR, hq, hw, beq_self_eq_true, if_true, List.drop_succ_cons, List.drop_zero,
          List.take_succ_cons, List.take_zero]
        cases rest with
        | nil =>
          rw [lexer_peek_eof' _ hwf1 hrem1]
          simp only [adv_adv]
          refine ⟨fun h => (by cases h), fun body rest' h => ?_⟩
          simp only [Option.some.injEq, Prod.mk.injEq] at h
          obtain ⟨rfl, rfl⟩ := h
          refine ⟨rfl, Gen.eof, 0, ?_⟩
          simp [Gen.eof]
        | cons c rest2 =>
          have hne1 : rem (adv l0 1 ((1 : Nat) : Int)) ≠ [] := by rw [hrem1]; exact List.cons_ne_nil _ _
          rw [lexer_peek_rune' _ hwf1 hne1, hrem1]
          simp only [adv_adv, bne, natCast_beq_34]
          by_cases hq2 : (decodeRune (c :: rest2)).1 = 34
          · -- escaped quote
            obtain ⟨rfl, hw'⟩ := decodeRune_eq_lit (c := 34) (by decide) hq2
            have hwf1' : WF (adv l0 1 ((1 : Nat) : Int)) := hwf1
            have hwf2 : WF (adv l0 (1 + 0) ((1 : Nat) : Int)) := hwf.adv (by rw [hr]; simp) _
            have hrem2 : rem (adv l0 (1 + 0) ((1 : Nat) : Int)) = 34 :: rest2 := by
              rw [rem_adv l0 hwf.pos_nonneg, hr]; rfl
            have hne2 : rem (adv l0 (1 + 0) ((1 : Nat) : Int)) ≠ [] := by
              rw [hrem2]; exact List.cons_ne_nil _ _
            simp only [hq2, hw', beq_self_eq_true, Bool.not_true, Bool.false_eq_true, ↓reduceIte,
              List.drop_succ_cons, List.drop_zero, List.take_succ_cons, List.take_zero]
            rw [lexer_next_rune _ hwf2 hne2, hrem2]
            simp only [adv_adv, hw']
            have hwf3 : WF (adv l0 (1 + 0 + 1) ((1 : Nat) : Int)) := hwf.adv (by rw [hr]; simp) _
            have hrem3 : rem (adv l0 (1 + 0 + 1) ((1 : Nat) : Int)) = rest2 := by
              rw [rem_adv l0 hwf.pos_nonneg, hr]; rfl
            simp only [List.length_cons] at hf hn
            obtain ⟨ih1, ih2⟩ := ih _ n' hwf3 (by rw [hrem3]; omega) (by rw [hrem3]; omega)
            rw [hrem3] at ih1 ih2
            constructor
            · intro h
              rw [Option.map_eq_none_iff] at h
              obtain ⟨w, hw⟩ := ih1 h
              refine ⟨w, ?_⟩
              rw [hw, adv_adv]
              congr 3; congr 1
              simp only [List.length_cons]; omega
            · intro body rest' h
              rw [Option.map_eq_some_iff] at h
              obtain ⟨⟨body', rest''⟩, h1, h2⟩ := h
              simp only [Prod.mk.injEq] at h2
              obtain ⟨rfl, rfl⟩ := h2
              obtain ⟨e, r, w, hw⟩ := ih2 _ _ h1
              refine ⟨by rw [e]; simp, r, w, ?_⟩
              rw [hw, adv_adv]
              congr 3; congr 1
              simp only [List.length_cons, List.length_append, List.length_nil]; omega
          · -- closing quote
            have hq2' : ((decodeRune (c :: rest2)).1 == 34) = false := by simp [hq2]
            rw [hq2']
            simp only [Bool.not_false, Bool.false_eq_true, ↓reduceIte]
            refine ⟨fun h => (by cases h), fun body rest' h => ?_⟩
            simp only [Option.some.injEq, Prod.mk.injEq] at h
            obtain ⟨rfl, rfl⟩ := h
            exact ⟨rfl, _, _, rfl⟩
      · -- any other rune
        have hq' : ((decodeRune (b :: rest)).1 == 34) = false := by simp [hq]
        simp only [scanStrR]
        rw [hq']
        simp only [Bool.false_eq_true, ↓reduceIte]
        have hwf1 : WF (adv l0 (decodeRune (b :: rest)).2 (((decodeRune (b :: rest)).2 : Nat) : Int)) :=
          hwf.adv (by rw [hr]; simpa using hw2) _
        have hrem1 := rem_adv l0 hwf.pos_nonneg (decodeRune (b :: rest)).2 (((decodeRune (b :: rest)).2 : Nat) : Int)
        rw [hr] at hrem1
        have hlen : ((b :: rest).drop (decodeRune (b :: rest)).2).length = rest.length + 1 - (decodeRune (b :: rest)).2 := by
          simp
        obtain ⟨ih1, ih2⟩ := ih _ n' hwf1 (by rw [hrem1, hlen]; omega) (by rw [hrem1, hlen]; omega)
        rw [hrem1] at ih1 ih2
        constructor
        · intro h
          rw [Option.map_eq_none_iff] at h
          obtain ⟨w, hw⟩ := ih1 h
          refine ⟨w, ?_⟩
          rw [hw, adv_adv]
          congr 3; congr 1
          rw [hlen]; simp only [List.length_cons]; omega
        · intro body rest' h
          rw [Option.map_eq_some_iff] at h
          obtain ⟨⟨body', rest''⟩, h1, h2⟩ := h
          simp only [Prod.mk.injEq] at h2
          obtain ⟨rfl, rfl⟩ := h2
          obtain ⟨e, r, w, hw⟩ := ih2 _ _ h1
          refine ⟨?_, r, w, ?_⟩
          · rw [List.append_assoc, ← e, List.take_append_drop]
          · rw [hw, adv_adv]
            congr 3; congr 1
            simp only [List.length_append, List.length_take, List.length_cons]; omega


/-! ## 5. the state functions -/

/-- `l` after `k` bytes have been skipped (`acceptRun`, then `ignore`) -/
def skipK (l : Gen.Lexer) (k : Nat) (w : Int) : Gen.Lexer :=
  { l with pos := l.pos + (k : Int), start := l.pos + (k : Int), width := w }

/-- `l` after `l.errorf(format)` -/
def errK (l : Gen.Lexer) (format : Bytes) : Gen.Lexer :=
  { l with items := l.items ++ [({ typ := Gen.itemError, pos := l.start, val := format } : Gen.Item)] }

theorem lexer_errorf_eq (l : Gen.Lexer) (format : Bytes) : Gen.lexer_errorf l format = (errK l format, none) := rfl

/-- the error message of `lexText` -/
def msgUnknown : Bytes := [117, 110, 107, 110, 111, 119, 110, 32, 116, 111, 107, 101, 110, 58, 32, 37, 115]

/-- `lexText` at the end of the input: emits `itemEOF`, the lexer stops -/
theorem lexText_eof (fuel : Nat) (l : Gen.Lexer) (hwf : WF l) (hs : l.start = l.pos) (h : rem l = []) :
    Gen.lexText fuel l = .ok (emitK l 0 0 Gen.itemEOF, none) := by
  simp only [Gen.lexText, lexer_peek_eof l hwf h, ← adv_zero l 0, lexer_emit_adv l hwf.pos_nonneg hs]
  simp [Gen.eof]

/-- `lexText` inside the input, all tests expressed on the decoded rune `r` (a `Nat`): the same cascade as in the
    model's `lexTextR` -/
theorem lexText_cons (fuel : Nat) (l : Gen.Lexer) (hwf : WF l) (hs : l.start = l.pos) (b : UInt8) (rest : Bytes)
    (h : rem l = b :: rest) (r w : Nat) (hd : decodeRune (b :: rest) = (r, w)) :
    Gen.lexText fuel l =
      if isSpaceRune r then
        match Gen.lexer_acceptRun fuel { l with width := (w : Int) } ([13, 10, 9, 32] : Bytes) with
        | .error err => .error err
        | .ok l => .ok (Gen.lexer_ignore l, some Gen.StateFn.lexText)
      else if r == 40 then .ok (emitK l w (w : Int) Gen.itemOpenParen, some Gen.StateFn.lexText)
      else if r == 41 then .ok (emitK l w (w : Int) Gen.itemCloseParen, some Gen.StateFn.lexText)
      else if r == 38 then .ok (emitK l w (w : Int) Gen.itemAnd, some Gen.StateFn.lexText)
      else if r == 124 then .ok (emitK l w (w : Int) Gen.itemOr, some Gen.StateFn.lexText)
      else if r == 94 then .ok (emitK l w (w : Int) Gen.itemNot, some Gen.StateFn.lexText)
      else if r == 44 then .ok (emitK l w (w : Int) Gen.itemComma, some Gen.StateFn.lexText)
      else if r == 59 then .ok (emitK l w (w : Int) Gen.itemSemicolon, some Gen.StateFn.lexText)
      else if r == 61 then .ok (emitK l w (w : Int) Gen.itemEqual, some Gen.StateFn.lexText)
      else if isAlphaRune r then .ok ({ l with width := (w : Int) }, some Gen.StateFn.lexField)
      else if r == 34 then .ok ({ l with width := (w : Int) }, some Gen.StateFn.lexValue)
      else if r == 36 then .ok ({ l with width := (w : Int) }, some Gen.StateFn.lexPlaceholder)
      else .ok (errK { l with width := (w : Int) } msgUnknown, none) := by
  have hne : rem l ≠ [] := by rw [h]; exact List.cons_ne_nil _ _
  have hnext : Gen.lexer_next { l with width := (w : Int) } = (adv l w (w : Int), (r : Int)) := by
    have := lexer_next_rune { l with width := (w : Int) } (hwf.setWidth _) hne
    rw [rem_setWidth, h, hd] at this
    exact this
  simp only [Gen.lexText, lexer_peek_rune l hwf hne, h, hd, spaceTest_nat, alphaTest_nat, natCast_beq_34, natCast_beq_36,
    natCast_beq_40, natCast_beq_41, natCast_beq_38, natCast_beq_124, natCast_beq_94, natCast_beq_44, natCast_beq_59,
    natCast_beq_61, natCast_beq_eof, hnext, lexer_emit_adv l hwf.pos_nonneg hs, Bool.false_eq_true, ↓reduceIte,
    lexer_errorf_eq, msgUnknown]
  rfl


theorem lexText_cons' (fuel : Nat) (l : Gen.Lexer) (hwf : WF l) (hs : l.start = l.pos) (b : UInt8) (rest : Bytes)
    (h : rem l = b :: rest) :
    Gen.lexText fuel l =
      if isSpaceRune (decodeRune (b :: rest)).1 then
        match Gen.lexer_acceptRun fuel { l with width := (((decodeRune (b :: rest)).2 : Nat) : Int) } ([13, 10, 9, 32] : Bytes) with
        | .error err => .error err
        | .ok l => .ok (Gen.lexer_ignore l, some Gen.StateFn.lexText)
      else if (decodeRune (b :: rest)).1 == 40 then .ok (emitK l (decodeRune (b :: rest)).2 (((decodeRune (b :: rest)).2 : Nat) : Int) Gen.itemOpenParen, some Gen.StateFn.lexText)
      else if (decodeRune (b :: rest)).1 == 41 then .ok (emitK l (decodeRune (b :: rest)).2 (((decodeRune (b :: rest)).2 : Nat) : Int) Gen.itemCloseParen, some Gen.StateFn.lexText)
      else if (decodeRune (b :: rest)).1 == 38 then .ok (emitK l (decodeRune (b :: rest)).2 (((decodeRune (b :: rest)).2 : Nat) : Int) Gen.itemAnd, some Gen.StateFn.lexText)
      else if (decodeRune (b :: rest)).1 == 124 then .ok (emitK l (decodeRune (b :: rest)).2 (((decodeRune (b :: rest)).2 : Nat) : Int) Gen.itemOr, some Gen.StateFn.lexText)
      else if (decodeRune (b :: rest)).1 == 94 then .ok (emitK l (decodeRune (b :: rest)).2 (((decodeRune (b :: rest)).2 : Nat) : Int) Gen.itemNot, some Gen.StateFn.lexText)
      else if (decodeRune (b :: rest)).1 == 44 then .ok (emitK l (decodeRune (b :: rest)).2 (((decodeRune (b :: rest)).2 : Nat) : Int) Gen.itemComma, some Gen.StateFn.lexText)
      else if (decodeRune (b :: rest)).1 == 59 then .ok (emitK l (decodeRune (b :: rest)).2 (((decodeRune (b :: rest)).2 : Nat) : Int) Gen.itemSemicolon, some Gen.StateFn.lexText)
      else if (decodeRune (b :: rest)).1 == 61 then .ok (emitK l (decodeRune (b :: rest)).2 (((decodeRune (b :: rest)).2 : Nat) : Int) Gen.itemEqual, some Gen.StateFn.lexText)
      else if isAlphaRune (decodeRune (b :: rest)).1 then .ok ({ l with width := (((decodeRune (b :: rest)).2 : Nat) : Int) }, some Gen.StateFn.lexField)
      else if (decodeRune (b :: rest)).1 == 34 then .ok ({ l with width := (((decodeRune (b :: rest)).2 : Nat) : Int) }, some Gen.StateFn.lexValue)
      else if (decodeRune (b :: rest)).1 == 36 then .ok ({ l with width := (((decodeRune (b :: rest)).2 : Nat) : Int) }, some Gen.StateFn.lexPlaceholder)
      else .ok (errK { l with width := (((decodeRune (b :: rest)).2 : Nat) : Int) } msgUnknown, none) :=
  lexText_cons fuel l hwf hs b rest h _ _ rfl

/-- `lexText` on white space: the whole run is skipped -/
theorem lexText_space (fuel : Nat) (l : Gen.Lexer) (hwf : WF l) (hs : l.start = l.pos) (b : UInt8) (rest : Bytes)
    (h : rem l = b :: rest) (hsp : isSpaceRune (decodeRune (b :: rest)).1 = true)
    (hf : rest.length + 1 < fuel) (n : Nat) (hn : rest.length + 1 ≤ n) :
    ∃ w, Gen.lexText fuel l = .ok (skipK l (acceptRunR isSpaceRune n (b :: rest)).1.length w, some Gen.StateFn.lexText) := by
  rw [lexText_cons' fuel l hwf hs b rest h]
  simp only [hsp, ↓reduceIte]
  obtain ⟨w, hw⟩ := lexer_acceptRun_adv _ _ containsRune_space fuel
    { l with width := (((decodeRune (b :: rest)).2 : Nat) : Int) } n (hwf.setWidth _)
    (by rw [rem_setWidth, h]; simpa using hf) (by rw [rem_setWidth, h]; simpa using hn)
  rw [rem_setWidth, h] at hw
  refine ⟨w, ?_⟩
  rw [hw]
  rfl

/-- the first rune of a white-space run is consumed -/
theorem acceptRunR_pos (v : Nat → Bool) (n : Nat) (b : UInt8) (rest : Bytes) (hv : v (decodeRune (b :: rest)).1 = true) :
    1 ≤ (acceptRunR v (n + 1) (b :: rest)).1.length := by
  have := (decodeRune_width b rest)
  simp only [acceptRunR, hv, ↓reduceIte, List.length_append, List.length_take, List.length_cons] at *
  omega

/-- the tactic for the eight one-character tokens -/
local macro "single_tok" hr:ident c:term : tactic =>
  `(tactic| (obtain ⟨-, hw⟩ := decodeRune_eq_lit (c := $c) (by decide) $hr
             rw [lexText_cons' _ _ ‹_› ‹_› _ _ ‹_›]
             simp [$hr:ident, hw, isSpaceRune]))

section
variable (fuel : Nat) (l : Gen.Lexer) (hwf : WF l) (hs : l.start = l.pos) (b : UInt8) (rest : Bytes)
  (h : rem l = b :: rest)
include hwf hs h

theorem lexText_lparen (hr : (decodeRune (b :: rest)).1 = 40) :
    Gen.lexText fuel l = .ok (emitK l 1 1 Gen.itemOpenParen, some Gen.StateFn.lexText) := by single_tok hr 40
theorem lexText_rparen (hr : (decodeRune (b :: rest)).1 = 41) :
    Gen.lexText fuel l = .ok (emitK l 1 1 Gen.itemCloseParen, some Gen.StateFn.lexText) := by single_tok hr 41
theorem lexText_and (hr : (decodeRune (b :: rest)).1 = 38) :
    Gen.lexText fuel l = .ok (emitK l 1 1 Gen.itemAnd, some Gen.StateFn.lexText) := by single_tok hr 38
theorem lexText_or (hr : (decodeRune (b :: rest)).1 = 124) :
    Gen.lexText fuel l = .ok (emitK l 1 1 Gen.itemOr, some Gen.StateFn.lexText) := by single_tok hr 124
theorem lexText_not (hr : (decodeRune (b :: rest)).1 = 94) :
    Gen.lexText fuel l = .ok (emitK l 1 1 Gen.itemNot, some Gen.StateFn.lexText) := by single_tok hr 94
theorem lexText_comma (hr : (decodeRune (b :: rest)).1 = 44) :
    Gen.lexText fuel l = .ok (emitK l 1 1 Gen.itemComma, some Gen.StateFn.lexText) := by single_tok hr 44
theorem lexText_semi (hr : (decodeRune (b :: rest)).1 = 59) :
    Gen.lexText fuel l = .ok (emitK l 1 1 Gen.itemSemicolon, some Gen.StateFn.lexText) := by single_tok hr 59
theorem lexText_equal (hr : (decodeRune (b :: rest)).1 = 61) :
    Gen.lexText fuel l = .ok (emitK l 1 1 Gen.itemEqual, some Gen.StateFn.lexText) := by single_tok hr 61

/-- a quote: nothing is consumed, the next state is `lexValue` -/
theorem lexText_quote (hr : (decodeRune (b :: rest)).1 = 34) :
    Gen.lexText fuel l = .ok ({ l with width := 1 }, some Gen.StateFn.lexValue) := by
  obtain ⟨-, hw⟩ := decodeRune_eq_lit (c := 34) (by decide) hr
  rw [lexText_cons' fuel l hwf hs b rest h]
  simp [hr, hw, isSpaceRune, isAlphaRune]

/-- `$`: nothing is consumed, the next state is `lexPlaceholder` -/
theorem lexText_dollar (hr : (decodeRune (b :: rest)).1 = 36) :
    Gen.lexText fuel l = .ok ({ l with width := 1 }, some Gen.StateFn.lexPlaceholder) := by
  obtain ⟨-, hw⟩ := decodeRune_eq_lit (c := 36) (by decide) hr
  rw [lexText_cons' fuel l hwf hs b rest h]
  simp [hr, hw, isSpaceRune, isAlphaRune]

/-- a letter: nothing is consumed, the next state is `lexField` -/
theorem lexText_alpha (hr : isAlphaRune (decodeRune (b :: rest)).1 = true) :
    Gen.lexText fuel l = .ok ({ l with width := (((decodeRune (b :: rest)).2 : Nat) : Int) }, some Gen.StateFn.lexField) := by
  have key : ∀ c : Nat, (c < 65 ∨ (90 < c ∧ c < 97) ∨ 122 < c) → ((decodeRune (b :: rest)).1 == c) = false := by
    intro c hc
    simp only [isAlphaRune, Bool.or_eq_true, Bool.and_eq_true, decide_eq_true_eq] at hr
    simp only [beq_eq_false_iff_ne]
    omega
  rw [lexText_cons' fuel l hwf hs b rest h]
  simp [isSpaceRune, key, hr]

/-- any other rune: an error item, the lexer stops -/
theorem lexText_unknown (h1 : isSpaceRune (decodeRune (b :: rest)).1 = false)
    (h2 : isAlphaRune (decodeRune (b :: rest)).1 = false)
    (h3 : ∀ c ∈ [40, 41, 38, 124, 94, 44, 59, 61, 34, 36], (decodeRune (b :: rest)).1 ≠ c) :
    Gen.lexText fuel l = .ok (errK { l with width := (((decodeRune (b :: rest)).2 : Nat) : Int) } msgUnknown, none) := by
  rw [lexText_cons' fuel l hwf hs b rest h]
  simp only [List.mem_cons, List.not_mem_nil, or_false, forall_eq_or_imp, forall_eq] at h3
  simp [h1, h2, h3]

end


/-- `lexField`: the run over the field alphabet is emitted as `itemField` -/
theorem lexField_spec (fuel : Nat) (l : Gen.Lexer) (hwf : WF l) (hs : l.start = l.pos)
    (hf : (rem l).length < fuel) (n : Nat) (hn : (rem l).length ≤ n) :
    ∃ w, Gen.lexField fuel l
      = .ok (emitK l (acceptRunR isFieldRune n (rem l)).1.length w Gen.itemField, some Gen.StateFn.lexText) := by
  obtain ⟨w, hw⟩ := lexer_acceptRun_adv _ _ containsRune_field fuel l n hwf hf hn
  refine ⟨w, ?_⟩
  simp only [Gen.lexField, hw, lexer_emit_adv l hwf.pos_nonneg hs]

/-- the error messages of `lexValue` and `lexPlaceholder` -/
def msgExpectedQuote : Bytes :=
  [101, 120, 112, 101, 99, 116, 101, 100, 32, 34, 44, 32, 103, 111, 116, 32, 37, 99, 32, 105, 110, 115, 116, 101, 97, 100]
def msgUnterminated : Bytes := [117, 110, 116, 101, 114, 109, 105, 110, 97, 116, 101, 100, 32, 115, 116, 114, 105, 110, 103]
def msgExpectedDollar : Bytes :=
  [101, 120, 112, 101, 99, 116, 101, 100, 32, 36, 44, 32, 103, 111, 116, 32, 37, 99, 32, 105, 110, 115, 116, 101, 97, 100]

/-- `l.next()` on an ASCII byte -/
theorem lexer_next_ascii (l : Gen.Lexer) (hwf : WF l) (b : UInt8) (rest : Bytes) (h : rem l = b :: rest) (hb : b < 128) :
    Gen.lexer_next l = (adv l 1 ((1 : Nat) : Int), ((b.toNat : Nat) : Int)) := by
  have hne : rem l ≠ [] := by rw [h]; exact List.cons_ne_nil _ _
  rw [lexer_next_rune l hwf hne, h, decodeRune_ascii rest hb]

/-- `lexValue` when the input does not start with a quote (never the case when entered from `lexText`) -/
theorem lexValue_noquote (fuel : Nat) (l : Gen.Lexer) (hwf : WF l)
    (h : rem l = [] ∨ ∃ b rest, rem l = b :: rest ∧ (decodeRune (b :: rest)).1 ≠ 34) :
    ∃ k w, Gen.lexValue fuel l = .ok (errK (adv l k w) msgExpectedQuote, none) := by
  rcases h with h | ⟨b, rest, h, hr⟩
  · refine ⟨0, 0, ?_⟩
    simp only [Gen.lexValue, lexer_next_eof l hwf h, lexer_errorf_eq]
    simp [Gen.eof, msgExpectedQuote]
  · have hne : rem l ≠ [] := by rw [h]; exact List.cons_ne_nil _ _
    refine ⟨(decodeRune (b :: rest)).2, (((decodeRune (b :: rest)).2 : Nat) : Int), ?_⟩
    simp only [Gen.lexValue, lexer_next_rune l hwf hne, h, lexer_errorf_eq, bne, natCast_beq_34]
    have : ((decodeRune (b :: rest)).1 == 34) = false := by simp [hr]
    rw [this]
    simp only [Bool.not_false, ↓reduceIte, msgExpectedQuote]

section
variable (fuel : Nat) (l : Gen.Lexer) (hwf : WF l) (hs : l.start = l.pos) (rest : Bytes)
include hwf hs

omit hs in
/-- `lexValue` on an unterminated string: an error item, the lexer stops -/
theorem lexValue_unterminated (h : rem l = 34 :: rest) (hf : rest.length < fuel) (n : Nat) (hn : rest.length ≤ n)
    (hsc : scanStrR n rest = none) :
    ∃ w, Gen.lexValue fuel l = .ok (errK (adv l (1 + rest.length) w) msgUnterminated, none) := by
  have hwf1 : WF (adv l 1 ((1 : Nat) : Int)) := hwf.adv (by rw [h]; simp) _
  have hrem1 : rem (adv l 1 ((1 : Nat) : Int)) = rest := by rw [rem_adv l hwf.pos_nonneg, h]; rfl
  obtain ⟨w, hw⟩ := (lexValue_loop1_spec fuel _ n hwf1 (by rw [hrem1]; exact hf) (by rw [hrem1]; exact hn)).1
    (by rw [hrem1]; exact hsc)
  refine ⟨w, ?_⟩
  rw [hrem1, adv_adv] at hw
  simp only [Gen.lexValue, lexer_next_ascii l hwf 34 rest h (by decide), hw, lexer_errorf_eq]
  simp [msgUnterminated]

/-- `lexValue` on a terminated string: `"` body `"` is emitted as `itemValue` -/
theorem lexValue_ok (h : rem l = 34 :: rest) (hf : rest.length < fuel) (n : Nat) (hn : rest.length ≤ n)
    (body rest' : Bytes) (hsc : scanStrR n rest = some (body, rest')) :
    rest = body ++ 34 :: rest' ∧
    ∃ w, Gen.lexValue fuel l = .ok (emitK l (1 + (body.length + 1)) w Gen.itemValue, some Gen.StateFn.lexText) := by
  have hwf1 : WF (adv l 1 ((1 : Nat) : Int)) := hwf.adv (by rw [h]; simp) _
  have hrem1 : rem (adv l 1 ((1 : Nat) : Int)) = rest := by rw [rem_adv l hwf.pos_nonneg, h]; rfl
  obtain ⟨e, r, w, hw⟩ := (lexValue_loop1_spec fuel _ n hwf1 (by rw [hrem1]; exact hf) (by rw [hrem1]; exact hn)).2
    body rest' (by rw [hrem1]; exact hsc)
  rw [hrem1] at e
  refine ⟨e, w, ?_⟩
  rw [adv_adv] at hw
  simp only [Gen.lexValue, lexer_next_ascii l hwf 34 rest h (by decide), hw, lexer_emit_adv l hwf.pos_nonneg hs]
  simp

/-- `lexPlaceholder`: `$` and the run of digits are emitted as `itemPlaceholder` -/
theorem lexPlaceholder_spec (h : rem l = 36 :: rest) (hf : rest.length < fuel) (n : Nat) (hn : rest.length ≤ n) :
    ∃ w, Gen.lexPlaceholder fuel l
      = .ok (emitK l (1 + (acceptRunR isDigitRune n rest).1.length) w Gen.itemPlaceholder, some Gen.StateFn.lexText) := by
  have hwf1 : WF (adv l 1 ((1 : Nat) : Int)) := hwf.adv (by rw [h]; simp) _
  have hrem1 : rem (adv l 1 ((1 : Nat) : Int)) = rest := by rw [rem_adv l hwf.pos_nonneg, h]; rfl
  obtain ⟨w, hw⟩ := lexer_acceptRun_adv _ _ containsRune_digit fuel _ n hwf1 (by rw [hrem1]; exact hf)
    (by rw [hrem1]; exact hn)
  rw [hrem1, adv_adv] at hw
  refine ⟨w, ?_⟩
  simp only [Gen.lexPlaceholder, lexer_next_ascii l hwf 36 rest h (by decide), hw, lexer_emit_adv l hwf.pos_nonneg hs]
  simp

end

/-- `lexPlaceholder` when the input does not start with `$` (never the case when entered from `lexText`) -/
theorem lexPlaceholder_nodollar (fuel : Nat) (l : Gen.Lexer) (hwf : WF l)
    (h : rem l = [] ∨ ∃ b rest, rem l = b :: rest ∧ (decodeRune (b :: rest)).1 ≠ 36) :
    ∃ k w, Gen.lexPlaceholder fuel l = .ok (errK (adv l k w) msgExpectedDollar, none) := by
  rcases h with h | ⟨b, rest, h, hr⟩
  · refine ⟨0, 0, ?_⟩
    simp only [Gen.lexPlaceholder, lexer_next_eof l hwf h, lexer_errorf_eq]
    simp [Gen.eof, msgExpectedDollar]
  · have hne : rem l ≠ [] := by rw [h]; exact List.cons_ne_nil _ _
    refine ⟨(decodeRune (b :: rest)).2, (((decodeRune (b :: rest)).2 : Nat) : Int), ?_⟩
    simp only [Gen.lexPlaceholder, lexer_next_rune l hwf hne, h, lexer_errorf_eq, bne, natCast_beq_36]
    have : ((decodeRune (b :: rest)).1 == 36) = false := by simp [hr]
    rw [this]
    simp only [Bool.not_false, ↓reduceIte, msgExpectedDollar]


/-! ## 6. the whole lexer -/

theorem forall₂_snoc {α β : Type} {R : α → β → Prop} {l₁ : List α} {l₂ : List β} {a : α} {b : β}
    (h : List.Forall₂ R l₁ l₂) (hab : R a b) : List.Forall₂ R (l₁ ++ [a]) (l₂ ++ [b]) := by
  induction h with
  | nil => exact .cons hab .nil
  | cons h1 _ ih => exact .cons h1 ih

/-- one iteration of the loop of `lexer.run` -/
theorem run_loop1_call (F : Nat) (l : Gen.Lexer) (sf : Gen.StateFn) (hst : l.state = some sf)
    (l1 : Gen.Lexer) (t : Option Gen.StateFn) (hc : Gen.callStateFn F (some sf) l = .ok (l1, t)) :
    Gen.lexer_run_loop1 (F + 1) l = Gen.lexer_run_loop1 F { l1 with state := t } := by
  rw [Gen.lexer_run_loop1]
  simp only [hst, hc]
  simp

/-- the loop of `lexer.run` ends when the state is nil -/
theorem run_loop1_none (F : Nat) (l : Gen.Lexer) (hst : l.state = none) : Gen.lexer_run_loop1 (F + 1) l = .ok l := by
  rw [Gen.lexer_run_loop1]
  simp [hst]

theorem run_loop1_stop (F : Nat) (l : Gen.Lexer) (sf : Gen.StateFn) (hst : l.state = some sf)
    (l1 : Gen.Lexer) (hc : Gen.callStateFn (F + 1) (some sf) l = .ok (l1, none)) :
    Gen.lexer_run_loop1 (F + 2) l = .ok { l1 with state := none } := by
  rw [run_loop1_call (F + 1) l sf hst l1 none hc, run_loop1_none F _ rfl]

theorem rem_of_eq {l l2 : Gen.Lexer} (h0 : 0 ≤ l.pos) (h1 : l2.input = l.input) {k : Nat} (h2 : l2.pos = l.pos + (k : Int)) :
    rem l2 = (rem l).drop k := by
  simp only [rem, h1, h2, List.drop_drop]
  congr 1
  omega

/-- the induction hypothesis of the main theorem: the loop of `lexer.run`, started in state `lexText` on a remaining
    input of at most `n` bytes, terminates and sends the items of the model -/
def RunOK (n : Nat) : Prop :=
  ∀ (l : Gen.Lexer) (pre : List Tok) (fuel : Nat), WF l → l.start = l.pos → l.state = some Gen.StateFn.lexText →
    (rem l).length ≤ n → 2 * (rem l).length + 2 ≤ fuel → List.Forall₂ ItemTok l.items pre →
    ∃ l', Gen.lexer_run_loop1 fuel l = .ok l' ∧ List.Forall₂ ItemTok l'.items (pre ++ lexTextR n (rem l))

/-- continue after a state function has emitted `item` and consumed `k ≥ 1` bytes -/
theorem RunOK.step {n : Nat} (ih : RunOK n) (l l2 : Gen.Lexer) (hwf : WF l) (pre : List Tok)
    (hpre : List.Forall₂ ItemTok l.items pre) (k : Nat) (item : Gen.Item) (tok : Tok)
    (h1 : l2.input = l.input) (h2 : l2.pos = l.pos + (k : Int)) (h3 : l2.start = l2.pos)
    (h4 : l2.state = some Gen.StateFn.lexText) (h5 : l2.items = l.items ++ [item]) (hit : ItemTok item tok)
    (hk1 : 1 ≤ k) (hk2 : k ≤ (rem l).length) (hn : (rem l).length ≤ n + 1) (fuel : Nat)
    (hf : 2 * (rem l).length ≤ fuel) :
    ∃ l', Gen.lexer_run_loop1 fuel l2 = .ok l' ∧
      List.Forall₂ ItemTok l'.items (pre ++ tok :: lexTextR n ((rem l).drop k)) := by
  have hrem := rem_of_eq hwf.pos_nonneg h1 h2
  have hlen : (rem l2).length = (rem l).length - k := by rw [hrem, List.length_drop]
  have hwf2 : WF l2 := by
    rw [rem_length] at hk2
    unfold WF at *
    rw [h3, h2, h1]; omega
  obtain ⟨l', e, hall⟩ := ih l2 (pre ++ [tok]) fuel hwf2 h3 h4 (by omega) (by omega)
    (by rw [h5]; exact forall₂_snoc hpre hit)
  refine ⟨l', e, ?_⟩
  rw [hrem, List.append_assoc] at hall
  exact hall

/-- continue after `k ≥ 1` bytes of white space have been skipped -/
theorem RunOK.skip {n : Nat} (ih : RunOK n) (l l2 : Gen.Lexer) (hwf : WF l) (pre : List Tok)
    (hpre : List.Forall₂ ItemTok l.items pre) (k : Nat)
    (h1 : l2.input = l.input) (h2 : l2.pos = l.pos + (k : Int)) (h3 : l2.start = l2.pos)
    (h4 : l2.state = some Gen.StateFn.lexText) (h5 : l2.items = l.items)
    (hk1 : 1 ≤ k) (hk2 : k ≤ (rem l).length) (hn : (rem l).length ≤ n + 1) (fuel : Nat)
    (hf : 2 * (rem l).length ≤ fuel) :
    ∃ l', Gen.lexer_run_loop1 fuel l2 = .ok l' ∧
      List.Forall₂ ItemTok l'.items (pre ++ lexTextR n ((rem l).drop k)) := by
  have hrem := rem_of_eq hwf.pos_nonneg h1 h2
  have hlen : (rem l2).length = (rem l).length - k := by rw [hrem, List.length_drop]
  have hwf2 : WF l2 := by
    rw [rem_length] at hk2
    unfold WF at *
    rw [h3, h2, h1]; omega
  obtain ⟨l', e, hall⟩ := ih l2 pre fuel hwf2 h3 h4 (by omega) (by omega) (by rw [h5]; exact hpre)
  refine ⟨l', e, ?_⟩
  rw [hrem] at hall
  exact hall

theorem lexTextR_nil (n : Nat) : lexTextR n [] = [.eof] := by cases n <;> rfl

/-- at the end of the input: `itemEOF`, and the loop ends -/
theorem run_eof (n : Nat) (l : Gen.Lexer) (pre : List Tok) (fuel : Nat) (hwf : WF l) (hs : l.start = l.pos)
    (hst : l.state = some Gen.StateFn.lexText) (hr : rem l = []) (hf : 2 ≤ fuel)
    (hpre : List.Forall₂ ItemTok l.items pre) :
    ∃ l', Gen.lexer_run_loop1 fuel l = .ok l' ∧ List.Forall₂ ItemTok l'.items (pre ++ lexTextR n (rem l)) := by
  obtain ⟨F, rfl⟩ : ∃ F, fuel = F + 2 := ⟨fuel - 2, by omega⟩
  refine ⟨_, run_loop1_stop F l _ hst _ (lexText_eof (F + 1) l hwf hs hr), ?_⟩
  rw [hr, lexTextR_nil]
  exact forall₂_snoc hpre ⟨rfl, trivial⟩

/-- an error item ends the run -/
theorem forall₂_err {l : Gen.Lexer} {pre : List Tok} (hpre : List.Forall₂ ItemTok l.items pre) (p : Int) (v : Bytes) :
    List.Forall₂ ItemTok (l.items ++ [({ typ := Gen.itemError, pos := p, val := v } : Gen.Item)]) (pre ++ [.error]) :=
  forall₂_snoc hpre ⟨rfl, trivial⟩


section
variable {n : Nat} (ih : RunOK n) (l : Gen.Lexer) (pre : List Tok) (F : Nat) (hwf : WF l)
  (hst : l.state = some Gen.StateFn.lexText) (hpre : List.Forall₂ ItemTok l.items pre) (b : UInt8) (rest : Bytes)
  (hr : rem l = b :: rest) (hn : rest.length ≤ n) (hF : 2 * (rest.length + 1) ≤ F)
include ih hwf hst hpre hr hn hF

/-- a one-character token: one iteration -/
theorem RunOK.single (t : Int) (tok : Tok) (hit : ∀ p v, ItemTok ({ typ := t, pos := p, val := v } : Gen.Item) tok)
    (hc : Gen.lexText (F + 1) l = .ok (emitK l 1 1 t, some Gen.StateFn.lexText)) :
    ∃ l', Gen.lexer_run_loop1 (F + 2) l = .ok l' ∧ List.Forall₂ ItemTok l'.items (pre ++ tok :: lexTextR n rest) := by
  rw [run_loop1_call (F + 1) l _ hst _ _ hc]
  have := ih.step l { emitK l 1 1 t with state := some Gen.StateFn.lexText } hwf pre hpre 1 _ tok rfl rfl rfl rfl rfl
    (hit _ _) (Nat.le_refl _) (by rw [hr]; simp) (by rw [hr]; simpa using hn) (F + 1) (by rw [hr]; simp; omega)
  rw [hr] at this
  exact this

/-- a token lexed by a second state function (`lexField`, `lexValue`, `lexPlaceholder`): two iterations -/
theorem RunOK.two (sf : Gen.StateFn) (w0 : Int)
    (hc1 : Gen.lexText (F + 1) l = .ok ({ l with width := w0 }, some sf)) (k : Nat) (w t : Int) (tok : Tok)
    (hc2 : Gen.callStateFn F (some sf) { ({ l with width := w0 } : Gen.Lexer) with state := some sf }
      = .ok (emitK { ({ l with width := w0 } : Gen.Lexer) with state := some sf } k w t, some Gen.StateFn.lexText))
    (hit : ItemTok ({ typ := t, pos := l.start, val := (b :: rest).take k } : Gen.Item) tok)
    (hk1 : 1 ≤ k) (hk2 : k ≤ rest.length + 1) :
    ∃ l', Gen.lexer_run_loop1 (F + 2) l = .ok l' ∧
      List.Forall₂ ItemTok l'.items (pre ++ tok :: lexTextR n ((b :: rest).drop k)) := by
  rw [run_loop1_call (F + 1) l _ hst _ _ hc1, run_loop1_call F _ sf rfl _ _ hc2]
  have := ih.step l
    { emitK { ({ l with width := w0 } : Gen.Lexer) with state := some sf } k w t with state := some Gen.StateFn.lexText }
    hwf pre hpre k ({ typ := t, pos := l.start, val := (rem l).take k } : Gen.Item) tok rfl rfl rfl rfl rfl
    (by rw [hr]; exact hit) hk1 (by rw [hr]; simpa using hk2) (by rw [hr]; simpa using hn) F (by rw [hr]; simp; omega)
  rw [hr] at this
  exact this

omit ih hn hwf hr hF in
/-- an error in the second state function: two iterations, then the loop ends -/
theorem RunOK.twoStop (hF1 : 1 ≤ F) (sf : Gen.StateFn) (w0 : Int)
    (hc1 : Gen.lexText (F + 1) l = .ok ({ l with width := w0 }, some sf)) (k : Nat) (w : Int) (msg : Bytes)
    (hc2 : Gen.callStateFn F (some sf) { ({ l with width := w0 } : Gen.Lexer) with state := some sf }
      = .ok (errK (adv { ({ l with width := w0 } : Gen.Lexer) with state := some sf } k w) msg, none)) :
    ∃ l', Gen.lexer_run_loop1 (F + 2) l = .ok l' ∧ List.Forall₂ ItemTok l'.items (pre ++ [.error]) := by
  obtain ⟨F', rfl⟩ : ∃ F', F = F' + 1 := ⟨F - 1, by omega⟩
  rw [run_loop1_call (F' + 1 + 1) l _ hst _ _ hc1, run_loop1_stop F' _ sf rfl _ hc2]
  exact ⟨_, rfl, forall₂_err hpre _ _⟩

end


theorem take_append_cons (a : Bytes) (x : UInt8) (r : Bytes) : (a ++ x :: r).take (a.length + 1) = a ++ [x] := by
  induction a with
  | nil => rfl
  | cons y a ih => simp only [List.cons_append, List.length_cons, List.take_succ_cons, ih]

theorem drop_append_cons (a : Bytes) (x : UInt8) (r : Bytes) : (a ++ x :: r).drop (a.length + 1) = r := by
  induction a with
  | nil => rfl
  | cons y a ih => simp only [List.cons_append, List.length_cons, List.drop_succ_cons, ih]

theorem take_succ_cons_eq (b : UInt8) (rest : Bytes) (k : Nat) : (b :: rest).take (1 + k) = b :: rest.take k := by
  rw [Nat.add_comm]; rfl

theorem drop_succ_cons_eq (b : UInt8) (rest : Bytes) (k : Nat) : (b :: rest).drop (1 + k) = rest.drop k := by
  rw [Nat.add_comm]; rfl

/-- MAIN INDUCTION: the loop of `lexer.run` sends the items of `lexTextR` -/
theorem runOK : ∀ n, RunOK n := by
  intro n
  induction n with
  | zero =>
    intro l pre fuel hwf hs hst hn hf hpre
    have hr : rem l = [] := List.length_eq_zero_iff.mp (Nat.le_zero.mp hn)
    exact run_eof 0 l pre fuel hwf hs hst hr (by omega) hpre
  | succ n ih =>
    intro l pre fuel hwf hs hst hn hf hpre
    cases hr : rem l with
    | nil =>
      have := run_eof (n + 1) l pre fuel hwf hs hst hr (by omega) hpre
      rw [hr] at this
      exact this
    | cons b rest =>
      rw [hr] at hn hf
      simp only [List.length_cons] at hn hf
      obtain ⟨F, rfl⟩ : ∃ F, fuel = F + 2 := ⟨fuel - 2, by omega⟩
      have hn' : rest.length ≤ n := by omega
      have hF : 2 * (rest.length + 1) ≤ F := by omega
      have hw := decodeRune_width b rest
      simp only [List.length_cons] at hw
      simp only [lexTextR]
      by_cases c1 : isSpaceRune (decodeRune (b :: rest)).1 = true
      · -- white space
        simp only [c1, ↓reduceIte]
        obtain ⟨w, hc⟩ := lexText_space (F + 1) l hwf hs b rest hr c1 (by omega) (b :: rest).length (Nat.le_refl _)
        rw [run_loop1_call (F + 1) l _ hst _ _ hc]
        have hk1 := acceptRunR_pos isSpaceRune rest.length b rest c1
        have hk2 := acceptRunR_length_le isSpaceRune (b :: rest).length (b :: rest)
        rw [acceptRunR_snd isSpaceRune (b :: rest).length (b :: rest)]
        have := ih.skip l { skipK l (acceptRunR isSpaceRune (b :: rest).length (b :: rest)).1.length w with
            state := some Gen.StateFn.lexText } hwf pre hpre _ rfl rfl rfl rfl rfl hk1 (by rw [hr]; exact hk2)
          (by rw [hr]; simpa using hn) (F + 1) (by rw [hr]; simp; omega)
        rw [hr] at this
        exact this
      simp only [c1, beq_iff_eq]
      by_cases c2 : (decodeRune (b :: rest)).1 = 40
      · obtain ⟨-, hw1⟩ := decodeRune_eq_lit (c := 40) (by decide) c2
        simp only [c2, hw1, ↓reduceIte, List.drop_succ_cons, List.drop_zero]
        exact ih.single l pre F hwf hst hpre b rest hr hn' hF _ .lparen (fun _ _ => ⟨rfl, trivial⟩)
          (lexText_lparen (F + 1) l hwf hs b rest hr c2)
      simp only [c2, ↓reduceIte]
      by_cases c3 : (decodeRune (b :: rest)).1 = 41
      · obtain ⟨-, hw1⟩ := decodeRune_eq_lit (c := 41) (by decide) c3
        simp only [c3, hw1, ↓reduceIte, List.drop_succ_cons, List.drop_zero]
        exact ih.single l pre F hwf hst hpre b rest hr hn' hF _ .rparen (fun _ _ => ⟨rfl, trivial⟩)
          (lexText_rparen (F + 1) l hwf hs b rest hr c3)
      simp only [c3, ↓reduceIte]
      by_cases c4 : (decodeRune (b :: rest)).1 = 38
      · obtain ⟨-, hw1⟩ := decodeRune_eq_lit (c := 38) (by decide) c4
        simp only [c4, hw1, ↓reduceIte, List.drop_succ_cons, List.drop_zero]
        exact ih.single l pre F hwf hst hpre b rest hr hn' hF _ .and (fun _ _ => ⟨rfl, trivial⟩)
          (lexText_and (F + 1) l hwf hs b rest hr c4)
      simp only [c4, ↓reduceIte]
      by_cases c5 : (decodeRune (b :: rest)).1 = 124
      · obtain ⟨-, hw1⟩ := decodeRune_eq_lit (c := 124) (by decide) c5
        simp only [c5, hw1, ↓reduceIte, List.drop_succ_cons, List.drop_zero]
        exact ih.single l pre F hwf hst hpre b rest hr hn' hF _ .or (fun _ _ => ⟨rfl, trivial⟩)
          (lexText_or (F + 1) l hwf hs b rest hr c5)
      simp only [c5, ↓reduceIte]
      by_cases c6 : (decodeRune (b :: rest)).1 = 94
      · obtain ⟨-, hw1⟩ := decodeRune_eq_lit (c := 94) (by decide) c6
        simp only [c6, hw1, ↓reduceIte, List.drop_succ_cons, List.drop_zero]
        exact ih.single l pre F hwf hst hpre b rest hr hn' hF _ .not (fun _ _ => ⟨rfl, trivial⟩)
          (lexText_not (F + 1) l hwf hs b rest hr c6)
      simp only [c6, ↓reduceIte]
      by_cases c7 : (decodeRune (b :: rest)).1 = 44
      · obtain ⟨-, hw1⟩ := decodeRune_eq_lit (c := 44) (by decide) c7
        simp only [c7, hw1, ↓reduceIte, List.drop_succ_cons, List.drop_zero]
        exact ih.single l pre F hwf hst hpre b rest hr hn' hF _ .comma (fun _ _ => ⟨rfl, trivial⟩)
          (lexText_comma (F + 1) l hwf hs b rest hr c7)
      simp only [c7, ↓reduceIte]
      by_cases c8 : (decodeRune (b :: rest)).1 = 59
      · obtain ⟨-, hw1⟩ := decodeRune_eq_lit (c := 59) (by decide) c8
        simp only [c8, hw1, ↓reduceIte, List.drop_succ_cons, List.drop_zero]
        exact ih.single l pre F hwf hst hpre b rest hr hn' hF _ .semi (fun _ _ => ⟨rfl, trivial⟩)
          (lexText_semi (F + 1) l hwf hs b rest hr c8)
      simp only [c8, ↓reduceIte]
      by_cases c9 : (decodeRune (b :: rest)).1 = 61
      · obtain ⟨-, hw1⟩ := decodeRune_eq_lit (c := 61) (by decide) c9
        simp only [c9, hw1, ↓reduceIte, List.drop_succ_cons, List.drop_zero]
        exact ih.single l pre F hwf hst hpre b rest hr hn' hF _ .eq (fun _ _ => ⟨rfl, trivial⟩)
          (lexText_equal (F + 1) l hwf hs b rest hr c9)
      simp only [c9, ↓reduceIte]
      by_cases c10 : isAlphaRune (decodeRune (b :: rest)).1 = true
      · -- a field name
        simp only [c10, ↓reduceIte]
        have hk1 := acceptRunR_pos isFieldRune rest.length b rest (by simp [isFieldRune, c10])
        have hk2 := acceptRunR_length_le isFieldRune (b :: rest).length (b :: rest)
        rw [acceptRunR_snd isFieldRune (b :: rest).length (b :: rest)]
        obtain ⟨w, hc2⟩ := lexField_spec F
          { ({ l with width := (((decodeRune (b :: rest)).2 : Nat) : Int) } : Gen.Lexer) with
            state := some Gen.StateFn.lexField } hwf hs
          (by show (rem l).length < F; rw [hr]; simp only [List.length_cons]; omega) (b :: rest).length
          (by show (rem l).length ≤ _; rw [hr]; exact Nat.le_refl _)
        have hrem1 : rem { ({ l with width := (((decodeRune (b :: rest)).2 : Nat) : Int) } : Gen.Lexer) with
            state := some Gen.StateFn.lexField } = b :: rest := hr
        rw [hrem1] at hc2
        exact ih.two l pre F hwf hst hpre b rest hr hn' hF _ _ (lexText_alpha (F + 1) l hwf hs b rest hr c10)
          _ w _ (.field _) hc2 ⟨rfl, (acceptRunR_fst _ _ _).symm⟩ hk1 (by simpa using hk2)
      simp only [c10]
      by_cases c11 : (decodeRune (b :: rest)).1 = 34
      · -- a string value
        obtain ⟨rfl, hw1⟩ := decodeRune_eq_lit (c := 34) (by decide) c11
        simp only [c11, hw1, ↓reduceIte, List.drop_succ_cons, List.drop_zero]
        have hc1 := lexText_quote (F + 1) l hwf hs 34 rest hr c11
        cases hsc : scanStrR rest.length rest with
        | none =>
          simp only []
          obtain ⟨w, hc2⟩ := lexValue_unterminated F
            { ({ l with width := 1 } : Gen.Lexer) with state := some Gen.StateFn.lexValue } hwf rest hr (by omega)
            rest.length (Nat.le_refl _) hsc
          exact RunOK.twoStop l pre F hst hpre (by omega) _ _ hc1 _ w _ hc2
        | some br =>
          obtain ⟨body, rest'⟩ := br
          simp only []
          obtain ⟨e, w, hc2⟩ := lexValue_ok F
            { ({ l with width := 1 } : Gen.Lexer) with state := some Gen.StateFn.lexValue } hwf hs rest hr (by omega)
            rest.length (Nat.le_refl _) body rest' hsc
          have := ih.two l pre F hwf hst hpre 34 rest hr hn' hF _ _ hc1 _ w _ (.value body) hc2
            ⟨rfl, by rw [take_succ_cons_eq, e, take_append_cons]; rfl⟩ (by omega) (by rw [e]; simp; omega)
          rw [drop_succ_cons_eq, e, drop_append_cons] at this
          exact this
      simp only [c11, ↓reduceIte]
      by_cases c12 : (decodeRune (b :: rest)).1 = 36
      · -- a placeholder
        obtain ⟨rfl, hw1⟩ := decodeRune_eq_lit (c := 36) (by decide) c12
        simp only [c12, hw1, ↓reduceIte, List.drop_succ_cons, List.drop_zero]
        have hc1 := lexText_dollar (F + 1) l hwf hs 36 rest hr c12
        have hk2 := acceptRunR_length_le isDigitRune rest.length rest
        obtain ⟨w, hc2⟩ := lexPlaceholder_spec F
          { ({ l with width := 1 } : Gen.Lexer) with state := some Gen.StateFn.lexPlaceholder } hwf hs rest hr (by omega)
          rest.length (Nat.le_refl _)
        have := ih.two l pre F hwf hst hpre 36 rest hr hn' hF _ _ hc1 _ w _ (.placeholder _) hc2
          ⟨rfl, by rw [take_succ_cons_eq, ← acceptRunR_fst]⟩ (by omega) (by omega)
        rw [drop_succ_cons_eq, ← acceptRunR_snd] at this
        exact this
      -- anything else
      simp only [c12, ↓reduceIte]
      have hc := lexText_unknown (F + 1) l hwf hs b rest hr (by simpa using c1) (by simpa using c10)
        (by simp only [List.mem_cons, List.not_mem_nil, or_false, forall_eq_or_imp, forall_eq]
            exact ⟨c2, c3, c4, c5, c6, c7, c8, c9, c11, c12⟩)
      exact ⟨_, run_loop1_stop F l _ hst _ hc, forall₂_err hpre _ _⟩


/-- the state in which `lexer.run` enters its loop -/
def initLexer (s : Bytes) : Gen.Lexer :=
  { input := s, state := some Gen.StateFn.lexText, pos := 0, start := 0, width := 0, lastPos := 0, items := [] }

/-- `lex` = the loop of `lexer.run` on the initial state -/
theorem lex_unfold (fuel : Nat) (s : Bytes) : Gen.lex fuel s = Gen.lexer_run_loop1 fuel (initLexer s) := by
  simp only [Gen.lex, Gen.lexer_run, Gen.Lexer.zero, Go.chanClose, initLexer]
  cases Gen.lexer_run_loop1 fuel _ <;> rfl

/-- with enough fuel the generated lexer terminates and its items are, one by one, the tokens of the rune-level model -/
theorem lex_eq (s : Bytes) (fuel : Nat) (h : 2 * s.length + 3 ≤ fuel) :
    ∃ l, Gen.lex fuel s = .ok l ∧ List.Forall₂ ItemTok l.items (lexAllR s) := by
  rw [lex_unfold]
  have hwf : WF (initLexer s) := by
    unfold WF initLexer; simp
  exact runOK s.length (initLexer s) [] fuel hwf rfl rfl (Nat.le_refl _) (by show 2 * s.length + 2 ≤ fuel; omega) .nil

/-- … hence of the byte-level model -/
theorem lex_eq_lexAll (s : Bytes) (fuel : Nat) (h : 2 * s.length + 3 ≤ fuel) :
    ∃ l, Gen.lex fuel s = .ok l ∧ List.Forall₂ ItemTok l.items (lexAll s) := by
  rw [← C09.lexAllR_eq_lexAll]
  exact lex_eq s fuel h

theorem allDigits_takeWhile (s : Bytes) : allDigits (s.takeWhile isDigit) := by
  intro d hd
  have := List.all_eq_true.mp (List.all_takeWhile (p := isDigit) (l := s)) d hd
  simpa [isDigit, UInt8.le_iff_toNat_le] using this

/-- the placeholder tokens of the model lexer carry digits only -/
theorem lexAll_tokOK (s : Bytes) : ∀ t ∈ lexAll s, TokOK t := by
  fun_induction lexAll s <;> simp_all [TokOK, allDigits_takeWhile]

/-- the model lexer emits at most one token per byte, plus the final one -/
theorem lexAll_length_le (s : Bytes) : (lexAll s).length ≤ s.length + 1 := by
  fun_induction lexAll s with
  | case1 => simp
  | case2 c rest _ ih =>
    have := dropWhile_length_le isSpace rest
    simp only [List.length_cons]; omega
  | case12 => simp
  | case13 =>
    rename_i hsc ih
    simp only [List.length_cons] at *; omega
  | case14 c rest =>
    rename_i ih
    have := dropWhile_length_le isDigit rest
    simp only [List.length_cons] at *; omega
  | case15 => simp
  | case11 c rest =>
    rename_i ih
    have := dropWhile_length_le isFieldChar rest
    simp only [List.length_cons] at *; omega
  | _ => simp only [List.length_cons] at *; omega


/-! ### every fuel: "out of fuel" or the final answer

Each fuel-bounded function `f` of the generated lexer is STABLE: for every fuel `n`, either `f n = .error .fuel`, or
there is a value `v` such that `f m = .ok v` for all `m ≥ n`. (No other error can occur: `callStateFn` is only called
on a non-nil state.) -/

theorem acceptRun_loop1_stable (valid : Bytes) : ∀ (n : Nat) (l : Gen.Lexer),
    Gen.lexer_acceptRun_loop1 n valid l = .error .fuel ∨
    ∃ v, ∀ m, n ≤ m → Gen.lexer_acceptRun_loop1 m valid l = .ok v := by
  intro n
  induction n with
  | zero => intro l; exact .inl rfl
  | succ n ih =>
    intro l
    by_cases hc : Go.containsRune valid (Gen.lexer_next l).2 = true
    · have hstep : ∀ m, Gen.lexer_acceptRun_loop1 (m + 1) valid l
          = Gen.lexer_acceptRun_loop1 m valid (Gen.lexer_next l).1 := by
        intro m; simp only [Gen.lexer_acceptRun_loop1]; rw [if_pos hc]
      rcases ih (Gen.lexer_next l).1 with h | ⟨v, hv⟩
      · left; rw [hstep, h]
      · right
        refine ⟨v, fun m hm => ?_⟩
        obtain ⟨m', rfl⟩ : ∃ m', m = m' + 1 := ⟨m - 1, by omega⟩
        rw [hstep]; exact hv m' (by omega)
    · right
      refine ⟨(Gen.lexer_next l).1, fun m hm => ?_⟩
      obtain ⟨m', rfl⟩ : ∃ m', m = m' + 1 := ⟨m - 1, by omega⟩
      simp only [Gen.lexer_acceptRun_loop1]; rw [if_neg hc]

theorem acceptRun_stable (valid : Bytes) (n : Nat) (l : Gen.Lexer) :
    Gen.lexer_acceptRun n l valid = .error .fuel ∨ ∃ v, ∀ m, n ≤ m → Gen.lexer_acceptRun m l valid = .ok v := by
  rcases acceptRun_loop1_stable valid n l with h | ⟨v, hv⟩
  · left; simp only [Gen.lexer_acceptRun, h]
  · right; exact ⟨Gen.lexer_backup v, fun m hm => by simp only [Gen.lexer_acceptRun, hv m hm]⟩

/-- `acceptRun` for EVERY fuel: out of fuel, or the model's run -/
theorem lexer_acceptRun_fuel_or (valid : Bytes) (validR : Nat → Bool)
    (hv : ∀ r, Go.containsRune valid r = (decide (0 ≤ r) && validR r.toNat))
    (fuel : Nat) (l : Gen.Lexer) (hwf : WF l) :
    Gen.lexer_acceptRun fuel l valid = .error .fuel ∨
    ∃ w : Int, Gen.lexer_acceptRun fuel l valid
      = .ok (adv l (acceptRunR validR (rem l).length (rem l)).1.length w) := by
  rcases acceptRun_stable valid fuel l with h | ⟨v, hv'⟩
  · exact .inl h
  · right
    obtain ⟨w, hw⟩ := lexer_acceptRun_adv valid validR hv (fuel + ((rem l).length + 1)) l (rem l).length hwf
      (by omega) (Nat.le_refl _)
    rw [hv' _ (by omega)] at hw
    cases hw
    exact ⟨w, hv' fuel (Nat.le_refl _)⟩

theorem lexValue_loop1_stable : ∀ (n : Nat) (r : Int) (l : Gen.Lexer) (q : Bool),
    Gen.lexValue_loop1 n r l q = .error .fuel ∨ ∃ v, ∀ m, n ≤ m → Gen.lexValue_loop1 m r l q = .ok v := by
  intro n
  induction n with
  | zero => intro r l q; exact .inl rfl
  | succ n ih =>
    intro r l q
    by_cases h1 : (r != Gen.eof) = true
    · by_cases h2 : (r == (34 : Int)) = true
      · by_cases h3 : ((Gen.lexer_peek l).2 != (34 : Int)) = true
        · right
          refine ⟨((Gen.lexer_peek l).2, (Gen.lexer_peek l).1, true), fun m hm => ?_⟩
          obtain ⟨m', rfl⟩ : ∃ m', m = m' + 1 := ⟨m - 1, by omega⟩
          simp only [Gen.lexValue_loop1]; rw [if_pos h1, if_pos h2, if_pos h3]
        · have hstep : ∀ m, Gen.lexValue_loop1 (m + 1) r l q
              = Gen.lexValue_loop1 m (Gen.lexer_next (Gen.lexer_next (Gen.lexer_peek l).1).1).2
                  (Gen.lexer_next (Gen.lexer_next (Gen.lexer_peek l).1).1).1 q := by
            intro m; simp only [Gen.lexValue_loop1]; rw [if_pos h1, if_pos h2, if_neg h3]
          rcases ih (Gen.lexer_next (Gen.lexer_next (Gen.lexer_peek l).1).1).2
              (Gen.lexer_next (Gen.lexer_next (Gen.lexer_peek l).1).1).1 q with h | ⟨v, hv⟩
          · left; rw [hstep, h]
          · right
            refine ⟨v, fun m hm => ?_⟩
            obtain ⟨m', rfl⟩ : ∃ m', m = m' + 1 := ⟨m - 1, by omega⟩
            rw [hstep]; exact hv m' (by omega)
      · have hstep : ∀ m, Gen.lexValue_loop1 (m + 1) r l q
            = Gen.lexValue_loop1 m (Gen.lexer_next l).2 (Gen.lexer_next l).1 q := by
          intro m; simp only [Gen.lexValue_loop1]; rw [if_pos h1, if_neg h2]
        rcases ih (Gen.lexer_next l).2 (Gen.lexer_next l).1 q with h | ⟨v, hv⟩
        · left; rw [hstep, h]
        · right
          refine ⟨v, fun m hm => ?_⟩
          obtain ⟨m', rfl⟩ : ∃ m', m = m' + 1 := ⟨m - 1, by omega⟩
          rw [hstep]; exact hv m' (by omega)
    · right
      refine ⟨(r, l, q), fun m hm => ?_⟩
      obtain ⟨m', rfl⟩ : ∃ m', m = m' + 1 := ⟨m - 1, by omega⟩
      simp only [Gen.lexValue_loop1]; rw [if_neg h1]

/-- a result that is not an error -/
def IsOk {α : Type} (x : Go.Res α) : Prop := ∃ v, x = .ok v

theorem isOk_ite {α : Type} {c : Prop} [Decidable c] {a b : Go.Res α} (ha : IsOk a) (hb : IsOk b) :
    IsOk (if c then a else b) := by
  split <;> assumption

theorem lexText_stable (n : Nat) (l : Gen.Lexer) :
    Gen.lexText n l = .error .fuel ∨ ∃ v, ∀ m, n ≤ m → Gen.lexText m l = .ok v := by
  by_cases hsp : (((((Gen.lexer_peek l).2 == (32 : Int)) || ((Gen.lexer_peek l).2 == (10 : Int))) ||
      ((Gen.lexer_peek l).2 == (13 : Int))) || ((Gen.lexer_peek l).2 == (9 : Int))) = true
  · have hstep : ∀ m, Gen.lexText m l =
        match Gen.lexer_acceptRun m (Gen.lexer_peek l).1 ([13, 10, 9, 32] : Bytes) with
        | .error err => .error err
        | .ok l => .ok (Gen.lexer_ignore l, some Gen.StateFn.lexText) := by
      intro m; simp only [Gen.lexText]; rw [if_pos hsp]; rfl
    rcases acceptRun_stable [13, 10, 9, 32] n (Gen.lexer_peek l).1 with h | ⟨v, hv⟩
    · left; rw [hstep, h]
    · right; exact ⟨_, fun m hm => by rw [hstep, hv m hm]⟩
  · have hind : ∀ m, Gen.lexText m l = Gen.lexText 0 l := by
      intro m; simp only [Gen.lexText]; rw [if_neg hsp, if_neg hsp]
    have hok : IsOk (Gen.lexText 0 l) := by
      simp only [Gen.lexText]; rw [if_neg hsp]
      repeat (first | exact ⟨_, rfl⟩ | apply isOk_ite)
    obtain ⟨v, hv⟩ := hok
    right; exact ⟨v, fun m _ => by rw [hind, hv]⟩

theorem lexField_stable (n : Nat) (l : Gen.Lexer) :
    Gen.lexField n l = .error .fuel ∨ ∃ v, ∀ m, n ≤ m → Gen.lexField m l = .ok v := by
  rcases acceptRun_stable ([48, 49, 50, 51, 52, 53, 54, 55, 56, 57, 97, 98, 99, 100, 101, 102, 103, 104, 105, 106, 107, 108, 109, 110, 111, 112, 113, 114, 115, 116, 117, 118, 119, 120, 121, 122, 65, 66, 67, 68, 69, 70, 71, 72, 73, 74, 75, 76, 77, 78, 79, 80, 81, 82, 83, 84, 85, 86, 87, 88, 89, 90, 95] : Bytes)
    n l with h | ⟨v, hv⟩
  · left; simp only [Gen.lexField, h]
  · right
    refine ⟨?v, fun m hm => ?h⟩
    case h => simp only [Gen.lexField, hv m hm]; rfl

theorem lexValue_stable (n : Nat) (l : Gen.Lexer) :
    Gen.lexValue n l = .error .fuel ∨ ∃ v, ∀ m, n ≤ m → Gen.lexValue m l = .ok v := by
  by_cases h1 : ((Gen.lexer_next l).2 != (34 : Int)) = true
  · right
    refine ⟨?v, fun m _ => ?h⟩
    case h => simp only [Gen.lexValue]; rw [if_pos h1]
  · rcases lexValue_loop1_stable n (Gen.lexer_next (Gen.lexer_next l).1).2 (Gen.lexer_next (Gen.lexer_next l).1).1 false
      with h | ⟨⟨r, l2, q⟩, hv⟩
    · left; simp only [Gen.lexValue]; rw [if_neg h1, h]
    · right
      have hok : IsOk (if ((!q) && (r == Gen.eof)) = true then
          (.ok ((Gen.lexer_errorf l2 ([117, 110, 116, 101, 114, 109, 105, 110, 97, 116, 101, 100, 32, 115, 116, 114, 105, 110, 103] : Bytes)).1,
                (Gen.lexer_errorf l2 ([117, 110, 116, 101, 114, 109, 105, 110, 97, 116, 101, 100, 32, 115, 116, 114, 105, 110, 103] : Bytes)).2)
            : Go.Res (Gen.Lexer × Option Gen.StateFn))
          else .ok (Gen.lexer_emit l2 Gen.itemValue, some Gen.StateFn.lexText)) := by
        split <;> exact ⟨_, rfl⟩
      obtain ⟨u, hu⟩ := hok
      refine ⟨u, fun m hm => ?_⟩
      simp only [Gen.lexValue]; rw [if_neg h1, hv m hm]
      exact hu

theorem lexPlaceholder_stable (n : Nat) (l : Gen.Lexer) :
    Gen.lexPlaceholder n l = .error .fuel ∨ ∃ v, ∀ m, n ≤ m → Gen.lexPlaceholder m l = .ok v := by
  by_cases h1 : ((Gen.lexer_next l).2 != (36 : Int)) = true
  · right
    refine ⟨?v, fun m _ => ?h⟩
    case h => simp only [Gen.lexPlaceholder]; rw [if_pos h1]
  · rcases acceptRun_stable ([48, 49, 50, 51, 52, 53, 54, 55, 56, 57] : Bytes) n (Gen.lexer_next l).1 with h | ⟨v, hv⟩
    · left; simp only [Gen.lexPlaceholder]; rw [if_neg h1, h]
    · right
      refine ⟨?v2, fun m hm => ?h2⟩
      case h2 => simp only [Gen.lexPlaceholder]; rw [if_neg h1, hv m hm]

theorem callStateFn_stable (n : Nat) (sf : Gen.StateFn) (l : Gen.Lexer) :
    Gen.callStateFn n (some sf) l = .error .fuel ∨ ∃ v, ∀ m, n ≤ m → Gen.callStateFn m (some sf) l = .ok v := by
  cases sf
  · exact lexText_stable n l
  · exact lexField_stable n l
  · exact lexValue_stable n l
  · exact lexPlaceholder_stable n l

theorem run_loop1_stable : ∀ (n : Nat) (l : Gen.Lexer),
    Gen.lexer_run_loop1 n l = .error .fuel ∨ ∃ v, ∀ m, n ≤ m → Gen.lexer_run_loop1 m l = .ok v := by
  intro n
  induction n with
  | zero => intro l; exact .inl rfl
  | succ n ih =>
    intro l
    cases hst : l.state with
    | none =>
      right
      refine ⟨l, fun m hm => ?_⟩
      obtain ⟨m', rfl⟩ : ∃ m', m = m' + 1 := ⟨m - 1, by omega⟩
      exact run_loop1_none m' l hst
    | some sf =>
      rcases callStateFn_stable n sf l with h | ⟨⟨l1, t⟩, hv⟩
      · left
        rw [Gen.lexer_run_loop1]
        simp [hst, h]
      · rcases ih { l1 with state := t } with h2 | ⟨v, hv2⟩
        · left; rw [run_loop1_call n l sf hst l1 t (hv n (Nat.le_refl _)), h2]
        · right
          refine ⟨v, fun m hm => ?_⟩
          obtain ⟨m', rfl⟩ : ∃ m', m = m' + 1 := ⟨m - 1, by omega⟩
          rw [run_loop1_call m' l sf hst l1 t (hv m' (by omega))]
          exact hv2 m' (by omega)

/-- for EVERY fuel: either the translation artefact "out of fuel", or the model's answer -/
theorem lex_fuel_or (s : Bytes) (fuel : Nat) :
    Gen.lex fuel s = .error .fuel ∨ ∃ l, Gen.lex fuel s = .ok l ∧ List.Forall₂ ItemTok l.items (lexAllR s) := by
  rcases run_loop1_stable fuel (initLexer s) with h | ⟨v, hv⟩
  · left; rw [lex_unfold, h]
  · right
    obtain ⟨l, hl, hall⟩ := lex_eq s (fuel + (2 * s.length + 3)) (by omega)
    have h1 := hv (fuel + (2 * s.length + 3)) (by omega)
    rw [lex_unfold, h1] at hl
    cases hl
    exact ⟨v, by rw [lex_unfold]; exact hv fuel (Nat.le_refl _), hall⟩

/-! ## 7. examples (the generated lexer itself, evaluated by the kernel) and axioms -/

/-- the type codes of the items `lex` sends -/
def lexTypes (fuel : Nat) (s : Bytes) : Option (List Int) := (Gen.lex fuel s).toOption.map (·.items.map (·.typ))
/-- the lexemes of the items `lex` sends -/
def lexVals (fuel : Nat) (s : Bytes) : Option (List Bytes) := (Gen.lex fuel s).toOption.map (·.items.map (·.val))

/-- why `lex` did not return normally, if it did not -/
def lexErr (fuel : Nat) (s : Bytes) : Option Go.Err4 :=
  match Gen.lex fuel s with
  | .error e => some e
  | .ok _ => none

/-- `a = "ü"`: field, `=`, value, EOF -/
example : lexTypes 40 [97, 32, 61, 32, 34, 0xC3, 0xBC, 34] = some [10, 7, 11, 1] := by decide
example : lexVals 40 [97, 32, 61, 32, 34, 0xC3, 0xBC, 34] = some [[97], [61], [34, 0xC3, 0xBC, 34], []] := by decide
/-- the same input with too little fuel: the translation artefact, not an answer -/
example : lexErr 5 [97, 32, 61, 32, 34, 0xC3, 0xBC, 34] = some .fuel := by decide
/-- `a = "ü`: unterminated string: field, `=`, error -/
example : lexTypes 40 [97, 32, 61, 32, 34, 0xC3, 0xBC] = some [10, 7, 0] := by decide
/-- `a=$12`: field, `=`, placeholder `$12`, EOF -/
example : lexTypes 40 [97, 61, 36, 49, 50] = some [10, 7, 12, 1] := by decide
example : lexVals 40 [97, 61, 36, 49, 50] = some [[97], [61], [36, 49, 50], []] := by decide
/-- `a=\xff`: an invalid byte outside a string: field, `=`, error ("unknown token") -/
example : lexTypes 40 [97, 61, 0xFF] = some [10, 7, 0] := by decide
/-- `a="\xff"`: an invalid byte inside a string is kept -/
example : lexVals 40 [97, 61, 34, 0xFF, 34] = some [[97], [61], [34, 0xFF, 34], []] := by decide
/-- `(a="x""y"|^b=$1),c;`: all token kinds, an escaped quote -/
example : lexTypes 80 [40, 97, 61, 34, 120, 34, 34, 121, 34, 124, 94, 98, 61, 36, 49, 41, 44, 99, 59] =
    some [2, 10, 7, 11, 5, 6, 10, 7, 12, 3, 8, 10, 9, 1] := by decide
/-- the items agree with the model on these inputs (instances of `lex_eq`) -/
example : lexAllR [97, 32, 61, 32, 34, 0xC3, 0xBC, 34] = [.field [97], .eq, .value [0xC3, 0xBC], .eof] := by decide
/-- the fuel bound of `lex_eq` is sharp up to one unit: `$$$` (three placeholders without digits, two iterations of the
    loop of `lexer.run` each) needs `2 * length + 2` -/
example : lexErr (2 * 3 + 1) [36, 36, 36] = some .fuel ∧ lexErr (2 * 3 + 2) [36, 36, 36] = none := by decide

#print axioms lex_eq
#print axioms lex_eq_lexAll
#print axioms lex_fuel_or
#print axioms lexAll_tokOK
#print axioms lexAll_length_le

end Updog.GeneratedEq
