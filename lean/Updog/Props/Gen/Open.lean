/-
Equivalence of the REGENERATED opening of an index and of the two column getters (`Updog/GeneratedFns.lean`:
`openIndexFromBoltDatabase`, `withPreloadedData`, `newOnDemandColGetter`, `onDemandGetCol`, `newPreloadedColGetter`,
`preloadedGetCol`, translated from index.go by extract/translate_t3.go on every run) with the hand-written models
`Updog/Model/Open.lean` (`openIndex`) and `Updog/Model/Getters.lean` (`onDemandAnswer`, `preloadOpen`, `preloadedAnswer`).
The bbolt database is the record `Go.T3.Bolt`; `fileStateOf` / `imageOfData` read the model's `FileState` / `Image` off it.
-/
import Updog.Proofs.GenOpenT3
import Updog.Proofs.Getters

set_option linter.unusedSimpArgs false
namespace Updog.GeneratedEq
open Updog.Go.T3

/-- an open bbolt database nobody has a transaction on -/
def idle (i n : Nat) (c : Buckets) (cs : List (List PutRec)) : Bolt :=
  { id := i, closed := false, committed := c, tx := none, nextTx := n, commits := cs }

/-- `(ok | error, the file lock is still held)` as `Model/Open.lean` reports it -/
def openOutcome (r : Bolt × Heap × Option Go.T3.Index × Error) : Outcome Unit × Bool :=
  (if isErr r.2.2.2 then .error else .ok (), !r.1.closed)

theorem vDecodable_iff (X : Ext) (d : BucketData) : vDecodable X d = true ↔ (imageOfData X d).AllDecodable := by
  simp only [vDecodable, imageOfData, Image.AllDecodable, List.all_eq_true, List.mem_map]
  constructor
  · rintro h p ⟨kv, hkv, rfl⟩; exact h kv hkv
  · intro h kv hkv; exact h _ ⟨kv, hkv, rfl⟩

/-- **validation sequence** (order and exact conditions; database closed on every failing path): see `open_view` -/
theorem openIndexFromBoltDatabase_validation (X : Ext) (i n : Nat) (c : Buckets) (cs : List (List PutRec)) (hp : Heap)
    (opts : List IndexOption) :
    let r := Gen.openIndexFromBoltDatabase X (idle i n c cs) hp (some i) opts
    if headerOK X c then
      ∃ d sb s cb, bucketsGet c dataName = some d ∧ dataGet d [83] = some sb ∧ X.gobDecode sb = some s ∧
        dataGet d [73] = some cb ∧ cb.length = 4 ∧
        r = openTail X (some i) opts (idle i (n + 1) c cs) hp
              { schema := some s, nextRowID := beUint32 cb, db := some i, cache := .nullCache, metrics := .fresh }
    else
      r.2.2.2.isSome = true ∧ r.2.2.1 = none ∧ r.2.1 = hp ∧
      r.1 = { id := i, closed := true, committed := c, tx := none, nextTx := n + 1, commits := cs } :=
  open_view X i n c cs hp opts

/-- **`OpenIndexFromBoltDatabase` without options = `openIndex … ⟨false⟩`** on every state of an openable bbolt file:
    the outcome and whether the lock is still held. On success the index carries the decoded schema, the big-endian
    counter and the on-demand getter over the same database. -/
theorem openIndex_noPreload_eq (X : Ext) (i n : Nat) (c : Buckets) (cs : List (List PutRec)) (hp : Heap) :
    openOutcome (Gen.openIndexFromBoltDatabase X (idle i n c cs) hp (some i) []) = openIndex (fileStateOf X c) ⟨false⟩ := by
  have hv := open_view X i n c cs hp []
  simp only at hv
  unfold idle
  by_cases hok : headerOK X c = true
  · rw [if_pos hok] at hv
    obtain ⟨d, sb, s, cb, h1, h2, h3, h4, h5, hr⟩ := hv
    rw [hr]
    simp [openOutcome, openTail, forRange, isErr, nilError, fileStateOf, h1, openIndex, blobOf, counterOf, h2, h3, h4, h5]
  · rw [if_neg hok] at hv
    obtain ⟨e1, e2, e3, e4⟩ := hv
    have hok' : headerOK X c = false := by simpa using hok
    have herr : isErr (Gen.openIndexFromBoltDatabase X { id := i, closed := false, committed := c, tx := none, nextTx := n, commits := cs } hp (some i) []).2.2.2 = true := e1
    simp only [openOutcome, herr, if_true, e4]
    unfold headerOK at hok'
    unfold fileStateOf
    cases hb : bucketsGet c dataName with
    | none => simp [openIndex]
    | some d =>
      rw [hb] at hok'
      simp only [openIndex, Bool.not_true, Bool.false_eq_true, if_false]
      cases hs : blobOf X d <;> cases hi : counterOf d <;> simp_all

/-- success case of the above: what the returned index holds -/
theorem openIndex_noPreload_result (X : Ext) (i n : Nat) (c : Buckets) (cs : List (List PutRec)) (hp : Heap)
    (d : BucketData) (sb cb : Bytes) (s : SchemaVal)
    (h1 : bucketsGet c dataName = some d) (h2 : dataGet d [83] = some sb) (h3 : X.gobDecode sb = some s)
    (h4 : dataGet d [73] = some cb) (h5 : cb.length = 4) :
    Gen.openIndexFromBoltDatabase X (idle i n c cs) hp (some i) []
      = (idle i (n + 1) c cs, hp,
         some { schema := some s, nextRowID := beUint32 cb, db := some i, values := .onDemand { db := some i },
                cache := .nullCache, metrics := .fresh }, none) := by
  have hv := open_view X i n c cs hp []
  have hok : headerOK X c = true := by simp [headerOK, h1, blobOf, counterOf, h2, h3, h4, h5]
  simp only [hok, if_true] at hv
  obtain ⟨d', sb', s', cb', g1, g2, g3, g4, _, hr⟩ := hv
  rw [h1] at g1; injection g1 with g1; subst g1
  rw [h2] at g2; injection g2 with g2; subst g2
  rw [h3] at g3; injection g3 with g3; subst g3
  rw [h4] at g4; injection g4 with g4; subst g4
  unfold idle
  rw [hr]
  simp [openTail, forRange, Gen.newOnDemandColGetter, nilError, ColGetter.isNil]

/-- **`OpenIndexFromBoltDatabase(db, WithPreloadedData())` = `openIndex … ⟨true⟩`**, for a bucket in bbolt's key order:
    the option runs after the validation; if a stored bitmap does not decode the call fails and the database is closed. -/
theorem openIndex_preload_eq (X : Ext) (i n : Nat) (c : Buckets) (cs : List (List PutRec)) (hp : Heap)
    (hs : ∀ d, bucketsGet c dataName = some d → SortedData d) :
    openOutcome (Gen.openIndexFromBoltDatabase X (idle i n c cs) hp (some i) [Gen.withPreloadedData X])
      = openIndex (fileStateOf X c) ⟨true⟩ := by
  have hv := open_view X i n c cs hp [Gen.withPreloadedData X]
  simp only at hv
  unfold idle
  by_cases hok : headerOK X c = true
  · rw [if_pos hok] at hv
    obtain ⟨d, sb, s, cb, h1, h2, h3, h4, h5, hr⟩ := hv
    rw [hr]
    have hp' := newPreloaded_spec X i (n + 1) c cs hp d h1 (hs d h1)
    simp only at hp'
    obtain ⟨q1, q2⟩ := hp'
    have hfs : fileStateOf X c = .bolt true .good .good (vDecodable X d) := by
      simp [fileStateOf, h1, blobOf, counterOf, h2, h3, h4, h5]
    rw [hfs]
    generalize hg : Gen.newPreloadedColGetter X { id := i, closed := false, committed := c, tx := none, nextTx := n + 1, commits := cs } hp (some i) = g at q1 q2
    obtain ⟨gb, ghp, gcg, gerr⟩ := g
    simp only at q1 q2
    subst q1
    cases hpo : preloadOpen (imageOfData X d) with
    | none =>
      rw [hpo] at q2
      have hvd : vDecodable X d = false := by
        have := (preloadFold_eq_none_iff (imageOfData X d) (fun _ => none)).mp hpo
        rw [← vDecodable_iff] at this
        simpa using this
      simp only [openTail, forRange, Gen.openIndexFromBoltDatabase_loop1, Gen.withPreloadedData, hg, q2.1, if_true, dbClose_mk,
        openOutcome, hvd, openIndex]
      simp
    | some gfun =>
      rw [hpo] at q2
      obtain ⟨q3, cg, q4, _⟩ := q2
      subst q3 q4
      have hvd : vDecodable X d = true := by
        rw [vDecodable_iff]
        by_cases hcon : (imageOfData X d).AllDecodable
        · exact hcon
        · have := (preloadFold_eq_none_iff (imageOfData X d) (fun _ => none)).mpr hcon
          unfold preloadOpen at hpo
          rw [this] at hpo
          cases hpo
      simp only [openTail, forRange, Gen.openIndexFromBoltDatabase_loop1, Gen.withPreloadedData, hg, isErr_none,
        Bool.false_eq_true, if_false, isErr_nilError, ColGetter.isNil, openOutcome, hvd, openIndex]
      simp [isErr, nilError]
  · rw [if_neg hok] at hv
    obtain ⟨e1, e2, e3, e4⟩ := hv
    have hok' : headerOK X c = false := by simpa using hok
    have herr : isErr (Gen.openIndexFromBoltDatabase X { id := i, closed := false, committed := c, tx := none, nextTx := n, commits := cs } hp (some i) [Gen.withPreloadedData X]).2.2.2 = true := e1
    simp only [openOutcome, herr, if_true, e4]
    unfold headerOK at hok'
    unfold fileStateOf
    cases hb : bucketsGet c dataName with
    | none => simp [openIndex]
    | some d =>
      rw [hb] at hok'
      simp only [openIndex, Bool.not_true, Bool.false_eq_true, if_false]
      cases hs : blobOf X d <;> cases hi : counterOf d <;> simp_all

/-! ### getters -/

/-- **`onDemandColGetter.GetCol` = `onDemandAnswer`** on the image of bucket `data`: `bm.FromBuffer(bucket.Get('V' ‖ be64 key))`;
    an absent key gives `FromBuffer(nil)`, i.e. `(nil, err)`. The read transaction is over afterwards. -/
theorem onDemandGetCol_eq (X : Ext) (i n : Nat) (c : Buckets) (cs : List (List PutRec)) (hp : Heap) (d : BucketData)
    (key : UInt64) (hb : bucketsGet c dataName = some d) (wk : WellKeyed d) (hnil : X.roaringFromBuffer [] = none) :
    let r := Gen.onDemandGetCol X (idle i n c cs) hp { db := some i } key
    answerOf r.2.1 r.2.2.1 r.2.2.2 = onDemandAnswer (imageOfData X d) key ∧ r.1 = idle i (n + 1) c cs :=
  onDemandGetCol_spec X i n c cs hp d key hb wk hnil

/-- **`newPreloadedColGetter` = `preloadOpen`** on the image of a bucket in bbolt's key order: it fails iff the model's loop
    fails (first undecodable value), and otherwise the map it built answers exactly like the model's function. -/
theorem newPreloadedColGetter_eq (X : Ext) (i n : Nat) (c : Buckets) (cs : List (List PutRec)) (hp : Heap) (d : BucketData)
    (hb : bucketsGet c dataName = some d) (hs : SortedData d) :
    let r := Gen.newPreloadedColGetter X (idle i n c cs) hp (some i)
    r.1 = idle i (n + 1) c cs ∧
    match preloadOpen (imageOfData X d) with
    | none => isErr r.2.2.2 = true ∧ r.2.2.1.isNil = true
    | some g => r.2.2.2 = none ∧ ∃ cg, r.2.2.1 = .preloaded cg ∧ absCG r.2.1 cg = g :=
  newPreloaded_spec X i n c cs hp d hb hs

/-- **`preloadedColGetter.GetCol` = `preloadedAnswer`**: `(cg.values[key], nil)`; an absent key is `(nil, nil)` -/
theorem preloadedGetCol_eq (hp : Heap) (cg : PreloadedColGetter) (key : UInt64) :
    answerOf hp (Gen.preloadedGetCol cg key).1 (Gen.preloadedGetCol cg key).2 = preloadedAnswer (absCG hp cg) key := rfl

/-- a missing bitmap: the on-demand getter reports an error, the preloaded getter a nil bitmap without error -/
theorem missing_bitmap (X : Ext) (i n : Nat) (c : Buckets) (cs : List (List PutRec)) (hp : Heap) (d : BucketData)
    (key : UInt64) (hb : bucketsGet c dataName = some d) (wk : WellKeyed d) (hnil : X.roaringFromBuffer [] = none)
    (habs : dataGet d (86 :: be64 key.toNat) = none) (cg : PreloadedColGetter) (hcg : absCG hp cg key = none) :
    (let r := Gen.onDemandGetCol X (idle i n c cs) hp { db := some i } key
     answerOf r.2.1 r.2.2.1 r.2.2.2 = .error ()) ∧
    answerOf hp (Gen.preloadedGetCol cg key).1 (Gen.preloadedGetCol cg key).2 = .ok none := by
  refine ⟨?_, ?_⟩
  · have := (onDemandGetCol_spec X i n c cs hp d key hb wk hnil).1
    simp only at this ⊢
    unfold idle
    rw [this, onDemandAnswer, onDemandGet, get_imageOfData X d wk key, habs]
    rfl
  · rw [preloadedGetCol_eq, preloadedAnswer, hcg]

/-! ### a concrete file: written by the generated writer, opened by the generated reader -/

/-- the committed buckets after adding two rows with the generated `AddRow` and flushing with the generated
    `WriteToBoltDatabase` (toy coders) -/
def demoFile : Buckets :=
  let H : Bytes → UInt64 := fun b => (b.length : Nat).toUInt64
  let w1 := Gen.indexWriterAddRow H {} {} [([1], [2]), ([1, 5], [3])]
  let w2 := Gen.indexWriterAddRow H w1.1 w1.2.1 [([1], [2])]
  (Gen.writeToBoltDatabase toyExt w2.2.1.values {} w2.1 w2.2.1 (some 0)).1.committed

example : demoFile = [([100, 97, 116, 97],
    [([73], [0, 0, 0, 2]), ([83], [2]), ([86, 0, 0, 0, 0, 0, 0, 0, 3], [0, 0, 0, 3]), ([86, 0, 0, 0, 0, 0, 0, 0, 4], [0, 0, 0, 1])])] := by
  decide

example : openOutcome (Gen.openIndexFromBoltDatabase toyExt (idle 0 0 demoFile []) {} (some 0) []) = (.ok (), true) := by decide
example : openOutcome (Gen.openIndexFromBoltDatabase toyExt (idle 0 0 demoFile []) {} (some 0) [Gen.withPreloadedData toyExt])
    = (.ok (), true) := by decide
example : openOutcome (Gen.openIndexFromBoltDatabase toyExt (idle 0 0 [([100, 97, 116, 97], [([83], [2])])] []) {} (some 0) [])
    = (.error, false) := by decide
-- value index 3 is stored (rows 0 and 1), value index 9 is not
example :
    let r := Gen.onDemandGetCol toyExt (idle 0 0 demoFile []) {} { db := some 0 } 3
    (answerOf r.2.1 r.2.2.1 r.2.2.2).toOption = some (some 3) := by decide
example :
    let r := Gen.onDemandGetCol toyExt (idle 0 0 demoFile []) {} { db := some 0 } 9
    (answerOf r.2.1 r.2.2.1 r.2.2.2).toOption = none := by decide
example :
    let r := Gen.newPreloadedColGetter toyExt (idle 0 0 demoFile []) {} (some 0)
    (match r.2.2.1 with
     | .preloaded cg => ((answerOf r.2.1 (Gen.preloadedGetCol cg 3).1 (Gen.preloadedGetCol cg 3).2).toOption,
                         (answerOf r.2.1 (Gen.preloadedGetCol cg 9).1 (Gen.preloadedGetCol cg 9).2).toOption)
     | _ => (none, none)) = (some (some 3), some none) := by decide

end Updog.GeneratedEq
