/-
Equivalence of the definitions REGENERATED from the Go source (`Updog/GeneratedFns.lean`, written by
extract/translate.go on every run) with the hand-written models. If a translated Go function changes its meaning,
the generated text changes and the corresponding theorem below stops checking; if the function leaves the
translator's subset, its definition is missing and the theorem fails to elaborate.
-/
import Updog.GeneratedFns
import Updog.Proofs.GoPrelude
import Updog.Model.Create
import Updog.Model.Server

namespace Updog.GeneratedEq
open Updog.Go (allDigits)

/-! ### writer.go / query.go: what is hashed -/

theorem valueIndexInput_eq (k v : Bytes) : Gen.valueIndexInput k v = encodePair k v := by
  simp [Gen.valueIndexInput, encodePair]

theorem mixInput_bytes (tag : UInt8) (keys : List UInt64) :
    Gen.mixInput tag keys = tag :: keys.flatMap (fun k => be64 k.toNat) := by
  simp [Gen.mixInput, Go.makeBytes, Go.setIndex, Go.foldl_beAppend]

section
variable (H : Bytes → UInt64)

theorem mixInput_eq (tag : UInt8) (keys : List UInt64) : H (Gen.mixInput tag keys) = mixKey H tag keys := by
  rw [mixInput_bytes]; rfl

theorem mixCacheKey_eq (tag : UInt8) (keys : List UInt64) : Gen.mixCacheKey H tag keys = mixKey H tag keys :=
  mixInput_eq H tag keys

theorem getValueIndex_eq (k v : Bytes) : Gen.getValueIndex H k v = H (encodePair k v) := by
  simp [Gen.getValueIndex, valueIndexInput_eq]

theorem cacheKeyEqual_eq (c v : Bytes) : Gen.cacheKeyEqual H c v = cacheKey H (.eq c v) := by
  simp [Gen.cacheKeyEqual, mixCacheKey_eq, getValueIndex_eq, cacheKey, tagEqual]

theorem cacheKeyNot_eq (e : Expr) : Gen.cacheKeyNot H (cacheKey H e) = cacheKey H (.not e) := by
  simp [Gen.cacheKeyNot, mixCacheKey_eq, cacheKey, tagNot]

theorem cacheKeyAnd_eq (es : List Expr) : Gen.cacheKeyAnd H (cacheKeys H es) = cacheKey H (.and es) := by
  simp only [Gen.cacheKeyAnd, Go.foldl_snoc, mixCacheKey_eq]
  simp [Go.makeU64s, cacheKey, tagAnd]

theorem cacheKeyOr_eq (es : List Expr) : Gen.cacheKeyOr H (cacheKeys H es) = cacheKey H (.or es) := by
  simp only [Gen.cacheKeyOr, Go.foldl_snoc, mixCacheKey_eq]
  simp [Go.makeU64s, cacheKey, tagOr]

end

example : Gen.mixInput 65 [258] = [65, 0, 0, 0, 0, 0, 0, 1, 2] := by decide

end Updog.GeneratedEq
