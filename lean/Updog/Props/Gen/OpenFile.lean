/-
Equivalence of the definitions REGENERATED from the Go source (`Updog/GeneratedFns.lean`, written by
extract/translate.go on every run) with the hand-written models. If a translated Go function changes its meaning,
the generated text changes and the corresponding theorem below stops checking; if the function leaves the
translator's subset, its definition is missing and the theorem fails to elaborate.
-/
import Updog.GeneratedFns
import Updog.Proofs.GoPrelude
import Updog.Model.Create
import Updog.Model.Server

namespace Updog.GeneratedEq
open Updog.Go (allDigits)

/-! ### openfile.go: flags handed to os.OpenFile -/

theorem excl_eq (f : Nat) : Gen.excl f = failIfExistsFlags f := rfl

theorem noCreate_eq (f : Nat) : Gen.noCreate f = mustExistFlags f := by
  simp only [Gen.noCreate, mustExistFlags, Go.andNot_eq]; rfl

example : Gen.excl 0x42 = 0xC2 ∧ Gen.noCreate 0x42 = 2 := by
  rw [excl_eq, noCreate_eq]; decide

end Updog.GeneratedEq
