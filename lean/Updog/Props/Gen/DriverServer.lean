/-
Equivalence of the definitions REGENERATED from the Go source (`Updog/GeneratedFns.lean`, written by
extract/translate.go on every run) with the hand-written models. If a translated Go function changes its meaning,
the generated text changes and the corresponding theorem below stops checking; if the function leaves the
translator's subset, its definition is missing and the theorem fails to elaborate.
-/
import Updog.GeneratedFns
import Updog.Proofs.GoPrelude
import Updog.Model.Create
import Updog.Model.Server

namespace Updog.GeneratedEq
open Updog.Go (allDigits)

/-! ### driver.go / server.go (optional items) -/

/-- `newRows` yields group rows exactly when the model's `newRows` does -/
theorem newRowsGrouped_eq (g : List Bytes) : Gen.newRowsGrouped g = decide (g.length > 0) := by
  cases g <;> simp [Gen.newRowsGrouped, Go.len] <;> omega

/-- id defaulting of `server.Query`, for positions whose 1-based number fits an int32 -/
theorem queryId_eq (id idx : Int) (h0 : 0 ≤ idx) (h1 : idx + 1 < 2147483648) :
    Gen.queryId id idx = if id = 0 then idx + 1 else id := by
  have : Go.toInt32 (idx + 1) = idx + 1 := by unfold Go.toInt32; omega
  by_cases h : id = 0 <;> simp [Gen.queryId, h, this]

example : Gen.queryId 0 2 = 3 ∧ Gen.queryId 7 2 = 7 := by decide

end Updog.GeneratedEq
