/-
Equivalence of the REGENERATED recursive-descent parser of internal/queryparser (`Updog/GeneratedFns.lean`:
`parser_peek`, `parser_next`, `parser_parseComparison`, the mutual block `parser_parseExpr … parser_parseGroupedExpr`,
`parser_parseFieldList`, `parser_parse`) with the declarative grammar `Updog.Grammar` and with the
hand-written model `Updog/Model/Parser.lean`.
-/
import Updog.Props.Gen.Items
import Updog.Props.Gen.Parser
import Updog.Proofs.Parser

set_option linter.unusedSimpArgs false
set_option linter.unusedVariables false

namespace Updog.GeneratedEq
open Updog.Go (allDigits)
open Updog.Grammar

/-! ### abstraction of the parser state -/

/-- the items the parser will still see: the buffered look-ahead item (if any), then the channel content -/
def pending (p : Gen.Parser) : List Gen.Item :=
  (if p.peekCount = 1 then [Go.arrGet Gen.Item.zero p.token 0] else []) ++ p.lexer.items

theorem _root_.List.Forall₂.length_eq {α β : Type} {R : α → β → Prop} {l₁ : List α} {l₂ : List β} (h : List.Forall₂ R l₁ l₂) :
    l₁.length = l₂.length := by
  induction h with
  | nil => rfl
  | cons _ _ ih => simp [ih]

theorem _root_.List.Forall₂.append {α β : Type} {R : α → β → Prop} {l₁ l₁' : List α} {l₂ l₂' : List β}
    (h : List.Forall₂ R l₁ l₂) (h' : List.Forall₂ R l₁' l₂') : List.Forall₂ R (l₁ ++ l₁') (l₂ ++ l₂') := by
  induction h with
  | nil => exact h'
  | cons hab _ ih => exact .cons hab ih

/-- `List.Forall₂` spelled out with indices (for whoever has to establish it) -/
theorem forall₂_iff_getElem {α β : Type} {R : α → β → Prop} {l₁ : List α} {l₂ : List β} :
    List.Forall₂ R l₁ l₂ ↔
      l₁.length = l₂.length ∧ ∀ (k : Nat) (h₁ : k < l₁.length) (h₂ : k < l₂.length), R l₁[k] l₂[k] := by
  constructor
  · intro h
    induction h with
    | nil => exact ⟨rfl, fun k h₁ => absurd h₁ (by simp)⟩
    | cons hab _ ih =>
      refine ⟨by simp [ih.1], fun k h₁ h₂ => ?_⟩
      cases k with
      | zero => exact hab
      | succ k => exact ih.2 k (by simpa using h₁) (by simpa using h₂)
  · induction l₁ generalizing l₂ with
    | nil =>
      rintro ⟨hl, _⟩
      cases l₂ with
      | nil => exact .nil
      | cons b l₂ => simp at hl
    | cons a l₁ ih =>
      rintro ⟨hl, h⟩
      cases l₂ with
      | nil => simp at hl
      | cons b l₂ =>
        refine .cons (h 0 (by simp) (by simp)) (ih ⟨by simpa using hl, fun k h₁ h₂ => ?_⟩)
        exact h (k + 1) (by simpa using h₁) (by simpa using h₂)

/-- parser state `p` stands in front of the token list `ts` -/
def Stream (p : Gen.Parser) (ts : List Tok) : Prop :=
  (p.peekCount = 0 ∨ p.peekCount = 1) ∧ 1 ≤ p.token.length ∧ List.Forall₂ ItemTok (pending p) ts

theorem arrGet_arrSet_zero {α : Type} (z x : α) (a : List α) (h : 1 ≤ a.length) :
    Go.arrGet z (Go.arrSet a 0 x) 0 = x := by
  cases a with
  | nil => simp at h
  | cons y a => simp [Go.arrGet, Go.arrSet]

theorem arrSet_length {α : Type} (x : α) (a : List α) (i : Int) : (Go.arrSet a i x).length = a.length := by
  unfold Go.arrSet; split <;> simp

theorem parser_peek_zero {p : Gen.Parser} (hc : p.peekCount = 0) {x : Gen.Item} {r : List Gen.Item}
    (hitems : p.lexer.items = x :: r) :
    Gen.parser_peek p =
      ({ lexer := { p.lexer with items := r, lastPos := x.pos }, token := Go.arrSet p.token 0 x, peekCount := 1 },
        Go.arrGet Gen.Item.zero (Go.arrSet p.token 0 x) 0) := by
  simp [Gen.parser_peek, hc, Gen.lexer_nextItem, hitems, Go.chanRecv]

theorem parser_peek_one {p : Gen.Parser} (hc : p.peekCount = 1) :
    Gen.parser_peek p = (p, Go.arrGet Gen.Item.zero p.token 0) := by
  simp [Gen.parser_peek, hc]

theorem parser_next_zero {p : Gen.Parser} (hc : p.peekCount = 0) {x : Gen.Item} {r : List Gen.Item}
    (hitems : p.lexer.items = x :: r) :
    Gen.parser_next p =
      ({ lexer := { p.lexer with items := r, lastPos := x.pos }, token := Go.arrSet p.token 0 x, peekCount := 0 },
        Go.arrGet Gen.Item.zero (Go.arrSet p.token 0 x) 0) := by
  simp [Gen.parser_next, hc, Gen.lexer_nextItem, hitems, Go.chanRecv]

theorem parser_next_one {p : Gen.Parser} (hc : p.peekCount = 1) :
    Gen.parser_next p = ({ p with peekCount := 0 }, Go.arrGet Gen.Item.zero p.token 0) := by
  simp [Gen.parser_next, hc]

theorem parser_peek_spec {p : Gen.Parser} {t : Tok} {ts : List Tok} (h : Stream p (t :: ts)) :
    ∃ p' i, Gen.parser_peek p = (p', i) ∧ Stream p' (t :: ts) ∧ ItemTok i t := by
  obtain ⟨hc, hl, hf⟩ := h
  rcases hc with hc | hc
  · -- nothing buffered: receive one item
    simp only [pending, hc, Int.reduceEq, if_false, List.nil_append] at hf
    cases hitems : p.lexer.items with
    | nil => rw [hitems] at hf; cases hf
    | cons x r =>
      rw [hitems] at hf
      cases hf with
      | cons hx hr =>
        refine ⟨_, _, parser_peek_zero hc hitems, ?_, ?_⟩
        · refine ⟨.inr rfl, by simpa [arrSet_length] using hl, ?_⟩
          simp only [pending, if_true, arrGet_arrSet_zero _ _ _ hl]
          exact .cons hx hr
        · rw [arrGet_arrSet_zero _ _ _ hl]; exact hx
  · simp only [pending, hc, if_true] at hf
    cases hf with
    | cons hx hr =>
      refine ⟨_, _, parser_peek_one hc, ⟨.inr hc, hl, ?_⟩, hx⟩
      simp only [pending, hc, if_true]
      exact .cons hx hr

theorem parser_next_spec {p : Gen.Parser} {t : Tok} {ts : List Tok} (h : Stream p (t :: ts)) :
    ∃ p' i, Gen.parser_next p = (p', i) ∧ Stream p' ts ∧ ItemTok i t := by
  obtain ⟨hc, hl, hf⟩ := h
  rcases hc with hc | hc
  · simp only [pending, hc, Int.reduceEq, if_false, List.nil_append] at hf
    cases hitems : p.lexer.items with
    | nil => rw [hitems] at hf; cases hf
    | cons x r =>
      rw [hitems] at hf
      cases hf with
      | cons hx hr =>
        refine ⟨_, _, parser_next_zero hc hitems, ?_, ?_⟩
        · refine ⟨.inl rfl, by simpa [arrSet_length] using hl, ?_⟩
          simpa [pending] using hr
        · rw [arrGet_arrSet_zero _ _ _ hl]; exact hx
  · simp only [pending, hc, if_true] at hf
    cases hf with
    | cons hx hr =>
      refine ⟨_, _, parser_next_one hc, ⟨.inl rfl, hl, ?_⟩, hx⟩
      simpa [pending] using hr

end Updog.GeneratedEq
namespace Updog
open Grammar GeneratedEq

/-! ### token streams end with exactly one terminal token -/

theorem TermShape.exists_cons {ts : List Tok} (h : TermShape ts) : ∃ t ts', ts = t :: ts' := by
  obtain ⟨pre, u, rfl, _, _⟩ := h
  cases pre with
  | nil => exact ⟨u, [], rfl⟩
  | cons x pre => exact ⟨x, pre ++ [u], rfl⟩

theorem TermShape.tail {t : Tok} {ts : List Tok} (h : TermShape (t :: ts)) (ht : t.isTerminal = false) :
    TermShape ts := by
  obtain ⟨pre, u, heq, hu, hpre⟩ := h
  cases pre with
  | nil =>
    simp only [List.nil_append, List.cons.injEq] at heq
    obtain ⟨rfl, _⟩ := heq
    rw [hu] at ht; cases ht
  | cons x pre =>
    simp only [List.cons_append, List.cons.injEq] at heq
    obtain ⟨rfl, rfl⟩ := heq
    exact ⟨pre, u, rfl, hu, fun y hy => hpre y (List.mem_cons_of_mem _ hy)⟩

theorem TermShape.eq_nil {t : Tok} {ts : List Tok} (h : TermShape (t :: ts)) (ht : t.isTerminal = true) :
    ts = [] := by
  obtain ⟨pre, u, heq, hu, hpre⟩ := h
  cases pre with
  | nil =>
    simp only [List.nil_append, List.cons.injEq] at heq
    exact heq.2
  | cons x pre =>
    simp only [List.cons_append, List.cons.injEq] at heq
    obtain ⟨rfl, rfl⟩ := heq
    have := hpre t (List.mem_cons_self)
    rw [ht] at this; cases this

/-- what the lexer guarantees about a token stream: terminal shape, placeholders are digits -/
structure GeneratedEq.TokWF (ts : List Tok) : Prop where
  shape : TermShape ts
  ok : ∀ t ∈ ts, TokOK t

theorem GeneratedEq.TokWF.tail {t : Tok} {ts : List Tok} (h : GeneratedEq.TokWF (t :: ts)) (ht : t.isTerminal = false) : GeneratedEq.TokWF ts :=
  ⟨h.shape.tail ht, fun u hu => h.ok u (List.mem_cons_of_mem _ hu)⟩

theorem GeneratedEq.TokWF.exists_cons {ts : List Tok} (h : GeneratedEq.TokWF ts) : ∃ t ts', ts = t :: ts' := h.shape.exists_cons

mutual
theorem Grammar.Simple.termShape {ts : List Tok} {e : PExpr} {r : List Tok} :
    Simple ts e r → TermShape ts → TermShape r
  | .cmpValue _ _ _ => fun h => ((h.tail rfl).tail rfl).tail rfl
  | .cmpPlaceholder _ _ _ _ => fun h => ((h.tail rfl).tail rfl).tail rfl
  | .not h => fun hs => h.termShape (hs.tail rfl)
  | .group h => fun hs => (h.termShape (hs.tail rfl)).tail rfl
theorem Grammar.Chain.termShape {sep : Tok} {ts : List Tok} {es : List PExpr} {r : List Tok}
    (hsep : sep.isTerminal = false) : Chain sep ts es r → TermShape ts → TermShape r
  | .last h _ => fun hs => h.termShape hs
  | .more h hc => fun hs => hc.termShape hsep ((h.termShape hs).tail hsep)
theorem Grammar.Expr.termShape {ts : List Tok} {e : PExpr} {r : List Tok} :
    Grammar.Expr ts e r → TermShape ts → TermShape r
  | .single h _ _ => fun hs => h.termShape hs
  | .and h hc => fun hs => hc.termShape rfl ((h.termShape hs).tail rfl)
  | .or h hc => fun hs => hc.termShape rfl ((h.termShape hs).tail rfl)
end

theorem GeneratedEq.TokWF.of_suffix {ts r : List Tok} (h : GeneratedEq.TokWF ts) (hsuf : ∃ pre, ts = pre ++ r) (hr : TermShape r) : GeneratedEq.TokWF r := by
  obtain ⟨pre, rfl⟩ := hsuf
  exact ⟨hr, fun u hu => h.ok u (List.mem_append_right _ hu)⟩

theorem Grammar.Simple.wf {ts : List Tok} {e : PExpr} {r : List Tok} (h : Simple ts e r) (hw : GeneratedEq.TokWF ts) : GeneratedEq.TokWF r :=
  hw.of_suffix h.suffix (h.termShape hw.shape)
theorem Grammar.Expr.wf {ts : List Tok} {e : PExpr} {r : List Tok} (h : Grammar.Expr ts e r) (hw : GeneratedEq.TokWF ts) : GeneratedEq.TokWF r :=
  hw.of_suffix h.suffix (h.termShape hw.shape)
theorem Grammar.Chain.wf {sep : Tok} {ts : List Tok} {es : List PExpr} {r : List Tok} (h : Chain sep ts es r)
    (hsep : sep.isTerminal = false) (hw : GeneratedEq.TokWF ts) : GeneratedEq.TokWF r :=
  hw.of_suffix h.suffix (h.termShape hsep hw.shape)

theorem Grammar.FieldsRest.termShape {ts : List Tok} {fs : List Bytes} {r : List Tok} (h : FieldsRest ts fs r) :
    TermShape ts → TermShape r := by
  induction h with
  | done _ => exact id
  | more _ ih => exact fun hs => ih ((hs.tail rfl).tail rfl)

theorem Grammar.FieldsRest.wf {ts : List Tok} {fs : List Bytes} {r : List Tok} (h : FieldsRest ts fs r) (hw : GeneratedEq.TokWF ts) :
    GeneratedEq.TokWF r :=
  hw.of_suffix h.suffix (h.termShape hw.shape)

theorem Grammar.FieldList.wf {ts : List Tok} {fs : List Bytes} {r : List Tok} (h : FieldList ts fs r) (hw : GeneratedEq.TokWF ts) :
    GeneratedEq.TokWF r := by
  cases h with
  | mk h => exact h.wf (hw.tail rfl)

end Updog
namespace Updog.GeneratedEq
open Updog.Go (allDigits)
open Updog.Grammar

/-! ### the type tests of the generated code, on tokens -/

theorem typ_beq {i : Gen.Item} {t : Tok} (hi : ItemTok i t) (k : Int) : (i.typ == k) = (tokCode t == k) := by
  rw [hi.1]
theorem typ_bne {i : Gen.Item} {t : Tok} (hi : ItemTok i t) (k : Int) : (i.typ != k) = (tokCode t != k) := by
  rw [hi.1]

def isField : Tok → Bool | .field _ => true | _ => false
def isValue : Tok → Bool | .value _ => true | _ => false
def isPlaceholder : Tok → Bool | .placeholder _ => true | _ => false

theorem code_lparen (t : Tok) : (tokCode t == Gen.itemOpenParen) = decide (t = .lparen) := by cases t <;> first | decide | (simp [tokCode, isField, isValue, isPlaceholder] <;> decide)
theorem code_rparen (t : Tok) : (tokCode t == Gen.itemCloseParen) = decide (t = .rparen) := by cases t <;> first | decide | (simp [tokCode, isField, isValue, isPlaceholder] <;> decide)
theorem code_and (t : Tok) : (tokCode t == Gen.itemAnd) = decide (t = .and) := by cases t <;> first | decide | (simp [tokCode, isField, isValue, isPlaceholder] <;> decide)
theorem code_or (t : Tok) : (tokCode t == Gen.itemOr) = decide (t = .or) := by cases t <;> first | decide | (simp [tokCode, isField, isValue, isPlaceholder] <;> decide)
theorem code_not (t : Tok) : (tokCode t == Gen.itemNot) = decide (t = .not) := by cases t <;> first | decide | (simp [tokCode, isField, isValue, isPlaceholder] <;> decide)
theorem code_eq (t : Tok) : (tokCode t == Gen.itemEqual) = decide (t = .eq) := by cases t <;> first | decide | (simp [tokCode, isField, isValue, isPlaceholder] <;> decide)
theorem code_comma (t : Tok) : (tokCode t == Gen.itemComma) = decide (t = .comma) := by cases t <;> first | decide | (simp [tokCode, isField, isValue, isPlaceholder] <;> decide)
theorem code_semi (t : Tok) : (tokCode t == Gen.itemSemicolon) = decide (t = .semi) := by cases t <;> first | decide | (simp [tokCode, isField, isValue, isPlaceholder] <;> decide)
theorem code_eof (t : Tok) : (tokCode t == Gen.itemEOF) = decide (t = .eof) := by cases t <;> first | decide | (simp [tokCode, isField, isValue, isPlaceholder] <;> decide)
theorem code_field (t : Tok) : (tokCode t == Gen.itemField) = isField t := by cases t <;> first | decide | (simp [tokCode, isField, isValue, isPlaceholder] <;> decide)
theorem code_value (t : Tok) : (tokCode t == Gen.itemValue) = isValue t := by cases t <;> first | decide | (simp [tokCode, isField, isValue, isPlaceholder] <;> decide)
theorem code_placeholder (t : Tok) : (tokCode t == Gen.itemPlaceholder) = isPlaceholder t := by cases t <;> first | decide | (simp [tokCode, isField, isValue, isPlaceholder] <;> decide)

/-! ### what a generated parse function may answer -/

/-- what a generated parse function may answer: out of fuel (translation artefact), or exactly the grammar's
    verdict -/
def Agrees {α : Type} (res : Go.Res (Gen.Parser × α)) (good : Gen.Parser → α → Prop) (bad : Prop) : Prop :=
  match res with
  | .ok (p', a) => good p' a
  | .error .panic => bad
  | .error .fuel => True
  | .error .returned => False

/-- `Agrees`, and moreover: out of fuel only if the fuel was not `enough` -/
def AgreesF {α : Type} (res : Go.Res (Gen.Parser × α)) (good : Gen.Parser → α → Prop) (bad : Prop)
    (enough : Prop) : Prop :=
  match res with
  | .ok (p', a) => good p' a
  | .error .panic => bad
  | .error .fuel => ¬ enough
  | .error .returned => False

@[simp] theorem agreesF_ok {α : Type} (p' : Gen.Parser) (a : α) (good : Gen.Parser → α → Prop) (bad enough : Prop) :
    AgreesF (.ok (p', a)) good bad enough = good p' a := rfl
@[simp] theorem agreesF_panic {α : Type} (good : Gen.Parser → α → Prop) (bad enough : Prop) :
    AgreesF (.error .panic) good bad enough = bad := rfl
@[simp] theorem agreesF_fuel {α : Type} (good : Gen.Parser → α → Prop) (bad enough : Prop) :
    AgreesF (.error .fuel) good bad enough = ¬ enough := rfl
@[simp] theorem agreesF_returned {α : Type} (good : Gen.Parser → α → Prop) (bad enough : Prop) :
    AgreesF (.error .returned) good bad enough = False := rfl

theorem AgreesF.agrees {α : Type} {res : Go.Res (Gen.Parser × α)} {good : Gen.Parser → α → Prop}
    {bad enough : Prop} (h : AgreesF res good bad enough) : Agrees res good bad := by
  unfold Agrees; unfold AgreesF at h
  split <;> simp_all

theorem AgreesF.fuel_ok {α : Type} {res : Go.Res (Gen.Parser × α)} {good : Gen.Parser → α → Prop}
    {bad enough : Prop} (h : AgreesF res good bad enough) (he : enough) : res ≠ .error .fuel := by
  intro hres; rw [hres] at h; exact h he

/-- case analysis on a result that satisfies `AgreesF` -/
theorem AgreesF.cases {α : Type} {x : Go.Res (Gen.Parser × α)} {good : Gen.Parser → α → Prop} {bad enough : Prop}
    (hx : AgreesF x good bad enough) :
    (x = .error .panic ∧ bad) ∨ (x = .error .fuel ∧ ¬ enough) ∨ ∃ p a, x = .ok (p, a) ∧ good p a := by
  cases x with
  | error err => cases err <;> simp_all
  | ok v => obtain ⟨p, a⟩ := v; exact .inr (.inr ⟨p, a, rfl, hx⟩)

/-! ### `parseComparison` -/

theorem toInt32_natCast {n : Nat} (h : n ≤ 2147483647) : Go.toInt32 (n : Int) = (n : Int) := by
  unfold Go.toInt32; omega

theorem toInt32_zero : Go.toInt32 0 = 0 := by decide

theorem parseComparison_agreesF {p : Gen.Parser} {c : Bytes} {ts : List Tok} (hs : Stream p (.field c :: ts))
    (hw : TokWF (.field c :: ts)) :
    AgreesF (Gen.parser_parseComparison p) (fun p' e => ∃ r, Stream p' r ∧ Simple (.field c :: ts) e r)
      (∀ e r, ¬ Simple (.field c :: ts) e r) True := by
  obtain ⟨p1, i1, h1, hs1, hi1⟩ := parser_next_spec hs
  have hw1 := hw.tail rfl
  obtain ⟨t2, ts2, rfl⟩ := hw1.exists_cons
  obtain ⟨p2, i2, h2, hs2, hi2⟩ := parser_peek_spec hs1
  unfold Gen.parser_parseComparison
  simp only [h1, h2, typ_beq hi2, bne, code_eq]
  by_cases ht2 : t2 = .eq
  · subst ht2
    have hw2 := hw1.tail rfl
    obtain ⟨t3, ts3, rfl⟩ := hw2.exists_cons
    obtain ⟨p3, i3, h3, hs3, hi3⟩ := parser_next_spec hs2
    obtain ⟨p4, i4, h4, hs4, hi4⟩ := parser_peek_spec hs3
    obtain ⟨p5, i5, h5, hs5, hi5⟩ := parser_next_spec hs4
    simp only [h3, h4, h5, typ_beq hi4, code_placeholder, code_value]
    cases t3 with
    | placeholder ds =>
      have hd : allDigits ds := hw.ok (.placeholder ds) (by simp)
      have hv : i5.val = 36 :: ds := hi5.2
      have hc : i1.val = c := hi1.2
      simp only [isPlaceholder, hv, decodePlaceholder_eq ds hd, hc, toInt32_natCast (decodePlaceholder_le ds),
        Int.toNat_natCast]
      by_cases hlt : decodePlaceholder ds < 1
      · have : ((decodePlaceholder ds : Nat) : Int) < 1 := by omega
        simp [this]
        intro e r h; cases h; omega
      · have : ¬ ((decodePlaceholder ds : Nat) : Int) < 1 := by omega
        simp [this]
        exact ⟨_, hs5, .cmpPlaceholder _ _ _ (by omega)⟩
    | value body =>
      have hv : i5.val = 34 :: body ++ [34] := hi5.2
      have hc : i1.val = c := hi1.2
      simp only [isPlaceholder, isValue, hv, decodeString_lexeme, hc]
      simp [toInt32_zero]
      exact ⟨_, hs5, .cmpValue _ _ _⟩
    | _ =>
      simp [isPlaceholder, isValue]
      intro e r h; cases h
  · simp [ht2]
    intro e r h; cases h <;> exact ht2 rfl

/-! ### the mutual block: statements -/

/-- `{ sep simple-expr }` as the loops of `parseAndExpr` / `parseOrExpr` see it: nothing, if the next token is not
    `sep`; otherwise `sep` followed by a (greedy) chain -/
inductive Tail (sep : Tok) : List Tok → List PExpr → List Tok → Prop
  | stop {ts : List Tok} (h : ts.head? ≠ some sep) : Tail sep ts [] ts
  | go {ts : List Tok} {es : List PExpr} {r : List Tok} (h : Chain sep ts es r) : Tail sep (sep :: ts) es r

def SimpleSpec (fuel : Nat) : Prop :=
  ∀ (p : Gen.Parser) (ts : List Tok), Stream p ts → TokWF ts →
    AgreesF (Gen.parser_parseSimpleExpr fuel p) (fun p' e => ∃ r, Stream p' r ∧ Simple ts e r)
      (∀ e r, ¬ Simple ts e r) (3 * ts.length + 1 ≤ fuel)

def GroupedSpec (fuel : Nat) : Prop :=
  ∀ (p : Gen.Parser) (ts : List Tok), Stream p (.lparen :: ts) → TokWF (.lparen :: ts) →
    AgreesF (Gen.parser_parseGroupedExpr fuel p) (fun p' e => ∃ r, Stream p' r ∧ Simple (.lparen :: ts) e r)
      (∀ e r, ¬ Simple (.lparen :: ts) e r) (3 * (ts.length + 1) ≤ fuel)

def ExprSpec (fuel : Nat) : Prop :=
  ∀ (p : Gen.Parser) (ts : List Tok), Stream p ts → TokWF ts →
    AgreesF (Gen.parser_parseExpr fuel p) (fun p' e => ∃ r, Stream p' r ∧ Grammar.Expr ts e r)
      (∀ e r, ¬ Grammar.Expr ts e r) (3 * ts.length + 2 ≤ fuel)

def LoopSpec (sep : Tok) (loop : Nat → Gen.Parser → List PExpr → Go.Res (Gen.Parser × List PExpr)) (fuel : Nat) :
    Prop :=
  ∀ (p : Gen.Parser) (ts : List Tok) (exprs : List PExpr), Stream p ts → TokWF ts →
    AgreesF (loop fuel p exprs) (fun p' res => ∃ es r, res = exprs ++ es ∧ Stream p' r ∧ Tail sep ts es r)
      (∀ es r, ¬ Tail sep ts es r) (3 * ts.length + 1 ≤ fuel)

def NarySpec (sep : Tok) (mk : List PExpr → PExpr)
    (f : Nat → Gen.Parser → PExpr → Go.Res (Gen.Parser × PExpr)) (fuel : Nat) : Prop :=
  ∀ (p : Gen.Parser) (ts : List Tok) (first : PExpr), Stream p (sep :: ts) → TokWF (sep :: ts) →
    AgreesF (f fuel p first) (fun p' e => ∃ es r, e = mk (first :: es) ∧ Stream p' r ∧ Chain sep ts es r)
      (∀ es r, ¬ Chain sep ts es r) (3 * (ts.length + 1) + 2 ≤ fuel)

theorem simple_step {fuel : Nat} (ihS : SimpleSpec fuel) (ihG : GroupedSpec fuel) : SimpleSpec (fuel + 1) := by
  intro p ts hs hw
  obtain ⟨t, ts, rfl⟩ := hw.exists_cons
  obtain ⟨p1, i1, h1, hs1, hi1⟩ := parser_peek_spec hs
  rw [Gen.parser_parseSimpleExpr]
  simp only [h1, typ_beq hi1, code_lparen, code_not, code_field]
  by_cases hl : t = .lparen
  · subst hl
    simp only [decide_true, if_true]
    rcases (ihG p1 ts hs1 hw).cases with ⟨hX, hb⟩ | ⟨hX, he⟩ | ⟨p2, e, hX, hg⟩ <;>
      simp only [hX, agreesF_ok, agreesF_panic, agreesF_fuel]
    · exact hb
    · simp only [List.length_cons] at he ⊢; omega
    · exact hg
  · by_cases hn : t = .not
    · subst hn
      obtain ⟨p2, i2, h2, hs2, hi2⟩ := parser_next_spec hs1
      have hw2 := hw.tail rfl
      simp only [h2, decide_true, decide_false, if_true, if_false, reduceCtorEq]
      rcases (ihS p2 ts hs2 hw2).cases with ⟨hX, hb⟩ | ⟨hX, he⟩ | ⟨p3, e, hX, hg⟩ <;>
        simp only [hX, agreesF_ok, agreesF_panic, agreesF_fuel]
      · intro e r h; cases h with | not h => exact hb _ _ h
      · simp only [List.length_cons] at he ⊢; omega
      · obtain ⟨r, hsr, h⟩ := hg; exact ⟨r, hsr, .not h⟩
    · cases t with
      | field c =>
        simp only [isField, decide_false, if_true, if_false, reduceCtorEq]
        rcases (parseComparison_agreesF hs1 hw).cases with ⟨hX, hb⟩ | ⟨hX, he⟩ | ⟨p3, e, hX, hg⟩ <;>
          simp only [hX, agreesF_ok, agreesF_panic, agreesF_fuel]
        · exact hb
        · exact absurd trivial he
        · exact hg
      | _ =>
        first
        | exact absurd rfl hl
        | exact absurd rfl hn
        | (simp [isField]; intro e r h; cases h)

theorem grouped_step {fuel : Nat} (ihE : ExprSpec fuel) : GroupedSpec (fuel + 1) := by
  intro p ts hs hw
  obtain ⟨p1, i1, h1, hs1, hi1⟩ := parser_next_spec hs
  have hw1 := hw.tail rfl
  rw [Gen.parser_parseGroupedExpr]
  simp only [h1]
  rcases (ihE p1 ts hs1 hw1).cases with ⟨hX, hb⟩ | ⟨hX, he⟩ | ⟨p2, e, hX, hg⟩ <;>
    simp only [hX, agreesF_ok, agreesF_panic, agreesF_fuel]
  · intro e r h; cases h with | group h => exact hb _ _ h
  · omega
  · obtain ⟨r, hs2, hE⟩ := hg
    have hw2 := hE.wf hw1
    obtain ⟨t3, r, rfl⟩ := hw2.exists_cons
    obtain ⟨p3, i3, h3, hs3, hi3⟩ := parser_peek_spec hs2
    obtain ⟨p4, i4, h4, hs4, hi4⟩ := parser_next_spec hs3
    simp only [h3, h4, typ_beq hi3, bne, code_rparen]
    by_cases hr : t3 = .rparen
    · subst hr
      simp
      exact ⟨r, hs4, .group hE⟩
    · simp [hr]
      intro e' r' h
      cases h with
      | group h => exact hr (by have := (hE.unique h).2; simp at this; exact this.1)

theorem expr_step {fuel : Nat} (ihS : SimpleSpec fuel) (ihA : NarySpec .and PExpr.and Gen.parser_parseAndExpr fuel)
    (ihO : NarySpec .or PExpr.or Gen.parser_parseOrExpr fuel) : ExprSpec (fuel + 1) := by
  intro p ts hs hw
  rw [Gen.parser_parseExpr]
  rcases (ihS p ts hs hw).cases with ⟨hX, hb⟩ | ⟨hX, he⟩ | ⟨p1, e, hX, hg⟩ <;>
    simp only [hX, agreesF_ok, agreesF_panic, agreesF_fuel]
  · intro e r h
    cases h with
    | single h _ _ => exact hb _ _ h
    | and h _ => exact hb _ _ h
    | or h _ => exact hb _ _ h
  · omega
  · obtain ⟨r, hs1, hS⟩ := hg
    have hw1 := hS.wf hw
    have hlen := hS.length_lt
    obtain ⟨t2, r, rfl⟩ := hw1.exists_cons
    obtain ⟨p2, i2, h2, hs2, hi2⟩ := parser_peek_spec hs1
    simp only [h2, typ_beq hi2, code_and, code_or]
    by_cases ha : t2 = .and
    · subst ha
      simp only [decide_true, if_true]
      rcases (ihA p2 r e hs2 hw1).cases with ⟨hX, hb⟩ | ⟨hX, he⟩ | ⟨p3, e', hX, hg⟩ <;>
        simp only [hX, agreesF_ok, agreesF_panic, agreesF_fuel]
      · intro e' r' h
        cases h with
        | single h hand _ => exact hand (by rw [← (hS.unique h).2]; rfl)
        | and h hc => have := (hS.unique h).2; simp at this; subst this; exact hb _ _ hc
        | or h hc => have := (hS.unique h).2; simp at this
      · simp only [List.length_cons] at he hlen ⊢; omega
      · obtain ⟨es, r', rfl, hs3, hc⟩ := hg
        exact ⟨r', hs3, .and hS hc⟩
    · by_cases ho : t2 = .or
      · subst ho
        simp only [decide_true, decide_false, if_true, if_false, reduceCtorEq]
        rcases (ihO p2 r e hs2 hw1).cases with ⟨hX, hb⟩ | ⟨hX, he⟩ | ⟨p3, e', hX, hg⟩ <;>
          simp only [hX, agreesF_ok, agreesF_panic, agreesF_fuel]
        · intro e' r' h
          cases h with
          | single h _ hor => exact hor (by rw [← (hS.unique h).2]; rfl)
          | and h hc => have := (hS.unique h).2; simp at this
          | or h hc => have := (hS.unique h).2; simp at this; subst this; exact hb _ _ hc
        · simp only [List.length_cons] at he hlen ⊢; omega
        · obtain ⟨es, r', rfl, hs3, hc⟩ := hg
          exact ⟨r', hs3, .or hS hc⟩
      · simp only [ha, ho, decide_false, if_false, agreesF_ok, Bool.false_eq_true]
        exact ⟨_, hs2, .single hS (by simpa using ha) (by simpa using ho)⟩

/-- the loops of `parseAndExpr` and `parseOrExpr` are the same text up to the separator -/
theorem loop_step {sep : Tok} {code : Int} (hcode : ∀ t, (tokCode t == code) = decide (t = sep))
    (hsep : sep.isTerminal = false)
    {loop : Nat → Gen.Parser → List PExpr → Go.Res (Gen.Parser × List PExpr)} {fuel : Nat}
    (heq : ∀ p exprs, loop (fuel + 1) p exprs =
      (let (p, t1) := Gen.parser_peek p
       if (t1.typ == code) then
         let (p, _) := Gen.parser_next p
         match Gen.parser_parseSimpleExpr fuel p with
         | .error err => .error err
         | .ok (p, expr) =>
         let exprs := (exprs ++ [expr])
         loop fuel p exprs
       else
       .ok (p, exprs)))
    (ihS : SimpleSpec fuel) (ihL : LoopSpec sep loop fuel) : LoopSpec sep loop (fuel + 1) := by
  intro p ts exprs hs hw
  obtain ⟨t, ts, rfl⟩ := hw.exists_cons
  obtain ⟨p1, i1, h1, hs1, hi1⟩ := parser_peek_spec hs
  obtain ⟨p2, i2, h2, hs2, hi2⟩ := parser_next_spec hs1
  rw [heq]
  simp only [h1, h2, typ_beq hi1, hcode]
  by_cases ht : t = sep
  · subst ht
    have hw2 := hw.tail hsep
    simp only [decide_true, if_true]
    rcases (ihS p2 ts hs2 hw2).cases with ⟨hX, hb⟩ | ⟨hX, he⟩ | ⟨p3, e, hX, hg⟩ <;>
      simp only [hX, agreesF_ok, agreesF_panic, agreesF_fuel]
    · intro es r h
      cases h with
      | stop h => simp at h
      | go h =>
        cases h with
        | last h _ => exact hb _ _ h
        | more h _ => exact hb _ _ h
    · simp only [List.length_cons] at he ⊢; omega
    · obtain ⟨r1, hs3, hS⟩ := hg
      have hw3 := hS.wf hw2
      have hlen := hS.length_lt
      rcases (ihL p3 r1 (exprs ++ [e]) hs3 hw3).cases with ⟨hX, hb⟩ | ⟨hX, he⟩ | ⟨p4, res, hX, hg⟩ <;>
        simp only [hX, agreesF_ok, agreesF_panic, agreesF_fuel]
      · intro es r h
        cases h with
        | stop h => simp at h
        | go h =>
          cases h with
          | last h hstop =>
            obtain ⟨_, rfl⟩ := hS.unique h
            exact hb _ _ (.stop hstop)
          | more h hc =>
            obtain ⟨_, rfl⟩ := hS.unique h
            exact hb _ _ (.go hc)
      · simp only [List.length_cons] at he ⊢; omega
      · obtain ⟨es, r, rfl, hs4, hT⟩ := hg
        refine ⟨e :: es, r, by simp, hs4, .go ?_⟩
        cases hT with
        | stop h => exact .last hS h
        | go h => exact .more hS h
  · simp only [ht, decide_false, if_false, agreesF_ok, Bool.false_eq_true]
    exact ⟨[], _, by simp, hs1, .stop (by simpa using ht)⟩

theorem nary_step {sep : Tok} {mk : List PExpr → PExpr}
    {loop : Nat → Gen.Parser → List PExpr → Go.Res (Gen.Parser × List PExpr)}
    {f : Nat → Gen.Parser → PExpr → Go.Res (Gen.Parser × PExpr)} {fuel : Nat}
    (heq : ∀ p first, f (fuel + 1) p first =
      (match loop fuel p [first] with
       | .error err => .error err
       | .ok (p, exprs) => .ok (p, mk exprs)))
    (ihL : LoopSpec sep loop fuel) : NarySpec sep mk f (fuel + 1) := by
  intro p ts first hs hw
  rw [heq]
  rcases (ihL p (sep :: ts) [first] hs hw).cases with ⟨hX, hb⟩ | ⟨hX, he⟩ | ⟨p4, res, hX, hg⟩ <;>
    simp only [hX, agreesF_ok, agreesF_panic, agreesF_fuel]
  · intro es r h; exact hb _ _ (.go h)
  · simp only [List.length_cons] at he ⊢; omega
  · obtain ⟨es, r, rfl, hs4, hT⟩ := hg
    cases hT with
    | stop h => simp at h
    | go h => exact ⟨es, r, rfl, hs4, h⟩

theorem andLoop_eq (fuel : Nat) (p : Gen.Parser) (exprs : List PExpr) :
    Gen.parser_parseAndExpr_loop1 (fuel + 1) p exprs =
      (let (p, t1) := Gen.parser_peek p
       if (t1.typ == Gen.itemAnd) then
         let (p, _) := Gen.parser_next p
         match Gen.parser_parseSimpleExpr fuel p with
         | .error err => .error err
         | .ok (p, expr) =>
         let exprs := (exprs ++ [expr])
         Gen.parser_parseAndExpr_loop1 fuel p exprs
       else
       .ok (p, exprs)) := by
  rw [Gen.parser_parseAndExpr_loop1]; rfl

theorem orLoop_eq (fuel : Nat) (p : Gen.Parser) (exprs : List PExpr) :
    Gen.parser_parseOrExpr_loop1 (fuel + 1) p exprs =
      (let (p, t1) := Gen.parser_peek p
       if (t1.typ == Gen.itemOr) then
         let (p, _) := Gen.parser_next p
         match Gen.parser_parseSimpleExpr fuel p with
         | .error err => .error err
         | .ok (p, expr) =>
         let exprs := (exprs ++ [expr])
         Gen.parser_parseOrExpr_loop1 fuel p exprs
       else
       .ok (p, exprs)) := by
  rw [Gen.parser_parseOrExpr_loop1]; rfl

theorem andExpr_eq (fuel : Nat) (p : Gen.Parser) (first : PExpr) :
    Gen.parser_parseAndExpr (fuel + 1) p first =
      (match Gen.parser_parseAndExpr_loop1 fuel p [first] with
       | .error err => .error err
       | .ok (p, exprs) => .ok (p, PExpr.and exprs)) := by
  rw [Gen.parser_parseAndExpr]; rfl

theorem orExpr_eq (fuel : Nat) (p : Gen.Parser) (first : PExpr) :
    Gen.parser_parseOrExpr (fuel + 1) p first =
      (match Gen.parser_parseOrExpr_loop1 fuel p [first] with
       | .error err => .error err
       | .ok (p, exprs) => .ok (p, PExpr.or exprs)) := by
  rw [Gen.parser_parseOrExpr]; rfl

/-! ### the mutual block: one induction on the fuel -/

structure AllSpec (fuel : Nat) : Prop where
  simple : SimpleSpec fuel
  grouped : GroupedSpec fuel
  expr : ExprSpec fuel
  andLoop : LoopSpec .and Gen.parser_parseAndExpr_loop1 fuel
  andExpr : NarySpec .and PExpr.and Gen.parser_parseAndExpr fuel
  orLoop : LoopSpec .or Gen.parser_parseOrExpr_loop1 fuel
  orExpr : NarySpec .or PExpr.or Gen.parser_parseOrExpr fuel

theorem allSpec (fuel : Nat) : AllSpec fuel := by
  induction fuel with
  | zero =>
    refine ⟨?_, ?_, ?_, ?_, ?_, ?_, ?_⟩
    · intro p ts _ _; rw [Gen.parser_parseSimpleExpr]; simp
    · intro p ts _ _; rw [Gen.parser_parseGroupedExpr]; simp
    · intro p ts _ _; rw [Gen.parser_parseExpr]; simp
    · intro p ts _ _ _; rw [Gen.parser_parseAndExpr_loop1]; simp
    · intro p ts _ _ _; rw [Gen.parser_parseAndExpr]; simp
    · intro p ts _ _ _; rw [Gen.parser_parseOrExpr_loop1]; simp
    · intro p ts _ _ _; rw [Gen.parser_parseOrExpr]; simp
  | succ fuel ih =>
    exact ⟨simple_step ih.simple ih.grouped, grouped_step ih.expr, expr_step ih.simple ih.andExpr ih.orExpr,
      loop_step code_and rfl (andLoop_eq fuel) ih.simple ih.andLoop, nary_step (andExpr_eq fuel) ih.andLoop,
      loop_step code_or rfl (orLoop_eq fuel) ih.simple ih.orLoop, nary_step (orExpr_eq fuel) ih.orLoop⟩

/-! ### field lists -/

theorem fieldLoop_agreesF (fuel : Nat) : ∀ (p : Gen.Parser) (ts : List Tok) (fields : List Bytes),
    Stream p ts → TokWF ts →
    AgreesF (Gen.parser_parseFieldList_loop1 fuel p fields)
      (fun p' res => ∃ fs r, res = fields ++ fs ∧ Stream p' r ∧ FieldsRest ts fs r)
      (∀ fs r, ¬ FieldsRest ts fs r) (ts.length ≤ fuel) := by
  induction fuel with
  | zero =>
    intro p ts fields hs hw
    obtain ⟨t, ts, rfl⟩ := hw.exists_cons
    rw [Gen.parser_parseFieldList_loop1]; simp
  | succ fuel ih =>
    intro p ts fields hs hw
    obtain ⟨t, ts, rfl⟩ := hw.exists_cons
    obtain ⟨p1, i1, h1, hs1, hi1⟩ := parser_peek_spec hs
    obtain ⟨p2, i2, h2, hs2, hi2⟩ := parser_next_spec hs1
    rw [Gen.parser_parseFieldList_loop1]
    simp only [h1, h2, typ_beq hi1, code_comma]
    by_cases ht : t = .comma
    · subst ht
      have hw2 := hw.tail rfl
      obtain ⟨t6, ts, rfl⟩ := hw2.exists_cons
      obtain ⟨p3, i3, h3, hs3, hi3⟩ := parser_peek_spec hs2
      obtain ⟨p4, i4, h4, hs4, hi4⟩ := parser_next_spec hs3
      simp only [decide_true, if_true, h3, h4, typ_beq hi3, bne, code_field]
      cases t6 with
      | field c =>
        have hw4 := hw2.tail rfl
        have hv : i4.val = c := hi4.2
        simp only [isField, Bool.not_true, Bool.false_eq_true, if_false, hv]
        rcases (ih p4 ts (fields ++ [c]) hs4 hw4).cases with ⟨hX, hb⟩ | ⟨hX, he⟩ | ⟨p5, res, hX, hg⟩ <;>
          simp only [hX, agreesF_ok, agreesF_panic, agreesF_fuel]
        · intro fs r h
          cases h with
          | done h => simp at h
          | more h => exact hb _ _ h
        · simp only [List.length_cons] at he ⊢; omega
        · obtain ⟨fs, r, rfl, hs5, hF⟩ := hg
          exact ⟨c :: fs, r, by simp, hs5, .more hF⟩
      | _ =>
        simp [isField]
        intro fs r h
        cases h with
        | done h => simp at h
    · simp only [ht, decide_false, if_false, agreesF_ok, Bool.false_eq_true]
      exact ⟨[], _, by simp, hs1, .done (by simpa using ht)⟩

theorem parseFieldList_agreesF {fuel : Nat} {p : Gen.Parser} {ts : List Tok} (hs : Stream p ts) (hw : TokWF ts) :
    AgreesF (Gen.parser_parseFieldList fuel p) (fun p' fs => ∃ r, Stream p' r ∧ FieldList ts fs r)
      (∀ fs r, ¬ FieldList ts fs r) (ts.length ≤ fuel) := by
  obtain ⟨t, ts, rfl⟩ := hw.exists_cons
  obtain ⟨p1, i1, h1, hs1, hi1⟩ := parser_peek_spec hs
  obtain ⟨p2, i2, h2, hs2, hi2⟩ := parser_next_spec hs1
  rw [Gen.parser_parseFieldList]
  simp only [h1, h2, typ_beq hi1, bne, code_field]
  cases t with
  | field c =>
    have hw2 := hw.tail rfl
    have hv : i2.val = c := hi2.2
    simp only [isField, Bool.not_true, Bool.false_eq_true, if_false, hv, List.nil_append]
    rcases (fieldLoop_agreesF fuel p2 ts [c] hs2 hw2).cases with ⟨hX, hb⟩ | ⟨hX, he⟩ | ⟨p5, res, hX, hg⟩ <;>
      simp only [hX, agreesF_ok, agreesF_panic, agreesF_fuel]
    · intro fs r h
      cases h with
      | mk h => exact hb _ _ h
    · simp only [List.length_cons] at he ⊢; omega
    · obtain ⟨fs, r, rfl, hs5, hF⟩ := hg
      exact ⟨r, hs5, .mk hF⟩
  | _ =>
    simp [isField]
    intro fs r h
    cases h

/-! ### `parser.parse` -/

/-- `AgreesF` behind `defer p.recover(&err)`: the panic has become a returned error -/
def AgreesR {α : Type} (res : Go.Res (Gen.Parser × α)) (good : Gen.Parser → α → Prop) (bad : Prop)
    (enough : Prop) : Prop :=
  match res with
  | .ok (p', a) => good p' a
  | .error .returned => bad
  | .error .fuel => ¬ enough
  | .error .panic => False

theorem AgreesF.recover {α : Type} {res : Go.Res (Gen.Parser × α)} {good : Gen.Parser → α → Prop}
    {bad enough : Prop} (h : AgreesF res good bad enough) : AgreesR (Go.recoverErr res) good bad enough := by
  cases res with
  | error err =>
    cases err with
    | panic => exact h
    | fuel => exact h
    | returned => exact False.elim h
  | ok v => obtain ⟨p, a⟩ := v; exact h

theorem _root_.Updog.Grammar.FieldList.unique {ts : List Tok} {fs fs' : List Bytes} {r r' : List Tok}
    (h : FieldList ts fs r) (h' : FieldList ts fs' r') : fs = fs' ∧ r = r' := by
  have h1 := parseFieldList_iff.mpr h
  have h2 := parseFieldList_iff.mpr h'
  rw [h1] at h2
  simpa using h2

theorem parse_agreesR {fuel : Nat} {p : Gen.Parser} {ts : List Tok} (hs : Stream p ts) (hw : TokWF ts) :
    AgreesR (Gen.parser_parse fuel p) (fun p' q => Stream p' [.eof] ∧ Sentence ts q) (∀ q, ¬ Sentence ts q)
      (3 * ts.length + 2 ≤ fuel) := by
  unfold Gen.parser_parse
  refine AgreesF.recover ?_
  rcases ((allSpec fuel).expr p ts hs hw).cases with ⟨hX, hb⟩ | ⟨hX, he⟩ | ⟨p1, e, hX, hg⟩ <;>
    simp only [hX, agreesF_ok, agreesF_panic, agreesF_fuel]
  · intro q h
    cases h with
    | plain h => exact hb _ _ h
    | grouped h _ => exact hb _ _ h
  · exact he
  · obtain ⟨r, hs1, hE⟩ := hg
    have hw1 := hE.wf hw
    have hlen := hE.length_lt
    obtain ⟨t2, r, rfl⟩ := hw1.exists_cons
    obtain ⟨p2, i2, h2, hs2, hi2⟩ := parser_peek_spec hs1
    obtain ⟨p3, i3, h3, hs3, hi3⟩ := parser_next_spec hs2
    obtain ⟨p2', i2', h2', hs2', hi2'⟩ := parser_peek_spec hs2
    simp only [h2, h3, h2', typ_beq hi2, typ_beq hi2', bne, code_semi, code_eof]
    by_cases hsemi : t2 = .semi
    · subst hsemi
      have hw3 := hw1.tail rfl
      simp only [decide_true, if_true]
      rcases (@parseFieldList_agreesF fuel p3 r hs3 hw3).cases with ⟨hX, hb⟩ | ⟨hX, he⟩ | ⟨p4, fs, hX, hg⟩ <;>
        simp only [hX, agreesF_ok, agreesF_panic, agreesF_fuel]
      · intro q h
        cases h with
        | plain h => have := (hE.unique h).2; simp at this
        | grouped h hf => have := (hE.unique h).2; simp at this; subst this; exact hb _ _ hf
      · simp only [List.length_cons] at hlen; omega
      · obtain ⟨r2, hs4, hF⟩ := hg
        have hw4 := hF.wf hw3
        obtain ⟨t5, r2, rfl⟩ := hw4.exists_cons
        obtain ⟨p5, i5, h5, hs5, hi5⟩ := parser_peek_spec hs4
        simp only [h5, typ_beq hi5, code_eof]
        by_cases heof : t5 = .eof
        · subst heof
          have := hw4.shape.eq_nil rfl
          subst this
          simp
          exact ⟨hs5, .grouped hE hF⟩
        · simp [heof]
          intro q h
          cases h with
          | plain h => have := (hE.unique h).2; simp at this
          | grouped h hf =>
            have := (hE.unique h).2; simp at this; subst this
            have := (hF.unique hf).2; simp at this; exact heof this.1
    · simp only [hsemi, decide_false, if_false, Bool.false_eq_true]
      by_cases heof : t2 = .eof
      · subst heof
        have := hw1.shape.eq_nil rfl
        subst this
        simp
        exact ⟨hs2', .plain hE⟩
      · simp [heof]
        intro q h
        cases h with
        | plain h => have := (hE.unique h).2; simp at this; exact heof this.1
        | grouped h hf => have := (hE.unique h).2; simp at this; exact hsemi this.1

/-! ### the theorems, one per generated parse function

Hypotheses everywhere: the parser state stands in front of `ts` (`Stream p ts`), `ts` is a lexer output
(`TermShape ts`: it ends with its only `eof` / `error` token) whose placeholders consist of digits (`TokOK`). -/

section
variable {p : Gen.Parser} {ts : List Tok}

theorem parseComparison_agrees {c : Bytes} {ts' : List Tok} (hts : ts = .field c :: ts') (hs : Stream p ts)
    (hshape : TermShape ts) (hok : ∀ t ∈ ts, TokOK t) :
    Agrees (Gen.parser_parseComparison p) (fun p' e => ∃ r, Stream p' r ∧ Simple ts e r)
      (∀ e r, ¬ Simple ts e r) := by
  subst hts; exact (parseComparison_agreesF hs ⟨hshape, hok⟩).agrees

theorem parseSimpleExpr_agrees (fuel : Nat) (hs : Stream p ts) (hshape : TermShape ts) (hok : ∀ t ∈ ts, TokOK t) :
    Agrees (Gen.parser_parseSimpleExpr fuel p) (fun p' e => ∃ r, Stream p' r ∧ Simple ts e r)
      (∀ e r, ¬ Simple ts e r) :=
  ((allSpec fuel).simple p ts hs ⟨hshape, hok⟩).agrees

theorem parseExpr_agrees (fuel : Nat) (hs : Stream p ts) (hshape : TermShape ts) (hok : ∀ t ∈ ts, TokOK t) :
    Agrees (Gen.parser_parseExpr fuel p) (fun p' e => ∃ r, Stream p' r ∧ Grammar.Expr ts e r)
      (∀ e r, ¬ Grammar.Expr ts e r) :=
  ((allSpec fuel).expr p ts hs ⟨hshape, hok⟩).agrees

/-- `parseGroupedExpr` is called in front of `(`: it parses the simple-expr `'(' expr ')'` -/
theorem parseGroupedExpr_agrees (fuel : Nat) {ts' : List Tok} (hts : ts = .lparen :: ts') (hs : Stream p ts)
    (hshape : TermShape ts) (hok : ∀ t ∈ ts, TokOK t) :
    Agrees (Gen.parser_parseGroupedExpr fuel p) (fun p' e => ∃ r, Stream p' r ∧ Simple ts e r)
      (∀ e r, ¬ Simple ts e r) := by
  subst hts; exact ((allSpec fuel).grouped p ts' hs ⟨hshape, hok⟩).agrees

/-- the loop of `parseAndExpr` with accumulator `exprs`: it appends the operands of `{ '&' simple-expr }` (`Tail`:
    nothing if the next token is not `&`, otherwise `&` and a greedy `Chain`) -/
theorem parseAndExpr_loop1_agrees (fuel : Nat) (exprs : List PExpr) (hs : Stream p ts) (hshape : TermShape ts)
    (hok : ∀ t ∈ ts, TokOK t) :
    Agrees (Gen.parser_parseAndExpr_loop1 fuel p exprs)
      (fun p' res => ∃ es r, res = exprs ++ es ∧ Stream p' r ∧ Tail .and ts es r) (∀ es r, ¬ Tail .and ts es r) :=
  ((allSpec fuel).andLoop p ts exprs hs ⟨hshape, hok⟩).agrees

theorem parseOrExpr_loop1_agrees (fuel : Nat) (exprs : List PExpr) (hs : Stream p ts) (hshape : TermShape ts)
    (hok : ∀ t ∈ ts, TokOK t) :
    Agrees (Gen.parser_parseOrExpr_loop1 fuel p exprs)
      (fun p' res => ∃ es r, res = exprs ++ es ∧ Stream p' r ∧ Tail .or ts es r) (∀ es r, ¬ Tail .or ts es r) :=
  ((allSpec fuel).orLoop p ts exprs hs ⟨hshape, hok⟩).agrees

/-- `parseAndExpr` is called in front of `&` with the first operand already parsed -/
theorem parseAndExpr_agrees (fuel : Nat) (first : PExpr) {ts' : List Tok} (hts : ts = .and :: ts')
    (hs : Stream p ts) (hshape : TermShape ts) (hok : ∀ t ∈ ts, TokOK t) :
    Agrees (Gen.parser_parseAndExpr fuel p first)
      (fun p' e => ∃ es r, e = .and (first :: es) ∧ Stream p' r ∧ Chain .and ts' es r)
      (∀ es r, ¬ Chain .and ts' es r) := by
  subst hts; exact ((allSpec fuel).andExpr p ts' first hs ⟨hshape, hok⟩).agrees

theorem parseOrExpr_agrees (fuel : Nat) (first : PExpr) {ts' : List Tok} (hts : ts = .or :: ts')
    (hs : Stream p ts) (hshape : TermShape ts) (hok : ∀ t ∈ ts, TokOK t) :
    Agrees (Gen.parser_parseOrExpr fuel p first)
      (fun p' e => ∃ es r, e = .or (first :: es) ∧ Stream p' r ∧ Chain .or ts' es r)
      (∀ es r, ¬ Chain .or ts' es r) := by
  subst hts; exact ((allSpec fuel).orExpr p ts' first hs ⟨hshape, hok⟩).agrees

theorem parseFieldList_loop1_agrees (fuel : Nat) (fields : List Bytes) (hs : Stream p ts) (hshape : TermShape ts)
    (hok : ∀ t ∈ ts, TokOK t) :
    Agrees (Gen.parser_parseFieldList_loop1 fuel p fields)
      (fun p' res => ∃ fs r, res = fields ++ fs ∧ Stream p' r ∧ FieldsRest ts fs r)
      (∀ fs r, ¬ FieldsRest ts fs r) :=
  (fieldLoop_agreesF fuel p ts fields hs ⟨hshape, hok⟩).agrees

theorem parseFieldList_agrees (fuel : Nat) (hs : Stream p ts) (hshape : TermShape ts) (hok : ∀ t ∈ ts, TokOK t) :
    Agrees (Gen.parser_parseFieldList fuel p) (fun p' fs => ∃ r, Stream p' r ∧ FieldList ts fs r)
      (∀ fs r, ¬ FieldList ts fs r) :=
  (parseFieldList_agreesF hs ⟨hshape, hok⟩).agrees

theorem parseToks_none_iff {ts : List Tok} : parseToks ts = none ↔ ∀ q, ¬ Sentence ts q := by
  constructor
  · intro h q hq; rw [parseToks_iff.mpr hq] at h; cases h
  · intro h
    cases hq : parseToks ts with
    | none => rfl
    | some q => exact absurd (parseToks_iff.mp hq) (h q)

/-- `parser.parse` (behind its `defer p.recover(&err)`): the model's `parseToks`, unless the fuel ran out -/
theorem parse_agrees (fuel : Nat) (hs : Stream p ts) (hshape : TermShape ts) (hok : ∀ t ∈ ts, TokOK t) :
    (match Gen.parser_parse fuel p with
     | .ok (p', q) => Stream p' [.eof] ∧ parseToks ts = some q
     | .error .returned => parseToks ts = none
     | .error .fuel => True
     | .error .panic => False) := by
  have h := parse_agreesR (fuel := fuel) hs ⟨hshape, hok⟩
  unfold AgreesR at h
  split <;> simp_all [parseToks_iff, parseToks_none_iff]

/-- the same as a disjunction -/
theorem parse_agrees' (fuel : Nat) (hs : Stream p ts) (hshape : TermShape ts) (hok : ∀ t ∈ ts, TokOK t) :
    Gen.parser_parse fuel p = .error .fuel ∨
    (∃ p' q, Gen.parser_parse fuel p = .ok (p', q) ∧ parseToks ts = some q) ∨
    (Gen.parser_parse fuel p = .error .returned ∧ parseToks ts = none) := by
  have h := parse_agrees fuel hs hshape hok
  split at h
  · next p' q heq => exact .inr (.inl ⟨p', q, heq, h.2⟩)
  · next heq => exact .inr (.inr ⟨heq, h⟩)
  · next heq => exact .inl heq
  · exact h.elim

/-! ### in terms of the model functions -/

theorem parseSimple_none_of {ts : List Tok} (h : ∀ e r, ¬ Simple ts e r) (f : Nat) : parseSimple f ts = none := by
  cases hq : parseSimple f ts with
  | none => rfl
  | some er => exact absurd ((parse_sound_all f).1 ts er.1 er.2 hq) (h _ _)

theorem parseExpr_none_of {ts : List Tok} (h : ∀ e r, ¬ Grammar.Expr ts e r) (f : Nat) : parseExpr f ts = none := by
  cases hq : parseExpr f ts with
  | none => rfl
  | some er => exact absurd ((parse_sound_all f).2.1 ts er.1 er.2 hq) (h _ _)

theorem parseFieldList_none_of {ts : List Tok} (h : ∀ fs r, ¬ FieldList ts fs r) : parseFieldList ts = none := by
  cases hq : parseFieldList ts with
  | none => rfl
  | some er => exact absurd (parseFieldList_iff.mp hq) (h _ _)

theorem parseSimpleExpr_model (fuel : Nat) (hs : Stream p ts) (hshape : TermShape ts) (hok : ∀ t ∈ ts, TokOK t) :
    (match Gen.parser_parseSimpleExpr fuel p with
     | .ok (p', e) => ∃ r, Stream p' r ∧ parseSimple ts.length ts = some (e, r)
     | .error .panic => ∀ f, parseSimple f ts = none
     | .error .fuel => True
     | .error .returned => False) := by
  have h := parseSimpleExpr_agrees fuel hs hshape hok
  unfold Agrees at h
  split
  · next p' e heq =>
    rw [heq] at h
    obtain ⟨r, hsr, hS⟩ := h
    exact ⟨r, hsr, hS.parse ts.length (by omega)⟩
  · next heq => rw [heq] at h; exact parseSimple_none_of h
  · trivial
  · next heq => rw [heq] at h; exact h

theorem parseExpr_model (fuel : Nat) (hs : Stream p ts) (hshape : TermShape ts) (hok : ∀ t ∈ ts, TokOK t) :
    (match Gen.parser_parseExpr fuel p with
     | .ok (p', e) => ∃ r, Stream p' r ∧ parseExpr (ts.length + 1) ts = some (e, r)
     | .error .panic => ∀ f, parseExpr f ts = none
     | .error .fuel => True
     | .error .returned => False) := by
  have h := parseExpr_agrees fuel hs hshape hok
  unfold Agrees at h
  split
  · next p' e heq =>
    rw [heq] at h
    obtain ⟨r, hsr, hE⟩ := h
    exact ⟨r, hsr, hE.parse (ts.length + 1) (by omega)⟩
  · next heq => rw [heq] at h; exact parseExpr_none_of h
  · trivial
  · next heq => rw [heq] at h; exact h

theorem parseFieldList_model (fuel : Nat) (hs : Stream p ts) (hshape : TermShape ts) (hok : ∀ t ∈ ts, TokOK t) :
    (match Gen.parser_parseFieldList fuel p with
     | .ok (p', fs) => ∃ r, Stream p' r ∧ parseFieldList ts = some (fs, r)
     | .error .panic => parseFieldList ts = none
     | .error .fuel => True
     | .error .returned => False) := by
  have h := parseFieldList_agrees fuel hs hshape hok
  unfold Agrees at h
  split
  · next p' e heq =>
    rw [heq] at h
    obtain ⟨r, hsr, hF⟩ := h
    exact ⟨r, hsr, parseFieldList_iff.mpr hF⟩
  · next heq => rw [heq] at h; exact parseFieldList_none_of h
  · trivial
  · next heq => rw [heq] at h; exact h

/-! ### fuel suffices: a bound linear in the number of tokens -/

theorem parseSimpleExpr_fuel_ok {fuel : Nat} (hs : Stream p ts) (hshape : TermShape ts) (hok : ∀ t ∈ ts, TokOK t)
    (h : 3 * ts.length + 1 ≤ fuel) : Gen.parser_parseSimpleExpr fuel p ≠ .error .fuel :=
  ((allSpec fuel).simple p ts hs ⟨hshape, hok⟩).fuel_ok h

theorem parseExpr_fuel_ok {fuel : Nat} (hs : Stream p ts) (hshape : TermShape ts) (hok : ∀ t ∈ ts, TokOK t)
    (h : 3 * ts.length + 2 ≤ fuel) : Gen.parser_parseExpr fuel p ≠ .error .fuel :=
  ((allSpec fuel).expr p ts hs ⟨hshape, hok⟩).fuel_ok h

theorem parseAndExpr_loop1_fuel_ok {fuel : Nat} (exprs : List PExpr) (hs : Stream p ts) (hshape : TermShape ts)
    (hok : ∀ t ∈ ts, TokOK t) (h : 3 * ts.length + 1 ≤ fuel) :
    Gen.parser_parseAndExpr_loop1 fuel p exprs ≠ .error .fuel :=
  ((allSpec fuel).andLoop p ts exprs hs ⟨hshape, hok⟩).fuel_ok h

theorem parseOrExpr_loop1_fuel_ok {fuel : Nat} (exprs : List PExpr) (hs : Stream p ts) (hshape : TermShape ts)
    (hok : ∀ t ∈ ts, TokOK t) (h : 3 * ts.length + 1 ≤ fuel) :
    Gen.parser_parseOrExpr_loop1 fuel p exprs ≠ .error .fuel :=
  ((allSpec fuel).orLoop p ts exprs hs ⟨hshape, hok⟩).fuel_ok h

theorem parseFieldList_fuel_ok {fuel : Nat} (hs : Stream p ts) (hshape : TermShape ts) (hok : ∀ t ∈ ts, TokOK t)
    (h : ts.length ≤ fuel) : Gen.parser_parseFieldList fuel p ≠ .error .fuel :=
  (parseFieldList_agreesF hs ⟨hshape, hok⟩).fuel_ok h

theorem parse_fuel_ok {fuel : Nat} (hs : Stream p ts) (hshape : TermShape ts) (hok : ∀ t ∈ ts, TokOK t)
    (h : 3 * ts.length + 2 ≤ fuel) : Gen.parser_parse fuel p ≠ .error .fuel := by
  intro heq
  have := parse_agreesR (fuel := fuel) hs ⟨hshape, hok⟩
  rw [heq] at this
  exact this h

end

/-! ### examples: the generated functions, run on concrete item lists -/

namespace ParserEx

/-- a parser in front of the given items (what `newParser` builds once the lexer has run) -/
def parserOn (items : List Gen.Item) : Gen.Parser :=
  { lexer := { Gen.Lexer.zero with items := items }, token := Gen.Parser.zero.token, peekCount := 0 }

/-- item without text -/
def it (typ : Int) : Gen.Item := { typ := typ, pos := 0, val := [] }
/-- item with text -/
def itv (typ : Int) (val : Bytes) : Gen.Item := { typ := typ, pos := 0, val := val }

/-- `a="x"` -/
def exItems1 : List Gen.Item :=
  [itv Gen.itemField [97], it Gen.itemEqual, itv Gen.itemValue [34, 120, 34], it Gen.itemEOF]

/-- `(a="x"|b=$2)&^c="y""z";a,b` -/
def exItems2 : List Gen.Item :=
  [it Gen.itemOpenParen, itv Gen.itemField [97], it Gen.itemEqual, itv Gen.itemValue [34, 120, 34], it Gen.itemOr,
   itv Gen.itemField [98], it Gen.itemEqual, itv Gen.itemPlaceholder [36, 50], it Gen.itemCloseParen, it Gen.itemAnd,
   it Gen.itemNot, itv Gen.itemField [99], it Gen.itemEqual, itv Gen.itemValue [34, 121, 34, 34, 122, 34],
   it Gen.itemSemicolon, itv Gen.itemField [97], it Gen.itemComma, itv Gen.itemField [98], it Gen.itemEOF]

/-- `a="x"&b=$2|c="y"`: `&` and `|` mixed without parentheses -/
def exItems3 : List Gen.Item :=
  [itv Gen.itemField [97], it Gen.itemEqual, itv Gen.itemValue [34, 120, 34], it Gen.itemAnd,
   itv Gen.itemField [98], it Gen.itemEqual, itv Gen.itemPlaceholder [36, 50], it Gen.itemOr,
   itv Gen.itemField [99], it Gen.itemEqual, itv Gen.itemValue [34, 121, 34], it Gen.itemEOF]

/-- `a=$0`: placeholder numbers start at 1 -/
def exItems4 : List Gen.Item :=
  [itv Gen.itemField [97], it Gen.itemEqual, itv Gen.itemPlaceholder [36, 48], it Gen.itemEOF]

mutual
/-- structural equality test on `PExpr` (which has no `DecidableEq`), for the examples -/
def peq : PExpr → PExpr → Bool
  | .eq c v n, .eq c' v' n' => c == c' && v == v' && n == n'
  | .not e, .not e' => peq e e'
  | .and es, .and es' => peqs es es'
  | .or es, .or es' => peqs es es'
  | _, _ => false
def peqs : List PExpr → List PExpr → Bool
  | [], [] => true
  | e :: es, e' :: es' => peq e e' && peqs es es'
  | _, _ => false
end

mutual
theorem peq_sound : (a b : PExpr) → peq a b = true → a = b
  | .eq c v n, .eq c' v' n', h => by
    simp only [peq, Bool.and_eq_true, beq_iff_eq] at h
    obtain ⟨⟨rfl, rfl⟩, rfl⟩ := h; rfl
  | .not e, .not e', h => by rw [peq] at h; rw [peq_sound e e' h]
  | .and es, .and es', h => by rw [peq] at h; rw [peqs_sound es es' h]
  | .or es, .or es', h => by rw [peq] at h; rw [peqs_sound es es' h]
  | .eq .., .not .., h | .eq .., .and .., h | .eq .., .or .., h
  | .not .., .eq .., h | .not .., .and .., h | .not .., .or .., h
  | .and .., .eq .., h | .and .., .not .., h | .and .., .or .., h
  | .or .., .eq .., h | .or .., .not .., h | .or .., .and .., h => by simp [peq] at h
theorem peqs_sound : (as bs : List PExpr) → peqs as bs = true → as = bs
  | [], [], _ => rfl
  | e :: es, e' :: es', h => by
    simp only [peqs, Bool.and_eq_true] at h
    rw [peq_sound e e' h.1, peqs_sound es es' h.2]
  | [], _ :: _, h | _ :: _, [], h => by simp [peqs] at h
end

/-- structural equality test on `PQuery` -/
def pqeq (a b : PQuery) : Bool := peq a.expr b.expr && a.groupBy == b.groupBy

theorem pqeq_sound (a b : PQuery) (h : pqeq a b = true) : a = b := by
  obtain ⟨e, g⟩ := a; obtain ⟨e', g'⟩ := b
  simp only [pqeq, Bool.and_eq_true, beq_iff_eq] at h
  rw [peq_sound e e' h.1, h.2]

/-- the expression a parse function answered is `e` -/
def answersExpr (res : Go.Res (Gen.Parser × PExpr)) (e : PExpr) : Bool :=
  match res with
  | .ok (_, e') => peq e' e
  | _ => false

/-- the query `parser.parse` answered is `q` -/
def answersQuery (res : Go.Res (Gen.Parser × PQuery)) (q : PQuery) : Bool :=
  match res with
  | .ok (_, q') => pqeq q' q
  | _ => false

/-- how many items a parse function left unread (buffered look-ahead included) -/
def leftOver {α : Type} (res : Go.Res (Gen.Parser × α)) : Option Nat :=
  match res with
  | .ok (p', _) => some (pending p').length
  | _ => none

/-- the kind of failure -/
def failure {α : Type} (res : Go.Res α) : Option Go.Err4 :=
  match res with
  | .ok _ => none
  | .error e => some e

example : answersExpr (Gen.parser_parseSimpleExpr 4 (parserOn exItems1)) (.eq [97] [120] 0) = true := by
  decide +kernel

example : leftOver (Gen.parser_parseSimpleExpr 4 (parserOn exItems1)) = some 1 := by decide +kernel

example : answersQuery (Gen.parser_parse 20 (parserOn exItems1)) ⟨.eq [97] [120] 0, []⟩ = true := by
  decide +kernel

example : answersQuery (Gen.parser_parse 59 (parserOn exItems2))
    ⟨.and [.or [.eq [97] [120] 0, .eq [98] [] 2], .not (.eq [99] [121, 34, 122] 0)], [[97], [98]]⟩ = true := by
  decide +kernel

/-- the and-expr stops in front of `|`; `parseExpr` answers with the and-node and leaves `|c="y"` unread -/
example : answersExpr (Gen.parser_parseExpr 40 (parserOn exItems3)) (.and [.eq [97] [120] 0, .eq [98] [] 2]) = true := by
  decide +kernel

example : leftOver (Gen.parser_parseExpr 40 (parserOn exItems3)) = some 5 := by decide +kernel

/-- … so the whole query is rejected: `p.errorf` panics, `p.recover` turns the panic into the returned error -/
example : failure (Gen.parser_parse 40 (parserOn exItems3)) = some .returned := by decide +kernel

example : failure (Gen.parser_parseSimpleExpr 10 (parserOn exItems4)) = some .panic := by decide +kernel

/-- not enough fuel (`parse_fuel_ok` asks for `3 * 19 + 2 = 59` for these 19 items; their nesting depth needs 7) -/
example : failure (Gen.parser_parse 6 (parserOn exItems2)) = some .fuel := by decide +kernel

example : failure (Gen.parser_parse 7 (parserOn exItems2)) = none := by decide +kernel



end ParserEx

#print axioms parser_peek_spec
#print axioms parser_next_spec
#print axioms parseComparison_agrees
#print axioms parseSimpleExpr_agrees
#print axioms parseExpr_agrees
#print axioms parseGroupedExpr_agrees
#print axioms parseAndExpr_loop1_agrees
#print axioms parseAndExpr_agrees
#print axioms parseOrExpr_loop1_agrees
#print axioms parseOrExpr_agrees
#print axioms parseFieldList_loop1_agrees
#print axioms parseFieldList_agrees
#print axioms parse_agrees
#print axioms parse_agrees'
#print axioms parseSimpleExpr_model
#print axioms parseExpr_model
#print axioms parseFieldList_model
#print axioms parseSimpleExpr_fuel_ok
#print axioms parseExpr_fuel_ok
#print axioms parseFieldList_fuel_ok
#print axioms parse_fuel_ok

end Updog.GeneratedEq
