/-
Equivalence of the definitions REGENERATED from the Go source (`Updog/GeneratedFns.lean`, written by
extract/translate.go on every run) with the hand-written models. If a translated Go function changes its meaning,
the generated text changes and the corresponding theorem below stops checking; if the function leaves the
translator's subset, its definition is missing and the theorem fails to elaborate.
-/
import Updog.GeneratedFns
import Updog.Proofs.GoPrelude
import Updog.Model.Create
import Updog.Model.Server

namespace Updog.GeneratedEq
open Updog.Go (allDigits)

/-! ### queryparser.go: decodeString, decodePlaceholder -/

/-- On a string lexeme `"body"` (all the lexer ever passes) the Go `decodeString` is the model's `unescape body`. -/
theorem decodeString_lexeme (body : Bytes) : Gen.decodeString (34 :: body ++ [34]) = unescape body := by
  have h1 : ¬ (Go.len (34 :: (body ++ [34])) < 2) := by
    simp only [Go.len, List.length_cons, List.length_append, List.length_nil]; omega
  simp [Gen.decodeString, h1, Go.index_zero_cons, Go.sliceFrom_one_cons, Go.index_last, Go.sliceTo_last,
    Go.replaceAll_unescape]

/-- Inputs shorter than two bytes are returned unchanged. -/
theorem decodeString_short (s : Bytes) (h : s.length < 2) : Gen.decodeString s = s := by
  have h1 : Go.len s < 2 := by simp only [Go.len]; omega
  simp [Gen.decodeString, h1]

/-- On `$` followed by decimal digits (possibly none, possibly too many) the Go `decodePlaceholder` returns the
    model's `decodePlaceholder`: the number, or 0 for "no digits" and for values above 2^31-1. -/
theorem decodePlaceholder_eq (ds : Bytes) (h : allDigits ds) :
    Gen.decodePlaceholder (36 :: ds) = (decodePlaceholder ds : Int) := by
  cases ds with
  | nil => simp [Gen.decodePlaceholder, Go.len, decodePlaceholder]
  | cons d r =>
    have h1 : ¬ (Go.len (36 :: d :: r) < 2) := by
      simp only [Go.len, List.length_cons]; omega
    simp only [Gen.decodePlaceholder, h1, decide_false, Bool.false_eq_true, if_false, Go.sliceFrom_one_cons,
      Go.parseInt32_digits d r h, decodePlaceholder, List.isEmpty_cons]
    by_cases hlt : digitsVal (d :: r) < 2147483648
    · have : ¬ digitsVal (d :: r) > 2147483647 := by omega
      simp [hlt, this]
    · have : digitsVal (d :: r) > 2147483647 := by omega
      simp [hlt, this]

/-- The first byte plays no role (Go slices it off unseen). -/
theorem decodePlaceholder_anyPrefix (c : UInt8) (ds : Bytes) :
    Gen.decodePlaceholder (c :: ds) = Gen.decodePlaceholder (36 :: ds) := rfl

example : Gen.decodeString (34 :: [97, 34, 34, 98] ++ [34]) = [97, 34, 98] := by decide

example : Gen.decodeString [34] = [34] := by decide

example : allDigits [52, 50] ∧ Gen.decodePlaceholder (36 :: [52, 50]) = 42 := by decide

example : allDigits [50, 49, 52, 55, 52, 56, 51, 54, 52, 56] ∧
    Gen.decodePlaceholder (36 :: [50, 49, 52, 55, 52, 56, 51, 54, 52, 56]) = 0 := by decide

end Updog.GeneratedEq
