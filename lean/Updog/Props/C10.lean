/-
C10 — formatting a query and parsing it back preserves its meaning; formatted text is stable.

Models: `Updog/Model/Parser.lean` (`lexAll`, `parseQuery`) and `Updog/Model/Formatter.lean`
(`fmtQuery`).  Helper developments: `Updog/Proofs/{Digits,Quote,FmtToks,ParseFmt,Norm,Stable,Meaning}.lean`.

Vocabulary (all defined in the Proofs files):
* `WFQ q` — well-formed query: every column and group-by name is an identifier (`validIdent`:
  first byte a letter, rest letters/digits/underscore), every AND/OR has at least one operand, every
  leaf is a literal (`ph = 0`, any bytes as value) or a placeholder `1 ≤ ph ≤ 2147483647`.
* `norm e` — meaning-preserving normal form: nested nodes of the same operator flattened,
  single-operand AND/OR unwrapped, the (never printed, never used) value of a placeholder leaf erased.
  `norm_sound` below shows that trees with equal normal forms are satisfied by exactly the same rows
  under every binding of the placeholders.
* `N2 e` — every AND/OR in `e` has at least two operands.
-/
import Updog.Proofs.Stable
import Updog.Proofs.Meaning
namespace Updog.C10
open Updog

/-! ### 1/2. formatted text is accepted, and parses to a query with the same meaning -/

/-- The text `QueryToString` produces for a well-formed query is accepted by `ParseQuery`. -/
theorem format_accepted (q : PQuery) (hq : WFQ q) : ∃ q', parseQuery (fmtQuery q) = some q' :=
  ⟨rpQ q, parseQuery_fmtQuery q hq⟩

/-- The parse result has the same normal form as the original expression and the same group-by list. -/
theorem roundtrip_meaning (q q' : PQuery) (hq : WFQ q) (h : parseQuery (fmtQuery q) = some q') :
    norm q'.expr = norm q.expr ∧ q'.groupBy = q.groupBy := by
  rw [parseQuery_fmtQuery q hq] at h
  cases h
  exact ⟨(norm_rp.1 q.expr).1, rfl⟩

/-- 1 and 2 in one statement. -/
theorem roundtrip (q : PQuery) (hq : WFQ q) :
    ∃ q', parseQuery (fmtQuery q) = some q' ∧ norm q'.expr = norm q.expr ∧ q'.groupBy = q.groupBy :=
  ⟨rpQ q, parseQuery_fmtQuery q hq, (norm_rp.1 q.expr).1, rfl⟩

/-- `norm` really is meaning-preserving: trees with the same normal form need the same number of
    arguments and, for every argument list and every row, are satisfied by the same rows
    (`sat` of the specification, through the server's conversion `toExpr`). -/
theorem norm_sound (e₁ e₂ : PExpr) (h : norm e₁ = norm e₂) :
    maxPh e₁ = maxPh e₂ ∧
    ∀ (args : List Bytes) (r : Row), sat r (toExpr (subst args e₁)) = sat r (toExpr (subst args e₂)) :=
  ⟨maxPh_eq_of_norm_eq h, fun args r => sem_eq_of_norm_eq args r h⟩

/-- `norm` is a normal form: normalising twice changes nothing. -/
theorem norm_idempotent (e : PExpr) : norm (norm e) = norm e := norm_idem e

/-- Semantic form of the round trip: the re-parsed query binds the same placeholders, selects the same
    rows under every binding, and groups by the same columns. -/
theorem roundtrip_semantics (q q' : PQuery) (hq : WFQ q) (h : parseQuery (fmtQuery q) = some q') :
    maxPh q'.expr = maxPh q.expr ∧ q'.groupBy = q.groupBy ∧
    ∀ (args : List Bytes) (r : Row),
      sat r (toExpr (subst args q'.expr)) = sat r (toExpr (subst args q.expr)) := by
  obtain ⟨hn, hg⟩ := roundtrip_meaning q q' hq h
  obtain ⟨hm, hs⟩ := norm_sound _ _ hn
  exact ⟨hm, hg, hs⟩

/-- The parse result is again well-formed, and all its AND/OR nodes have at least two operands. -/
theorem roundtrip_wf (q q' : PQuery) (hq : WFQ q) (h : parseQuery (fmtQuery q) = some q') :
    WFQ q' ∧ N2 q'.expr := by
  rw [parseQuery_fmtQuery q hq] at h
  cases h
  have := (rp_good.1 q.expr hq.expr).1
  exact ⟨⟨this.2, hq.fields⟩, this.1⟩

/-! ### 3. formatted text is stable from the second generation on -/

/-- Formatting a well-formed query whose AND/OR nodes all have at least two operands, parsing, and
    formatting again reproduces the text. -/
theorem format_parse_format (q q' : PQuery) (hq : WFQ q) (hn : N2 q.expr)
    (h : parseQuery (fmtQuery q) = some q') : fmtQuery q' = fmtQuery q := by
  rw [parseQuery_fmtQuery q hq] at h
  cases h
  show fmtExpr (rp q.expr) ++ _ = fmtExpr q.expr ++ _
  rw [fmtExpr_rp hq.expr hn]
  rfl

/-- Second-generation text is a fixed point of parse-then-format. -/
theorem format_stable (q q' q'' : PQuery) (hq : WFQ q) (h : parseQuery (fmtQuery q) = some q')
    (h' : parseQuery (fmtQuery q') = some q'') : fmtQuery q'' = fmtQuery q' := by
  obtain ⟨hw, hn⟩ := roundtrip_wf q q' hq h
  exact format_parse_format q' q'' hw hn h'

/-- … and the second parse always succeeds. -/
theorem format_fixpoint (q q' : PQuery) (hq : WFQ q) (h : parseQuery (fmtQuery q) = some q') :
    ∃ q'', parseQuery (fmtQuery q') = some q'' ∧ fmtQuery q'' = fmtQuery q' := by
  obtain ⟨hw, _⟩ := roundtrip_wf q q' hq h
  obtain ⟨q'', h'⟩ := format_accepted q' hw
  exact ⟨q'', h', format_stable q q' q'' hq h h'⟩

/-! ### 4. quoting -/

/-- `decodeString` undoes the quote doubling of `formatString`. -/
theorem quote_roundtrip (v : Bytes) : unescape (escape v) = v := unescape_escape v

/-- `quoteValue v` is the escaped body between two quotes. -/
theorem quoteValue_body (v : Bytes) : quoteValue v = 34 :: escape v ++ [34] := rfl

/-- The lexer reads a quoted value (any bytes: quotes, newlines, non-ASCII, empty) followed by
    anything but another quote back as exactly one `value` token carrying the escaped body. -/
theorem lex_quoted_value (v rest : Bytes) (hrest : ∀ r, rest ≠ 34 :: r) :
    lexAll (quoteValue v ++ rest) = .value (escape v) :: lexAll rest :=
  lexAll_value v rest hrest

/-! ### 5. placeholders -/

/-- `natDigits n` is a non-empty string of ASCII digits … -/
theorem natDigits_digits (n : Nat) : natDigits n ≠ [] ∧ ∀ b ∈ natDigits n, isDigit b = true :=
  ⟨natDigits_ne_nil n, natDigits_all_digit n⟩

/-- … whose value is `n` … -/
theorem natDigits_value (n : Nat) : digitsVal (natDigits n) = n := digitsVal_natDigits n

/-- … so an int32 placeholder number survives `%d` and `decodePlaceholder`. -/
theorem placeholder_roundtrip (n : Nat) (h : n ≤ 2147483647) : decodePlaceholder (natDigits n) = n :=
  decodePlaceholder_natDigits h

/-- The lexer reads `$n` followed by a non-digit back as one `placeholder` token. -/
theorem lex_placeholder (n : Nat) (rest : Bytes) (hr : ∀ x r, rest = x :: r → isDigit x = false) :
    lexAll (36 :: natDigits n ++ rest) = .placeholder (natDigits n) :: lexAll rest :=
  lexAll_placeholder _ _ (List.all_eq_true.mpr (natDigits_all_digit n)) hr

/-- The lexer reads a valid identifier followed by a non-identifier byte back as one `field` token. -/
theorem lex_field (c rest : Bytes) (hc : validIdent c = true)
    (hr : ∀ x r, rest = x :: r → isFieldChar x = false) : lexAll (c ++ rest) = .field c :: lexAll rest :=
  lexAll_identField c rest hc hr

/-- The tokens of the formatted text of a well-formed query. -/
theorem lex_formatted (q : PQuery) (hq : WFQ q) : lexAll (fmtQuery q) = toksQ q ++ [.eof] :=
  lexAll_fmtQuery q hq

/-! ### 6. non-vacuity -/

/-- `( a = "x""y" | ^ ( b = "" ) ) & c = $3 ; g, h1` with redundant structure: a single-operand AND
    under NOT, and a placeholder leaf that carries a (never printed) value. -/
def exQ : PQuery :=
  ⟨.and [.or [.eq [97] [120, 34, 121] 0, .not (.and [.eq [98] [] 0])], .eq [99] [1, 2] 3],
   [[103], [104, 49]]⟩

/-- what the parser returns for the text of `exQ` -/
def exQ' : PQuery :=
  ⟨.and [.or [.eq [97] [120, 34, 121] 0, .not (.eq [98] [] 0)], .eq [99] [] 3], [[103], [104, 49]]⟩

theorem natDigits_three : natDigits 3 = [51] := by rw [natDigits_eq]; decide

theorem exQ_wf : WFQ exQ := by
  constructor
  · simp [exQ, WFE, WFL, validIdent, isAlpha]
  · decide

/-- the formatted text, byte for byte: `( a = "x""y" | ^ ( b = "" ) ) & c = $3 ; g, h1` -/
theorem exQ_text : fmtQuery exQ =
    [40, 32, 97, 32, 61, 32, 34, 120, 34, 34, 121, 34, 32, 124, 32, 94, 32, 40, 32, 98, 32, 61, 32, 34, 34,
     32, 41, 32, 41, 32, 38, 32, 99, 32, 61, 32, 36, 51, 32, 59, 32, 103, 44, 32, 104, 49] := by
  simp [exQ, fmtQuery, fmtExpr, fmtAnd, fmtOr, parens, isAnd, isOr, quoteValue, joinFields, natDigits_three]

/-- its parse result (the quote inside the value and the group-by list survive; the single-operand
    AND and the unused value `[1, 2]` of the placeholder leaf do not) -/
theorem exQ_parse : parseQuery (fmtQuery exQ) = some exQ' := by
  rw [parseQuery_fmtQuery exQ exQ_wf]
  simp [rpQ, exQ, exQ', rp, rpCh, rpItem, mk1, rpLeaf, mkOp]

/-- the same, stated on the literal text -/
example : parseQuery
    [40, 32, 97, 32, 61, 32, 34, 120, 34, 34, 121, 34, 32, 124, 32, 94, 32, 40, 32, 98, 32, 61, 32, 34, 34,
     32, 41, 32, 41, 32, 38, 32, 99, 32, 61, 32, 36, 51, 32, 59, 32, 103, 44, 32, 104, 49] = some exQ' := by
  rw [← exQ_text]; exact exQ_parse

/-- hypotheses of `roundtrip_meaning`, `roundtrip_semantics`, `roundtrip_wf`, `format_fixpoint` are
    satisfiable, and the exact tree is *not* preserved (only its normal form is) -/
example : WFQ exQ ∧ parseQuery (fmtQuery exQ) = some exQ' ∧ exQ'.expr ≠ exQ.expr ∧
    norm exQ'.expr = norm exQ.expr :=
  ⟨exQ_wf, exQ_parse, by simp [exQ, exQ'], (roundtrip_meaning _ _ exQ_wf exQ_parse).1⟩

/-- first-generation text need not be stable: `^ ( b = "" )` re-formats as `^ b = ""`;
    this is why `format_stable` speaks about the second generation -/
example : fmtQuery exQ' ≠ fmtQuery exQ := by
  rw [exQ_text]
  simp [exQ', fmtQuery, fmtExpr, fmtAnd, fmtOr, parens, isAnd, isOr, quoteValue, joinFields, natDigits_three]

/-- hypotheses of `format_stable` are satisfiable: `exQ'` is the second generation and a fixed point -/
example : parseQuery (fmtQuery exQ') = some exQ' := by
  rw [parseQuery_fmtQuery exQ' (roundtrip_wf _ _ exQ_wf exQ_parse).1]
  simp [rpQ, exQ', rp, rpCh, rpItem, mk1, rpLeaf, mkOp]

/-- hypotheses of `format_parse_format` are satisfiable -/
example : WFQ exQ' ∧ N2 exQ'.expr := roundtrip_wf _ _ exQ_wf exQ_parse

/-- quoting: `x"y` ↦ `"x""y"`, and back -/
example : quoteValue [120, 34, 121] = [34, 120, 34, 34, 121, 34] ∧
    unescape (escape [120, 34, 121]) = [120, 34, 121] := ⟨by decide, quote_roundtrip _⟩

/-- placeholders: the largest int32 -/
example : decodePlaceholder (natDigits 2147483647) = 2147483647 := placeholder_roundtrip _ (by decide)

/-! ### the well-formedness hypothesis is necessary -/

/-- A column name that is not an identifier is printed verbatim (the formatter neither validates nor
    escapes it): the one-leaf query with column `a = "1" | b` and value `2` prints as
    `a = "1" | b = "2"`, which parses — to a different query. -/
example : ∃ q q', ¬ WFQ q ∧ parseQuery (fmtQuery q) = some q' ∧ norm q'.expr ≠ norm q.expr := by
  refine ⟨⟨.eq [97, 32, 61, 32, 34, 49, 34, 32, 124, 32, 98] [50] 0, []⟩,
    ⟨.or [.eq [97] [49] 0, .eq [98] [50] 0], []⟩, ?_, ?_, ?_⟩
  · intro h; have := h.expr.1; simp [validIdent, isAlpha, isFieldChar, isDigit] at this
  · have hw : WFQ ⟨.or [.eq [97] [49] 0, .eq [98] [50] 0], []⟩ :=
      ⟨by simp [WFE, WFL, validIdent, isAlpha], by simp⟩
    have ht : fmtQuery ⟨.eq [97, 32, 61, 32, 34, 49, 34, 32, 124, 32, 98] [50] 0, []⟩ =
        fmtQuery ⟨.or [.eq [97] [49] 0, .eq [98] [50] 0], []⟩ := by
      simp [fmtQuery, fmtExpr, fmtOr, parens, isAnd, quoteValue]
    rw [ht, parseQuery_fmtQuery _ hw]
    simp [rpQ, rp, rpCh, rpItem, mk1, rpLeaf, mkOp]
  · simp [norm, normCh, spliceOp, mk1, rpLeaf, mkOp]

/-- An AND without operands prints as the empty text, which is rejected. -/
example : parseQuery (fmtQuery ⟨.and [], []⟩) = none := by
  have : fmtQuery ⟨.and [], []⟩ = [] := by simp [fmtQuery, fmtExpr, fmtAnd]
  rw [this, parseQuery, lexAll_nil]
  rfl

end Updog.C10
