/-
The oracle's answer, as the driver computes it (hash-map built index `Oracle.FastW`, fast evaluation
`executeFast`, the real `xxhash64`), equals the SQL specification — one statement composing
`OracleFastW.fastW_toIndex_eq_model`, `OracleFast.executeFast_eq` and `C02.groupBy_eq_spec`.
So a disagreement between implementation and oracle on a collision-free input is a disagreement with
the specification of C01/C02 itself, not with an artefact of the oracle's data structures.
-/
import Updog.Props.OracleFastW
import Updog.Props.EndToEnd
namespace Updog.OracleSound
open Updog

/-- what the oracle's `q` request answers for the rows sent so far = `specExecute` -/
theorem oracle_answer_eq_sql (rows : List Row) (q : Query)
    (hD : DataNoCollision xxhash64 rows) (ok : EndToEnd.QueryOK xxhash64 rows q) :
    executeFast xxhash64 (rows.foldl Oracle.FastW.addRow {}).toIndex q = specExecute rows q := by
  rw [OracleFastW.fastW_toIndex_eq_model, OracleFast.executeFast_eq]
  obtain ⟨e, cols⟩ := q
  exact C02.groupBy_eq_spec xxhash64 rows e cols ok.cols ok.wf ok.inj hD ok.gb

/-- the oracle's row counter and schema are the model's (hence, by C05, the written file's) -/
theorem oracle_next_eq (rows : List Row) :
    (rows.foldl Oracle.FastW.addRow {}).toIndex.next = (Writer.addRows xxhash64 {} rows).next := by
  rw [OracleFastW.fastW_toIndex_eq_model]; rfl

end Updog.OracleSound
