/-
C11 (parsed text) — closes two gaps of `C11Compose`:

1. `prepared_equals_oneshot` / `prepared_equals_oneshot_rows` assume `WFQ q`. Here: EVERY query the parser returns
   for a text is well-formed (`parsed_wf`), so the hypothesis disappears for statements prepared from text.
2. The error side. Statement execution is `stmtQuery` / `queryText` of `Model/Stmt.lean` (`fileStmt.query`,
   `fileConn.QueryContext`), which also report the queries handed to `Index.Execute`.
   * On EVERY index (any schema, any bitmaps, consistent or not) the prepared execution with arguments and the
     one-shot execution of the literal text have the same outcome: the same rows or both an error
     (`prepared_equals_oneshot_exec`).
   * If the query names a column the index does not have — in the expression or in the group-by list — both fail
     (`unknown_column_both_fail`).
   * With fewer arguments than the highest placeholder number the statement fails before anything is executed
     (`too_few_args_fails_before_execution`).
Helper lemmas: `Proofs/C11Parsed.lean`, `Proofs/C11Exec.lean`.
-/
import Updog.Props.C11Compose
import Updog.Proofs.C11Exec
namespace Updog.C11
open Updog

/-! ### 1. parsed text is well-formed -/

/-- **Every query `ParseQuery` returns is well-formed**: column and group-by names are identifiers (the lexer
emits nothing else as a `field` item), every AND/OR has an operand, every placeholder number is in `1..2^31-1`. -/
theorem parsed_wf (s : Bytes) (q : PQuery) (hp : parseQuery s = some q) : WFQ q := parseQuery_wf hp

/-- `prepared_equals_oneshot` for every accepted query TEXT: no well-formedness hypothesis. -/
theorem prepared_equals_oneshot_text (s : Bytes) (q : PQuery) (hp : parseQuery s = some q) (args : List Bytes)
    (hargs : maxPh q.expr ≤ args.length) :
    let b := bound q args
    bind q args = .ok b ∧ WFQ b ∧ maxPh b.expr = 0 ∧ (∀ a, subst a b.expr = b.expr) ∧
    ∃ q', parseQuery (fmtQuery b) = some q' ∧ q'.groupBy = q.groupBy ∧ maxPh q'.expr = 0 ∧
      ∀ r : Row, sat r (toExpr q'.expr) = sat r (toExpr b.expr) :=
  prepared_equals_oneshot q (parsed_wf s q hp) args hargs

/-- `prepared_equals_oneshot_rows` for every accepted query text. -/
theorem prepared_equals_oneshot_rows_text (s : Bytes) (q q' : PQuery) (hp : parseQuery s = some q)
    (args : List Bytes) (hp' : parseQuery (fmtQuery (bound q args)) = some q') (rows : List Row) :
    rows.filter (sat · (toExpr q'.expr)) = rows.filter (sat · (toExpr (subst args q.expr))) ∧
    specCount rows (toExpr q'.expr) = specCount rows (toExpr (subst args q.expr)) ∧
    (toQuery q').groupBy = q.groupBy :=
  prepared_equals_oneshot_rows q q' (parsed_wf s q hp) args hp' rows

/-- the one-shot text of a statement prepared from text is always accepted (no hypothesis on the arguments'
    bytes, none on the statement beyond having been parsed) -/
theorem oneshot_text_accepted (s : Bytes) (q : PQuery) (hp : parseQuery s = some q) (args : List Bytes) :
    ∃ q', parseQuery (fmtQuery (bound q args)) = some q' :=
  C10.format_accepted _ ⟨subst_wf args q.expr (parsed_wf s q hp).expr, (parsed_wf s q hp).fields⟩

/-! ### 2. execution: same outcome on every index -/

section
variable (H : Bytes → UInt64) (ix : Index)

/-- On every index, `Execute` of the parsed one-shot text returns what `Execute` of the bound statement returns —
    the same count and groups, or both an error. -/
theorem execute_oneshot_eq (q : PQuery) (hq : WFQ q) (args : List Bytes) :
    ∃ q', parseQuery (fmtQuery (bound q args)) = some q' ∧ maxPh q'.expr = 0 ∧ q'.groupBy = q.groupBy ∧
      execute H ix (toQuery q') = execute H ix (toQuery (bound q args)) := by
  have hb : WFQ (bound q args) := ⟨subst_wf args q.expr hq.expr, hq.fields⟩
  have h0 : maxPh (bound q args).expr = 0 := subst_no_placeholder args q.expr
  have hn : norm (rp (bound q args).expr) = norm (bound q args).expr := (norm_rp.1 _).1
  have h0' : maxPh (rp (bound q args).expr) = 0 := (maxPh_eq_of_norm_eq hn).trans h0
  refine ⟨rpQ (bound q args), parseQuery_fmtQuery _ hb, h0', rfl, ?_⟩
  have hw' : WFE (rp (bound q args).expr) := ((rp_good.1 _ hb.expr).1).2
  have he := evs_eq_of_norm_eq H ix [] (NE_of_WFE.1 _ hw') (NE_of_WFE.1 _ hb.expr) hn
  simp only [evs, toExpr_subst_of_no_placeholder [] _ h0', toExpr_subst_of_no_placeholder [] _ h0] at he
  simp only [execute, toQuery, rpQ, he]

/-- **Prepared = one-shot, at the level of the driver, on every index.** A statement prepared from any accepted
text and executed with at least as many arguments as its highest placeholder has the same outcome — the same
result rows or an error — as `QueryContext` on the literal text (with no arguments, or any surplus arguments).
Each of the two runs hands exactly one query to `Index.Execute`. -/
theorem prepared_equals_oneshot_exec (s : Bytes) (q : PQuery) (hp : parseQuery s = some q) (args : List Bytes)
    (hargs : maxPh q.expr ≤ args.length) (extra : List Bytes) :
    (stmtQuery H ix q args).1 = (queryText H ix (fmtQuery (bound q args)) extra).1 ∧
    (stmtQuery H ix q args).2.length = 1 ∧ (queryText H ix (fmtQuery (bound q args)) extra).2.length = 1 := by
  obtain ⟨q', hp', h0, hg, he⟩ := execute_oneshot_eq H ix q (parsed_wf s q hp) args
  have hb' : bind q' extra = .ok q' := by
    rw [bind_exact q' extra (by omega), subst_of_no_placeholder extra q'.expr h0]
  have hbq : bind q args = .ok (bound q args) := bind_exact q args hargs
  simp only [stmtQuery, queryText, hp', hbq, hb', he]
  cases execute H ix (toQuery (bound q args)) with
  | none => exact ⟨rfl, rfl, rfl⟩
  | some r => exact ⟨by simp only [hg]; rfl, rfl, rfl⟩

/-! ### 3. the error side -/

/-- **Unknown column: both fail.** If the statement tests or groups by a column the index's schema does not have,
the prepared execution (with enough arguments) and the one-shot execution of the literal text both return an
error — the same outcome, and neither is a panic. -/
theorem unknown_column_both_fail (s : Bytes) (q : PQuery) (hp : parseQuery s = some q) (args : List Bytes)
    (hargs : maxPh q.expr ≤ args.length) (c : Bytes)
    (hc : c ∈ (toExpr q.expr).columns ∨ c ∈ q.groupBy) (hno : ix.schema.col c = none) (extra : List Bytes) :
    (stmtQuery H ix q args).1 = .error ∧ (queryText H ix (fmtQuery (bound q args)) extra).1 = .error := by
  have h1 : (stmtQuery H ix q args).1 = .error := by
    have : execute H ix (toQuery (bound q args)) = none := by
      apply execute_unknown_col H ix _ c _ hno
      simpa [toQuery, bound, columns_subst] using hc
    have hbq : bind q args = .ok (bound q args) := bind_exact q args hargs
    simp only [stmtQuery, hbq, this]
  exact ⟨h1, by rw [← (prepared_equals_oneshot_exec H ix s q hp args hargs extra).1, h1]⟩

/-- **Too few arguments: an error before any execution.** With fewer arguments than the highest placeholder
number `fileStmt.query` returns an error and hands NOTHING to `Index.Execute`, whatever the index. -/
theorem too_few_args_fails_before_execution (q : PQuery) (args : List Bytes) (h : args.length < maxPh q.expr) :
    stmtQuery H ix q args = (.error, []) := by
  simp [stmtQuery, bind_too_few q args h]

/-- the same through `QueryContext` on a text; a rejected text fails before any execution as well -/
theorem too_few_args_text (s : Bytes) (args : List Bytes) :
    (parseQuery s = none → queryText H ix s args = (.error, [])) ∧
    (∀ q, parseQuery s = some q → args.length < maxPh q.expr → queryText H ix s args = (.error, [])) := by
  refine ⟨fun h => by simp [queryText, h], fun q hp h => ?_⟩
  simp [queryText, hp, too_few_args_fails_before_execution H ix q args h]

/-- conversely: whenever a query reached `Index.Execute`, the arguments covered every placeholder, the executed
    query is the bound one and no placeholder is left in it -/
theorem executed_is_bound (q : PQuery) (args : List Bytes) (x : Query) (hx : x ∈ (stmtQuery H ix q args).2) :
    maxPh q.expr ≤ args.length ∧ x = toQuery (bound q args) ∧ maxPh (bound q args).expr = 0 := by
  rcases Nat.lt_or_ge args.length (maxPh q.expr) with h | h
  · rw [too_few_args_fails_before_execution H ix q args h] at hx; cases hx
  · refine ⟨h, ?_, subst_no_placeholder args q.expr⟩
    simp only [stmtQuery, bind_exact q args h] at hx
    cases he : execute H ix (toQuery ⟨subst args q.expr, q.groupBy⟩) with
    | none => rw [he] at hx; simpa [bound] using hx
    | some r => rw [he] at hx; simpa [bound] using hx

/-- statement execution never panics and never hangs -/
theorem stmtQuery_never_panics (q : PQuery) (args : List Bytes) :
    (stmtQuery H ix q args).1 ≠ .panic ∧ (stmtQuery H ix q args).1 ≠ .hang := by
  rcases Nat.lt_or_ge args.length (maxPh q.expr) with h | h
  · rw [too_few_args_fails_before_execution H ix q args h]; simp
  · simp only [stmtQuery, bind_exact q args h]
    cases execute H ix (toQuery ⟨subst args q.expr, q.groupBy⟩) <;> simp

end

/-! ### non-vacuity -/

/-- the statement text `a = $2 & ^ ( b = "x" | c = $1 ) ; g` -/
def exText : Bytes := fmtQuery exStmt

example : exText = [97, 32, 61, 32, 36, 50, 32, 38, 32, 94, 32, 40, 32, 98, 32, 61, 32, 34, 120, 34, 32, 124, 32,
    99, 32, 61, 32, 36, 49, 32, 41, 32, 59, 32, 103] := by
  have h1 : natDigits 1 = [49] := by rw [natDigits_eq]; decide
  have h2 : natDigits 2 = [50] := by rw [natDigits_eq]; decide
  simp [exText, exStmt, fmtQuery, fmtExpr, fmtAnd, fmtOr, parens, isAnd, isOr, quoteValue, joinFields, h1, h2]

/-- the parser accepts it and returns `exStmt` -/
theorem exText_parses : parseQuery exText = some exStmt := by
  rw [exText, parseQuery_fmtQuery exStmt exStmt_ok.1]
  simp [rpQ, exStmt, rp, rpCh, rpItem, rpLeaf, mk1, mkOp]

/-- hypotheses of `prepared_equals_oneshot_text` for the concrete text and arguments (a quote, a newline, a
    non-ASCII byte; the empty value) -/
example : ∃ q', parseQuery (fmtQuery (bound exStmt exArgs)) = some q' ∧ q'.groupBy = [[103]] ∧
    maxPh q'.expr = 0 ∧ ∀ r : Row, sat r (toExpr q'.expr) = sat r (toExpr (bound exStmt exArgs).expr) :=
  (prepared_equals_oneshot_text exText exStmt exText_parses exArgs (by decide)).2.2.2.2

/-- a toy value index: the length of the encoded pair -/
def exH (b : Bytes) : UInt64 := b.length.toUInt64

/-- an index with the columns `a`, `b`, `c`, `g` (three rows) -/
def exIx : Index :=
  { schema := [([97], [([], 2)]), ([98], [([120], 3)]), ([99], [([34, 10, 200], 5)]), ([103], [([49], 3)])],
    next := 3, getCol := fun h => if h == 2 then some 0b011 else if h == 3 then some 0b110 else if h == 5 then some 0b100 else none }

/-- the same index without column `c` -/
def exIxNoC : Index := { exIx with schema := [([97], [([], 2)]), ([98], [([120], 3)]), ([103], [([49], 3)])] }

/-- success: prepared and one-shot return the same single group -/
example : (stmtQuery exH exIx exStmt exArgs).1 = (queryText exH exIx (fmtQuery (bound exStmt exArgs)) []).1 :=
  (prepared_equals_oneshot_exec exH exIx exText exStmt exText_parses exArgs (by decide) []).1

/-- … and it is a result, not an error: on `exIx` both runs succeed -/
example : ∃ r, execute exH exIx (toQuery (bound exStmt exArgs)) = some r ∧
    (stmtQuery exH exIx exStmt exArgs).1 = .ok (newRows r [[103]]) ∧
    (queryText exH exIx (fmtQuery (bound exStmt exArgs)) []).1 = .ok (newRows r [[103]]) := by
  have hb : bind exStmt exArgs = .ok (bound exStmt exArgs) := bind_exact _ _ (by decide)
  have hx : (execute exH exIx (toQuery (bound exStmt exArgs))).isSome = true := by
    simp [execute, toQuery, bound, exStmt, exArgs, subst, substList, toExpr, toExprs, eval, evalList,
      populateGroupBy, exIx, Schema.col]
  obtain ⟨r, hr⟩ := Option.isSome_iff_exists.mp hx
  have h1 : (stmtQuery exH exIx exStmt exArgs).1 = .ok (newRows r [[103]]) := by
    simp only [stmtQuery, hb, hr]; rfl
  exact ⟨r, hr, h1, by
    rw [← (prepared_equals_oneshot_exec exH exIx exText exStmt exText_parses exArgs (by decide) []).1, h1]⟩

/-- error: the index has no column `c` (named by the placeholder leaf `c = $1`): both fail -/
example : (stmtQuery exH exIxNoC exStmt exArgs).1 = .error ∧
    (queryText exH exIxNoC (fmtQuery (bound exStmt exArgs)) []).1 = .error :=
  unknown_column_both_fail exH exIxNoC exText exStmt exText_parses exArgs (by decide) [99]
    (.inl (by decide)) (by decide) []

/-- error: one argument for a statement whose highest placeholder is `$2`: nothing is executed -/
example : queryText exH exIx exText [[49]] = (.error, []) :=
  (too_few_args_text exH exIx exText [[49]]).2 exStmt exText_parses (by decide)

end Updog.C11
