/-
C12 (composition) — what database/sql delivers for a grouped query is exactly the SQL answer
`SELECT cols, COUNT(*) … WHERE e GROUP BY cols HAVING COUNT(*) > 0 ORDER BY cols`, one row per group:
the group's values as TEXT cells in group-by order followed by the count as a BIGINT cell.
Composition of `C02.execute_eq_some` (library = specification) with `C12.rows_grouped` / `C12.columns_spec`
(driver = library).
-/
import Updog.Props.C02
import Updog.Props.C12
import Updog.Props.C01Writers
namespace Updog.C12
open Updog

/-- the driver row of one group: its values in group-by order as TEXT, then the count as BIGINT -/
def groupRow (g : Fields × Nat) : List Cell := g.1.map (fun cv => Cell.text cv.2) ++ [Cell.int g.2]

section
variable (H : Bytes → UInt64) (rows : List Row) (e : Expr) (cols : List Bytes)
  (hcols : ∀ c ∈ e.columns, c ∈ columnsOf rows) (hwf : e.arityPos = true)
  (hinj : NoCollision H rows e.pairs) (hD : DataNoCollision H rows)
  (hg : ∀ c ∈ cols, c ∈ columnsOf rows) (hne : cols ≠ [])
include hcols hwf hinj hD hg hne

/-- **Rows.** Under the hypotheses of `C02.groupBy_eq_spec` and with at least one group-by column, the query
succeeds and the rows database/sql delivers are the specification's groups (`specGroups`: SQL GROUP BY with
COUNT(*) > 0, ordered by the group-by columns), one row per group, in that order. -/
theorem driver_rows_eq_sql :
    ∃ groups, specGroups rows e cols = some groups ∧
      (execute H (Writer.addRows H {} rows).toIndex ⟨e, cols⟩).map (fun r => (newRows r cols).rows)
        = some (groups.map fun g => g.1.map (fun cv => Cell.text cv.2) ++ [Cell.int g.2]) := by
  obtain ⟨groups, hsg, hex⟩ := C02.execute_eq_some H rows e cols hcols hwf hinj hD hg
  refine ⟨groups, hsg, ?_⟩
  rw [hex, Option.map_some, rows_grouped _ cols hne]

omit hne in
/-- **Header.** … and the column names and types are the group-by columns (TEXT each) followed by
`count` (BIGINT) (this part also holds without a group-by clause). -/
theorem driver_header_eq_sql :
    (execute H (Writer.addRows H {} rows).toIndex ⟨e, cols⟩).map
        (fun r => ((newRows r cols).cols, (newRows r cols).types))
      = some (cols ++ [countCol], List.replicate cols.length "TEXT" ++ ["BIGINT"]) := by
  obtain ⟨groups, _, hex⟩ := C02.execute_eq_some H rows e cols hcols hwf hinj hD hg
  rw [hex, Option.map_some, (columns_spec _ cols).1, (columns_spec _ cols).2.1]

/-- Rows and header in one statement: the whole `driver.Rows` value. -/
theorem driver_result_eq_sql :
    ∃ groups, specGroups rows e cols = some groups ∧
      (execute H (Writer.addRows H {} rows).toIndex ⟨e, cols⟩).map (fun r => newRows r cols)
        = some ⟨cols ++ [countCol], List.replicate cols.length "TEXT" ++ ["BIGINT"], groups.map groupRow⟩ := by
  obtain ⟨groups, hsg, hex⟩ := C02.execute_eq_some H rows e cols hcols hwf hinj hD hg
  refine ⟨groups, hsg, ?_⟩
  rw [hex, Option.map_some]
  have h1 := rows_grouped ⟨specCount rows e, groups⟩ cols hne
  have h2 := columns_spec ⟨specCount rows e, groups⟩ cols
  generalize newRows ⟨specCount rows e, groups⟩ cols = R at h1 h2
  obtain ⟨c, t, r⟩ := R
  simp only at h1 h2
  rw [h1, h2.1, h2.2.1]
  rfl

/-- The delivered rows written out without `specGroups`: one row for every value combination `t` of the listed
columns (lexicographic, first column most significant) whose count among the rows satisfying `e` is not 0. -/
theorem driver_rows_explicit :
    (execute H (Writer.addRows H {} rows).toIndex ⟨e, cols⟩).map (fun r => (newRows r cols).rows)
      = some ((product (cols.map fun c => (c, sortedDistinct rows c))).filterMap fun t =>
          if groupCount rows e t = 0 then none
          else some (t.map (fun cv => Cell.text cv.2) ++ [Cell.int (groupCount rows e t)])) := by
  obtain ⟨groups, hsg, hrows⟩ := driver_rows_eq_sql H rows e cols hcols hwf hinj hD hg hne
  rw [hrows]
  rw [C02.specGroups_eq rows e cols hg] at hsg
  have he : cols.isEmpty = false := by
    cases cols with
    | nil => exact absurd rfl hne
    | cons _ _ => rfl
  simp only [he, Bool.false_eq_true, if_false, Option.some.injEq] at hsg
  rw [← hsg, List.map_filterMap]
  congr 2
  funext t
  by_cases hz : groupCount rows e t = 0 <;> simp [hz]

/-- every delivered row has one cell per column of the header -/
theorem driver_row_widths :
    ∀ res, execute H (Writer.addRows H {} rows).toIndex ⟨e, cols⟩ = some res →
      ∀ r ∈ (newRows res cols).rows, r.length = (newRows res cols).cols.length := by
  intro res hres
  apply row_widths res cols hne
  intro g hgm
  have := C02.groups_columns H rows e cols hcols hwf hinj hD hg hne res hres g hgm
  rw [← this, List.length_map]

/-- the same rows come out of the index written by the big writer -/
theorem driver_rows_eq_sql_big (hlen : rows.length ≤ 2 ^ 32) :
    ∃ groups, specGroups rows e cols = some groups ∧
      (execute H (C05.bigIndex H rows) ⟨e, cols⟩).map (fun r => (newRows r cols).rows)
        = some (groups.map fun g => g.1.map (fun cv => Cell.text cv.2) ++ [Cell.int g.2]) := by
  rw [C01.same_answer_both_writers H rows hlen]
  exact driver_rows_eq_sql H rows e cols hcols hwf hinj hD hg hne

end

/-! ### non-vacuity: the dataset, expression and (repeated-column) group-by list of `C02` -/

example : (∀ c ∈ C02.exExpr.columns, c ∈ columnsOf C02.exRows) ∧ C02.exExpr.arityPos = true ∧
    NoCollision C01.toyH C02.exRows C02.exExpr.pairs ∧ DataNoCollision C01.toyH C02.exRows ∧
    (∀ c ∈ C02.exCols, c ∈ columnsOf C02.exRows) ∧ C02.exCols ≠ [] :=
  ⟨by decide, by decide, by unfold NoCollision; decide, by unfold DataNoCollision; decide, by decide, by decide⟩

/-- the concrete rows: `a, b, a, count` = `1,1,1,1` and `2,1,2,1` -/
example : (execute C01.toyH (Writer.addRows C01.toyH {} C02.exRows).toIndex ⟨C02.exExpr, C02.exCols⟩).map
      (fun r => (newRows r C02.exCols).rows)
    = some [[Cell.text [49], Cell.text [49], Cell.text [49], Cell.int 1],
            [Cell.text [50], Cell.text [49], Cell.text [50], Cell.int 1]] := by
  rw [C02.ex_execute]; decide

end Updog.C12
