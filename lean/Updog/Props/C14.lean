/-
C14 — no request can crash the server.
-/
import Updog.Model.Server
namespace Updog.C14
open Updog
variable (H : Bytes → UInt64)

/-- a single query of a request, however incomplete its tree, is answered with a result or an error -/
theorem serverExecute_never_panics (ix : Index) (q : WQuery) :
    serverExecute H ix q ≠ .panic ∧ serverExecute H ix q ≠ .hang := by
  unfold serverExecute
  cases q.expr with
  | none => simp
  | some w =>
    cases hw : w.complete with
    | none => simp [hw]
    | some e => cases he : execute H ix ⟨e, q.groupBy⟩ <;> simp [hw, he]

/-- every decodable request is answered with a response or an RPC error; the handler never panics -/
theorem server_never_panics (ix : Index) (qs : List WQuery) (pos : Nat) :
    serverQuery H ix qs pos ≠ .panic ∧ serverQuery H ix qs pos ≠ .hang := by
  induction qs generalizing pos with
  | nil => simp [serverQuery]
  | cons q rest ih =>
    have hq := serverExecute_never_panics H ix q
    have hr := ih (pos + 1)
    simp only [serverQuery]
    cases h1 : serverExecute H ix q with
    | ok r =>
      cases h2 : serverQuery H ix rest (pos + 1) with
      | ok rs => simp
      | error => simp
      | panic => exact absurd h2 hr.1
      | hang => exact absurd h2 hr.2
    | error => simp
    | panic => exact absurd h1 hq.1
    | hang => exact absurd h1 hq.2

mutual
/-- embedding of complete trees -/
def ofExpr : Expr → WExpr
  | .eq c v => .eq c v
  | .not e => .not (some (ofExpr e))
  | .and es => .and (ofExprs es)
  | .or es => .or (ofExprs es)
def ofExprs : List Expr → List WExpr
  | [] => []
  | e :: es => ofExpr e :: ofExprs es
end

mutual
theorem complete_ofExpr (e : Expr) : (ofExpr e).complete = some e := by
  match e with
  | .eq c v => simp [ofExpr, WExpr.complete]
  | .not e' => simp [ofExpr, WExpr.complete, complete_ofExpr e']
  | .and es => simp [ofExpr, WExpr.complete, completeList_ofExprs es]
  | .or es => simp [ofExpr, WExpr.complete, completeList_ofExprs es]
theorem completeList_ofExprs (es : List Expr) : WExpr.completeList (ofExprs es) = some es := by
  match es with
  | [] => simp [ofExprs, WExpr.completeList]
  | e :: es' => simp [ofExprs, WExpr.completeList, complete_ofExpr e, completeList_ofExprs es']
end

/-- the server keeps answering well-formed requests correctly: a complete tree gets exactly the library's answer,
    independently of anything sent before (the handler has no state besides the result cache, see C03) -/
theorem wellformed_answered_like_library (ix : Index) (id : Int) (e : Expr) (gb : List Bytes) :
    serverExecute H ix ⟨id, some (ofExpr e), gb⟩ =
      match execute H ix ⟨e, gb⟩ with
      | some r => .ok r
      | none => .error := by
  simp only [serverExecute, complete_ofExpr]
  cases execute H ix ⟨e, gb⟩ <;> rfl

/-- the structural omissions are errors -/
example (ix : Index) : serverExecute H ix ⟨0, none, []⟩ = .error := rfl
example (ix : Index) : serverExecute H ix ⟨0, some .unset, []⟩ = .error := rfl
example (ix : Index) : serverExecute H ix ⟨0, some (.not none), []⟩ = .error := rfl
example (ix : Index) : serverExecute H ix ⟨0, some (.and [.eq [97] [49], .unset]), []⟩ = .error := by
  simp [serverExecute, WExpr.complete, WExpr.completeList]

end Updog.C14
