/-
C13 — the gRPC service answers each query of a batch like the library, in order.
-/
import Updog.Model.Server
namespace Updog.C13
open Updog
variable (H : Bytes → UInt64)

/-- conversion between protobuf and library results is lossless -/
theorem convert_lossless (r : Result) (qid : Int) : toResult (toProtobufResult r qid) = r := by
  cases r with
  | mk count groups =>
    simp only [toResult, toProtobufResult, List.map_map, Result.mk.injEq, true_and]
    have hf : ∀ l : List (Bytes × Bytes), l.map (fun f => (f.1, f.2)) = l := by
      intro l; induction l with
      | nil => rfl
      | cons a t ih => simp
    have : ((fun g : List (Bytes × Bytes) × Nat => (g.1.map fun f => (f.1, f.2), g.2)) ∘
        fun g : Fields × Nat => (g.1.map fun f => (f.1, f.2), g.2)) = id := by
      funext g; simp [hf]
    rw [this, List.map_id]

theorem convert_keeps_id (r : Result) (qid : Int) : (toProtobufResult r qid).queryId = qid := rfl

/-- expected answer of one query at 1-based position `pos` -/
def expectedId (q : WQuery) (pos : Nat) : Int := if q.id = 0 then (pos : Int) else q.id

/-- the response holds exactly one result per query, in request order, each tagged with the query's id
    (or its 1-based position when the id is 0), each equal to what the library returns for that query -/
theorem server_batch (ix : Index) (qs : List WQuery) (pos : Nat) (rs : List (Int × Result))
    (h : serverQuery H ix qs pos = .ok rs) :
    rs.length = qs.length ∧
    ∀ i (hi : i < qs.length), ∃ r, serverExecute H ix qs[i] = .ok r ∧ rs[i]? = some (expectedId qs[i] (pos + i), r) := by
  induction qs generalizing pos rs with
  | nil =>
    simp [serverQuery] at h
    subst h
    exact ⟨rfl, fun i hi => absurd hi (by simp)⟩
  | cons q rest ih =>
    simp only [serverQuery] at h
    cases hq : serverExecute H ix q with
    | ok r =>
      rw [hq] at h
      cases hr : serverQuery H ix rest (pos + 1) with
      | ok rs' =>
        rw [hr] at h
        simp only [Outcome.ok.injEq] at h
        subst h
        obtain ⟨hl, hall⟩ := ih (pos + 1) rs' hr
        refine ⟨by simp [hl], ?_⟩
        intro i hi
        cases i with
        | zero => exact ⟨r, by simpa using hq, by simp [expectedId]⟩
        | succ j =>
          obtain ⟨r', h1, h2⟩ := hall j (by simpa using hi)
          refine ⟨r', by simpa using h1, ?_⟩
          simp only [List.getElem?_cons_succ, List.getElem_cons_succ]
          rw [h2]
          congr 3
          omega
      | error => rw [hr] at h; simp at h
      | panic => rw [hr] at h; simp at h
      | hang => rw [hr] at h; simp at h
    | error => rw [hq] at h; simp at h
    | panic => rw [hq] at h; simp at h
    | hang => rw [hq] at h; simp at h

/-- if any query of the batch is invalid the call fails instead of returning a partial response -/
theorem server_fails_on_invalid (ix : Index) (qs : List WQuery) (pos : Nat)
    (h : ∃ q ∈ qs, serverExecute H ix q = .error) : ∀ rs, serverQuery H ix qs pos ≠ .ok rs := by
  intro rs hok
  obtain ⟨q, hq, herr⟩ := h
  obtain ⟨_, hall⟩ := server_batch H ix qs pos rs hok
  obtain ⟨i, hi, rfl⟩ := List.getElem_of_mem hq
  obtain ⟨r, h1, _⟩ := hall i hi
  rw [herr] at h1
  simp at h1

/-- conversely, a batch of valid queries always gets a complete response -/
theorem server_answers_valid (ix : Index) (qs : List WQuery) (pos : Nat)
    (h : ∀ q ∈ qs, ∃ r, serverExecute H ix q = .ok r) : ∃ rs, serverQuery H ix qs pos = .ok rs := by
  induction qs generalizing pos with
  | nil => exact ⟨[], rfl⟩
  | cons q rest ih =>
    obtain ⟨r, hr⟩ := h q (by simp)
    obtain ⟨rs, hrs⟩ := ih (pos + 1) (fun q' hq' => h q' (by simp [hq']))
    exact ⟨(if q.id = 0 then (pos : Int) else q.id, r) :: rs, by simp [serverQuery, hr, hrs]⟩

example : expectedId ⟨0, none, []⟩ 3 = 3 ∧ expectedId ⟨7, none, []⟩ 3 = 7 := by decide

end Updog.C13
