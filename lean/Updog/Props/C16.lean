/-
C16 — existing files are never clobbered; reading never modifies the index.
Flag algebra of internal/openfile and the POSIX open(2) contract (modelled, trusted).
-/
import Updog.Model.OpenFlags
namespace Updog.C16
open Updog

theorem testBit_excl (f i : Nat) : (failIfExistsFlags f).testBit i = (f.testBit i || decide (i = 7)) := by
  unfold failIfExistsFlags O_EXCL
  rw [Nat.testBit_or]
  congr 1
  have : (0x80 : Nat) = 2 ^ 7 := by decide
  rw [this, Nat.testBit_two_pow]
  by_cases h : i = 7 <;> simp [h, eq_comm]

/-- for every flag word: the writer's open always carries O_EXCL and keeps O_CREAT -/
theorem create_is_exclusive (f : Nat) :
    hasFlag (failIfExistsFlags f) O_EXCL = true ∧ (hasFlag f O_CREAT = true → hasFlag (failIfExistsFlags f) O_CREAT = true) := by
  constructor
  · simp only [hasFlag, failIfExistsFlags, beq_iff_eq]
    apply Nat.eq_of_testBit_eq; intro i
    simp only [Nat.testBit_and, Nat.testBit_or]
    cases f.testBit i <;> simp
  · simp only [hasFlag, failIfExistsFlags, beq_iff_eq]
    intro h
    apply Nat.eq_of_testBit_eq; intro i
    have := congrArg (·.testBit i) h
    simp only [Nat.testBit_and, Nat.testBit_or] at this ⊢
    cases hf : f.testBit i <;> cases hc : O_CREAT.testBit i <;> simp_all

/-- for every flag word: the reader's open never carries O_CREAT -/
theorem mustExist_never_creates (f : Nat) : hasFlag (mustExistFlags f) O_CREAT = false := by
  simp only [hasFlag, mustExistFlags, beq_eq_false_iff_ne, ne_eq]
  intro h
  have := congrArg (·.testBit 6) h
  have h6 : O_CREAT.testBit 6 = true := by decide
  simp only [Nat.testBit_and, Nat.testBit_xor, h6] at this
  cases f.testBit 6 <;> simp at this

/-- Flush on an existing path: open(2) fails, the file stays and is not written -/
theorem flush_on_existing_fails (f : Nat) (hc : hasFlag f O_CREAT = true) :
    posixOpen true (failIfExistsFlags f) = (false, true, false) := by
  obtain ⟨h1, h2⟩ := create_is_exclusive f
  simp [posixOpen, h1, h2 hc]

theorem flush_on_existing_fails_bolt : posixOpen true (failIfExistsFlags boltWriteFlags) = (false, true, false) := by decide

/-- OpenIndex on a path that does not exist: fails and does not create it -/
theorem open_missing_not_created (f : Nat) : posixOpen false (mustExistFlags f) = (false, false, false) := by
  simp [posixOpen, mustExist_never_creates f]

/-- OpenIndex opens the file read-only: nothing can be written through the descriptor -/
theorem open_existing_readonly : posixOpen true (mustExistFlags boltReadOnlyFlags) = (true, true, false) := by decide

end Updog.C16
