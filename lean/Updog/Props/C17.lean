/-
C17 — sql driver handles survive any open/close/concurrent-use sequence.
State machine of the driver's connection cache; every operation is one atomic step (Facts.C17_facts), so every
interleaving of concurrent goroutines is one of the operation sequences quantified over here.
-/
import Updog.Model.Driver
namespace Updog.C17
open Updog

/-- the client discipline database/sql guarantees: a connection is queried or closed only while the client holds it.
    `h k` is the number of connections for key `k` the client holds before the history. Opens are on valid index files. -/
def Disciplined (valid : Nat → Bool) : (DKey → Nat) → List DrvOp → Prop
  | _, [] => True
  | h, .open k :: ops => valid k.file = true ∧ Disciplined valid (fun k' => if k' = k then h k' + 1 else h k') ops
  | h, .query k :: ops => h k > 0 ∧ Disciplined valid h ops
  | h, .close k :: ops => h k > 0 ∧ Disciplined valid (fun k' => if k' = k then h k' - 1 else h k') ops

/-- connections held after a history -/
def heldAfter : (DKey → Nat) → List DrvOp → (DKey → Nat)
  | h, [] => h
  | h, .open k :: ops => heldAfter (fun k' => if k' = k then h k' + 1 else h k') ops
  | h, .query _ :: ops => heldAfter h ops
  | h, .close k :: ops => heldAfter (fun k' => if k' = k then h k' - 1 else h k') ops

/-- Main theorem. For every history of opens, queries and closes that respects the handle discipline — including
    reopening a data source after its last connection was closed, several connections per key, and several option
    strings on one file — no step panics, hangs or fails, and the cache's reference counts are exactly the numbers of
    connections the client holds. -/
theorem history_safe (valid : Nat → Bool) (ops : List DrvOp) (d : Drv) (h : DKey → Nat)
    (hd : ∀ k, d.refs k = h k) (hdisc : Disciplined valid h ops) :
    (∀ o ∈ (d.run valid ops).2, o = .ok ()) ∧ ∀ k, (d.run valid ops).1.refs k = heldAfter h ops k := by
  induction ops generalizing d h with
  | nil => exact ⟨by simp [Drv.run], by simpa [Drv.run, heldAfter] using hd⟩
  | cons op ops ih =>
    cases op with
    | «open» k =>
      obtain ⟨hv, hrest⟩ := hdisc
      simp only [Drv.run, Drv.step]
      by_cases hpos : d.refs k > 0
      · simp only [hpos, ite_true]
        have := ih (d.set k (d.refs k + 1)) _ (by intro k'; simp only [Drv.set]; split <;> simp_all) hrest
        exact ⟨by intro o ho; simp only [List.mem_cons] at ho; rcases ho with rfl | ho; rfl; exact this.1 o ho, this.2⟩
      · simp only [hpos, ite_false, hv, ite_true]
        have h0 : d.refs k = 0 := by omega
        have := ih (d.set k 1) _ (by intro k'; simp only [Drv.set]; split <;> simp_all [← hd]) hrest
        exact ⟨by intro o ho; simp only [List.mem_cons] at ho; rcases ho with rfl | ho; rfl; exact this.1 o ho, this.2⟩
    | query k =>
      obtain ⟨hk, hrest⟩ := hdisc
      have hpos : d.refs k > 0 := by rw [hd]; exact hk
      simp only [Drv.run, Drv.step, hpos, ite_true]
      have := ih d h hd hrest
      exact ⟨by intro o ho; simp only [List.mem_cons] at ho; rcases ho with rfl | ho; rfl; exact this.1 o ho, this.2⟩
    | close k =>
      obtain ⟨hk, hrest⟩ := hdisc
      simp only [Drv.run, Drv.step]
      have := ih (d.set k (d.refs k - 1)) _ (by intro k'; simp only [Drv.set]; split <;> simp_all) hrest
      exact ⟨by intro o ho; simp only [List.mem_cons] at ho; rcases ho with rfl | ho; rfl; exact this.1 o ho, this.2⟩

/-- never a panic, never a hang (corollary) -/
theorem never_panics_or_hangs (valid : Nat → Bool) (ops : List DrvOp) (hdisc : Disciplined valid (fun _ => 0) ops) :
    ∀ o ∈ (Drv.empty.run valid ops).2, o ≠ .panic ∧ o ≠ .hang := by
  intro o ho
  have := (history_safe valid ops Drv.empty (fun _ => 0) (fun _ => rfl) hdisc).1 o ho
  subst this
  simp

/-- once the last handle on a file is closed, the file is released -/
theorem released_after_last_close (valid : Nat → Bool) (ops : List DrvOp) (hdisc : Disciplined valid (fun _ => 0) ops)
    (file : Nat) (hall : ∀ opts, heldAfter (fun _ => 0) ops ⟨file, opts⟩ = 0) :
    ¬ (Drv.empty.run valid ops).1.locked file := by
  intro ⟨opts, hpos⟩
  have := (history_safe valid ops Drv.empty (fun _ => 0) (fun _ => rfl) hdisc).2 ⟨file, opts⟩
  rw [this, hall opts] at hpos
  exact absurd hpos (by decide)

/-- and while any handle on it is open, a query on that handle is answered -/
theorem query_on_open_handle_ok (valid : Nat → Bool) (pre : List DrvOp) (k : DKey)
    (hdisc : Disciplined valid (fun _ => 0) (pre ++ [.query k])) :
    (Drv.empty.run valid (pre ++ [.query k])).2.getLast? = some (.ok ()) := by
  have h := (history_safe valid _ Drv.empty (fun _ => 0) (fun _ => rfl) hdisc).1
  cases hl : (Drv.empty.run valid (pre ++ [.query k])).2.getLast? with
  | none =>
    have : (Drv.empty.run valid (pre ++ [.query k])).2 = [] := List.getLast?_eq_none_iff.mp hl
    have hlen : ∀ (d : Drv) (ops : List DrvOp), (d.run valid ops).2.length = ops.length := by
      intro d ops; induction ops generalizing d with
      | nil => rfl
      | cons a t ih => simp [Drv.run, ih]
    have := congrArg List.length this
    rw [hlen] at this; simp at this
  | some o =>
    have hm : o ∈ (Drv.empty.run valid (pre ++ [.query k])).2 := List.mem_of_getLast? hl
    rw [h o hm]

/-- the unrepaired behaviours, for the record: without the removal of the cache entry a query after reopen panics;
    in this model a query on a key without entry is `.panic` -/
example : (Drv.empty.step (fun _ => true) (.query ⟨0, 0⟩)).2 = .panic := rfl

/-- non-vacuity: open, query, close, reopen, query with another option string on the same file, close all -/
example : Disciplined (fun _ => true) (fun _ => 0)
    [.open ⟨0, 0⟩, .query ⟨0, 0⟩, .close ⟨0, 0⟩, .open ⟨0, 0⟩, .open ⟨0, 1⟩, .query ⟨0, 1⟩, .close ⟨0, 1⟩, .close ⟨0, 0⟩] := by
  simp [Disciplined]

end Updog.C17
