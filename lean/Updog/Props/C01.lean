/-
C01 — total count = number of rows satisfying the expression.
Property theorems only; helper lemmas live in Updog/Proofs.
-/
import Updog.Proofs.Eval
namespace Updog.C01
open Updog

variable (H : Bytes → UInt64)

/-- Main theorem: for every dataset, every well-formed expression over columns of the data, and every
hash function without a collision between a data pair and a *different* tested pair, `Execute`
on the flushed-and-opened index returns exactly the number of rows satisfying the expression. -/
theorem count_correct (rows : List Row) (e : Expr)
    (hcols : ∀ c ∈ e.columns, c ∈ columnsOf rows) (hwf : e.arityPos = true)
    (hinj : NoCollision H rows e.pairs) :
    execute H (Writer.addRows H {} rows).toIndex ⟨e, []⟩ = some ⟨specCount rows e, []⟩ := by
  obtain ⟨b, hb, hbits⟩ := eval_correct H rows e hcols hwf hinj
  have hlt : b < 2 ^ rows.length := by
    apply lt_two_pow_of_testBit
    intro i hi
    rw [hbits i]
    have : ¬ i < rows.length := by omega
    simp [this]
  have hcount : popcount b = specCount rows e := by
    rw [popcount_eq_countBelow _ _ hlt,
      countBelow_eq_of_testBit b rows.length (fun i => sat (rowAt rows i) e)
        (by intro i hi; rw [hbits i]; simp [hi])]
    exact filter_range_length rows (fun r => sat r e) []
  simp [execute, populateGroupBy, hb, groupBy, hcount]

mutual
/-- A query that tests a column occurring in no row returns an error and no result. -/
theorem eval_unknown (rows : List Row) (e : Expr) (c : Bytes) (hc : c ∈ e.columns)
    (hno : c ∉ columnsOf rows) : eval H (Writer.addRows H {} rows).toIndex e = none := by
  match e with
  | .eq c' v =>
    simp only [Expr.columns, List.mem_singleton] at hc
    subst hc
    exact eval_unknown_column H rows c v hno
  | .not e' =>
    simp only [eval, eval_unknown rows e' c (by simpa [Expr.columns] using hc) hno, Option.map_none]
  | .and es =>
    simp only [eval, evalList_unknown rows es c (by simpa [Expr.columns] using hc) hno, Option.map_none]
  | .or es =>
    simp only [eval, evalList_unknown rows es c (by simpa [Expr.columns] using hc) hno, Option.map_none]
theorem evalList_unknown (rows : List Row) (es : List Expr) (c : Bytes) (hc : c ∈ Expr.columnsList es)
    (hno : c ∉ columnsOf rows) : evalList H (Writer.addRows H {} rows).toIndex es = none := by
  match es with
  | [] => simp [Expr.columnsList] at hc
  | e :: es' =>
    simp only [Expr.columnsList, List.mem_append] at hc
    simp only [evalList]
    cases hc with
    | inl h => simp [eval_unknown rows e c h hno]
    | inr h =>
      cases eval H (Writer.addRows H {} rows).toIndex e with
      | none => rfl
      | some b => simp [evalList_unknown rows es' c h hno]
end

theorem unknown_column_errors (rows : List Row) (q : Query) (c : Bytes) (hc : c ∈ q.expr.columns)
    (hno : c ∉ columnsOf rows) : execute H (Writer.addRows H {} rows).toIndex q = none := by
  simp only [execute, eval_unknown H rows q.expr c hc hno]
  cases populateGroupBy (Writer.addRows H {} rows).toIndex.schema q.groupBy <;> rfl

/-- the value index is injective on pairs whose column name has no NUL byte -/
theorem encodePair_injective_of_no_nul (c c' v v' : Bytes) (hc : (0 : UInt8) ∉ c) (hc' : (0 : UInt8) ∉ c')
    (h : encodePair c v = encodePair c' v') : c = c' ∧ v = v' := by
  unfold encodePair at h
  induction c generalizing c' with
  | nil =>
    cases c' with
    | nil => simpa using h
    | cons x xs =>
      simp at h
      exact absurd h.1.symm (by intro e; exact hc' (by simp [e]))
  | cons a as ih =>
    cases c' with
    | nil =>
      simp at h
      exact absurd h.1 (by intro e; exact hc (by simp [e]))
    | cons x xs =>
      simp only [List.cons_append, List.cons.injEq] at h
      have := ih xs (by intro m; exact hc (List.mem_cons_of_mem _ m))
        (by intro m; exact hc' (List.mem_cons_of_mem _ m)) h.2
      exact ⟨by rw [h.1, this.1], this.2⟩

/-- the known finding D15, for every hash function: with a NUL byte in a column name two different
(column,value) pairs get the same value index -/
theorem nul_column_collides : ∃ c v c' v' : Bytes, (c, v) ≠ (c', v') ∧
    ∀ H : Bytes → UInt64, H (encodePair c v) = H (encodePair c' v') :=
  ⟨[97, 0, 98], [99], [97], [98, 0, 99], by decide, fun _ => rfl⟩

/-- a toy hash for the non-vacuity examples (base-256 value of the bytes) -/
def toyH (b : Bytes) : UInt64 := (beDecode b).toUInt64

def exRows : List Row := [[([97], [49])], [([97], [50]), ([98], [50])], []]
def exExpr : Expr := .or [.eq [97] [49], .not (.eq [98] [50])]

/-- non-vacuity: a concrete dataset and expression meet all hypotheses of `count_correct` -/
example : (∀ c ∈ exExpr.columns, c ∈ columnsOf exRows) ∧ exExpr.arityPos = true ∧
    NoCollision toyH exRows exExpr.pairs := by
  refine ⟨by decide, by decide, ?_⟩
  unfold NoCollision
  decide

example : execute toyH (Writer.addRows toyH {} exRows).toIndex ⟨exExpr, []⟩ = some ⟨2, []⟩ := by
  have := count_correct toyH exRows exExpr (by decide) (by decide) (by unfold NoCollision; decide)
  simpa [specCount, exRows, exExpr, sat, satAny] using this

end Updog.C01
