/-
C07 — LRU cache (cache.go): byte bound, exact accounting, LRU order of eviction, Get returns the last Put,
exact counters. Property theorems only; helper lemmas live in Updog/Proofs/Lru.lean.
All statements hold for arbitrary `max`, `ovh` (including 0), arbitrary sizes (including 0 and > max) and
arbitrary operation histories.
-/
import Updog.Proofs.Lru
namespace Updog.C07
open Updog

/-! ### 1. the eviction loop -/

/-- The eviction loop, started with an exact account: the account stays exact, the loop ends under budget
or with an empty cache, the survivors are a prefix of the recency list (so exactly a suffix = the least
recently used entries is removed), and nothing is removed if the list already fits. -/
theorem evict_spec (ovh max : Nat) (items : List Item) (cur : Nat) (hcur : cur = total ovh items) :
    (evict ovh max items cur).2 = total ovh (evict ovh max items cur).1 ∧
    ((evict ovh max items cur).2 ≤ max ∨ (evict ovh max items cur).1 = []) ∧
    (evict ovh max items cur).1 <+: items ∧
    (total ovh items ≤ max → (evict ovh max items cur).1 = items) := by
  refine ⟨evict_acct _ _ _ _ hcur, evict_bound _ _ _ _, evict_prefix _ _ _ _, ?_⟩
  intro h
  rw [evict_fits _ _ _ _ (by omega)]

/-- Eviction removes as few entries as possible: every prefix of the recency list that is longer than the
surviving one is over budget. -/
theorem evict_minimal (ovh max : Nat) (items : List Item) (cur : Nat) (hcur : cur = total ovh items)
    (p : List Item) (hp : p <+: items) (hl : (evict ovh max items cur).1.length < p.length) :
    max < total ovh p :=
  Updog.evict_minimal ovh max items cur hcur p hp hl

/-! ### 2. the invariant -/

/-- Every operation preserves the invariant (unique keys, exact size account) and the configuration. -/
theorem inv_step (c : Lru) (op : LruOp) (hc : c.Inv) :
    (c.step op).1.Inv ∧ (c.step op).1.max = c.max ∧ (c.step op).1.ovh = c.ovh :=
  ⟨step_inv c op hc, step_fields c op⟩

/-- Every state reachable from the empty cache satisfies the invariant. -/
theorem inv_run (max ovh : Nat) (ops : List LruOp) :
    ((Lru.empty max ovh).run ops).1.Inv ∧
    ((Lru.empty max ovh).run ops).1.max = max ∧ ((Lru.empty max ovh).run ops).1.ovh = ovh :=
  ⟨run_inv _ ops (empty_inv max ovh), run_fields (Lru.empty max ovh) ops⟩

/-! ### 3. byte bound -/

/-- After every `Put` (also one overwriting a key with a larger bitmap) the accounted size, overhead
included, is within `max`, or the cache is empty. -/
theorem byte_bound (c : Lru) (k bm size : Nat) (hc : c.Inv) :
    total (c.put k bm size).ovh (c.put k bm size).items ≤ (c.put k bm size).max ∨
      (c.put k bm size).items = [] :=
  put_bound c k bm size hc

/-- Hence the bitmap bytes held after a `Put` never exceed `max`. -/
theorem byte_bound_sizes (c : Lru) (k bm size : Nat) (hc : c.Inv) :
    sizes (c.put k bm size).items ≤ (c.put k bm size).max := by
  rcases byte_bound c k bm size hc with h | h
  · exact Nat.le_trans (sizes_le_total _ _) h
  · simp [h]

/-- In every history, after every prefix that ends in a `Put`, the bound holds (and `cur` is that exact sum). -/
theorem byte_bound_run (max ovh : Nat) (pre : List LruOp) (k bm size : Nat) :
    let c' := ((Lru.empty max ovh).run (pre ++ [.put k bm size])).1
    (total ovh c'.items ≤ max ∨ c'.items = []) ∧ sizes c'.items ≤ max ∧ c'.cur = total ovh c'.items := by
  intro c'
  have hinv := (inv_run max ovh (pre ++ [.put k bm size]))
  have hb : c'.Bounded := run_bounded _ _ (empty_inv max ovh) (Or.inr rfl)
  have hacct := hinv.1.acct
  simp only [Lru.Bounded] at hb
  change c'.cur = total c'.ovh c'.items at hacct
  have h1 : c'.max = max := hinv.2.1
  have h2 : c'.ovh = ovh := hinv.2.2
  rw [h1, h2] at hb
  rw [h2] at hacct
  refine ⟨hb, ?_, hacct⟩
  rcases hb with h | h
  · exact Nat.le_trans (sizes_le_total _ _) h
  · simp [h]

/-- Stronger: the bound holds in every reachable state (a `Get` only permutes the entries). -/
theorem byte_bound_reachable (max ovh : Nat) (ops : List LruOp) :
    let c' := ((Lru.empty max ovh).run ops).1
    (total ovh c'.items ≤ max ∨ c'.items = []) ∧ sizes c'.items ≤ max := by
  intro c'
  have hinv := inv_run max ovh ops
  have hb : c'.Bounded := run_bounded _ _ (empty_inv max ovh) (Or.inr rfl)
  simp only [Lru.Bounded] at hb
  have h1 : c'.max = max := hinv.2.1
  have h2 : c'.ovh = ovh := hinv.2.2
  rw [h1, h2] at hb
  refine ⟨hb, ?_⟩
  rcases hb with h | h
  · exact Nat.le_trans (sizes_le_total _ _) h
  · simp [h]

/-! ### 4. LRU order of eviction -/

/-- After `Put k` the new/overwritten entry is the most recent one, all other entries keep their relative
order, and only a suffix (the least recently used entries) is dropped. Needs no invariant. -/
theorem put_survivors_prefix (c : Lru) (k bm size : Nat) :
    (c.put k bm size).items <+: (⟨k, size, bm⟩ :: c.items.filter (·.key != k)) :=
  put_prefix c k bm size

/-! ### 5. Get -/

/-- A hit moves the entry to the front, returns its bitmap and bumps `gets` and `hits`. -/
theorem get_hit_moves_to_front (c : Lru) (k : Nat) (it : Item)
    (h : c.items.find? (·.key == k) = some it) :
    c.get k = ({ c with gets := c.gets + 1, hits := c.hits + 1,
                        items := it :: c.items.filter (·.key != k) }, some it.bm) :=
  get_hit c k it h

/-- A `Get` never changes the set of resident entries (it permutes them). -/
theorem get_perm (c : Lru) (k : Nat) (hc : c.Inv) : (c.get k).1.items.Perm c.items :=
  Updog.get_perm c k hc

/-- A miss leaves the recency list untouched, returns nothing and bumps `gets` and `misses`. -/
theorem get_miss_unchanged (c : Lru) (k : Nat) (h : c.items.find? (·.key == k) = none) :
    c.get k = ({ c with gets := c.gets + 1, misses := c.misses + 1 }, none) ∧
    (c.get k).1.items = c.items := by
  rw [get_miss c k h]; exact ⟨rfl, rfl⟩

/-! ### 6. Get returns the last Put -/

/-- In every history from the empty cache: if a `Get k` is answered with bitmap `b`, then the last `Put` of
key `k` before it stored `b`. -/
theorem get_returns_last_put (max ovh : Nat) (pre post : List LruOp) (k b : Nat)
    (h : ((Lru.empty max ovh).run (pre ++ [.get k] ++ post)).2[pre.length]? = some (some b)) :
    lastPut pre k = some b := by
  rw [List.append_assoc, run_append] at h
  have hlen := run_length (Lru.empty max ovh) pre
  simp only [List.singleton_append, run_cons, Lru.step] at h
  rw [List.getElem?_append_right (by omega)] at h
  simp only [hlen, Nat.sub_self, List.getElem?_cons_zero, Option.some.injEq] at h
  have hres : Resident ((Lru.empty max ovh).run pre).1 ([] ++ pre) :=
    run_resident (Lru.empty max ovh) [] pre (by intro it hit; simp [Lru.empty] at hit)
  rw [List.nil_append] at hres
  exact get_resident _ pre k b hres h

/-- Consequently a hit never returns a bitmap stored under another key: some earlier `Put k b _` exists. -/
theorem get_never_foreign (max ovh : Nat) (pre post : List LruOp) (k b : Nat)
    (h : ((Lru.empty max ovh).run (pre ++ [.get k] ++ post)).2[pre.length]? = some (some b)) :
    ∃ s, LruOp.put k b s ∈ pre :=
  lastPut_some_mem pre k b (get_returns_last_put max ovh pre post k b h)

/-! ### 7./8. what fits is kept -/

/-- An entry that fits into the cache on its own can be read back right after the `Put`. -/
theorem fits_then_retrievable (c : Lru) (k bm size : Nat) (hc : c.Inv) (hfit : size + c.ovh ≤ c.max) :
    ((c.put k bm size).get k).2 = some bm := by
  obtain ⟨t', ht⟩ := put_head c k bm size hc hfit
  rw [get_some_iff]
  exact ⟨⟨k, size, bm⟩, by simp [ht], rfl⟩

/-- If the whole new recency list fits, nothing is evicted. -/
theorem no_eviction_when_fits (c : Lru) (k bm size : Nat) (hc : c.Inv)
    (hfit : total c.ovh (⟨k, size, bm⟩ :: c.items.filter (·.key != k)) ≤ c.max) :
    (c.put k bm size).items = ⟨k, size, bm⟩ :: c.items.filter (·.key != k) := by
  change total c.ovh (putList c k bm size) ≤ c.max at hfit
  rw [put_eq c k bm size hc]
  simp only
  rw [evict_fits _ _ _ _ hfit]
  rfl

/-! ### 9. counters -/

/-- The metric counters are exact: `gets`/`puts` count the calls, `hits` counts the `Get`s that were
answered, and every `Get` is either a hit or a miss. -/
theorem counters_exact (max ovh : Nat) (ops : List LruOp) :
    let r := (Lru.empty max ovh).run ops
    r.1.gets = numGets ops ∧ r.1.puts = numPuts ops ∧
    r.1.hits = numHits ops r.2 ∧ r.1.hits = r.2.countP Option.isSome ∧
    r.1.hits + r.1.misses = r.1.gets := by
  intro r
  obtain ⟨h1, h2, h3, h4⟩ := run_counters (Lru.empty max ovh) ops
  have h5 := numHits_eq (Lru.empty max ovh) ops
  simp only [Lru.empty, Nat.zero_add] at h1 h2 h3 h4 h5
  refine ⟨h1, h2, h3, ?_, ?_⟩
  · exact h3.trans h5
  · exact h4.trans h1.symm

/-! ### non-vacuity -/

section Examples

/-- a cache of 100 bytes, overhead 10, holding keys 3 (most recent), 2, 1 -/
private def c3 : Lru :=
  { items := [⟨3, 20, 30⟩, ⟨2, 20, 20⟩, ⟨1, 20, 10⟩], cur := 90, max := 100, ovh := 10 }

private theorem c3_inv : c3.Inv := ⟨by decide, by decide⟩

/-- `evict_spec`: the hypothesis is satisfiable and the loop really evicts (two entries here). -/
example : (130 : Nat) = total 10 [⟨4, 30, 1⟩, ⟨3, 20, 1⟩, ⟨2, 20, 1⟩, ⟨1, 20, 1⟩] ∧
    evict 10 75 [⟨4, 30, 1⟩, ⟨3, 20, 1⟩, ⟨2, 20, 1⟩, ⟨1, 20, 1⟩] 130 = ([⟨4, 30, 1⟩, ⟨3, 20, 1⟩], 70) := by
  constructor
  · decide
  · simp [evict]

/-- a `Put` of a new key that forces the eviction of the two least recently used keys -/
example : (c3.put 4 40 50).items = [⟨4, 50, 40⟩, ⟨3, 20, 30⟩] ∧ (c3.put 4 40 50).cur = 90 := by
  simp [c3, Lru.put, evict]

/-- overwriting key 1 with a larger bitmap: it moves to the front and key 2 (now the LRU) is evicted -/
example : (c3.put 1 11 45).items = [⟨1, 45, 11⟩, ⟨3, 20, 30⟩] := by
  simp [c3, Lru.put, evict]

/-- an entry larger than the whole cache empties it -/
example : (c3.put 9 99 500).items = [] ∧ (c3.put 9 99 500).cur = 0 := by
  simp [c3, Lru.put, evict]

/-- `fits_then_retrievable` / `byte_bound` / `inv_step`: the hypotheses hold for `c3` -/
example : ((c3.put 4 40 50).get 4).2 = some 40 :=
  fits_then_retrievable c3 4 40 50 c3_inv (by decide)

/-- `no_eviction_when_fits`: overwriting key 2 with a smaller bitmap keeps everything -/
example : (c3.put 2 21 5).items = [⟨2, 5, 21⟩, ⟨3, 20, 30⟩, ⟨1, 20, 10⟩] :=
  no_eviction_when_fits c3 2 21 5 c3_inv (by decide)

/-- `get_hit_moves_to_front`: a hit on the LRU key 1 -/
example : (c3.get 1).2 = some 10 ∧ (c3.get 1).1.items = [⟨1, 20, 10⟩, ⟨3, 20, 30⟩, ⟨2, 20, 20⟩] := by
  simp [c3, Lru.get]

/-- a miss -/
example : (c3.get 7).2 = none ∧ (c3.get 7).1.items = c3.items := by
  simp [c3, Lru.get]

/-- a concrete history (`get_returns_last_put`, `counters_exact`, `byte_bound_run`): key 1 is overwritten,
key 2 is evicted by the third `Put`, the first `Get` hits with the *last* bitmap of key 1, the second misses. -/
private def hist : List LruOp := [.put 1 10 20, .put 2 20 20, .put 1 11 20, .put 3 30 40, .get 1, .get 2]

example : ((Lru.empty 100 10).run hist).2 = [none, none, none, none, some 11, none] ∧
    ((Lru.empty 100 10).run hist).1.items = [⟨1, 20, 11⟩, ⟨3, 40, 30⟩] ∧
    ((Lru.empty 100 10).run hist).1.hits = 1 ∧ ((Lru.empty 100 10).run hist).1.misses = 1 := by
  simp [hist, Lru.empty, Lru.run, Lru.step, Lru.put, Lru.get, evict]

example : lastPut [.put 1 10 20, .put 2 20 20, .put 1 11 20, .put 3 30 40] 1 = some 11 := by decide

example : ((Lru.empty 100 10).run
    ([.put 1 10 20, .put 2 20 20, .put 1 11 20, .put 3 30 40] ++ [.get 1] ++ [.get 2])).2[4]? = some (some 11) := by
  simp [Lru.empty, Lru.run, Lru.step, Lru.put, Lru.get, evict]

/-- degenerate configuration `max = 0`, `ovh = 0`: only empty bitmaps stay -/
example : ((Lru.empty 0 0).run [.put 2 20 5, .put 1 10 0, .get 1, .get 2]).2 = [none, none, some 10, none] := by
  simp [Lru.empty, Lru.run, Lru.step, Lru.put, Lru.get, evict]

end Examples

end Updog.C07
