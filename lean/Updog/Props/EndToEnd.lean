/-
End-to-end composition of C01/C02/C03/C05: rows added through either writer, flushed, opened, and queried any number
of times through an LRU cache of ANY capacity answer every query exactly like the SQL specification.
-/
import Updog.Props.C02
import Updog.Props.C03
import Updog.Props.C01Writers
namespace Updog.EndToEnd
open Updog

variable (H : Bytes → UInt64)

/-- the hypotheses under which one query is answered like the specification (C01/C02) -/
structure QueryOK (rows : List Row) (q : Query) : Prop where
  cols : ∀ c ∈ q.expr.columns, c ∈ columnsOf rows
  wf : q.expr.arityPos = true
  inj : NoCollision H rows q.expr.pairs
  gb : ∀ c ∈ q.groupBy, c ∈ columnsOf rows

/-- **Every query of every history, through an LRU cache of any capacity, equals SQL.**
    `hinj`/`hagree` exclude 64-bit collisions among the cache-key preimages of the history (C03),
    `hD` among the data's own (column,value) pairs (C02). -/
theorem cached_history_equals_sql (rows : List Row) (qs : List Query) (sz : Nat → Nat) (c0 : Lru) (h0 : c0.items = [])
    (hinj : InjOn H ((qs.map (·.expr)).flatMap (preimages H)))
    (hagree : KnownAgree H (Writer.addRows H {} rows).toIndex ((qs.map (·.expr)).flatMap Expr.pairs))
    (hD : DataNoCollision H rows) (hq : ∀ q ∈ qs, QueryOK H rows q) :
    (executeAllC H (lruCacheImpl sz) (Writer.addRows H {} rows).toIndex c0 qs).2 = qs.map fun q => specExecute rows q := by
  rw [C03.lru_transparent_history H _ sz c0 h0 qs hinj hagree]
  apply List.map_congr_left
  intro q hmem
  obtain ⟨e, cols⟩ := q
  have ok := hq _ hmem
  exact C02.groupBy_eq_spec H rows e cols ok.cols ok.wf ok.inj hD ok.gb

/-- the same for the index written by the big (disk-backed) writer -/
theorem cached_history_equals_sql_big (rows : List Row) (hlen : rows.length ≤ 2 ^ 32) (qs : List Query) (sz : Nat → Nat)
    (c0 : Lru) (h0 : c0.items = [])
    (hinj : InjOn H ((qs.map (·.expr)).flatMap (preimages H)))
    (hagree : KnownAgree H (Writer.addRows H {} rows).toIndex ((qs.map (·.expr)).flatMap Expr.pairs))
    (hD : DataNoCollision H rows) (hq : ∀ q ∈ qs, QueryOK H rows q) :
    (executeAllC H (lruCacheImpl sz) (C05.bigIndex H rows) c0 qs).2 = qs.map fun q => specExecute rows q := by
  rw [C01.bigIndex_eq H rows hlen]
  exact cached_history_equals_sql H rows qs sz c0 h0 hinj hagree hD hq

end Updog.EndToEnd
