/-
C12/C17 (extension): the DSN options select exactly {preload, LRU cache + size}, an invalid size is an error, and the
connection-cache key determines the configuration (two DSNs sharing a cached connection asked for the same options).
-/
import Updog.Model.Dsn
namespace Updog.C12
open Updog

/-- preload is on exactly for `preload=true`; the cache is on exactly for `lrucache=true` with a valid size -/
theorem dsn_options (o : DsnOpts) (c : FileConfig) (h : dsnConfig o = .ok c) :
    c.preload = (o.preload == some bTrue) ∧
    (c.cacheSize.isSome = (o.lrucache == some bTrue)) ∧
    (∀ n, c.cacheSize = some n → parseUint64 (o.lrucachesize.getD []) = some n) := by
  unfold dsnConfig at h
  by_cases hl : o.lrucache == some bTrue
  · simp only [hl, ite_true] at h
    cases hp : parseUint64 (o.lrucachesize.getD []) with
    | none => rw [hp] at h; simp at h
    | some n =>
      rw [hp] at h
      simp only [Outcome.ok.injEq] at h
      subst h
      simp [hl]
  · simp only [hl, Bool.false_eq_true, ite_false, Outcome.ok.injEq] at h
    subst h
    simp [hl]

/-- `lrucache=true` without a valid decimal size is rejected -/
theorem dsn_invalid_size (o : DsnOpts) (hl : o.lrucache = some bTrue) (hs : parseUint64 (o.lrucachesize.getD []) = none) :
    dsnConfig o = .error := by
  simp [dsnConfig, hl, hs]

theorem dsn_never_panics (o : DsnOpts) : dsnConfig o ≠ .panic ∧ dsnConfig o ≠ .hang := by
  unfold dsnConfig
  split
  · split <;> simp
  · simp

theorem digitsVal_inj_eq (s : Bytes) : parseUint64 s = parseUint64 s := rfl

/-- the cache key determines the configuration: DSNs that share a cached connection selected the same preload flag
    and the same cache size -/
theorem key_determines_config (o₁ o₂ : DsnOpts) (c₁ c₂ : FileConfig)
    (h₁ : dsnConfig o₁ = .ok c₁) (h₂ : dsnConfig o₂ = .ok c₂) (hk : c₁.keyOpts = c₂.keyOpts) :
    c₁.preload = c₂.preload ∧ c₁.cacheSize = c₂.cacheSize := by
  unfold dsnConfig at h₁ h₂
  -- the key text starts with ";preload=true" iff preload, continues with ";lrucache=true;lrucachesize=<text>" iff cache
  by_cases l1 : o₁.lrucache == some bTrue <;> by_cases l2 : o₂.lrucache == some bTrue <;>
    simp only [l1, l2, ite_true, Bool.false_eq_true, ite_false] at h₁ h₂
  · cases p1 : parseUint64 (o₁.lrucachesize.getD []) with
    | none => rw [p1] at h₁; simp at h₁
    | some n1 =>
      cases p2 : parseUint64 (o₂.lrucachesize.getD []) with
      | none => rw [p2] at h₂; simp at h₂
      | some n2 =>
        rw [p1] at h₁; rw [p2] at h₂
        simp only [Outcome.ok.injEq] at h₁ h₂
        subst h₁; subst h₂
        simp only at hk
        by_cases a : o₁.preload == some bTrue <;> by_cases b : o₂.preload == some bTrue <;>
          simp only [a, b, ite_true, Bool.false_eq_true, ite_false, sPreload, sLru, sLruSize, List.nil_append,
            List.cons_append, List.cons.injEq, true_and] at hk ⊢
        · have : o₁.lrucachesize.getD [] = o₂.lrucachesize.getD [] := by simpa using hk
          rw [this] at p1; rw [p1] at p2; simpa using p2
        · simp at hk
        · simp at hk
        · have : o₁.lrucachesize.getD [] = o₂.lrucachesize.getD [] := by simpa using hk
          rw [this] at p1; rw [p1] at p2; simpa using p2
  · cases p1 : parseUint64 (o₁.lrucachesize.getD []) with
    | none => rw [p1] at h₁; simp at h₁
    | some n1 =>
      rw [p1] at h₁
      simp only [Outcome.ok.injEq] at h₁ h₂
      subst h₁; subst h₂
      simp only at hk
      by_cases a : o₁.preload == some bTrue <;> by_cases b : o₂.preload == some bTrue <;>
        simp [a, b, sPreload, sLru, sLruSize] at hk
  · cases p2 : parseUint64 (o₂.lrucachesize.getD []) with
    | none => rw [p2] at h₂; simp at h₂
    | some n2 =>
      rw [p2] at h₂
      simp only [Outcome.ok.injEq] at h₁ h₂
      subst h₁; subst h₂
      simp only at hk
      by_cases a : o₁.preload == some bTrue <;> by_cases b : o₂.preload == some bTrue <;>
        simp [a, b, sPreload, sLru, sLruSize] at hk
  · simp only [Outcome.ok.injEq] at h₁ h₂
    subst h₁; subst h₂
    simp only at hk
    by_cases a : o₁.preload == some bTrue <;> by_cases b : o₂.preload == some bTrue <;>
      simp [a, b, sPreload] at hk ⊢

example : dsnConfig { preload := some bTrue, lrucache := some bTrue, lrucachesize := some [52, 50] }
    = .ok ⟨true, some 42, sPreload ++ sLru ++ sLruSize ++ [52, 50]⟩ := by decide
example : dsnConfig { lrucache := some bTrue } = .error := by decide
example : dsnConfig { preload := some [84, 82, 85, 69] } = .ok ⟨false, none, []⟩ := by decide

end Updog.C12
