/-
Catalogue of the repaired defects (`fix:` commits of /repo). For every defect:
`<name>_original_violates` — a machine-checked NEGATION WITNESS: a concrete input / history / schedule on which the
ORIGINAL code (the mutant of `Updog/Model/Mutants.lean`) violates the property, and
`<name>_repaired_ok` — the current model on the same witness (with a pointer to the general theorem where one
exists). `…_general` theorems state the defect for all inputs where that is easy.
Helper lemmas live in Updog/Proofs/Mutants.lean.
-/
import Updog.Proofs.Mutants
import Updog.Proofs.ToyInstance
import Updog.Proofs.Lru
import Updog.Props.C06
import Updog.Props.C19Cmd
namespace Updog.Witnesses
open Updog

/-! ## 1. cache keys — 8a6a8ef "derive cache keys by hashing node kind and operand keys in order" -/

/-- **General.** For EVERY hash function and all expressions `a b c`, the original keys of `(a ∨ c) ∧ (b ∨ c)` and
`¬a ∧ ¬b` coincide. -/
theorem cachekey_original_violates (H : Bytes → UInt64) (a b c : Expr) :
    cacheKeyOrig H (.and [.or [a, c], .or [b, c]]) = cacheKeyOrig H (.and [.not a, .not b]) := by
  simp only [cacheKeyOrig, cacheKeysOrig]
  exact xor_scheme_collision _ _ _

/-- **General.** For every hash function and all `x y`: `AND(x, x, y)` and `AND(y)` share their original key. -/
theorem cachekey_dup_original_violates (H : Bytes → UInt64) (x y : Expr) :
    cacheKeyOrig H (.and [x, x, y]) = cacheKeyOrig H (.and [y]) := by
  simp only [cacheKeyOrig, cacheKeysOrig]
  exact xor_scheme_duplicate _ _

/-- the mutant evaluator differs from `Updog.evalC` in the key function only -/
theorem evalCK_repaired_is_evalC (H : Bytes → UInt64) {σ : Type} (C : CacheImpl σ) (ix : Index) (s : σ) (e : Expr) :
    evalCK H (cacheKey H) C ix s e = evalC H C ix s e := evalCK_cacheKey H C ix s e

/-- `b = 2` on the toy index (rows `a=1,b=1`, `a=2,b=1`, `a=1,b=2`; `x` is `a = 1`, `y` is `b = 1`) -/
def z : Expr := .eq [98] [50]

open Updog.Toy in
/-- Witness: three rows, a map cache, the history `(x ∨ z) ∧ (y ∨ z)` then `¬x ∧ ¬y`. The original code answers the
second query with the first one's bitmap: count 2 instead of 0. -/
theorem cachekey_witness_original_violates :
    countsCK toyH (cacheKeyOrig toyH) mapCacheImpl (tix toyH) []
      [.and [.or [x, z], .or [y, z]], .and [.not x, .not y]] = [some 2, some 2]
    ∧ [Expr.and [.or [x, z], .or [y, z]], .and [.not x, .not y]].map
        (fun e => (eval toyH (tix toyH) e).map popcount) = [some 2, some 0] := by
  decide +kernel

open Updog.Toy in
theorem cachekey_witness_repaired_ok :
    countsCK toyH (cacheKey toyH) mapCacheImpl (tix toyH) []
      [.and [.or [x, z], .or [y, z]], .and [.not x, .not y]] = [some 2, some 0]
    ∧ (let r := evalC toyH mapCacheImpl (tix toyH) [] (.and [.or [x, z], .or [y, z]])
       (r.2.map popcount, (evalC toyH mapCacheImpl (tix toyH) r.1 (.and [.not x, .not y])).2.map popcount))
      = (some 2, some 0) := by
  decide +kernel

open Updog.Toy in
/-- Witness for the second collision: `AND(x, x, y)` then `AND(y)`: count 1 instead of 2. -/
theorem cachekey_dup_witness_original_violates :
    countsCK toyH (cacheKeyOrig toyH) mapCacheImpl (tix toyH) [] [.and [x, x, y], .and [y]] = [some 1, some 1]
    ∧ [Expr.and [x, x, y], .and [y]].map (fun e => (eval toyH (tix toyH) e).map popcount) = [some 1, some 2] := by
  decide +kernel

open Updog.Toy in
theorem cachekey_dup_witness_repaired_ok :
    countsCK toyH (cacheKey toyH) mapCacheImpl (tix toyH) [] [.and [x, x, y], .and [y]] = [some 1, some 2] := by
  decide +kernel

/-! ## 2. LRU overwrite — e2a88c0 "LRUCache.Put re-accounts the size when an existing key is overwritten" -/

/-- Witness: capacity 72, overhead 64; `Put(0, 8 bytes); Put(0, 90 bytes)`: 90 > 72 bytes resident, the account
still says 72. (A bitmap id is its size here.) -/
theorem lru_overwrite_original_violates :
    let c := ((Lru.empty 72 64).putOrig 0 8 8).putOrig 0 90 90
    c.resident id = 90 ∧ c.resident id > c.max ∧ c.cur = 72 := by
  decide +kernel

theorem lru_overwrite_repaired_ok :
    let c := ((Lru.empty 72 64).put 0 8 8).put 0 90 90
    c.resident id = 0 ∧ c.resident id ≤ c.max ∧ c.cur = 0 ∧ sizes c.items ≤ c.max := by
  decide +kernel

/-- **General.** In ANY cache state that holds key `k`, overwriting it with a bitmap larger than the capacity leaves
more than `max` bytes resident, and the account does not move. -/
theorem lru_overwrite_original_general (sz : Nat → Nat) (c : Lru) (k bm size : Nat) (it : Item)
    (h : c.items.find? (·.key == k) = some it) (hbig : c.max < sz bm) :
    (c.putOrig k bm size).max < (c.putOrig k bm size).resident sz ∧ (c.putOrig k bm size).cur = c.cur := by
  constructor
  · simp only [Lru.putOrig, h, Lru.resident, List.map_cons, List.sum_cons]
    omega
  · simp only [Lru.putOrig, h]

/-- the repaired `Put` keeps the bound from every state satisfying the invariant (= `Updog.C07.byte_bound`) -/
theorem lru_overwrite_repaired_general (c : Lru) (k bm size : Nat) (hc : c.Inv) :
    total (c.put k bm size).ovh (c.put k bm size).items ≤ (c.put k bm size).max ∨ (c.put k bm size).items = [] :=
  put_bound c k bm size hc

/-! ## 3. header placement — 70554fc "write schema and row counter in the last transaction of a flush" -/

/-- map iteration order of the three values of `C06.w3` -/
def perm3 : ValMap := [(2, 4), (0, 1), (1, 2)]

open Updog.C06 in
/-- Witness: three values, batch size 1, crash after the first of four commits: the file has the header,
`OpenIndex` accepts it (even with preloading), and it holds one of the three bitmaps. -/
theorem header_first_original_violates :
    let txs := writeTxsOrig w3.schema w3.next perm3 1
    txs.length = 4 ∧ (imageAfter txs 1).hasHeader = true
    ∧ openIndex (stateOf (imageAfter txs 1)) ⟨true⟩ = (.ok (), true)
    ∧ (imageAfter txs 1).vals = [(2, 4)] ∧ (imageAfter txs 1).vals.get 0 = none ∧ w3.vals.get 0 = some 1 := by
  decide

open Updog.C06 in
/-- the repaired writer on the same data: `Updog.C06.crash_open` -/
theorem header_first_repaired_ok :
    let txs := writeTxs w3.schema w3.next perm3 1
    txs.length = 4 ∧ (imageAfter txs 1).hasHeader = false
    ∧ (openIndex (stateOf (imageAfter txs 1)) ⟨true⟩).1 = .error :=
  ⟨by decide, by decide, (crash_open w3 perm3 1 (by decide) ⟨true⟩ 1 (by decide)).resolve_right (by decide)⟩

/-- **General.** Whatever the data, the map order and the batch size: after the FIRST commit of the original writer
(and after every later one) `OpenIndex` accepts the file. -/
theorem header_first_original_general (s : Schema) (n : Nat) (perm : ValMap) (batch k : Nat) (hk : 1 ≤ k)
    (o : OpenOpts) :
    (imageAfter (writeTxsOrig s n perm batch) k).hasHeader = true ∧
    openIndex (stateOf (imageAfter (writeTxsOrig s n perm batch) k)) o = (.ok (), true) := by
  have h := accepting_writeTxsOrig s n perm batch k hk
  exact ⟨by simp [BoltImage.hasHeader, h.2.1, h.2.2], h.opens o⟩

/-! ## 4. parser — 4f73f54, ffa2b0d, 1e650ea, 4ba8bbd -/

/-- `a="1" & b="2" | c="3"` -/
def s4a : Bytes := [97, 61, 34, 49, 34, 32, 38, 32, 98, 61, 34, 50, 34, 32, 124, 32, 99, 61, 34, 51, 34]
def toks4a : List Tok := [.field [97], .eq, .value [49], .and, .field [98], .eq, .value [50], .or,
  .field [99], .eq, .value [51], .eof]

/-- (a) Witness: without the end-of-input check `a="1" & b="2" | c="3"` is accepted and means `a & b`. -/
theorem trailing_original_violates :
    lexAll s4a = toks4a ∧ parseToksNoEof toks4a = some ⟨.and [.eq [97] [49] 0, .eq [98] [50] 0], []⟩ :=
  ⟨by decide +kernel, rfl⟩

theorem trailing_repaired_ok : parseQuery s4a = none := by
  have h : lexAll s4a = toks4a := by decide +kernel
  rw [parseQuery, h]; rfl

/-- `a = "x" "un` -/
def s4b : Bytes := [97, 32, 61, 32, 34, 120, 34, 32, 34, 117, 110]

/-- (b) Witness: the original lexer swallows the unterminated string, so the input is accepted as `a = "x"`
although the parser checks for the end of the input. -/
theorem unterminated_original_violates :
    lexAllOrig s4b = [.field [97], .eq, .value [120], .eof] ∧
    parseToks [.field [97], .eq, .value [120], .eof] = some ⟨.eq [97] [120] 0, []⟩ ∧
    (parseQueryLexOrig s4b).isSome = true := by
  have h : lexAllOrig s4b = [.field [97], .eq, .value [120], .eof] := by decide +kernel
  refine ⟨h, rfl, ?_⟩
  rw [parseQueryLexOrig, h]; rfl

theorem unterminated_repaired_ok :
    lexAll s4b = [.field [97], .eq, .value [120], .error] ∧ parseQuery s4b = none := by
  have h : lexAll s4b = [.field [97], .eq, .value [120], .error] := by decide +kernel
  refine ⟨h, ?_⟩
  rw [parseQuery, h]; rfl

/-- **General.** The original lexer is the repaired one except that the final `error` item of an unterminated
string becomes `eof`. -/
theorem unterminated_original_general (s : Bytes) :
    lexAllOrig s = lexAll s ∨ ∃ pre, lexAll s = pre ++ [.error] ∧ lexAllOrig s = pre ++ [.eof] :=
  lexAllOrig_sameOrSwallowed s

/-- the digits of 4294967297 = 2^32 + 1 and of 9223372036854775808 = 2^63 -/
def big1 : Bytes := [52, 50, 57, 52, 57, 54, 55, 50, 57, 55]
def big2 : Bytes := [57, 50, 50, 51, 51, 55, 50, 48, 51, 54, 56, 53, 52, 55, 55, 53, 56, 48, 56]

/-- (c) Witness: `$4294967297` is stored as placeholder 1, `$9223372036854775808` as placeholder −1. -/
theorem placeholder_original_violates :
    placeholderOrig big1 = some 1 ∧ placeholderOrig big2 = some (-1) := by decide +kernel

theorem placeholder_repaired_ok :
    decodePlaceholder big1 = 0 ∧ decodePlaceholder big2 = 0 ∧
    parseToks [.field [97], .eq, .placeholder big1, .eof] = none :=
  ⟨by decide +kernel, by decide +kernel, by decide +kernel⟩

/-- on the valid range 1 … 2^31−1 the original and the repaired decoding agree -/
theorem placeholder_agree_in_range (ds : Bytes) (hne : ds ≠ []) (h1 : 1 ≤ digitsVal ds)
    (h2 : digitsVal ds ≤ 2147483647) :
    placeholderOrig ds = some ((decodePlaceholder ds : Nat) : Int) := by
  have he : ds.isEmpty = false := by cases ds <;> simp_all
  have h3 : atoiSat ds = digitsVal ds := by unfold atoiSat; omega
  have h6 : toInt32 (digitsVal ds) = ((digitsVal ds : Nat) : Int) := by unfold toInt32; omega
  have h4 : ¬ digitsVal ds < 1 := by omega
  have h5 : ¬ digitsVal ds > 2147483647 := by omega
  simp only [placeholderOrig, decodePlaceholder, he, h3, h4, h5, h6, if_false, Bool.false_eq_true]

/-- `a="1" b` -/
def toks4d : List Tok := [.field [97], .eq, .value [49], .field [98], .eof]

/-- (d) Witness: `a="1" b` is rejected after 4 of the 5 items have been received; the lexer goroutine stays blocked
on sending the last one. -/
theorem leak_original_violates :
    lexAll [97, 61, 34, 49, 34, 32, 98] = toks4d ∧ parseToks toks4d = none ∧
    parserPulled toks4d = 4 ∧ unreadOrig toks4d = 1 :=
  ⟨by decide +kernel, rfl, by decide +kernel, by decide +kernel⟩

/-- **General.** With the deferred drain nothing is left unread, whatever the parser did. -/
theorem leak_repaired_ok (ts : List Tok) : unreadRepaired ts = 0 := by
  have := parserPulled_le ts
  unfold unreadRepaired; omega

/-! ## 5. group-by — 5db3b87 "reset resolved group-by fields on every Execute",
0467227 "result groups no longer share the backing array of their field lists" -/

open Updog.Toy in
/-- `b = 1 ; a` as a fresh `Query` value -/
def q5 : QueryState := ⟨y, [[97]], []⟩

open Updog.Toy in
theorem toy_sorted : SortedSchema (tix toyH).schema := by decide +kernel

open Updog.Toy in
/-- (a) Witness: the same `Query` value executed twice: every group of the second result has its field twice. -/
theorem stale_groupby_original_violates :
    let r1 := executeQOrig toyH (tix toyH) q5
    let r2 := executeQOrig toyH (tix toyH) r1.2
    r1.1 = some ⟨2, [([([97], [49])], 1), ([([97], [50])], 1)]⟩ ∧
    r2.1 = some ⟨2, [([([97], [49]), ([97], [49])], 1), ([([97], [50]), ([97], [50])], 1)]⟩ := by
  simp only [executeQOrig, populateGroupByQ_sorted toy_sorted]
  decide +kernel

open Updog.Toy in
/-- the repaired code (in general: `Updog.C08.execute_pure`, `Updog.C08.reuse_any_history`) -/
theorem stale_groupby_repaired_ok :
    let r1 := executeQ toyH (tix toyH) q5
    let r2 := executeQ toyH (tix toyH) r1.2
    r1.1 = some ⟨2, [([([97], [49])], 1), ([([97], [50])], 1)]⟩ ∧ r2.1 = r1.1 := by
  simp only [executeQ, populateGroupByQ_sorted toy_sorted]
  decide +kernel

/-- two rows that differ in the fourth column only -/
def rows4 : List Row :=
  [[([97], [49]), ([98], [49]), ([99], [49]), ([100], [49])],
   [([97], [49]), ([98], [49]), ([99], [49]), ([100], [50])]]
def ix4 : Index := (Writer.addRows Toy.toyH {} rows4).toIndex
def cols4 : List Bytes := [[97], [98], [99], [100]]

theorem ix4_sorted : SortedSchema ix4.schema := by decide +kernel

/-- (b) Witness: four group-by columns; the two sibling groups `d=1` and `d=2` share the backing array (length 3,
capacity 4) of their parent and both report `d=2`. -/
theorem shared_backing_original_violates :
    (populateGroupBy ix4.schema cols4).map (fun fs => groupByOrig ix4 fs 3) =
      some [([([97], [49]), ([98], [49]), ([99], [49]), ([100], [50])], 1),
            ([([97], [49]), ([98], [49]), ([99], [49]), ([100], [50])], 1)] := by
  rw [populateGroupBy_sorted ix4_sorted]
  decide +kernel

theorem shared_backing_repaired_ok :
    (populateGroupBy ix4.schema cols4).map (fun fs => groupBy ix4 fs 3) =
      some [([([97], [49]), ([98], [49]), ([99], [49]), ([100], [49])], 1),
            ([([97], [49]), ([98], [49]), ([99], [49]), ([100], [50])], 1)] := by
  rw [populateGroupBy_sorted ix4_sorted]
  decide +kernel

/-- with three columns (`d, b, c`: the siblings are created at length 0 → capacity 1) the original code is right -/
theorem shared_backing_three_columns_fine :
    (populateGroupBy ix4.schema [[100], [98], [99]]).map (fun fs => groupByOrig ix4 fs 3) =
    (populateGroupBy ix4.schema [[100], [98], [99]]).map (fun fs => groupBy ix4 fs 3) := by
  rw [populateGroupBy_sorted ix4_sorted]
  decide +kernel

/-! ## 6. driver — 6025f99, 2ab91ba, 08da9c3, cac1b90 -/

/-- `a = $2` -/
def q6 : PQuery := ⟨.eq [97] [] 2, []⟩

/-- (a) Witness: `a = $2` executed with one argument. -/
theorem bind_original_violates : bindOrig q6 [[120]] = .panic := rfl
theorem bind_repaired_ok : bind q6 [[120]] = .error := rfl
/-- **General.** -/
theorem bind_repaired_general (q : PQuery) (args : List Bytes) : bind q args ≠ .panic := by
  unfold bind; split <;> simp

/-- (b) Witness: a grouped query without matching group is reported as one row holding the total count. -/
theorem newRows_original_violates (c : Bytes) : (newRowsOrig ⟨0, []⟩ [c]).rows = [[Cell.int 0]] := rfl
theorem newRows_repaired_ok (c : Bytes) (n : Nat) : (newRows ⟨n, []⟩ [c]).rows = [] := rfl

/-- one file, two option strings -/
def k0 : DKey := ⟨0, 0⟩
def k1 : DKey := ⟨0, 1⟩

/-- (c1) Witness: `open; close; open; query` — the reopened connection is the cached one, its index is nil. -/
theorem reopen_original_violates :
    (DrvOrig.run (fun _ => true) .empty [.open k0, .close k0, .open k0, .query k0]).2
      = [.ok (), .ok (), .ok (), .panic] := by decide +kernel

theorem reopen_repaired_ok :
    (Drv.run (fun _ => true) .empty [.open k0, .close k0, .open k0, .query k0]).2
      = [.ok (), .ok (), .ok (), .ok ()] := by decide +kernel

/-- two goroutines about to call `openFile` -/
def twoOpeners (a b : DKey) : List (DKey × OpenPc) := [(a, .lookup), (b, .lookup)]

/-- (c2) Witness: two first users of the same data source, schedule `lookup₀ lookup₁ open₀ open₁ insert₀`:
goroutine 1 waits in `OpenIndex` for the exclusive file lock — under EVERY continuation of the schedule. -/
theorem concurrent_first_use_original_violates (rest : List Nat) :
    (runOpens true .empty (twoOpeners k0 k0) ([0, 1, 0, 1, 0] ++ rest)).2 = [(k0, .done), (k0, .openIdx)] := by
  have h : runOpens true .empty (twoOpeners k0 k0) ([0, 1, 0, 1, 0] ++ rest) =
      runOpens true ((runOpens true .empty (twoOpeners k0 k0) [0, 1, 0, 1, 0]).1)
        [(k0, .done), (k0, .openIdx)] rest := rfl
  rw [h, stuck_forever _ _ _ (by decide)]

/-- the repaired `openFile` is one critical section: both serialisations finish (with either kind of file lock),
as in the atomic model `Drv.step` -/
theorem concurrent_first_use_repaired_ok (excl : Bool) :
    ((runOpens excl .empty (twoOpeners k0 k0) [0, 0, 0, 1, 1, 1]).2.map (·.2)) = [.done, .done] ∧
    ((runOpens excl .empty (twoOpeners k0 k0) [1, 1, 1, 0, 0, 0]).2.map (·.2)) = [.done, .done] ∧
    (Drv.run (fun _ => true) .empty [.open k0, .open k0]).2 = [.ok (), .ok ()] := by
  cases excl <;> decide +kernel

/-- (d) Witness: exclusive file lock, two option strings on one file, strictly one after the other: the second
`openFile` never returns. -/
theorem exclusive_lock_original_violates (rest : List Nat) :
    (runOpens true .empty (twoOpeners k0 k1) ([0, 0, 0, 1, 1] ++ rest)).2 = [(k0, .done), (k1, .openIdx)] := by
  have h : runOpens true .empty (twoOpeners k0 k1) ([0, 0, 0, 1, 1] ++ rest) =
      runOpens true ((runOpens true .empty (twoOpeners k0 k1) [0, 0, 0, 1, 1]).1)
        [(k0, .done), (k1, .openIdx)] rest := rfl
  rw [h, stuck_forever _ _ _ (by decide)]

/-- with the shared (read-only) lock both handles open -/
theorem exclusive_lock_repaired_ok :
    ((runOpens false .empty (twoOpeners k0 k1) [0, 0, 0, 1, 1, 1]).2.map (·.2)) = [.done, .done] ∧
    (Drv.run (fun _ => true) .empty [.open k0, .open k1, .query k0, .query k1]).2
      = [.ok (), .ok (), .ok (), .ok ()] := by
  decide +kernel

/-! ## 7. OpenIndex — 2112911 "rejects bbolt files that are not a complete index instead of panicking",
983938d "closes the database when an option fails" -/

/-- Witness: a bbolt file without data bucket (e.g. the file left by a crash before the first commit). -/
theorem open_nobucket_original_violates (o : OpenOpts) :
    openIndexOrig (.bolt false .missing .missing true) 0 o = (.panic, true) := rfl

/-- Witness: schema present, row counter missing or 3 bytes long. -/
theorem open_nocounter_original_violates (o : OpenOpts) :
    openIndexOrig (.bolt true .good .missing true) 0 o = (.panic, true) ∧
    openIndexOrig (.bolt true .good .malformed true) 3 o = (.panic, true) := ⟨rfl, rfl⟩

/-- Witness: a 5-byte row counter is silently accepted. -/
theorem open_longcounter_original_violates :
    openIndexOrig (.bolt true .good .malformed true) 5 ⟨false⟩ = (.ok (), true) := rfl

theorem open_incomplete_repaired_ok (o : OpenOpts) :
    openIndex (.bolt false .missing .missing true) o = (.error, false) ∧
    openIndex (.bolt true .good .missing true) o = (.error, false) ∧
    openIndex (.bolt true .good .malformed true) o = (.error, false) := ⟨rfl, rfl, rfl⟩

/-- **General.** The repaired `OpenIndex` neither panics nor blocks, on any file. -/
theorem open_repaired_general (fs : FileState) (o : OpenOpts) :
    (openIndex fs o).1 ≠ .panic ∧ (openIndex fs o).1 ≠ .hang := by
  unfold openIndex
  cases fs with
  | absent => simp
  | notBolt => simp
  | bolt b s i v => constructor <;> (repeat' split) <;> simp

/-- Witness: preloading hits an undecodable bitmap: error returned, lock kept. -/
theorem open_preload_original_violates :
    openIndexLeak (.bolt true .good .good false) ⟨true⟩ = (.error, true) := rfl
theorem open_preload_repaired_ok :
    openIndex (.bolt true .good .good false) ⟨true⟩ = (.error, false) := rfl

/-- **General.** Every failing repaired `OpenIndex` releases the lock. -/
theorem open_preload_repaired_general (fs : FileState) (o : OpenOpts) (h : (openIndex fs o).1 = .error) :
    (openIndex fs o).2 = false := by
  unfold openIndex at h ⊢
  cases fs with
  | absent => rfl
  | notBolt => rfl
  | bolt b s i v =>
    simp only at h ⊢
    repeat' split
    all_goals first | rfl | simp_all

/-! ## 8. server — b3a7fa1 "incomplete expression trees are rejected with an error instead of crashing" -/

/-- Witness (any hash, any index): a query without expression, an expression without value, a NOT without operand,
an AND with a member without value. -/
theorem server_original_violates (H : Bytes → UInt64) (ix : Index) (id : Int) :
    serverExecuteOrig H ix ⟨id, none, []⟩ = .panic ∧
    serverExecuteOrig H ix ⟨id, some .unset, []⟩ = .panic ∧
    serverExecuteOrig H ix ⟨id, some (.not none), []⟩ = .panic ∧
    serverExecuteOrig H ix ⟨id, some (.and [.eq [97] [49], .unset]), []⟩ = .panic := ⟨rfl, rfl, rfl, rfl⟩

theorem server_repaired_ok (H : Bytes → UInt64) (ix : Index) (id : Int) :
    serverExecute H ix ⟨id, none, []⟩ = .error ∧
    serverExecute H ix ⟨id, some .unset, []⟩ = .error ∧
    serverExecute H ix ⟨id, some (.not none), []⟩ = .error ∧
    serverExecute H ix ⟨id, some (.and [.eq [97] [49], .unset]), []⟩ = .error := ⟨rfl, rfl, rfl, rfl⟩

/-- **General.** -/
theorem server_repaired_general (H : Bytes → UInt64) (ix : Index) (q : WQuery) :
    serverExecute H ix q ≠ .panic := by
  unfold serverExecute
  repeat' split
  all_goals simp

/-! ## 9. big writer — 4e9f82a "no longer panics when the smallest value index is 0",
72e7103 "updog create --big exits on a malformed CSV instead of hanging" -/

/-- **General.** Whenever the smallest temp key has value index 0, the original cursor walk panics. -/
theorem bigwriter_zero_original_general (k : Bytes) (ks : List Bytes) (h : beDecode (k.take 8) = 0) :
    walkOrig (k :: ks) = .panic := by
  have h1 : walkStepOrig (.ok {}) k = .panic := by
    simp [walkStepOrig, Outcome.bind, h]
  simp only [walkOrig, List.foldl_cons, h1, foldl_walkStepOrig_panic]
  rfl

/-- the constant-0 hash and a one-row dataset -/
def H0 : Bytes → UInt64 := fun _ => 0
def rows9 : List Row := [[([97], [49])]]

theorem rows9_temp : (BigWriter.addRows H0 {} rows9).temp = [tempKey 0 0] := by decide +kernel

theorem bigwriter_zero_original_violates : (BigWriter.addRows H0 {} rows9).flushOrig = .panic := by
  have hs : sortKeys (BigWriter.addRows H0 {} rows9).temp = [tempKey 0 0] := by
    rw [rows9_temp]; exact List.mergeSort_singleton _
  have hl : (BigWriter.addRows H0 {} rows9).temp.all (·.length == 12) = true := by rw [rows9_temp]; decide
  rw [BigWriter.flushOrig, hl, hs, bigwriter_zero_original_general _ _ (by decide)]
  rfl

theorem bigwriter_zero_repaired_ok :
    (BigWriter.addRows H0 {} rows9).flush = .ok ([(0, 1)], [([97], [([49], 0)])], 1) := by
  have hs : sortKeys (BigWriter.addRows H0 {} rows9).temp = [tempKey 0 0] := by
    rw [rows9_temp]; exact List.mergeSort_singleton _
  have hl : (BigWriter.addRows H0 {} rows9).temp.all (·.length == 12) = true := by rw [rows9_temp]; decide
  have h1 : walk [tempKey 0 0] = [(0, 1)] := by decide +kernel
  have h2 : (BigWriter.addRows H0 {} rows9).schema = [([97], [([49], 0)])] := by decide +kernel
  have h3 : (BigWriter.addRows H0 {} rows9).next = 1 := by decide +kernel
  rw [BigWriter.flush, hl, BigWriter.flushCore, hs, h1, h2, h3]
  rfl

/-- Witness (= `Updog.C19.unrepaired_hangs`): header readable, a malformed record, no output file yet, `--big`;
without `defer idx.Close()` the deferred `tempDB.Close()` never returns. -/
theorem create_big_original_violates :
    (createRun ⟨true, false⟩ ⟨true, false, false, true⟩).terminates = false := C19.unrepaired_hangs

theorem create_big_repaired_ok :
    (createCmd ⟨true, false, false, true⟩).terminates = true ∧
    (createCmd ⟨true, false, false, true⟩).exitStatus = 1 := ⟨rfl, rfl⟩

/-! ## 10. LRU mutex — d0a4588 "LRUCache is safe for concurrent use"

Not expressible as a value-level witness: the defect is a data race in the Go memory model (unsynchronised map, list
and counter updates). In this model `Get` and `Put` are atomic steps — which is exactly what the mutex provides — so
the original and the repaired code have the same model. The property is covered by the extracted lock-discipline
facts and `-race` runs, not by a theorem. -/

/-! ### non-vacuity of the general statements -/

/-- `lru_overwrite_original_general`: a state holding key 0 and a bitmap larger than the capacity -/
example : ((Lru.empty 72 64).putOrig 0 8 8).items.find? (·.key == 0) = some ⟨0, 8, 8⟩ ∧
    ((Lru.empty 72 64).putOrig 0 8 8).max < id 90 := by decide +kernel

/-- `header_first_original_general` at the witness of `header_first_original_violates` -/
example : openIndex (stateOf (imageAfter (writeTxsOrig C06.w3.schema C06.w3.next perm3 1) 1)) ⟨true⟩ = (.ok (), true) :=
  (header_first_original_general _ _ _ _ 1 (Nat.le_refl 1) _).2

/-- `placeholder_agree_in_range`: `$12` -/
example : placeholderOrig [49, 50] = some 12 ∧ decodePlaceholder [49, 50] = 12 := by decide +kernel

/-- `bigwriter_zero_original_general`: the temp key of value index 0, row 0 -/
example : beDecode ((tempKey 0 0).take 8) = 0 := by decide

/-- `unterminated_original_general`: both alternatives occur -/
example : lexAllOrig [97] = lexAll [97] ∧ lexAll [34, 120] = [] ++ [.error] ∧ lexAllOrig [34, 120] = [] ++ [.eof] := by
  decide +kernel

end Updog.Witnesses
