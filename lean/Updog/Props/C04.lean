/-
C04 — concurrent queries return sequential answers, for every schedule.
Goroutines evaluating expressions against one shared cache are programs whose atomic steps are the cache
operations (`Get` / `Put` hold the cache mutex for their whole body; the index itself is only read, under `RLock`).
A schedule is any list of goroutine indexes. Helper lemmas live in Updog/Proofs/Sched.lean.
-/
import Updog.Proofs.Sched
import Updog.Proofs.Universe
import Updog.Proofs.ToyInstance
namespace Updog.C04
open Updog

variable {H : Bytes → UInt64} {ix : Index} {U : List Expr} {σ : Type} {C : CacheImpl σ}

/-- The program view is faithful: run without interruption, the program of `e` is exactly `evalC` (answer and final
cache state). -/
theorem solo_run_is_evalC (H : Bytes → UInt64) (C : CacheImpl σ) (ix : Index) (e : Expr) (s : σ) :
    runProg C s (evalProg H ix e) = evalC H C ix s e :=
  runProg_evalProg H C ix e s

/-- **Main theorem.** Any number of goroutines evaluating the expressions `es` concurrently on one shared lawful
cache, from any sound cache state, under EVERY schedule (any interleaving of the atomic cache operations, including
schedules that starve goroutines or name goroutines that are finished or do not exist): whenever goroutine `i` has
finished, its result is the sequential, cache-free result of its expression. -/
theorem concurrent_results_sequential (L : CacheLaws C) (hU : SubClosed U) (hkey : KeyOK H ix U)
    (es : List Expr) (hes : ∀ e ∈ es, e ∈ U) (s : σ) (hs : Sound H ix U L s) (sched : List Nat)
    (i : Nat) (r : Option Nat)
    (hdone : (runSched C s (es.map (evalProg H ix)) sched).2[i]? = some (.done r)) :
    ∃ e, es[i]? = some e ∧ r = eval H ix e := by
  have h := (runSched_preserves (L := L) sched s hs _ _ (allGood_evalProg hkey hU es hes)).2 i _ hdone
  obtain ⟨x, hx, hgood⟩ := h
  rw [List.getElem?_map] at hx
  cases he : es[i]? with
  | none => simp [he] at hx
  | some e =>
    simp only [he, Option.map_some, Option.some.injEq] at hx
    exact ⟨e, rfl, hgood.trans hx.symm⟩

/-- … and the shared cache is sound after every schedule (hence at every moment: every prefix of a schedule is a
schedule), so whatever runs afterwards — sequentially or concurrently — is again answered correctly. -/
theorem concurrent_cache_sound (L : CacheLaws C) (hU : SubClosed U) (hkey : KeyOK H ix U)
    (es : List Expr) (hes : ∀ e ∈ es, e ∈ U) (s : σ) (hs : Sound H ix U L s) (sched : List Nat) :
    Sound H ix U L (runSched C s (es.map (evalProg H ix)) sched).1 :=
  (runSched_preserves (L := L) sched s hs _ _ (allGood_evalProg hkey hU es hes)).1

/-- no goroutine appears or disappears -/
theorem schedule_keeps_goroutines (C : CacheImpl σ) (s : σ) (progs : List Prog) (sched : List Nat) :
    (runSched C s progs sched).2.length = progs.length :=
  runSched_length sched s progs

/-- **Query level.** Concurrent `Execute` calls: the answer each finished goroutine returns is the answer of the
cache-free sequential `Execute`. -/
theorem concurrent_answers_sequential (L : CacheLaws C) (hU : SubClosed U) (hkey : KeyOK H ix U)
    (qs : List Query) (hqs : ∀ q ∈ qs, q.expr ∈ U) (s : σ) (hs : Sound H ix U L s) (sched : List Nat)
    (i : Nat) (r : Option Nat)
    (hdone : (runSched C s ((qs.map (·.expr)).map (evalProg H ix)) sched).2[i]? = some (.done r)) :
    ∃ q, qs[i]? = some q ∧ finishQuery ix q r = execute H ix q := by
  obtain ⟨e, he, hr⟩ := concurrent_results_sequential L hU hkey (qs.map (·.expr))
    (by intro e he; obtain ⟨q, hq, rfl⟩ := List.mem_map.mp he; exact hqs q hq) s hs sched i r hdone
  rw [List.getElem?_map] at he
  cases hq : qs[i]? with
  | none => simp [hq] at he
  | some q =>
    simp only [hq, Option.map_some, Option.some.injEq] at he
    refine ⟨q, rfl, ?_⟩
    subst he hr
    rfl

/-- **End to end, LRU.** Goroutines on a shared `LRUCache` of any capacity and in any sound state — e.g. fresh —:
if the hash has no collision on the strings hashed for the cache keys of the workload and leaves with equal value
index agree on the existence of their column, every finished goroutine has the sequential result, under every
schedule. -/
theorem lru_concurrent_results_sequential (H : Bytes → UInt64) (ix : Index) (sz : Nat → Nat) (c0 : Lru)
    (h0 : c0.items = []) (es : List Expr) (hinj : InjOn H (es.flatMap (preimages H)))
    (hagree : KnownAgree H ix (es.flatMap Expr.pairs)) (sched : List Nat) (i : Nat) (r : Option Nat)
    (hdone : (runSched (lruCacheImpl sz) c0 (es.map (evalProg H ix)) sched).2[i]? = some (.done r)) :
    ∃ e, es[i]? = some e ∧ r = eval H ix e :=
  concurrent_results_sequential (lruCacheLaws sz) (subsOf_closed es) (keyOK_of_injOn H ix es hinj hagree) es
    (subsOf_mem es) c0
    (EmptyState.sound H ix _ _ (by intro k bm ⟨it, hit, _⟩; rw [h0] at hit; cases hit)) sched i r hdone

/-- **Completeness (no deadlock / no livelock in the model).** Whatever the cache does, the schedule that runs the
goroutines one after the other, each until it is finished, finishes everybody — so the main theorem is not vacuous:
schedules under which all goroutines are `done` exist from every state. -/
theorem sequential_schedule_completes (C : CacheImpl σ) (s : σ) (progs : List Prog) :
    ∃ sched, ∀ p ∈ (runSched C s progs sched).2, p.isDone = true := by
  simpa using sequential_schedule_finishes (C := C) progs [] s (by simp)

/-! ### non-vacuity -/

section Examples
open Updog.Toy

/-- the hypotheses of the main theorem hold for this instance (LRU, capacity 0 and large) and all three goroutines
finish under `sched`, with the right results -/
example (cap : Nat) (i : Nat) (r : Option Nat)
    (h : (runSched (lruCacheImpl sz) (lru cap) (es.map (evalProg toyH (tix toyH))) sched).2[i]? = some (.done r)) :
    ∃ e, es[i]? = some e ∧ r = eval toyH (tix toyH) e :=
  lru_concurrent_results_sequential toyH (tix toyH) sz (lru cap) rfl es (by decide +kernel) (by decide +kernel)
    sched i r h

/-- … and the premise `done` is reached: under `sched` all three goroutines finish, on an LRU of capacity 0 and on a
large one, with the bitmaps {0}, {0,2}, {0}; on the large one some lookups are hits. -/
example :
    ((runSched (lruCacheImpl sz) (lru 0) (es.map (evalProg toyH (tix toyH))) sched).2.map Prog.result?) =
      [some (some 1), some (some 5), some (some 1)] ∧
    ((runSched (lruCacheImpl sz) (lru 100000) (es.map (evalProg toyH (tix toyH))) sched).2.map Prog.result?) =
      [some (some 1), some (some 5), some (some 1)] ∧
    (runSched (lruCacheImpl sz) (lru 100000) (es.map (evalProg toyH (tix toyH))) sched).1.hits > 0 := by
  rw [lruCacheImpl_eq_lruS]
  decide +kernel

/-- the abstract form of the hypotheses (`SubClosed`, `KeyOK`, `Sound`) for the same instance -/
example : SubClosed (subsOf es) ∧ KeyOK toyH (tix toyH) (subsOf es) ∧
    Sound toyH (tix toyH) (subsOf es) (lruCacheLaws sz) (lru 0) ∧ (∀ e ∈ es, e ∈ subsOf es) :=
  ⟨subsOf_closed es, keyOK_of_injOn toyH (tix toyH) es (by decide +kernel) (by decide +kernel),
    EmptyState.sound _ _ _ _ (by intro k bm ⟨it, hit, _⟩; cases hit), subsOf_mem es⟩

/-- The collision hypothesis cannot be dropped here either: if all cache keys collide, an interleaving makes
goroutine 0 return a wrong bitmap. -/
example : ((runSched (lruCacheImpl sz) (lru 100000) (es.map (evalProg badH (tix badH))) sched).2.map Prog.result?)
      ≠ [some (some 1), some (some 5), some (some 1)] ∧
    es.map (eval badH (tix badH)) = [some 1, some 5, some 1] := by
  rw [lruCacheImpl_eq_lruS]
  decide +kernel

end Examples

end Updog.C04
