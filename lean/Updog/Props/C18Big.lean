/-
C18 (disk-backed big writer, and the flushed index of both writers) — concurrent `AddRow` calls lose, duplicate and
mix nothing, also across the periodic commit of the temporary database.

`BigIndexWriter.AddRow` holds the writer's mutex for its whole body (id read, puts into the open temp transaction,
the commit every 1000 rows, deferred increment), so every interleaving of goroutines is a schedule of whole calls
(`C18.interleave`).  The model is `Model/BigWriterTx.lean`: the temp bucket is split into what is COMMITTED in tempDB and
what is PENDING in the open write transaction; `Flush` commits and then reads the committed bucket only.
Helper lemmas: `Proofs/C18Big.lean` (simulation, invariant across commits), `Proofs/C18Perm.lean` (permutations).

(a) `big_*`, `crash_*`, `generated_addRow_chain`: ids, per-goroutine order, the temp bucket invariant, the flushed index.
(b) `mem_*`, `both_writers_*`, `*_any_schedule`: the flushed in-memory index, semantically.
(c) `same_assignment_*`, `index_depends_*`, `perm_*`: which index two different executions produce.
-/
import Updog.Props.C18
import Updog.Proofs.C18Perm
import Updog.Props.Gen.Writer
import Updog.Proofs.GenBigTx
namespace Updog.C18
open Updog

/-- the index `OpenIndex` yields on the file written by `Flush` of the transaction model (schema `S`, counter `I`,
    `GetCol` on the data bucket) — the construction of `C05.bigIndex` -/
abbrev txIndex (st : BigWriterTx) : Index := ⟨(flushTx st).2.1, (flushTx st).2.2, (flushTx st).1.get⟩

section
variable (H : Bytes → UInt64)

/-! ### (a) the big writer under every schedule -/

/-- For EVERY schedule of every set of goroutine queues: the ids the big writer's `AddRow` calls return are exactly
    0, 1, …, n−1 in execution order — no gaps, no duplicates — whatever commits happen in between. -/
theorem big_ids_exact (sched : List Nat) (queues : List (List Row)) :
    let calls := (interleave sched queues).1
    (runCallsBigTx H {} calls).1 = List.range calls.length := by
  intro calls
  rw [runCallsBigTx_ids]
  simp

/-- Each goroutine sees strictly increasing ids: pair every executed call with the id it got and keep the calls of
    goroutine `g`; their ids are strictly increasing (so a goroutine's rows keep their relative order in the index). -/
theorem big_ids_increasing (sched : List Nat) (queues : List (List Row)) (g : Nat) :
    let calls := (interleave sched queues).1
    let ids := (runCallsBigTx H {} calls).1
    (((calls.zip ids).filter (·.1.1 == g)).map (·.2)).Pairwise (· < ·) := by
  intro calls ids
  have : ids = List.range calls.length := big_ids_exact H sched queues
  rw [this]
  exact ids_of_goroutine_increasing calls g

/-- the same for the in-memory writer -/
theorem mem_ids_increasing (sched : List Nat) (queues : List (List Row)) (g : Nat) :
    let calls := (interleave sched queues).1
    let ids := (runCalls H {} calls).1
    (((calls.zip ids).filter (·.1.1 == g)).map (·.2)).Pairwise (· < ·) := by
  intro calls ids
  have : ids = List.range calls.length := (ids_exact H sched queues).1
  rw [this]
  exact ids_of_goroutine_increasing calls g

/-- **The temp bucket across commit boundaries, for every schedule.**  After the calls of the schedule (rows in id
    order `rows`, `n` of them): the counter is `n`; `(n−1)/1000` commits happened; the bucket the writer sees holds
    exactly the keys `be64(h) ‖ be32(j)` with row `j` carrying a pair of value index `h`; the part COMMITTED in tempDB
    holds exactly those with `j < committedRows n`; the open transaction holds the rest; no key is stored twice. -/
theorem big_temp_invariant (sched : List Nat) (queues : List (List Row)) :
    let calls := (interleave sched queues).1
    TxInv H (runCallsBigTx H {} calls).2 (calls.map (·.2)) :=
  (txSim_runCalls H _).inv H

/-- the committed rows of `big_temp_invariant`, spelled out: nothing before the first commit, afterwards the rows
    with id `≤ lastCommit n` = the largest positive multiple of 1000 that is `≤ n − 1` -/
theorem committed_rows_spec (n j : Nat) :
    (j < committedRows n ↔ 0 < commitCount n ∧ j ≤ lastCommit n) ∧
    (0 < commitCount n → 0 < lastCommit n ∧ lastCommit n % 1000 = 0 ∧ lastCommit n ≤ n - 1 ∧ n - 1 < lastCommit n + 1000) ∧
    (commitCount n = 0 ↔ n ≤ 1000) := by
  refine ⟨lt_committedRows_iff n j, lastCommit_spec n, ?_⟩
  unfold commitCount; omega

/-- the number of temp commits after `n` calls is `(n − 1) / 1000`, whatever the schedule: the calls that get the ids
    1000, 2000, … commit -/
theorem big_commit_count (sched : List Nat) (queues : List (List Row)) :
    let calls := (interleave sched queues).1
    (runCallsBigTx H {} calls).2.commits = (calls.length - 1) / 1000 := by
  intro calls
  have := (big_temp_invariant H sched queues).commits
  simpa [commitCount] using this

/-- **What a crash / an abandoned writer leaves.**  If the writer is abandoned after the calls of a schedule (the
    process dies, or `Close` rolls the open transaction back), tempDB holds exactly the keys of the rows with id
    `< committedRows n` — literally the temp bucket a sequential insertion of that prefix of the rows produces — and a
    `Flush`-like walk over it yields exactly that prefix's image. -/
theorem crash_leaves_committed_prefix (sched : List Nat) (queues : List (List Row)) :
    let calls := (interleave sched queues).1
    let rows := calls.map (·.2)
    let st := (runCallsBigTx H {} calls).2
    (∀ k, k ∈ st.abandon.committed ↔
      ∃ h j, rowHas H rows h j = true ∧ j < committedRows rows.length ∧ k = tempKey h.toNat j) ∧
    st.abandon.committed = (BigWriter.addRows H {} (rows.take (committedRows rows.length))).temp ∧
    st.abandon.pending = [] ∧
    abandonedWalk st = (BigWriter.image H (rows.take (committedRows rows.length))).1 := by
  intro calls rows st
  have sim := txSim_runCalls H calls
  refine ⟨(sim.inv H).committed, sim.committed, rfl, ?_⟩
  show walk (sortKeys st.committed) = _
  rw [sim.committed]; rfl

/-- bit level: in the walk over an abandoned tempDB, bit `j` under value index `h` is set iff row `j` is one of the
    committed rows and carries a pair of value index `h` -/
theorem crash_bitmap_spec (sched : List Nat) (queues : List (List Row)) (h : UInt64) (j : Nat) :
    let calls := (interleave sched queues).1
    calls.length ≤ 2 ^ 32 →
    (((abandonedWalk (runCallsBigTx H {} calls).2).get h).getD 0).testBit j
      = (decide (j < committedRows calls.length) && rowHas H (calls.map (·.2)) h j) := by
  intro calls hlen
  have := (big_temp_invariant H sched queues).abandoned_testBit H (by simpa using hlen) h j
  simpa using this

/-- with at most 2^32 rows the open transaction holds exactly the keys of the rows after the last commit -/
theorem big_pending_spec (sched : List Nat) (queues : List (List Row)) (k : Bytes) :
    let calls := (interleave sched queues).1
    let rows := calls.map (·.2)
    rows.length ≤ 2 ^ 32 →
    (k ∈ (runCallsBigTx H {} calls).2.pending ↔
      ∃ h j, rowHas H rows h j = true ∧ committedRows rows.length ≤ j ∧ k = tempKey h.toNat j) := by
  intro calls rows hlen
  exact (big_temp_invariant H sched queues).pending_iff H hlen k

/-- **The flushed image, for every schedule.**  `Flush` (final commit, then the cursor walk over the COMMITTED bucket)
    after the calls of any schedule writes exactly the image of the sequential insertion of the same rows in id order:
    data bucket, schema `S` and counter `I`; and it never takes the "invalid temp key" branch. -/
theorem big_flushed_image (sched : List Nat) (queues : List (List Row)) :
    let calls := (interleave sched queues).1
    flushTx (runCallsBigTx H {} calls).2 = BigWriter.image H (calls.map (·.2)) ∧
    flushTxChecked (runCallsBigTx H {} calls).2 = .ok (BigWriter.image H (calls.map (·.2))) := by
  intro calls
  have sim := txSim_runCalls H calls
  have hf := sim.flush H
  refine ⟨hf, ?_⟩
  have : (runCallsBigTx H {} calls).2.commit.committed.all (·.length == 12) = true := by
    rw [List.all_eq_true]
    intro k hk
    obtain ⟨h, j, _, e⟩ := ((sim.inv H).commit_full H k).mp hk
    subst e; rfl
  simp [flushTxChecked, this, hf]

/-- the final commit of `Flush` is what makes every key visible to its read-only transaction: after it the committed
    bucket is the full key set (before it, only the rows up to the last periodic commit are there,
    `crash_leaves_committed_prefix`) -/
theorem big_flush_commits_everything (sched : List Nat) (queues : List (List Row)) (k : Bytes) :
    let calls := (interleave sched queues).1
    k ∈ (runCallsBigTx H {} calls).2.commit.committed ↔
      ∃ h j, rowHas H (calls.map (·.2)) h j = true ∧ k = tempKey h.toNat j :=
  (big_temp_invariant H sched queues).commit_full H k

/-- bit level, derived from the bucket invariant and the cursor walk alone (no reference to `Model/BigWriter.lean`):
    in the flushed data bucket bit `i` under value index `h` is set iff the `i`-th executed call's row carries a pair
    of value index `h` -/
theorem big_flushed_bitmap_spec (sched : List Nat) (queues : List (List Row)) (h : UInt64) (i : Nat) :
    let calls := (interleave sched queues).1
    calls.length ≤ 2 ^ 32 →
    (((txIndex (runCallsBigTx H {} calls).2).getCol h).getD 0).testBit i = rowHas H (calls.map (·.2)) h i := by
  intro calls hlen
  exact (big_temp_invariant H sched queues).flush_testBit H (by simpa using hlen) h i

/-- **The flushed index, for every schedule** (at most 2^32 calls): the index opened from the big writer's output is
    the index of the sequential insertion of the rows in id order — `C05.bigIndex` — which is the index the in-memory
    writer produces for these rows. -/
theorem big_flushed_index (sched : List Nat) (queues : List (List Row)) :
    let calls := (interleave sched queues).1
    calls.length ≤ 2 ^ 32 →
    txIndex (runCallsBigTx H {} calls).2 = C05.bigIndex H (calls.map (·.2)) ∧
    txIndex (runCallsBigTx H {} calls).2 = (Writer.addRows H {} (calls.map (·.2))).toIndex := by
  intro calls hlen
  have hf : flushTx (runCallsBigTx H {} calls).2 = BigWriter.image H (calls.map (·.2)) :=
    (big_flushed_image H sched queues).1
  have e : txIndex (runCallsBigTx H {} calls).2 = C05.bigIndex H (calls.map (·.2)) := by
    unfold txIndex C05.bigIndex
    rw [hf]
  exact ⟨e, e.trans (C01.bigIndex_eq H _ (by simpa using hlen))⟩

/-- The representation of the bucket as a list is immaterial: two states with the same key set (in any order), schema
    and counter are flushed to the same image. -/
theorem big_flush_depends_on_key_set (st₁ st₂ : BigWriterTx) (hn₁ : st₁.visible.Nodup) (hn₂ : st₂.visible.Nodup)
    (hk : ∀ k, k ∈ st₁.visible ↔ k ∈ st₂.visible) (hs : st₁.schema = st₂.schema) (hx : st₁.next = st₂.next) :
    flushTx st₁ = flushTx st₂ :=
  flushTx_order_irrelevant st₁ st₂ hn₁ hn₂ hk hs hx

/-! ### the chain generated code → `BigWriter.addRow` → transaction model -/

/-- one `AddRow` of the transaction model is one `BigWriter.addRow` on the bucket the writer sees (`toBig` =
    committed ∪ pending), committing or not, and returns the counter before the call -/
theorem tx_simulates_big (st : BigWriterTx) (r : Row) :
    (addRowTx H st r).2.toBig = BigWriter.addRow H st.toBig r ∧ (addRowTx H st r).1 = st.toBig.next :=
  ⟨toBig_addRowTx H st r, rfl⟩

open Updog.GeneratedEq Updog.Go.T3 in
/-- **Generated call → transaction model.**  `TxRel bolt hp idx d c0 st` says the Go state stands for the model state
    `st`: the bucket the writer's open transaction sees holds `st.committed ∪ st.pending`, the bucket COMMITTED in the bolt
    database holds exactly `st.committed`, and the database has performed `c0 + st.commits` commits.  From such a state
    (ready, well-formed heap, room for one more id) ONE call of the generated `(*BigIndexWriter).AddRow` returns the id the
    model's `addRowTx` returns (the counter before the call) and nil, and ends ready for the next call in a state that
    stands for the model's next state — it commits exactly when the model does (`rowID > 0 && rowID%1000 == 0` on the id of
    this call) and what it commits is what the model commits.  So a schedule of generated calls is a run of `runCallsBigTx`.
    (Extends `GeneratedEq.bigIndexWriterAddRow_eq`, which relates the visible bucket only.) -/
theorem generated_addRow_chain (bolt : Bolt) (hp : Heap) (idx : BigIndexWriter) (values : List (Bytes × Bytes))
    (d : BucketData) (c0 : Nat) (st : BigWriterTx)
    (hr : BigReady bolt idx d) (wf : SchemaWF H hp idx.schema) (rel : TxRel bolt hp idx d c0 st)
    (hnext : idx.nextRowID.toNat = st.next) (hroom : idx.nextRowID.toNat + 1 < 2 ^ 32) :
    let res := Gen.bigIndexWriterAddRow H bolt hp idx values
    res.2.2.2 = (idx.nextRowID, nilError) ∧ idx.nextRowID.toNat = (addRowTx H st values).1 ∧
    ∃ d', BigReady res.1 res.2.2.1 d' ∧ SchemaWF H res.2.1 res.2.2.1.schema ∧
      TxRel res.1 res.2.1 res.2.2.1 d' c0 (addRowTx H st values).2 ∧
      res.2.2.1.nextRowID.toNat = (addRowTx H st values).2.next ∧
      (idx.mtx = {} → res.2.2.1.mtx = {}) :=
  bigIndexWriterAddRow_tx_spec H bolt hp idx values d c0 st hr wf rel hnext hroom _ rfl

open Updog.GeneratedEq Updog.Go.T3 in
/-- the hypotheses of `generated_addRow_chain` hold in the state `NewBigIndexWriter` leaves (bucket created, write
    transaction open, no commit counted yet) against the model's initial state -/
example : BigReady demoTemp { tempDB := some 7, tempTx := some 0 } [] ∧
    SchemaWF H {} ({ tempDB := some 7, tempTx := some 0 } : BigIndexWriter).schema ∧
    TxRel demoTemp {} { tempDB := some 7, tempTx := some 0 } [] 0 {} := by
  refine ⟨⟨rfl, rfl, _, rfl, rfl, rfl, rfl⟩, ⟨PtrsOK.nil _, ?_⟩, ⟨rfl, ?_⟩, ⟨[], rfl, ?_⟩, rfl⟩
  · intro cv hcv; simp [schemaValue] at hcv
  · intro k; simp [BigWriterTx.toBig, BigWriterTx.visible]
  · intro k; simp

/-! ### (b) the flushed in-memory index, semantically -/

/-- **The flushed in-memory index, for every schedule**, characterised without reference to a sequential run:
    its row count is the number of executed calls; bit `i` of the bitmap under value index `h` is set iff the `i`-th
    executed call's row carries a pair of value index `h`; `h` is a key iff some executed row carries such a pair; its
    columns are the columns of the executed rows; and `GetSchema` returns exactly their columns and distinct values. -/
theorem mem_flushed_index_spec (sched : List Nat) (queues : List (List Row)) :
    let calls := (interleave sched queues).1
    let rows := calls.map (·.2)
    let ix := (runCalls H {} calls).2.toIndex
    ix.next = calls.length ∧
    (∀ h i, ((ix.getCol h).getD 0).testBit i = rowHas H rows h i) ∧
    (∀ h, (ix.getCol h).isSome = hashIn H rows h) ∧
    (∀ c, (ix.schema.col c).isSome = (columnsOf rows).contains c) ∧
    getSchema ix = specSchema rows := by
  intro calls rows ix
  refine ⟨?_, (winv_addRows H rows).vals, ?_, ?_, C05.schema_roundtrip H rows⟩
  · show (Writer.addRows H {} rows).next = calls.length
    rw [(winv_addRows H rows).next]
    simp [rows]
  · intro h
    show ((Writer.addRows H {} rows).vals.get h).isSome = _
    rw [addRows_isSome]; simp [ValMap.get]
  · intro c
    show ((Writer.addRows H {} rows).schema.col c).isSome = _
    rw [schema_col_isSome]; simp [Schema.col]

/-- **Both writers, same schedule, same answers.**  For every schedule (at most 2^32 calls) and EVERY query, `Execute`
    on the index flushed by the big writer equals `Execute` on the index flushed by the in-memory writer. -/
theorem both_writers_same_answer (sched : List Nat) (queues : List (List Row)) (q : Query) :
    let calls := (interleave sched queues).1
    calls.length ≤ 2 ^ 32 →
    execute H (txIndex (runCallsBigTx H {} calls).2) q = execute H (runCalls H {} calls).2.toIndex q := by
  intro calls hlen
  rw [(big_flushed_index H sched queues hlen).2]
  rfl

/-- **Counts after concurrent insertion.**  Under the hypotheses of `C01.count_correct` for the executed rows, the total
    count of `e` on the in-memory writer's flushed index is the number of executed rows satisfying `e` — for every
    schedule — and (at most 2^32 calls) so is the count on the big writer's flushed index. -/
theorem count_correct_any_schedule (sched : List Nat) (queues : List (List Row)) (e : Expr) :
    let calls := (interleave sched queues).1
    let rows := calls.map (·.2)
    (∀ c ∈ e.columns, c ∈ columnsOf rows) → e.arityPos = true → NoCollision H rows e.pairs →
    execute H (runCalls H {} calls).2.toIndex ⟨e, []⟩ = some ⟨specCount rows e, []⟩ ∧
    (calls.length ≤ 2 ^ 32 →
      execute H (txIndex (runCallsBigTx H {} calls).2) ⟨e, []⟩ = some ⟨specCount rows e, []⟩) := by
  intro calls rows hcols hwf hinj
  have h := C01.count_correct H rows e hcols hwf hinj
  refine ⟨h, fun hlen => ?_⟩
  rw [both_writers_same_answer H sched queues _ hlen]
  exact h

/-- … and with group-by (hypotheses of `C02.groupBy_eq_spec`): the whole answer, count and groups, is the
    specification's answer on the executed rows, on both writers' flushed indexes. -/
theorem answer_correct_any_schedule (sched : List Nat) (queues : List (List Row)) (e : Expr) (cols : List Bytes) :
    let calls := (interleave sched queues).1
    let rows := calls.map (·.2)
    (∀ c ∈ e.columns, c ∈ columnsOf rows) → e.arityPos = true → NoCollision H rows e.pairs →
    DataNoCollision H rows → (∀ c ∈ cols, c ∈ columnsOf rows) →
    execute H (runCalls H {} calls).2.toIndex ⟨e, cols⟩ = specExecute rows ⟨e, cols⟩ ∧
    (calls.length ≤ 2 ^ 32 →
      execute H (txIndex (runCallsBigTx H {} calls).2) ⟨e, cols⟩ = specExecute rows ⟨e, cols⟩) := by
  intro calls rows hcols hwf hinj hD hg
  have h := C02.groupBy_eq_spec H rows e cols hcols hwf hinj hD hg
  refine ⟨h, fun hlen => ?_⟩
  rw [both_writers_same_answer H sched queues _ hlen]
  exact h

/-! ### (c1) same assignment of ids to rows ⇒ same index -/

/-- If two executions (different schedules, queues, goroutine structure) assign the same ids to the same rows — their
    call lists carry the same rows in the same order, the goroutine tags may differ — then the big writer flushes the
    same image and the in-memory writer the same index. -/
theorem same_assignment_same_index (sched₁ sched₂ : List Nat) (queues₁ queues₂ : List (List Row)) :
    let calls₁ := (interleave sched₁ queues₁).1
    let calls₂ := (interleave sched₂ queues₂).1
    calls₁.map (·.2) = calls₂.map (·.2) →
    flushTx (runCallsBigTx H {} calls₁).2 = flushTx (runCallsBigTx H {} calls₂).2 ∧
    txIndex (runCallsBigTx H {} calls₁).2 = txIndex (runCallsBigTx H {} calls₂).2 ∧
    (runCalls H {} calls₁).2.toIndex = (runCalls H {} calls₂).2.toIndex := by
  intro calls₁ calls₂ he
  have hf : flushTx (runCallsBigTx H {} calls₁).2 = flushTx (runCallsBigTx H {} calls₂).2 := by
    rw [(big_flushed_image H sched₁ queues₁).1, (big_flushed_image H sched₂ queues₂).1, he]
  refine ⟨hf, by simp only [txIndex, hf], ?_⟩
  simp only [runCalls, he]

/-- The flushed index depends only on the MULTISET of (id, row) pairs: if the pairs (returned id, row) of two executions
    are the same up to order, both writers produce the same index in both executions. -/
theorem index_depends_on_id_row_multiset (calls₁ calls₂ : List (Nat × Row))
    (hp : ((runCallsBigTx H {} calls₁).1.zip (calls₁.map (·.2))).Perm
          ((runCallsBigTx H {} calls₂).1.zip (calls₂.map (·.2)))) :
    flushTx (runCallsBigTx H {} calls₁).2 = flushTx (runCallsBigTx H {} calls₂).2 ∧
    (runCalls H {} calls₁).2.toIndex = (runCalls H {} calls₂).2.toIndex := by
  have he : calls₁.map (·.2) = calls₂.map (·.2) := by
    apply rows_eq_of_zip_perm
    simpa [runCallsBigTx_ids] using hp
  refine ⟨?_, by simp only [runCalls, he]⟩
  rw [(txSim_runCalls H calls₁).flush H, (txSim_runCalls H calls₂).flush H, he]

/-! ### (c2) a different call order ⇒ the same index up to the renaming of row ids

`p` is a permutation of the ids `0 … n−1`; execution 2 gives id `i` to the row that has id `p[i]` in execution 1:
`rows₂ = permRows p rows₁`, i.e. `rows₂[i] = rows₁[p[i]]`. -/

/-- the renamed dataset is a permutation of the original, with the same number of rows -/
theorem perm_rows (p : List Nat) (rows₁ : List Row) (hp : p.Perm (List.range rows₁.length)) :
    (permRows p rows₁).Perm rows₁ ∧ (permRows p rows₁).length = rows₁.length :=
  ⟨permRows_perm p rows₁ hp, (permRows_length p rows₁).trans (by simpa using hp.length_eq)⟩

/-- **Bitmaps up to renaming.**  For every value index `h` and every id `i < n`: bit `i` of the bitmap of `h` in
    index 2 is bit `p[i]` of the bitmap of `h` in index 1 — in the in-memory writer's flushed index and (at most 2^32
    rows) in the big writer's flushed index. -/
theorem perm_bits (calls₁ calls₂ : List (Nat × Row)) (p : List Nat)
    (hp : p.Perm (List.range calls₁.length)) (h₂ : calls₂.map (·.2) = permRows p (calls₁.map (·.2)))
    (h : UInt64) (i : Nat) (hi : i < p.length) :
    (((runCalls H {} calls₂).2.toIndex.getCol h).getD 0).testBit i
      = (((runCalls H {} calls₁).2.toIndex.getCol h).getD 0).testBit p[i] ∧
    (calls₁.length ≤ 2 ^ 32 →
      (((txIndex (runCallsBigTx H {} calls₂).2).getCol h).getD 0).testBit i
        = (((txIndex (runCallsBigTx H {} calls₁).2).getCol h).getD 0).testBit p[i]) := by
  have hm : (((runCalls H {} calls₂).2.toIndex.getCol h).getD 0).testBit i
      = (((runCalls H {} calls₁).2.toIndex.getCol h).getD 0).testBit p[i] := by
    show (((Writer.addRows H {} (calls₂.map (·.2))).vals.get h).getD 0).testBit i
      = (((Writer.addRows H {} (calls₁.map (·.2))).vals.get h).getD 0).testBit p[i]
    rw [(winv_addRows H _).vals, (winv_addRows H _).vals, h₂, rowHas_permRows H p _ h i hi]
  refine ⟨hm, fun hlen => ?_⟩
  have hl₂ : (calls₂.map (·.2)).length ≤ 2 ^ 32 := by
    rw [h₂, permRows_length, hp.length_eq]; simpa using hlen
  have e₁ := (txSim_runCalls H calls₁).flush H
  have e₂ := (txSim_runCalls H calls₂).flush H
  simp only [e₁, e₂]
  rw [image_testBit H _ hl₂, image_testBit H _ (by simpa using hlen), h₂, rowHas_permRows H p _ h i hi]

/-- **Same keys, same row count.**  The value indexes present in the data bucket coincide, and so do the row
    counters. -/
theorem perm_keys (calls₁ calls₂ : List (Nat × Row)) (p : List Nat)
    (hp : p.Perm (List.range calls₁.length)) (h₂ : calls₂.map (·.2) = permRows p (calls₁.map (·.2))) :
    (∀ h, ((runCalls H {} calls₂).2.toIndex.getCol h).isSome = ((runCalls H {} calls₁).2.toIndex.getCol h).isSome) ∧
    (runCalls H {} calls₂).2.toIndex.next = (runCalls H {} calls₁).2.toIndex.next ∧
    (calls₁.length ≤ 2 ^ 32 →
      (∀ h, ((txIndex (runCallsBigTx H {} calls₂).2).getCol h).isSome
          = ((txIndex (runCallsBigTx H {} calls₁).2).getCol h).isSome) ∧
      (txIndex (runCallsBigTx H {} calls₂).2).next = (txIndex (runCallsBigTx H {} calls₁).2).next) := by
  have hperm : (calls₂.map (·.2)).Perm (calls₁.map (·.2)) := by
    rw [h₂]; exact permRows_perm p _ (by simpa using hp)
  have hk : ∀ h, ((Writer.addRows H {} (calls₂.map (·.2))).vals.get h).isSome
      = ((Writer.addRows H {} (calls₁.map (·.2))).vals.get h).isSome := by
    intro h
    rw [addRows_isSome, addRows_isSome, hashIn_perm H hperm]
  have hn : (Writer.addRows H {} (calls₂.map (·.2))).next = (Writer.addRows H {} (calls₁.map (·.2))).next := by
    rw [(winv_addRows H _).next, (winv_addRows H _).next, hperm.length_eq]
  refine ⟨hk, hn, fun hlen => ?_⟩
  have hl₁ : (calls₁.map (·.2)).length ≤ 2 ^ 32 := by simpa using hlen
  have hl₂ : (calls₂.map (·.2)).length ≤ 2 ^ 32 := by rw [hperm.length_eq]; exact hl₁
  have e₁ := (txSim_runCalls H calls₁).flush H
  have e₂ := (txSim_runCalls H calls₂).flush H
  simp only [e₁, e₂]
  refine ⟨fun h => ?_, ?_⟩
  · rw [image_isSome H _ hl₂, image_isSome H _ hl₁, hashIn_perm H hperm]
  · show (BigWriter.addRows H {} _).next = (BigWriter.addRows H {} _).next
    rw [(binv_addRows H _).next, (binv_addRows H _).next, hperm.length_eq]

/-- **Schemas.**  `GetSchema` returns the same answer on both indexes.  The stored schema (insertion ordered, as
    gob-encoded under `S`) has the same columns; per column the same (value, value index) entries up to order; the same
    column names up to order.  (Literal equality of the stored schemas does NOT hold: their order is first-use order.) -/
theorem perm_schema (calls₁ calls₂ : List (Nat × Row)) (p : List Nat)
    (hp : p.Perm (List.range calls₁.length)) (h₂ : calls₂.map (·.2) = permRows p (calls₁.map (·.2))) :
    let s₁ := (runCalls H {} calls₁).2.toIndex.schema
    let s₂ := (runCalls H {} calls₂).2.toIndex.schema
    getSchema (runCalls H {} calls₂).2.toIndex = getSchema (runCalls H {} calls₁).2.toIndex ∧
    (∀ c, (s₂.col c).isSome = (s₁.col c).isSome) ∧
    (∀ c vs₁ vs₂, s₁.col c = some vs₁ → s₂.col c = some vs₂ → vs₂.Perm vs₁) ∧
    (s₂.map (·.1)).Perm (s₁.map (·.1)) ∧
    (flushTx (runCallsBigTx H {} calls₁).2).2.1 = s₁ ∧ (flushTx (runCallsBigTx H {} calls₂).2).2.1 = s₂ := by
  intro s₁ s₂
  have hperm : (calls₂.map (·.2)).Perm (calls₁.map (·.2)) := by
    rw [h₂]; exact permRows_perm p _ (by simpa using hp)
  refine ⟨?_, schema_col_isSome_perm H hperm, fun c vs₁ vs₂ g₁ g₂ => schema_col_perm H hperm c vs₂ vs₁ g₂ g₁,
    schema_keys_perm H hperm, ?_, ?_⟩
  · show getSchema (Writer.addRows H {} _).toIndex = getSchema (Writer.addRows H {} _).toIndex
    rw [C05.schema_roundtrip, C05.schema_roundtrip, specSchema_perm hperm]
  · rw [(txSim_runCalls H calls₁).flush H]; exact big_addRows_schema H _ {} {} rfl
  · rw [(txSim_runCalls H calls₂).flush H]; exact big_addRows_schema H _ {} {} rfl

/-- the number of rows satisfying an expression does not depend on the order of the rows -/
theorem perm_specCount (rows₁ : List Row) (p : List Nat) (hp : p.Perm (List.range rows₁.length)) (e : Expr) :
    specCount (permRows p rows₁) e = specCount rows₁ e :=
  specCount_perm (permRows_perm p rows₁ hp) e

/-- **Same total count.**  Under C01's hypotheses for the rows of execution 1 (they carry over to execution 2), `Execute`
    returns the same total count on the indexes of both executions, for both writers. -/
theorem perm_count (calls₁ calls₂ : List (Nat × Row)) (p : List Nat)
    (hp : p.Perm (List.range calls₁.length)) (h₂ : calls₂.map (·.2) = permRows p (calls₁.map (·.2)))
    (e : Expr) (hcols : ∀ c ∈ e.columns, c ∈ columnsOf (calls₁.map (·.2))) (hwf : e.arityPos = true)
    (hinj : NoCollision H (calls₁.map (·.2)) e.pairs) :
    execute H (runCalls H {} calls₂).2.toIndex ⟨e, []⟩ = some ⟨specCount (calls₁.map (·.2)) e, []⟩ ∧
    execute H (runCalls H {} calls₂).2.toIndex ⟨e, []⟩ = execute H (runCalls H {} calls₁).2.toIndex ⟨e, []⟩ ∧
    (calls₁.length ≤ 2 ^ 32 →
      execute H (txIndex (runCallsBigTx H {} calls₂).2) ⟨e, []⟩
        = execute H (txIndex (runCallsBigTx H {} calls₁).2) ⟨e, []⟩) := by
  have hperm : (calls₁.map (·.2)).Perm (calls₂.map (·.2)) := by
    rw [h₂]; exact (permRows_perm p _ (by simpa using hp)).symm
  have c₁ := C01.count_correct H _ e hcols hwf hinj
  have c₂ := C01.count_correct H (calls₂.map (·.2)) e
    (fun c hc => (columnsOf_perm hperm).mem_iff.mp (hcols c hc)) hwf (noCollision_perm H hperm _ hinj)
  rw [← specCount_perm hperm] at c₂
  refine ⟨c₂, c₂.trans c₁.symm, fun hlen => ?_⟩
  have hl₁ : (calls₁.map (·.2)).length ≤ 2 ^ 32 := by simpa using hlen
  have hl₂ : (calls₂.map (·.2)).length ≤ 2 ^ 32 := by rw [← hperm.length_eq]; exact hl₁
  have e₁ := (txSim_runCalls H calls₁).flush H
  have e₂ := (txSim_runCalls H calls₂).flush H
  simp only [txIndex, e₁, e₂]
  rw [C01.same_answer_both_writers H _ hl₂, C01.same_answer_both_writers H _ hl₁]
  exact c₂.trans c₁.symm

/-- **Same whole answer.**  Under C02's hypotheses for the rows of execution 1, `Execute` returns the same count AND the
    same groups on the indexes of both executions (group-by results do not mention row ids). -/
theorem perm_answer (calls₁ calls₂ : List (Nat × Row)) (p : List Nat)
    (hp : p.Perm (List.range calls₁.length)) (h₂ : calls₂.map (·.2) = permRows p (calls₁.map (·.2)))
    (e : Expr) (cols : List Bytes) (hcols : ∀ c ∈ e.columns, c ∈ columnsOf (calls₁.map (·.2)))
    (hwf : e.arityPos = true) (hinj : NoCollision H (calls₁.map (·.2)) e.pairs)
    (hD : DataNoCollision H (calls₁.map (·.2))) (hg : ∀ c ∈ cols, c ∈ columnsOf (calls₁.map (·.2))) :
    execute H (runCalls H {} calls₂).2.toIndex ⟨e, cols⟩ = execute H (runCalls H {} calls₁).2.toIndex ⟨e, cols⟩ := by
  have hperm : (calls₁.map (·.2)).Perm (calls₂.map (·.2)) := by
    rw [h₂]; exact (permRows_perm p _ (by simpa using hp)).symm
  have c₁ := C02.groupBy_eq_spec H _ e cols hcols hwf hinj hD hg
  have c₂ := C02.groupBy_eq_spec H (calls₂.map (·.2)) e cols
    (fun c hc => (columnsOf_perm hperm).mem_iff.mp (hcols c hc)) hwf (noCollision_perm H hperm _ hinj)
    (dataNoCollision_perm H hperm hD) (fun c hc => (columnsOf_perm hperm).mem_iff.mp (hg c hc))
  rw [← specExecute_perm hperm] at c₂
  exact c₂.trans c₁.symm

end

/-! ### non-vacuity and boundary examples -/

/-- goroutine 0 adds copies of `exA`, goroutine 1 copies of `exB` -/
def exA : Row := [([97], [49])]
def exB : Row := [([98], [50])]

/-- Round-robin schedule of two goroutines, `2k` calls in total (any hash): the commit count and the sizes of the
    committed bucket and of the open transaction (one key per row here) are those of `commitCount` / `committedRows`. -/
theorem rr_even (H : Bytes → UInt64) (k : Nat) (hk : 2 * k ≤ 2 ^ 32) :
    let calls := (interleave (rrSched k) [List.replicate k exA, List.replicate k exB]).1
    let st := (runCallsBigTx H {} calls).2
    calls.length = 2 * k ∧ (runCallsBigTx H {} calls).1 = List.range (2 * k) ∧
    st.commits = commitCount (2 * k) ∧ st.committed.length = committedRows (2 * k) ∧
    st.pending.length = 2 * k - committedRows (2 * k) :=
  rr_even_sizes H exA exB ⟨_, rfl⟩ ⟨_, rfl⟩ k hk

/-- the same with `2k + 1` calls: goroutine 0 runs one more call, first -/
theorem rr_odd (H : Bytes → UInt64) (k : Nat) (hk : 2 * k + 1 ≤ 2 ^ 32) :
    let calls := (interleave (0 :: rrSched k) [exA :: List.replicate k exA, List.replicate k exB]).1
    let st := (runCallsBigTx H {} calls).2
    calls.length = 2 * k + 1 ∧ (runCallsBigTx H {} calls).1 = List.range (2 * k + 1) ∧
    st.commits = commitCount (2 * k + 1) ∧ st.committed.length = committedRows (2 * k + 1) ∧
    st.pending.length = 2 * k + 1 - committedRows (2 * k + 1) :=
  rr_odd_sizes H exA exB ⟨_, rfl⟩ ⟨_, rfl⟩ k hk

/-- the commit happens in the call that gets id 1000, i.e. the 1001st call; the next in the 2001st -/
example : (List.map commitCount [999, 1000, 1001, 1999, 2000, 2001, 2002]) = [0, 0, 1, 1, 1, 2, 2] := by decide
example : (List.map committedRows [999, 1000, 1001, 1999, 2000, 2001, 2002]) = [0, 0, 1001, 1001, 1001, 2001, 2001] := by
  decide
example : (List.map commitsAt [0, 999, 1000, 1001, 2000]) = [false, false, true, false, true] := by decide

/-- 999 calls of two goroutines: no commit, nothing committed, 999 keys pending -/
example (H : Bytes → UInt64) :
    let st := (runCallsBigTx H {} (interleave (0 :: rrSched 499) [exA :: List.replicate 499 exA, List.replicate 499 exB]).1).2
    st.commits = 0 ∧ st.committed.length = 0 ∧ st.pending.length = 999 := by
  obtain ⟨_, _, h1, h2, h3⟩ := rr_odd H 499 (by decide)
  refine ⟨h1.trans ?_, h2.trans ?_, h3.trans ?_⟩ <;> decide

/-- 1000 calls: still no commit (the ids are 0 … 999) -/
example (H : Bytes → UInt64) :
    let st := (runCallsBigTx H {} (interleave (rrSched 500) [List.replicate 500 exA, List.replicate 500 exB]).1).2
    st.commits = 0 ∧ st.committed.length = 0 ∧ st.pending.length = 1000 := by
  obtain ⟨_, _, h1, h2, h3⟩ := rr_even H 500 (by decide)
  refine ⟨h1.trans ?_, h2.trans ?_, h3.trans ?_⟩ <;> decide

/-- 1001 calls: the call with id 1000 committed everything -/
example (H : Bytes → UInt64) :
    let st := (runCallsBigTx H {} (interleave (0 :: rrSched 500) [exA :: List.replicate 500 exA, List.replicate 500 exB]).1).2
    st.commits = 1 ∧ st.committed.length = 1001 ∧ st.pending.length = 0 := by
  obtain ⟨_, _, h1, h2, h3⟩ := rr_odd H 500 (by decide)
  refine ⟨h1.trans ?_, h2.trans ?_, h3.trans ?_⟩ <;> decide

/-- 1999 calls: one commit, rows 0 … 1000 committed, 998 pending -/
example (H : Bytes → UInt64) :
    let st := (runCallsBigTx H {} (interleave (0 :: rrSched 999) [exA :: List.replicate 999 exA, List.replicate 999 exB]).1).2
    st.commits = 1 ∧ st.committed.length = 1001 ∧ st.pending.length = 998 := by
  obtain ⟨_, _, h1, h2, h3⟩ := rr_odd H 999 (by decide)
  refine ⟨h1.trans ?_, h2.trans ?_, h3.trans ?_⟩ <;> decide

/-- 2000 calls: still one commit (ids 0 … 1999), 999 pending -/
example (H : Bytes → UInt64) :
    let st := (runCallsBigTx H {} (interleave (rrSched 1000) [List.replicate 1000 exA, List.replicate 1000 exB]).1).2
    st.commits = 1 ∧ st.committed.length = 1001 ∧ st.pending.length = 999 := by
  obtain ⟨_, _, h1, h2, h3⟩ := rr_even H 1000 (by decide)
  refine ⟨h1.trans ?_, h2.trans ?_, h3.trans ?_⟩ <;> decide

/-- 2001 calls: the call with id 2000 committed again, nothing pending -/
example (H : Bytes → UInt64) :
    let st := (runCallsBigTx H {} (interleave (0 :: rrSched 1000) [exA :: List.replicate 1000 exA, List.replicate 1000 exB]).1).2
    st.commits = 2 ∧ st.committed.length = 2001 ∧ st.pending.length = 0 := by
  obtain ⟨_, _, h1, h2, h3⟩ := rr_odd H 1000 (by decide)
  refine ⟨h1.trans ?_, h2.trans ?_, h3.trans ?_⟩ <;> decide

/-- 2002 calls: two commits, one key pending -/
example (H : Bytes → UInt64) :
    let st := (runCallsBigTx H {} (interleave (rrSched 1001) [List.replicate 1001 exA, List.replicate 1001 exB]).1).2
    st.commits = 2 ∧ st.committed.length = 2001 ∧ st.pending.length = 1 := by
  obtain ⟨_, _, h1, h2, h3⟩ := rr_even H 1001 (by decide)
  refine ⟨h1.trans ?_, h2.trans ?_, h3.trans ?_⟩ <;> decide

/-- … and whatever the schedule did, `Flush` of the 2002-call run writes the sequential image of its rows -/
example (H : Bytes → UInt64) :
    let calls := (interleave (rrSched 1001) [List.replicate 1001 exA, List.replicate 1001 exB]).1
    flushTx (runCallsBigTx H {} calls).2 = BigWriter.image H (calls.map (·.2)) :=
  (big_flushed_image H _ _).1

/-- a small run computed outright: ids, committed and pending bucket (no commit below id 1000) -/
example :
    let calls := (interleave [1, 0, 1, 5, 0] [[exA, []], [exB]]).1
    calls = [(1, exB), (0, exA), (0, [])] ∧
    (runCallsBigTx C05.H0 {} calls).1 = [0, 1, 2] ∧
    (runCallsBigTx C05.H0 {} calls).2.committed = [] ∧
    (runCallsBigTx C05.H0 {} calls).2.pending = [[0,0,0,0,0,0,0,0,0,0,0,0], [0,0,0,0,0,0,0,0,0,0,0,1]] ∧
    (runCallsBigTx C05.H0 {} calls).2.commits = 0 := by decide

/-- two schedules of the same queues that differ in call order, and the renaming `p` between their row ids:
    schedule 1 alternates goroutines 0, 1, 0; schedule 2 runs goroutine 1 first -/
def exQueues : List (List Row) := [[[([97], [49])], []], [[([97], [50]), ([98], [50])]]]
def exCalls₁ : List (Nat × Row) := (interleave [0, 1, 0] exQueues).1
def exCalls₂ : List (Nat × Row) := (interleave [1, 0, 0] exQueues).1
def exP : List Nat := [1, 0, 2]

theorem exCalls₁_rows : exCalls₁.map (·.2) = C01.exRows := by decide
theorem exP_perm : exP.Perm (List.range exCalls₁.length) := by decide
theorem exCalls₂_rows : exCalls₂.map (·.2) = permRows exP (exCalls₁.map (·.2)) := by decide

/-- the call orders really differ: row 0 of execution 2 is row 1 of execution 1 -/
example : exCalls₁.map (·.2) ≠ exCalls₂.map (·.2) := by decide

/-- `perm_bits` instantiated: row id 1 of execution 2 is row id `exP[1] = 0` of execution 1 -/
example (h : UInt64) :
    (((runCalls C01.toyH {} exCalls₂).2.toIndex.getCol h).getD 0).testBit 1
      = (((runCalls C01.toyH {} exCalls₁).2.toIndex.getCol h).getD 0).testBit 0 :=
  (perm_bits C01.toyH exCalls₁ exCalls₂ exP exP_perm exCalls₂_rows h 1 (by decide)).1

example (h : UInt64) :
    (((txIndex (runCallsBigTx C01.toyH {} exCalls₂).2).getCol h).getD 0).testBit 1
      = (((txIndex (runCallsBigTx C01.toyH {} exCalls₁).2).getCol h).getD 0).testBit 0 :=
  (perm_bits C01.toyH exCalls₁ exCalls₂ exP exP_perm exCalls₂_rows h 1 (by decide)).2 (by decide)

/-- the hypotheses of `perm_count` / `count_correct_any_schedule` hold for the executed rows (those of `C01`) -/
example : (∀ c ∈ C01.exExpr.columns, c ∈ columnsOf (exCalls₁.map (·.2))) ∧ C01.exExpr.arityPos = true ∧
    NoCollision C01.toyH (exCalls₁.map (·.2)) C01.exExpr.pairs := by
  rw [exCalls₁_rows]
  refine ⟨by decide, by decide, ?_⟩
  unfold NoCollision; decide

/-- both executions, both writers: the count of `a=1 OR NOT b=2` is 2 -/
example : execute C01.toyH (runCalls C01.toyH {} exCalls₂).2.toIndex ⟨C01.exExpr, []⟩ = some ⟨2, []⟩ := by
  have := (perm_count C01.toyH exCalls₁ exCalls₂ exP exP_perm exCalls₂_rows C01.exExpr
    (by rw [exCalls₁_rows]; decide) (by decide) (by rw [exCalls₁_rows]; unfold NoCollision; decide)).1
  rw [exCalls₁_rows] at this
  simpa [specCount, C01.exRows, C01.exExpr, sat, satAny] using this

example : execute C01.toyH (txIndex (runCallsBigTx C01.toyH {} exCalls₁).2) ⟨C01.exExpr, []⟩ = some ⟨2, []⟩ := by
  have := (count_correct_any_schedule C01.toyH [0, 1, 0] exQueues C01.exExpr
    (by show ∀ c ∈ _, c ∈ columnsOf (exCalls₁.map (·.2)); rw [exCalls₁_rows]; decide) (by decide)
    (by show NoCollision _ (exCalls₁.map (·.2)) _; rw [exCalls₁_rows]; unfold NoCollision; decide)).2 (by decide)
  have e : ((interleave [0, 1, 0] exQueues).1.map (·.2)) = C01.exRows := exCalls₁_rows
  rw [e] at this
  have h2 : execute C01.toyH (txIndex (runCallsBigTx C01.toyH {} (interleave [0, 1, 0] exQueues).1).2) ⟨C01.exExpr, []⟩
      = some ⟨2, []⟩ := by
    simpa [specCount, C01.exRows, C01.exExpr, sat, satAny] using this
  exact h2

/-- the stored (insertion ordered) schemas of the two executions really differ — column `a` lists its values in
    first-use order — which is why `perm_schema` states equality of `GetSchema` and equality up to order only -/
example : (runCalls C01.toyH {} exCalls₁).2.toIndex.schema ≠ (runCalls C01.toyH {} exCalls₂).2.toIndex.schema := by
  decide

example : getSchema (runCalls C01.toyH {} exCalls₂).2.toIndex = getSchema (runCalls C01.toyH {} exCalls₁).2.toIndex :=
  (perm_schema C01.toyH exCalls₁ exCalls₂ exP exP_perm exCalls₂_rows).1

end Updog.C18
