/-
C01 (getters) — the answer is the same whether bitmaps are read on demand or preloaded.
`Model/Index.lean` abstracts `idx.values` into one function `getCol`; here the two concrete getters of index.go are
modelled below that abstraction (`Model/Getters.lean`) and shown to induce it.  Helper lemmas: Proofs/Getters.lean.
-/
import Updog.Proofs.Getters
import Updog.Props.C01
namespace Updog.C01
open Updog

/-! ### the getters as functions of the file image -/

/-- `WithPreloadedData` fails exactly when some stored bitmap is undecodable (on-demand opening does not look) -/
theorem preloadOpen_fails_iff (img : Image) : preloadOpen img = none ↔ ¬ img.AllDecodable :=
  preloadFold_eq_none_iff img _

/-- otherwise the preloaded map holds exactly the stored bitmaps; absent keys map to nil -/
theorem preloadOpen_eq (img : Image) (hdec : img.AllDecodable) (hnd : img.KeysDistinct) :
    preloadOpen img = some (fun h => (img.get h).join) := by
  rw [preloadOpen, preloadFold_eq img _ hdec hnd]
  simp

/-- the on-demand getter returns a bitmap exactly for present, decodable keys -/
theorem onDemandGet_toOption (img : Image) (h : UInt64) : (onDemandGet img h).toOption = (img.get h).join := by
  unfold onDemandGet
  cases img.get h with
  | none => rfl
  | some v => cases v <;> rfl

/-! ### (1) `ExprEqual.eval` -/

/-- **Leaf agreement.** On every image in which all values are decodable, the bitmap `ExprEqual.eval` ends up with
is the same for both getters, for every value index — present or absent —, and it is the `getCol … |>.getD 0` of
the `Index` abstraction that `eval` in `Model/Index.lean` uses. -/
theorem eqLeaf_getters_agree (img : Image) (hdec : img.AllDecodable) (hnd : img.KeysDistinct)
    (schema : Schema) (next : Nat) :
    ∃ g, preloadOpen img = some g ∧ ∀ h,
      eqLeaf (onDemandAnswer img h) = eqLeaf (preloadedAnswer g h) ∧
      eqLeaf (preloadedAnswer g h) = ((img.toIndex schema next).getCol h).getD 0 := by
  refine ⟨_, preloadOpen_eq img hdec hnd, fun h => ?_⟩
  simp only [onDemandAnswer, onDemandGet, preloadedAnswer, Image.toIndex]
  cases img.get h with
  | none => exact ⟨rfl, rfl⟩
  | some v => cases v <;> exact ⟨rfl, rfl⟩

/-- present key: both getters make the leaf the stored bitmap -/
theorem eqLeaf_present (img : Image) (hdec : img.AllDecodable) (hnd : img.KeysDistinct) (g : UInt64 → Option Nat)
    (hg : preloadOpen img = some g) (h : UInt64) (b : Nat) (hb : img.get h = some (some b)) :
    eqLeaf (onDemandAnswer img h) = b ∧ eqLeaf (preloadedAnswer g h) = b := by
  rw [preloadOpen_eq img hdec hnd, Option.some.injEq] at hg
  subst hg
  simp [onDemandAnswer, onDemandGet, preloadedAnswer, hb, eqLeaf, Except.map]

/-- absent key: on-demand reports an error, preloaded returns nil, and both make the leaf the empty bitmap -/
theorem eqLeaf_absent (img : Image) (hdec : img.AllDecodable) (hnd : img.KeysDistinct) (g : UInt64 → Option Nat)
    (hg : preloadOpen img = some g) (h : UInt64) (hb : img.get h = none) :
    onDemandAnswer img h = .error () ∧ preloadedAnswer g h = .ok none ∧
    eqLeaf (onDemandAnswer img h) = 0 ∧ eqLeaf (preloadedAnswer g h) = 0 := by
  rw [preloadOpen_eq img hdec hnd, Option.some.injEq] at hg
  subst hg
  simp [onDemandAnswer, onDemandGet, preloadedAnswer, hb, eqLeaf, Except.map]

/-! ### (2) the group-by step -/

/-- the on-demand getter never panics: an absent or undecodable bitmap is skipped, exactly like `refine` -/
theorem refine_onDemand (img : Image) (schema : Schema) (next : Nat) (gbf : GBField) (rgs : List (Fields × Nat)) :
    refineG (stepOnDemand img) gbf rgs = some (refine (img.toIndex schema next) gbf rgs) := by
  apply refineG_eq
  intro x v _
  simp only [stepOnDemand, onDemandAnswer, onDemandGet, Image.toIndex]
  cases img.get v.2 with
  | none => rfl
  | some o => cases o <;> rfl

/-- one iteration on a present key: preloading does not reach the nil case and does what on-demand does -/
theorem gbStep_present (img : Image) (hnd : img.KeysDistinct) (g : UInt64 → Option Nat)
    (hg : preloadOpen img = some g) (x : Nat) (h : UInt64) (b : Nat) (hb : img.get h = some (some b)) :
    stepPreloaded g x h ≠ .panic ∧ stepPreloaded g x h = stepOnDemand img x h := by
  have hdec : img.AllDecodable := by
    apply Classical.byContradiction
    intro hn
    rw [(preloadOpen_fails_iff img).mpr hn] at hg
    cases hg
  rw [preloadOpen_eq img hdec hnd, Option.some.injEq] at hg
  subst hg
  simp only [stepPreloaded, stepOnDemand, preloadedAnswer, onDemandAnswer, onDemandGet, hb, Option.join_some,
    Except.map, gbStep]
  constructor
  · split <;> simp
  · trivial

/-- **Group-by agreement.** If every value of the group-by field has a present bitmap (as in every image produced by
a writer, see `writer_groupBy_getters_agree`), the group-by step over the preloaded getter never reaches the nil
case, and both getters compute the refinement of the `Index` abstraction. -/
theorem groupBy_step_getters_agree (img : Image) (hnd : img.KeysDistinct) (g : UInt64 → Option Nat)
    (hg : preloadOpen img = some g) (schema : Schema) (next : Nat) (gbf : GBField)
    (hkeys : ∀ v ∈ gbf.values, ∃ b, img.get v.2 = some (some b)) (rgs : List (Fields × Nat)) :
    refineG (stepPreloaded g) gbf rgs = some (refine (img.toIndex schema next) gbf rgs) ∧
    refineG (stepPreloaded g) gbf rgs = refineG (stepOnDemand img) gbf rgs := by
  have h1 : refineG (stepPreloaded g) gbf rgs = some (refine (img.toIndex schema next) gbf rgs) := by
    apply refineG_eq
    intro x v hv
    obtain ⟨b, hb⟩ := hkeys v hv
    rw [(gbStep_present img hnd g hg x v.2 b hb).2]
    simp only [stepOnDemand, onDemandAnswer, onDemandGet, Image.toIndex, hb]
    rfl
  exact ⟨h1, h1.trans (refine_onDemand img schema next gbf rgs).symm⟩

/-- Without that hypothesis the two getters differ: for a group-by value whose key is absent, the preloaded getter's
nil makes `roaring.And` panic (as soon as there is a result group), where the on-demand getter skips the value.
(`Model/Index.lean`'s `refine` models the skip; unreachable for files written by updog.) -/
theorem preloaded_absent_panics (g : UInt64 → Option Nat) (gbf : GBField) (v : Bytes × UInt64)
    (hv : v ∈ gbf.values) (habs : g v.2 = none) (rg : Fields × Nat) (rgs : List (Fields × Nat)) :
    refineG (stepPreloaded g) gbf (rg :: rgs) = none := by
  rw [refineG, innerG_panic _ gbf.col rg gbf.values v hv (by simp [stepPreloaded, preloadedAnswer, habs, gbStep])]

/-! ### (3) the `Index` of `Writer.toIndex` is what both getters induce -/

variable (H : Bytes → UInt64)

/-- the abstract index over the writer's image is `Writer.toIndex` -/
theorem writer_image_toIndex (w : Writer) : (imageOf w.vals).toIndex w.schema w.next = w.toIndex := by
  simp only [Image.toIndex, Writer.toIndex, Index.mk.injEq, true_and]
  funext h
  rw [get_imageOf]
  cases w.vals.get h <;> rfl

/-- **Both getters induce `Writer.toIndex.getCol`** on the file flushed by the in-memory writer: preloading succeeds
and its map *is* `getCol`; the on-demand getter's successful answers are `getCol`'s. -/
theorem writer_getters_induce_getCol (rows : List Row) :
    preloadOpen (imageOf (Writer.addRows H {} rows).vals) = some (Writer.addRows H {} rows).toIndex.getCol ∧
    ∀ h, (onDemandGet (imageOf (Writer.addRows H {} rows).vals) h).toOption
      = (Writer.addRows H {} rows).toIndex.getCol h := by
  have e := writer_image_toIndex (Writer.addRows H {} rows)
  constructor
  · rw [preloadOpen_eq _ (imageOf_allDecodable _) (writer_image_keysDistinct H rows), ← e]
    rfl
  · intro h
    rw [onDemandGet_toOption, ← e]
    rfl

/-- … hence the leaf bitmap of `ExprEqual.eval` is, for both getters and every value index, the
`(getCol h).getD 0` that `eval` of `Model/Index.lean` uses (and `eval_correct` / `count_correct` are about). -/
theorem writer_eqLeaf (rows : List Row) (h : UInt64) :
    eqLeaf (onDemandAnswer (imageOf (Writer.addRows H {} rows).vals) h)
      = ((Writer.addRows H {} rows).toIndex.getCol h).getD 0 ∧
    eqLeaf (preloadedAnswer (Writer.addRows H {} rows).toIndex.getCol h)
      = ((Writer.addRows H {} rows).toIndex.getCol h).getD 0 := by
  obtain ⟨g, hg, hall⟩ := eqLeaf_getters_agree (imageOf (Writer.addRows H {} rows).vals)
    (imageOf_allDecodable _) (writer_image_keysDistinct H rows) (Writer.addRows H {} rows).schema
    (Writer.addRows H {} rows).next
  rw [(writer_getters_induce_getCol H rows).1, Option.some.injEq] at hg
  subst hg
  rw [writer_image_toIndex] at hall
  exact ⟨(hall h).1.trans (hall h).2, (hall h).2⟩

/-- **Group-by on a written file.** For every group-by list that resolves against the flushed schema, every step of
`Query.groupBy` is panic-free under preloading and gives, for both getters, the `refine` of `Writer.toIndex`. -/
theorem writer_groupBy_getters_agree (rows : List Row) (cols : List Bytes) (fields : List GBField)
    (hf : populateGroupBy (Writer.addRows H {} rows).schema cols = some fields)
    (gbf : GBField) (hgbf : gbf ∈ fields) (rgs : List (Fields × Nat)) :
    refineG (stepPreloaded (Writer.addRows H {} rows).toIndex.getCol) gbf rgs
      = some (refine (Writer.addRows H {} rows).toIndex gbf rgs) ∧
    refineG (stepOnDemand (imageOf (Writer.addRows H {} rows).vals)) gbf rgs
      = some (refine (Writer.addRows H {} rows).toIndex gbf rgs) := by
  have hk : ∀ v ∈ gbf.values, ∃ b, (imageOf (Writer.addRows H {} rows).vals).get v.2 = some (some b) := by
    intro v hv
    obtain ⟨b, hb⟩ := populateGroupBy_present H rows cols fields hf gbf hgbf v hv
    exact ⟨b, by rw [get_imageOf, hb]; rfl⟩
  have h := groupBy_step_getters_agree _ (writer_image_keysDistinct H rows) _
    (writer_getters_induce_getCol H rows).1 (Writer.addRows H {} rows).schema (Writer.addRows H {} rows).next
    gbf hk rgs
  rw [writer_image_toIndex] at h
  exact ⟨h.1, h.2.symm.trans h.1⟩

/-! ### non-vacuity -/

/-- an image with a present key (5 ↦ {0,1}), distinct keys, everything decodable; key 6 is absent -/
def exImg : Image := [(5, some 3), (9, some 4)]

example : exImg.AllDecodable ∧ exImg.KeysDistinct ∧ exImg.get 5 = some (some 3) ∧ exImg.get 6 = none := by
  refine ⟨?_, by unfold Image.KeysDistinct; decide, rfl, rfl⟩
  intro p hp
  simp only [exImg, List.mem_cons, List.not_mem_nil, or_false] at hp
  rcases hp with rfl | rfl <;> rfl

/-- the two getters really answer differently below the abstraction (error vs nil), and agree after `eqLeaf` -/
example : onDemandAnswer exImg 6 = .error () ∧ (preloadOpen exImg).map (preloadedAnswer · 6) = some (.ok none) ∧
    eqLeaf (onDemandAnswer exImg 5) = 3 ∧ (preloadOpen exImg).map (fun g => eqLeaf (preloadedAnswer g 5)) = some 3 := by
  refine ⟨rfl, rfl, rfl, rfl⟩

/-- an undecodable value: preloading refuses to open, on-demand still answers the other keys -/
example : preloadOpen [(5, some 3), (7, none)] = none ∧ onDemandGet [(5, some 3), (7, none)] 5 = .ok 3 ∧
    onDemandGet [(5, some 3), (7, none)] 7 = .error () := ⟨rfl, rfl, rfl⟩

/-- the hypotheses of `groupBy_step_getters_agree` are satisfiable, with a non-trivial refinement … -/
example : ∃ g, preloadOpen exImg = some g ∧
    (∀ v ∈ (⟨[97], [([49], 5), ([50], 9)]⟩ : GBField).values, ∃ b, exImg.get v.2 = some (some b)) ∧
    refineG (stepPreloaded g) ⟨[97], [([49], 5), ([50], 9)]⟩ [([], 7)] = some [([([97], [49])], 3), ([([97], [50])], 4)] := by
  refine ⟨_, rfl, ?_, by
    simp [refineG, innerG, stepPreloaded, preloadedAnswer, gbStep, popcount_three_ne, popcount_four_ne]⟩
  intro v hv
  simp only [List.mem_cons, List.not_mem_nil, or_false] at hv
  rcases hv with rfl | rfl
  · exact ⟨3, rfl⟩
  · exact ⟨4, rfl⟩

/-- … and the panic of `preloaded_absent_panics` is reached with an absent key, where on-demand skips -/
example : (preloadOpen exImg).map (fun g => refineG (stepPreloaded g) ⟨[97], [([49], 5), ([51], 6)]⟩ [([], 7)])
      = some none ∧
    refineG (stepOnDemand exImg) ⟨[97], [([49], 5), ([51], 6)]⟩ [([], 7)] = some [([([97], [49])], 3)] := by
  constructor
  · simp [preloadOpen, preloadFold, exImg, refineG, innerG, stepPreloaded, preloadedAnswer, gbStep,
      popcount_three_ne]
  · simp [refineG, innerG, stepOnDemand, onDemandAnswer, onDemandGet, exImg, Image.get, Except.map, gbStep,
      popcount_three_ne]

/-- the writer instance of C01: group-by column `a` resolves, so `writer_groupBy_getters_agree` applies -/
example : ∃ fields, populateGroupBy (Writer.addRows toyH {} exRows).schema [[97]] = some fields ∧ fields ≠ [] := by
  refine ⟨_, rfl, by simp⟩

end Updog.C01
