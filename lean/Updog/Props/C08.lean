/-
C08 — executing a query does not change what the Query value means.
-/
import Updog.Model.QueryState
namespace Updog.C08
open Updog
variable (H : Bytes → UInt64)

theorem populateQ_fst (s : Schema) (cols : List Bytes) (acc : List GBField) :
    (populateGroupByQ s cols acc).1 = (populateGroupBy s cols).map (acc ++ ·) := by
  induction cols generalizing acc with
  | nil => simp [populateGroupByQ, populateGroupBy]
  | cons c cs ih =>
    simp only [populateGroupByQ, populateGroupBy]
    cases hc : s.col c with
    | none => simp
    | some vs =>
      simp only [ih]
      cases populateGroupBy s cs <;> simp

/-- Whatever earlier executions left in the hidden field list, Execute returns exactly what it returns for a
    freshly constructed equal query. -/
theorem execute_pure (ix : Index) (q : QueryState) :
    (executeQ H ix q).1 = execute H ix ⟨q.expr, q.groupBy⟩ := by
  have h := populateQ_fst ix.schema q.groupBy []
  simp only [executeQ, execute]
  cases hp : populateGroupByQ ix.schema q.groupBy [] with
  | mk r left =>
    rw [hp] at h
    simp only at h
    cases r with
    | none =>
      cases hq : populateGroupBy ix.schema q.groupBy with
      | none => simp
      | some f => rw [hq] at h; simp at h
    | some fields =>
      cases hq : populateGroupBy ix.schema q.groupBy with
      | none => rw [hq] at h; simp at h
      | some f =>
        rw [hq] at h
        simp at h
        subst h
        cases eval H ix q.expr <;> simp

/-- the caller-visible fields are left unchanged -/
theorem visible_fields_unchanged (ix : Index) (q : QueryState) :
    (executeQ H ix q).2.expr = q.expr ∧ (executeQ H ix q).2.groupBy = q.groupBy := by
  simp only [executeQ]
  cases populateGroupByQ ix.schema q.groupBy [] with
  | mk r left =>
    cases r with
    | none => simp
    | some f => cases eval H ix q.expr <;> simp

/-- run one Query value through any sequence of indexes -/
def runAll (q : QueryState) : List Index → List (Option Result) × QueryState
  | [] => ([], q)
  | ix :: rest =>
    let r := executeQ H ix q
    let rs := runAll r.2 rest
    (r.1 :: rs.1, rs.2)

/-- any number of executions on the same or on different indexes: each returns what a fresh equal query returns -/
theorem reuse_any_history (q : QueryState) (ixs : List Index) :
    (runAll H q ixs).1 = ixs.map fun ix => execute H ix ⟨q.expr, q.groupBy⟩ := by
  induction ixs generalizing q with
  | nil => rfl
  | cons ix rest ih =>
    simp only [runAll, List.map_cons]
    rw [execute_pure, ih]
    obtain ⟨h1, h2⟩ := visible_fields_unchanged H ix q
    rw [h1, h2]

/-- non-vacuity: a stale hidden list is really ignored -/
example : (populateGroupByQ [([97], [([49], 7)])] [[97]] []).1 = some [⟨[97], [([49], 7)]⟩] := by
  simp [populateGroupByQ, Schema.col, sortVals]

end Updog.C08
