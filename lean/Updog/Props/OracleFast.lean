/-
OracleFast — the fast helper functions the compiled oracle answers queries with (`Updog/Model/FastBits.lean`:
byte-table word count, divide-and-conquer population count of a big `Nat`, divide-and-conquer bit set from row ids,
`Execute` with these and with `r = 0` as the emptiness test) are total and equal to the model's definitions
(`popcount`, `setBit`, `execute` of `Updog/Model/Index.lean`). No hypotheses: the equalities hold for every input.
-/
import Updog.Proofs.FastBits
namespace Updog.OracleFast
open Updog

/-- the set bits of `n` are those from position `k` up plus those below `k` -/
theorem popcount_split (n k : Nat) : popcount n = popcount (n >>> k) + popcount (n &&& (2 ^ k - 1)) :=
  Updog.popcount_split n k

/-- the word count (eight byte-table lookups) is the model's `popcount` of the word -/
theorem popcount64_eq (x : UInt64) : popcount64 x = popcount x.toNat := Updog.popcount64_eq x

/-- the divide-and-conquer population count is the model's `popcount`, for every `n` (the fuel always suffices) -/
theorem popcountFast_eq (n : Nat) : popcountFast n = popcount n := Updog.popcountFast_eq n

/-- `popcountFast` satisfies the recursion equation of the oracle's former `partial def` -/
theorem popcountFast_unfold (n : Nat) :
    popcountFast n =
      if n < 18446744073709551616 then popcount64 n.toUInt64
      else popcountFast (n >>> ((Nat.log2 n + 1) / 2)) + popcountFast (n &&& ((1 <<< ((Nat.log2 n + 1) / 2)) - 1)) :=
  Updog.popcountFast_unfold n

/-- the fast count is zero exactly on the empty bitmap -/
theorem popcountFast_eq_zero_iff (n : Nat) : popcountFast n = 0 ↔ n = 0 := by
  rw [Updog.popcountFast_eq]; exact popcount_eq_zero_iff n

/-- the divide-and-conquer bit set is the fold of `setBit` over the ids -/
theorem natOfIds_eq (ids : List Nat) : natOfIds ids = ids.foldl setBit 0 := Updog.natOfIds_eq ids

/-- bit `i` is set exactly if `i` is one of the ids (any order, duplicates allowed) -/
theorem testBit_natOfIds (ids : List Nat) (i : Nat) : (natOfIds ids).testBit i = decide (i ∈ ids) :=
  Updog.testBit_natOfIds ids i

/-- the array entry point used by the oracle (`natOfIdsRange a 0 a.size`) -/
theorem natOfIdsArray_eq (ids : Array Nat) : natOfIdsRange ids 0 ids.size = ids.toList.foldl setBit 0 :=
  Updog.natOfIdsArray_eq ids

theorem testBit_natOfIdsArray (ids : Array Nat) (i : Nat) :
    (natOfIdsRange ids 0 ids.size).testBit i = decide (i ∈ ids) := Updog.testBit_natOfIdsArray ids i

/-- any sub-range: bit `i` is set exactly if some `ids[j]`, `lo ≤ j < hi`, is `i` -/
theorem testBit_natOfIdsRange (ids : Array Nat) (lo hi i : Nat) :
    (natOfIdsRange ids lo hi).testBit i = true ↔ ∃ j, lo ≤ j ∧ j < hi ∧ ids[j]! = i :=
  Updog.testBit_natOfIdsRange ids lo hi i

/-- one refinement step with the test `r = 0` is the model's step with the test `popcount r = 0` -/
theorem refineFast_eq (ix : Index) (gbf : GBField) (rgs : List (Fields × Nat)) :
    refineFast ix gbf rgs = refine ix gbf rgs := Updog.refineFast_eq ix gbf rgs

/-- the oracle's `Execute` is the model's `execute`, for every hash, index and query -/
theorem executeFast_eq (H : Bytes → UInt64) (ix : Index) (q : Query) : executeFast H ix q = execute H ix q :=
  Updog.executeFast_eq_stale H ix q []

/-- … whatever stale group-by fields the query object carries -/
theorem executeFast_eq_stale (H : Bytes → UInt64) (ix : Index) (q : Query) (stale : List GBField) :
    executeFast H ix q = execute H ix q stale := Updog.executeFast_eq_stale H ix q stale

/-! ### the functions compute (evaluated by the kernel, not through the theorems) -/

/-- four levels of splitting (200 → 100 → 50 bits), then word counts -/
example : popcountFast (2 ^ 200 - 1) = 200 := by decide +kernel
example : popcountFast (2 ^ 200 + 2 ^ 64 + 5) = 4 := by decide +kernel
example : popcountFast 0 = 0 ∧ popcountFast (2 ^ 64 - 1) = 64 ∧ popcountFast (2 ^ 64) = 1 := by decide +kernel
example : popcount64 0xf0f0f0f0f0f0f0f1 = 33 := by decide +kernel
/-- unsorted ids with a duplicate -/
example : natOfIds [3, 0, 5, 3] = 41 := by decide +kernel
example : natOfIdsRange #[3, 0, 5, 3, 70] 1 3 = 33 := by decide +kernel
example : natOfIds [70, 1] = 2 ^ 70 + 2 := by decide +kernel

/-- rows `a=1`, `a=2`, `a=1`; the schema lists the values unsorted -/
def exIx : Index :=
  { schema := [([97], [([50], 2), ([49], 1)])], next := 3,
    getCol := fun h => if h = 1 then some 5 else if h = 2 then some 2 else none }
def exH (b : Bytes) : UInt64 := if b = [97, 0, 49] then 1 else if b = [97, 0, 50] then 2 else 0

theorem exFields : populateGroupBy exIx.schema [[97]] = some [⟨[97], [([49], 1), ([50], 2)]⟩] := by
  simp [populateGroupBy, exIx, Schema.col, sortVals, List.mergeSort, List.MergeSort.Internal.splitInTwo,
    bytesLe, bytesLt]

theorem exEval : eval exH exIx (.not (.eq [97] [51])) = some 7 ∧ eval exH exIx (.not (.eq [97] [50])) = some 5 := by
  decide +kernel

/-- `NOT a=3 GROUP BY a`: both groups -/
example : executeFast exH exIx ⟨.not (.eq [97] [51]), [[97]]⟩
    = some ⟨3, [([([97], [49])], 2), ([([97], [50])], 1)]⟩ := by
  simp only [executeFast, exFields, exEval.1]
  decide +kernel

/-- `NOT a=2 GROUP BY a`: the empty group is pruned by the `r = 0` test -/
example : executeFast exH exIx ⟨.not (.eq [97] [50]), [[97]]⟩ = some ⟨2, [([([97], [49])], 2)]⟩ := by
  simp only [executeFast, exFields, exEval.2]
  decide +kernel

/-- and so the model's `execute` gives the same answers -/
example : execute exH exIx ⟨.not (.eq [97] [51]), [[97]]⟩
    = some ⟨3, [([([97], [49])], 2), ([([97], [50])], 1)]⟩ := by
  rw [← executeFast_eq]
  simp only [executeFast, exFields, exEval.1]
  decide +kernel

end Updog.OracleFast
