/-
C15 (continued) — the file lock of `OpenIndex` / `Index.Close` as state: handles, holders, histories.

`C15.close_releases` and `C15.reopen_same` (Props/C15.lean) hold by `rfl`: `Model/Open.lean` has no lock state.
Here the same claims are proved on `Updog/Model/OpenLock.lean` (shared / exclusive flock per open file description,
handle identities, `idx.db == nil`, event histories), and the lock bit of that model is tied to the `closed` flag
that the REGENERATED `Gen.openIndexFromBoltDatabase` leaves in the bbolt record (Props/Gen/Open.lean).
Helper lemmas: `Updog/Proofs/OpenLock.lean`.
-/
import Updog.Props.C15
import Updog.Model.OpenLock
import Updog.Proofs.OpenLock
import Updog.Props.Gen.Open

namespace Updog.C15
open Updog Updog.OpenLock Updog.GeneratedEq Updog.Go.T3

/-! ### (i) a failed open does not keep the lock -/

/-- **A failed `OpenIndex` holds no lock.** In every reachable state (`WF`: handle ids in use are below the counter), for
    every file content, option set and set of earlier holders: if the attempt returns an error, the holders and the
    live indexes are exactly those from before and the attempt's own handle holds nothing; only a handle id is used up. -/
theorem failed_open_lock_free (st : LockState) (w : st.WF) (p : ProcId) (o : OpenOpts)
    (h : (openRO st p o).1 = .error) :
    (openRO st p o).2.holders = st.holders ∧ (openRO st p o).2.live = st.live ∧
    (openRO st p o).2.fs = st.fs ∧ (openRO st p o).2.holds st.next = false ∧
    (openRO st p o).2 = { st with next := st.next + 1 } := by
  have e := failed_open_state w h
  refine ⟨by rw [e], by rw [e], by rw [e], ?_, e⟩
  rw [e]
  simp only [LockState.holds, List.any_eq_false, beq_iff_eq]
  intro x hx; exact Nat.ne_of_lt (w.fresh x hx)

/-- the same without any assumption on the state: after a failed attempt no holder carries the attempt's handle id and
    every other holder is untouched -/
theorem failed_open_releases_own (st : LockState) (p : ProcId) (o : OpenOpts) (h : (openRO st p o).1 = .error) :
    (openRO st p o).2.holders = release st.holders st.next ∧ (openRO st p o).2.holds st.next = false := by
  by_cases hc : compatible .shared st.holders = true
  · have ho : openIndex st.fs o = (.error, false) := by
      apply openIndex_error_of_fst
      rw [openRO_outcome p o hc] at h
      cases h' : (openIndex st.fs o).1 <;> simp_all [Outcome.map]
    rw [openRO_error hc ho]
    exact ⟨rfl, holds_release _ _⟩
  · rw [openRO_blocked (by simpa using hc)] at h; cases h

/-- the lock of a bbolt database handle, read off the translator's `Bolt` record: held until `db.Close()` -/
def lockHeld (b : Bolt) : Bool := !b.closed

/-- **generated code, no options:** if the regenerated `OpenIndexFromBoltDatabase(db)` returns an error, it has closed `db`
    (derived from `openIndex_noPreload_eq` and `failed_open_releases`) -/
theorem generated_failed_open_closes (X : Ext) (i n : Nat) (c : Buckets) (cs : List (List PutRec)) (hp : Heap) :
    let r := Gen.openIndexFromBoltDatabase X (idle i n c cs) hp (some i) []
    isErr r.2.2.2 = true → r.1.closed = true ∧ lockHeld r.1 = false := by
  intro r herr
  have e := openIndex_noPreload_eq X i n c cs hp
  have e1 : (openIndex (fileStateOf X c) ⟨false⟩).1 = .error := by
    rw [← e]; show (if isErr r.2.2.2 = true then Outcome.error else Outcome.ok ()) = _; rw [if_pos herr]
  have e2 := failed_open_releases _ _ e1
  rw [← e] at e2
  have : r.1.closed = true := by simpa [openOutcome] using e2
  exact ⟨this, by simp [lockHeld, this]⟩

/-- **generated code, `WithPreloadedData()`:** the same, including the failing option (a bitmap that does not decode) -/
theorem generated_failed_open_closes_preload (X : Ext) (i n : Nat) (c : Buckets) (cs : List (List PutRec)) (hp : Heap)
    (hs : ∀ d, bucketsGet c dataName = some d → SortedData d) :
    let r := Gen.openIndexFromBoltDatabase X (idle i n c cs) hp (some i) [Gen.withPreloadedData X]
    isErr r.2.2.2 = true → r.1.closed = true ∧ lockHeld r.1 = false := by
  intro r herr
  have e := openIndex_preload_eq X i n c cs hp hs
  have e1 : (openIndex (fileStateOf X c) ⟨true⟩).1 = .error := by
    rw [← e]; show (if isErr r.2.2.2 = true then Outcome.error else Outcome.ok ()) = _; rw [if_pos herr]
  have e2 := failed_open_releases _ _ e1
  rw [← e] at e2
  have : r.1.closed = true := by simpa [openOutcome] using e2
  exact ⟨this, by simp [lockHeld, this]⟩

/-- **generated code, any options:** a validation failure (bucket / schema / counter) closes `db`, whatever options follow -/
theorem generated_validation_failure_closes (X : Ext) (i n : Nat) (c : Buckets) (cs : List (List PutRec)) (hp : Heap)
    (opts : List IndexOption) (hbad : headerOK X c = false) :
    let r := Gen.openIndexFromBoltDatabase X (idle i n c cs) hp (some i) opts
    isErr r.2.2.2 = true ∧ r.2.2.1 = none ∧ lockHeld r.1 = false := by
  have hv := openIndexFromBoltDatabase_validation X i n c cs hp opts
  simp only [hbad, Bool.false_eq_true, if_false] at hv
  obtain ⟨e1, e2, _, e4⟩ := hv
  exact ⟨e1, e2, by rw [lockHeld, e4]; rfl⟩

/-- **The lock model agrees with the generated code** (no options): on the file content `fileStateOf X c`, when no writer
    blocks the attempt, `openRO` returns ok / error exactly when the regenerated `OpenIndexFromBoltDatabase` does, and the
    new handle holds the lock afterwards exactly when the generated code left the database open (`closed = false`). -/
theorem openRO_matches_generated (X : Ext) (i n : Nat) (c : Buckets) (cs : List (List PutRec)) (hp : Heap)
    (st : LockState) (p : ProcId) (hfs : st.fs = fileStateOf X c) (hc : compatible .shared st.holders = true) :
    let r := Gen.openIndexFromBoltDatabase X (idle i n c cs) hp (some i) []
    ((openRO st p ⟨false⟩).1.map (fun _ => ()), (openRO st p ⟨false⟩).2.holds st.next)
      = ((if isErr r.2.2.2 then .error else .ok ()), lockHeld r.1) := by
  intro r
  rw [openRO_abstract p _ hc, hfs, ← openIndex_noPreload_eq X i n c cs hp]
  rfl

/-- … and with `WithPreloadedData()` (bucket in bbolt's key order) -/
theorem openRO_matches_generated_preload (X : Ext) (i n : Nat) (c : Buckets) (cs : List (List PutRec)) (hp : Heap)
    (hs : ∀ d, bucketsGet c dataName = some d → SortedData d)
    (st : LockState) (p : ProcId) (hfs : st.fs = fileStateOf X c) (hc : compatible .shared st.holders = true) :
    let r := Gen.openIndexFromBoltDatabase X (idle i n c cs) hp (some i) [Gen.withPreloadedData X]
    ((openRO st p ⟨true⟩).1.map (fun _ => ()), (openRO st p ⟨true⟩).2.holds st.next)
      = ((if isErr r.2.2.2 then .error else .ok ()), lockHeld r.1) := by
  intro r
  rw [openRO_abstract p _ hc, hfs, ← openIndex_preload_eq X i n c cs hp hs]
  rfl

/-! ### (ii) Close releases the lock -/

/-- **`Close` releases this handle's lock and nothing else.** For an open index `h`: it returns nil, `h` holds no lock and is
    not live afterwards, the holders are the old ones without `h` (every other holder stays, none is added), file and id
    counter are untouched. -/
theorem close_releases_lock (st : LockState) (h : HandleId) (hl : h ∈ st.live) :
    (close st h).1 = .ok () ∧ (close st h).2.holds h = false ∧ h ∉ (close st h).2.live ∧
    (close st h).2.holders = st.holders.filter (fun x => x.id != h) ∧
    (∀ x, x ∈ (close st h).2.holders ↔ x ∈ st.holders ∧ x.id ≠ h) ∧
    (close st h).2.fs = st.fs ∧ (close st h).2.next = st.next := by
  have hh : st.live.contains h = true := by simpa using hl
  rw [close_snd_of_live hh]
  refine ⟨rfl, holds_release _ _, by simp, rfl, ?_, rfl, rfl⟩
  intro x; simp [release]

/-- **the last `Close` unlocks the file:** if `h` was the only holder, no holder is left and a read-write open succeeds -/
theorem close_last_unlocks (st : LockState) (w : st.WF) (h : HandleId) (q p : ProcId)
    (hx : st.holders = [{ id := h, proc := q, mode := .shared }]) :
    (close st h).2.holders = [] ∧ (openRW st p).1 = .hang ∧ (openRW (close st h).2 p).1 = .ok st.next := by
  have hl : st.live.contains h = true := by rw [w.live_eq, hx]; simp
  have e : (close st h).2.holders = [] := by rw [close_snd_of_live hl, hx]; simp [release]
  refine ⟨e, ?_, ?_⟩
  · rw [openRW_blocked (by rw [hx]; simp)]
  · rw [openRW_ok e, close_snd_of_live hl]

/-! ### (iii) Close is idempotent -/

/-- **`Close` twice = `Close` once**, in every state and for every handle (open, closed, never returned): both calls
    return nil and the second changes nothing. Not by definition: the first call clears `idx.db` (`live`), which is what
    the second call tests. -/
theorem close_idempotent (st : LockState) (h : HandleId) :
    (close st h).1 = .ok () ∧ close (close st h).2 h = (.ok (), (close st h).2) ∧
    (close (close st h).2 h).2 = (close st h).2 := by
  have e := close_snd_of_not_live (not_live_after_close st h)
  refine ⟨?_, e, by rw [e]⟩
  unfold close; split <;> rfl

/-- `Close` on an index that is not open (closed before, or D4: never returned) changes nothing at all -/
theorem close_not_open_noop (st : LockState) (h : HandleId) (hl : h ∉ st.live) : close st h = (.ok (), st) :=
  close_snd_of_not_live (by simpa using hl)

/-! ### (iv) a process never blocks on its own read-only handles -/

/-- **No `OpenIndex` / `Close` history ever blocks** unless a writer holds the file: from a reachable state whose holders are
    all readers, every event of every history of `OpenIndex` (any processes, any options, failing or not), `Close` (any
    handle, any number of times) and content changes returns; and no writer appears. -/
theorem own_history_never_blocks (st : LockState) (w : st.WF) (hn : ∀ x ∈ st.holders, x.mode = .shared)
    (es : List Ev) (he : es.all Ev.isReader = true) :
    (∀ r ∈ (run st es).2, r ≠ .hang) ∧ (∀ x ∈ (run st es).1.holders, x.mode = .shared) :=
  ⟨(reader_run w hn es he).1, (reader_run w hn es he).2.1⟩

/-- **the holders are the open handles** (key invariant): after a reader history on a file nobody had open, the flock
    holders are exactly the handles that were returned by a successful `OpenIndex` and not closed since
    (`openHandles`, computed from the events and their results), in order, all shared; the live indexes are the same. -/
theorem holders_eq_openHandles (fs : FileState) (n : HandleId) (es : List Ev) (he : es.all Ev.isReader = true) :
    let r := run (.unlocked fs n) es
    r.1.holders.map (·.id) = openHandles es r.2 ∧ (∀ x ∈ r.1.holders, x.mode = .shared) ∧
    r.1.live = openHandles es r.2 := by
  intro r
  have w := LockState.WF.unlocked fs n
  have hn : NoExcl (.unlocked fs n) := by intro x hx; simp [LockState.unlocked] at hx
  obtain ⟨_, h2, h3⟩ := reader_run w hn es he
  refine ⟨h3, h2, ?_⟩
  rw [live_eq_ids (w.run es) h2]; exact h3

/-- … from any reachable state without a writer (`openHandlesFrom` starts with the handles open at that point) -/
theorem holders_eq_openHandlesFrom (st : LockState) (w : st.WF) (hn : ∀ x ∈ st.holders, x.mode = .shared)
    (es : List Ev) (he : es.all Ev.isReader = true) :
    (run st es).1.holders.map (·.id) = openHandlesFrom (st.holders.map (·.id)) es (run st es).2 :=
  (reader_run w hn es he).2.2

/-- **once every opened handle is closed the file is unlocked again**: if the bookkeeping says no handle is open, there is
    no holder and no live index -/
theorem all_closed_unlocked (fs : FileState) (n : HandleId) (es : List Ev) (he : es.all Ev.isReader = true)
    (hall : openHandles es (run (.unlocked fs n) es).2 = []) :
    (run (.unlocked fs n) es).1.holders = [] ∧ (run (.unlocked fs n) es).1.live = [] := by
  obtain ⟨h1, _, h3⟩ := holders_eq_openHandles fs n es he
  rw [hall] at h1 h3
  exact ⟨List.map_eq_nil_iff.mp h1, h3⟩

/-- … constructively: closing every handle that holds a lock (in any order, each any number of times, possibly together
    with handles that are not open) leaves no holder -/
theorem close_all_unlocks (st : LockState) (w : st.WF) (hn : ∀ x ∈ st.holders, x.mode = .shared) (l : List HandleId)
    (hl : ∀ x ∈ st.holders, x.id ∈ l) : (run st (l.map Ev.close)).1.holders = [] := by
  have h := (run_closes w hn l).2
  apply List.map_eq_nil_iff.mp
  rw [h, List.filter_eq_nil_iff]
  intro a ha
  obtain ⟨x, hx, rfl⟩ := List.mem_map.mp ha
  simp [hl x hx]

/-- **open / fail / open**: after a failed attempt, a second attempt (same or other process, same or other options) behaves
    exactly as if the first had never happened, apart from the used-up handle id; in particular it does not hang -/
theorem reopen_after_failure (st : LockState) (w : st.WF) (p p' : ProcId) (o o' : OpenOpts)
    (h : (openRO st p o).1 = .error) :
    openRO (openRO st p o).2 p' o' = openRO { st with next := st.next + 1 } p' o' := by
  rw [failed_open_state w h]

/-- **open / fail / open on a file nobody has open**, the content possibly changed in between (repaired or not): the first
    attempt fails, the second returns what `openIndex` says for the then-current content of an unlocked file, and the
    holders are that second handle or nobody -/
theorem open_fail_open (fs fs' : FileState) (o o' : OpenOpts) (p : ProcId) (n : HandleId)
    (hfail : (openIndex fs o).1 = .error) :
    let r := run (.unlocked fs n) [.openRO p o, .setFile fs', .openRO p o']
    r.2 = [.error, .done, Res.ofOpen ((openIndex fs' o').1.map fun _ => n + 1)] ∧
    r.1.holders = (if (openIndex fs' o').2 then [{ id := n + 1, proc := p, mode := .shared }] else []) := by
  have h1 := openIndex_error_of_fst hfail
  rcases openIndex_cases fs' o' with h2 | h2 <;>
    simp [run, step, openRO, compatible, LockState.unlocked, LockState.acquire, release, h1, h2, Res.ofOpen, Outcome.map]

/-- **open / close / close / open** on a complete index nobody else has open: all four calls return, the second `Close`
    is a no-op, the second open gets a fresh handle and is the only holder afterwards -/
theorem open_close_close_open (fs : FileState) (o : OpenOpts) (p : ProcId) (n : HandleId)
    (hok : (openIndex fs o).1 = .ok ()) :
    run (.unlocked fs n) [.openRO p o, .close n, .close n, .openRO p o]
      = ({ fs := fs, holders := [{ id := n + 1, proc := p, mode := .shared }], live := [n + 1], next := n + 2 },
         [.handle n, .done, .done, .handle (n + 1)]) := by
  have h1 := openIndex_ok_of_fst hok
  simp [run, step, openRO, close, compatible, LockState.unlocked, LockState.acquire, release, h1, Res.ofOpen]

/-! ### (v) who blocks whom -/

/-- a read-write open blocks iff somebody holds a lock, reader or writer, same process or not -/
theorem rw_open_blocks_iff_holders (st : LockState) (q : ProcId) : (openRW st q).1 = .hang ↔ st.holders ≠ [] := by
  by_cases he : st.holders = []
  · rw [openRW_ok he]; simp [he]
  · rw [openRW_blocked he]; simp [he]

/-- **A read-write open blocks exactly while some index is open**: after any reader history on a file nobody had open, a
    read-write `bbolt.Open` by any process hangs iff the set of handles opened successfully and not yet closed is
    non-empty; otherwise it succeeds with a fresh handle. -/
theorem rw_open_blocks_iff (fs : FileState) (n : HandleId) (es : List Ev) (he : es.all Ev.isReader = true) (q : ProcId) :
    let r := run (.unlocked fs n) es
    ((openRW r.1 q).1 = .hang ↔ openHandles es r.2 ≠ []) ∧
    (openHandles es r.2 = [] → (openRW r.1 q).1 = .ok r.1.next) := by
  intro r
  have h1 := (holders_eq_openHandles fs n es he).1
  constructor
  · rw [rw_open_blocks_iff_holders, ← h1]; simp [r]
  · intro h0
    rw [h0] at h1
    rw [openRW_ok (List.map_eq_nil_iff.mp h1)]

/-- … at every point of a history: the probe after the prefix `pre` of `pre ++ post` depends on the handles open after
    `pre` only -/
theorem rw_open_blocks_iff_at (fs : FileState) (n : HandleId) (pre post : List Ev)
    (he : (pre ++ post).all Ev.isReader = true) (q : ProcId) :
    let r := run (.unlocked fs n) (pre ++ post)
    (openRW (run (.unlocked fs n) pre).1 q).1 = .hang ↔ openHandles pre (r.2.take pre.length) ≠ [] := by
  intro r
  have hp : pre.all Ev.isReader = true := by
    rw [List.all_append, Bool.and_eq_true] at he; exact he.1
  have : r.2.take pre.length = (run (.unlocked fs n) pre).2 := by
    show (run _ (pre ++ post)).2.take _ = _
    rw [run_append, ← run_length (.unlocked fs n) pre, List.take_left]
  rw [this]
  exact (rw_open_blocks_iff fs n pre hp q).1

/-- **`OpenIndex` blocks iff a writer holds the file** -/
theorem ro_open_blocks_iff (st : LockState) (p : ProcId) (o : OpenOpts) :
    (openRO st p o).1 = .hang ↔ ∃ x ∈ st.holders, x.mode = .exclusive := by
  rw [← compatible_shared_false_iff]
  by_cases hc : compatible .shared st.holders = true
  · rw [openRO_outcome p o hc, hc]
    have := (open_never_panics st.fs o).2
    cases h : (openIndex st.fs o).1 <;> simp_all [Outcome.map]
  · have hb : compatible .shared st.holders = false := by simpa using hc
    rw [openRO_blocked hb, hb]; simp

/-- **a writer blocks readers until it closes its database**: read-write open of an unlocked file succeeds; every
    `OpenIndex` then hangs; after the writer's `db.Close()` `OpenIndex` returns what `openIndex` says for the content -/
theorem writer_blocks_reader_until_closeRW (fs : FileState) (n : HandleId) (q p : ProcId) (o : OpenOpts) :
    let s1 := (openRW (.unlocked fs n) q).2
    (openRW (.unlocked fs n) q).1 = .ok n ∧ (openRO s1 p o).1 = .hang ∧
    (closeRW s1 n).2.holders = [] ∧
    (openRO (closeRW s1 n).2 p o).1 = (openIndex s1.fs o).1.map fun _ => n + 1 := by
  have e : openRW (.unlocked fs n) q = _ := openRW_ok (st := .unlocked fs n) (p := q) rfl
  simp only [e]
  refine ⟨rfl, ?_, by simp [closeRW, LockState.unlocked], ?_⟩
  · rw [ro_open_blocks_iff]; exact ⟨_, List.mem_singleton.mpr rfl, rfl⟩
  · rw [openRO_outcome]
    · rfl
    · simp [closeRW, LockState.unlocked, compatible]

/-- **the writers of this code base never wait for a reader**: `updog create` / `WriteToBoltDatabase` open with `O_EXCL`,
    so on an existing path (in particular one a reader has open) they fail at once and touch no lock -/
theorem create_on_existing_fails (st : LockState) (q : ProcId) (hex : st.fs ≠ .absent) :
    openCreate st q = (.error, st) := by
  simp [openCreate, hex]

/-! ### (vii) the old model is the one-call abstraction of this one -/

/-- the Boolean of `Model/Open.lean` ("lock still held") is: on an unlocked file, the attempt leaves exactly one holder,
    its own handle — and otherwise nobody -/
theorem old_lock_bit_iff (fs : FileState) (o : OpenOpts) (p : ProcId) (n : HandleId) :
    ((openIndex fs o).2 = true ↔ (openRO (.unlocked fs n) p o).2.holders = [{ id := n, proc := p, mode := .shared }]) ∧
    ((openIndex fs o).2 = false ↔ (openRO (.unlocked fs n) p o).2.holders = []) := by
  rcases openIndex_cases fs o with h | h <;>
    simp [openRO, compatible, LockState.unlocked, LockState.acquire, release, h]

/-- `C15.close_releases`, non-vacuously: for an open index, `closeIndex held` (constant `false`) is the handle's lock bit
    after `Close`, and `closeIndex (closeIndex held)` the one after a second `Close` -/
theorem old_close_releases_refined (st : LockState) (h : HandleId) (hl : h ∈ st.live) :
    (close st h).2.holds h = closeIndex (st.holds h) ∧
    (close (close st h).2 h).2.holds h = closeIndex (closeIndex (st.holds h)) := by
  rw [(close_idempotent st h).2.2]
  exact ⟨(close_releases_lock st h hl).2.1, (close_releases_lock st h hl).2.1⟩

/-- `C15.reopen_same`, non-vacuously: open, then `Close` if it succeeded (nothing to close if it failed); the file is
    unlocked again and a second `OpenIndex` returns the same outcome as the first -/
theorem reopen_same_refined (fs : FileState) (o : OpenOpts) (p : ProcId) (n : HandleId) :
    let a := openRO (.unlocked fs n) p o
    let s := (close a.2 n).2
    s.holders = [] ∧ s.live = [] ∧ (openRO s p o).1.map (fun _ => ()) = a.1.map (fun _ => ()) ∧
    a.1.map (fun _ => ()) = (openIndex fs o).1 := by
  rcases openIndex_cases fs o with h | h <;>
    simp [openRO, close, compatible, LockState.unlocked, LockState.acquire, release, h, Outcome.map]

/-! ### (vi) concrete instances -/

/-- a complete index file -/
def goodFile : FileState := .bolt true .good .good true
/-- a file `updog create` was killed on: bitmaps but no header -/
def damagedFile : FileState := .bolt true .missing .missing true

-- open / fail / open on a damaged file: both fail, nobody holds the lock
example : run (.unlocked damagedFile) [.openRO 1 ⟨false⟩, .openRO 1 ⟨true⟩]
    = ({ fs := damagedFile, next := 2 }, [.error, .error]) := by decide
example : run (.unlocked .absent) [.openRO 1 ⟨false⟩, .openRO 1 ⟨false⟩] = ({ fs := .absent, next := 2 }, [.error, .error]) := by
  decide
example : run (.unlocked .notBolt) [.openRO 1 ⟨false⟩, .openRO 1 ⟨false⟩] = ({ fs := .notBolt, next := 2 }, [.error, .error]) := by
  decide
-- … repaired in between: the second attempt succeeds (`open_fail_open`, `failed_open_lock_free`)
example : (run (.unlocked damagedFile) [.openRO 1 ⟨false⟩, .setFile goodFile, .openRO 1 ⟨false⟩]).2
    = [.error, .done, .handle 1] := by decide
example : (openRO (.unlocked damagedFile 7) 1 ⟨false⟩).1 = .error ∧ (LockState.unlocked damagedFile 7).WF :=
  ⟨by decide, LockState.WF.unlocked _ _⟩
-- a failed attempt next to an open handle of the same process: that handle keeps its lock, nothing else is held
example : (run (.unlocked goodFile) [.openRO 1 ⟨false⟩, .setFile damagedFile, .openRO 1 ⟨false⟩]).1.holders
    = [{ id := 0, proc := 1, mode := .shared }] := by decide
-- open ok → read-write open by process 2 hangs → close → read-write open succeeds (`close_last_unlocks`, `rw_open_blocks_iff`)
example : (run (.unlocked goodFile) [.openRO 1 ⟨true⟩, .openRW 2, .close 0, .openRW 2]).2
    = [.handle 0, .hang, .done, .handle 1] := by decide
-- … also from the same process (flock is per open file description)
example : (run (.unlocked goodFile) [.openRO 1 ⟨true⟩, .openRW 1]).2 = [.handle 0, .hang] := by decide
-- open / close / close / open (`open_close_close_open`, `close_idempotent`)
example : run (.unlocked goodFile) [.openRO 1 ⟨false⟩, .close 0, .close 0, .openRO 1 ⟨false⟩]
    = ({ fs := goodFile, holders := [{ id := 1, proc := 1, mode := .shared }], live := [1], next := 2 },
       [.handle 0, .done, .done, .handle 1]) := by decide
-- two read-only handles; closing one keeps writers out, closing the other lets them in
example : (run (.unlocked goodFile) [.openRO 1 ⟨false⟩, .openRO 1 ⟨true⟩, .close 0, .openRW 2, .close 1, .openRW 2]).2
    = [.handle 0, .handle 1, .done, .hang, .done, .handle 2] := by decide
-- the bookkeeping of that history (`holders_eq_openHandles`)
example : openHandles [.openRO 1 ⟨false⟩, .openRO 1 ⟨true⟩, .close 0] [.handle 0, .handle 1, .done] = [1] := by decide
-- a writer keeps readers out until it closes (`writer_blocks_reader_until_closeRW`, `ro_open_blocks_iff`)
example : (run (.unlocked .absent) [.openRW 2, .openRO 1 ⟨false⟩, .closeRW 0, .openRO 1 ⟨false⟩]).2
    = [.handle 0, .hang, .done, .error] := by decide
-- `updog create` onto an index somebody has open fails, it does not hang (`create_on_existing_fails`)
example : (run (.unlocked goodFile) [.openRO 1 ⟨false⟩, .openCreate 2]).2 = [.handle 0, .error] := by decide
-- closing a handle that was never returned, in a state with an open index: nothing happens (`close_not_open_noop`)
example : (run (.unlocked goodFile) [.openRO 1 ⟨false⟩, .close 5]).1.holders = [{ id := 0, proc := 1, mode := .shared }] := by
  decide
-- the hypotheses of `own_history_never_blocks` / `close_last_unlocks` hold in a state with two open handles / one
example : (run (.unlocked goodFile) [.openRO 1 ⟨false⟩, .openRO 2 ⟨false⟩]).1.WF ∧
    ∀ x ∈ (run (.unlocked goodFile) [.openRO 1 ⟨false⟩, .openRO 2 ⟨false⟩]).1.holders, x.mode = .shared :=
  ⟨(LockState.WF.unlocked _ _).run _, by decide⟩
-- the generated code on the toy file of Props/Gen/Open.lean: a file without row counter is closed again, the complete one stays open
example : lockHeld (Gen.openIndexFromBoltDatabase toyExt (idle 0 0 [([100, 97, 116, 97], [([83], [2])])] []) {} (some 0) []).1
    = false := by decide
example : lockHeld (Gen.openIndexFromBoltDatabase toyExt (idle 0 0 demoFile []) {} (some 0) []).1 = true := by decide

end Updog.C15
