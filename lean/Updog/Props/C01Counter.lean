/-
C01 (32-bit row counter) — `count_correct` and its companions for the index opened from the file the CODE persists
(`uint32` counter, 4 bytes under `'I'`; `Model/Counter32.lean`), for both writers, under `FitsCounter rows`
(fewer than 2^32 rows). `C01.count_correct` / `C01.count_correct_big` are true as stated, on the unbounded counter of
`Model/Index.lean`; for the code's counter the property should cite `count_correct_fits`.
The bound is sharp: `C05.counter32_wraps`, `C05.not_ignored_when_wrapped`.
-/
import Updog.Props.C05Counter
import Updog.Props.C01Writers
namespace Updog.C01
open Updog

variable (H : Bytes → UInt64)

/-- **Transfer of every query.** With fewer than 2^32 rows, `Execute` on the index opened from the persisted file of
either 32-bit writer returns exactly what it returns on `(Writer.addRows H {} rows).toIndex` — for EVERY query. -/
theorem execute32_eq_fits (rows : List Row) (hfit : FitsCounter rows) (q : Query) :
    execute H (Writer32.image H rows).open q = execute H (Writer.addRows H {} rows).toIndex q ∧
    execute H (BigWriter32.image H rows).open q = execute H (Writer.addRows H {} rows).toIndex q := by
  obtain ⟨h1, h2⟩ := C05.open32_eq_fits H rows hfit
  rw [h1, h2]
  exact ⟨rfl, same_answer_both_writers H rows (Nat.le_of_lt hfit) q⟩

/-- **Total count, code's counter.** For every dataset of fewer than 2^32 rows, every well-formed expression over
columns of the data and every hash without a collision between a data pair and a different tested pair: `Execute` on
the index opened from the file written by the in-memory writer, and on the one written by the big writer, returns
exactly the number of rows satisfying the expression. -/
theorem count_correct_fits (rows : List Row) (e : Expr) (hfit : FitsCounter rows)
    (hcols : ∀ c ∈ e.columns, c ∈ columnsOf rows) (hwf : e.arityPos = true)
    (hinj : NoCollision H rows e.pairs) :
    execute H (Writer32.image H rows).open ⟨e, []⟩ = some ⟨specCount rows e, []⟩ ∧
    execute H (BigWriter32.image H rows).open ⟨e, []⟩ = some ⟨specCount rows e, []⟩ := by
  obtain ⟨h1, h2⟩ := execute32_eq_fits H rows hfit ⟨e, []⟩
  rw [h1, h2]
  exact ⟨count_correct H rows e hcols hwf hinj, count_correct H rows e hcols hwf hinj⟩

/-- a query testing a column that occurs in no row is an error on both files -/
theorem unknown_column_errors_fits (rows : List Row) (hfit : FitsCounter rows) (q : Query) (c : Bytes)
    (hc : c ∈ q.expr.columns) (hno : c ∉ columnsOf rows) :
    execute H (Writer32.image H rows).open q = none ∧ execute H (BigWriter32.image H rows).open q = none := by
  obtain ⟨h1, h2⟩ := execute32_eq_fits H rows hfit q
  rw [h1, h2]
  exact ⟨unknown_column_errors H rows q c hc hno, unknown_column_errors H rows q c hc hno⟩

/-! ### non-vacuity -/

/-- the hypotheses of `count_correct_fits` hold for the dataset and expression of `C01.lean` -/
example : FitsCounter exRows ∧ (∀ c ∈ exExpr.columns, c ∈ columnsOf exRows) ∧ exExpr.arityPos = true ∧
    NoCollision toyH exRows exExpr.pairs :=
  ⟨by decide, by decide, by decide, by unfold NoCollision; decide⟩

example : execute toyH (Writer32.image toyH exRows).open ⟨exExpr, []⟩ = some ⟨2, []⟩ ∧
    execute toyH (BigWriter32.image toyH exRows).open ⟨exExpr, []⟩ = some ⟨2, []⟩ := by
  have := count_correct_fits toyH exRows exExpr (by decide) (by decide) (by decide)
    (by unfold NoCollision; decide)
  simpa [specCount, exRows, exExpr, sat, satAny] using this

end Updog.C01
