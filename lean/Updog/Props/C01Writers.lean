/-
C01 (composition) — the total count is also correct on the index written by the disk-backed big writer,
and both writers' indexes answer every query identically.
Composition of `C01.count_correct` with `C05.writers_agree_index`.
-/
import Updog.Props.C01
import Updog.Props.C05Schema
namespace Updog.C01
open Updog

variable (H : Bytes → UInt64)

/-- the index opened from the big writer's output is the index opened from the in-memory writer's output
(`C05.writers_agree_index`, restated with `C05.bigIndex`) -/
theorem bigIndex_eq (rows : List Row) (hlen : rows.length ≤ 2 ^ 32) :
    C05.bigIndex H rows = (Writer.addRows H {} rows).toIndex :=
  C05.writers_agree_index H rows hlen

/-- **Both writers give the same answers.** For EVERY query (any expression, well-formed or not, over known or
unknown columns, any group-by list), every hash function (collisions included) and every dataset of at most
2^32 rows, `Execute` on the index written by the big writer returns exactly what it returns on the index
written by the in-memory writer — the same error or the same count and groups. -/
theorem same_answer_both_writers (rows : List Row) (hlen : rows.length ≤ 2 ^ 32) (q : Query) :
    execute H (C05.bigIndex H rows) q = execute H (Writer.addRows H {} rows).toIndex q := by
  rw [bigIndex_eq H rows hlen]

/-- the same for the evaluation of a bare expression (the bitmap of matching rows) -/
theorem same_eval_both_writers (rows : List Row) (hlen : rows.length ≤ 2 ^ 32) (e : Expr) :
    eval H (C05.bigIndex H rows) e = eval H (Writer.addRows H {} rows).toIndex e := by
  rw [bigIndex_eq H rows hlen]

/-- **Total count on the big writer's index.** Under the hypotheses of `count_correct` and with at most 2^32
rows, `Execute` on the index opened from the big writer's output returns exactly the number of rows
satisfying the expression. -/
theorem count_correct_big (rows : List Row) (e : Expr) (hlen : rows.length ≤ 2 ^ 32)
    (hcols : ∀ c ∈ e.columns, c ∈ columnsOf rows) (hwf : e.arityPos = true)
    (hinj : NoCollision H rows e.pairs) :
    execute H (C05.bigIndex H rows) ⟨e, []⟩ = some ⟨specCount rows e, []⟩ := by
  rw [same_answer_both_writers H rows hlen]
  exact count_correct H rows e hcols hwf hinj

/-- an unknown column is an error on the big writer's index too -/
theorem unknown_column_errors_big (rows : List Row) (hlen : rows.length ≤ 2 ^ 32) (q : Query) (c : Bytes)
    (hc : c ∈ q.expr.columns) (hno : c ∉ columnsOf rows) : execute H (C05.bigIndex H rows) q = none := by
  rw [same_answer_both_writers H rows hlen]
  exact unknown_column_errors H rows q c hc hno

/-! ### non-vacuity -/

/-- the hypotheses of `count_correct_big` hold for the dataset and expression of `C01` -/
example : exRows.length ≤ 2 ^ 32 ∧ (∀ c ∈ exExpr.columns, c ∈ columnsOf exRows) ∧ exExpr.arityPos = true ∧
    NoCollision toyH exRows exExpr.pairs :=
  ⟨by decide, by decide, by decide, by unfold NoCollision; decide⟩

example : execute toyH (C05.bigIndex toyH exRows) ⟨exExpr, []⟩ = some ⟨2, []⟩ := by
  have := count_correct_big toyH exRows exExpr (by decide) (by decide) (by decide)
    (by unfold NoCollision; decide)
  simpa [specCount, exRows, exExpr, sat, satAny] using this

/-- `same_answer_both_writers` needs nothing of the query or the hash: an ill-formed expression (`AND` without
operands), an unknown group-by column, the constant hash -/
example : execute C05.H0 (C05.bigIndex C05.H0 C05.rows) ⟨.and [], [[9]]⟩
    = execute C05.H0 (Writer.addRows C05.H0 {} C05.rows).toIndex ⟨.and [], [[9]]⟩ :=
  same_answer_both_writers C05.H0 C05.rows (by decide) _

end Updog.C01
