/-
C02 (32-bit row counter) — `groupBy_eq_spec` for the index opened from the file the CODE persists (`uint32` counter;
`Model/Counter32.lean`), for both writers, under `FitsCounter rows` (fewer than 2^32 rows).
`C02.groupBy_eq_spec` is true as stated, on the unbounded counter of `Model/Index.lean`; for the code's counter the
property should cite `groupBy_eq_spec_fits`. The SQL-reading corollaries of `C02.lean` (`groups_eq`, `mem_groups_iff`,
`groups_columns`, `groups_count_pos`, `groups_strictly_ascending`, `groups_tuples_nodup`,
`repeated_column_same_value`) take a hypothesis `execute H (Writer.addRows H {} rows).toIndex ⟨e, cols⟩ = some res`;
`result_transfers_fits` turns a result obtained from either persisted file into that hypothesis.
-/
import Updog.Props.C01Counter
import Updog.Props.C02
namespace Updog.C02
open Updog

variable (H : Bytes → UInt64)

/-- **Group-by, code's counter.** Under the hypotheses of `groupBy_eq_spec` and with fewer than 2^32 rows, `Execute`
on the index opened from the file written by the in-memory writer, and on the one written by the big writer, returns
exactly the answer of the specification. -/
theorem groupBy_eq_spec_fits (rows : List Row) (e : Expr) (cols : List Bytes) (hfit : FitsCounter rows)
    (hcols : ∀ c ∈ e.columns, c ∈ columnsOf rows) (hwf : e.arityPos = true)
    (hinj : NoCollision H rows e.pairs) (hD : DataNoCollision H rows)
    (hg : ∀ c ∈ cols, c ∈ columnsOf rows) :
    execute H (Writer32.image H rows).open ⟨e, cols⟩ = specExecute rows ⟨e, cols⟩ ∧
    execute H (BigWriter32.image H rows).open ⟨e, cols⟩ = specExecute rows ⟨e, cols⟩ := by
  obtain ⟨h1, h2⟩ := C01.execute32_eq_fits H rows hfit ⟨e, cols⟩
  rw [h1, h2]
  exact ⟨groupBy_eq_spec H rows e cols hcols hwf hinj hD hg, groupBy_eq_spec H rows e cols hcols hwf hinj hD hg⟩

/-- a result read from either persisted file is a result of the index the corollaries of `C02.lean` speak about -/
theorem result_transfers_fits (rows : List Row) (hfit : FitsCounter rows) (q : Query) (res : Result)
    (hres : execute H (Writer32.image H rows).open q = some res ∨ execute H (BigWriter32.image H rows).open q = some res) :
    execute H (Writer.addRows H {} rows).toIndex q = some res := by
  obtain ⟨h1, h2⟩ := C01.execute32_eq_fits H rows hfit q
  rcases hres with h | h
  · rw [← h1]; exact h
  · rw [← h2]; exact h

/-- an unknown group-by column is an error on both files -/
theorem unknown_groupby_column_errors_fits (rows : List Row) (hfit : FitsCounter rows) (e : Expr) (cols : List Bytes)
    (c : Bytes) (hc : c ∈ cols) (hno : c ∉ columnsOf rows) :
    execute H (Writer32.image H rows).open ⟨e, cols⟩ = none ∧
    execute H (BigWriter32.image H rows).open ⟨e, cols⟩ = none := by
  obtain ⟨h1, h2⟩ := C01.execute32_eq_fits H rows hfit ⟨e, cols⟩
  rw [h1, h2]
  exact ⟨unknown_groupby_column_errors H rows e cols c hc hno, unknown_groupby_column_errors H rows e cols c hc hno⟩

/-! ### non-vacuity -/

/-- the hypotheses of `groupBy_eq_spec_fits` hold for the dataset, expression and group-by list of `C02.lean` -/
example : FitsCounter exRows ∧ (∀ c ∈ exExpr.columns, c ∈ columnsOf exRows) ∧ exExpr.arityPos = true ∧
    NoCollision C01.toyH exRows exExpr.pairs ∧ DataNoCollision C01.toyH exRows ∧
    (∀ c ∈ exCols, c ∈ columnsOf exRows) := by
  refine ⟨by decide, by decide, by decide, ?_, ?_, by decide⟩
  · unfold NoCollision; decide
  · unfold DataNoCollision; decide

/-- the concrete result on both persisted files -/
example : execute C01.toyH (Writer32.image C01.toyH exRows).open ⟨exExpr, exCols⟩ = some exResult ∧
    execute C01.toyH (BigWriter32.image C01.toyH exRows).open ⟨exExpr, exCols⟩ = some exResult := by
  obtain ⟨h1, h2⟩ := C01.execute32_eq_fits C01.toyH exRows (by decide) ⟨exExpr, exCols⟩
  rw [h1, h2]
  exact ⟨ex_execute, ex_execute⟩

end Updog.C02
