/-
C11 (composition) — executing a prepared statement with arguments selects exactly the rows that the
one-shot query with the literal values in place of the placeholders selects.
Composition of `C11.bind_exact` / `C11.subst_no_placeholder` with `C10.roundtrip` and `C10.norm_sound`.
Composition file: helper lemmas first, main theorems below.
-/
import Updog.Props.C10
import Updog.Props.C11
namespace Updog.C11
open Updog

/-! ### helper lemmas: binding a tree without placeholders, well-formedness of a bound tree -/

mutual
/-- a tree without placeholders is not changed by binding, whatever the arguments -/
theorem subst_of_no_placeholder (a : List Bytes) (e : PExpr) (h : maxPh e = 0) : subst a e = e := by
  match e with
  | .eq c v ph =>
    simp only [maxPh] at h
    subst h
    simp [subst]
  | .not e' => simp [subst, subst_of_no_placeholder a e' (by simpa [maxPh] using h)]
  | .and es => simp [subst, substList_of_no_placeholder a es (by simpa [maxPh] using h)]
  | .or es => simp [subst, substList_of_no_placeholder a es (by simpa [maxPh] using h)]
theorem substList_of_no_placeholder (a : List Bytes) (es : List PExpr) (h : maxPhList es = 0) :
    substList a es = es := by
  match es with
  | [] => rfl
  | e :: es' =>
    simp only [maxPhList] at h
    simp [substList, subst_of_no_placeholder a e (by omega), substList_of_no_placeholder a es' (by omega)]
end

/-- hence the conversion the server applies sees the same tree -/
theorem toExpr_subst_of_no_placeholder (a : List Bytes) (e : PExpr) (h : maxPh e = 0) :
    toExpr (subst a e) = toExpr e := by
  rw [subst_of_no_placeholder a e h]

/-- binding twice is binding once: the second argument list is never looked at -/
theorem subst_subst (a args : List Bytes) (e : PExpr) : subst a (subst args e) = subst args e :=
  subst_of_no_placeholder a _ (subst_no_placeholder args e)

theorem substList_ne_nil (args : List Bytes) (es : List PExpr) (h : es ≠ []) : substList args es ≠ [] := by
  cases es with
  | nil => exact absurd rfl h
  | cons e es' => simp [substList]

mutual
/-- a bound tree is again well-formed: the argument values may be ANY bytes (quotes, newlines,
non-ASCII, empty), `WFE` puts no condition on literal values -/
theorem subst_wf (args : List Bytes) (e : PExpr) (h : WFE e) : WFE (subst args e) := by
  match e with
  | .eq c v ph =>
    simp only [WFE] at h
    simp only [subst]
    split <;> exact ⟨h.1, by omega⟩
  | .not e' =>
    simp only [WFE] at h
    simpa [subst, WFE] using subst_wf args e' h
  | .and es =>
    simp only [WFE] at h
    simp only [subst, WFE]
    exact ⟨substList_ne_nil args es h.1, substList_wf args es h.2⟩
  | .or es =>
    simp only [WFE] at h
    simp only [subst, WFE]
    exact ⟨substList_ne_nil args es h.1, substList_wf args es h.2⟩
theorem substList_wf (args : List Bytes) (es : List PExpr) (h : WFL es) : WFL (substList args es) := by
  match es with
  | [] => simp [substList, WFL]
  | e :: es' =>
    simp only [WFL] at h
    simp only [substList, WFL]
    exact ⟨subst_wf args e h.1, substList_wf args es' h.2⟩
end

/-! ### main theorems -/

/-- the bound query: the statement's tree with every `$n` replaced by the n-th argument -/
def bound (q : PQuery) (args : List Bytes) : PQuery := ⟨subst args q.expr, q.groupBy⟩

/-- The bound query of a well-formed statement is what `bind` returns (given enough arguments), is again
well-formed, has no placeholder left, and binding it again with any arguments leaves it unchanged. -/
theorem bound_wf (q : PQuery) (hq : WFQ q) (args : List Bytes) (hargs : maxPh q.expr ≤ args.length) :
    bind q args = .ok (bound q args) ∧ WFQ (bound q args) ∧ maxPh (bound q args).expr = 0 ∧
    ∀ a, subst a (bound q args).expr = (bound q args).expr :=
  ⟨bind_exact q args hargs, ⟨subst_wf args q.expr hq.expr, hq.fields⟩, subst_no_placeholder args q.expr,
    fun a => subst_subst a args q.expr⟩

/-- **Prepared = one-shot.** Let `q` be a well-formed prepared statement and `args` at least as many
arguments as its highest placeholder number (argument values: arbitrary bytes). Let `b` be the bound query.
The one-shot query text with the literal values is `fmtQuery b`. It is accepted by the parser; the parsed
one-shot query `q'` has the statement's group-by list, no placeholder, and for EVERY row it is satisfied iff
the bound prepared statement is: both executions select exactly the same rows. -/
theorem prepared_equals_oneshot (q : PQuery) (hq : WFQ q) (args : List Bytes)
    (hargs : maxPh q.expr ≤ args.length) :
    let b := bound q args
    bind q args = .ok b ∧ WFQ b ∧ maxPh b.expr = 0 ∧ (∀ a, subst a b.expr = b.expr) ∧
    ∃ q', parseQuery (fmtQuery b) = some q' ∧ q'.groupBy = q.groupBy ∧ maxPh q'.expr = 0 ∧
      ∀ r : Row, sat r (toExpr q'.expr) = sat r (toExpr b.expr) := by
  intro b
  obtain ⟨hb1, hb2, hb3, hb4⟩ := bound_wf q hq args hargs
  refine ⟨hb1, hb2, hb3, hb4, ?_⟩
  obtain ⟨q', hp, hn, hg⟩ := C10.roundtrip b hb2
  obtain ⟨hm, hs⟩ := C10.norm_sound q'.expr b.expr hn
  have hm' : maxPh q'.expr = 0 := by rw [hm]; exact hb3
  refine ⟨q', hp, hg, hm', ?_⟩
  intro r
  have := hs [] r
  rwa [toExpr_subst_of_no_placeholder [] q'.expr hm', toExpr_subst_of_no_placeholder [] b.expr hb3] at this

/-- Row-set form: on every dataset, the rows selected by the parsed one-shot text are the rows selected by the
prepared statement bound to the arguments; the specification's count agrees. -/
theorem prepared_equals_oneshot_rows (q q' : PQuery) (hq : WFQ q) (args : List Bytes)
    (hp : parseQuery (fmtQuery (bound q args)) = some q') (rows : List Row) :
    rows.filter (sat · (toExpr q'.expr)) = rows.filter (sat · (toExpr (subst args q.expr))) ∧
    specCount rows (toExpr q'.expr) = specCount rows (toExpr (subst args q.expr)) ∧
    (toQuery q').groupBy = q.groupBy := by
  have hw : WFQ (bound q args) := ⟨subst_wf args q.expr hq.expr, hq.fields⟩
  obtain ⟨hm, hg, hs⟩ := C10.roundtrip_semantics (bound q args) q' hw hp
  have h0 : maxPh (bound q args).expr = 0 := subst_no_placeholder args q.expr
  have hr : ∀ r : Row, sat r (toExpr q'.expr) = sat r (toExpr (subst args q.expr)) := by
    intro r
    have := hs [] r
    rwa [toExpr_subst_of_no_placeholder [] q'.expr (hm.trans h0),
      toExpr_subst_of_no_placeholder [] (bound q args).expr h0] at this
  have hf : rows.filter (sat · (toExpr q'.expr)) = rows.filter (sat · (toExpr (subst args q.expr))) :=
    List.filter_congr (fun r _ => hr r)
  exact ⟨hf, by unfold specCount; rw [hf], hg⟩

/-! ### non-vacuity -/

/-- `a = $2 & ^ ( b = "x" | c = $1 ) ; g` -/
def exStmt : PQuery := ⟨.and [.eq [97] [] 2, .not (.or [.eq [98] [120] 0, .eq [99] [] 1])], [[103]]⟩

/-- arguments with a quote, a newline and a non-ASCII byte; and the empty value -/
def exArgs : List Bytes := [[34, 10, 200], []]

theorem exStmt_ok : WFQ exStmt ∧ maxPh exStmt.expr ≤ exArgs.length := by
  refine ⟨⟨?_, by decide⟩, by decide⟩
  simp [exStmt, WFE, WFL, validIdent, isAlpha]

/-- the main theorem applied to the concrete statement and arguments -/
example : ∃ q', parseQuery (fmtQuery (bound exStmt exArgs)) = some q' ∧ q'.groupBy = [[103]] ∧
    maxPh q'.expr = 0 ∧ ∀ r : Row, sat r (toExpr q'.expr) = sat r (toExpr (bound exStmt exArgs).expr) :=
  (prepared_equals_oneshot exStmt exStmt_ok.1 exArgs exStmt_ok.2).2.2.2.2

example : bound exStmt exArgs
    = ⟨.and [.eq [97] [] 0, .not (.or [.eq [98] [120] 0, .eq [99] [34, 10, 200] 0])], [[103]]⟩ := by
  simp [bound, exStmt, exArgs, subst, substList]

/-- the one-shot text: `a = "" & ^ ( b = "x" | c = "<quote><quote>\n\xc8" ) ; g` -/
example : fmtQuery (bound exStmt exArgs) =
    [97, 32, 61, 32, 34, 34, 32, 38, 32, 94, 32, 40, 32, 98, 32, 61, 32, 34, 120, 34, 32, 124, 32,
     99, 32, 61, 32, 34, 34, 34, 10, 200, 34, 32, 41, 32, 59, 32, 103] := by
  simp [bound, exStmt, exArgs, subst, substList, fmtQuery, fmtExpr, fmtAnd, fmtOr, parens, isAnd, isOr,
    quoteValue, joinFields]

end Updog.C11
