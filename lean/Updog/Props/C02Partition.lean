/-
C02 — partition: the group counts add up to the number of satisfying rows that carry every listed column.
-/
import Updog.Props.C02
namespace Updog.C02
open Updog

/-! ### list helpers -/

theorem sum_map_add' {α} (f g : α → Nat) (l : List α) :
    (l.map fun x => f x + g x).sum = (l.map f).sum + (l.map g).sum := by
  induction l with
  | nil => rfl
  | cons a l ih => simp only [List.map_cons, List.sum_cons, ih]; omega

theorem sum_map_ite_one {α} (p : α → Bool) (l : List α) :
    (l.map fun x => if p x = true then 1 else 0).sum = (l.filter p).length := by
  induction l with
  | nil => rfl
  | cons a l ih =>
    simp only [List.map_cons, List.sum_cons, ih, List.filter_cons]
    cases p a <;> simp <;> omega

theorem sum_map_ite_const {α} (p : α → Bool) (k : Nat) (l : List α) :
    (l.map fun x => if p x = true then k else 0).sum = (l.filter p).length * k := by
  induction l with
  | nil => simp
  | cons a l ih =>
    simp only [List.map_cons, List.sum_cons, ih, List.filter_cons]
    cases p a <;> simp [Nat.add_mul] <;> omega

theorem length_le_one_of_nodup_of_eq {α} {l : List α} (hnd : l.Nodup)
    (heq : ∀ a ∈ l, ∀ b ∈ l, a = b) : l.length ≤ 1 := by
  match l, hnd, heq with
  | [], _, _ => simp
  | [_], _, _ => simp
  | a :: b :: l, hnd, heq =>
    rw [List.nodup_cons] at hnd
    have : a = b := heq a (by simp) b (by simp)
    subst this
    exact absurd (by simp) hnd.1

/-- dropping the zero counts does not change the sum -/
theorem sum_filterMap_nonzero {α} (f : α → Nat) (l : List α) :
    ((l.filterMap fun t => let n := f t; if n = 0 then none else some (t, n)).map (·.2)).sum =
      (l.map f).sum := by
  induction l with
  | nil => rfl
  | cons a l ih =>
    rw [List.filterMap_cons]
    by_cases h : f a = 0
    · simp only [h, if_true, List.map_cons, List.sum_cons, Nat.zero_add]
      exact ih
    · simp only [h, if_false, List.map_cons, List.sum_cons]
      rw [ih]

/-! ### swap of summation -/

theorem groupCount_cons (r : Row) (rows : List Row) (e : Expr) (t : Fields) :
    groupCount (r :: rows) e t =
      (if (sat r e && rowMatches r t) = true then 1 else 0) + groupCount rows e t := by
  unfold groupCount
  rw [List.filter_cons]
  cases (sat r e && rowMatches r t) <;> simp <;> omega

theorem sum_groupCount (rows : List Row) (e : Expr) (P : List Fields) :
    (P.map (groupCount rows e)).sum =
      (rows.map fun r => if sat r e = true then (P.filter (rowMatches r)).length else 0).sum := by
  induction rows with
  | nil =>
    simp only [List.map_nil, List.sum_nil]
    induction P with
    | nil => rfl
    | cons t P ih => simp only [List.map_cons, List.sum_cons, ih]; rfl
  | cons r rows ih =>
    have : (P.map (groupCount (r :: rows) e)) =
        P.map fun t => (if (sat r e && rowMatches r t) = true then 1 else 0) + groupCount rows e t := by
      apply List.map_congr_left
      intro t _
      exact groupCount_cons r rows e t
    rw [this, sum_map_add', ih, List.map_cons, List.sum_cons]
    congr 1
    cases hs : sat r e
    · simp only [Bool.false_and, Bool.false_eq_true, if_false]
      have := sum_map_ite_const (fun _ : Fields => false) 0 P
      simpa using this
    · simp only [Bool.true_and, if_true]
      exact sum_map_ite_one (rowMatches r) P

/-! ### a row with distinct keys matches at most one tuple of the product -/

theorem rowMatches_cons (r : Row) (p : Bytes × Bytes) (t : Fields) :
    rowMatches r (p :: t) = (r.contains p && rowMatches r t) := by
  simp [rowMatches]

theorem filter_product_length (r : Row) (hnd : (r.map (·.1)).Nodup)
    (cvs : List (Bytes × List Bytes)) (hvs : ∀ cv ∈ cvs, cv.2.Nodup)
    (hin : ∀ cv ∈ cvs, ∀ v, (cv.1, v) ∈ r → v ∈ cv.2) :
    ((product cvs).filter (rowMatches r)).length =
      if (cvs.all fun cv => (r.map (·.1)).contains cv.1) = true then 1 else 0 := by
  induction cvs with
  | nil => rfl
  | cons cv rest ih =>
    obtain ⟨c, vs⟩ := cv
    have ih' := ih (fun cv h => hvs cv (List.mem_cons_of_mem _ h))
      (fun cv h => hin cv (List.mem_cons_of_mem _ h))
    have hvs0 : vs.Nodup := hvs (c, vs) (by simp)
    have hin0 : ∀ v, (c, v) ∈ r → v ∈ vs := hin (c, vs) (by simp)
    simp only [product]
    rw [List.filter_flatMap, List.length_flatMap]
    have h1 : (vs.map fun v => (List.filter (rowMatches r)
          ((product rest).map fun t => (c, v) :: t)).length) =
        vs.map fun v => if (r.contains (c, v)) = true
          then ((product rest).filter (rowMatches r)).length else 0 := by
      apply List.map_congr_left
      intro v _
      rw [List.filter_map, List.length_map]
      cases hc : r.contains (c, v)
      · have : (rowMatches r ∘ fun t => (c, v) :: t) = fun _ => false := by
          funext t
          show rowMatches r ((c, v) :: t) = false
          rw [rowMatches_cons, hc, Bool.false_and]
        rw [this]; simp
      · have : (rowMatches r ∘ fun t => (c, v) :: t) = rowMatches r := by
          funext t
          show rowMatches r ((c, v) :: t) = rowMatches r t
          rw [rowMatches_cons, hc, Bool.true_and]
        rw [this]; simp
    rw [h1, sum_map_ite_const (fun v => r.contains (c, v)), ih']
    -- the number of values of `c` carried by `r`
    have hle : (vs.filter fun v => r.contains (c, v)).length ≤ 1 := by
      apply length_le_one_of_nodup_of_eq (hvs0.filter _)
      intro a ha b hb
      rw [List.mem_filter] at ha hb
      have ha' : (c, a) ∈ r := by simpa using ha.2
      have hb' : (c, b) ∈ r := by simpa using hb.2
      have := eq_of_mem_of_nodup_keys hnd ha' hb' rfl
      exact (Prod.mk.injEq _ _ _ _ ▸ this).2
    rw [List.all_cons]
    by_cases hk : c ∈ r.map (·.1)
    · obtain ⟨p, hp, hpc⟩ := List.mem_map.mp hk
      have hp' : (c, p.2) ∈ r := by rw [← hpc]; exact hp
      have hpos : 0 < (vs.filter fun v => r.contains (c, v)).length := by
        apply List.length_pos_of_mem (a := p.2)
        rw [List.mem_filter]
        exact ⟨hin0 _ hp', by simpa using hp'⟩
      have h1 : (vs.filter fun v => r.contains (c, v)).length = 1 := by omega
      have hk' : (r.map (·.1)).contains c = true := by simpa using hk
      rw [h1, hk', Bool.true_and, Nat.one_mul]
    · have h0 : (vs.filter fun v => r.contains (c, v)).length = 0 := by
        rw [List.length_eq_zero_iff, List.filter_eq_nil_iff]
        intro v _ hc
        apply hk
        have : (c, v) ∈ r := by simpa using hc
        exact List.mem_map.mpr ⟨(c, v), this, rfl⟩
      have hk' : (r.map (·.1)).contains c = false := by simpa using hk
      rw [h0, hk', Bool.false_and, Nat.zero_mul]
      rfl

/-! ### the partition theorem -/

variable (H : Bytes → UInt64)

section sql
variable (rows : List Row) (e : Expr) (cols : List Bytes)
  (hcols : ∀ c ∈ e.columns, c ∈ columnsOf rows) (hwf : e.arityPos = true)
  (hinj : NoCollision H rows e.pairs) (hD : DataNoCollision H rows)
  (hg : ∀ c ∈ cols, c ∈ columnsOf rows) (hne : cols ≠ [])
  (res : Result) (hres : execute H (Writer.addRows H {} rows).toIndex ⟨e, cols⟩ = some res)
include hcols hwf hinj hD hg hne hres

/-- **Partition.** When rows are maps (one value per key), the counts of the groups add up to the number of
rows that satisfy the expression and carry every listed column: no row is counted in two groups, none is dropped. -/
theorem groups_counts_sum (hmap : ∀ r ∈ rows, (r.map (·.1)).Nodup) :
    (res.groups.map (·.2)).sum =
      (rows.filter fun r => sat r e && cols.all fun c => (r.map (·.1)).contains c).length := by
  rw [groups_eq H rows e cols hcols hwf hinj hD hg hne res hres,
    sum_filterMap_nonzero (groupCount rows e), sum_groupCount]
  have h : (rows.map fun r => if sat r e = true then
        ((product (cols.map fun c => (c, sortedDistinct rows c))).filter (rowMatches r)).length else 0) =
      rows.map fun r => if (sat r e && cols.all fun c => (r.map (·.1)).contains c) = true
        then 1 else 0 := by
    apply List.map_congr_left
    intro r hr
    rw [filter_product_length r (hmap r hr)]
    · rw [List.all_map]
      cases sat r e
      · rfl
      · rw [Bool.true_and]; rfl
    · intro cv hcv
      obtain ⟨c, _, rfl⟩ := List.mem_map.mp hcv
      exact (sortedDistinct_strictSorted rows c).nodup
    · intro cv hcv v hv
      obtain ⟨c, _, rfl⟩ := List.mem_map.mp hcv
      rw [mem_sortedDistinct]
      simp only [pairsOf, List.mem_flatMap, id]
      exact ⟨r, hr, hv⟩
  rw [h]
  exact sum_map_ite_one _ rows

/-- hence the group counts never add up to more than the total count of the same result; they add up to
exactly the total when every satisfying row carries every listed column -/
theorem groups_counts_sum_le_count (hmap : ∀ r ∈ rows, (r.map (·.1)).Nodup) :
    (res.groups.map (·.2)).sum ≤ res.count := by
  rw [groups_counts_sum H rows e cols hcols hwf hinj hD hg hne res hres hmap]
  obtain ⟨groups, _, hex⟩ := execute_eq_some H rows e cols hcols hwf hinj hD hg
  rw [hex] at hres
  simp only [Option.some.injEq] at hres
  rw [← hres]
  show _ ≤ (rows.filter (sat · e)).length
  have hsub : (rows.filter fun r => sat r e && cols.all fun c => (r.map (·.1)).contains c) =
      (rows.filter (sat · e)).filter fun r => cols.all fun c => (r.map (·.1)).contains c := by
    rw [List.filter_filter]
    apply List.filter_congr
    intro r _
    exact Bool.and_comm _ _
  rw [hsub]
  exact List.length_filter_le _ _

/-- and to exactly the total count when every satisfying row carries every listed column
(e.g. a CSV-built index, where every row has every column) -/
theorem groups_counts_sum_eq_count (hmap : ∀ r ∈ rows, (r.map (·.1)).Nodup)
    (hall : ∀ r ∈ rows, sat r e = true → ∀ c ∈ cols, c ∈ r.map (·.1)) :
    (res.groups.map (·.2)).sum = res.count := by
  rw [groups_counts_sum H rows e cols hcols hwf hinj hD hg hne res hres hmap]
  obtain ⟨groups, _, hex⟩ := execute_eq_some H rows e cols hcols hwf hinj hD hg
  rw [hex] at hres
  simp only [Option.some.injEq] at hres
  rw [← hres]
  show _ = (rows.filter (sat · e)).length
  congr 1
  apply List.filter_congr
  intro r hr
  cases hs : sat r e
  · rfl
  · rw [Bool.true_and, List.all_eq_true]
    intro c hc
    simpa using hall r hr hs c hc

end sql

/-! ### non-vacuity -/

example : (exResult.groups.map (·.2)).sum = 2 ∧
    (exRows.filter fun r => sat r exExpr && exCols.all fun c => (r.map (·.1)).contains c).length = 2 := by
  refine ⟨by decide, by decide⟩

example : (exResult.groups.map (·.2)).sum =
    (exRows.filter fun r => sat r exExpr && exCols.all fun c => (r.map (·.1)).contains c).length :=
  groups_counts_sum C01.toyH exRows exExpr exCols (by decide) (by decide) (by unfold NoCollision; decide)
    (by unfold DataNoCollision; decide) (by decide) (by decide) exResult ex_execute (by decide)

end Updog.C02
