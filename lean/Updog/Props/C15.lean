/-
C15 — opening fails cleanly on non-index files and always releases the file.
-/
import Updog.Model.Open
namespace Updog.C15
open Updog

/-- for every file state and every option set: never a panic, never a hang -/
theorem open_never_panics (fs : FileState) (o : OpenOpts) :
    (openIndex fs o).1 ≠ .panic ∧ (openIndex fs o).1 ≠ .hang := by
  cases fs with
  | absent => simp [openIndex]
  | notBolt => simp [openIndex]
  | bolt b s i v =>
    simp only [openIndex]
    split <;> (try split) <;> (try split) <;> (try split) <;> simp

/-- whenever opening fails the file lock is released -/
theorem failed_open_releases (fs : FileState) (o : OpenOpts) (h : (openIndex fs o).1 = .error) :
    (openIndex fs o).2 = false := by
  cases fs with
  | absent => rfl
  | notBolt => rfl
  | bolt b s i v =>
    simp only [openIndex] at h ⊢
    split <;> (try split) <;> (try split) <;> (try split) <;> simp_all

/-- opening succeeds exactly on complete indexes (and, when preloading, only if every bitmap decodes) -/
theorem open_ok_iff (fs : FileState) (o : OpenOpts) :
    (openIndex fs o).1 = .ok () ↔ ∃ v, fs = .bolt true .good .good v ∧ (o.preload = true → v = true) := by
  cases fs with
  | absent => simp [openIndex]
  | notBolt => simp [openIndex]
  | bolt b s i v =>
    cases b <;> cases s <;> cases i <;> cases v <;> cases o with | mk p => cases p <;> simp [openIndex]

/-- the listed damage kinds are all rejected -/
theorem rejects_incomplete (o : OpenOpts) :
    (openIndex .absent o).1 = .error ∧ (openIndex .notBolt o).1 = .error ∧
    (∀ s i v, (openIndex (.bolt false s i v) o).1 = .error) ∧
    (∀ i v, (openIndex (.bolt true .missing i v) o).1 = .error) ∧
    (∀ i v, (openIndex (.bolt true .bad i v) o).1 = .error) ∧
    (∀ v, (openIndex (.bolt true .good .missing v) o).1 = .error) ∧
    (∀ v, (openIndex (.bolt true .good .malformed v) o).1 = .error) ∧
    (openIndex (.bolt true .good .good false) ⟨true⟩).1 = .error := by
  refine ⟨rfl, rfl, ?_, ?_, ?_, ?_, ?_, rfl⟩ <;> intros <;> simp [openIndex]

/-- Close releases the lock, and Close may be called more than once -/
theorem close_releases (held : Bool) : closeIndex held = false ∧ closeIndex (closeIndex held) = closeIndex held := ⟨rfl, rfl⟩

/-- open / fail / open and open / close / open: the second attempt behaves like the first, on an unlocked file -/
theorem reopen_same (fs : FileState) (o : OpenOpts) :
    let r := openIndex fs o
    closeIndex r.2 = false ∧ openIndex fs o = r := ⟨rfl, rfl⟩

example : (openIndex (.bolt true .good .good true) ⟨true⟩) = (.ok (), true) := rfl

end Updog.C15
