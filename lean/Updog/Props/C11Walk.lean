/-
C11 (extension): `numInput` computed through `Walk` is the highest placeholder number, and a full walk visits every
comparison exactly once in source order — the traversal `ReplacePlaceholders` relies on.
-/
import Updog.Model.Walk
import Updog.Props.C11
namespace Updog.C11
open Updog

mutual
theorem walk_full (e : PExpr) : (walkNodes (fun _ => true) e).1 = true := by
  match e with
  | .eq _ _ _ => simp [walkNodes]
  | .not c => simp [walkNodes, walk_full c]
  | .and cs => simp [walkNodes, walkList_full cs]
  | .or cs => simp [walkNodes, walkList_full cs]
theorem walkList_full (cs : List PExpr) : (walkList (fun _ => true) cs).1 = true := by
  match cs with
  | [] => simp [walkList]
  | c :: cs' => simp [walkList, walk_full c, walkList_full cs']
end

def phOfNodes (ns : List PExpr) : List Nat := ns.filterMap phOf

theorem phOfNodes_append (a b : List PExpr) : phOfNodes (a ++ b) = phOfNodes a ++ phOfNodes b := by
  simp [phOfNodes, List.filterMap_append]

mutual
/-- a full walk meets the comparisons in source order: their placeholder numbers are those of `leaves` -/
theorem walk_placeholders (e : PExpr) : phOfNodes (walkNodes (fun _ => true) e).2 = (leaves e).map (·.2.2) := by
  match e with
  | .eq c v ph => simp [walkNodes, phOfNodes, leaves, phOf]
  | .not c =>
    simp only [walkNodes, ite_true, leaves]
    rw [← walk_placeholders c]
    simp [phOfNodes, List.filterMap_cons, phOf]
  | .and cs =>
    simp only [walkNodes, ite_true, leaves]
    rw [← walkList_placeholders cs]
    simp [phOfNodes, List.filterMap_cons, phOf]
  | .or cs =>
    simp only [walkNodes, ite_true, leaves]
    rw [← walkList_placeholders cs]
    simp [phOfNodes, List.filterMap_cons, phOf]
theorem walkList_placeholders (cs : List PExpr) :
    phOfNodes (walkList (fun _ => true) cs).2 = (leavesL cs).map (·.2.2) := by
  match cs with
  | [] => simp [walkList, phOfNodes, leavesL]
  | c :: cs' =>
    simp only [walkList, walk_full c, ite_true, leavesL, List.map_append]
    rw [phOfNodes_append, walk_placeholders c, walkList_placeholders cs']
end

theorem foldl_max_eq_foldr (l : List Nat) (a : Nat) : l.foldl max a = max a (l.foldr max 0) := by
  induction l generalizing a with
  | nil => simp
  | cons x xs ih => simp only [List.foldl_cons, List.foldr_cons, ih]; omega

/-- `NumInput()` as the driver computes it (a `Walk` keeping the maximum) is the highest placeholder number -/
theorem numInput_walk_eq_maxPh (e : PExpr) : numInputW e = maxPh e := by
  unfold numInputW walkPlaceholders
  have h := walk_placeholders e
  unfold phOfNodes at h
  rw [h, foldl_max_eq_foldr, maxPh_spec]
  omega

example : numInputW (.and [.eq [97] [] 2, .not (.eq [98] [] 5), .eq [99] [120] 0]) = 5 := by
  rw [numInput_walk_eq_maxPh]; simp [maxPh, maxPhList]

end Updog.C11
