/-
C03 — result caches are transparent; two expressions with different meaning never share a cached result
(up to 64-bit hash collisions on the strings actually hashed).
Property theorems only; helper lemmas live in Updog/Proofs/{Key,Cache,Universe}.lean,
the model is Updog/Model/Cache.lean.
-/
import Updog.Proofs.Universe
import Updog.Proofs.ToyInstance
namespace Updog.C03
open Updog

variable (H : Bytes → UInt64)

/-! ### 1. no sharing -/

/-- **No sharing.** If the hash does not collide on the byte strings it is fed while computing the two cache keys
(`preimages`: one string `tag ‖ be64 key₁ ‖ … ‖ be64 keyₙ` per node), equal cache keys mean the two expressions
are the same tree up to the value indexes `H (column ‖ 0 ‖ value)` of their leaves. -/
theorem key_injective (e e' : Expr) (hinj : InjOn H (preimages H e ++ preimages H e'))
    (hk : cacheKey H e = cacheKey H e') : sameShape H e e' :=
  skeleton_eq_of_key_eq _ hinj e e' (fun _ hx => List.mem_append_left _ hx)
    (fun _ hx => List.mem_append_right _ hx) hk

/-- The meaning of an expression over known columns is a function of its skeleton alone. -/
theorem meaning_of_skeleton (ix : Index) (e : Expr) (hc : ColsKnown ix e) :
    eval H ix e = some (evalSkel ix (e.skeleton H)) :=
  eval_eq_evalSkel H ix e hc

/-- **Equal key, equal meaning** for expressions over columns of the schema. -/
theorem key_separates_meaning (ix : Index) (e e' : Expr) (hinj : InjOn H (preimages H e ++ preimages H e'))
    (hc : ColsKnown ix e) (hc' : ColsKnown ix e') (hk : cacheKey H e = cacheKey H e') :
    eval H ix e = eval H ix e' := by
  rw [meaning_of_skeleton H ix e hc, meaning_of_skeleton H ix e' hc', key_injective H e e' hinj hk]

/-- The same when columns may be unknown (the expression is an error): it suffices that two leaves with the same
value index agree on whether their column exists. -/
theorem key_separates_meaning_general (ix : Index) (e e' : Expr)
    (hinj : InjOn H (preimages H e ++ preimages H e'))
    (hagree : KnownAgree H ix (e.pairs ++ e'.pairs)) (hk : cacheKey H e = cacheKey H e') :
    eval H ix e = eval H ix e' :=
  eval_eq_of_skeleton_eq ix _ hagree e e' (fun _ hp => List.mem_append_left _ hp)
    (fun _ hp => List.mem_append_right _ hp) (key_injective H e e' hinj hk)

/-- For a whole workload `es`: no collision on the strings in play yields the hypothesis `KeyOK` of the
transparency theorems, on the universe of all sub-expressions of `es`. -/
theorem keyOK_of_no_collision (ix : Index) (es : List Expr) (hinj : InjOn H (es.flatMap (preimages H)))
    (hagree : KnownAgree H ix (es.flatMap Expr.pairs)) : KeyOK H ix (subsOf es) :=
  keyOK_of_injOn H ix es hinj hagree

/-! ### 2. transparency -/

section
variable {H} {ix : Index} {U : List Expr} {σ : Type} {C : CacheImpl σ}

/-- **Transparency.** For every cache implementation satisfying the contract `CacheLaws`, from every sound cache
state, the cached evaluation of an expression of the universe returns exactly what the cache-free evaluation
returns (bitmap or error), and leaves a sound cache state. -/
theorem cache_transparent (L : CacheLaws C) (hU : SubClosed U) (hkey : KeyOK H ix U) (s : σ)
    (hs : Sound H ix U L s) (e : Expr) (he : e ∈ U) :
    (evalC H C ix s e).2 = eval H ix e ∧ Sound H ix U L (evalC H C ix s e).1 :=
  evalC_sound (putOK_of_keyOK hkey) hU e he s hs

/-- The same for `Execute` (group-by resolution, count, groups). -/
theorem execute_transparent (L : CacheLaws C) (hU : SubClosed U) (hkey : KeyOK H ix U) (s : σ)
    (hs : Sound H ix U L s) (q : Query) (hq : q.expr ∈ U) :
    (executeC H C ix s q).2 = execute H ix q ∧ Sound H ix U L (executeC H C ix s q).1 :=
  executeC_sound (putOK_of_keyOK hkey) hU q hq s hs

/-- **History version.** Any list of queries executed one after the other on one cache, starting from a cache that
holds nothing: every answer is the cache-free answer. -/
theorem cache_transparent_history (L : CacheLaws C) (hU : SubClosed U) (hkey : KeyOK H ix U) (s0 : σ)
    (h0 : EmptyState L s0) (qs : List Query) (hqs : ∀ q ∈ qs, q.expr ∈ U) :
    (executeAllC H C ix s0 qs).2 = qs.map (fun q => execute H ix q) :=
  (executeAllC_sound (putOK_of_keyOK hkey) hU qs hqs s0 (h0.sound H ix U L)).1

end

/-- `nullCache` satisfies the contract. -/
def nullCache_contract : CacheLaws nullCacheImpl := nullCacheLaws

/-- `LRUCache` satisfies the contract for every size function; the capacity (`max`), the per-item overhead and the
statistics are part of the state and arbitrary — in particular capacity 0. -/
def lruCache_contract (sz : Nat → Nat) : CacheLaws (lruCacheImpl sz) := lruCacheLaws sz

/-- an LRU without items holds nothing -/
theorem lru_empty (sz : Nat → Nat) (c : Lru) (h : c.items = []) : EmptyState (lruCache_contract sz) c := by
  intro k bm ⟨it, hit, _⟩
  rw [h] at hit
  cases hit

/-- **End to end, LRU.** Any history of queries on a fresh `LRUCache` of any capacity: if the hash has no collision on
the strings hashed for the cache keys of the workload, and leaves with equal value index agree on the existence of
their column, all answers are the cache-free answers. -/
theorem lru_transparent_history (ix : Index) (sz : Nat → Nat) (c0 : Lru) (h0 : c0.items = [])
    (qs : List Query) (hinj : InjOn H ((qs.map (·.expr)).flatMap (preimages H)))
    (hagree : KnownAgree H ix ((qs.map (·.expr)).flatMap Expr.pairs)) :
    (executeAllC H (lruCacheImpl sz) ix c0 qs).2 = qs.map (fun q => execute H ix q) :=
  cache_transparent_history (lruCache_contract sz) (subsOf_closed _)
    (keyOK_of_no_collision H ix _ hinj hagree) c0 (lru_empty sz c0 h0) qs
    (fun q hq => subsOf_mem _ q.expr (List.mem_map.mpr ⟨q, hq, rfl⟩))

/-- **End to end, null cache** (no hypothesis on the hash is needed: nothing is ever answered from it). -/
theorem null_transparent_history (ix : Index) (qs : List Query) :
    (executeAllC H nullCacheImpl ix () qs).2 = qs.map (fun q => execute H ix q) := by
  have hall : ∀ s, Sound H ix (subsOf (qs.map (·.expr))) nullCache_contract s := fun _ _ _ h => h.elim
  exact (executeAllC_sound (L := nullCache_contract) (fun _ _ _ _ _ _ => hall _) (subsOf_closed _) qs
    (fun q hq => subsOf_mem _ q.expr (List.mem_map.mpr ⟨q, hq, rfl⟩)) () (hall _)).1

/-! ### 3. the store is not touched -/

/-- **Store unchanged.** True by construction of the model rather than by proof: `evalC` / `executeC` take the index
`ix` as a read-only argument and return only a new cache state and an answer (`σ × Option _`), so there is no way for
them to alter the index (in the Go code `eval` only calls `schema.Columns[..]`, `values.GetCol` and the cache, under
`RLock`). What can be stated is determinism: the answer and the new cache state are a function of
(cache state, index, expression) alone — evaluating twice from the same state gives the same result. -/
theorem store_unchanged {σ : Type} (C : CacheImpl σ) (ix : Index) (s s' : σ) (e : Expr) (h : s = s') :
    evalC H C ix s e = evalC H C ix s' e := by rw [h]

/-- Evaluating the same expression again on the cache left by the first evaluation gives the same answer. -/
theorem evalC_repeat {ix : Index} {U : List Expr} {σ : Type} {C : CacheImpl σ} (L : CacheLaws C)
    (hU : SubClosed U) (hkey : KeyOK H ix U) (s : σ) (hs : Sound H ix U L s) (e : Expr) (he : e ∈ U) :
    (evalC H C ix (evalC H C ix s e).1 e).2 = (evalC H C ix s e).2 := by
  have h1 := cache_transparent L hU hkey s hs e he
  have h2 := cache_transparent L hU hkey _ h1.2 e he
  rw [h1.1, h2.1]

/-! ### non-vacuity -/

section Examples
open Updog.Toy

/-- `key_injective`, non-trivially: two *different* expressions (column `a` value `\0b`, column `a\0` value `b`) have the
same cache key without any hash collision — they have the same value index because `column ‖ 0 ‖ value` is ambiguous —
and the theorem gives exactly what is true of them: same shape. -/
example : ea ≠ eb ∧ cacheKey toyH ea = cacheKey toyH eb ∧ sameShape toyH ea eb :=
  ⟨by simp [ea, eb], by decide +kernel, key_injective toyH ea eb (by decide +kernel) (by decide +kernel)⟩

/-- `key_separates_meaning` on an index that has both columns. -/
example : eval toyH ixAB ea = eval toyH ixAB eb :=
  key_separates_meaning toyH ixAB ea eb (by decide +kernel) (by decide +kernel) (by decide +kernel)
    (by decide +kernel)

/-- `key_separates_meaning_general` with an unknown column (`c`): both sides are the same error. -/
example : eval toyH (tix toyH) (.not (.eq [99] [49])) = eval toyH (tix toyH) (.not (.eq [99] [49])) :=
  key_separates_meaning_general toyH (tix toyH) _ _ (by decide +kernel) (by decide +kernel) rfl

/-- the hypotheses of `cache_transparent` / `cache_transparent_history`, concretely: universe = sub-expressions of
`e1 = (a=1 AND b=1)` and `e2 = (a=1 OR NOT b=1)`, which share `a=1` and `b=1`; three queries; LRU of capacity 0. -/
example : (executeAllC toyH (lruCacheImpl sz) (tix toyH) (lru 0) qs).2 = qs.map (fun q => execute toyH (tix toyH) q) :=
  cache_transparent_history (lruCache_contract sz) (subsOf_closed [e1, e2])
    (keyOK_of_no_collision toyH (tix toyH) [e1, e2] (by decide +kernel) (by decide +kernel)) (lru 0)
    (lru_empty sz _ rfl) qs (by
      intro q hq
      simp only [qs, List.mem_cons, List.not_mem_nil, or_false] at hq
      rcases hq with rfl | rfl | rfl <;> exact subsOf_mem _ _ (by simp))

/-- the same through the end-to-end theorem, LRU of large capacity … -/
example : (executeAllC toyH (lruCacheImpl sz) (tix toyH) (lru 100000) qs).2 =
    qs.map (fun q => execute toyH (tix toyH) q) :=
  lru_transparent_history toyH (tix toyH) sz (lru 100000) rfl qs (by decide +kernel) (by decide +kernel)

/-- … in which the cache really is in play: 5 entries are stored, 3 lookups are hits (the shared `a=1`, `b=1`, and the
repeated `e1`); with capacity 0 nothing is ever kept and nothing hits. -/
example :
    let c := (executeAllC toyH (lruCacheImpl sz) (tix toyH) (lru 100000) qs).1
    let c0 := (executeAllC toyH (lruCacheImpl sz) (tix toyH) (lru 0) qs).1
    c.items.length = 5 ∧ c.hits = 3 ∧ c0.items.length = 0 ∧ c0.hits = 0 ∧ c0.puts = 10 := by
  rw [lruCacheImpl_eq_lruS]
  decide +kernel

/-- the answers are not trivial: `e1` is the bitmap {0}, `e2` is {0, 2} -/
example : eval toyH (tix toyH) e1 = some 1 ∧ eval toyH (tix toyH) e2 = some 5 := by decide +kernel

/-- the single-expression statement, from a non-empty sound state (the cache left by `e1`) -/
example : (evalC toyH (lruCacheImpl sz) (tix toyH) (evalC toyH (lruCacheImpl sz) (tix toyH) (lru 100000) e1).1 e2).2 =
    eval toyH (tix toyH) e2 := by
  have hU := subsOf_closed [e1, e2]
  have hkey := keyOK_of_no_collision toyH (tix toyH) [e1, e2] (by decide +kernel) (by decide +kernel)
  have h1 := cache_transparent (lruCache_contract sz) hU hkey (lru 100000)
    ((lru_empty sz _ rfl).sound toyH (tix toyH) _ _) e1 (subsOf_mem _ _ (by simp))
  exact (cache_transparent (lruCache_contract sz) hU hkey _ h1.2 e2 (subsOf_mem _ _ (by simp))).1

/-- null cache -/
example : (executeAllC toyH nullCacheImpl (tix toyH) () qs).2 = qs.map (fun q => execute toyH (tix toyH) q) :=
  null_transparent_history toyH (tix toyH) qs

/-- The collision hypothesis cannot be dropped: with a hash under which all cache keys collide, the LRU cache answers the
second operand of `e1` with the cached bitmap of the first, and the result is wrong ({0, 2} instead of {0}). -/
example : (evalC badH (lruCacheImpl sz) (tix badH) (lru 100000) e1).2 = some 5 ∧ eval badH (tix badH) e1 = some 1 := by
  rw [lruCacheImpl_eq_lruS]
  decide +kernel

end Examples

end Updog.C03
