import Updog.Generated
namespace Updog.Facts
open Updog.Generated
theorem C13_facts : serverPlainGrpcServer = true ∧ driverMethodSet = true ∧ serverLoopShape = true ∧ serverResponseFresh = true ∧ grpcQueryFreshContext = true ∧ toQueryUsesGetters = true := by decide
end Updog.Facts
