import Updog.Generated
namespace Updog.Facts
open Updog.Generated
theorem C13_facts : serverLoopShape = true ∧ serverResponseFresh = true ∧ grpcQueryFreshContext = true ∧ toQueryUsesGetters = true := by decide
end Updog.Facts
