import Updog.Generated
namespace Updog.Facts
open Updog.Generated
theorem C17_facts : driverMethodSet = true ∧ openFileOneCriticalSection = true ∧ connCloseRemovesEntry = true ∧ openReadOnlyMustExist = true ∧
    closeIdempotent = true := by decide
end Updog.Facts
