import Updog.Generated
namespace Updog.Facts
open Updog.Generated
theorem C12_facts : driverMethodSet = true ∧ newRowsOnGroupBy = true ∧ prepareParsesEachTime = true ∧ rowCountIs64Bit = true := by decide
end Updog.Facts
