import Updog.Generated
namespace Updog.Facts
open Updog.Generated
theorem C07_facts : lruPutReaccounts = true := by decide
end Updog.Facts
