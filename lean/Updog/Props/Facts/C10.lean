import Updog.Generated
namespace Updog.Facts
open Updog.Generated
/-- parenthesisation table of the formatter: NOT wraps AND/OR, AND wraps OR, OR wraps AND; values are quoted with doubled quotes -/
theorem C10_facts : parenNot = true ∧ parenAnd = true ∧ parenOr = true ∧
    parseChecksEOF = true ∧ placeholder32 = true ∧ lexValueUnterminatedError = true := by decide
end Updog.Facts
