import Updog.Generated
namespace Updog.Facts
open Updog.Generated
theorem C11_facts : driverMethodSet = true ∧ fileStmtChecksArgs = true ∧ grpcStmtChecksArgs = true ∧ replacePlaceholdersShape = true := by decide
end Updog.Facts
