import Updog.Generated
namespace Updog.Facts
open Updog.Generated
/-- every cache call is one atomic step (mutex held for the whole body); Execute/GetSchema hold the index read lock;
    evaluation never mutates a shared bitmap -/
theorem C04_facts : serverPlainGrpcServer = true ∧ lruGetLocked = true ∧ lruPutLocked = true ∧ executeShape = true ∧ getSchemaRLock = true ∧
    noMutatingBitmapCalls = true ∧ preloadedIsPlainMap = true ∧ onDemandReadsStore = true ∧ serverResponseFresh = true ∧ serverLoopShape = true ∧ evalNotShape = true ∧ evalAndShape = true ∧ evalOrShape = true ∧ evalEqualShape = true := by decide
end Updog.Facts
