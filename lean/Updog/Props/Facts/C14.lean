import Updog.Generated
namespace Updog.Facts
open Updog.Generated
theorem C14_facts : serverPlainGrpcServer = true ∧ convertUsesGetters = true ∧ toQueryUsesGetters = true ∧ validateExprShape = true ∧ executeShape = true ∧
    serverLoopShape = true := by decide
end Updog.Facts
