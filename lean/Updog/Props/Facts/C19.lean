import Updog.Generated
namespace Updog.Facts
open Updog.Generated
theorem C19_facts : normalizeHeaderShape = true ∧ createShape = true ∧ bigWriterCloseShape = true ∧ flushFailIfExists = true := by decide
end Updog.Facts
