import Updog.Generated
import Updog.Model.CacheKey
namespace Updog.Facts
open Updog.Generated
/-- the code's cache keys are the Merkle keys of the model (same tags, same shape); every eval does Get before
    evaluating children and Put afterwards; no mutating roaring method is called on a stored/cached bitmap -/
theorem C03_facts : keyEqualMerkle = true ∧ keyNotMerkle = true ∧ keyAndMerkle = true ∧ keyOrMerkle = true ∧
    mixKeyShape = true ∧ valueIndexShape = true ∧
    Generated.tagEqual = Updog.tagEqual.toNat ∧ Generated.tagNot = Updog.tagNot.toNat ∧
    Generated.tagAnd = Updog.tagAnd.toNat ∧ Generated.tagOr = Updog.tagOr.toNat ∧
    evalEqualShape = true ∧ evalNotShape = true ∧ evalAndShape = true ∧ evalOrShape = true ∧
    noMutatingBitmapCalls = true := by decide
theorem tags_distinct : [Updog.tagEqual, Updog.tagNot, Updog.tagAnd, Updog.tagOr].Nodup := by decide
end Updog.Facts
