import Updog.Generated
namespace Updog.Facts
open Updog.Generated
/-- schema and row counter are written in the last transaction; the big writer commits the output once;
    OpenIndex rejects files without bucket/schema/counter -/
theorem C06_facts : headerInLastTxMem = true ∧ flushWritesInPlace = true ∧ createShape = true ∧ bigSingleOutputCommit = true ∧ openValidates = true ∧ 1 ≤ batchMem := by decide
end Updog.Facts
