import Updog.Generated
namespace Updog.Facts
open Updog.Generated
theorem C15_facts : openValidates = true ∧ openReadOnlyMustExist = true ∧ closeIdempotent = true ∧ openFileFlags = true := by decide
end Updog.Facts
