import Updog.Generated
import Updog.Model.Parser
namespace Updog.Facts
open Updog.Generated
theorem C09_facts : parseChecksEOF = true ∧ drainDeferred = true ∧ lexerClosesChannel = true ∧ drainShape = true ∧
    placeholder32 = true ∧ placeholderMin1 = true ∧ lexValueUnterminatedError = true ∧ lexLettersCond = true ∧
    lex_itemOpenParen = 40 ∧ lex_itemCloseParen = 41 ∧ lex_itemAnd = 38 ∧ lex_itemOr = 124 ∧ lex_itemNot = 94 ∧
    lex_itemComma = 44 ∧ lex_itemSemicolon = 59 ∧ lex_itemEqual = 61 ∧ lex_quote = 34 ∧ lex_dollar = 36 := by decide
/-- the lexer's character classes are the model's -/
theorem lex_tables : ∀ n, n < 256 →
    (isSpace n.toUInt8 = lexSpaces.contains n) ∧ (isFieldChar n.toUInt8 = lexFieldRun.contains n) ∧
    (isDigit n.toUInt8 = lexDigitRun.contains n) := by decide +kernel
end Updog.Facts
