/- facts of /repo's source the C01 theorems rest on (regenerated on every run) -/
import Updog.Generated
namespace Updog.Facts
open Updog.Generated
/-- `getValueIndex` hashes column‖0x00‖value; NOT flips over [0, nextRowID); AND/OR use FastAnd/FastOr; EQUAL checks the schema first
    and treats a missing bitmap as empty -/
theorem C01_facts : valueIndexShape = true ∧ evalEqualShape = true ∧ evalNotShape = true ∧ evalAndShape = true ∧
    evalOrShape = true ∧ executeShape = true ∧ onDemandReadsStore = true ∧ preloadedIsPlainMap = true := by decide
end Updog.Facts
