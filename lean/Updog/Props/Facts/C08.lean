import Updog.Generated
namespace Updog.Facts
open Updog.Generated
theorem C08_facts : groupByReset = true ∧ groupByCopiesFields = true := by decide
end Updog.Facts
