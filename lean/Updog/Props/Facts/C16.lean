import Updog.Generated
namespace Updog.Facts
open Updog.Generated
theorem C16_facts : openFileFlags = true ∧ flushFailIfExists = true ∧ flushWritesInPlace = true ∧ openReadOnlyMustExist = true ∧ readPathViewOnly = true ∧
    createShape = true := by decide
end Updog.Facts
