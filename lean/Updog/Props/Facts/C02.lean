import Updog.Generated
namespace Updog.Facts
open Updog.Generated
/-- each refined group gets its own copy of the field list; Execute resolves the group-by list afresh -/
theorem C02_facts : libraryNoCodecHooks = true ∧ groupByCopiesFields = true ∧ groupByReset = true ∧ executeShape = true := by decide
end Updog.Facts
