import Updog.Generated
namespace Updog.Facts
open Updog.Generated
theorem C05_facts : libraryNoCodecHooks = true ∧ valueIndexShape = true ∧ flushWritesInPlace = true ∧ bigNilGuard = true ∧ bigSingleOutputCommit = true ∧
    addRowLockedMem = true ∧ addRowLockedBig = true ∧ 1 ≤ batchMem ∧ 1 ≤ batchBig ∧ closeIdempotent = true := by decide
end Updog.Facts
