import Updog.Generated
namespace Updog.Facts
open Updog.Generated
/-- AddRow holds the writer lock from its first statement; the id increment is a deferred function registered after the
    deferred unlock, so it runs before the unlock -/
theorem C18_facts : addRowLockedMem = true ∧ addRowLockedBig = true ∧ addRowNoGoroutineMem = true ∧
    addRowNoGoroutineBig = true := by decide
end Updog.Facts
