/-
C12 — the sql driver returns exactly the library's result as rows.
-/
import Updog.Model.Rows
import Updog.Props.C01
namespace Updog.C12
open Updog

/-- with a group-by clause: one row per group, in the library's order, values in group-by order then the count -/
theorem rows_grouped (res : Result) (gb : List Bytes) (h : gb ≠ []) :
    (newRows res gb).rows = res.groups.map fun g => g.1.map (fun cv => Cell.text cv.2) ++ [Cell.int g.2] := by
  have : gb.length > 0 := List.length_pos_iff.mpr h
  simp [newRows, this]

theorem rows_grouped_length (res : Result) (gb : List Bytes) (h : gb ≠ []) :
    (newRows res gb).rows.length = res.groups.length := by
  rw [rows_grouped res gb h, List.length_map]

/-- with a group-by clause and no matching group: no rows -/
theorem rows_no_group (res : Result) (gb : List Bytes) (h : gb ≠ []) (hg : res.groups = []) :
    (newRows res gb).rows = [] := by
  rw [rows_grouped res gb h, hg]; rfl

/-- without a group-by clause: exactly one row holding the total count -/
theorem rows_ungrouped (res : Result) : (newRows res []).rows = [[Cell.int res.count]] := by
  simp [newRows]

/-- columns are the group-by columns followed by "count", typed TEXT…, BIGINT -/
theorem columns_spec (res : Result) (gb : List Bytes) :
    (newRows res gb).cols = gb ++ [countCol] ∧
    (newRows res gb).types = List.replicate gb.length "TEXT" ++ ["BIGINT"] ∧
    (newRows res gb).types.length = (newRows res gb).cols.length := by
  refine ⟨rfl, ?_, by simp [newRows]⟩
  simp only [newRows]
  congr 1
  induction gb with
  | nil => rfl
  | cons a t ih => simp [List.replicate_succ, ih]

/-- every row of a grouped result has one cell per column when every group has one field per group-by column -/
theorem row_widths (res : Result) (gb : List Bytes) (h : gb ≠ []) (hw : ∀ g ∈ res.groups, g.1.length = gb.length) :
    ∀ r ∈ (newRows res gb).rows, r.length = (newRows res gb).cols.length := by
  intro r hr
  rw [rows_grouped res gb h] at hr
  simp only [List.mem_map] at hr
  obtain ⟨g, hg, rfl⟩ := hr
  simp [newRows, hw g hg]

/-- composition with C01: an ungrouped query through the driver yields the one row [number of satisfying rows] -/
theorem driver_count_row (H : Bytes → UInt64) (rows : List Row) (e : Expr)
    (hcols : ∀ c ∈ e.columns, c ∈ columnsOf rows) (hwf : e.arityPos = true) (hinj : NoCollision H rows e.pairs) :
    (execute H (Writer.addRows H {} rows).toIndex ⟨e, []⟩).map (fun r => (newRows r []).rows)
      = some [[Cell.int (specCount rows e)]] := by
  rw [C01.count_correct H rows e hcols hwf hinj]
  simp [newRows]

example : (newRows ⟨5, [([([97], [49])], 3), ([([97], [50])], 2)]⟩ [[97]]).rows =
    [[Cell.text [49], Cell.int 3], [Cell.text [50], Cell.int 2]] := by decide
example : (newRows ⟨0, []⟩ [[97]]).rows = [] := by decide

end Updog.C12
