/-
C04 end to end — concurrent evaluation over a shared LRU cache equals the specification.
Composition of C04 `lru_concurrent_results_sequential` (every finished goroutine has the sequential, cache-free
result) with C01 `eval_correct` (the cache-free result on the index written by the in-memory writer has exactly the
bits of the satisfying rows).
-/
import Updog.Props.C04
import Updog.Props.C01
import Updog.Proofs.GroupBy
namespace Updog.C04
open Updog

variable (H : Bytes → UInt64)

/-- the C01 hypotheses for one expression over the data `rows` -/
structure ExprOK (rows : List Row) (e : Expr) : Prop where
  cols : ∀ c ∈ e.columns, c ∈ columnsOf rows
  wf : e.arityPos = true
  inj : NoCollision H rows e.pairs

/-- **Concurrent end to end.** Rows written by the in-memory writer; ANY number of goroutines evaluating the
expressions `es` concurrently over one shared LRU cache of ANY capacity (fresh), under ANY schedule: whenever
goroutine `i` has finished with result `r`, then `r` is a bitmap `b` (no error) whose bits are exactly the rows
satisfying `es[i]`, and whose cardinality is the specified count. -/
theorem lru_concurrent_equals_spec (rows : List Row) (sz : Nat → Nat) (c0 : Lru) (h0 : c0.items = [])
    (es : List Expr) (hok : ∀ e ∈ es, ExprOK H rows e)
    (hinj : InjOn H (es.flatMap (preimages H)))
    (hagree : KnownAgree H (Writer.addRows H {} rows).toIndex (es.flatMap Expr.pairs))
    (sched : List Nat) (i : Nat) (r : Option Nat)
    (hdone : (runSched (lruCacheImpl sz) c0 (es.map (evalProg H (Writer.addRows H {} rows).toIndex)) sched).2[i]?
      = some (.done r)) :
    ∃ e b, es[i]? = some e ∧ r = some b ∧ popcount b = specCount rows e ∧
      ∀ j, b.testBit j = (decide (j < rows.length) && sat (rowAt rows j) e) := by
  obtain ⟨e, he, hr⟩ := lru_concurrent_results_sequential H _ sz c0 h0 es hinj hagree sched i r hdone
  have ok := hok e (List.mem_of_getElem? he)
  obtain ⟨b, hb, hbits⟩ := eval_correct H rows e ok.cols ok.wf ok.inj
  exact ⟨e, b, he, hr.trans hb, popcount_eq_filter_length b rows (fun r => sat r e) hbits, hbits⟩

/-- the same with the goroutine's expression given by index (`i < es.length`) -/
theorem lru_concurrent_count (rows : List Row) (sz : Nat → Nat) (c0 : Lru) (h0 : c0.items = [])
    (es : List Expr) (hok : ∀ e ∈ es, ExprOK H rows e)
    (hinj : InjOn H (es.flatMap (preimages H)))
    (hagree : KnownAgree H (Writer.addRows H {} rows).toIndex (es.flatMap Expr.pairs))
    (sched : List Nat) (i : Nat) (hi : i < es.length) (r : Option Nat)
    (hdone : (runSched (lruCacheImpl sz) c0 (es.map (evalProg H (Writer.addRows H {} rows).toIndex)) sched).2[i]?
      = some (.done r)) :
    r.map popcount = some (specCount rows es[i]) := by
  obtain ⟨e, b, he, hr, hc, _⟩ := lru_concurrent_equals_spec H rows sz c0 h0 es hok hinj hagree sched i r hdone
  rw [List.getElem?_eq_getElem hi, Option.some.injEq] at he
  subst hr he
  simp [hc]

/-- a finished goroutine never reports an error under these hypotheses -/
theorem lru_concurrent_no_error (rows : List Row) (sz : Nat → Nat) (c0 : Lru) (h0 : c0.items = [])
    (es : List Expr) (hok : ∀ e ∈ es, ExprOK H rows e)
    (hinj : InjOn H (es.flatMap (preimages H)))
    (hagree : KnownAgree H (Writer.addRows H {} rows).toIndex (es.flatMap Expr.pairs))
    (sched : List Nat) (i : Nat) :
    (runSched (lruCacheImpl sz) c0 (es.map (evalProg H (Writer.addRows H {} rows).toIndex)) sched).2[i]?
      ≠ some (.done none) := by
  intro h
  obtain ⟨_, _, _, hr, _⟩ := lru_concurrent_equals_spec H rows sz c0 h0 es hok hinj hagree sched i none h
  cases hr

/-! ### non-vacuity -/

section Examples
open Updog.Toy

theorem toy_exprOK : ∀ e ∈ es, ExprOK toyH Toy.rows e := by
  intro e he
  simp only [es, List.mem_cons, List.not_mem_nil, or_false] at he
  have h1 : ExprOK toyH Toy.rows e1 := ⟨by decide, by decide, by unfold NoCollision; decide +kernel⟩
  have h2 : ExprOK toyH Toy.rows e2 := ⟨by decide, by decide, by unfold NoCollision; decide +kernel⟩
  rcases he with rfl | rfl | rfl <;> assumption

/-- all hypotheses of the main theorem hold for the toy instance (three goroutines sharing sub-expressions, LRU of
any capacity) … -/
example (cap : Nat) (i : Nat) (r : Option Nat)
    (h : (runSched (lruCacheImpl sz) (lru cap) (es.map (evalProg toyH (tix toyH))) sched).2[i]? = some (.done r)) :
    ∃ e b, es[i]? = some e ∧ r = some b ∧ popcount b = specCount Toy.rows e ∧
      ∀ j, b.testBit j = (decide (j < Toy.rows.length) && sat (rowAt Toy.rows j) e) :=
  lru_concurrent_equals_spec toyH Toy.rows sz (lru cap) rfl es toy_exprOK (by decide +kernel) (by decide +kernel)
    sched i r h

/-- … the premise `done` is reached under `sched` (capacity 0: every lookup misses; large: some hit), and the
specified counts are 1, 2, 1 -/
example :
    ((runSched (lruCacheImpl sz) (lru 0) (es.map (evalProg toyH (tix toyH))) sched).2.map Prog.result?) =
      [some (some 1), some (some 5), some (some 1)] ∧
    es.map (specCount Toy.rows) = [1, 2, 1] := by
  rw [lruCacheImpl_eq_lruS]
  decide +kernel

end Examples

end Updog.C04
