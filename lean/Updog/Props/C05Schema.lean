/-
C05 (composition) — `GetSchema` on the written index returns exactly the columns and, per column, the
distinct values that were added (both byte-wise ascending), for the in-memory writer and for the big
writer; and every (column, value) bitmap holds exactly the rows the pair was added to.
Composition file: helper lemmas first, main theorems below.
-/
import Updog.Proofs.Sort
import Updog.Proofs.Eval
import Updog.Props.C05
namespace Updog.C05
open Updog

/-- the index `OpenIndex` yields on the file written by the big writer's `Flush`
    (schema `S`, counter `I`, `GetCol` on the data bucket); this is the left-hand side of
    `writers_agree_index` -/
abbrev bigIndex (H : Bytes → UInt64) (rows : List Row) : Index :=
  ⟨(BigWriter.image H rows).2.1, (BigWriter.image H rows).2.2, (BigWriter.image H rows).1.get⟩

/-! ### helper lemmas: the column names of a schema -/

/-- `Schema.add` appends the column name when it is new and leaves the names alone otherwise -/
theorem schema_add_keys (s : Schema) (k v : Bytes) (h : UInt64) :
    (s.add k v h).map (·.1) = if k ∈ s.map (·.1) then s.map (·.1) else s.map (·.1) ++ [k] := by
  induction s with
  | nil => simp [Schema.add]
  | cons kv rest ih =>
    obtain ⟨k', vs⟩ := kv
    by_cases hk : k' = k
    · subst hk; simp [Schema.add]
    · have hk' : ¬ k = k' := fun e => hk e.symm
      simp only [Schema.add, beq_iff_eq, hk, if_false, List.map_cons, ih, List.mem_cons, hk', false_or]
      split <;> simp

theorem schema_add_keys_nodup (s : Schema) (k v : Bytes) (h : UInt64) (hs : (s.map (·.1)).Nodup) :
    ((s.add k v h).map (·.1)).Nodup := by
  rw [schema_add_keys]
  split
  · exact hs
  · rename_i hk
    rw [List.nodup_append]
    refine ⟨hs, by simp, ?_⟩
    intro a ha b hb
    simp only [List.mem_singleton] at hb
    subst hb
    intro e; subst e; exact hk ha

theorem schema_fold_keys_nodup (H : Bytes → UInt64) (qs : List (Bytes × Bytes)) (s : Schema)
    (hs : (s.map (·.1)).Nodup) : ((qs.foldl (addS H) s).map (·.1)).Nodup := by
  induction qs generalizing s with
  | nil => exact hs
  | cons q qs ih => exact ih _ (schema_add_keys_nodup s _ _ _ hs)

/-- the written schema lists every column once -/
theorem schema_keys_nodup (H : Bytes → UInt64) (rows : List Row) :
    ((Writer.addRows H {} rows).schema.map (·.1)).Nodup := by
  rw [addRows_schema]
  exact schema_fold_keys_nodup H _ _ (by simp [List.Nodup])

theorem mem_keys_iff_col (s : Schema) (c : Bytes) : c ∈ s.map (·.1) ↔ (s.col c).isSome = true := by
  induction s with
  | nil => simp [Schema.col]
  | cons kv rest ih =>
    obtain ⟨k, vs⟩ := kv
    by_cases hk : k = c
    · subst hk; simp [Schema.col]
    · have hk' : ¬ c = k := fun e => hk e.symm
      simp only [List.map_cons, List.mem_cons, hk', false_or, ih, Schema.col, beq_iff_eq, hk, if_false]

/-- the columns of the written schema are exactly the columns occurring in the data -/
theorem mem_schema_keys (H : Bytes → UInt64) (rows : List Row) (c : Bytes) :
    c ∈ (Writer.addRows H {} rows).schema.map (·.1) ↔ c ∈ columnsOf rows := by
  rw [mem_keys_iff_col]
  constructor
  · intro h
    apply Classical.byContradiction
    intro hc
    rw [(schema_col_none_iff H rows c).mpr hc] at h
    exact Bool.noConfusion h
  · intro h
    obtain ⟨vs, hvs⟩ := schema_col_exists H rows c h
    rw [hvs]; rfl

/-- with unique column names, `col` finds every entry of the schema -/
theorem col_of_mem (s : Schema) (hs : (s.map (·.1)).Nodup) (cv : Bytes × List (Bytes × UInt64))
    (h : cv ∈ s) : s.col cv.1 = some cv.2 := by
  induction s with
  | nil => simp at h
  | cons kv rest ih =>
    obtain ⟨k, vs⟩ := kv
    rw [List.map_cons, List.nodup_cons] at hs
    rcases List.mem_cons.mp h with h1 | h1
    · subst h1; simp [Schema.col]
    · have hne : ¬ k = cv.1 := by
        intro e
        exact hs.1 (e ▸ List.mem_map.mpr ⟨cv, h1, rfl⟩)
      simp only [Schema.col, beq_iff_eq, hne, if_false]
      exact ih hs.2 h1

/-- the sorted column names of the written schema -/
theorem sorted_keys_eq (H : Bytes → UInt64) (rows : List Row) :
    ((Writer.addRows H {} rows).schema.map (·.1)).mergeSort (fun a b => bytesLe a b)
      = (columnsOf rows).eraseDups.mergeSort (fun a b => bytesLe a b) := by
  apply StrictSorted.eq_of_mem_iff (strictSorted_mergeSort (schema_keys_nodup H rows))
    (strictSorted_mergeSort (nodup_eraseDups _))
  intro x
  rw [List.mem_mergeSort, List.mem_mergeSort, List.mem_eraseDups, mem_schema_keys]

/-! ### main theorems -/

section
variable (H : Bytes → UInt64)

/-- **Schema round trip.** For every dataset and EVERY hash function, `GetSchema` on the index written by the
in-memory writer returns exactly the set of columns that were added and, per column, exactly the distinct
values that were added for it; columns and values in byte-wise ascending order. -/
theorem schema_roundtrip (rows : List Row) :
    getSchema (Writer.addRows H {} rows).toIndex = specSchema rows := by
  unfold getSchema specSchema
  simp only [Writer.toIndex]
  have hmap : ((Writer.addRows H {} rows).schema.map fun cv => (cv.1, (sortVals cv.2).map (·.1)))
      = ((Writer.addRows H {} rows).schema.map (·.1)).map fun c => (c, sortedDistinct rows c) := by
    rw [List.map_map]
    apply List.map_congr_left
    intro cv hcv
    have hcol := col_of_mem _ (schema_keys_nodup H rows) cv hcv
    simp only [Function.comp, sortVals_eq_sortedDistinct H rows cv.1 cv.2 hcol]
  rw [hmap, ← sorted_keys_eq H rows]
  exact (List.map_mergeSort (r := fun a b => bytesLe a b)
    (s := fun (a b : Bytes × List Bytes) => bytesLe a.1 b.1)
    (f := fun c => (c, sortedDistinct rows c)) (fun _ _ _ _ => rfl)).symm

/-- The same for the disk-backed big writer (at most 2^32 rows, as in `writers_agree_index`). -/
theorem schema_roundtrip_big (rows : List Row) (hlen : rows.length ≤ 2 ^ 32) :
    getSchema (bigIndex H rows) = specSchema rows := by
  have h := writers_agree_index H rows hlen
  simp only at h
  rw [show bigIndex H rows = (Writer.addRows H {} rows).toIndex from h]
  exact schema_roundtrip H rows

/-- the members of the returned schema, without reference to sorting: `(c, vs)` is listed iff `c` is a column
of the data and `vs` is the ascending list of its distinct values -/
theorem mem_getSchema (rows : List Row) (c : Bytes) (vs : List Bytes) :
    (c, vs) ∈ getSchema (Writer.addRows H {} rows).toIndex ↔
      c ∈ columnsOf rows ∧ vs = sortedDistinct rows c := by
  rw [schema_roundtrip, specSchema, List.mem_map]
  constructor
  · rintro ⟨c', hc', he⟩
    rw [List.mem_mergeSort, List.mem_eraseDups] at hc'
    simp only [Prod.mk.injEq] at he
    obtain ⟨rfl, rfl⟩ := he
    exact ⟨hc', rfl⟩
  · rintro ⟨hc, rfl⟩
    exact ⟨c, by rw [List.mem_mergeSort, List.mem_eraseDups]; exact hc, rfl⟩

/-- a value is listed under a column iff some row was added with that (column, value) pair -/
theorem mem_getSchema_value (rows : List Row) (c v : Bytes) :
    (∃ vs, (c, vs) ∈ getSchema (Writer.addRows H {} rows).toIndex ∧ v ∈ vs) ↔ (c, v) ∈ pairsOf rows := by
  constructor
  · rintro ⟨vs, hm, hv⟩
    obtain ⟨_, rfl⟩ := (mem_getSchema H rows c vs).mp hm
    exact mem_sortedDistinct.mp hv
  · intro h
    refine ⟨sortedDistinct rows c, (mem_getSchema H rows c _).mpr ⟨?_, rfl⟩, mem_sortedDistinct.mpr h⟩
    simp only [pairsOf, List.mem_flatMap, id] at h
    obtain ⟨r, hr, hcv⟩ := h
    simp only [columnsOf, List.mem_flatMap, List.mem_map]
    exact ⟨r, hr, (c, v), hcv, rfl⟩

/-- the returned column names are strictly ascending (hence duplicate free), and so are the values of
every column -/
theorem getSchema_sorted (rows : List Row) :
    StrictSorted ((getSchema (Writer.addRows H {} rows).toIndex).map (·.1)) ∧
    ∀ cv ∈ getSchema (Writer.addRows H {} rows).toIndex, StrictSorted cv.2 := by
  rw [schema_roundtrip, specSchema]
  constructor
  · rw [List.map_map]
    have : ((fun cv : Bytes × List Bytes => cv.1) ∘ fun c => (c, sortedDistinct rows c)) = id := rfl
    rw [this, List.map_id]
    exact strictSorted_mergeSort (nodup_eraseDups _)
  · intro cv hcv
    obtain ⟨c, _, rfl⟩ := List.mem_map.mp hcv
    exact sortedDistinct_strictSorted rows c

/-- **Membership.** Under the value index of `(c, v)` the writer stored the bitmap of exactly the rows that
were added with `c = v` — provided no *different* pair of the data has the same value index. -/
theorem membership (rows : List Row) (c v : Bytes) (i : Nat) (hinj : NoCollision H rows [(c, v)]) :
    (((Writer.addRows H {} rows).vals.get (H (encodePair c v))).getD 0).testBit i
      = decide (i < rows.length ∧ (c, v) ∈ rowAt rows i) := by
  rw [(winv_addRows H rows).vals, rowHas_eq_contains H rows c v i hinj, Bool.eq_iff_iff]
  simp

/-- … and the same bitmap is read from the big writer's file. -/
theorem membership_big (rows : List Row) (hlen : rows.length ≤ 2 ^ 32) (c v : Bytes) (i : Nat)
    (hinj : NoCollision H rows [(c, v)]) :
    (((bigIndex H rows).getCol (H (encodePair c v))).getD 0).testBit i
      = decide (i < rows.length ∧ (c, v) ∈ rowAt rows i) := by
  show (((BigWriter.image H rows).1.get (H (encodePair c v))).getD 0).testBit i = _
  rw [writers_agree_get H rows hlen]
  exact membership H rows c v i hinj

end

/-! ### non-vacuity -/

/-- column `b` = [98] is added before column `a` = [97]; values out of order and repeated -/
def sRows : List Row := [[([98], [50]), ([97], [57])], [([97], [49])], [], [([98], [50]), ([97], [49])]]

example : specSchema sRows = [([97], [[49], [57]]), ([98], [[50]])] := by
  have h97 : sortedDistinct sRows [97] = [[49], [57]] :=
    sortedDistinct_eq_of (by unfold StrictSorted; decide) (by decide) (by decide)
  have h98 : sortedDistinct sRows [98] = [[50]] :=
    sortedDistinct_eq_of (by unfold StrictSorted; decide) (by decide) (by decide)
  have hk : (columnsOf sRows).eraseDups.mergeSort (fun a b => bytesLe a b) = [[97], [98]] := by
    apply StrictSorted.eq_of_mem_iff (strictSorted_mergeSort (nodup_eraseDups _))
      (by unfold StrictSorted; decide)
    intro x
    rw [List.mem_mergeSort, List.mem_eraseDups]
    simp [columnsOf, sRows]
    grind
  simp only [specSchema, hk, List.map, h97, h98]

/-- the theorem holds even for the constant hash (every pair collides) -/
example : getSchema (Writer.addRows H0 {} sRows).toIndex = specSchema sRows := schema_roundtrip H0 sRows

example : getSchema (bigIndex Hr sRows) = specSchema sRows := schema_roundtrip_big Hr sRows (by decide)

/-- the hypothesis of `membership` is satisfiable: with the toy hash `beDecode` no data pair collides with (a, 1) -/
example : NoCollision (fun b => (beDecode b).toUInt64) sRows [([97], [49])] := by
  unfold NoCollision; decide

end Updog.C05
