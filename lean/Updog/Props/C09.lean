/-
C09 — the query parser is total and accepts exactly the documented grammar.

Model: `Updog/Model/Parser.lean` (`lexAll`, `parseSimple/parseExpr/parseChain`, `parseToks`, `parseQuery`).
Spec:  `Updog/Spec/Grammar.lean` (the EBNF of queryparser.go as inductive relations, read greedily).
Totality of `lexAll` / `parseQuery` is Lean's termination check of the model; the theorems below add
(1) the shape of the item stream, (2) adequacy of the fuel used by `parseToks`, (3)–(5) parser =
grammar, (6) the tree shapes, (7) the lexemes, (8) concrete instances.
-/
import Updog.Proofs.Parser
namespace Updog.C09
open Updog Updog.Grammar

/-! ## 1. the lexer emits exactly one terminal item, last -/

/-- For every input the item stream is non-empty, its last item is `eof` or `error`, and no earlier
item is `eof`/`error`: the lexer goroutine always reaches its end, so draining leaves nothing behind. -/
theorem lexAll_total_shape (s : Bytes) :
    ∃ (hne : lexAll s ≠ []),
      ((lexAll s).getLast hne = .eof ∨ (lexAll s).getLast hne = .error) ∧
      ∀ x ∈ (lexAll s).dropLast, x ≠ .eof ∧ x ≠ .error := by
  obtain ⟨pre, t, h, ht, hpre⟩ := lexAll_termShape s
  have hne : lexAll s ≠ [] := by rw [h]; simp
  refine ⟨hne, ?_, ?_⟩
  · have : (lexAll s).getLast hne = t := by simp [h]
    rw [this]
    cases t <;> simp_all [Tok.isTerminal]
  · intro x hx
    have : x ∈ pre := by simpa [h] using hx
    have := hpre x this
    constructor <;> (rintro rfl; simp [Tok.isTerminal] at this)

/-! ## 2. fuel -/

/-- more fuel never changes a successful result (all three mutual functions) -/
theorem fuel_mono {f g : Nat} (hfg : f ≤ g) :
    (∀ ts e r, parseSimple f ts = some (e, r) → parseSimple g ts = some (e, r)) ∧
    (∀ ts e r, parseExpr f ts = some (e, r) → parseExpr g ts = some (e, r)) ∧
    (∀ sep ts es r, parseChain f sep ts = some (es, r) → parseChain g sep ts = some (es, r)) :=
  ⟨fun _ _ _ => parseSimple_mono hfg, fun _ _ _ => parseExpr_mono hfg,
   fun _ _ _ _ => parseChain_mono hfg⟩

/-- every successful call consumes at least one token and returns a suffix of its input -/
theorem remainder_shorter {f : Nat} {ts : List Tok} {e : PExpr} {r : List Tok}
    (h : parseExpr f ts = some (e, r)) : r.length < ts.length ∧ ∃ pre, ts = pre ++ r :=
  have hd := (parse_sound_all f).2.1 _ _ _ h
  ⟨hd.length_lt, hd.suffix⟩

/-- a result obtained with SOME fuel is obtained with every fuel `≥ consumed tokens + 1`,
in particular with the fuel `ts.length + 1` that `parseToks` uses -/
theorem fuel_adequate {f : Nat} {ts : List Tok} {e : PExpr} {r : List Tok}
    (h : parseExpr f ts = some (e, r)) :
    (∀ g, ts.length + 1 ≤ g + r.length → parseExpr g ts = some (e, r)) ∧
    parseExpr (ts.length + 1) ts = some (e, r) :=
  have hd := (parse_sound_all f).2.1 _ _ _ h
  ⟨hd.parse, hd.parse _ (by omega)⟩

/-- hence failure with the fuel of `parseToks` is failure with every fuel: running out of fuel is
never the reason for a rejection -/
theorem fuel_adequate_none {ts : List Tok} (h : parseExpr (ts.length + 1) ts = none) (f : Nat) :
    parseExpr f ts = none := by
  cases hf : parseExpr f ts with
  | none => rfl
  | some er =>
    obtain ⟨e, r⟩ := er
    rw [(fuel_adequate hf).2] at h; cases h

/-! ## 3. soundness -/

theorem parse_sound (f : Nat) :
    (∀ ts e r, parseSimple f ts = some (e, r) → Simple ts e r) ∧
    (∀ ts e r, parseExpr f ts = some (e, r) → Expr ts e r) ∧
    (∀ sep ts es r, parseChain f sep ts = some (es, r) → Chain sep ts es r) :=
  parse_sound_all f

theorem parseToks_sound {ts : List Tok} {q : PQuery} (h : parseToks ts = some q) : Sentence ts q :=
  parseToks_iff.mp h

/-! ## 4. completeness -/

theorem parse_complete :
    (∀ ts e r, Simple ts e r → ∃ f₀, ∀ f ≥ f₀, parseSimple f ts = some (e, r)) ∧
    (∀ ts e r, Expr ts e r → ∃ f₀, ∀ f ≥ f₀, parseExpr f ts = some (e, r)) ∧
    (∀ sep ts es r, Chain sep ts es r → ∃ f₀, ∀ f ≥ f₀, parseChain f sep ts = some (es, r)) :=
  ⟨fun ts _ _ h => ⟨ts.length, fun f hf => h.parse f (by omega)⟩,
   fun ts _ _ h => ⟨ts.length + 1, fun f hf => h.parse f (by omega)⟩,
   fun _ ts _ _ h => ⟨ts.length + 1, fun f hf => h.parse f (by omega)⟩⟩

theorem parseToks_complete {ts : List Tok} {q : PQuery} (h : Sentence ts q) : parseToks ts = some q :=
  parseToks_iff.mpr h

/-! ## 5. parser = grammar; the grammar is unambiguous -/

theorem parse_iff_sentence {ts : List Tok} {q : PQuery} : parseToks ts = some q ↔ Sentence ts q :=
  parseToks_iff

/-- `ParseQuery` succeeds with `q` exactly when the item stream of the input is a sentence denoting `q` -/
theorem parseQuery_iff_sentence {s : Bytes} {q : PQuery} :
    parseQuery s = some q ↔ Sentence (lexAll s) q :=
  parseToks_iff

/-- `ParseQuery` fails exactly when the item stream is not a sentence -/
theorem parseQuery_none_iff {s : Bytes} : parseQuery s = none ↔ ¬ ∃ q, Sentence (lexAll s) q := by
  constructor
  · rintro h ⟨q, hq⟩
    rw [parseQuery_iff_sentence.mpr hq] at h; cases h
  · intro h
    cases hq : parseQuery s with
    | none => rfl
    | some q => exact absurd ⟨q, parseQuery_iff_sentence.mp hq⟩ h

theorem grammar_unambiguous {ts : List Tok} {q q' : PQuery}
    (h : Sentence ts q) (h' : Sentence ts q') : q = q' :=
  h.unique h'

/-- also below the sentence level: a token list has at most one reading as a simple-expr / expr -/
theorem phrase_unambiguous {ts : List Tok} {e e' : PExpr} {r r' : List Tok} :
    (Simple ts e r → Simple ts e' r' → e = e' ∧ r = r') ∧
    (Expr ts e r → Expr ts e' r' → e = e' ∧ r = r') :=
  ⟨Simple.unique, Expr.unique⟩

/-- a lexer error is a parse error -/
theorem lex_error_rejected {s : Bytes} (h : Tok.error ∈ lexAll s) : parseQuery s = none := by
  rw [parseQuery_none_iff]
  rintro ⟨q, hq⟩
  have hlast := hq.getLast
  obtain ⟨pre, t, hs, ht, hpre⟩ := lexAll_termShape s
  rw [hs] at h hlast
  rw [List.getLast?_concat] at hlast
  cases hlast
  rcases List.mem_append.mp h with h | h
  · have := hpre _ h; simp [Tok.isTerminal] at this
  · simp at h

/-! ## 6. tree shape -/

/-- `^` binds tightest: after `^` comes exactly one simple-expr, and the result is its negation -/
theorem not_binds_tightest {ts : List Tok} {e : PExpr} {r : List Tok} :
    Simple (.not :: ts) e r ↔ ∃ e', e = .not e' ∧ Simple ts e' r := by
  constructor
  · intro h; cases h with
    | not h => exact ⟨_, rfl, h⟩
  · rintro ⟨e', rfl, h⟩; exact .not h

/-- parentheses only group: `( expr )` is the tree of `expr`, unchanged -/
theorem parens_transparent {ts : List Tok} {e : PExpr} {r : List Tok} :
    Simple (.lparen :: ts) e r ↔ Expr ts e (.rparen :: r) := by
  constructor
  · intro h; cases h with
    | group h => exact h
  · exact .group

/-- a comparison is three tokens and denotes one `eq` leaf (value unescaped, or placeholder ≥ 1) -/
theorem comparison_shape {c : Bytes} {t : Tok} {ts : List Tok} {e : PExpr} {r : List Tok} :
    Simple (.field c :: t :: ts) e r ↔
      t = .eq ∧ ((∃ body, ts = .value body :: r ∧ e = .eq c (unescape body) 0) ∨
        (∃ ds, ts = .placeholder ds :: r ∧ 1 ≤ decodePlaceholder ds ∧
          e = .eq c [] (decodePlaceholder ds))) := by
  constructor
  · intro h; cases h with
    | cmpValue _ body _ => exact ⟨rfl, .inl ⟨body, rfl, rfl⟩⟩
    | cmpPlaceholder _ ds _ h => exact ⟨rfl, .inr ⟨ds, rfl, h, rfl⟩⟩
  · rintro ⟨rfl, ⟨body, rfl, rfl⟩ | ⟨ds, rfl, h, rfl⟩⟩
    · exact .cmpValue _ _ _
    · exact .cmpPlaceholder _ _ _ h

/-- `s₀ & s₁ & … & sₙ` (n ≥ 1 further operands) is ONE n-ary `and` node, operands in source order -/
theorem and_chain_one_node {p : List Tok} {e : PExpr} (hp : SimplePhrase p e)
    (ps : List (List Tok × PExpr)) (hps : ∀ x ∈ ps, SimplePhrase x.1 x.2) (hne : ps ≠ [])
    {r : List Tok} (hr : r.head? ≠ some .and) :
    Expr (p ++ ps.flatMap (fun x => .and :: x.1) ++ r) (.and (e :: ps.map (·.2))) r := by
  cases ps with
  | nil => exact absurd rfl hne
  | cons x ps =>
    have hc := chain_of_phrases .and hr ps (fun z hz => hps z (by simp [hz])) x (hps x (by simp))
    have := Expr.and (hp _) hc
    simpa [List.append_assoc] using this

/-- the same for `|` -/
theorem or_chain_one_node {p : List Tok} {e : PExpr} (hp : SimplePhrase p e)
    (ps : List (List Tok × PExpr)) (hps : ∀ x ∈ ps, SimplePhrase x.1 x.2) (hne : ps ≠ [])
    {r : List Tok} (hr : r.head? ≠ some .or) :
    Expr (p ++ ps.flatMap (fun x => .or :: x.1) ++ r) (.or (e :: ps.map (·.2))) r := by
  cases ps with
  | nil => exact absurd rfl hne
  | cons x ps =>
    have hc := chain_of_phrases .or hr ps (fun z hz => hps z (by simp [hz])) x (hps x (by simp))
    have := Expr.or (hp _) hc
    simpa [List.append_assoc] using this

/-- every `and`/`or` node of a parsed tree has at least two operands (a lone operand is returned as
itself, never wrapped), at every depth -/
theorem nary_nodes_have_two_operands {ts : List Tok} {q : PQuery} (h : parseToks ts = some q) :
    nary2 q.expr = true := by
  cases parseToks_iff.mp h with
  | plain he => exact he.nary2
  | grouped he _ => exact he.nary2

/-- a chain never stops in front of its own operator (maximal munch) -/
theorem chain_greedy {ts : List Tok} {es : List PExpr} {r : List Tok} :
    (Expr ts (.and es) r → ts.head? ≠ some .lparen → r.head? ≠ some .and) ∧
    (Expr ts (.or es) r → ts.head? ≠ some .lparen → r.head? ≠ some .or) := by
  constructor
  · intro h hp
    cases h with
    | single h _ _ => cases h with
      | group _ => simp at hp
    | and _ hc => exact hc.stop
  · intro h hp
    cases h with
    | single h _ _ => cases h with
      | group _ => simp at hp
    | or _ hc => exact hc.stop

/-- mixing `&` and `|` on one level without parentheses is not a sentence: `a & b | …` is rejected -/
theorem mixed_and_or_rejected {a b : List Tok} {ea eb : PExpr} (ha : SimplePhrase a ea)
    (hb : SimplePhrase b eb) (rest : List Tok) (q : PQuery) :
    ¬ Sentence (a ++ .and :: (b ++ .or :: rest)) q := by
  have key : ∀ e r, Expr (a ++ .and :: (b ++ .or :: rest)) e r → r = .or :: rest := by
    intro e r h
    cases h with
    | single h h1 _ =>
      obtain ⟨_, rfl⟩ := h.unique (ha _); simp at h1
    | and h hc =>
      obtain ⟨_, hr⟩ := h.unique (ha _)
      cases hr
      cases hc with
      | last h' _ => exact (h'.unique (hb _)).2
      | more h' _ => have := (h'.unique (hb _)).2; cases this
    | or h _ => have := (h.unique (ha _)).2; cases this
  intro h
  cases h with
  | plain h => have := key _ _ h; cases this
  | grouped h _ => have := key _ _ h; cases this

/-- and symmetrically `a | b & …` -/
theorem mixed_or_and_rejected {a b : List Tok} {ea eb : PExpr} (ha : SimplePhrase a ea)
    (hb : SimplePhrase b eb) (rest : List Tok) (q : PQuery) :
    ¬ Sentence (a ++ .or :: (b ++ .and :: rest)) q := by
  have key : ∀ e r, Expr (a ++ .or :: (b ++ .and :: rest)) e r → r = .and :: rest := by
    intro e r h
    cases h with
    | single h _ h2 =>
      obtain ⟨_, rfl⟩ := h.unique (ha _); simp at h2
    | or h hc =>
      obtain ⟨_, hr⟩ := h.unique (ha _)
      cases hr
      cases hc with
      | last h' _ => exact (h'.unique (hb _)).2
      | more h' _ => have := (h'.unique (hb _)).2; cases this
    | and h _ => have := (h.unique (ha _)).2; cases this
  intro h
  cases h with
  | plain h => have := key _ _ h; cases this
  | grouped h _ => have := key _ _ h; cases this

/-- comparisons are simple phrases (so the chain / mixing theorems apply to them) -/
theorem comparison_phrase (c body : Bytes) :
    SimplePhrase [.field c, .eq, .value body] (.eq c (unescape body) 0) :=
  fun r => .cmpValue c body r

theorem not_phrase {p : List Tok} {e : PExpr} (h : SimplePhrase p e) :
    SimplePhrase (.not :: p) (.not e) :=
  fun r => .not (h r)

/-- `unescape` turns each doubled quote into one quote and changes nothing else -/
theorem unescape_doubled_quote {a : Bytes} (ha : StrBody a) (b : Bytes) :
    unescape (a ++ [34, 34] ++ b) = unescape a ++ 34 :: unescape b := by
  rw [List.append_assoc, unescape_append ha]; rfl

theorem unescape_plain {a : Bytes} (h : (34 : UInt8) ∉ a) : unescape a = a :=
  unescape_noquote h

/-- `unescape` distributes over well-escaped prefixes -/
theorem unescape_body_append {a : Bytes} (ha : StrBody a) (b : Bytes) :
    unescape (a ++ b) = unescape a ++ unescape b :=
  unescape_append ha b

/-- rejected placeholders: `$` without digits, `$0`, and numbers above 2147483647 decode to 0 (`< 1`) -/
theorem placeholder_rejected :
    decodePlaceholder [] = 0 ∧ decodePlaceholder [48] = 0 ∧
    (∀ ds, 2147483647 < digitsVal ds → decodePlaceholder ds = 0) ∧
    (∀ c ds r e r', decodePlaceholder ds < 1 →
      ¬ Simple (.field c :: .eq :: .placeholder ds :: r) e r') := by
  refine ⟨rfl, by decide, fun _ h => decodePlaceholder_big h, ?_⟩
  intro c ds r e r' hlt h
  cases h with
  | cmpPlaceholder _ _ _ h => omega

/-- accepted placeholders are exactly the non-empty digit strings with value in `1 … 2147483647`,
and they decode to their decimal value -/
theorem placeholder_accepted {ds : Bytes} :
    (1 ≤ decodePlaceholder ds ↔ ds ≠ [] ∧ 1 ≤ digitsVal ds ∧ digitsVal ds ≤ 2147483647) ∧
    (1 ≤ decodePlaceholder ds → decodePlaceholder ds = digitsVal ds) ∧
    (∀ d, digitsVal (ds ++ [d]) = digitsVal ds * 10 + (d.toNat - 48)) := by
  refine ⟨decodePlaceholder_pos_iff, ?_, digitsVal_snoc ds⟩
  intro h
  obtain ⟨h1, _, h3⟩ := decodePlaceholder_pos_iff.mp h
  exact decodePlaceholder_eq h1 h3

/-! ## 7. lexemes -/

/-- string literal: opening quote, a body in which every quote is doubled, closing quote not followed
by a further quote.  The item carries the still-escaped body (the parser applies `unescape`). -/
theorem lex_value {body rest : Bytes} (hb : StrBody body) (hr : rest.head? ≠ some 34) :
    lexAll (34 :: body ++ 34 :: rest) = .value body :: lexAll rest :=
  lexAll_value hb hr

/-- conversely, whenever a quote starts a `value` item, the input has exactly that form -/
theorem lex_value_inv {s : Bytes} {t : Tok} {l : List Tok} (h : lexAll (34 :: s) = t :: l) :
    (t = .error ∧ l = [] ∧ ¬ ∃ b r, s = b ++ 34 :: r ∧ StrBody b ∧ r.head? ≠ some 34) ∨
    (∃ b r, s = b ++ 34 :: r ∧ StrBody b ∧ r.head? ≠ some 34 ∧ t = .value b ∧ l = lexAll r) := by
  cases hs : scanStr s with
  | none =>
    rw [lexAll_quote_none hs] at h
    cases h
    exact .inl ⟨rfl, rfl, scanStr_none_iff.mp hs⟩
  | some br =>
    obtain ⟨b, r⟩ := br
    rw [lexAll_quote_some hs] at h
    cases h
    obtain ⟨h1, h2, h3⟩ := scanStr_some hs
    exact .inr ⟨b, r, h1, h2, h3, rfl, rfl⟩

/-- an unterminated string (no closing quote after a well-escaped body, or no such split at all)
yields the single item `error` at that point: the lexer stops -/
theorem lex_unterminated :
    (∀ {body : Bytes}, StrBody body → lexAll (34 :: body) = [.error]) ∧
    (∀ {s : Bytes}, (¬ ∃ b r, s = b ++ 34 :: r ∧ StrBody b ∧ r.head? ≠ some 34) →
      lexAll (34 :: s) = [.error]) :=
  ⟨fun hb => lexAll_quote_none (scanStr_unterminated hb),
   fun h => lexAll_quote_none (scanStr_none_iff.mpr h)⟩

/-- identifier: a letter followed by the longest run of letters, digits and `_` -/
theorem lex_field {c : UInt8} {cs rest : Bytes} (hc : isAlpha c = true)
    (hcs : ∀ x ∈ cs, isFieldChar x = true)
    (hrest : ∀ x, rest.head? = some x → isFieldChar x = false) :
    lexAll (c :: cs ++ rest) = .field (c :: cs) :: lexAll rest :=
  lexAll_field hc hcs hrest

/-- placeholder: `$` and the longest (possibly empty) run of digits -/
theorem lex_placeholder {ds rest : Bytes} (hds : ∀ x ∈ ds, isDigit x = true)
    (hrest : ∀ x, rest.head? = some x → isDigit x = false) :
    lexAll (36 :: ds ++ rest) = .placeholder ds :: lexAll rest :=
  lexAll_placeholder hds hrest

/-- the single-byte lexemes `( ) & | ^ , ; =` -/
theorem lex_punct (rest : Bytes) :
    lexAll (40 :: rest) = .lparen :: lexAll rest ∧ lexAll (41 :: rest) = .rparen :: lexAll rest ∧
    lexAll (38 :: rest) = .and :: lexAll rest ∧ lexAll (124 :: rest) = .or :: lexAll rest ∧
    lexAll (94 :: rest) = .not :: lexAll rest ∧ lexAll (44 :: rest) = .comma :: lexAll rest ∧
    lexAll (59 :: rest) = .semi :: lexAll rest ∧ lexAll (61 :: rest) = .eq :: lexAll rest :=
  ⟨lexAll_lparen _, lexAll_rparen _, lexAll_and _, lexAll_or _, lexAll_not _, lexAll_comma _,
   lexAll_semi _, lexAll_eq _⟩

/-- blanks, tabs, CR and LF between lexemes are skipped; the end of input gives `eof` -/
theorem lex_space_eof {ws : Bytes} (h : ∀ x ∈ ws, isSpace x = true) (rest : Bytes) :
    lexAll (ws ++ rest) = lexAll rest ∧ lexAll [] = [.eof] :=
  ⟨lexAll_spaces h rest, lexAll_nil⟩

/-- every other byte makes the lexer stop with the single item `error` -/
theorem lex_unknown {c : UInt8} (rest : Bytes) (h0 : isSpace c = false)
    (h1 : c ∉ [40, 41, 38, 124, 94, 44, 59, 61, 34, 36]) (h2 : isAlpha c = false) :
    lexAll (c :: rest) = [.error] :=
  lexAll_unknown rest h0 h1 h2

/-! ## 8. non-vacuity: concrete instances -/

/-- the bytes of ``a="x""y" & ^(b=$2|c="");a,b`` -/
def exBytes : Bytes :=
  [97, 61, 34, 120, 34, 34, 121, 34, 32, 38, 32, 94, 40, 98, 61, 36, 50, 124, 99, 61, 34, 34, 41,
   59, 97, 44, 98]

def exToks : List Tok :=
  [.field [97], .eq, .value [120, 34, 34, 121], .and, .not, .lparen, .field [98], .eq,
   .placeholder [50], .or, .field [99], .eq, .value [], .rparen, .semi, .field [97], .comma,
   .field [98], .eof]

/-- `and [a = x"y, not (or [b = $2, c = ""])]` grouped by `a, b` -/
def exQuery : PQuery :=
  ⟨.and [.eq [97] [120, 34, 121] 0, .not (.or [.eq [98] [] 2, .eq [99] [] 0])], [[97], [98]]⟩

theorem ex_lex : lexAll exBytes = exToks := by
  simp +decide [exBytes, exToks, lexAll_lparen, lexAll_rparen, lexAll_and, lexAll_or, lexAll_not,
    lexAll_comma, lexAll_semi, lexAll_eq, lexAll_nil, lexAll_field_raw, lexAll_placeholder_raw,
    lexAll_space,
    lexAll_quote_some
      (rest := [120, 34, 34, 121, 34, 32, 38, 32, 94, 40, 98, 61, 36, 50, 124, 99, 61, 34, 34, 41,
        59, 97, 44, 98])
      (b := [120, 34, 34, 121])
      (r := [32, 38, 32, 94, 40, 98, 61, 36, 50, 124, 99, 61, 34, 34, 41, 59, 97, 44, 98])
      (by decide),
    lexAll_quote_some (rest := [34, 41, 59, 97, 44, 98]) (b := []) (r := [41, 59, 97, 44, 98])
      (by decide)]

example : parseToks exToks = some exQuery := rfl
example : parseQuery exBytes = some exQuery := by rw [parseQuery, ex_lex]; rfl
example : Sentence (lexAll exBytes) exQuery :=
  parseQuery_iff_sentence.mp (by rw [parseQuery, ex_lex]; rfl)
/-- hypotheses of `lexAll_total_shape`, `fuel_adequate`, `parse_sound`, `parse_complete`,
    `grammar_unambiguous` are satisfiable -/
example : ∃ f e r, parseExpr f exToks = some (e, r) ∧ Expr exToks e r ∧ r.length < exToks.length :=
  ⟨20, _, _, rfl, (parse_sound 20).2.1 _ _ _ rfl, by decide⟩
example : nary2 exQuery.expr = true := nary_nodes_have_two_operands (ts := exToks) rfl

/-- a hand-written derivation: `^a="x"` is `not (a = x)` -/
example : Sentence [.not, .field [97], .eq, .value [120], .eof] ⟨.not (.eq [97] [120] 0), []⟩ :=
  .plain (.single (.not (.cmpValue [97] [120] [.eof])) (by simp) (by simp))

/-- `a="x" & b="y" & c="z"` is ONE ternary `and` (instance of `and_chain_one_node`) -/
example :
    Expr ([.field [97], .eq, .value [120]] ++
        [([Tok.field [98], Tok.eq, Tok.value [121]], PExpr.eq [98] [121] 0),
         ([Tok.field [99], Tok.eq, Tok.value [122]], PExpr.eq [99] [122] 0)].flatMap
          (fun x => Tok.and :: x.1) ++ [.eof])
      (.and [.eq [97] [120] 0, .eq [98] [121] 0, .eq [99] [122] 0]) [.eof] :=
  and_chain_one_node (comparison_phrase [97] [120]) _
    (by
      intro x hx
      simp only [List.mem_cons, List.not_mem_nil, or_false] at hx
      rcases hx with rfl | rfl
      · exact comparison_phrase [98] [121]
      · exact comparison_phrase [99] [122])
    (by simp) (by simp)
example :
    parseToks [.field [97], .eq, .value [120], .and, .field [98], .eq, .value [121], .and,
      .field [99], .eq, .value [122], .eof] =
    some ⟨.and [.eq [97] [120] 0, .eq [98] [121] 0, .eq [99] [122] 0], []⟩ := rfl

/-- `a="x" & b="y" | c="z"` is rejected (instance of `mixed_and_or_rejected`, and by computation) -/
example (q : PQuery) :
    ¬ Sentence ([.field [97], .eq, .value [120]] ++ .and ::
      ([.field [98], .eq, .value [121]] ++ .or :: [.field [99], .eq, .value [122], .eof])) q :=
  mixed_and_or_rejected (comparison_phrase [97] [120]) (comparison_phrase [98] [121]) _ q
example :
    parseToks [.field [97], .eq, .value [120], .and, .field [98], .eq, .value [121], .or,
      .field [99], .eq, .value [122], .eof] = none := rfl
/-- with parentheses it is accepted, and the parentheses leave no trace in the tree -/
example :
    parseToks [.field [97], .eq, .value [120], .and, .lparen, .field [98], .eq, .value [121], .or,
      .field [99], .eq, .value [122], .rparen, .eof] =
    some ⟨.and [.eq [97] [120] 0, .or [.eq [98] [121] 0, .eq [99] [122] 0]], []⟩ := rfl
example :
    parseToks [.lparen, .lparen, .field [97], .eq, .value [120], .rparen, .rparen, .eof] =
    some ⟨.eq [97] [120] 0, []⟩ := rfl
/-- `^a="x" & b="y"` negates only `a="x"` -/
example :
    parseToks [.not, .field [97], .eq, .value [120], .and, .field [98], .eq, .value [121], .eof] =
    some ⟨.and [.not (.eq [97] [120] 0), .eq [98] [121] 0], []⟩ := rfl

/-- placeholders: `a=$12` accepted with 12; `a=$0`, `a=$`, `a=$2147483648` rejected -/
example : parseToks [.field [97], .eq, .placeholder [49, 50], .eof] = some ⟨.eq [97] [] 12, []⟩ := rfl
example : parseToks [.field [97], .eq, .placeholder [48], .eof] = none := rfl
example : parseToks [.field [97], .eq, .placeholder [], .eof] = none := rfl
example : decodePlaceholder [50, 49, 52, 55, 52, 56, 51, 54, 52, 55] = 2147483647 := by decide
example : decodePlaceholder [50, 49, 52, 55, 52, 56, 51, 54, 52, 56] = 0 := by decide

/-- lexer errors: an unterminated string and an unknown byte (`#`); both are parse errors -/
example : lexAll [97, 61, 34, 120] = [.field [97], .eq, .error] := by
  simp +decide [lexAll_eq, lexAll_field_raw, lexAll_quote_none (rest := [120]) (by decide)]
example : parseQuery [97, 61, 34, 120] = none :=
  lex_error_rejected (by
    simp +decide [lexAll_eq, lexAll_field_raw, lexAll_quote_none (rest := [120]) (by decide)])
example : lexAll [35, 97] = [.error] := lexAll_unknown _ (by decide) (by decide) (by decide)
/-- the empty query and a trailing operator are rejected -/
example : parseQuery [] = none := by rw [parseQuery, lexAll_nil]; rfl
example : parseToks [.field [97], .eq, .value [120], .and, .eof] = none := rfl
/-- `unescape`: `x""y` ↦ `x"y` -/
example : unescape [120, 34, 34, 121] = [120, 34, 121] := by decide

end Updog.C09
