/-
C19 (command level) — `updog create` as a whole: it always terminates; a malformed CSV or an existing output makes
it fail with exit status 1 without touching an existing output; a well-formed CSV and an absent output make it
succeed with a complete index — in both modes alike.  All statements are checked on all 16 input combinations.
(What the complete index contains is C19 `Props/C19.lean` + C05 `writers_agree`.)
-/
import Updog.Model.CreateCmd
namespace Updog.C19
open Updog

/-- **Termination.** The command terminates on every input, in both modes (in particular `--big` on a malformed
CSV: the deferred `idx.Close()` rolls the temp transaction back before `tempDB.Close()`). -/
theorem create_terminates (i : CreateIn) : (createCmd i).terminates = true := by
  obtain ⟨h, c, o, b⟩ := i
  cases h <;> cases c <;> cases o <;> cases b <;> rfl

/-- **Failure is safe.** Malformed CSV or existing output ⇒ exit status ≠ 0, an existing output is not touched, and
no complete index is claimed. -/
theorem create_fails_safely (i : CreateIn) (hbad : i.wellFormed = false ∨ i.outputExists = true) :
    (createCmd i).exitStatus ≠ 0 ∧ (createCmd i).existingOutputTouched = false ∧
    (createCmd i).outputIsCompleteIndex = false := by
  obtain ⟨h, c, o, b⟩ := i
  revert hbad
  cases h <;> cases c <;> cases o <;> cases b <;> decide

/-- an existing output is never touched, whatever else happens -/
theorem create_never_touches_existing (i : CreateIn) : (createCmd i).existingOutputTouched = false := by
  obtain ⟨h, c, o, b⟩ := i
  cases h <;> cases c <;> cases o <;> cases b <;> rfl

/-- **Success.** Well-formed CSV and absent output ⇒ exit status 0 and the output is a complete index, whatever the
mode. -/
theorem create_succeeds (i : CreateIn) (hwf : i.wellFormed = true) (habs : i.outputExists = false) :
    createCmd i = ⟨0, false, true, true⟩ := by
  obtain ⟨h, c, o, b⟩ := i
  revert hwf habs
  cases h <;> cases c <;> cases o <;> cases b <;> decide

/-- exit status 0 exactly for a well-formed CSV and an absent output; otherwise 1 (`os.Exit(1)`) -/
theorem create_exit_status (i : CreateIn) :
    (createCmd i).exitStatus = if i.wellFormed && !i.outputExists then 0 else 1 := by
  obtain ⟨h, c, o, b⟩ := i
  cases h <;> cases c <;> cases o <;> cases b <;> rfl

/-- exit status 0 ⇔ the output is a complete index written by this run -/
theorem create_exit_zero_iff_complete (i : CreateIn) :
    (createCmd i).exitStatus = 0 ↔ (createCmd i).outputIsCompleteIndex = true := by
  obtain ⟨h, c, o, b⟩ := i
  cases h <;> cases c <;> cases o <;> cases b <;> decide

/-- **Both modes alike.** The outcome does not depend on `--big`. -/
theorem create_modes_agree (i : CreateIn) : createCmd { i with big := true } = createCmd { i with big := false } := by
  obtain ⟨h, c, o, b⟩ := i
  cases h <;> cases c <;> cases o <;> rfl

/-- The only observable difference between the modes: `--big` opens the output before it reads the records, so a
malformed record (after a readable header, output absent) leaves a new, incomplete output file behind — only then,
and the exit status says so. -/
theorem create_leftover_iff (i : CreateIn) :
    (createRun .repaired i).newIncompleteOutputLeft = (i.big && i.headerOk && !i.csvOk && !i.outputExists) ∧
    ((createRun .repaired i).newIncompleteOutputLeft = true → (createCmd i).exitStatus = 1) := by
  obtain ⟨h, c, o, b⟩ := i
  cases h <;> cases c <;> cases o <;> cases b <;> decide

/-! ### the two design decisions are needed (sensitivity of the model) -/

/-- without `defer idx.Close()` (the code before fix 72e7103) `--big` on a malformed CSV hangs -/
theorem unrepaired_hangs :
    (createRun ⟨true, false⟩ ⟨true, false, false, true⟩).terminates = false := rfl

/-- … and only there: the other 15 combinations terminate even then -/
theorem unrepaired_hangs_only_there (i : CreateIn) :
    (createRun ⟨true, false⟩ i).terminates = !(i.big && i.headerOk && !i.csvOk && !i.outputExists) := by
  obtain ⟨h, c, o, b⟩ := i
  cases h <;> cases c <;> cases o <;> cases b <;> rfl

/-- without O_EXCL an existing output would be opened and written into, in both modes -/
theorem nonexclusive_touches (big : Bool) :
    (createRun ⟨false, true⟩ ⟨true, true, true, big⟩).existingOutputTouched = true := by
  cases big <;> rfl

/-! ### non-vacuity: each hypothesis combination occurs -/

example : (⟨true, true, false, true⟩ : CreateIn).wellFormed = true ∧
    createCmd ⟨true, true, false, true⟩ = ⟨0, false, true, true⟩ ∧
    createCmd ⟨true, true, false, false⟩ = ⟨0, false, true, true⟩ := ⟨rfl, rfl, rfl⟩

example : (⟨true, false, false, true⟩ : CreateIn).wellFormed = false ∧
    createCmd ⟨true, false, false, true⟩ = ⟨1, false, false, true⟩ ∧
    createCmd ⟨true, true, true, false⟩ = ⟨1, false, false, true⟩ ∧
    createCmd ⟨false, false, true, true⟩ = ⟨1, false, false, true⟩ := ⟨rfl, rfl, rfl, rfl⟩

end Updog.C19
