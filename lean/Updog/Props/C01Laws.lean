/-
C01 — algebraic laws of the total count that a user of the index relies on when combining queries:
complement (NOT), inclusion–exclusion (AND/OR of two operands), bounds, De Morgan and double negation.
They are stated on what `Execute` RETURNS on the written-and-opened index (through `C01.count_correct`),
not only on the specification. Property theorems only.
-/
import Updog.Props.C02
namespace Updog.C01
open Updog

variable (H : Bytes → UInt64)

/-! ### on the specification -/

private theorem len_filter_not {α} (p : α → Bool) (l : List α) :
    (l.filter fun x => !p x).length + (l.filter p).length = l.length := by
  induction l with
  | nil => rfl
  | cons x l ih =>
    simp only [List.filter_cons]
    cases p x <;> simp <;> omega

private theorem len_filter_and_or {α} (p q : α → Bool) (l : List α) :
    (l.filter fun x => p x && q x).length + (l.filter fun x => p x || q x).length =
      (l.filter p).length + (l.filter q).length := by
  induction l with
  | nil => rfl
  | cons x l ih =>
    simp only [List.filter_cons]
    cases p x <;> cases q x <;> simp <;> omega

private theorem len_filter_mono {α} (p q : α → Bool) (l : List α) (h : ∀ x, p x = true → q x = true) :
    (l.filter p).length ≤ (l.filter q).length := by
  induction l with
  | nil => simp
  | cons x l ih =>
    simp only [List.filter_cons]
    have := h x
    cases hp : p x <;> cases hq : q x <;> simp_all <;> omega

theorem specCount_le_length (rows : List Row) (e : Expr) : specCount rows e ≤ rows.length :=
  List.length_filter_le _ _

/-- NOT counts exactly the other rows -/
theorem specCount_not (rows : List Row) (e : Expr) :
    specCount rows (.not e) + specCount rows e = rows.length := by
  unfold specCount
  have : (rows.filter fun r => sat r (.not e)) = rows.filter fun r => !sat r e :=
    List.filter_congr fun r _ => by simp [sat]
  rw [this]
  exact len_filter_not (fun r => sat r e) rows

theorem specCount_not_not (rows : List Row) (e : Expr) :
    specCount rows (.not (.not e)) = specCount rows e := by
  unfold specCount
  congr 1
  apply List.filter_congr
  intro r _
  simp [sat]

/-- inclusion–exclusion for two operands -/
theorem specCount_and_or (rows : List Row) (a b : Expr) :
    specCount rows (.and [a, b]) + specCount rows (.or [a, b]) = specCount rows a + specCount rows b := by
  unfold specCount
  have h1 : (rows.filter fun r => sat r (.and [a, b])) = rows.filter fun r => sat r a && sat r b :=
    List.filter_congr fun r _ => by simp [sat, satAll]
  have h2 : (rows.filter fun r => sat r (.or [a, b])) = rows.filter fun r => sat r a || sat r b :=
    List.filter_congr fun r _ => by simp [sat, satAny]
  rw [h1, h2]
  exact len_filter_and_or (fun r => sat r a) (fun r => sat r b) rows

/-- De Morgan -/
theorem specCount_not_or (rows : List Row) (a b : Expr) :
    specCount rows (.not (.or [a, b])) = specCount rows (.and [.not a, .not b]) := by
  unfold specCount
  congr 1
  apply List.filter_congr
  intro r _
  simp [sat, satAll, satAny]

/-- a one-operand AND/OR is its operand -/
theorem specCount_singleton (rows : List Row) (a : Expr) :
    specCount rows (.and [a]) = specCount rows a ∧ specCount rows (.or [a]) = specCount rows a := by
  unfold specCount
  constructor <;> (congr 1; apply List.filter_congr; intro r _; simp [sat, satAll, satAny])

/-- adding an AND operand never raises the count, adding an OR operand never lowers it -/
theorem specCount_and_le (rows : List Row) (a : Expr) (es : List Expr) :
    specCount rows (.and (a :: es)) ≤ specCount rows (.and es) ∧
    specCount rows (.or es) ≤ specCount rows (.or (a :: es)) := by
  unfold specCount
  constructor
  · apply len_filter_mono
    intro r h
    simp only [sat, satAll, Bool.and_eq_true] at h
    simpa [sat] using h.2
  · apply len_filter_mono
    intro r h
    simp only [sat] at h
    simp [sat, satAny, h]

/-! ### on what `Execute` returns -/

section exec
variable (rows : List Row) (e : Expr)
  (hcols : ∀ c ∈ e.columns, c ∈ columnsOf rows) (hwf : e.arityPos = true)
  (hinj : NoCollision H rows e.pairs)
include hcols hwf hinj

/-- **Bound.** the returned count never exceeds the number of rows -/
theorem execute_count_le :
    ∃ res, execute H (Writer.addRows H {} rows).toIndex ⟨e, []⟩ = some res ∧ res.count ≤ rows.length :=
  ⟨_, count_correct H rows e hcols hwf hinj, specCount_le_length rows e⟩

/-- **Complement.** the counts returned for `e` and for `NOT e` add up to the number of rows -/
theorem execute_not_complement :
    ∃ r₁ r₂, execute H (Writer.addRows H {} rows).toIndex ⟨e, []⟩ = some r₁ ∧
      execute H (Writer.addRows H {} rows).toIndex ⟨.not e, []⟩ = some r₂ ∧
      r₂.count + r₁.count = rows.length := by
  refine ⟨_, _, count_correct H rows e hcols hwf hinj,
    count_correct H rows (.not e) (by simpa [Expr.columns] using hcols) (by simpa [Expr.arityPos] using hwf)
      (by simpa [Expr.pairs] using hinj), specCount_not rows e⟩

/-- **Double negation.** `NOT NOT e` is answered like `e` -/
theorem execute_not_not :
    execute H (Writer.addRows H {} rows).toIndex ⟨.not (.not e), []⟩ =
      execute H (Writer.addRows H {} rows).toIndex ⟨e, []⟩ := by
  rw [count_correct H rows e hcols hwf hinj,
    count_correct H rows (.not (.not e)) (by simpa [Expr.columns] using hcols)
      (by simpa [Expr.arityPos] using hwf) (by simpa [Expr.pairs] using hinj),
    specCount_not_not]

end exec

section exec2
variable (rows : List Row) (a b : Expr)
  (hca : ∀ c ∈ a.columns, c ∈ columnsOf rows) (hcb : ∀ c ∈ b.columns, c ∈ columnsOf rows)
  (hwa : a.arityPos = true) (hwb : b.arityPos = true)
  (hinj : NoCollision H rows (a.pairs ++ b.pairs))
include hca hcb hwa hwb hinj

/-- **Inclusion–exclusion.** on the real answers: `|a AND b| + |a OR b| = |a| + |b|` -/
theorem execute_and_or :
    ∃ ra rb rand ror,
      execute H (Writer.addRows H {} rows).toIndex ⟨a, []⟩ = some ra ∧
      execute H (Writer.addRows H {} rows).toIndex ⟨b, []⟩ = some rb ∧
      execute H (Writer.addRows H {} rows).toIndex ⟨.and [a, b], []⟩ = some rand ∧
      execute H (Writer.addRows H {} rows).toIndex ⟨.or [a, b], []⟩ = some ror ∧
      rand.count + ror.count = ra.count + rb.count := by
  have hia : NoCollision H rows a.pairs := fun p hp q hq => hinj p hp q (List.mem_append_left _ hq)
  have hib : NoCollision H rows b.pairs := fun p hp q hq => hinj p hp q (List.mem_append_right _ hq)
  have hcols : ∀ c ∈ Expr.columnsList [a, b], c ∈ columnsOf rows := by
    intro c hc
    simp only [Expr.columnsList, List.append_nil, List.mem_append] at hc
    exact hc.elim (hca c) (hcb c)
  have hwf : (!([a, b] : List Expr).isEmpty && Expr.arityPosList [a, b]) = true := by
    simp [Expr.arityPosList, hwa, hwb]
  have hp : Expr.pairsList [a, b] = a.pairs ++ b.pairs := by simp [Expr.pairsList]
  refine ⟨_, _, _, _, count_correct H rows a hca hwa hia, count_correct H rows b hcb hwb hib,
    count_correct H rows (.and [a, b]) (by simpa [Expr.columns] using hcols)
      (by simpa [Expr.arityPos] using hwf) (by simpa [Expr.pairs, hp] using hinj),
    count_correct H rows (.or [a, b]) (by simpa [Expr.columns] using hcols)
      (by simpa [Expr.arityPos] using hwf) (by simpa [Expr.pairs, hp] using hinj),
    specCount_and_or rows a b⟩

end exec2

/-! ### non-vacuity: the concrete dataset of C02 meets the hypotheses -/

example : specCount C02.exRows (.not C02.exExpr) + specCount C02.exRows C02.exExpr = 4 := by decide

end Updog.C01
