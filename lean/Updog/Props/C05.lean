/-
C05 — the disk-backed "big" writer (writer_big.go) produces the same index as the in-memory writer
(writer.go); row ids are consecutive; the result of `WriteToBoltDatabase` does not depend on the Go map
iteration order or on the batch size.
Property theorems only; helper lemmas live in Updog/Proofs/BigWriter.lean and Updog/Proofs/BoltTx.lean.
-/
import Updog.Proofs.BoltTx
namespace Updog.C05
open Updog

/-! ### 1. the 12-byte temp keys -/

theorem be32_roundtrip (n : Nat) (h : n < 2 ^ 32) : beDecode (be32 n) = n := Updog.be32_roundtrip n h
theorem be64_roundtrip (n : Nat) (h : n < 2 ^ 64) : beDecode (be64 n) = n := Updog.be64_roundtrip n h
theorem be32_length (n : Nat) : (be32 n).length = 4 := rfl
theorem be64_length (n : Nat) : (be64 n).length = 8 := rfl

/-- For big-endian strings of equal length the bytewise order is the numeric order. -/
theorem bytesLt_iff_decode_lt (xs ys : Bytes) (hl : xs.length = ys.length) :
    bytesLt xs ys = true ↔ beDecode xs < beDecode ys := by
  rw [bytesLt_eq_decode_lt xs ys hl, decide_eq_true_iff]

/-- The cursor order of the temp bucket is the lexicographic order of (value index, row id). -/
theorem be_key_order (a b i j : Nat) (ha : a < 2 ^ 64) (hb : b < 2 ^ 64) (hi : i < 2 ^ 32) (hj : j < 2 ^ 32) :
    bytesLt (be64 a ++ be32 i) (be64 b ++ be32 j) = true ↔ a < b ∨ (a = b ∧ i < j) :=
  Updog.be_key_order a b i j ha hb hi hj

/-- `Flush` decodes a temp key back to the pair it was built from. -/
theorem key_decode (a i : Nat) (ha : a < 2 ^ 64) (hi : i < 2 ^ 32) :
    beDecode ((be64 a ++ be32 i).take 8) = a ∧ beDecode ((be64 a ++ be32 i).drop 8) = i := by
  have := decKey_tempKey a i ha hi
  simp only [decKey, tempKey, Prod.mk.injEq] at this
  exact this

section
variable (H : Bytes → UInt64)

/-! ### 2. both writers produce the same index -/

/-- Main theorem. For every dataset of at most 2^32 rows and EVERY hash function (collisions and the
value index 0 included), the data bucket written by `BigIndexWriter.Flush` and the map written by
`IndexWriter.Flush` have the same keys and the same bitmap under every key, and the schema `S` and the
row counter `I` are equal. -/
theorem writers_agree (rows : List Row) (hlen : rows.length ≤ 2 ^ 32) :
    (∀ h, ((BigWriter.image H rows).1.get h).getD 0 = ((Writer.addRows H {} rows).vals.get h).getD 0)
    ∧ (∀ h, ((BigWriter.image H rows).1.get h).isSome = ((Writer.addRows H {} rows).vals.get h).isSome)
    ∧ (BigWriter.image H rows).2.1 = (Writer.addRows H {} rows).schema
    ∧ (BigWriter.image H rows).2.2 = (Writer.addRows H {} rows).next := by
  refine ⟨?_, ?_, ?_, ?_⟩
  · intro h
    apply Nat.eq_of_testBit_eq
    intro j
    rw [image_testBit H rows hlen h j, (winv_addRows H rows).vals h j]
  · intro h
    rw [image_isSome H rows hlen h, addRows_isSome]
    simp [ValMap.get]
  · exact big_addRows_schema H rows {} {} rfl
  · show (BigWriter.addRows H {} rows).next = _
    rw [(binv_addRows H rows).next, (winv_addRows H rows).next]

/-- Same statement on the lookups themselves: `values.GetCol` returns the same result on both files. -/
theorem writers_agree_get (rows : List Row) (hlen : rows.length ≤ 2 ^ 32) (h : UInt64) :
    (BigWriter.image H rows).1.get h = (Writer.addRows H {} rows).vals.get h := by
  obtain ⟨h1, h2, _, _⟩ := writers_agree H rows hlen
  have a := h1 h
  have b := h2 h
  cases e1 : (BigWriter.image H rows).1.get h <;> cases e2 : (Writer.addRows H {} rows).vals.get h <;>
    simp_all

/-- The opened indexes are indistinguishable: same schema, same counter, same `GetCol`. -/
theorem writers_agree_index (rows : List Row) (hlen : rows.length ≤ 2 ^ 32) :
    let img := BigWriter.image H rows
    (⟨img.2.1, img.2.2, img.1.get⟩ : Index) = (Writer.addRows H {} rows).toIndex := by
  obtain ⟨_, _, h3, h4⟩ := writers_agree H rows hlen
  simp only [Writer.toIndex, h3, h4]
  congr 1
  funext h
  exact writers_agree_get H rows hlen h

/-- `Flush` of the big writer never takes the "invalid temp key" error branch. -/
theorem big_flush_ok (rows : List Row) :
    (BigWriter.addRows H {} rows).flush = .ok (BigWriter.image H rows) := by
  have inv := binv_addRows H rows
  have : (BigWriter.addRows H {} rows).temp.all (·.length == 12) = true := by
    rw [List.all_eq_true]
    intro k hk
    obtain ⟨h, j, _, e⟩ := (inv.temp k).mp hk
    subst e; rfl
  simp [BigWriter.flush, this, BigWriter.image]

/-- Bit `j` of the bitmap stored under `h` by the big writer is set iff row `j` was added with a pair
whose value index is `h` (the specification both writers meet). -/
theorem big_bitmap_spec (rows : List Row) (hlen : rows.length ≤ 2 ^ 32) (h : UInt64) (j : Nat) :
    (((BigWriter.image H rows).1.get h).getD 0).testBit j = rowHas H rows h j :=
  image_testBit H rows hlen h j

/-! ### 3. row ids -/

/-- The i-th `AddRow` call returns id i, for both writers. -/
theorem addRow_ids (rows : List Row) :
    Writer.addRowsIds H {} rows = List.range rows.length
    ∧ BigWriter.addRowsIds H {} rows = List.range rows.length := by
  constructor
  · rw [addRowsIds_eq]; simp
  · rw [big_addRowsIds_eq]; simp

/-- … and the counter written as `I` is the number of rows. -/
theorem counter_eq (rows : List Row) :
    (Writer.addRows H {} rows).next = rows.length ∧ (BigWriter.image H rows).2.2 = rows.length :=
  ⟨(winv_addRows H rows).next, (binv_addRows H rows).next⟩

end

/-! ### 4. map iteration order and batch size are irrelevant -/

/-- `WriteToBoltDatabase`: for ANY iteration order `perm` of the value map and ANY batch size ≥ 1 the
writer commits `len / batch + 1` transactions and the committed file maps every value index to the
writer's bitmap and carries the writer's schema and counter. -/
theorem flush_order_irrelevant (w : Writer) (hn : KeysNodup w.vals) (perm : ValMap) (hp : perm.Perm w.vals)
    (batch : Nat) (hb : 1 ≤ batch) :
    let txs := writeTxs w.schema w.next perm batch
    txs.length = w.vals.length / batch + 1
    ∧ (∀ h, (imageAfter txs txs.length).vals.get h = w.vals.get h)
    ∧ (imageAfter txs txs.length).schema = some w.schema
    ∧ (imageAfter txs txs.length).counter = some w.next
    ∧ (imageAfter txs txs.length).bucket = true
    ∧ (imageAfter txs txs.length).hasHeader = true := by
  intro txs
  have hlen : txs.length = perm.length / batch + 1 := writeTxs_length _ _ perm batch hb
  have hfull := imageAfter_writeTxs_full w.schema w.next perm batch hb txs.length (by omega)
  have hn' : KeysNodup perm := (List.Perm.map (fun x : UInt64 × Nat => x.1) hp).nodup_iff.mpr hn
  refine ⟨by rw [hlen, hp.length_eq], ?_, congrArg BoltImage.schema hfull, congrArg BoltImage.counter hfull,
    congrArg BoltImage.bucket hfull, congrArg BoltImage.hasHeader hfull⟩
  intro h
  have hv : (imageAfter txs txs.length).vals = perm.foldl (fun (m : ValMap) kb => m.put kb.1 kb.2) [] :=
    congrArg BoltImage.vals hfull
  rw [hv, foldl_put_get perm hn', ValMap.get_perm hp hn]
  simp [ValMap.get]

/-- The map of a writer that was filled by `AddRow` calls has unique keys, so the theorem applies. -/
theorem writer_keys_unique (H : Bytes → UInt64) (rows : List Row) : KeysNodup (Writer.addRows H {} rows).vals :=
  addRows_nodup H rows {} KeysNodup.nil

/-- Two flushes of the same writer with different iteration orders and batch sizes yield files with the
same content. -/
theorem flush_deterministic (w : Writer) (hn : KeysNodup w.vals) (p1 p2 : ValMap)
    (h1 : p1.Perm w.vals) (h2 : p2.Perm w.vals) (b1 b2 : Nat) (hb1 : 1 ≤ b1) (hb2 : 1 ≤ b2) :
    let t1 := writeTxs w.schema w.next p1 b1
    let t2 := writeTxs w.schema w.next p2 b2
    (∀ h, (imageAfter t1 t1.length).vals.get h = (imageAfter t2 t2.length).vals.get h)
    ∧ (imageAfter t1 t1.length).schema = (imageAfter t2 t2.length).schema
    ∧ (imageAfter t1 t1.length).counter = (imageAfter t2 t2.length).counter := by
  intro t1 t2
  obtain ⟨_, a1, a2, a3, _⟩ := flush_order_irrelevant w hn p1 h1 b1 hb1
  obtain ⟨_, c1, c2, c3, _⟩ := flush_order_irrelevant w hn p2 h2 b2 hb2
  exact ⟨fun h => (a1 h).trans (c1 h).symm, a2.trans c2.symm, a3.trans c3.symm⟩

/-- The single output transaction of the big writer leaves exactly `image` in the file. -/
theorem big_flush_image (H : Bytes → UInt64) (rows : List Row) :
    let w := BigWriter.addRows H {} rows
    w.flushTxs.length = 1
    ∧ (∀ h, (imageAfter w.flushTxs 1).vals.get h = (BigWriter.image H rows).1.get h)
    ∧ (imageAfter w.flushTxs 1).schema = some (BigWriter.image H rows).2.1
    ∧ (imageAfter w.flushTxs 1).counter = some (BigWriter.image H rows).2.2 := by
  intro w
  have hfull := imageAfter_flushTxs_one w 1 (Nat.le_refl 1)
  refine ⟨rfl, ?_, congrArg BoltImage.schema hfull, congrArg BoltImage.counter hfull⟩
  intro h
  have hv : (imageAfter w.flushTxs 1).vals = w.flushCore.1.foldl (fun (m : ValMap) kb => m.put kb.1 kb.2) [] :=
    congrArg BoltImage.vals hfull
  rw [hv, foldl_put_get w.flushCore.1 (show KeysNodup w.flushCore.1 from walk_nodup _)]
  simp [ValMap.get, BigWriter.image, w]

/-! ### 6. non-vacuity -/

/-- a dataset: three rows, the pair (1,2) occurs in two rows -/
def rows : List Row := [[([1], [2]), ([3], [4])], [([1], [2])], [([3], [5]), ([1], [7])]]

/-- constant hash: all pairs collide and the value index is 0 (`bm == nil ||` guard) -/
def H0 : Bytes → UInt64 := fun _ => 0

/-- toy hash with three value indexes, assigned in decreasing order of first use -/
def Hr : Bytes → UInt64 := fun b => 2 - (beDecode b).toUInt64 % 3

theorem temp_H0 : (BigWriter.addRows H0 {} rows).temp
    = [[0,0,0,0,0,0,0,0,0,0,0,0], [0,0,0,0,0,0,0,0,0,0,0,1], [0,0,0,0,0,0,0,0,0,0,0,2]] := by decide

theorem temp_Hr : (BigWriter.addRows Hr {} rows).temp
    = [[0,0,0,0,0,0,0,2,0,0,0,0], [0,0,0,0,0,0,0,1,0,0,0,0], [0,0,0,0,0,0,0,2,0,0,0,1],
       [0,0,0,0,0,0,0,0,0,0,0,2]] := by decide

/-- the cursor really reorders the keys -/
theorem sort_Hr : sortKeys (BigWriter.addRows Hr {} rows).temp
    = [[0,0,0,0,0,0,0,0,0,0,0,2], [0,0,0,0,0,0,0,1,0,0,0,0], [0,0,0,0,0,0,0,2,0,0,0,0],
       [0,0,0,0,0,0,0,2,0,0,0,1]] := by
  rw [temp_Hr]
  simp [sortKeys, List.mergeSort, List.MergeSort.Internal.splitInTwo, bytesLe, bytesLt]

theorem sort_H0 : sortKeys (BigWriter.addRows H0 {} rows).temp
    = [[0,0,0,0,0,0,0,0,0,0,0,0], [0,0,0,0,0,0,0,0,0,0,0,1], [0,0,0,0,0,0,0,0,0,0,0,2]] := by
  rw [temp_H0]
  simp [sortKeys, List.mergeSort, List.MergeSort.Internal.splitInTwo, bytesLe, bytesLt]

/-- value index 0 with collisions: one bitmap {0,1,2} under key 0 in both writers -/
example : (BigWriter.image H0 rows).1 = [(0, 7)] ∧ (Writer.addRows H0 {} rows).vals = [(0, 7)] := by
  constructor
  · show walk (sortKeys (BigWriter.addRows H0 {} rows).temp) = _
    rw [sort_H0]; decide
  · decide

/-- the two writers store the entries in different orders (first use vs. ascending key), which is why
`writers_agree` is stated on lookups -/
example : (BigWriter.image Hr rows).1 = [(0, 4), (1, 1), (2, 3)]
    ∧ (Writer.addRows Hr {} rows).vals = [(2, 3), (1, 1), (0, 4)] := by
  constructor
  · show walk (sortKeys (BigWriter.addRows Hr {} rows).temp) = _
    rw [sort_Hr]; decide
  · decide

/-- schema and counter agree literally -/
example : (BigWriter.image Hr rows).2 = ((Writer.addRows Hr {} rows).schema, (Writer.addRows Hr {} rows).next) := by
  decide

/-- the hypotheses of `writers_agree` hold for the concrete dataset -/
example : ∀ h, (BigWriter.image Hr rows).1.get h = (Writer.addRows Hr {} rows).vals.get h :=
  writers_agree_get Hr rows (by decide)

/-- `flush_order_irrelevant` on a concrete writer: reversed iteration order, batch size 2 → two
transactions, the first without header -/
example :
    let w := Writer.addRows Hr {} rows
    writeTxs w.schema w.next w.vals.reverse 2
      = [[.val 0 4, .val 1 1], [.val 2 3, .schema w.schema, .counter 3]] := by
  decide

example : (Writer.addRows Hr {} rows).vals.reverse.Perm (Writer.addRows Hr {} rows).vals :=
  List.reverse_perm _

example : Writer.addRowsIds Hr {} rows = [0, 1, 2] ∧ BigWriter.addRowsIds Hr {} rows = [0, 1, 2] := by
  decide

end Updog.C05
