/-
C11 — placeholder binding is exact and prepared statements are reusable.
-/
import Updog.Model.Formatter
namespace Updog.C11
open Updog

/-- tree shape without the leaves' contents -/
inductive Shape where
  | leaf
  | not (s : Shape)
  | and (ss : List Shape)
  | or (ss : List Shape)

mutual
def shape : PExpr → Shape
  | .eq _ _ _ => .leaf
  | .not e => .not (shape e)
  | .and es => .and (shapes es)
  | .or es => .or (shapes es)
def shapes : List PExpr → List Shape
  | [] => []
  | e :: es => shape e :: shapes es
end

mutual
/-- the leaves left to right: (column, value, placeholder) -/
def leaves : PExpr → List (Bytes × Bytes × Nat)
  | .eq c v ph => [(c, v, ph)]
  | .not e => leaves e
  | .and es => leavesL es
  | .or es => leavesL es
def leavesL : List PExpr → List (Bytes × Bytes × Nat)
  | [] => []
  | e :: es => leaves e ++ leavesL es
end

/-- what binding does to one leaf: `$n` becomes the n-th argument, a literal stays -/
def bindLeaf (args : List Bytes) (l : Bytes × Bytes × Nat) : Bytes × Bytes × Nat :=
  (l.1, if l.2.2 > 0 then args.getD (l.2.2 - 1) [] else l.2.1, 0)

mutual
theorem subst_shape (args : List Bytes) (e : PExpr) : shape (subst args e) = shape e := by
  match e with
  | .eq c v ph => simp only [subst]; split <;> rfl
  | .not e' => simp [subst, shape, subst_shape args e']
  | .and es => simp [subst, shape, substList_shapes args es]
  | .or es => simp [subst, shape, substList_shapes args es]
theorem substList_shapes (args : List Bytes) (es : List PExpr) : shapes (substList args es) = shapes es := by
  match es with
  | [] => rfl
  | e :: es' => simp [substList, shapes, subst_shape args e, substList_shapes args es']
end

mutual
/-- binding replaces every placeholder `$n` by the n-th argument and changes nothing else -/
theorem subst_leaves (args : List Bytes) (e : PExpr) : leaves (subst args e) = (leaves e).map (bindLeaf args) := by
  match e with
  | .eq c v ph => simp only [subst, leaves, bindLeaf, List.map]; split <;> simp_all [leaves]
  | .not e' => simp [subst, leaves, subst_leaves args e']
  | .and es => simp [subst, leaves, substList_leaves args es]
  | .or es => simp [subst, leaves, substList_leaves args es]
theorem substList_leaves (args : List Bytes) (es : List PExpr) :
    leavesL (substList args es) = (leavesL es).map (bindLeaf args) := by
  match es with
  | [] => rfl
  | e :: es' => simp [substList, leavesL, subst_leaves args e, substList_leaves args es']
end

mutual
/-- no placeholder is left after binding -/
theorem subst_no_placeholder (args : List Bytes) (e : PExpr) : maxPh (subst args e) = 0 := by
  match e with
  | .eq c v ph => simp only [subst]; split <;> rfl
  | .not e' => simp [subst, maxPh, subst_no_placeholder args e']
  | .and es => simp [subst, maxPh, substList_no_placeholder args es]
  | .or es => simp [subst, maxPh, substList_no_placeholder args es]
theorem substList_no_placeholder (args : List Bytes) (es : List PExpr) : maxPhList (substList args es) = 0 := by
  match es with
  | [] => rfl
  | e :: es' => simp [substList, maxPhList, subst_no_placeholder args e, substList_no_placeholder args es']
end

mutual
/-- `NumInput` is the highest placeholder number among the leaves -/
theorem maxPh_spec (e : PExpr) : maxPh e = ((leaves e).map (·.2.2)).foldr max 0 := by
  match e with
  | .eq c v ph => simp [maxPh, leaves]
  | .not e' => simp [maxPh, leaves, maxPh_spec e']
  | .and es => simp [maxPh, leaves, maxPhList_spec es]
  | .or es => simp [maxPh, leaves, maxPhList_spec es]
theorem maxPhList_spec (es : List PExpr) : maxPhList es = ((leavesL es).map (·.2.2)).foldr max 0 := by
  match es with
  | [] => rfl
  | e :: es' =>
    simp only [maxPhList, leavesL, maxPh_spec e, maxPhList_spec es', List.map_append, List.foldr_append]
    generalize ((leavesL es').map (·.2.2)).foldr max 0 = m
    induction (leaves e).map (·.2.2) with
    | nil => simp
    | cons a t ih => simp only [List.foldr_cons, ← ih]; omega
end

/-- with enough arguments binding succeeds with the exact substitution -/
theorem bind_exact (q : PQuery) (args : List Bytes) (h : maxPh q.expr ≤ args.length) :
    bind q args = .ok ⟨subst args q.expr, q.groupBy⟩ := by
  simp [bind, Nat.not_lt.mpr h]

/-- fewer arguments than the highest placeholder number: an error, never a panic, never a different query -/
theorem bind_too_few (q : PQuery) (args : List Bytes) (h : args.length < maxPh q.expr) : bind q args = .error := by
  simp [bind, h]

theorem bind_never_panics (q : PQuery) (args : List Bytes) : bind q args ≠ .panic ∧ bind q args ≠ .hang := by
  unfold bind; split <;> simp

/-- every placeholder that occurs is within the argument list when binding succeeds, so `getD`'s default is never used -/
theorem bound_leaf_in_range (q : PQuery) (args : List Bytes) (h : maxPh q.expr ≤ args.length)
    (l : Bytes × Bytes × Nat) (hl : l ∈ leaves q.expr) (hp : l.2.2 > 0) :
    ∃ a, args[l.2.2 - 1]? = some a ∧ (bindLeaf args l).2.1 = a := by
  have hle : l.2.2 ≤ maxPh q.expr := by
    rw [maxPh_spec]
    have : l.2.2 ∈ (leaves q.expr).map (·.2.2) := List.mem_map.mpr ⟨l, hl, rfl⟩
    generalize (leaves q.expr).map (·.2.2) = xs at this
    induction xs with
    | nil => simp at this
    | cons a t ih =>
      simp only [List.foldr_cons]
      rcases List.mem_cons.mp this with h | h
      · omega
      · have := ih h; omega
  have hi : l.2.2 - 1 < args.length := by omega
  refine ⟨args[l.2.2 - 1], List.getElem?_eq_getElem hi, ?_⟩
  simp [bindLeaf, hp, List.getD_eq_getElem?_getD, List.getElem?_eq_getElem hi]

mutual
/-- surplus arguments are ignored -/
theorem subst_extra_args (args extra : List Bytes) (e : PExpr) (h : maxPh e ≤ args.length) :
    subst (args ++ extra) e = subst args e := by
  match e with
  | .eq c v ph =>
    simp only [maxPh] at h
    simp only [subst]
    split
    · rename_i hp
      have : ph - 1 < args.length := by omega
      simp [List.getD_eq_getElem?_getD, List.getElem?_append_left this]
    · rfl
  | .not e' => simp [subst, subst_extra_args args extra e' (by simpa [maxPh] using h)]
  | .and es => simp [subst, substList_extra_args args extra es (by simpa [maxPh] using h)]
  | .or es => simp [subst, substList_extra_args args extra es (by simpa [maxPh] using h)]
theorem substList_extra_args (args extra : List Bytes) (es : List PExpr) (h : maxPhList es ≤ args.length) :
    substList (args ++ extra) es = substList args es := by
  match es with
  | [] => rfl
  | e :: es' =>
    simp only [maxPhList] at h
    simp [substList, subst_extra_args args extra e (by omega), substList_extra_args args extra es' (by omega)]
end

/-- a prepared statement can be executed any number of times: binding is a function of the parsed query and the
    arguments only, and the parsed query is not changed by it (it is an argument, never an output) -/
theorem prepared_reusable (q : PQuery) (argss : List (List Bytes)) :
    argss.map (bind q) = argss.map fun args =>
      if maxPh q.expr > args.length then .error else .ok ⟨subst args q.expr, q.groupBy⟩ := rfl

example : bind ⟨.and [.eq [97] [] 2, .eq [98] [120] 0, .eq [99] [] 1], []⟩ [[49], [50]]
    = .ok ⟨.and [.eq [97] [50] 0, .eq [98] [120] 0, .eq [99] [49] 0], []⟩ := by
  simp [bind, maxPh, maxPhList, subst, substList]
example : bind ⟨.eq [97] [] 2, []⟩ [[49]] = .error := by simp [bind, maxPh]

end Updog.C11
