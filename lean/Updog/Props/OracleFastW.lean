/-
The hash-map based index builder of the compiled oracle (`Updog.Oracle.FastW`) computes the same index as the
list-based model writer (`Writer.addRows xxhash64`).
-/
import Updog.Oracle.Idx
import Updog.Props.OracleFast
import Std.Data.HashMap.Lemmas
namespace Updog.OracleFastW
open Updog Updog.Oracle

theorem natOfIdsArray_push (a : Array Nat) (i : Nat) :
    natOfIdsArray (a.push i) = setBit (natOfIdsArray a) i := by
  unfold natOfIdsArray
  rw [OracleFast.natOfIdsArray_eq, OracleFast.natOfIdsArray_eq]
  simp [List.foldl_append]

theorem natOfIdsArray_single (i : Nat) : natOfIdsArray #[i] = setBit 0 i := by
  unfold natOfIdsArray
  rw [OracleFast.natOfIdsArray_eq]
  simp

theorem get_addBit (m : ValMap) (h h' : UInt64) (i : Nat) :
    (m.addBit h i).get h' = if h = h' then some (setBit ((m.get h).getD 0) i) else m.get h' := by
  induction m with
  | nil => simp [ValMap.addBit, ValMap.get]
  | cons p rest ih =>
    obtain ⟨k, b⟩ := p
    by_cases hk : k = h
    · subst hk
      by_cases hh : k = h'
      · subst hh; simp [ValMap.addBit, ValMap.get]
      · simp [ValMap.addBit, ValMap.get, hh]
    · by_cases hh : k = h'
      · subst hh
        have : ¬ h = k := fun e => hk e.symm
        simp [ValMap.addBit, ValMap.get, hk, this]
      · simp [ValMap.addBit, ValMap.get, hk, hh, ih]

/-! ### the bitmaps -/

def idsF (next : Nat) : Option (Array Nat) → Option (Array Nat)
  | none => some #[next]
  | some a => some (a.push next)

theorem addPair_ids (fw : FastW) (kv : Bytes × Bytes) :
    (fw.addPair kv).ids = fw.ids.alter (xxhash64 (encodePair kv.1 kv.2)) (idsF fw.next) := by
  unfold FastW.addPair idsF
  by_cases hs : fw.seen.contains (kv.1, kv.2) <;> simp [hs] <;>
    (congr 1)

theorem addPair_next (fw : FastW) (kv : Bytes × Bytes) : (fw.addPair kv).next = fw.next := by
  unfold FastW.addPair
  by_cases hs : fw.seen.contains (kv.1, kv.2) <;> simp [hs]

def IdsInv (fw : FastW) (w : Writer) : Prop :=
  ∀ h, (fw.ids[h]?).map natOfIdsArray = w.vals.get h

theorem idsInv_addPair (fw : FastW) (w : Writer) (i : Nat) (hi : fw.next = i) (kv : Bytes × Bytes)
    (inv : IdsInv fw w) : IdsInv (fw.addPair kv) (Writer.addPair xxhash64 i w kv) := by
  intro h
  rw [addPair_ids, Std.HashMap.getElem?_alter]
  simp only [Writer.addPair, get_addBit, beq_iff_eq, hi]
  split
  · rw [← inv]
    cases fw.ids[xxhash64 (encodePair kv.1 kv.2)]? <;>
      simp [idsF, natOfIdsArray_push, natOfIdsArray_single]
  · exact inv h

/-! ### the schema -/

theorem col_add (s : Schema) (k v : Bytes) (h : UInt64) (k' : Bytes) :
    (s.add k v h).col k' = if k = k' then some (addVal ((s.col k).getD []) v h) else s.col k' := by
  induction s with
  | nil => simp [Schema.add, Schema.col, addVal]
  | cons p rest ih =>
    obtain ⟨c, vs⟩ := p
    by_cases hk : c = k
    · subst hk
      by_cases hh : c = k'
      · subst hh; simp [Schema.add, Schema.col]
      · simp [Schema.add, Schema.col, hh]
    · by_cases hh : c = k'
      · subst hh
        have : ¬ k = c := fun e => hk e.symm
        simp [Schema.add, Schema.col, hk, this]
      · simp [Schema.add, Schema.col, hk, hh, ih]

theorem keys_add (s : Schema) (k v : Bytes) (h : UInt64) :
    (s.add k v h).map (·.1) = if (s.col k).isSome then s.map (·.1) else s.map (·.1) ++ [k] := by
  induction s with
  | nil => simp [Schema.add, Schema.col]
  | cons p rest ih =>
    obtain ⟨c, vs⟩ := p
    by_cases hk : c = k
    · subst hk; simp [Schema.add, Schema.col]
    · simp only [Schema.add, Schema.col, beq_iff_eq, hk, if_false, List.map_cons, ih]
      split <;> simp

theorem col_eq_none_iff (s : Schema) (k : Bytes) : s.col k = none ↔ k ∉ s.map (·.1) := by
  induction s with
  | nil => simp [Schema.col]
  | cons p rest ih =>
    obtain ⟨c, vs⟩ := p
    by_cases hk : c = k
    · subst hk; simp [Schema.col]
    · have : ¬ k = c := fun e => hk e.symm
      simp [Schema.col, hk, ih, this]

theorem schema_eq_of_nodup (s : Schema) (hn : (s.map (·.1)).Nodup) :
    (s.map (·.1)).map (fun c => (c, (s.col c).getD [])) = s := by
  induction s with
  | nil => rfl
  | cons p rest ih =>
    obtain ⟨c, vs⟩ := p
    simp only [List.map_cons, List.nodup_cons] at hn
    simp only [List.map_cons, Schema.col, beq_self_eq_true, if_true, Option.getD_some]
    congr 1
    refine Eq.trans ?_ (ih hn.2)
    apply List.map_congr_left
    intro q hq
    have hne : ¬ c = q := by
      intro e; apply hn.1; rw [e]; exact hq
    simp [hne]

structure Inv (fw : FastW) (w : Writer) : Prop where
  ids : IdsInv fw w
  next : fw.next = w.next
  cols : fw.cols.toList = w.schema.map (·.1)
  nodup : (w.schema.map (·.1)).Nodup
  colVals : ∀ k, (fw.colVals[k]?).map Array.toList = w.schema.col k
  seen : ∀ k v, fw.seen.contains (k, v) = ((w.schema.col k).getD []).any (·.1 == v)

theorem inv_empty : Inv {} {} := by
  constructor
  · intro h; simp [ValMap.get]
  · rfl
  · rfl
  · simp
  · intro k; simp [Schema.col]
  · intro k v; simp [Schema.col]

def cvF (v : Bytes) (h : UInt64) : Option (Array (Bytes × UInt64)) → Option (Array (Bytes × UInt64))
  | none => some #[(v, h)]
  | some a => some (a.push (v, h))

theorem addPair_seen_true (fw : FastW) (kv : Bytes × Bytes) (hs : fw.seen.contains (kv.1, kv.2) = true) :
    (fw.addPair kv).seen = fw.seen ∧ (fw.addPair kv).colVals = fw.colVals ∧
    (fw.addPair kv).cols = fw.cols := by
  unfold FastW.addPair; simp [hs]

theorem addPair_seen_false (fw : FastW) (kv : Bytes × Bytes) (hs : fw.seen.contains (kv.1, kv.2) = false) :
    (fw.addPair kv).seen = fw.seen.insert (kv.1, kv.2) () ∧
    (fw.addPair kv).colVals = fw.colVals.alter kv.1 (cvF kv.2 (xxhash64 (encodePair kv.1 kv.2))) ∧
    (fw.addPair kv).cols = if fw.colVals.contains kv.1 then fw.cols else fw.cols.push kv.1 := by
  unfold FastW.addPair cvF; simp [hs]; congr 1

theorem inv_addPair (fw : FastW) (w : Writer) (kv : Bytes × Bytes) (inv : Inv fw w) :
    Inv (fw.addPair kv) (Writer.addPair xxhash64 w.next w kv) := by
  have hseen := inv.seen kv.1 kv.2
  have hcv := inv.colVals kv.1
  have hids := idsInv_addPair fw w _ inv.next kv inv.ids
  have hnext := (addPair_next fw kv).trans inv.next
  have hcols := inv.cols
  have hnd := inv.nodup
  have hcvs := inv.colVals
  have hsn := inv.seen
  cases hs : fw.seen.contains (kv.1, kv.2)
  · obtain ⟨e1, e2, e3⟩ := addPair_seen_false fw kv hs
    rw [hs] at hseen
    have hcol : ∀ h k', (w.schema.add kv.1 kv.2 h).col k' =
        if kv.1 = k' then some ((w.schema.col kv.1).getD [] ++ [(kv.2, h)]) else w.schema.col k' := by
      intro h k'; rw [col_add]; simp [addVal, ← hseen]
    have hc : fw.colVals.contains kv.1 = (w.schema.col kv.1).isSome := by
      rw [Std.HashMap.contains_eq_isSome_getElem?, ← hcv]; simp
    refine ⟨hids, hnext, ?_, ?_, ?_, ?_⟩
    all_goals simp only [Writer.addPair]
    · rw [e3, keys_add, hc]
      cases (w.schema.col kv.1).isSome <;> simp [hcols]
    · rw [keys_add]
      cases hc' : (w.schema.col kv.1).isSome
      · have : w.schema.col kv.1 = none := by simpa using hc'
        have hnot := (col_eq_none_iff _ _).1 this
        simp only [Bool.false_eq_true, if_false]
        rw [List.nodup_append]
        refine ⟨hnd, by simp, ?_⟩
        intro a ha b hb e
        simp at hb; subst hb; subst e; exact hnot ha
      · simpa using hnd
    · intro k'
      rw [e2, hcol, Std.HashMap.getElem?_alter]
      simp only [beq_iff_eq]
      split
      · rw [← hcv]
        cases fw.colVals[kv.1]? <;> simp [cvF]
      · exact hcvs k'
    · intro k' v'
      rw [e1, hcol, Std.HashMap.contains_insert, hsn]
      by_cases hk : kv.1 = k'
      · subst hk
        by_cases hv : kv.2 = v'
        · simp [hv]
        · have hp : ((kv.1, kv.2) == (kv.1, v')) = false :=
            beq_eq_false_iff_ne.2 (fun e => hv (Prod.mk.inj e).2)
          have hv' : (kv.2 == v') = false := beq_eq_false_iff_ne.2 hv
          simp [hp, hv']
      · simp [hk]
  · obtain ⟨e1, e2, e3⟩ := addPair_seen_true fw kv hs
    rw [hs] at hseen
    have hsome : (w.schema.col kv.1).isSome = true := by
      cases hc : w.schema.col kv.1
      · simp [hc] at hseen
      · rfl
    have hcol : ∀ h k', (w.schema.add kv.1 kv.2 h).col k' = w.schema.col k' := by
      intro h k'
      rw [col_add]
      split
      · next hk =>
        subst hk
        cases hc : w.schema.col kv.1 with
        | none => simp [hc] at hsome
        | some vs => simp [hc] at hseen; simp [addVal, hseen]
      · rfl
    refine ⟨hids, hnext, ?_, ?_, ?_, ?_⟩
    all_goals simp only [Writer.addPair]
    · rw [e3, keys_add, hsome]; exact hcols
    · rw [keys_add, hsome]; exact hnd
    · intro k'
      rw [e2, hcol, hcvs]
    · intro k' v'
      rw [e1, hcol, hsn]

theorem inv_foldPairs (r : Row) (i : Nat) : ∀ (fw : FastW) (w : Writer), Inv fw w → w.next = i →
    Inv (r.foldl FastW.addPair fw) (r.foldl (Writer.addPair xxhash64 i) w) ∧
      (r.foldl (Writer.addPair xxhash64 i) w).next = i := by
  induction r with
  | nil => intro fw w inv hi; exact ⟨inv, hi⟩
  | cons kv r ih =>
    intro fw w inv hi
    simp only [List.foldl_cons]
    apply ih
    · rw [← hi]; exact inv_addPair fw w kv inv
    · exact hi

theorem inv_addRow (fw : FastW) (w : Writer) (r : Row) (inv : Inv fw w) :
    Inv (fw.addRow r) (Writer.addRow xxhash64 w r) := by
  obtain ⟨h, _⟩ := inv_foldPairs r w.next fw w inv rfl
  unfold FastW.addRow Writer.addRow
  exact ⟨h.ids, by simp [inv.next], h.cols, h.nodup, h.colVals, h.seen⟩

theorem inv_addRows (rows : List Row) : ∀ (fw : FastW) (w : Writer), Inv fw w →
    Inv (rows.foldl FastW.addRow fw) (Writer.addRows xxhash64 w rows) := by
  induction rows with
  | nil => intro fw w inv; exact inv
  | cons r rows ih =>
    intro fw w inv
    simp only [List.foldl_cons, Writer.addRows]
    exact ih _ _ (inv_addRow fw w r inv)

/-! ### the fold in `FastW.toIndex` -/

theorem foldl_insert_not_mem {V : Type} (g : V → Nat) (h : UInt64) :
    ∀ (l : List (UInt64 × V)) (m0 : Std.HashMap UInt64 Nat), (∀ p ∈ l, p.1 ≠ h) →
      (l.foldl (fun m p => m.insert p.1 (g p.2)) m0)[h]? = m0[h]? := by
  intro l
  induction l with
  | nil => intro m0 _; rfl
  | cons p l ih =>
    intro m0 hne
    simp only [List.foldl_cons]
    rw [ih _ (fun q hq => hne q (List.mem_cons_of_mem _ hq)), Std.HashMap.getElem?_insert]
    have := hne p (List.mem_cons_self ..)
    simp [this]

theorem foldl_insert_mem {V : Type} (g : V → Nat) (h : UInt64) (a : V) :
    ∀ (l : List (UInt64 × V)) (m0 : Std.HashMap UInt64 Nat),
      l.Pairwise (fun p q => (p.1 == q.1) = false) → (h, a) ∈ l →
      (l.foldl (fun m p => m.insert p.1 (g p.2)) m0)[h]? = some (g a) := by
  intro l
  induction l with
  | nil => intro m0 _ hm; cases hm
  | cons p l ih =>
    intro m0 hd hm
    simp only [List.foldl_cons]
    rw [List.pairwise_cons] at hd
    rcases List.mem_cons.1 hm with e | hm'
    · subst e
      rw [foldl_insert_not_mem g h l _ (fun q hq e => by
        have := hd.1 q hq; simp [e] at this)]
      simp
    · exact ih _ hd.2 hm'

theorem fold_getElem? (ids : Std.HashMap UInt64 (Array Nat)) (h : UInt64) :
    (ids.fold (fun m h a => m.insert h (natOfIdsArray a)) ({} : Std.HashMap UInt64 Nat))[h]? =
      (ids[h]?).map natOfIdsArray := by
  rw [Std.HashMap.fold_eq_foldl_toList]
  cases hc : ids[h]? with
  | none =>
    rw [foldl_insert_not_mem natOfIdsArray h]
    · simp
    · intro p hp e
      have : (p.1, p.2) ∈ ids.toList := hp
      rw [Std.HashMap.mem_toList_iff_getElem?_eq_some, e, hc] at this
      cases this
  | some a =>
    have hm : (h, a) ∈ ids.toList := Std.HashMap.mem_toList_iff_getElem?_eq_some.2 hc
    rw [foldl_insert_mem natOfIdsArray h a _ _ Std.HashMap.distinct_keys_toList hm]
    rfl

theorem fastW_toIndex_eq (rows : List Row) :
    let fw := rows.foldl Oracle.FastW.addRow {}
    let w  := Writer.addRows xxhash64 {} rows
    fw.toIndex.schema = w.toIndex.schema ∧ fw.toIndex.next = w.toIndex.next ∧
    ∀ h, fw.toIndex.getCol h = w.toIndex.getCol h := by
  intro fw w
  have inv : Inv fw w := inv_addRows rows {} {} inv_empty
  refine ⟨?_, inv.next, ?_⟩
  · show fw.cols.toList.map (fun c => (c, (fw.colVals.getD c #[]).toList)) = w.schema
    rw [inv.cols]
    refine Eq.trans ?_ (schema_eq_of_nodup w.schema inv.nodup)
    apply List.map_congr_left
    intro c _
    rw [Std.HashMap.getD_eq_getD_getElem?, ← inv.colVals c]
    cases fw.colVals[c]? <;> simp
  · intro h
    show (fw.ids.fold (fun m h a => m.insert h (natOfIdsArray a)) ({} : Std.HashMap UInt64 Nat))[h]? = w.vals.get h
    rw [fold_getElem?]
    exact inv.ids h

/-- as one equation between index values: everything the oracle computes from the fast-built index
(`execute`, `GetSchema`, the row count) is computed from the model's written-and-opened index -/
theorem fastW_toIndex_eq_model (rows : List Row) :
    (rows.foldl Oracle.FastW.addRow {}).toIndex = (Writer.addRows xxhash64 {} rows).toIndex := by
  obtain ⟨h1, h2, h3⟩ := fastW_toIndex_eq rows
  have h3' : (rows.foldl Oracle.FastW.addRow {}).toIndex.getCol =
      (Writer.addRows xxhash64 {} rows).toIndex.getCol := funext h3
  cases hf : (rows.foldl Oracle.FastW.addRow {}).toIndex
  cases hw : (Writer.addRows xxhash64 {} rows).toIndex
  rw [hf, hw] at h1 h2 h3'
  simp only at h1 h2 h3'
  rw [h1, h2, h3']

/-- sanity on a concrete dataset (a repeated pair, a shared column) -/
example : ([[([97], [49]), ([97], [49])], [([97], [50]), ([98], [49])]].foldl Oracle.FastW.addRow {}).toIndex.next = 2 := by
  rw [fastW_toIndex_eq_model]; rfl

end Updog.OracleFastW
