/-
C02 — the group-by result is exactly SQL `GROUP BY` with `COUNT(*) > 0`, in sorted order.
Property theorems only; helper lemmas live in Updog/Proofs (Schema, Sort, GroupBy).
-/
import Updog.Proofs.GroupBy
import Updog.Props.C01
namespace Updog.C02
open Updog

variable (H : Bytes → UInt64)

/-- the groups of the specification, when every group-by column occurs in the data -/
theorem specGroups_eq (rows : List Row) (e : Expr) (cols : List Bytes)
    (hg : ∀ c ∈ cols, c ∈ columnsOf rows) :
    specGroups rows e cols = some (if cols.isEmpty then [] else
      (product (cols.map fun c => (c, sortedDistinct rows c))).filterMap fun t =>
        let n := groupCount rows e t
        if n = 0 then none else some (t, n)) := by
  unfold specGroups
  have h1 : (cols.any fun c => !(columnsOf rows).contains c) = false := by
    rw [List.any_eq_false]
    intro c hc
    simpa using hg c hc
  rw [h1]
  cases cols <;> rfl

/-- **Main theorem.** For every dataset, every well-formed expression over columns of the data, every
group-by list (any length, repetitions allowed) of columns of the data, and every hash without a collision
between a data pair and a different tested pair or between two different data pairs: `Execute` on the
flushed-and-opened index returns exactly the answer of the specification — the total count and
`SELECT cols, COUNT(*) … GROUP BY cols HAVING COUNT(*) > 0 ORDER BY cols`. -/
theorem groupBy_eq_spec (rows : List Row) (e : Expr) (cols : List Bytes)
    (hcols : ∀ c ∈ e.columns, c ∈ columnsOf rows) (hwf : e.arityPos = true)
    (hinj : NoCollision H rows e.pairs) (hD : DataNoCollision H rows)
    (hg : ∀ c ∈ cols, c ∈ columnsOf rows) :
    execute H (Writer.addRows H {} rows).toIndex ⟨e, cols⟩ = specExecute rows ⟨e, cols⟩ := by
  obtain ⟨b, hb, hbits⟩ := eval_correct H rows e hcols hwf hinj
  obtain ⟨fields, hf, hmap, hok⟩ := populateGroupBy_some H rows cols hg
  have hcount : popcount b = specCount rows e :=
    popcount_eq_filter_length b rows (fun r => sat r e) hbits
  have hspec1 : (e.columns.any fun c => !(columnsOf rows).contains c) = false := by
    rw [List.any_eq_false]
    intro c hc
    simpa using hcols c hc
  simp only [specExecute, hspec1, specGroups_eq rows e cols hg]
  simp only [execute, Writer.toIndex] at hf hb ⊢
  rw [hf]
  simp only [hb, hcount]
  congr 2
  cases cols with
  | nil =>
    have : fields = [] := by simpa using hmap
    subst this; rfl
  | cons c cols =>
    have hne : fields ≠ [] := by intro h; subst h; simp at hmap
    have := groupBy_eq H (Writer.addRows H {} rows).toIndex fields hok hne b
    simp only [Writer.toIndex] at this
    rw [this, hmap]
    simp only [List.isEmpty_cons, Bool.false_eq_true, if_false]
    apply filterMap_congr'
    intro t ht
    have htp : ∀ p ∈ t, p ∈ pairsOf rows := by
      intro p hp
      have := ((mem_product_map (sortedDistinct rows) (c :: cols) t).mp ht).2 p hp
      exact mem_sortedDistinct.mp this
    have := popcount_tupleBm H rows hD e b hbits t htp
    simp only [Writer.toIndex] at this
    simp only [this]

/-- explicit form of the main theorem: the count is the number of satisfying rows, the groups are
the specification's groups -/
theorem execute_eq_some (rows : List Row) (e : Expr) (cols : List Bytes)
    (hcols : ∀ c ∈ e.columns, c ∈ columnsOf rows) (hwf : e.arityPos = true)
    (hinj : NoCollision H rows e.pairs) (hD : DataNoCollision H rows)
    (hg : ∀ c ∈ cols, c ∈ columnsOf rows) :
    ∃ groups, specGroups rows e cols = some groups ∧
      execute H (Writer.addRows H {} rows).toIndex ⟨e, cols⟩ = some ⟨specCount rows e, groups⟩ := by
  rw [groupBy_eq_spec H rows e cols hcols hwf hinj hD hg]
  have hspec1 : (e.columns.any fun c => !(columnsOf rows).contains c) = false := by
    rw [List.any_eq_false]
    intro c hc
    simpa using hcols c hc
  simp only [specExecute, hspec1, specGroups_eq rows e cols hg]
  exact ⟨_, rfl, rfl⟩

/-- A group-by column that occurs in no row makes `Execute` fail (whatever the expression). -/
theorem unknown_groupby_column_errors (rows : List Row) (e : Expr) (cols : List Bytes) (c : Bytes)
    (hc : c ∈ cols) (hno : c ∉ columnsOf rows) :
    execute H (Writer.addRows H {} rows).toIndex ⟨e, cols⟩ = none := by
  have := populateGroupBy_none (Writer.addRows H {} rows).schema cols c hc
    ((schema_col_none_iff H rows c).mpr hno)
  simp only [execute, Writer.toIndex] at this ⊢
  rw [this]

/-- Without group-by columns there are no groups (not one group with the empty tuple). -/
theorem empty_groupby_no_groups (ix : Index) (e : Expr) (res : Result)
    (h : execute H ix ⟨e, []⟩ = some res) : res.groups = [] := by
  simp only [execute, populateGroupBy] at h
  cases hev : eval H ix e with
  | none => rw [hev] at h; simp at h
  | some bm =>
    rw [hev] at h
    simp only [Option.some.injEq] at h
    rw [← h]; rfl

/-! ### the SQL reading of the result, independent of `product` -/

section sql
variable (rows : List Row) (e : Expr) (cols : List Bytes)
  (hcols : ∀ c ∈ e.columns, c ∈ columnsOf rows) (hwf : e.arityPos = true)
  (hinj : NoCollision H rows e.pairs) (hD : DataNoCollision H rows)
  (hg : ∀ c ∈ cols, c ∈ columnsOf rows) (hne : cols ≠ [])
  (res : Result) (hres : execute H (Writer.addRows H {} rows).toIndex ⟨e, cols⟩ = some res)
include hcols hwf hinj hD hg hne hres

/-- the groups of a successful run with at least one group-by column -/
theorem groups_eq :
    res.groups = (product (cols.map fun c => (c, sortedDistinct rows c))).filterMap fun t =>
      let n := groupCount rows e t
      if n = 0 then none else some (t, n) := by
  obtain ⟨groups, hsg, hex⟩ := execute_eq_some H rows e cols hcols hwf hinj hD hg
  rw [hex] at hres
  simp only [Option.some.injEq] at hres
  rw [← hres]
  rw [specGroups_eq rows e cols hg] at hsg
  have he : cols.isEmpty = false := by
    cases cols with
    | nil => exact absurd rfl hne
    | cons _ _ => rfl
  simp only [he, Bool.false_eq_true, if_false, Option.some.injEq] at hsg
  exact hsg.symm

/-- **Membership (3a).** `(t, n)` is a group of the result iff `t` names exactly the listed columns in
list order (one value each), `n` is the number of rows that satisfy the expression and carry all values
of `t`, and `n > 0`. So no group has count 0, every non-empty combination is present with its exact count,
and rows lacking a listed column are in no group. -/
theorem mem_groups_iff (t : Fields) (n : Nat) :
    (t, n) ∈ res.groups ↔ t.map (·.1) = cols ∧ n = groupCount rows e t ∧ 0 < n := by
  rw [groups_eq H rows e cols hcols hwf hinj hD hg hne res hres, List.mem_filterMap]
  constructor
  · rintro ⟨u, hu, h⟩
    by_cases hz : groupCount rows e u = 0
    · simp [hz] at h
    · simp only [hz, if_false, Option.some.injEq, Prod.mk.injEq] at h
      obtain ⟨h1, h2⟩ := h
      subst h1 h2
      exact ⟨((mem_product_map _ cols u).mp hu).1, rfl, Nat.pos_of_ne_zero hz⟩
  · rintro ⟨h1, h2, h3⟩
    subst h2
    refine ⟨t, ?_, by simp [Nat.ne_of_gt h3]⟩
    rw [mem_product_map]
    refine ⟨h1, ?_⟩
    intro p hp
    rw [mem_sortedDistinct]
    obtain ⟨r, hr, _, hall⟩ := exists_row_of_groupCount_pos h3
    simp only [pairsOf, List.mem_flatMap, id]
    exact ⟨r, hr, hall p hp⟩

/-- **Columns (3c).** every group names the listed columns, in list order. -/
theorem groups_columns : ∀ g ∈ res.groups, g.1.map (·.1) = cols := by
  intro g hgm
  exact ((mem_groups_iff H rows e cols hcols hwf hinj hD hg hne res hres g.1 g.2).mp hgm).1

/-- no group has count 0 -/
theorem groups_count_pos : ∀ g ∈ res.groups, 0 < g.2 := by
  intro g hgm
  exact ((mem_groups_iff H rows e cols hcols hwf hinj hD hg hne res hres g.1 g.2).mp hgm).2.2

/-- **Order (3b).** the value tuples of the groups are strictly ascending in the lexicographic order
induced by byte-wise `<` (first listed column most significant). -/
theorem groups_strictly_ascending :
    (res.groups.map fun g => g.1.map (·.2)).Pairwise fun a b => lexLt a b = true := by
  rw [groups_eq H rows e cols hcols hwf hinj hD hg hne res hres, List.pairwise_map]
  have hp := product_pairwise_lex (cols.map fun c => (c, sortedDistinct rows c)) (by
    intro cv hcv
    simp only [List.mem_map] at hcv
    obtain ⟨c, _, rfl⟩ := hcv
    exact sortedDistinct_strictSorted rows c)
  apply List.Pairwise.filterMap _ _ hp
  intro t u htu a ha b hb
  by_cases h1 : groupCount rows e t = 0
  · simp [h1] at ha
  · by_cases h2 : groupCount rows e u = 0
    · simp [h2] at hb
    · simp only [h1, h2, if_false, Option.some.injEq] at ha hb
      subst ha hb
      exact htu

/-- hence no value tuple appears twice -/
theorem groups_tuples_nodup : (res.groups.map fun g => g.1.map (·.2)).Nodup := by
  apply List.Pairwise.imp _ (groups_strictly_ascending H rows e cols hcols hwf hinj hD hg hne res hres)
  intro a b hab heq
  subst heq
  rw [lexLt_irrefl] at hab
  exact Bool.noConfusion hab

/-- with a repeated group-by column (e.g. `cols = [a, a]`) and rows that are maps (one value per key),
every group gives the repeated column the same value at all its positions: the mixed tuples have
count 0 and are absent -/
theorem repeated_column_same_value (hmap : ∀ r ∈ rows, (r.map (·.1)).Nodup) :
    ∀ g ∈ res.groups, ∀ p ∈ g.1, ∀ q ∈ g.1, p.1 = q.1 → p.2 = q.2 := by
  intro g hgm p hp q hq hk
  have h := (mem_groups_iff H rows e cols hcols hwf hinj hD hg hne res hres g.1 g.2).mp hgm
  have hpos : 0 < groupCount rows e g.1 := by rw [← h.2.1]; exact h.2.2
  obtain ⟨r, hr, _, hall⟩ := exists_row_of_groupCount_pos hpos
  rw [eq_of_mem_of_nodup_keys (hmap r hr) (hall p hp) (hall q hq) hk]

end sql

/-! ### non-vacuity -/

/-- column `a` = [97], column `b` = [98] -/
def exRows : List Row :=
  [[([97], [50]), ([98], [49])], [([97], [49]), ([98], [49])], [([97], [50])], [([98], [51])]]
def exExpr : Expr := .not (.eq [98] [51])

/-- a concrete dataset, expression and group-by list (with a repeated column) meet all hypotheses -/
example : (∀ c ∈ exExpr.columns, c ∈ columnsOf exRows) ∧ exExpr.arityPos = true ∧
    NoCollision C01.toyH exRows exExpr.pairs ∧ DataNoCollision C01.toyH exRows ∧
    (∀ c ∈ [[97], [98], [97]], c ∈ columnsOf exRows) := by
  refine ⟨by decide, by decide, ?_, ?_, by decide⟩
  · unfold NoCollision; decide
  · unfold DataNoCollision; decide

def exCols : List Bytes := [[97], [98], [97]]

/-- rows 0, 1, 2 satisfy `NOT b=3`; row 2 has no `b` and is in no group; the tuples with two different
`a` values have count 0 and are absent; the groups come in ascending order -/
def exResult : Result :=
  ⟨3, [([([97], [49]), ([98], [49]), ([97], [49])], 1), ([([97], [50]), ([98], [49]), ([97], [50])], 1)]⟩

theorem exSd97 : sortedDistinct exRows [97] = [[49], [50]] :=
  sortedDistinct_eq_of (by unfold StrictSorted; decide) (by decide) (by decide)
theorem exSd98 : sortedDistinct exRows [98] = [[49], [51]] :=
  sortedDistinct_eq_of (by unfold StrictSorted; decide) (by decide) (by decide)

/-- the concrete result, obtained through the main theorem -/
theorem ex_execute :
    execute C01.toyH (Writer.addRows C01.toyH {} exRows).toIndex ⟨exExpr, exCols⟩ = some exResult := by
  rw [groupBy_eq_spec C01.toyH exRows exExpr exCols (by decide) (by decide) (by unfold NoCollision; decide)
    (by unfold DataNoCollision; decide) (by decide)]
  simp only [specExecute, specGroups, exCols, List.map, exSd97, exSd98]
  decide

/-- the SQL-reading corollaries apply to it (`cols ≠ []`, successful run) -/
example : (([([97], [50]), ([98], [49]), ([97], [50])] : Fields), 1) ∈ exResult.groups ↔
    ([([97], [50]), ([98], [49]), ([97], [50])] : Fields).map (·.1) = exCols ∧
    1 = groupCount exRows exExpr [([97], [50]), ([98], [49]), ([97], [50])] ∧ 0 < 1 :=
  mem_groups_iff C01.toyH exRows exExpr exCols (by decide) (by decide) (by unfold NoCollision; decide)
    (by unfold DataNoCollision; decide) (by decide) (by decide) exResult ex_execute _ _

/-- an unknown group-by column: hypotheses satisfiable -/
example : execute C01.toyH (Writer.addRows C01.toyH {} exRows).toIndex ⟨exExpr, [[97], [99]]⟩ = none :=
  unknown_groupby_column_errors C01.toyH exRows exExpr [[97], [99]] [99] (by decide) (by decide)

end Updog.C02
