/-
C18 — concurrent AddRow calls lose, duplicate and mix nothing.
`AddRow` holds the writer's mutex for its whole body including the id increment (Facts.C18_facts), so each call is one
atomic step and every interleaving of goroutines is a schedule of whole calls.
-/
import Updog.Proofs.Writer
namespace Updog.C18
open Updog
variable (H : Bytes → UInt64)

/-- goroutine `g` wants to add the rows `queues[g]` in order. A schedule names the goroutine whose next call runs.
    Returns the executed calls in execution order, (goroutine, row), and what is left to do. -/
def interleave : List Nat → List (List Row) → List (Nat × Row) × List (List Row)
  | [], qs => ([], qs)
  | g :: sched, qs =>
    match qs[g]? with
    | some (r :: rest) =>
      let out := interleave sched (qs.set g rest)
      ((g, r) :: out.1, out.2)
    | _ => interleave sched qs        -- goroutine has nothing left (or does not exist): no call

/-- ids returned and final writer state when the calls of a schedule run one after the other -/
def runCalls (w : Writer) (calls : List (Nat × Row)) : List Nat × Writer :=
  (Writer.addRowsIds H w (calls.map (·.2)), Writer.addRows H w (calls.map (·.2)))

/-- For every schedule: the ids handed out are exactly 0,1,…,n−1 in execution order — no duplicates, no gaps —
    and the writer ends in the state a sequential insertion of the same rows in id order produces. -/
theorem ids_exact (sched : List Nat) (queues : List (List Row)) :
    let calls := (interleave sched queues).1
    (runCalls H {} calls).1 = List.range calls.length ∧
    (runCalls H {} calls).2 = Writer.addRows H {} (calls.map (·.2)) := by
  intro calls
  refine ⟨?_, rfl⟩
  simp only [runCalls, addRowsIds_eq, List.length_map]
  have : ∀ n, (List.range n).map (fun x => (({} : Writer).next + x)) = List.range n := by
    intro n; simp
  exact this _

/-- the row with id `i` is the i-th executed call's row, with all of its values on that one row:
    bit `i` of the bitmap stored under value index `h` is set iff that row carries a pair hashing to `h` -/
theorem rows_intact (sched : List Nat) (queues : List (List Row)) (h : UInt64) (i : Nat) :
    let calls := (interleave sched queues).1
    (((runCalls H {} calls).2.vals.get h).getD 0).testBit i = rowHas H (calls.map (·.2)) h i := by
  intro calls
  exact (winv_addRows H (calls.map (·.2))).vals h i

/-- each goroutine's calls run in its own order: the calls of goroutine `g` followed by what it has left are its queue -/
theorem per_goroutine_order (sched : List Nat) (queues : List (List Row)) (g : Nat) :
    (((interleave sched queues).1.filter (·.1 == g)).map (·.2)) ++ ((interleave sched queues).2[g]?).getD []
      = (queues[g]?).getD [] := by
  induction sched generalizing queues with
  | nil => simp [interleave]
  | cons g' sched ih =>
    simp only [interleave]
    cases hq : queues[g']? with
    | none => simpa [hq] using ih queues
    | some q =>
      cases q with
      | nil => simpa [hq] using ih queues
      | cons r rest =>
        simp only
        have := ih (queues.set g' rest)
        by_cases hg : g' = g
        · subst hg
          have hlt : g' < queues.length := by
            rcases Nat.lt_or_ge g' queues.length with h | h
            · exact h
            · rw [List.getElem?_eq_none h] at hq; simp at hq
          simp only [List.filter_cons, beq_self_eq_true, ite_true, List.map_cons, List.cons_append]
          rw [this]
          have hget : queues[g'] = r :: rest := by
            have := List.getElem?_eq_getElem hlt; rw [hq] at this; exact (Option.some.inj this).symm
          simp [List.getElem?_set, hlt, hget]
        · have hne : (g' == g) = false := by simpa using hg
          simp only [List.filter_cons, hne, Bool.false_eq_true, ite_false]
          rw [this]
          simp [List.getElem?_set, hg]

/-- nothing is lost or duplicated: when the schedule lets every goroutine finish, the executed calls of goroutine `g`
    are exactly its queue -/
theorem nothing_lost (sched : List Nat) (queues : List (List Row)) (g : Nat)
    (hdone : ((interleave sched queues).2[g]?).getD [] = []) :
    ((interleave sched queues).1.filter (·.1 == g)).map (·.2) = (queues[g]?).getD [] := by
  have := per_goroutine_order sched queues g
  rwa [hdone, List.append_nil] at this

/-- the number of executed calls plus the calls left equals the number of calls wanted -/
theorem call_count (sched : List Nat) (queues : List (List Row)) :
    (interleave sched queues).1.length + ((interleave sched queues).2.map List.length).sum = (queues.map List.length).sum := by
  induction sched generalizing queues with
  | nil => simp [interleave]
  | cons g sched ih =>
    simp only [interleave]
    cases hq : queues[g]? with
    | none => simpa using ih queues
    | some q =>
      cases q with
      | nil => simpa using ih queues
      | cons r rest =>
        simp only [List.length_cons]
        have := ih (queues.set g rest)
        have hlt : g < queues.length := by
          rcases Nat.lt_or_ge g queues.length with h | h
          · exact h
          · rw [List.getElem?_eq_none h] at hq; simp at hq
        have hget : queues[g] = r :: rest := by
          have := List.getElem?_eq_getElem hlt; rw [hq] at this; exact (Option.some.inj this).symm
        have hsum : ((queues.set g rest).map List.length).sum + 1 = (queues.map List.length).sum := by
          clear this ih hq
          induction queues generalizing g with
          | nil => simp at hlt
          | cons a t iht =>
            cases g with
            | zero => simp at hget; subst hget; simp; omega
            | succ g' =>
              simp only [List.set_cons_succ, List.map_cons, List.sum_cons]
              have := iht g' (by simpa using hlt) (by simpa using hget)
              omega
        omega

example : (interleave [1, 0, 1, 5, 0] [[[([97], [49])], []], [[([98], [50])]]]).1 =
    [(1, [([98], [50])]), (0, [([97], [49])]), (0, [])] := by decide

end Updog.C18
