/-
C09 (runes): the Go lexer of internal/queryparser works on RUNES (`utf8.DecodeRuneInString`, advance by the
rune width, classify the rune value); the model `lexAll` in `Updog.Model.Parser` works on BYTES.  The two
views coincide on EVERY byte string, valid UTF-8 or not: every character the lexer distinguishes is ASCII,
an ASCII byte decodes to itself with width 1, and a multi-byte or invalid sequence decodes to a rune ≥ 0x80
and consists of bytes ≥ 0x80 only.
-/
import Updog.Proofs.RuneLexer
namespace Updog.C09
open Updog Updog.RuneLexer

/-- an ASCII byte decodes to itself with width 1 -/
theorem decodeRune_ascii (b : UInt8) (rest : Bytes) (h : b < 128) :
    decodeRune (b :: rest) = (b.toNat, 1) :=
  RuneLexer.decodeRune_ascii rest h

/-- a lead byte ≥ 0x80 (start of a multi-byte character, or an invalid byte) decodes to a rune ≥ 0x80;
    the consumed `w` bytes lie inside the input and are all ≥ 0x80, so they contain no quote, operator
    character, white space, letter, digit or underscore -/
theorem decodeRune_nonascii (b : UInt8) (rest : Bytes) (h : b ≥ 128) :
    let (r, w) := decodeRune (b :: rest)
    r ≥ 128 ∧ 1 ≤ w ∧ w ≤ (b :: rest).length ∧ ∀ x ∈ (b :: rest).take w, x ≥ 128 := by
  have hn := decodeRune_nonascii_nat b rest (toNat_ge_of_ge h)
  show (decodeRune (b :: rest)).1 ≥ 128 ∧ 1 ≤ (decodeRune (b :: rest)).2 ∧
    (decodeRune (b :: rest)).2 ≤ (b :: rest).length ∧
    ∀ x ∈ (b :: rest).take (decodeRune (b :: rest)).2, x ≥ 128
  refine ⟨hn.1, hn.2.1, hn.2.2.1, fun x hx => ?_⟩
  have := hn.2.2.2 x hx
  show (128 : UInt8) ≤ x
  rw [UInt8.le_iff_toNat_le]
  exact this

/-- `acceptRun` over an ASCII rune set = byte-level `takeWhile`/`dropWhile` (white space, field, digits) -/
theorem acceptRun_runes (s : Bytes) :
    acceptRunR isSpaceRune s.length s = (s.takeWhile isSpace, s.dropWhile isSpace) ∧
    acceptRunR isFieldRune s.length s = (s.takeWhile isFieldChar, s.dropWhile isFieldChar) ∧
    acceptRunR isDigitRune s.length s = (s.takeWhile isDigit, s.dropWhile isDigit) :=
  ⟨acceptRunR_space s, acceptRunR_field s, acceptRunR_digit s⟩

/-- the rune-level loop of `lexValue` = the byte-level `scanStr` -/
theorem scanStr_runes (s : Bytes) : scanStrR s.length s = scanStr s :=
  scanStrR_eq _ _ (Nat.le_refl _)

/-- MAIN: the rune-level lexer and the byte-level lexer emit the same items, for ALL byte strings -/
theorem lexAllR_eq_lexAll (s : Bytes) : lexAllR s = lexAll s :=
  lexTextR_eq _ _ (Nat.le_refl _)

/-- parsing the rune-level token stream is `ParseQuery` of the model -/
theorem parseQuery_runes (s : Bytes) : parseToks (lexAllR s) = parseQuery s := by
  rw [lexAllR_eq_lexAll]; rfl

/-! ### examples (evaluated on the rune-level lexer itself) -/

/-- `a = "ü✓"`: multi-byte characters inside a string value are kept as bytes -/
example : lexAllR [97, 32, 61, 32, 34, 0xC3, 0xBC, 0xE2, 0x9C, 0x93, 34] =
    [.field [97], .eq, .value [0xC3, 0xBC, 0xE2, 0x9C, 0x93], .eof] := by decide

/-- `é = "1"`: a non-ASCII letter outside a string is an "unknown token" -/
example : lexAllR [0xC3, 0xA9, 32, 61, 32, 34, 49, 34] = [.error] := by decide

/-- `aé = "1"`: the field run stops in front of the multi-byte character, which is then an error -/
example : lexAllR [97, 0xC3, 0xA9, 32, 61, 32, 34, 49, 34] = [.field [97], .error] := by decide

/-- `a = "\xff"`: an invalid byte inside a string value (rune U+FFFD, width 1) is kept -/
example : lexAllR [97, 32, 61, 32, 34, 0xFF, 34] = [.field [97], .eq, .value [0xFF], .eof] := by decide

/-- `a = "\xe2\x9c"` + `"` : a truncated 3-byte sequence is two invalid bytes; the quote after it still
    closes the string -/
example : lexAllR [97, 61, 34, 0xE2, 0x9C, 34] = [.field [97], .eq, .value [0xE2, 0x9C], .eof] := by decide

/-- `a="ü""x"`: escaped quote after a multi-byte character -/
example : lexAllR [97, 61, 34, 0xC3, 0xBC, 34, 34, 120, 34] =
    [.field [97], .eq, .value [0xC3, 0xBC, 34, 34, 120], .eof] := by decide

/-- `a = "ü`: unterminated string -/
example : lexAllR [97, 32, 61, 32, 34, 0xC3, 0xBC] = [.field [97], .eq, .error] := by decide

/-- `a=$1` followed by U+00A0 (no-break space, C2 A0): not white space for the lexer -/
example : lexAllR [97, 61, 36, 49, 0xC2, 0xA0] = [.field [97], .eq, .placeholder [49], .error] := by decide

/-- a lone invalid byte outside a string -/
example : lexAllR [0xFF] = [.error] := by decide

/-- the decoder on the characters used above: `ü` = U+00FC (2 bytes), `✓` = U+2713 (3 bytes),
    `\xff` invalid (U+FFFD, width 1), overlong `C0 A2` (would be `"`) invalid -/
example : decodeRune [0xC3, 0xBC, 34] = (0xFC, 2) ∧ decodeRune [0xE2, 0x9C, 0x93] = (0x2713, 3) ∧
    decodeRune [0xFF, 34] = (0xFFFD, 1) ∧ decodeRune [0xC0, 0xA2] = (0xFFFD, 1) := by decide

/-- non-vacuity of `decodeRune_nonascii`: for `ü"` the consumed prefix is the two bytes of `ü` -/
example : (0xC3 : UInt8) ≥ 128 ∧ ([0xC3, 0xBC, 34] : Bytes).take (decodeRune [0xC3, 0xBC, 34]).2 = [0xC3, 0xBC] := by
  decide

/-- the whole pipeline on `a = "ü"`: the rune-level tokens parse, hence (by `parseQuery_runes`) so does
    the byte-level model's `parseQuery` -/
example : (parseQuery [97, 32, 61, 32, 34, 0xC3, 0xBC, 34]).isSome = true := by
  rw [← parseQuery_runes]; decide

/-- `é = "1"` is rejected by `ParseQuery` -/
example : (parseQuery [0xC3, 0xA9, 32, 61, 32, 34, 49, 34]).isSome = false := by
  rw [← parseQuery_runes]; decide

end Updog.C09
