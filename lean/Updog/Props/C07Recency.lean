/-
C07 (history level) — in EVERY history of `Put`/`Get` operations from the empty cache, the cache's recency list is the
last-use order of the history restricted to the keys that are still resident; every resident entry is what the last
`Put` of its key stored; and eviction always takes the least recently used keys (the resident keys are upward closed in
the last-use order).
`recency`, `lastUse`, `lastPutItem`, `lastIsPut` are defined on the history alone (Proofs/LruRecency.lean), without
running the cache.  Property theorems only; helper lemmas live in Updog/Proofs/LruRecency.lean.
-/
import Updog.Proofs.LruRecency
namespace Updog.C07
open Updog

/-! ### 1. `recency` is the last-use order (facts about the history alone) -/

/-- reading the history forwards: the key of the latest operation moves to the front, the others keep their order -/
theorem recency_snoc (ops : List LruOp) (op : LruOp) :
    recency (ops ++ [op]) = op.key :: (recency ops).filter (· != op.key) :=
  Updog.recency_snoc ops op

/-- `recency ops` lists exactly the keys the history uses (`Put` or `Get`), each once, sorted by strictly decreasing
    position of their last use -/
theorem recency_spec (ops : List LruOp) :
    (recency ops).Nodup ∧ (∀ k, k ∈ recency ops ↔ ∃ op ∈ ops, op.key = k) ∧
    (recency ops).Pairwise fun a b => lastUse ops b < lastUse ops a :=
  ⟨recency_nodup ops, mem_recency ops, recency_sorted ops⟩

/-! ### 2. the recency list of the cache -/

/-- **Main theorem.** For every history from the empty cache (any `max`, `ovh`, sizes): the keys of the cache's item
list, front to back, are exactly the last-use order of the history restricted to the keys that survived eviction
(`isResident` = the key is in the cache at the end). A `Get` miss uses a key that is not resident, so counting it as a
use does not change the restricted order. -/
theorem items_eq_recency (max ovh : Nat) (ops : List LruOp) :
    let c := ((Lru.empty max ovh).run ops).1
    c.items.map (·.key) = (recency ops).filter c.isResident := by
  intro c
  have hsub : (c.items.map (·.key)).Sublist (recency ops) := by
    have := run_recency (Lru.empty max ovh) [] ops (by simp [Lru.empty])
    simpa using this
  have := sublist_eq_filter hsub (recency_nodup ops)
  refine this.trans ?_
  apply List.filter_congr
  intro k _
  cases h : c.isResident k
  · have : ¬ k ∈ c.items.map (·.key) := by rw [← isResident_iff, h]; simp
    simpa using this
  · have : k ∈ c.items.map (·.key) := by rw [← isResident_iff, h]
    simpa using this

/-- equivalent forms: the item list is sorted by strictly decreasing last use, and is a sublist of `recency` -/
theorem items_sorted_by_last_use (max ovh : Nat) (ops : List LruOp) :
    let c := ((Lru.empty max ovh).run ops).1
    (c.items.map (·.key)).Sublist (recency ops) ∧
    c.items.Pairwise fun a b => lastUse ops b.key < lastUse ops a.key := by
  intro c
  have hsub : (c.items.map (·.key)).Sublist (recency ops) := by
    have := run_recency (Lru.empty max ovh) [] ops (by simp [Lru.empty])
    simpa using this
  exact ⟨hsub, List.pairwise_map.1 ((recency_sorted ops).sublist hsub)⟩

/-- every resident entry is exactly the `(key, size, bitmap)` the last `Put` of its key stored -/
theorem items_are_last_put (max ovh : Nat) (ops : List LruOp) :
    ∀ it ∈ ((Lru.empty max ovh).run ops).1.items, lastPutItem ops it.key = some it := by
  have := run_residentItem (Lru.empty max ovh) [] ops (by intro it hit; simp [Lru.empty] at hit)
  rw [List.nil_append] at this
  exact this

/-- **The whole item list from the history**: the last-use order, restricted to the resident keys, each key with the
entry of its last `Put`. -/
theorem items_eq (max ovh : Nat) (ops : List LruOp) :
    let c := ((Lru.empty max ovh).run ops).1
    c.items = ((recency ops).filter c.isResident).filterMap (lastPutItem ops) := by
  intro c
  rw [← items_eq_recency max ovh ops]
  have h := items_are_last_put max ovh ops
  change ∀ it ∈ c.items, lastPutItem ops it.key = some it at h
  change c.items = (c.items.map (·.key)).filterMap (lastPutItem ops)
  generalize c.items = l at h
  induction l with
  | nil => rfl
  | cons a t ih =>
    simp only [List.map_cons, List.filterMap_cons, h a List.mem_cons_self]
    rw [← ih (fun it hit => h it (List.mem_cons_of_mem _ hit))]

/-! ### 3. which keys survive -/

/-- a resident key was `Put` at some point -/
theorem resident_was_put (max ovh : Nat) (ops : List LruOp) (k : Nat)
    (h : ((Lru.empty max ovh).run ops).1.isResident k = true) : (lastPutItem ops k).isSome = true := by
  rw [isResident_iff] at h
  obtain ⟨x, hx, rfl⟩ := List.mem_map.1 h
  rw [items_are_last_put max ovh ops x hx]; rfl

/-- **Eviction takes the least recently used.** In every history: if a key is resident at the end, then every key
whose last use is LATER and is a `Put` is resident too. (So whenever a key that was `Put` last is gone, all keys used
before it are gone as well.) -/
theorem survivors_upward_closed (max ovh : Nat) (ops : List LruOp) (k' k : Nat)
    (hres : ((Lru.empty max ovh).run ops).1.isResident k' = true)
    (hlater : lastUse ops k' < lastUse ops k) (hput : lastIsPut ops k = true) :
    ((Lru.empty max ovh).run ops).1.isResident k = true := by
  have := run_upClosed (Lru.empty max ovh) [] ops (by simp [Lru.empty])
    (by intro a b ha; simp [Lru.isResident, Lru.empty] at ha)
  simp only [List.nil_append] at this
  exact this k' k hres hlater hput

/-- no eviction: when every key that was ever `Put` is still resident, the item keys are the last-use order of the
    history restricted to the keys that were `Put` — a statement about the history alone -/
theorem items_eq_recency_of_no_eviction (max ovh : Nat) (ops : List LruOp)
    (hall : ∀ k, (lastPutItem ops k).isSome = true → ((Lru.empty max ovh).run ops).1.isResident k = true) :
    ((Lru.empty max ovh).run ops).1.items.map (·.key) = (recency ops).filter fun k => (lastPutItem ops k).isSome := by
  rw [items_eq_recency max ovh ops]
  apply List.filter_congr
  intro k _
  cases h : ((Lru.empty max ovh).run ops).1.isResident k
  · cases h2 : (lastPutItem ops k).isSome
    · rfl
    · rw [hall k h2] at h; cases h
  · exact (resident_was_put max ovh ops k h).symm

/-! ### non-vacuity -/

section Examples

/-- keys 1 and 2 put, 1 overwritten, 3 put (evicts 2: 100 bytes, overhead 10), hit on 1, miss on 2, miss on 9 -/
private def hist : List LruOp :=
  [.put 1 10 20, .put 2 20 20, .put 1 11 20, .put 3 30 40, .get 1, .get 2, .get 9]

private theorem hist_items : ((Lru.empty 100 10).run hist).1.items = [⟨1, 20, 11⟩, ⟨3, 40, 30⟩] := by
  simp [hist, Lru.empty, Lru.run, Lru.step, Lru.put, Lru.get, evict]

/-- the last-use order of the history alone: the two misses are the most recent uses -/
example : recency hist = [9, 2, 1, 3] := by decide

example : lastUse hist 3 = 4 ∧ lastUse hist 1 = 5 ∧ lastUse hist 2 = 6 ∧ lastUse hist 7 = 0 := by decide

/-- `items_eq_recency` on the concrete history: keys 9 (never put) and 2 (evicted) are filtered out, a real
    restriction, and the order `[1, 3]` is the last-use order (the hit moved 1 in front of 3) -/
example : ((Lru.empty 100 10).run hist).1.items.map (·.key) = [1, 3] ∧
    (recency hist).filter ((Lru.empty 100 10).run hist).1.isResident = [1, 3] := by
  rw [← items_eq_recency 100 10 hist, hist_items]; exact ⟨rfl, rfl⟩

/-- `items_eq`: the entries are those of the last `Put`s (key 1: the overwriting one) -/
example : ((recency hist).filter ((Lru.empty 100 10).run hist).1.isResident).filterMap (lastPutItem hist)
    = [⟨1, 20, 11⟩, ⟨3, 40, 30⟩] := by
  rw [← items_eq 100 10 hist, hist_items]

/-- `survivors_upward_closed`: its hypotheses hold after the first four operations with `k' = 1`, `k = 3` (key 1 is
    resident, key 3 was used later and its last use is a `Put`); and the theorem bites: key 2, used before key 1, is
    the one that is gone -/
example :
    let pre : List LruOp := [.put 1 10 20, .put 2 20 20, .put 1 11 20, .put 3 30 40]
    ((Lru.empty 100 10).run pre).1.isResident 1 = true ∧ lastUse pre 1 < lastUse pre 3 ∧ lastIsPut pre 3 = true ∧
    ((Lru.empty 100 10).run pre).1.isResident 2 = false ∧ lastUse pre 2 < lastUse pre 1 := by
  simp [Lru.empty, Lru.run, Lru.step, Lru.put, evict, Lru.isResident, lastUse, lastIsPut, LruOp.key, LruOp.isPut]

/-- `items_eq_recency_of_no_eviction`: a history in which nothing is evicted satisfies the hypothesis -/
example : ∀ k, (lastPutItem [.put 1 10 20, .get 5, .put 2 20 20, .get 1] k).isSome = true →
    ((Lru.empty 100 10).run [.put 1 10 20, .get 5, .put 2 20 20, .get 1]).1.isResident k = true := by
  intro k
  have hr : ((Lru.empty 100 10).run [.put 1 10 20, .get 5, .put 2 20 20, .get 1]).1.items
      = [⟨1, 20, 10⟩, ⟨2, 20, 20⟩] := by
    simp [Lru.empty, Lru.run, Lru.step, Lru.put, Lru.get, evict]
  simp only [Lru.isResident, hr, lastPutItem]
  by_cases h1 : 1 = k
  · subst h1; simp
  · by_cases h2 : 2 = k
    · subst h2; simp
    · simp [h1, h2]

end Examples

end Updog.C07
