/-
C06 — crash atomicity of index creation: a crash after any proper prefix of the committed
transactions of `IndexWriter.WriteToBoltDatabase` (any map iteration order, any batch size), or before
the single commit of `BigIndexWriter.Flush`, leaves a file that `OpenIndex` rejects.
Property theorems only; helper lemmas live in Updog/Proofs/BoltTx.lean.
-/
import Updog.Proofs.BoltTx
namespace Updog.C06
open Updog

/-! ### in-memory writer -/

/-- Main theorem. For every iteration order `perm`, every batch size ≥ 1 and every `k` smaller than the
number of transactions, the file after `k` commits has neither schema nor counter. -/
theorem crash_atomic (w : Writer) (perm : ValMap) (batch : Nat) (hb : 1 ≤ batch) (k : Nat)
    (hk : k < (writeTxs w.schema w.next perm batch).length) :
    (imageAfter (writeTxs w.schema w.next perm batch) k).hasHeader = false
    ∧ (imageAfter (writeTxs w.schema w.next perm batch) k).schema = none
    ∧ (imageAfter (writeTxs w.schema w.next perm batch) k).counter = none := by
  rw [writeTxs_length _ _ perm batch hb] at hk
  obtain ⟨h1, h2, _⟩ := imageAfter_writeTxs_prefix w.schema w.next perm batch hb k (by omega)
  exact ⟨by simp [BoltImage.hasHeader, h1], h1, h2⟩

/-- The file states reachable by a crash are exactly the `prefixState`s of Model/Open.lean. -/
theorem stateOf_prefix (w : Writer) (perm : ValMap) (batch : Nat) (hb : 1 ≤ batch) (k : Nat) :
    stateOf (imageAfter (writeTxs w.schema w.next perm batch) k)
      = prefixState (writeTxs w.schema w.next perm batch).length k := by
  rw [writeTxs_length _ _ perm batch hb]
  have hpre := imageAfter_writeTxs_prefix w.schema w.next perm batch hb k
  have hfull := imageAfter_writeTxs_full w.schema w.next perm batch hb k
  generalize perm.length / batch = q at hpre hfull ⊢
  by_cases hk : k ≤ q
  · obtain ⟨h1, h2, h3⟩ := hpre hk
    simp only [stateOf, h1, h2, h3, prefixState]
    by_cases h0 : k = 0
    · simp [h0]
    · have a : 0 < k := by omega
      have b : k < q + 1 := by omega
      simp [h0, a, b]
  · rw [hfull (by omega)]
    have h0 : ¬ k = 0 := by omega
    have h1 : ¬ k < q + 1 := by omega
    simp [stateOf, prefixState, h0, h1]

/-- `OpenIndex` fails on every proper prefix, whatever the options; only the complete file opens. -/
theorem crash_open (w : Writer) (perm : ValMap) (batch : Nat) (hb : 1 ≤ batch) (opts : OpenOpts) :
    let txs := writeTxs w.schema w.next perm batch
    ∀ k, k ≤ txs.length → (openIndex (stateOf (imageAfter txs k)) opts).1 = .error ∨ k = txs.length := by
  intro txs k hk
  by_cases he : k = txs.length
  · exact .inr he
  · left
    have hlt : k < (writeTxs w.schema w.next perm batch).length := by
      have : k ≤ (writeTxs w.schema w.next perm batch).length := hk
      have : ¬ k = (writeTxs w.schema w.next perm batch).length := he
      omega
    obtain ⟨_, h1, h2⟩ := crash_atomic w perm batch hb k hlt
    show (openIndex (stateOf (imageAfter (writeTxs w.schema w.next perm batch) k)) opts).1 = .error
    simp only [stateOf, h1, h2, openIndex]
    cases (imageAfter (writeTxs w.schema w.next perm batch) k).bucket <;> simp

/-- … and the complete file does open (and then holds the file lock). -/
theorem complete_opens (w : Writer) (perm : ValMap) (batch : Nat) (hb : 1 ≤ batch) (opts : OpenOpts) :
    let txs := writeTxs w.schema w.next perm batch
    openIndex (stateOf (imageAfter txs txs.length)) opts = (.ok (), true) := by
  intro txs
  show openIndex (stateOf (imageAfter (writeTxs w.schema w.next perm batch)
    (writeTxs w.schema w.next perm batch).length)) opts = _
  rw [stateOf_prefix w perm batch hb]
  have : (writeTxs w.schema w.next perm batch).length ≠ 0 := by
    rw [writeTxs_length _ _ perm batch hb]; exact Nat.succ_ne_zero _
  simp [prefixState, this, openIndex]

/-! ### big writer -/

/-- The output database of the big writer sees exactly one transaction: its crash prefixes are
"nothing" (rejected by `OpenIndex`) and "complete". -/
theorem big_crash_atomic (bw : BigWriter) (opts : OpenOpts) :
    bw.flushTxs.length = 1
    ∧ imageAfter bw.flushTxs 0 = {}
    ∧ (openIndex (stateOf (imageAfter bw.flushTxs 0)) opts).1 = .error
    ∧ (imageAfter bw.flushTxs 1).hasHeader = true
    ∧ openIndex (stateOf (imageAfter bw.flushTxs 1)) opts = (.ok (), true) := by
  have hfull := imageAfter_flushTxs_one bw 1 (Nat.le_refl 1)
  refine ⟨rfl, rfl, rfl, ?_, ?_⟩
  · rw [hfull]; rfl
  · rw [hfull]; simp [stateOf, openIndex]

theorem big_crash_open (bw : BigWriter) (opts : OpenOpts) :
    ∀ k, k ≤ bw.flushTxs.length →
      (openIndex (stateOf (imageAfter bw.flushTxs k)) opts).1 = .error ∨ k = bw.flushTxs.length := by
  intro k hk
  have hl : bw.flushTxs.length = 1 := rfl
  rw [hl] at hk ⊢
  by_cases h0 : k = 0
  · subst h0; exact .inl rfl
  · exact .inr (by omega)

/-! ### non-vacuity -/

/-- a writer with three values, written in the order 2,0,1 with batch size 1: four transactions, the
first three without header, and each of the four prefixes that is not the whole file is rejected -/
def w3 : Writer := { schema := [([1], [([2], 0)])], vals := [(0, 1), (1, 2), (2, 4)], next := 3 }

example : writeTxs w3.schema w3.next [(2, 4), (0, 1), (1, 2)] 1
    = [[.val 2 4], [.val 0 1], [.val 1 2], [.schema w3.schema, .counter 3]] := by decide

example : ([(2, 4), (0, 1), (1, 2)] : ValMap).Perm w3.vals := by decide

example : (List.range 4).map (fun k =>
      (openIndex (stateOf (imageAfter (writeTxs w3.schema w3.next [(2, 4), (0, 1), (1, 2)] 1) k)) ⟨true⟩).1)
    = [.error, .error, .error, .error] := by decide

example : openIndex (stateOf (imageAfter (writeTxs w3.schema w3.next [(2, 4), (0, 1), (1, 2)] 1) 4)) ⟨true⟩
    = (.ok (), true) := by decide

/-- batch size 1000 as in the Go code: one transaction, still atomic -/
example : (writeTxs w3.schema w3.next w3.vals 1000).length = 1 := by decide

end Updog.C06
