/-
C05 (32-bit row counter) — `nextRowID` is a `uint32` in writer.go / writer_big.go / index.go and is persisted with
`binary.BigEndian.PutUint32`; the theorems of `C05.lean`, `C05Schema.lean`, `C01*.lean`, `C02.lean` are stated on the
unbounded (`Nat`) counter of `Model/Index.lean`. This file closes the gap with the 32-bit writers of
`Model/Counter32.lean`:

* with FEWER than 2^32 rows (`FitsCounter rows`) the persisted 4 bytes decode to `rows.length`, every id returned by
  `AddRow` is the row's position, and the index opened from the persisted file is the index of the unbounded model —
  for both writers; so every C01/C02/C05 theorem about `(Writer.addRows H {} rows).toIndex` / `C05.bigIndex H rows`
  transfers to the code's counter (`schema_roundtrip_fits`, `membership_fits`, …; `C01Counter.lean`, `C02Counter.lean`);
* with EXACTLY 2^32 rows the persisted counter is `00 00 00 00`, i.e. 0 ≠ `rows.length`: the bound is `<`, not `≤`;
  the bitmaps and the schema are still right, so the opened index differs from the intended one exactly in `next`,
  and `NOT e` evaluates like `e`.

The theorems with `hlen : rows.length ≤ 2 ^ 32` in `C05.lean` / `C05Schema.lean` / `C01Writers.lean` are true as stated,
but only about the unbounded counter; for the code's counter cite the `_fits` versions of this file.
Property theorems only; helper lemmas live in Updog/Proofs/Counter32.lean.
-/
import Updog.Proofs.Counter32
import Updog.Props.C05Schema
namespace Updog.C05
open Updog

section
variable (H : Bytes → UInt64)

/-! ### 1. the persisted counter -/

/-- For EVERY dataset: both writers persist 4 bytes that decode to `rows.length mod 2^32`. -/
theorem counter32_mod (rows : List Row) :
    ((Writer32.image H rows).2.2.length = 4 ∧ beDecode (Writer32.image H rows).2.2 = rows.length % 2 ^ 32) ∧
    ((BigWriter32.image H rows).2.2.length = 4 ∧ beDecode (BigWriter32.image H rows).2.2 = rows.length % 2 ^ 32) := by
  refine ⟨⟨rfl, ?_⟩, ⟨rfl, ?_⟩⟩
  · show beDecode (counterBytes (Writer32.addRows H {} rows).next) = _
    rw [beDecode_counterBytes, addRows32_next]
    show (0 + rows.length) % 4294967296 = _
    rw [Nat.zero_add]
  · show beDecode (counterBytes (BigWriter32.addRows H {} rows).next) = _
    rw [beDecode_counterBytes, bigAddRows32_next]
    show (0 + rows.length) % 4294967296 = _
    rw [Nat.zero_add]

/-- **Counter, positive.** With fewer than 2^32 rows the 4 bytes persisted under `'I'` are the big-endian encoding of
`rows.length` and `OpenIndex` decodes them back to `rows.length` — for the in-memory writer and for the big writer. -/
theorem counter32_fits (rows : List Row) (hfit : FitsCounter rows) :
    ((Writer32.image H rows).2.2 = be32 rows.length ∧
      (counterOfBytes (Writer32.image H rows).2.2).toNat = rows.length ∧
      (Writer32.image H rows).open.next = rows.length) ∧
    ((BigWriter32.image H rows).2.2 = be32 rows.length ∧
      (counterOfBytes (BigWriter32.image H rows).2.2).toNat = rows.length ∧
      (BigWriter32.image H rows).open.next = rows.length) := by
  have hm : rows.length % 4294967296 = rows.length := Nat.mod_eq_of_lt hfit
  have h1 : (Writer32.addRows H {} rows).next.toNat = rows.length := by
    rw [addRows32_next]; show (0 + rows.length) % 4294967296 = _; rw [Nat.zero_add, hm]
  have h2 : (BigWriter32.addRows H {} rows).next.toNat = rows.length := by
    rw [bigAddRows32_next]; show (0 + rows.length) % 4294967296 = _; rw [Nat.zero_add, hm]
  refine ⟨⟨?_, ?_, ?_⟩, ⟨?_, ?_, ?_⟩⟩
  · show be32 (Writer32.addRows H {} rows).next.toNat = _
    rw [h1]
  · show (counterOfBytes (counterBytes (Writer32.addRows H {} rows).next)).toNat = _
    rw [counterOfBytes_counterBytes, h1]
  · show (counterOfBytes (counterBytes (Writer32.addRows H {} rows).next)).toNat = _
    rw [counterOfBytes_counterBytes, h1]
  · show be32 (BigWriter32.addRows H {} rows).next.toNat = _
    rw [h2]
  · show (counterOfBytes (counterBytes (BigWriter32.addRows H {} rows).next)).toNat = _
    rw [counterOfBytes_counterBytes, h2]
  · show (counterOfBytes (counterBytes (BigWriter32.addRows H {} rows).next)).toNat = _
    rw [counterOfBytes_counterBytes, h2]

/-- **Counter, negative witness.** For a dataset of EXACTLY 2^32 rows both writers persist `00 00 00 00`: the counter
read back is 0, not `rows.length`. (The theorems of `C05.lean` with `rows.length ≤ 2 ^ 32` speak about the unbounded
counter of the model and do not cover this.) -/
theorem counter32_wraps (rows : List Row) (hlen : rows.length = 2 ^ 32) :
    ((Writer32.image H rows).2.2 = [0, 0, 0, 0] ∧ (Writer32.image H rows).open.next = 0 ∧
      (Writer32.image H rows).open.next ≠ rows.length) ∧
    ((BigWriter32.image H rows).2.2 = [0, 0, 0, 0] ∧ (BigWriter32.image H rows).open.next = 0 ∧
      (BigWriter32.image H rows).open.next ≠ rows.length) := by
  have hm : rows.length % 4294967296 = 0 := by rw [hlen]
  have h1 : (Writer32.addRows H {} rows).next.toNat = 0 := by
    rw [addRows32_next]; show (0 + rows.length) % 4294967296 = _; rw [Nat.zero_add, hm]
  have h2 : (BigWriter32.addRows H {} rows).next.toNat = 0 := by
    rw [bigAddRows32_next]; show (0 + rows.length) % 4294967296 = _; rw [Nat.zero_add, hm]
  have o1 : (Writer32.image H rows).open.next = 0 := by
    show (counterOfBytes (counterBytes (Writer32.addRows H {} rows).next)).toNat = _
    rw [counterOfBytes_counterBytes, h1]
  have o2 : (BigWriter32.image H rows).open.next = 0 := by
    show (counterOfBytes (counterBytes (BigWriter32.addRows H {} rows).next)).toNat = _
    rw [counterOfBytes_counterBytes, h2]
  refine ⟨⟨?_, o1, ?_⟩, ⟨?_, o2, ?_⟩⟩
  · show be32 (Writer32.addRows H {} rows).next.toNat = _
    rw [h1]; rfl
  · rw [o1, hlen]; decide
  · show be32 (BigWriter32.addRows H {} rows).next.toNat = _
    rw [h2]; rfl
  · rw [o2, hlen]; decide

/-! ### 2. row ids -/

/-- **Row ids.** With fewer than 2^32 rows the i-th `AddRow` call returns (the `uint32`) i — for both writers. -/
theorem addRow_ids32_fits (rows : List Row) (hfit : FitsCounter rows) :
    (Writer32.addRowsIds H {} rows).map (·.toNat) = List.range rows.length ∧
    (BigWriter32.addRowsIds H {} rows).map (·.toNat) = List.range rows.length := by
  have hle : (0 : UInt32).toNat + rows.length ≤ 2 ^ 32 := by
    show 0 + rows.length ≤ 2 ^ 32
    have : rows.length < 2 ^ 32 := hfit
    omega
  constructor
  · rw [addRowsIds32_toNat H {} rows hle]
    exact (addRow_ids H rows).1
  · rw [bigAddRowsIds32_toNat H {} rows hle]
    exact (addRow_ids H rows).2

/-- the same, call by call: the id returned for the row at position `i` is `i` -/
theorem addRow_id32_fits (rows : List Row) (hfit : FitsCounter rows) (i : Nat) (hi : i < rows.length) :
    ((Writer32.addRowsIds H {} rows)[i]?).map (·.toNat) = some i ∧
    ((BigWriter32.addRowsIds H {} rows)[i]?).map (·.toNat) = some i := by
  obtain ⟨h1, h2⟩ := addRow_ids32_fits H rows hfit
  constructor
  · rw [← List.getElem?_map, h1]; simp [hi]
  · rw [← List.getElem?_map, h2]; simp [hi]

/-! ### 3. the opened index is the index of the unbounded model -/

/-- **Transfer.** With fewer than 2^32 rows the index `OpenIndex` builds from the file persisted by the in-memory
writer (32-bit counter, 4 persisted bytes) is exactly `(Writer.addRows H {} rows).toIndex`, the index all C01/C02/C05
theorems speak about; and the one built from the big writer's file is exactly `C05.bigIndex H rows`. -/
theorem open32_eq_fits (rows : List Row) (hfit : FitsCounter rows) :
    (Writer32.image H rows).open = (Writer.addRows H {} rows).toIndex ∧
    (BigWriter32.image H rows).open = bigIndex H rows := by
  have hlt : (0 : UInt32).toNat + rows.length < 2 ^ 32 := by
    show 0 + rows.length < 2 ^ 32
    have : rows.length < 2 ^ 32 := hfit
    omega
  constructor
  · have h := addRows32_abs H {} rows hlt
    show Index.mk _ (counterOfBytes (counterBytes _)).toNat _ = _
    rw [counterOfBytes_counterBytes]
    show (Writer32.addRows H {} rows).abs.toIndex = _
    rw [h]; rfl
  · have h := bigAddRows32_abs H {} rows hlt
    show Index.mk _ (counterOfBytes (counterBytes _)).toNat _ = _
    rw [counterOfBytes_counterBytes]
    show Index.mk (BigWriter32.addRows H {} rows).abs.schema (BigWriter32.addRows H {} rows).abs.next
      (walk (sortKeys (BigWriter32.addRows H {} rows).abs.temp)).get = _
    rw [h]; rfl

/-- `writers_agree_index` for the code's counter: with fewer than 2^32 rows the two files open to the same index. -/
theorem writers_agree_index_fits (rows : List Row) (hfit : FitsCounter rows) :
    (BigWriter32.image H rows).open = (Writer32.image H rows).open := by
  obtain ⟨h1, h2⟩ := open32_eq_fits H rows hfit
  rw [h1, h2]
  exact writers_agree_index H rows (Nat.le_of_lt hfit)

/-- hence every query has the same answer on both files -/
theorem same_answer_both_writers_fits (rows : List Row) (hfit : FitsCounter rows) (q : Query) :
    execute H (BigWriter32.image H rows).open q = execute H (Writer32.image H rows).open q := by
  rw [writers_agree_index_fits H rows hfit]

/-- `schema_roundtrip` for the code's counter, both writers -/
theorem schema_roundtrip_fits (rows : List Row) (hfit : FitsCounter rows) :
    getSchema (Writer32.image H rows).open = specSchema rows ∧
    getSchema (BigWriter32.image H rows).open = specSchema rows := by
  obtain ⟨h1, h2⟩ := open32_eq_fits H rows hfit
  rw [h1, h2]
  exact ⟨schema_roundtrip H rows, schema_roundtrip_big H rows (Nat.le_of_lt hfit)⟩

/-- `membership` for the code's counter, both writers: the bitmap stored under the value index of `(c, v)` holds
exactly the positions of the rows added with `c = v` -/
theorem membership_fits (rows : List Row) (hfit : FitsCounter rows) (c v : Bytes) (i : Nat)
    (hinj : NoCollision H rows [(c, v)]) :
    ((((Writer32.image H rows).open.getCol (H (encodePair c v))).getD 0).testBit i
      = decide (i < rows.length ∧ (c, v) ∈ rowAt rows i)) ∧
    ((((BigWriter32.image H rows).open.getCol (H (encodePair c v))).getD 0).testBit i
      = decide (i < rows.length ∧ (c, v) ∈ rowAt rows i)) := by
  obtain ⟨h1, h2⟩ := open32_eq_fits H rows hfit
  rw [h1, h2]
  exact ⟨membership H rows c v i hinj, membership_big H rows (Nat.le_of_lt hfit) c v i hinj⟩

/-! ### 4. exactly 2^32 rows: everything but the counter is right -/

/-- With exactly 2^32 rows all row ids still fit, so the bitmaps and the schema in both files are those of the
unbounded model — the opened index differs from the intended one exactly in `next`, which is 0. -/
theorem open32_wrapped (rows : List Row) (hlen : rows.length = 2 ^ 32) :
    (Writer32.image H rows).open = { (Writer.addRows H {} rows).toIndex with next := 0 } ∧
    (BigWriter32.image H rows).open = { bigIndex H rows with next := 0 } := by
  obtain ⟨⟨_, o1, _⟩, ⟨_, o2, _⟩⟩ := counter32_wraps H rows hlen
  have hle : (0 : UInt32).toNat + rows.length ≤ 2 ^ 32 := by
    show 0 + rows.length ≤ 2 ^ 32
    omega
  constructor
  · obtain ⟨s, v⟩ := addRows32_schema_vals H {} rows hle
    have e : (Writer32.image H rows).open
        = Index.mk (Writer32.addRows H {} rows).schema (Writer32.image H rows).open.next
            (Writer32.addRows H {} rows).vals.get := rfl
    rw [e, o1, s, v]; rfl
  · obtain ⟨s, t⟩ := bigAddRows32_schema_temp H {} rows hle
    have e : (BigWriter32.image H rows).open
        = Index.mk (BigWriter32.addRows H {} rows).schema (BigWriter32.image H rows).open.next
            (walk (sortKeys (BigWriter32.addRows H {} rows).temp)).get := rfl
    rw [e, o2, s, t]; rfl

/-- … and the consequence for queries: on such a file `NOT e` evaluates to the same bitmap as `e` (the complement is
taken within a universe of 0 rows). -/
theorem not_ignored_when_wrapped (rows : List Row) (hlen : rows.length = 2 ^ 32) (e : Expr) :
    eval H (Writer32.image H rows).open (.not e) = eval H (Writer32.image H rows).open e ∧
    eval H (BigWriter32.image H rows).open (.not e) = eval H (BigWriter32.image H rows).open e := by
  obtain ⟨⟨_, o1, _⟩, ⟨_, o2, _⟩⟩ := counter32_wraps H rows hlen
  have hf : flip 0 = id := funext flip_zero
  constructor
  · simp only [eval, o1, hf, Option.map_id_fun, id]
  · simp only [eval, o2, hf, Option.map_id_fun, id]

end

/-! ### non-vacuity -/

/-- the concrete dataset of `C05.lean` fits the counter -/
example : FitsCounter rows := by decide

/-- `counter32_fits`, `addRow_ids32_fits` on it: 3 rows, counter bytes `00 00 00 03`, ids 0, 1, 2 — both writers -/
example : (Writer32.image Hr rows).2.2 = [0, 0, 0, 3] ∧ (BigWriter32.image Hr rows).2.2 = [0, 0, 0, 3] := by
  have h := counter32_fits Hr rows (by decide)
  exact ⟨h.1.1, h.2.1⟩

example : (Writer32.addRowsIds Hr {} rows).map (·.toNat) = [0, 1, 2] ∧
    (BigWriter32.addRowsIds Hr {} rows).map (·.toNat) = [0, 1, 2] :=
  addRow_ids32_fits Hr rows (by decide)

/-- `open32_eq_fits` on it: the opened index has counter 3 and the bitmaps of the unbounded model -/
example : (Writer32.image Hr rows).open.next = 3 ∧ (Writer32.image Hr rows).open.getCol 2 = some 3 := by
  rw [(open32_eq_fits Hr rows (by decide)).1]; decide

/-- `membership_fits`: the collision hypothesis is satisfiable (dataset and hash of `C05Schema.lean`) -/
example : FitsCounter sRows ∧ NoCollision (fun b => (beDecode b).toUInt64) sRows [([97], [49])] :=
  ⟨by decide, by unfold NoCollision; decide⟩

/-- the hypothesis of `counter32_wraps` / `open32_wrapped` / `not_ignored_when_wrapped` is satisfiable:
    2^32 empty rows (never evaluated) -/
example : ∃ rows : List Row, rows.length = 2 ^ 32 ∧ ¬ FitsCounter rows :=
  ⟨List.replicate (2 ^ 32) [], List.length_replicate, by
    show ¬ (List.replicate (2 ^ 32) ([] : Row)).length < 2 ^ 32
    rw [List.length_replicate]; exact Nat.lt_irrefl _⟩

/-- the wrap itself on a writer that is one row short of 2^32: the returned id is 2^32-1 and the counter becomes 0 -/
example : (Writer32.addRow Hr { next := 4294967295 } [([1], [2])]).2.toNat = 4294967295 ∧
    (Writer32.addRow Hr { next := 4294967295 } [([1], [2])]).1.next = 0 ∧
    counterBytes (Writer32.addRow Hr { next := 4294967295 } [([1], [2])]).1.next = [0, 0, 0, 0] := by
  decide

end Updog.C05
