/-
C19 — `updog create` ingests a CSV faithfully in both modes: header normalisation and record → row mapping.
(That both writers give the same index from the same rows is C05 `writers_agree`; that an existing output is not
touched is C16.)
-/
import Updog.Model.Create
namespace Updog.C19
open Updog

def isLowerOrUnderscore (b : UInt8) : Bool := (97 ≤ b && b ≤ 122) || b == 95

theorem normRune_alphabet (r : Nat) : isLowerOrUnderscore (normRune r) = true := by
  unfold normRune isLowerOrUnderscore
  split
  · rename_i h
    have : r < 256 := by omega
    have h1 : (97 : UInt8) ≤ r.toUInt8 := by
      rw [UInt8.le_iff_toNat_le]; simp [Nat.toUInt8, UInt8.toNat_ofNat']; omega
    have h2 : r.toUInt8 ≤ (122 : UInt8) := by
      rw [UInt8.le_iff_toNat_le]; simp [Nat.toUInt8, UInt8.toNat_ofNat']; omega
    simp [h1, h2]
  · split
    · rename_i _ h
      have h1 : (97 : UInt8) ≤ (r + 32).toUInt8 := by
        rw [UInt8.le_iff_toNat_le]; simp [Nat.toUInt8, UInt8.toNat_ofNat']; omega
      have h2 : (r + 32).toUInt8 ≤ (122 : UInt8) := by
        rw [UInt8.le_iff_toNat_le]; simp [Nat.toUInt8, UInt8.toNat_ofNat']; omega
      rw [Bool.or_eq_true]; left
      rw [Bool.and_eq_true]
      exact ⟨by simpa using h1, by simpa using h2⟩
    · split
      · decide
      · split <;> decide

/-- every byte of a normalised header is a–z or `_` -/
theorem normalizeAux_alphabet (fuel : Nat) (h : Bytes) : ∀ b ∈ normalizeAux fuel h, isLowerOrUnderscore b = true := by
  induction fuel generalizing h with
  | zero => intro b hb; simp [normalizeAux] at hb
  | succ n ih =>
    cases h with
    | nil => intro b hb; simp [normalizeAux] at hb
    | cons c rest =>
      intro b hb
      simp only [normalizeAux, List.mem_cons] at hb
      rcases hb with rfl | hb
      · exact normRune_alphabet _
      · exact ih _ b hb

theorem normalizeHeader_alphabet (h : Bytes) : ∀ b ∈ normalizeHeader h, isLowerOrUnderscore b = true :=
  normalizeAux_alphabet _ h

/-- on one ASCII byte: lower-case letters kept, upper-case lowered, everything else `_` -/
def asciiNorm (c : UInt8) : UInt8 :=
  if 97 ≤ c ∧ c ≤ 122 then c else if 65 ≤ c ∧ c ≤ 90 then c + 32 else 95

theorem decodeRune_ascii (c : UInt8) (rest : Bytes) (hc : c < 128) : decodeRune (c :: rest) = (c.toNat, 1) := by
  have : c.toNat < 0x80 := by simpa [UInt8.lt_iff_toNat_lt] using hc
  simp [decodeRune, this]

theorem normRune_ascii (c : UInt8) (hc : c < 128) : normRune c.toNat = asciiNorm c := by
  have hlt : c.toNat < 128 := by simpa [UInt8.lt_iff_toNat_lt] using hc
  unfold normRune asciiNorm
  simp only [UInt8.le_iff_toNat_le]
  have e1 : (97 : UInt8).toNat = 97 := rfl
  have e2 : (122 : UInt8).toNat = 122 := rfl
  have e3 : (65 : UInt8).toNat = 65 := rfl
  have e4 : (90 : UInt8).toNat = 90 := rfl
  simp only [e1, e2, e3, e4]
  split
  · apply UInt8.toNat_inj.mp; simp [Nat.toUInt8, UInt8.toNat_ofNat']
  · split
    · apply UInt8.toNat_inj.mp
      simp [Nat.toUInt8, UInt8.toNat_ofNat', UInt8.toNat_add]
    · have h1 : ¬ c.toNat = 0x130 := by omega
      have h2 : ¬ c.toNat = 0x212A := by omega
      simp [h1, h2]

/-- an ASCII header is normalised byte by byte -/
theorem normalizeAux_ascii (fuel : Nat) (h : Bytes) (hf : h.length ≤ fuel) (hascii : ∀ b ∈ h, b < 128) :
    normalizeAux fuel h = h.map asciiNorm := by
  induction fuel generalizing h with
  | zero =>
    have : h = [] := List.length_eq_zero_iff.mp (by omega)
    subst this; simp [normalizeAux]
  | succ n ih =>
    cases h with
    | nil => simp [normalizeAux]
    | cons c rest =>
      have hc : c < 128 := hascii c (by simp)
      simp only [normalizeAux, decodeRune_ascii c rest hc, List.map_cons, List.drop_succ_cons, List.drop_zero]
      rw [normRune_ascii c hc, ih rest (by simpa using hf) (fun b hb => hascii b (by simp [hb]))]

theorem normalizeHeader_ascii (h : Bytes) (hascii : ∀ b ∈ h, b < 128) : normalizeHeader h = h.map asciiNorm :=
  normalizeAux_ascii _ h (Nat.le_refl _) hascii

theorem asciiNorm_fixed (b : UInt8) (hb : isLowerOrUnderscore b = true) : asciiNorm b = b := by
  unfold isLowerOrUnderscore at hb
  unfold asciiNorm
  simp only [Bool.or_eq_true, Bool.and_eq_true, decide_eq_true_eq, beq_iff_eq] at hb
  rcases hb with h | h
  · simp [h]
  · subst h; decide

/-- normalising twice changes nothing -/
theorem normalizeHeader_idempotent (h : Bytes) : normalizeHeader (normalizeHeader h) = normalizeHeader h := by
  have halpha := normalizeHeader_alphabet h
  have hascii : ∀ b ∈ normalizeHeader h, b < 128 := by
    intro b hb
    have := halpha b hb
    unfold isLowerOrUnderscore at this
    simp only [Bool.or_eq_true, Bool.and_eq_true, decide_eq_true_eq, beq_iff_eq] at this
    rcases this with h | h
    · exact Nat.lt_of_le_of_lt (UInt8.le_iff_toNat_le.mp h.2) (by decide)
    · subst h; decide
  rw [normalizeHeader_ascii _ hascii]
  conv => rhs; rw [← List.map_id (normalizeHeader h)]
  apply List.map_congr_left
  intro b hb
  exact asciiNorm_fixed b (halpha b hb)

/-- the i-th record after the header is row i -/
theorem createRows_length (header : List Bytes) (records : List (List Bytes)) :
    (createRows header records).length = records.length := by simp [createRows]

theorem createRows_get (header : List Bytes) (records : List (List Bytes)) (i : Nat) (hi : i < records.length) :
    (createRows header records)[i]? = some (recordRow (header.map normalizeHeader) records[i]) := by
  simp [createRows, hi]

theorem foldl_record_distinct (kvs : List (Bytes × Bytes)) (acc : Row)
    (hnd : (kvs.map (·.1)).Nodup) (hdisj : ∀ kv ∈ kvs, ∀ a ∈ acc, a.1 ≠ kv.1) :
    kvs.foldl (fun row kv => (row.filter (·.1 != kv.1)) ++ [kv]) acc = acc ++ kvs := by
  induction kvs generalizing acc with
  | nil => simp
  | cons kv rest ih =>
    simp only [List.foldl_cons]
    have hfil : acc.filter (·.1 != kv.1) = acc := by
      apply List.filter_eq_self.mpr
      intro a ha
      simpa using hdisj kv (by simp) a ha
    rw [hfil]
    simp only [List.map_cons, List.nodup_cons] at hnd
    rw [ih (acc ++ [kv]) hnd.2 ?_]
    · simp
    · intro kv' hkv' a ha
      simp only [List.mem_append, List.mem_singleton] at ha
      rcases ha with ha | rfl
      · exact hdisj kv' (by simp [hkv']) a ha
      · intro e
        exact hnd.1 (e ▸ List.mem_map.mpr ⟨kv', hkv', rfl⟩)

/-- with header columns that stay distinct after normalisation, a record becomes the row
    {normalised header[j] ↦ field j}: one value per header column, field contents untouched -/
theorem recordRow_distinct (header record : List Bytes) (hnd : header.Nodup) (hlen : record.length = header.length) :
    recordRow header record = header.zip record := by
  unfold recordRow
  have := foldl_record_distinct (header.zip record) [] ?_ (by simp)
  · simpa using this
  · rw [List.map_fst_zip (by omega)]
    exact hnd

example : normalizeHeader [78, 97, 32, 109, 101] = [110, 97, 95, 109, 101] := by  -- "Na me" ↦ "na_me"
  rw [normalizeHeader_ascii _ (by decide)]; decide
example : normalizeHeader [75, 50, 0xC3, 0x84, 98, 0xFF] = [107, 95, 95, 98, 95] := by  -- "K2Äb\xff" ↦ "k__b_"
  simp [normalizeHeader, normalizeAux, decodeRune, normRune]
example : recordRow [[97], [98]] [[49], [50]] = [([97], [49]), ([98], [50])] := by decide

end Updog.C19
