/-
C05 (chain writer → file → reader, and reopening) —

1. the chain the review found missing: the bbolt file the (generated) `WriteToBoltDatabase` commits
   (`Props/Gen/Writer.lean: writeToBoltDatabase_eq` gives the committed transactions as a log, `C05.flush_order_irrelevant`
   their net effect `imageAfter`) → the content of bucket `data` → the `Image` the two column getters read
   (`Model/Getters.lean`, `imageOfData`) → the `Index` of `Model/Index.lean`: the index obtained by opening the file
   written by the generated writer IS `Writer.toIndex` of the writer's state, the index `C01.count_correct`,
   `C02.groupBy_eq_spec`, `C05.schema_roundtrip` speak about. With the generated `AddRow` iterated over `rows`
   (fewer than 2^32 of them, `FitsCounter`) it is `(Writer.addRows H {} rows).toIndex`.
   The gob / roaring coders are parameters (`Ext`) with round-trip hypotheses, as in `Props/Gen/Open.lean`.
2. reopening: `OpenIndexFromBoltDatabase` does not change the file, and its outcome, the returned schema and counter,
   every `GetCol` answer and hence every query result depend on the file content only — so opening the written file any
   number of times (any handles, any interleaved closes) changes no answer.

Property theorems only; helper lemmas live in Updog/Proofs/GenFlushData.lean and Updog/Proofs/GenReopen.lean.
-/
import Updog.Proofs.GenReopen
import Updog.Props.C01Getters
import Updog.Props.C01Counter
namespace Updog.C05
open Updog Updog.Go.T3 Updog.GeneratedEq

/-! ### definitions -/

/-- the `Index` of `Model/Index.lean` a header (decoded schema, decoded counter) and the bucket content induce: schema,
    counter, and `getCol` = what the on-demand getter answers on the `Image` of the `'V'` keys -/
def indexOfHeader (X : Ext) (c : Buckets) (hd : Option SchemaVal × UInt32) : Updog.Index :=
  (imageOfData X ((bucketsGet c dataName).getD [])).toIndex (hd.1.getD []) hd.2.toNat

/-- … for the `*Index` the generated `OpenIndexFromBoltDatabase` returned on the file with committed content `c` -/
def absIndex (X : Ext) (c : Buckets) (ix : Go.T3.Index) : Updog.Index := indexOfHeader X c (header ix)

/-- a database handle and its surroundings: handle id, transaction counter, commit history, heap -/
abbrev Session := Nat × Nat × List (List PutRec) × Heap

/-- `OpenIndexFromBoltDatabase(db)` on a file with committed content `c`, through the handle of session `s` -/
def openIn (X : Ext) (c : Buckets) (s : Session) : Bolt × Heap × Option Go.T3.Index × Error :=
  Gen.openIndexFromBoltDatabase X (idle s.1 s.2.1 c s.2.2.1) s.2.2.2 (some s.1) []

/-- the committed content of the file after `k` rounds of "open it (session `sess j`), close the handle" -/
def fileAfter (X : Ext) (c : Buckets) (sess : Nat → Session) : Nat → Buckets
  | 0 => c
  | k + 1 => (dbClose (openIn X (fileAfter X c sess k) (sess k)).1 (some (sess k).1)).1.committed

/-! ### 1. writer → file → reader -/

/-- **The file.** After the generated `WriteToBoltDatabase` on a database without bucket `data`, for ANY enumeration
`rng` of `idx.values`, bucket `data` of the committed state is in cursor order, its `'V'` keys are `'V' ‖ be64(index)`,
`'S'` holds the gob of the writer's schema, `'I'` the big-endian 4 bytes of the `uint32` counter, and — with a
round-tripping bitmap coder — the `Index` that the `Image` of this bucket induces is exactly `Writer.toIndex` of the
writer's state. -/
theorem written_file_is_toIndex (X : Ext) (hroar : ∀ b, X.roaringFromBuffer (X.roaringToBytes b) = some b)
    (rng : List (UInt64 × Ptr)) (bolt : Bolt) (hp : Heap) (idx : IndexWriter) (db : DBRef)
    (hdb : db = some bolt.id) (hopen : bolt.closed = false) (hnotx : bolt.tx = none)
    (hfresh : bucketsGet bolt.committed dataName = none)
    (hperm : rng.Perm idx.values) (hnd : KeysNodup (absWriter hp idx).vals) :
    ∃ d, bucketsGet (Gen.writeToBoltDatabase X rng bolt hp idx db).1.committed dataName = some d ∧
      SortedData d ∧ WellKeyed d ∧
      dataGet d [83] = some (X.gobEncode (absWriter hp idx).schema) ∧
      dataGet d [73] = some (be32 idx.nextRowID.toNat) ∧
      (∀ h, dataGet d (86 :: be64 h.toNat) = ((absWriter hp idx).vals.get h).map X.roaringToBytes) ∧
      (imageOfData X d).toIndex (absWriter hp idx).schema (absWriter hp idx).next = (absWriter hp idx).toIndex := by
  have hdata := writeToBoltDatabase_data X rng bolt hp idx db hdb hopen hnotx
  rw [hfresh] at hdata
  change _ = some (fileData X [] _ _ _) at hdata
  have hp' : (absVals hp rng).Perm (absVals hp idx.values) := absVals_perm hp rng idx.values hperm
  have hn : KeysNodup (absVals hp rng) := (List.Perm.map (fun x : UInt64 × Nat => x.1) hp').nodup_iff.mpr hnd
  have hget : (absVals hp rng).get = (absVals hp idx.values).get := funext fun h => ValMap.get_perm hp' hnd h
  obtain ⟨s1, s2, s3, s4, s5⟩ := fileData_spec X (absVals hp rng) hn (schemaValue hp idx.schema) idx.nextRowID
  refine ⟨_, hdata, s1, s2, s3, s4, ?_, ?_⟩
  · intro h; rw [s5 h, hget]; rfl
  · rw [fileData_toIndex X hroar (absVals hp rng) hn, hget]; rfl

/-- **Log view = bucket view.** The net effect `imageAfter` of the committed transactions (`writeTxs`, the log
`writeToBoltDatabase_eq` speaks about) and the bucket content the reader sees agree: same bitmap under every value
index (as `Image`s of `Model/Getters.lean`), the `'S'` blob decodes to the logged schema, the `'I'` bytes to the logged
counter. -/
theorem written_file_matches_log (X : Ext) (hroar : ∀ b, X.roaringFromBuffer (X.roaringToBytes b) = some b)
    (rng : List (UInt64 × Ptr)) (bolt : Bolt) (hp : Heap) (idx : IndexWriter) (db : DBRef)
    (hgob : X.gobDecode (X.gobEncode (absWriter hp idx).schema) = some (absWriter hp idx).schema)
    (hdb : db = some bolt.id) (hopen : bolt.closed = false) (hnotx : bolt.tx = none)
    (hfresh : bucketsGet bolt.committed dataName = none)
    (hperm : rng.Perm idx.values) (hnd : KeysNodup (absWriter hp idx).vals) :
    let txs := writeTxs (absWriter hp idx).schema (absWriter hp idx).next (absVals hp rng) 1000
    (Gen.writeToBoltDatabase X rng bolt hp idx db).1.commits = bolt.commits ++ txs.map (renderTx X) ∧
    ∃ d sb cb, bucketsGet (Gen.writeToBoltDatabase X rng bolt hp idx db).1.committed dataName = some d ∧
      (∀ h, (imageOfData X d).get h = (imageOf (imageAfter txs txs.length).vals).get h) ∧
      dataGet d [83] = some sb ∧ (X.gobDecode sb) = (imageAfter txs txs.length).schema ∧
      dataGet d [73] = some cb ∧ cb.length = 4 ∧ some (beUint32 cb).toNat = (imageAfter txs txs.length).counter := by
  intro txs
  obtain ⟨d, h1, _, h3, h4, h5, h6, _⟩ :=
    written_file_is_toIndex X hroar rng bolt hp idx db hdb hopen hnotx hfresh hperm hnd
  have hp' : (absVals hp rng).Perm (absWriter hp idx).vals := absVals_perm hp rng idx.values hperm
  obtain ⟨_, f2, f3, f4, _, _⟩ := flush_order_irrelevant (absWriter hp idx) hnd (absVals hp rng) hp' 1000 (by decide)
  refine ⟨(writeToBoltDatabase_eq X rng bolt hp idx db hdb hopen hnotx).2.1, d, _, _, h1, ?_, h4, ?_, h5, rfl, ?_⟩
  · intro h
    rw [get_imageOfData X d h3 h, h6 h, get_imageOf, f2 h]
    cases (absWriter hp idx).vals.get h with
    | none => rfl
    | some b => simp [hroar b]
  · rw [hgob]; exact f3.symm
  · rw [beUint32_be32]; exact f4.symm

/-- **The reader on the written file.** `OpenIndexFromBoltDatabase` on the written file (through any handle) succeeds
and returns the writer's schema and the writer's counter with the on-demand getter, and the `Index` the returned
`*Index` and the file induce is `Writer.toIndex` of the writer's state. -/
theorem written_file_opens (X : Ext) (hroar : ∀ b, X.roaringFromBuffer (X.roaringToBytes b) = some b)
    (rng : List (UInt64 × Ptr)) (bolt : Bolt) (hp : Heap) (idx : IndexWriter) (db : DBRef)
    (hgob : X.gobDecode (X.gobEncode (absWriter hp idx).schema) = some (absWriter hp idx).schema)
    (hdb : db = some bolt.id) (hopen : bolt.closed = false) (hnotx : bolt.tx = none)
    (hfresh : bucketsGet bolt.committed dataName = none)
    (hperm : rng.Perm idx.values) (hnd : KeysNodup (absWriter hp idx).vals)
    (i n : Nat) (cs : List (List PutRec)) (hp' : Heap) :
    let c := (Gen.writeToBoltDatabase X rng bolt hp idx db).1.committed
    let ix : Go.T3.Index := { schema := some (absWriter hp idx).schema, nextRowID := idx.nextRowID, db := some i,
                              values := .onDemand { db := some i }, cache := .nullCache, metrics := .fresh }
    Gen.openIndexFromBoltDatabase X (idle i n c cs) hp' (some i) [] = (idle i (n + 1) c cs, hp', some ix, none) ∧
    absIndex X c ix = (absWriter hp idx).toIndex := by
  intro c ix
  obtain ⟨d, h1, _, h3, h4, h5, _, h7⟩ :=
    written_file_is_toIndex X hroar rng bolt hp idx db hdb hopen hnotx hfresh hperm hnd
  have hopenr := openIndex_noPreload_result X i n c cs hp' d _ _ _ h1 h4 hgob h5 rfl
  rw [beUint32_be32] at hopenr
  refine ⟨hopenr, ?_⟩
  show (imageOfData X ((bucketsGet c dataName).getD [])).toIndex _ _ = _
  rw [h1]; exact h7

/-- … and every `GetCol` of the on-demand getter on the written file answers what `getCol` of that `Index` says
(an error or nil where it says `none`), and leaves the file alone. -/
theorem written_file_getCol (X : Ext) (hroar : ∀ b, X.roaringFromBuffer (X.roaringToBytes b) = some b)
    (hnil : X.roaringFromBuffer [] = none)
    (rng : List (UInt64 × Ptr)) (bolt : Bolt) (hp : Heap) (idx : IndexWriter) (db : DBRef)
    (hdb : db = some bolt.id) (hopen : bolt.closed = false) (hnotx : bolt.tx = none)
    (hfresh : bucketsGet bolt.committed dataName = none)
    (hperm : rng.Perm idx.values) (hnd : KeysNodup (absWriter hp idx).vals)
    (i n : Nat) (cs : List (List PutRec)) (hp' : Heap) (key : UInt64) :
    let c := (Gen.writeToBoltDatabase X rng bolt hp idx db).1.committed
    let r := Gen.onDemandGetCol X (idle i n c cs) hp' { db := some i } key
    (answerOf r.2.1 r.2.2.1 r.2.2.2).toOption.join = (absWriter hp idx).toIndex.getCol key ∧
    r.1 = idle i (n + 1) c cs := by
  intro c r
  obtain ⟨d, h1, _, h3, _, _, _, h7⟩ :=
    written_file_is_toIndex X hroar rng bolt hp idx db hdb hopen hnotx hfresh hperm hnd
  have hg := onDemandGetCol_eq X i n c cs hp' d key h1 h3 hnil
  simp only at hg
  refine ⟨?_, hg.2⟩
  show (answerOf _ _ _).toOption.join = _
  rw [hg.1, ← h7]
  show ((onDemandGet (imageOfData X d) key).map some).toOption.join = ((imageOfData X d).get key).join
  rw [← C01.onDemandGet_toOption]
  cases onDemandGet (imageOfData X d) key <;> rfl

section rows
variable (H : Bytes → UInt64)

/-- **The generated `AddRow` and the 32-bit counter.** With fewer than 2^32 rows, the successive calls of the generated
`AddRow` return the positions 0, 1, 2, … (as `uint32`) with a nil error, the counter ends at `rows.length`, and the
writer's state abstracts to `Writer.addRows H {} rows`. -/
theorem generated_addRow_ids_fits (rows : List Row) (hfit : FitsCounter rows) :
    (genAddRowsIds H ({}, {}) rows).map (fun p => (p.1.toNat, p.2)) = (List.range rows.length).map (fun i => (i, nilError)) ∧
    (genAddRows H ({}, {}) rows).2.nextRowID.toNat = rows.length ∧
    absWriter (genAddRows H ({}, {}) rows).1 (genAddRows H ({}, {}) rows).2 = Writer.addRows H {} rows := by
  have hroom : (({} : IndexWriter).nextRowID).toNat + rows.length < 2 ^ 32 := by
    show 0 + rows.length < 2 ^ 32
    have : rows.length < 2 ^ 32 := hfit
    omega
  obtain ⟨habs, _, hids⟩ := genAddRows_spec H rows {} {} (wf_empty H) hroom
  have habs' : absWriter (genAddRows H ({}, {}) rows).1 (genAddRows H ({}, {}) rows).2 = Writer.addRows H {} rows := habs
  refine ⟨?_, ?_, habs'⟩
  · rw [hids]
    show (Writer.addRowsIds H {} rows).map _ = _
    rw [(addRow_ids H rows).1]
  · have := congrArg Writer.next habs'
    rw [(winv_addRows H rows).next] at this
    exact this

/-- **From the rows to the opened index.** Add `rows` (fewer than 2^32) with the generated `AddRow` to a fresh writer,
flush with the generated `WriteToBoltDatabase` into a database without bucket `data`, open the file with the generated
`OpenIndexFromBoltDatabase`: the call succeeds and the `Index` it induces is `(Writer.addRows H {} rows).toIndex`. -/
theorem rows_written_opened (X : Ext) (hroar : ∀ b, X.roaringFromBuffer (X.roaringToBytes b) = some b)
    (rows : List Row) (hfit : FitsCounter rows)
    (hgob : X.gobDecode (X.gobEncode (Writer.addRows H {} rows).schema) = some (Writer.addRows H {} rows).schema)
    (rng : List (UInt64 × Ptr)) (hperm : rng.Perm (genAddRows H ({}, {}) rows).2.values)
    (bolt : Bolt) (db : DBRef) (hdb : db = some bolt.id) (hopen : bolt.closed = false) (hnotx : bolt.tx = none)
    (hfresh : bucketsGet bolt.committed dataName = none) (s : Session) :
    let w := genAddRows H ({}, {}) rows
    let c := (Gen.writeToBoltDatabase X rng bolt w.1 w.2 db).1.committed
    ∃ ix, (openIn X c s).2.2 = (some ix, none) ∧ (openIn X c s).1.committed = c ∧
      header ix = (some (Writer.addRows H {} rows).schema, (rows.length).toUInt32) ∧
      absIndex X c ix = (Writer.addRows H {} rows).toIndex := by
  intro w c
  have hroom : (({} : IndexWriter).nextRowID).toNat + rows.length < 2 ^ 32 := by
    show 0 + rows.length < 2 ^ 32
    have : rows.length < 2 ^ 32 := hfit
    omega
  obtain ⟨habs, _, _⟩ := genAddRows_spec H rows {} {} (wf_empty H) hroom
  have habs' : absWriter w.1 w.2 = Writer.addRows H {} rows := habs
  have hnd : KeysNodup (absWriter w.1 w.2).vals := by rw [habs']; exact writer_keys_unique H rows
  have hnext : w.2.nextRowID = (rows.length).toUInt32 := by
    have h1 : w.2.nextRowID.toNat = rows.length := by
      have := congrArg Writer.next habs'
      rw [(winv_addRows H rows).next] at this
      exact this
    rw [← h1]; exact UInt32.ofNat_toNat.symm
  obtain ⟨o1, o2⟩ := written_file_opens X hroar rng bolt w.1 w.2 db (by rw [habs']; exact hgob) hdb hopen hnotx
    hfresh hperm hnd s.1 s.2.1 s.2.2.1 s.2.2.2
  refine ⟨{ schema := some (absWriter w.1 w.2).schema, nextRowID := w.2.nextRowID, db := some s.1,
             values := .onDemand { db := some s.1 }, cache := .nullCache, metrics := .fresh }, ?_, ?_, ?_, ?_⟩
  · exact congrArg (fun r => r.2.2) o1
  · exact congrArg (fun r => r.1.committed) o1
  · show (some (absWriter w.1 w.2).schema, w.2.nextRowID) = _
    rw [habs', hnext]
  · rw [o2, habs']

end rows

/-! ### 2. reopening -/

theorem dbClose_committed (b : Bolt) (db : DBRef) : (dbClose b db).1.committed = b.committed := by
  unfold dbClose; split <;> rfl

/-- **Opening reads, it does not write**: whether `OpenIndexFromBoltDatabase` succeeds or fails, the committed content
of the file and its commit history are what they were — also after the handle is closed. -/
theorem open_leaves_file (X : Ext) (c : Buckets) (s : Session) :
    (openIn X c s).1.committed = c ∧ (openIn X c s).1.commits = s.2.2.1 ∧
    (dbClose (openIn X c s).1 (some s.1)).1.committed = c := by
  obtain ⟨h1, h2⟩ := open_committed X s.1 s.2.1 c s.2.2.1 s.2.2.2
  exact ⟨h1, h2, by rw [dbClose_committed]; exact h1⟩

/-- after any number of open/close rounds the file is the file -/
theorem reopen_file_unchanged (X : Ext) (c : Buckets) (sess : Nat → Session) (k : Nat) : fileAfter X c sess k = c := by
  induction k with
  | zero => rfl
  | succ k ih =>
    show (dbClose (openIn X (fileAfter X c sess k) (sess k)).1 (some (sess k).1)).1.committed = c
    rw [ih]
    exact (open_leaves_file X c (sess k)).2.2

/-- **Reopening any number of times changes no answer.** For every file content `c` (a complete index, a partial one,
anything), every sequence of sessions and every `k`: the `k`-th open (after `k` earlier open/close rounds, through
whatever handle, transaction counter, commit history and heap) fails iff the first one fails, returns the same decoded
schema and the same counter, induces the same `Index`, and therefore gives the same result for EVERY query. -/
theorem reopen_any_number_of_times (H : Bytes → UInt64) (X : Ext) (c : Buckets) (sess : Nat → Session) (k : Nat) :
    let rk := openIn X (fileAfter X c sess k) (sess k)
    let r0 := openIn X c (sess 0)
    isErr rk.2.2.2 = isErr r0.2.2.2 ∧
    rk.2.2.1.map header = r0.2.2.1.map header ∧
    rk.2.2.1.map (absIndex X c) = r0.2.2.1.map (absIndex X c) ∧
    ∀ q, rk.2.2.1.map (fun ix => execute H (absIndex X c ix) q) = r0.2.2.1.map (fun ix => execute H (absIndex X c ix) q) := by
  intro rk r0
  have hk : rk = openIn X c (sess k) := by show openIn X (fileAfter X c sess k) (sess k) = _; rw [reopen_file_unchanged]
  obtain ⟨e1, e2⟩ := open_depends_on_file_only X c (sess k).1 (sess k).2.1 (sess k).2.2.1 (sess k).2.2.2
    (sess 0).1 (sess 0).2.1 (sess 0).2.2.1 (sess 0).2.2.2
  have e2' : rk.2.2.1.map header = r0.2.2.1.map header := by rw [hk]; exact e2
  have hcomp : ∀ (f : Updog.Index → Option Result) (o : Option Go.T3.Index),
      o.map (fun ix => f (absIndex X c ix)) = (o.map header).map (fun hd => f (indexOfHeader X c hd)) := by
    intro f o; cases o <;> rfl
  have hcomp2 : ∀ (o : Option Go.T3.Index), o.map (absIndex X c) = (o.map header).map (indexOfHeader X c) := by
    intro o; cases o <;> rfl
  refine ⟨by rw [hk]; exact e1, e2', ?_, ?_⟩
  · rw [hcomp2, hcomp2, e2']
  · intro q
    rw [hcomp (fun ix => execute H ix q), hcomp (fun ix => execute H ix q), e2']

/-- the on-demand getter's answers depend on the file content only, and asking leaves the file alone -/
theorem getCol_depends_on_file_only (X : Ext) (c : Buckets) (d : BucketData) (hb : bucketsGet c dataName = some d)
    (wk : WellKeyed d) (hnil : X.roaringFromBuffer [] = none) (s s' : Session) (key : UInt64) :
    let r := Gen.onDemandGetCol X (idle s.1 s.2.1 c s.2.2.1) s.2.2.2 { db := some s.1 } key
    let r' := Gen.onDemandGetCol X (idle s'.1 s'.2.1 c s'.2.2.1) s'.2.2.2 { db := some s'.1 } key
    answerOf r.2.1 r.2.2.1 r.2.2.2 = answerOf r'.2.1 r'.2.2.1 r'.2.2.2 ∧ r.1.committed = c ∧ r'.1.committed = c := by
  intro r r'
  have g := onDemandGetCol_eq X s.1 s.2.1 c s.2.2.1 s.2.2.2 d key hb wk hnil
  have g' := onDemandGetCol_eq X s'.1 s'.2.1 c s'.2.2.1 s'.2.2.2 d key hb wk hnil
  simp only at g g'
  refine ⟨g.1.trans g'.1.symm, ?_, ?_⟩
  · show (Gen.onDemandGetCol X _ _ _ key).1.committed = c
    rw [g.2]; rfl
  · show (Gen.onDemandGetCol X _ _ _ key).1.committed = c
    rw [g'.2]; rfl

section rows
variable (H : Bytes → UInt64)

/-- **The written index, reopened.** Under the hypotheses of `rows_written_opened`: after any number of open/close rounds
the next open still succeeds and still induces `(Writer.addRows H {} rows).toIndex` — so every query gets the answer it
gets on that index. -/
theorem reopen_written_rows (X : Ext) (hroar : ∀ b, X.roaringFromBuffer (X.roaringToBytes b) = some b)
    (rows : List Row) (hfit : FitsCounter rows)
    (hgob : X.gobDecode (X.gobEncode (Writer.addRows H {} rows).schema) = some (Writer.addRows H {} rows).schema)
    (rng : List (UInt64 × Ptr)) (hperm : rng.Perm (genAddRows H ({}, {}) rows).2.values)
    (bolt : Bolt) (db : DBRef) (hdb : db = some bolt.id) (hopen : bolt.closed = false) (hnotx : bolt.tx = none)
    (hfresh : bucketsGet bolt.committed dataName = none) (sess : Nat → Session) (k : Nat) :
    let w := genAddRows H ({}, {}) rows
    let c := (Gen.writeToBoltDatabase X rng bolt w.1 w.2 db).1.committed
    ∃ ix, (openIn X (fileAfter X c sess k) (sess k)).2.2 = (some ix, none) ∧
      absIndex X c ix = (Writer.addRows H {} rows).toIndex ∧
      ∀ q, execute H (absIndex X c ix) q = execute H (Writer.addRows H {} rows).toIndex q := by
  intro w c
  obtain ⟨ix, h1, _, _, h4⟩ :=
    rows_written_opened H X hroar rows hfit hgob rng hperm bolt db hdb hopen hnotx hfresh (sess k)
  refine ⟨ix, ?_, h4, fun q => by rw [h4]⟩
  show (openIn X (fileAfter X c sess k) (sess k)).2.2 = _
  rw [reopen_file_unchanged]
  exact h1

/-- **C01 through the whole chain**: rows added with the generated `AddRow`, flushed with the generated
`WriteToBoltDatabase`, the file opened with the generated `OpenIndexFromBoltDatabase` for the `k+1`-st time — `Execute` on
the induced index returns exactly the number of rows satisfying the expression. -/
theorem count_correct_reopened (X : Ext) (hroar : ∀ b, X.roaringFromBuffer (X.roaringToBytes b) = some b)
    (rows : List Row) (hfit : FitsCounter rows)
    (hgob : X.gobDecode (X.gobEncode (Writer.addRows H {} rows).schema) = some (Writer.addRows H {} rows).schema)
    (rng : List (UInt64 × Ptr)) (hperm : rng.Perm (genAddRows H ({}, {}) rows).2.values)
    (bolt : Bolt) (db : DBRef) (hdb : db = some bolt.id) (hopen : bolt.closed = false) (hnotx : bolt.tx = none)
    (hfresh : bucketsGet bolt.committed dataName = none) (sess : Nat → Session) (k : Nat)
    (e : Expr) (hcols : ∀ c ∈ e.columns, c ∈ columnsOf rows) (hwf : e.arityPos = true)
    (hinj : NoCollision H rows e.pairs) :
    let w := genAddRows H ({}, {}) rows
    let c := (Gen.writeToBoltDatabase X rng bolt w.1 w.2 db).1.committed
    ∃ ix, (openIn X (fileAfter X c sess k) (sess k)).2.2 = (some ix, none) ∧
      execute H (absIndex X c ix) ⟨e, []⟩ = some ⟨specCount rows e, []⟩ := by
  intro w c
  obtain ⟨ix, h1, _, h3⟩ := reopen_written_rows H X hroar rows hfit hgob rng hperm bolt db hdb hopen hnotx hfresh sess k
  exact ⟨ix, h1, by rw [h3]; exact C01.count_correct H rows e hcols hwf hinj⟩

end rows

/-! ### non-vacuity -/

/-- coders that round-trip: bitmaps in unary (`b ↦ b+1` zero bytes, so `FromBuffer(nil)` fails), a schema coder that
    knows the one schema `s0` -/
def unaryExt (s0 : SchemaVal) : Ext where
  roaringToBytes b := List.replicate (b + 1) 0
  roaringFromBuffer bs := if bs.isEmpty then none else some (bs.length - 1)
  gobEncode _ := [1]
  gobDecode _ := some s0

theorem unaryExt_roar (s0 : SchemaVal) (b : Nat) :
    (unaryExt s0).roaringFromBuffer ((unaryExt s0).roaringToBytes b) = some b := by
  simp [unaryExt, List.replicate_succ]

/-- value index = length of the encoded pair (as in `Props/Gen/Open.lean`) -/
def exH : Bytes → UInt64 := fun b => (b.length : Nat).toUInt64
def exRows : List Row := [[([1], [2]), ([1, 5], [3])], [([1], [2])]]
def exExt : Ext := unaryExt (Writer.addRows exH {} exRows).schema

/-- the file: rows added with the generated `AddRow`, flushed with the generated `WriteToBoltDatabase` in REVERSED map
    order into an empty database -/
def exFile : Buckets :=
  (Gen.writeToBoltDatabase exExt (genAddRows exH ({}, {}) exRows).2.values.reverse {} (genAddRows exH ({}, {}) exRows).1
    (genAddRows exH ({}, {}) exRows).2 (some 0)).1.committed

/-- all hypotheses of `rows_written_opened` / `reopen_written_rows` / `count_correct_reopened` hold for it … -/
example : FitsCounter exRows ∧
    exExt.gobDecode (exExt.gobEncode (Writer.addRows exH {} exRows).schema) = some (Writer.addRows exH {} exRows).schema ∧
    (genAddRows exH ({}, {}) exRows).2.values.reverse.Perm (genAddRows exH ({}, {}) exRows).2.values ∧
    bucketsGet ({} : Bolt).committed dataName = none ∧ exExt.roaringFromBuffer [] = none :=
  ⟨by decide, rfl, List.reverse_perm _, rfl, rfl⟩

example : (genAddRowsIds exH ({}, {}) exRows).map (fun p => (p.1.toNat, p.2)) = [(0, none), (1, none)] :=
  (generated_addRow_ids_fits exH exRows (by decide)).1

/-- … so the third open (sessions with different handles and heaps) induces the model writer's index, -/
example (sess : Nat → Session) : ∃ ix, (openIn exExt (fileAfter exExt exFile sess 2) (sess 2)).2.2 = (some ix, none) ∧
    absIndex exExt exFile ix = (Writer.addRows exH {} exRows).toIndex := by
  obtain ⟨ix, h1, h2, _⟩ := reopen_written_rows exH exExt (unaryExt_roar _) exRows (by decide) rfl _ (List.reverse_perm _)
    {} (some 0) rfl rfl rfl rfl sess 2
  exact ⟨ix, h1, h2⟩

/-- the bucket really is what the chain says: cursor order `'I' < 'S' < 'V'…`, counter `00 00 00 02`, bitmaps in unary -/
example : exFile = [([100, 97, 116, 97],
    [([73], [0, 0, 0, 2]), ([83], [1]), ([86, 0, 0, 0, 0, 0, 0, 0, 3], [0, 0, 0, 0]), ([86, 0, 0, 0, 0, 0, 0, 0, 4], [0, 0])])] := by
  decide

/-- and the model side: value index 3 (pair `1=2`) holds rows {0,1}, value index 4 (pair `15=3`) row {0}, counter 2 -/
example : (Writer.addRows exH {} exRows).toIndex.getCol 3 = some 3 ∧ (Writer.addRows exH {} exRows).toIndex.getCol 4 = some 1 ∧
    (Writer.addRows exH {} exRows).toIndex.next = 2 := by decide

/-- `reopen_any_number_of_times` needs nothing of the file: a file without header is rejected the same way every time -/
example (sess : Nat → Session) :
    isErr (openIn exExt (fileAfter exExt [([100, 97, 116, 97], [([83], [1])])] sess 5) (sess 5)).2.2.2
      = isErr (openIn exExt [([100, 97, 116, 97], [([83], [1])])] (sess 0)).2.2.2 :=
  (reopen_any_number_of_times exH exExt _ sess 5).1

example : isErr (openIn exExt [([100, 97, 116, 97], [([83], [1])])] (0, 0, [], {})).2.2.2 = true := by decide

end Updog.C05
