/-
Line-protocol driver over the executable model (`Updog.Model.*`) and specification (`Updog.Spec.*`).
One request per line, one answer line per request. Byte strings are hex (`-` = empty).
-/
import Updog.Basic.XXHash
import Updog.Model.Index
import Updog.Model.CacheKey
import Updog.Model.Rows
import Updog.Model.Server
import Updog.Model.Cache
import Updog.Model.BigWriter
import Updog.Model.FastBits
import Updog.Spec.Sat
import Std.Data.HashMap
open Updog
namespace Updog.Oracle

/-! ## fast construction of the index (same meaning as `Writer.addRows`, hash maps instead of lists);
for datasets too large for the list-based model. Small datasets are built both ways and compared. -/

structure FastW where
  cols : Array Bytes := #[]
  colVals : Std.HashMap Bytes (Array (Bytes × UInt64)) := {}
  seen : Std.HashMap (Bytes × Bytes) Unit := {}
  ids : Std.HashMap UInt64 (Array Nat) := {}
  next : Nat := 0

/-- one `(column, value)` pair of a row (`next` is the id of the row being added) -/
def FastW.addPair (w : FastW) (kv : Bytes × Bytes) : FastW :=
  let h := xxhash64 (encodePair kv.1 kv.2)
  let w1 : FastW :=
    if !w.seen.contains (kv.1, kv.2) then
      let cols := if w.colVals.contains kv.1 then w.cols else w.cols.push kv.1
      -- `alter` updates the array in place (a lookup followed by `insert` would copy it on every push)
      let colVals := w.colVals.alter kv.1 fun
        | none => some #[(kv.2, h)]
        | some a => some (a.push (kv.2, h))
      { w with seen := w.seen.insert (kv.1, kv.2) (), colVals := colVals, cols := cols }
    else w
  let next := w1.next
  let ids := w1.ids.alter h fun
    | none => some #[next]
    | some a => some (a.push next)
  { w1 with ids := ids }

def FastW.addRow (w : FastW) (r : Row) : FastW :=
  -- read `next` BEFORE the fold: a use of `w` after it would keep `w` shared and make every `alter` copy its map
  let n := w.next + 1
  { (r.foldl FastW.addPair w) with next := n }

def FastW.toIndex (w : FastW) : Index :=
  let m : Std.HashMap UInt64 Nat := w.ids.fold (fun m h a => m.insert h (natOfIdsArray a)) {}
  { schema := w.cols.toList.map fun c => (c, (w.colVals.getD c #[]).toList),
    next := w.next,
    getCol := fun h => m[h]? }

/-! ## protocol helpers -/

def hexs (ws : List String) : Option (List Bytes) := ws.mapM fromHex

partial def parseExprToks : List String → Option (Expr × List String)
  | "E" :: c :: v :: rest => do
    let c ← fromHex c; let v ← fromHex v
    pure (.eq c v, rest)
  | "N" :: rest => do
    let (e, rest) ← parseExprToks rest
    pure (.not e, rest)
  | "A" :: n :: rest => do
    let n ← n.toNat?
    let (es, rest) ← parseN n rest
    pure (.and es, rest)
  | "O" :: n :: rest => do
    let n ← n.toNat?
    let (es, rest) ← parseN n rest
    pure (.or es, rest)
  | _ => none
where
  parseN : Nat → List String → Option (List Expr × List String)
    | 0, rest => some ([], rest)
    | n + 1, rest => do
      let (e, rest) ← parseExprToks rest
      let (es, rest) ← parseN n rest
      pure (e :: es, rest)

partial def parseWExpr : List String → Option (WExpr × List String)
  | "U" :: rest => some (.unset, rest)
  | "E" :: c :: v :: rest => do
    let c ← fromHex c; let v ← fromHex v
    pure (.eq c v, rest)
  | "N" :: "Z" :: rest => some (.not none, rest)
  | "N" :: rest => do
    let (e, rest) ← parseWExpr rest
    pure (.not (some e), rest)
  | "A" :: n :: rest => do
    let n ← n.toNat?
    let (es, rest) ← parseWN n rest
    pure (.and es, rest)
  | "O" :: n :: rest => do
    let n ← n.toNat?
    let (es, rest) ← parseWN n rest
    pure (.or es, rest)
  | _ => none
where
  parseWN : Nat → List String → Option (List WExpr × List String)
    | 0, rest => some ([], rest)
    | n + 1, rest => do
      let (e, rest) ← parseWExpr rest
      let (es, rest) ← parseWN n rest
      pure (e :: es, rest)

/-- `<ngb> <col>* <expr tokens>` -/
def parseQuery (ws : List String) : Option Query := do
  match ws with
  | n :: rest =>
    let n ← n.toNat?
    if rest.length < n then none else
    let cols ← hexs (rest.take n)
    let (e, rest') ← parseExprToks (rest.drop n)
    if rest' != [] then none else
    pure ⟨e, cols⟩
  | [] => none

def fmtFields (t : Fields) : String :=
  if t.isEmpty then "." else ",".intercalate (t.map fun cv => toHex cv.1 ++ "=" ++ toHex cv.2)

def fmtResult : Option Result → String
  | none => "err"
  | some r => s!"ok {r.count}" ++ String.join (r.groups.map fun g => s!" g {fmtFields g.1}:{g.2}")

def fmtSchema (s : List (Bytes × List Bytes)) : String :=
  "ok" ++ String.join (s.map fun cv => " " ++ toHex cv.1 ++ ":" ++ ",".intercalate (cv.2.map toHex))

/-- an unbounded map cache that logs every call: the harness drives the real code with the same kind of cache
    and compares the logs, which ties the order and keys of the cache calls of `evalC` to the Go `eval` methods -/
abbrev LogCache := List (UInt64 × Nat) × List String

def logCacheImpl : CacheImpl LogCache where
  get := fun s k =>
    match s.1.find? (·.1 == k) with
    | some kv => ((s.1, s.2 ++ ["g" ++ toHex (be64 k.toNat) ++ ":h"]), some kv.2)
    | none => ((s.1, s.2 ++ ["g" ++ toHex (be64 k.toNat) ++ ":m"]), none)
  put := fun s k bm => (((k, bm) :: s.1.filter (·.1 != k)), s.2 ++ ["p" ++ toHex (be64 k.toNat)])

structure IdxSt where
  rows : Array Row := #[]
  fast : FastW := {}
  ix : Option Index := none        -- fast-built
  mix : Option Index := none       -- list-model-built (small datasets only)
  logc : List (UInt64 × Nat) := [] -- contents of the logging cache (C03/C04 tie)

def imageLine (ix : Index) (w : Writer) : String :=
  let keys := (w.vals.map (·.1.toNat)).mergeSort (· ≤ ·)
  s!"ok I={ix.next} n={keys.length}" ++ String.join (keys.map fun k => " " ++ toHex (be64 k))

def stepIdx (st : IdxSt) (cmd : String) (args : List String) : IdxSt × String :=
  match cmd with
  | "reset" => ({}, "ok")
  | "row" =>
    match hexs args with
    | none => (st, "bad-op")
    | some bs =>
      let rec pairs : List Bytes → Option Row
        | [] => some []
        | [_] => none
        | k :: v :: rest => (pairs rest).map ((k, v) :: ·)
      match pairs bs with
      | none => (st, "bad-op")
      | some r => ({ st with rows := st.rows.push r, fast := st.fast.addRow r }, "ok")
  | "build" =>
    let ix := st.fast.toIndex
    match args with
    | ["model"] =>
      let w := Writer.addRows xxhash64 {} st.rows.toList
      let mix := w.toIndex
      -- self-check: both constructions agree on schema, size and every bitmap
      let same := mix.next == ix.next && getSchema mix == getSchema ix &&
        w.vals.all (fun kb => ix.getCol kb.1 == some kb.2) && w.vals.length == st.fast.ids.size
      ({ st with ix := some ix, mix := some mix }, if same then s!"ok rows={ix.next}" else "model-fast-mismatch")
    | _ => ({ st with ix := some ix, mix := none }, s!"ok rows={ix.next}")
  | "q" =>   -- model Execute on the (fast-built) index
    match st.ix, parseQuery args with
    | some ix, some q => (st, fmtResult (executeFast xxhash64 ix q))
    | _, _ => (st, "bad-op")
  | "qm" =>  -- model Execute, exactly the definitions the theorems are about, on the list-built index
    match st.mix, parseQuery args with
    | some ix, some q => (st, fmtResult (execute xxhash64 ix q))
    | _, _ => (st, "bad-op")
  | "qs" =>  -- specification
    match parseQuery args with
    | some q => (st, fmtResult (specExecute st.rows.toList q))
    | _ => (st, "bad-op")
  | "schema" =>
    match st.ix with
    | some ix => (st, fmtSchema (getSchema ix))
    | none => (st, "bad-op")
  | "schemaspec" => (st, fmtSchema (specSchema st.rows.toList))
  | "image" =>
    match st.mix with
    | some ix => (st, imageLine ix (Writer.addRows xxhash64 {} st.rows.toList))
    | none => (st, "bad-op")
  | "rows" =>  -- what database/sql must deliver for this query on this index
    match st.ix, parseQuery args with
    | some ix, some q =>
      match executeFast xxhash64 ix q with
      | none => (st, "err")
      | some r =>
        let rs := newRows r q.groupBy
        let cell : Cell → String := fun c => match c with | .text b => "t" ++ toHex b | .int n => s!"i{n}"
        (st, "ok cols=" ++ ",".intercalate (rs.cols.map toHex) ++ " types=" ++ ",".intercalate rs.types ++
          String.join (rs.rows.map fun r => " r " ++ ",".intercalate (r.map cell)))
    | _, _ => (st, "bad-op")
  | "ctrace" =>  -- Execute with the logging cache: the sequence of cache calls and the answer's count
    match st.ix, parseQuery args with
    | some ix, some q =>
      let r := executeC xxhash64 logCacheImpl ix (st.logc, []) q
      let ans := match r.2 with | none => "err" | some res => s!"ok {res.count}"
      ({ st with logc := r.1.1 }, ans ++ " " ++ " ".intercalate r.1.2)
    | _, _ => (st, "bad-op")
  | "ctrace-reset" => ({ st with logc := [] }, "ok")
  | "imagecount" =>  -- row counter and number of stored bitmaps (= distinct value indexes), for large datasets
    match st.ix with
    | some ix => (st, s!"ok I={ix.next} n={st.fast.ids.size}")
    | none => (st, "bad-op")
  | "imagebig" =>  -- the big writer model's output image (cursor walk over the sorted temp keys)
    let img := BigWriter.image xxhash64 st.rows.toList
    let keys := (img.1.map (·.1.toNat)).mergeSort (· ≤ ·)
    (st, s!"ok I={img.2.2} n={keys.length}" ++ String.join (keys.map fun k => " " ++ toHex (be64 k)))
  | "key" =>
    match parseExprToks args with
    | some (e, []) => (st, "ok " ++ toHex (be64 (cacheKey xxhash64 e).toNat))
    | _ => (st, "bad-op")
  | "hash" =>
    match hexs args with
    | some [c, v] => (st, "ok " ++ toHex (be64 (xxhash64 (encodePair c v)).toNat))
    | _ => (st, "bad-op")
  | _ => (st, "bad-op")


end Updog.Oracle
