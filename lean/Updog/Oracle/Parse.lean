/-
Oracle component for C09/C10/C11: `parse <hex>`, `fmt <tree>`, `bind <n> <arg>* <tree>`.
Trees in prefix form: `E <col> <val> <ph>` | `N <t>` | `A <n> <t>*` | `O <n> <t>*`, then `G <n> <field>*`.
-/
import Updog.Model.Formatter
namespace Updog.Oracle
open Updog

mutual
partial def showPExpr : PExpr → String
  | .eq c v ph => s!"E {toHex c} {toHex v} {ph}"
  | .not e => "N " ++ showPExpr e
  | .and es => s!"A {es.length}" ++ String.join (es.map fun e => " " ++ showPExpr e)
  | .or es => s!"O {es.length}" ++ String.join (es.map fun e => " " ++ showPExpr e)
end

def showPQuery (q : PQuery) : String :=
  showPExpr q.expr ++ s!" G {q.groupBy.length}" ++ String.join (q.groupBy.map fun f => " " ++ toHex f)

partial def readPExpr : List String → Option (PExpr × List String)
  | "E" :: c :: v :: ph :: rest => do
    let c ← fromHex c; let v ← fromHex v; let ph ← ph.toNat?
    pure (.eq c v ph, rest)
  | "N" :: rest => do
    let (e, rest) ← readPExpr rest
    pure (.not e, rest)
  | "A" :: n :: rest => do
    let n ← n.toNat?
    let (es, rest) ← readN n rest
    pure (.and es, rest)
  | "O" :: n :: rest => do
    let n ← n.toNat?
    let (es, rest) ← readN n rest
    pure (.or es, rest)
  | _ => none
where
  readN : Nat → List String → Option (List PExpr × List String)
    | 0, rest => some ([], rest)
    | n + 1, rest => do
      let (e, rest) ← readPExpr rest
      let (es, rest) ← readN n rest
      pure (e :: es, rest)

def readPQuery (ws : List String) : Option PQuery := do
  let (e, rest) ← readPExpr ws
  match rest with
  | "G" :: n :: fs =>
    let n ← n.toNat?
    if fs.length != n then none else
    let fs ← fs.mapM fromHex
    pure ⟨e, fs⟩
  | _ => none

def stepParse (cmd : String) (args : List String) : String :=
  match cmd, args with
  | "parse", [h] =>
    match fromHex h with
    | none => "bad-op"
    | some s =>
      match parseQuery s with
      | none => "err"
      | some q => "ok " ++ showPQuery q
  | "fmt", ws =>
    match readPQuery ws with
    | none => "bad-op"
    | some q => "ok " ++ toHex (fmtQuery q)
  | "bind", n :: rest =>
    match n.toNat? with
    | none => "bad-op"
    | some n =>
      if rest.length < n then "bad-op" else
      match (rest.take n).mapM fromHex, readPQuery (rest.drop n) with
      | some as, some q =>
        match bind q as with
        | .ok q' => s!"ok {maxPh q.expr} " ++ showPQuery q'
        | .error => s!"err {maxPh q.expr}"
        | _ => "panic"
      | _, _ => "bad-op"
  | _, _ => "bad-op"

end Updog.Oracle
