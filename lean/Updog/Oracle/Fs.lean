/-
Oracle component for C15/C06: `fs open kind=.. bucket=.. S=.. I=.. V=.. preload=..` and
`fs openkeys bucket=<b> I=<good|missing>`.
-/
import Updog.Model.Open
import Updog.Model.Create
namespace Updog.Oracle
open Updog

def kv (args : List String) (k : String) : Option String :=
  args.findSome? fun a => match a.splitOn "=" with
    | [k', v] => if k' == k then some v else none
    | _ => none

def outcomeStr : Outcome Unit → String
  | .ok _ => "ok" | .error => "err" | .panic => "panic" | .hang => "hang"

def stepFs (cmd : String) (args : List String) : String :=
  match cmd with
  | "open" =>
    match kv args "kind", kv args "bucket", kv args "S", kv args "I", kv args "V", kv args "preload" with
    | some kind, some bucket, some s, some i, some v, some pre =>
      let fs : Option FileState := match kind with
        | "absent" => some .absent
        | "garbage" => some .notBolt
        | "empty" => some .notBolt
        | "bolt" =>
          let sb := match s with | "good" => some Blob.good | "missing" => some Blob.missing | "bad" => some Blob.bad | _ => none
          let ic := match i with | "good" => some Counter.good | "missing" => some Counter.missing | "short" => some Counter.malformed | "long" => some Counter.malformed | _ => none
          -- a removed bitmap is not an undecodable one (preloading skips it, on-demand reads treat it as empty);
          -- garbage, a zero-length value and a truncated value are undecodable
          match sb, ic with
          | some sb, some ic => some (.bolt (bucket == "true") sb ic (v == "good" || v == "missing" || v == "emptyroaring"))
          | _, _ => none
        | _ => none
      match fs with
      | none => "bad-op"
      | some fs =>
        let r := openIndex fs ⟨pre == "true"⟩
        if r.2 != (r.1.isOk) then "model-lock-inconsistent" else outcomeStr r.1
    | _, _, _, _, _, _ => "bad-op"
  | "openkeys" =>
    -- a snapshot taken at a commit point: no value is undecodable; S is present iff I is (written together)
    match kv args "bucket", kv args "I" with
    | some b, some i =>
      let hdr := i == "good"
      outcomeStr (openIndex (.bolt (b == "true") (if hdr then .good else .missing) (if hdr then .good else .missing) true) ⟨false⟩).1
    | _, _ => "bad-op"
  | "hdr" =>
    match args with
    | [h] => match fromHex h with
      | some b => "ok " ++ toHex (normalizeHeader b)
      | none => "bad-op"
    | _ => "bad-op"
  | _ => "bad-op"

end Updog.Oracle
