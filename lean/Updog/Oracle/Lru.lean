/-
Oracle component for C07: `lru <max> <ovh> <op>*` runs a whole Put/Get history on the model and prints
the trace: after every op the Get answer, the resident keys in recency order and the accounted size.
op ::= `p:<key>:<bm>:<size>` | `g:<key>`
-/
import Updog.Model.Lru
namespace Updog.Oracle
open Updog

def parseLruOp (s : String) : Option LruOp :=
  match s.splitOn ":" with
  | ["g", k] => k.toNat?.map LruOp.get
  | ["p", k, b, sz] => do
    let k ← k.toNat?; let b ← b.toNat?; let sz ← sz.toNat?
    pure (LruOp.put k b sz)
  | _ => none

def lruTrace (c : Lru) : List LruOp → List String
  | [] => [s!"stats {c.gets} {c.puts} {c.hits} {c.misses}"]
  | op :: ops =>
    let (c', o) := c.step op
    let ans := match op, o with
      | .get _, some b => s!"h{b}"
      | .get _, none => "m"
      | .put .., _ => "p"
    let keys := ",".intercalate (c'.items.map fun it => toString it.key)
    s!"{ans};{keys};{c'.cur}" :: lruTrace c' ops

def stepLru (args : List String) : String :=
  match args with
  | max :: ovh :: ops =>
    match max.toNat?, ovh.toNat?, ops.mapM parseLruOp with
    | some max, some ovh, some ops => " ".intercalate (lruTrace { max := max, ovh := ovh } ops)
    | _, _, _ => "bad-op"
  | _ => "bad-op"

end Updog.Oracle
