/-
xxhash64 (seed 0) in core `UInt64` arithmetic, validated against cespare/xxhash by the
correspondence run (C05: the model predicts the exact bolt keys).
-/
import Updog.Basic.Bytes
namespace Updog.XX

def P1 : UInt64 := 11400714785074694791
def P2 : UInt64 := 14029467366897019727
def P3 : UInt64 := 1609587929392839161
def P4 : UInt64 := 9650029242287828579
def P5 : UInt64 := 2870177450012600261

@[inline] def rotl (x : UInt64) (r : UInt64) : UInt64 := (x <<< r) ||| (x >>> (64 - r))

@[inline] def round (acc input : UInt64) : UInt64 := rotl (acc + input * P2) 31 * P1

@[inline] def mergeRound (acc v : UInt64) : UInt64 := (acc ^^^ round 0 v) * P1 + P4

def readLE (a : ByteArray) (off n : Nat) : UInt64 := Id.run do
  let mut r : UInt64 := 0
  for i in [0:n] do
    r := r ||| ((a.get! (off + i)).toUInt64 <<< (8 * i).toUInt64)
  return r

def sum64 (a : ByteArray) : UInt64 := Id.run do
  let len := a.size
  let mut p := 0
  let mut h : UInt64 := 0
  if len ≥ 32 then
    let mut v1 : UInt64 := P1 + P2
    let mut v2 : UInt64 := P2
    let mut v3 : UInt64 := 0
    let mut v4 : UInt64 := 0 - P1
    while p + 32 ≤ len do
      v1 := round v1 (readLE a p 8)
      v2 := round v2 (readLE a (p + 8) 8)
      v3 := round v3 (readLE a (p + 16) 8)
      v4 := round v4 (readLE a (p + 24) 8)
      p := p + 32
    h := rotl v1 1 + rotl v2 7 + rotl v3 12 + rotl v4 18
    h := mergeRound h v1
    h := mergeRound h v2
    h := mergeRound h v3
    h := mergeRound h v4
  else
    h := P5
  h := h + len.toUInt64
  while p + 8 ≤ len do
    h := rotl (h ^^^ round 0 (readLE a p 8)) 27 * P1 + P4
    p := p + 8
  if p + 4 ≤ len then
    h := rotl (h ^^^ (readLE a p 4 * P1)) 23 * P2 + P3
    p := p + 4
  while p < len do
    h := rotl (h ^^^ ((a.get! p).toUInt64 * P5)) 11 * P1
    p := p + 1
  h := (h ^^^ (h >>> 33)) * P2
  h := (h ^^^ (h >>> 29)) * P3
  h := h ^^^ (h >>> 32)
  return h

end Updog.XX

namespace Updog
def xxhash64 (b : Bytes) : UInt64 := XX.sum64 (ByteArray.mk b.toArray)
end Updog
