/-
Go prelude: the primitives the source-to-source translator (extract/translate.go) emits into
`Updog/GeneratedFns.lean`. Core Lean only, everything executable. Each definition is a model of one Go builtin or
standard-library function on byte strings (Go `string` and `[]byte` are both `Updog.Bytes`).

Conventions of the translation
* Go `int` / `int64` / `int32` ↦ `Int` (exact integers; `int` is taken to be 64 bit and arithmetic is assumed not
  to overflow; the conversion `int32(x)` wraps, see `toInt32`), `byte` ↦ `UInt8`, `uint64` ↦ `UInt64`,
  `rune` ↦ `Nat` (a code point; only literals and comparisons are translated for runes),
  open(2) flag words (`int` in Go) ↦ `Nat`.
* The functions are total. Where Go would panic (index or slice bound out of range) the Lean function returns a
  default (`0`) or clamps the bound; the translated definitions therefore describe the Go function only on inputs on
  which it does not panic.
-/
import Updog.Basic.Bytes
namespace Updog.Go

/-! ### builtins -/

/-- `len(x)` -/
def len {α : Type} (l : List α) : Int := (l.length : Int)

/-- `s[i]` (Go panics if `i` is out of range; here: 0) -/
def index (s : Bytes) (i : Int) : UInt8 := if i < 0 then 0 else s.getD i.toNat 0

/-- `s[a:]` -/
def sliceFrom (s : Bytes) (a : Int) : Bytes := s.drop a.toNat
/-- `s[:b]` -/
def sliceTo (s : Bytes) (b : Int) : Bytes := s.take b.toNat
/-- `s[a:b]` -/
def slice (s : Bytes) (a b : Int) : Bytes := (s.take b.toNat).drop a.toNat

/-- `s[i] = b` on a `[]byte` (value semantics: the updated slice) -/
def setIndex (s : Bytes) (i : Int) (b : UInt8) : Bytes := if i < 0 then s else s.set i.toNat b

/-- `make([]byte, n)` / `make([]byte, n, cap)`: `n` zero bytes (the capacity has no observable value) -/
def makeBytes (n : Int) : Bytes := List.replicate n.toNat 0
/-- `make([]uint64, n)` / `make([]uint64, n, cap)` -/
def makeU64s (n : Int) : List UInt64 := List.replicate n.toNat 0

/-- `int32(x)` for an integer `x`: two's-complement wrap-around into [-2^31, 2^31) -/
def toInt32 (x : Int) : Int := (x + 2147483648) % 4294967296 - 2147483648

/-! ### package strings -/

/-- worker of `replaceAll`: `skip` = how many bytes of the input still belong to the occurrence just replaced -/
def replaceAux (old new : Bytes) : Nat → Bytes → Bytes
  | _, [] => []
  | skip + 1, _ :: r => replaceAux old new skip r
  | 0, c :: r =>
    if old.isPrefixOf (c :: r) then new ++ replaceAux old new (old.length - 1) r
    else c :: replaceAux old new 0 r

/-- `strings.ReplaceAll(s, old, new)` for non-empty `old`: the leftmost non-overlapping occurrences of `old`,
    scanning left to right, are replaced by `new`. (The translator only emits it with a non-empty literal `old`;
    Go's special behaviour for `old = ""` is not modelled.) -/
def replaceAll (s old new : Bytes) : Bytes := replaceAux old new 0 s

/-! ### package strconv -/

/-- decimal digits to a number, `none` on any other byte (no underscores in base 10) -/
def parseDigits : Bytes → Nat → Option Nat
  | [], acc => some acc
  | c :: r, acc =>
    if 48 ≤ c.toNat ∧ c.toNat ≤ 57 then parseDigits r (acc * 10 + (c.toNat - 48)) else none

/-- unsigned part: at least one digit -/
def parseMagnitude (s : Bytes) : Option Nat := if s.isEmpty then none else parseDigits s 0

/-- `strconv.ParseInt(s, 10, bits)` for `1 ≤ bits ≤ 64`: `some n` iff the returned error is nil.
    Optional sign `+`/`-`, then one or more decimal digits and nothing else; the value must lie in
    [-2^(bits-1), 2^(bits-1)). (Go first parses the magnitude as a uint64 and fails on overflow; such a
    magnitude is out of range for every `bits ≤ 64` anyway.) The value Go returns together with an error is not
    modelled: the translator refuses code that uses it. -/
def parseIntDec (bits : Nat) (s : Bytes) : Option Int :=
  match s with
  | [] => none
  | 43 :: r =>
    match parseMagnitude r with
    | some n => if n < 2 ^ (bits - 1) then some (n : Int) else none
    | none => none
  | 45 :: r =>
    match parseMagnitude r with
    | some n => if n ≤ 2 ^ (bits - 1) then some (-(n : Int)) else none
    | none => none
  | c :: r =>
    match parseMagnitude (c :: r) with
    | some n => if n < 2 ^ (bits - 1) then some (n : Int) else none
    | none => none

/-- `strconv.ParseInt(s, 10, 32)` -/
def parseInt32 (s : Bytes) : Option Int := parseIntDec 32 s
/-- `strconv.ParseInt(s, 10, 64)` -/
def parseInt64 (s : Bytes) : Option Int := parseIntDec 64 s

/-! ### package encoding/binary -/

/-- `binary.BigEndian.AppendUint64(buf, k)`: `buf` followed by `byte(k>>56), byte(k>>48), …, byte(k)` -/
def beAppendUint64 (buf : Bytes) (k : UInt64) : Bytes :=
  let n := k.toNat
  buf ++ [(n / 72057594037927936 % 256).toUInt8, (n / 281474976710656 % 256).toUInt8,
          (n / 1099511627776 % 256).toUInt8, (n / 4294967296 % 256).toUInt8,
          (n / 16777216 % 256).toUInt8, (n / 65536 % 256).toUInt8,
          (n / 256 % 256).toUInt8, (n % 256).toUInt8]

/-! ### bitwise operators on flag words, package os -/

/-- `a | b` -/
def or (a b : Nat) : Nat := a ||| b
/-- `a & b` -/
def and (a b : Nat) : Nat := a &&& b
/-- `a &^ b` (bit clear): the bits of `a` that are not set in `b` -/
def andNot (a b : Nat) : Nat := Nat.bitwise (fun x y => x && !y) a b

/-- `os.O_CREATE` = `syscall.O_CREAT` on linux -/
def O_CREATE : Nat := 0x40
/-- `os.O_EXCL` = `syscall.O_EXCL` on linux -/
def O_EXCL : Nat := 0x80

end Updog.Go
