/-
Go prelude, part T2: the primitives the translator (extract/translate_t2.go) emits for cache.go
(`container/list`, `map`, pointers to opaque objects, counter interfaces). Core Lean only, everything executable.

Conventions of this part of the translation
* A pointer to an object the translated code never looks into (`*roaring.Bitmap`) ↦ `Go.Ref`: the identity of
  the object as a number; `nil` ↦ `Go.nilRef`. Methods of such an object are parameters of the generated definition.
* A pointer to a struct of the package (`*LRUCache`, `*CacheMetrics`, `*lruCacheItem`) ↦ the struct value itself, in
  state-passing style: a method with a pointer receiver takes the struct and returns the updated struct.
  This is exact as long as the struct is reachable through ONE pointer path only, which the translator checks
  syntactically for the items (an item pointer is obtained from `elem.Value`, `Remove(…)` or a composite literal
  handed to `PushFront` and is never stored anywhere else).
* `*list.Element` ↦ `Go.Elem`: the identity of the element (a number; `nil` ↦ 0). `*list.List` ↦ `Go.LList α`:
  the elements front-first, each with its identity and its `Value` (of the one dynamic type `α` the package
  stores in the list), and the allocation counter from which `PushFront` takes the identity of a new element.
* `map[K]V` ↦ `Go.GoMap K V`: an association list read through `lookup` only.
* An interface value with the single method `Inc()` (`CounterMetric`) ↦ `Go.Counter`: `none` is the nil interface,
  `some n` a counter object that has received `n` calls of `Inc()`.
* `uint64` arithmetic (`+`, `-`) ↦ `UInt64` arithmetic: wraps modulo 2^64 exactly like Go.
* `sync.Mutex`: `c.mtx.Lock(); defer c.mtx.Unlock()` must be the first two statements of a translated method (the
  translator checks this and loses the method otherwise); the method body is then one atomic step on the struct.
* The functions are total; where Go would panic (`Remove(nil)`, `nil.Value`) they return the list unchanged / `default`.
-/
namespace Updog.Go

/-! ### opaque objects -/

/-- identity of an object behind a pointer the translated code does not dereference -/
abbrev Ref := Nat
/-- the nil pointer -/
def nilRef : Ref := 0
/-- `p == nil` -/
def Ref.isNil (p : Ref) : Bool := p == 0

/-! ### counter interfaces -/

/-- an interface value whose only method is `Inc()`: nil, or a counter that has been incremented `n` times -/
abbrev Counter := Option Nat
/-- `c == nil` -/
def Counter.isNil (c : Counter) : Bool := c.isNone
/-- `c.Inc()` (Go panics on a nil interface; here: no effect) -/
def Counter.inc (c : Counter) : Counter := c.map (· + 1)

/-! ### container/list -/

/-- identity of a `*list.Element`; 0 is the nil pointer -/
abbrev Elem := Nat

/-- a `*list.List` whose element values have type `α`: `(identity, Value)` front-first, and the identity the next
    inserted element gets -/
structure LList (α : Type) where
  elems : List (Elem × α)
  next : Elem
  deriving Repr

namespace LList
variable {α : Type}

/-- `list.New()`: identities start at 1 (0 is nil) -/
def new : LList α := ⟨[], 1⟩

instance : Inhabited (LList α) := ⟨new⟩

/-- `l.Len()` -/
def len (l : LList α) : Int := (l.elems.length : Int)

/-- `l.Front()`: the first element, nil if the list is empty -/
def front (l : LList α) : Elem :=
  match l.elems.head? with
  | some p => p.1
  | none => 0

/-- `l.Back()`: the last element, nil if the list is empty -/
def back (l : LList α) : Elem :=
  match l.elems.getLast? with
  | some p => p.1
  | none => 0

/-- `e.Value` (type-asserted to the value type) for an element `e` of `l`; `default` if `e` is not in `l` -/
def value [Inhabited α] (l : LList α) (e : Elem) : α :=
  match l.elems.find? (·.1 == e) with
  | some p => p.2
  | none => default

/-- a write through the pointer `e.Value` of an element `e` of `l`: the value of `e` becomes `v` -/
def setValue (l : LList α) (e : Elem) (v : α) : LList α :=
  { l with elems := l.elems.map fun p => if p.1 == e then (p.1, v) else p }

/-- `l.MoveToFront(e)`: "moves element e to the front of list l. If e is not an element of l, the list is not
    modified." -/
def moveToFront (l : LList α) (e : Elem) : LList α :=
  match l.elems.find? (·.1 == e) with
  | some p => { l with elems := p :: l.elems.filter (·.1 != e) }
  | none => l

/-- `l.MoveToBack(e)` -/
def moveToBack (l : LList α) (e : Elem) : LList α :=
  match l.elems.find? (·.1 == e) with
  | some p => { l with elems := l.elems.filter (·.1 != e) ++ [p] }
  | none => l

/-- `l.PushFront(v)`: "inserts a new element e with value v at the front of list l and returns e": the new list
    and the new element, whose identity is fresh -/
def pushFront (l : LList α) (v : α) : LList α × Elem :=
  ({ elems := (l.next, v) :: l.elems, next := l.next + 1 }, l.next)

/-- `l.PushBack(v)` -/
def pushBack (l : LList α) (v : α) : LList α × Elem :=
  ({ elems := l.elems ++ [(l.next, v)], next := l.next + 1 }, l.next)

/-- `l.Remove(e)`: "removes e from l if e is an element of list l. It returns the element value e.Value":
    the new list and the value -/
def remove [Inhabited α] (l : LList α) (e : Elem) : LList α × α :=
  ({ l with elems := l.elems.filter (·.1 != e) }, l.value e)

end LList

/-! ### maps -/

/-- `map[K]V`; only `lookup` looks at the representation -/
structure GoMap (K V : Type) where
  kvs : List (K × V)
  deriving Repr

namespace GoMap
variable {K V : Type} [BEq K]

/-- `make(map[K]V)` -/
def empty : GoMap K V := ⟨[]⟩

instance : Inhabited (GoMap K V) := ⟨⟨[]⟩⟩

/-- `v, ok := m[k]`: the value and `true`, or the zero value and `false` -/
def lookup [Inhabited V] (m : GoMap K V) (k : K) : V × Bool :=
  match m.kvs.find? (·.1 == k) with
  | some p => (p.2, true)
  | none => (default, false)

/-- `m[k] = v` -/
def insert (m : GoMap K V) (k : K) (v : V) : GoMap K V := ⟨(k, v) :: m.kvs.filter (·.1 != k)⟩

/-- `delete(m, k)` -/
def delete (m : GoMap K V) (k : K) : GoMap K V := ⟨m.kvs.filter (·.1 != k)⟩

/-- `len(m)` (only if `insert`/`delete` built the map: keys are then unique) -/
def len (m : GoMap K V) : Int := (m.kvs.length : Int)

end GoMap

/-! ### package unsafe -/

/-- `unsafe.Sizeof(list.Element{})` on a 64-bit platform: `next, prev *Element; list *List` (3 × 8 bytes) and
    `Value any` (16 bytes) -/
def sizeofListElement : UInt64 := 40

end Updog.Go
