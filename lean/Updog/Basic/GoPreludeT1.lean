/-
Go prelude, part T1: primitives for the translated `eval` methods, `Index.Execute` and `validateExpr` of query.go
(emitted by extract/translate_t1.go into `Updog/GeneratedFns.lean`). Core Lean only, everything executable.

Conventions of this part of the translation
* `*roaring.Bitmap` ↦ `Option Nat`: `none` is the nil pointer, `some b` a bitmap whose elements are the positions of
  the one bits of `b`. A roaring operation applied to a nil pointer panics in Go; here it yields `none`, and a
  function result `(st, none)` therefore means "an error was returned, or the function panicked on a nil bitmap".
* `error` ↦ `Bool` (`true`: a non-nil error). The message of an error is not modelled.
* `uint32` ↦ `UInt32`, `uint64` ↦ `UInt64`.
* The state of the `Cache` behind `idx.cache` is threaded explicitly through the translated function as `st`,
  in source order: every `Get`/`Put` call and every call of an operand's `eval` consumes the current state and
  yields the next one.
* A `for … range` loop with a `return` in its body becomes a structurally recursive helper returning `Flow`.
-/
import Updog.Basic.GoPrelude
import Updog.Basic.GoFlow
namespace Updog.Go

/- `Flow` (how control leaves a translated loop) is in Basic/GoFlow.lean -/

/-! ### what the translated methods of query.go can see of an `*Index` -/

/-- the members of `*Index` used by query.go, over the cache state `σ` -/
structure IndexEnv (σ : Type) where
  /-- `idx.cache.Get(key)`: new cache state, and `some bm` iff found -/
  cacheGet : σ → UInt64 → σ × Option Nat
  /-- `idx.cache.Put(key, bm)` for a non-nil `bm` -/
  cachePut : σ → UInt64 → Nat → σ
  /-- `_, ok := idx.schema.Columns[name]` -/
  hasColumn : Bytes → Bool
  /-- `idx.values.GetCol(key)`: the returned pointer, and whether the returned error is non-nil -/
  getCol : UInt64 → Option Nat × Bool
  /-- `idx.nextRowID` -/
  nextRowID : UInt32

/-- `idx.cache.Put(key, bm)` for a pointer `bm`; putting a nil bitmap is not modelled (`LRUCache.Put` would
    dereference it): the state stays as it is -/
def cachePut {σ : Type} (idx : IndexEnv σ) (st : σ) (key : UInt64) (bm : Option Nat) : σ :=
  match bm with
  | some b => idx.cachePut st key b
  | none => st

/-! ### package roaring, on `Nat` bit sets -/

/-- the bitmap with exactly the bits `lo ≤ i < hi` negated -/
def flipRange (b lo hi : Nat) : Nat := b ^^^ (2 ^ hi - 2 ^ lo)

/-- intersection of all operands; no operand: the empty bitmap -/
def fastAnd : List Nat → Nat
  | [] => 0
  | [b] => b
  | b :: bs => b &&& fastAnd bs

/-- union of all operands -/
def fastOr : List Nat → Nat
  | [] => 0
  | b :: bs => b ||| fastOr bs

/-- number of one bits -/
def cardinality (b : Nat) : Nat := ((List.range (b.log2 + 1)).filter b.testBit).length

/-- all pointers of a slice dereferenced; `none` if one of them is nil -/
def derefAll : List (Option Nat) → Option (List Nat)
  | [] => some []
  | none :: _ => none
  | some b :: r => (derefAll r).map (b :: ·)

/-- `roaring.New()` -/
def bmNew : Option Nat := some 0

/-- `roaring.Flip(bm, lo, hi)`: a NEW bitmap, `bm` with the range `[lo, hi)` negated -/
def bmFlip (bm : Option Nat) (lo hi : UInt64) : Option Nat := bm.map (flipRange · lo.toNat hi.toNat)

/-- `roaring.FastAnd(elems...)`: a new bitmap -/
def bmFastAnd (elems : List (Option Nat)) : Option Nat := (derefAll elems).map fastAnd

/-- `roaring.FastOr(elems...)`: a new bitmap -/
def bmFastOr (elems : List (Option Nat)) : Option Nat := (derefAll elems).map fastOr

/-- `bm.GetCardinality()` of a non-nil bitmap -/
def bmCardinality (b : Nat) : Nat := cardinality b

/-! ### type switch on an `Expression` -/

/-- what `switch v := e.(type)` with the cases `*ExprEqual`, `*ExprNot`, `*ExprAnd`, `*ExprOr` and `default` sees:
    the case taken, whether the pointer `v` is nil, and the operand member(s) of `*v` (meaningless if `v` is nil).
    `other` is the nil interface value or any other implementation of `Expression`. -/
inductive ExprCase (ε : Type) where
  | equal (isNil : Bool)
  | not (isNil : Bool) (expr : ε)
  | and (isNil : Bool) (exprs : List ε)
  | or (isNil : Bool) (exprs : List ε)
  | other

end Updog.Go
