/-
Go prelude, part T6: the primitives the translator (extract/translate_t6.go) emits for the group-by code of query.go
and `GetSchema` of index.go. Core Lean only, everything executable.

Conventions of the translation (in addition to those of GoPrelude.lean)
* a Go struct type of the package ↦ a Lean `structure` with the same field names, emitted from the Go declaration;
  a pointer to a struct that is only read ↦ the structure itself (assignments through such a pointer are refused);
* `[]T` ↦ `List T` with VALUE semantics. Go slices alias their backing array; the translator therefore accepts
  `append(x, …)` only in the forms `x = append(x, …)` (accumulator idiom) or on a slice `x` that was freshly created in
  the same block (`make`+`copy`, `append([]T{}, …)`, `slices.Clone`), and refuses every other `append`;
* `map[string]T` ↦ `List (Bytes × T)`: the entries in SOME order (Go's iteration order is unspecified; the theorems
  about the generated definitions hold for every order). Lookup takes the first entry with the key (Go maps have
  no duplicate keys);
* `*roaring.Bitmap` ↦ `Nat` (bit set of row ids), `error` ↦ `Option Go.Err` (`nil` ↦ `none`);
* a method with pointer receiver `q` that assigns `q.f` takes the fields of `q` it uses as parameters `q_f` and
  returns the new values of the assigned ones next to its result.
-/
import Updog.Basic.GoPrelude
import Updog.Basic.GoFlow
namespace Updog.Go

/-! ### errors -/

/-- a non-nil `error` made by `fmt.Errorf(format, args…)`: the format and the (string) arguments, uninterpreted -/
structure Err where
  format : Bytes
  args : List Bytes
  deriving Repr, DecidableEq

/-- `fmt.Errorf(format, args…)` -/
def errorf (format : Bytes) (args : List Bytes) : Err := ⟨format, args⟩

/-! ### control flow of a loop that contains `return` -/

/- `Flow` (how control leaves a translated loop) is in Basic/GoFlow.lean -/

/-! ### slices and maps -/

/-- `make([]T, n)` / `make([]T, n, cap)`: `n` zero values (the capacity has no observable value) -/
def makeSlice {α : Type} (zero : α) (n : Int) : List α := List.replicate n.toNat zero

/-- `copy(dst, src)`: the new contents of `dst` (the first `min(len(dst), len(src))` elements are overwritten) -/
def copy {α : Type} (dst src : List α) : List α := src.take dst.length ++ dst.drop src.length

/-- `v, ok := m[k]` on a `map[string]T`: `none` ⇔ `ok == false` -/
def mapLookup {β : Type} (m : List (Bytes × β)) (k : Bytes) : Option β :=
  match m with
  | [] => none
  | (k', v) :: rest => if k' == k then some v else mapLookup rest k

/-! ### package sort -/

/-- insert `a` into a list sorted by `less`, before the first element that is not `less` than `a` -/
def insertBy {α : Type} (less : α → α → Bool) (a : α) : List α → List α
  | [] => [a]
  | b :: r => if less b a then b :: insertBy less a r else a :: b :: r

/-- `sort.Slice(x, func(i, j int) bool { return less(x[i], x[j]) })` (also `sort.Strings`, `sort.SliceStable`):
    the new contents of `x`, computed by insertion sort.
    TRUSTED ASSUMPTION: Go's `sort.Slice` yields a permutation of `x` in which no element is `less` than an earlier
    one. It is not stable, so this primitive describes it only when `less` is a strict total order on the elements
    of `x` (no two elements with equal keys): then that permutation is unique. The translated code sorts the keys
    of a Go map by `<` on strings, where this holds. -/
def sortSlice {α : Type} (less : α → α → Bool) (x : List α) : List α := x.foldr (insertBy less) []

/-! ### package roaring -/

/-- `roaring.And(a, b)` -/
def bmAnd (a b : Nat) : Nat := a &&& b

/-- number of set bits among the lowest `fuel` binary digits -/
def bmPopcountAux : Nat → Nat → Nat
  | 0, _ => 0
  | fuel + 1, n => if n = 0 then 0 else n % 2 + bmPopcountAux fuel (n / 2)

/-- number of set bits (`n` has fewer than `n + 1` binary digits) -/
def bmPopcount (n : Nat) : Nat := bmPopcountAux n n

/-- `b.GetCardinality()` (a `uint64`; a roaring bitmap holds at most 2^32 row ids) -/
def bmCard (b : Nat) : UInt64 := (bmPopcount b).toUInt64

end Updog.Go
