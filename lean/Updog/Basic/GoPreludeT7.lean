/-
Go prelude, part T7: what the translator (extract/translate_t7.go) needs on top of part T3 for the functions that
OPEN and CLOSE database files: `(*IndexWriter).Flush`, `NewIndexWriter` (writer.go), `NewBigIndexWriter`,
`(*BigIndexWriter).Flush`, `(*BigIndexWriter).Close` (writer_big.go), `OpenIndex`, `(*Index).Close` (index.go) and
`openfile.OpenFile` (internal/openfile/openfile.go).
Core Lean only, everything executable.

Conventions (in addition to those of GoPreludeT3.lean)
* A new world `fs : Fs`: the directory (path ↦ file) as `os.OpenFile` and `bbolt.Open` see it, and a counter of
  database handles. `bbolt.Open` is the ONLY producer of a `Bolt` record: a function that opens a database does not take
  the world `bolt` as a parameter, it gets it from `boltOpen` (and returns it); the translator refuses any use of `bolt`
  before the `bbolt.Open` statement.
* The lock of the handle this function opened is, as in part T3, `!bolt.closed`: it is held from a successful
  `boltOpen` to `dbClose`; a failed `boltOpen` returns a record that is already closed (bbolt's own clean-up).
  The flocks of OTHER open file descriptions are data of the file (`Node.locks`).
* While a read-write handle is open the content of the file is `bolt.committed`; `Fs` keeps the content it had when
  the handle was opened (for a file created by the open: an initialised, bucket-less bolt file).
* A writer with two databases (`BigIndexWriter`: `db`, `tempDB`) has two worlds of type `Bolt`: `bolt` for `db`,
  `tbolt` for `tempDB` / `tempTx`; every `*bbolt.DB` / `*bbolt.Tx` / `*bbolt.Bucket` / `*bbolt.Cursor` value belongs
  to one of them (decided from the field or parameter it comes from), and the translator passes that world.
* A value of type `func(string, int, os.FileMode) (*os.File, error)` is represented by what it does to the flag word
  before it calls `os.OpenFile(path, ·, mode)` (the only such functions in the code base are `os.OpenFile` itself and
  the two literals of `openfile.OpenFile`, whose shape the translator checks).
-/
import Updog.Basic.GoPreludeT3
namespace Updog.Go.T7
open Updog.Go.T3

/-! ### internal/openfile, bbolt.Options -/

/-- `openfile.Options` -/
structure OpenFileOptions where
  FailIfFileExists : Bool := false
  FailIfFileDoesntExist : Bool := false
  deriving Repr, DecidableEq

/-- `func(path, flags, mode)` = `os.OpenFile(path, f flags, mode)`, as `f` -/
abbrev OpenFileFn := Nat → Nat

/-- `os.OpenFile` itself -/
def osOpenFileFn : OpenFileFn := fun flags => flags

/-- the fields of `bbolt.Options` this code base sets (`Timeout` is never set: 0 = wait for the flock forever) -/
structure BoltOptions where
  ReadOnly : Bool := false
  /-- `nil` ↦ `none`: bbolt uses `os.OpenFile` -/
  OpenFile : Option OpenFileFn := none

/-! ### files -/

/-- linux `O_RDONLY`, `O_RDWR` (the access mode is `flags &&& 3`) -/
def O_RDONLY : Nat := 0
def O_RDWR : Nat := 2

inductive File where
  /-- a file of length 0 (what `open(2)` with `O_CREAT` leaves behind; bbolt initialises it when it may write) -/
  | empty
  /-- anything else that is not a bolt database -/
  | garbage
  /-- a bolt database with these committed buckets -/
  | bolt (committed : Buckets)
  deriving Repr

structure Node where
  content : File
  /-- flocks held on this file by other open file descriptions (`true` = `LOCK_EX`, `false` = `LOCK_SH`) -/
  locks : List Bool := []
  deriving Repr

structure Fs where
  /-- at most one entry per path -/
  files : List (Bytes × Node) := []
  /-- fresh `*bbolt.DB` identity -/
  next : Nat := 0
  deriving Repr

def filesGet (fs : List (Bytes × Node)) (path : Bytes) : Option Node :=
  match fs with
  | [] => none
  | (p, n) :: rest => if p == path then some n else filesGet rest path

def filesSet (fs : List (Bytes × Node)) (path : Bytes) (n : Node) : List (Bytes × Node) :=
  match fs with
  | [] => [(path, n)]
  | (p, n') :: rest => if p == path then (p, n) :: rest else (p, n') :: filesSet rest path n

def Fs.get (fs : Fs) (path : Bytes) : Option Node := filesGet fs.files path
def Fs.set (fs : Fs) (path : Bytes) (n : Node) : Fs := { fs with files := filesSet fs.files path n }

def hasFlag (flags f : Nat) : Bool := flags &&& f == f

/-- `os.OpenFile(path, flags, mode)` as far as the flags decide it (POSIX open(2); permissions are not modelled):
    an existing path fails with `EEXIST` iff `O_CREAT` and `O_EXCL` are both set and is otherwise opened untouched;
    an absent path is created (empty) iff `O_CREAT` is set and fails with `ENOENT` otherwise.
    Result: the directory afterwards and "a descriptor was returned". -/
def osOpenFile (fs : Fs) (path : Bytes) (flags : Nat) (mode : Nat) : Fs × Bool :=
  let _ := mode
  match fs.get path with
  | some _ => if hasFlag flags Go.O_CREATE && hasFlag flags Go.O_EXCL then (fs, false) else (fs, true)
  | none => if hasFlag flags Go.O_CREATE then (fs.set path { content := .empty }, true) else (fs, false)

def errOpen : Error := some [111, 112, 101, 110]
def errInvalid : Error := some [105, 110, 118, 97, 108, 105, 100]
/-- NOT an error Go code ever sees: `flock` is retried forever (`Timeout == 0`), the call does not return -/
def errWouldBlock : Error := some [104, 97, 110, 103]

/-- would `flock(fd, LOCK_SH|LOCK_NB)` (read-only) / `flock(fd, LOCK_EX|LOCK_NB)` fail with `EWOULDBLOCK`? -/
def flockBlocked (readOnly : Bool) (locks : List Bool) : Bool :=
  if readOnly then locks.any (fun ex => ex) else !locks.isEmpty

/-- **`bbolt.Open(path, mode, options)`** (bbolt v1.4 db.go):
    1. flags := `O_RDONLY` if `ReadOnly` else `O_RDWR|O_CREATE`; the file is opened with `options.OpenFile`
       (`os.OpenFile` if nil); on failure `(nil, err)`.
    2. `flock` (shared if read-only, else exclusive); a conflicting lock makes it wait forever: `errWouldBlock`.
    3. a file of size 0 is initialised (which fails on a read-only descriptor); otherwise the meta pages are validated.
    On every failure bbolt closes the descriptor itself: the returned record is closed and the handle is nil.
    The returned `Bolt` has the fresh identity `fs.next`. -/
def boltOpen (fs : Fs) (path : Bytes) (mode : Nat) (o : BoltOptions) : Fs × Bolt × DBRef × Error :=
  let flag : Nat := if o.ReadOnly then O_RDONLY else Go.or O_RDWR Go.O_CREATE
  let flags : Nat := match o.OpenFile with
    | none => flag
    | some f => f flag
  let h := fs.next
  let dead : Bolt := { id := h, closed := true }
  let fs : Fs := { fs with next := h + 1 }
  match osOpenFile fs path flags mode with
  | (fs, false) => (fs, dead, none, errOpen)
  | (fs, true) =>
    match fs.get path with
    | none => (fs, dead, none, errOpen)
    | some node =>
      if flockBlocked o.ReadOnly node.locks then (fs, dead, none, errWouldBlock)
      else
        match node.content with
        | .garbage => (fs, dead, none, errInvalid)
        | .empty =>
          if o.ReadOnly then (fs, dead, none, errInvalid)
          else (fs.set path { node with content := .bolt [] }, { id := h, committed := [] }, some h, none)
        | .bolt c => (fs, { id := h, committed := c }, some h, none)

/-! ### small additions to part T3 -/

/-- `fmt.Errorf("… %d", n)`: a non-nil error (the message is not modelled beyond its literal part) -/
def errorfInt (msg : Bytes) (n : Int) : Error := let _ := n; some msg

/-- `bm.RunOptimize()`: changes the representation of the bitmap, not the set -/
def bitmapRunOptimize (hp : Heap) (p : Ptr) : Heap := let _ := p; hp

/-! ### sync.WaitGroup and `go`

The translator runs a goroutine `go func(…){…}(…)` to completion at the `go` statement. That is ONE schedule. It is the
meaning of the Go code only when the goroutines of a function do not interfere (in `(*IndexWriter).optimize` each one
touches its own `*roaring.Bitmap` and the `WaitGroup`) and the function waits for all of them before it returns; the
second condition is what the counter below records. -/

/-- `sync.WaitGroup`: its counter. `misuse`: the counter went negative (Go panics), or `Wait` was reached with a counter
    that is not 0 although every goroutine started so far has finished (Go would block forever). -/
structure WaitGroup where
  n : Int := 0
  misuse : Bool := false
  deriving Repr, DecidableEq

def wgAdd (w : WaitGroup) (d : Int) : WaitGroup := { n := w.n + d, misuse := w.misuse || decide (w.n + d < 0) }
def wgDone (w : WaitGroup) : WaitGroup := wgAdd w (-1)
def wgWait (w : WaitGroup) : WaitGroup := { w with misuse := w.misuse || decide (w.n ≠ 0) }

end Updog.Go.T7
